(* C19 -- the EnvGen / IEnvGen array formats: layout, shape numbers, wrapping. *)
From Coq Require Import ZArith QArith String List Bool Lia Arith.
Require Import SC3.lib.PyNum SC3.gen.Gen_envtables SC3.model.Env.
Import ListNotations.
Open Scope list_scope.
Open Scope Z_scope.

(* ------------------------------------------------------------------ association lists *)
Lemma assoc_none k l : ~ In k (map fst l) -> assoc k l = None.
Proof.
  induction l as [|[k' v] r IH]; simpl; intros Hn; [reflexivity|].
  destruct (String.eqb_spec k k') as [->|Hne]; [exfalso; apply Hn; left; reflexivity|].
  apply IH. intros Hin. apply Hn. right. exact Hin.
Qed.

Definition optz_eqb (a b : option Z) : bool :=
  match a, b with Some x, Some y => x =? y | None, None => true | _, _ => false end.
Lemma optz_eqb_eq a b : optz_eqb a b = true -> a = b.
Proof. destruct a, b; simpl; intros H; try discriminate; [apply Z.eqb_eq in H; subst|]; reflexivity. Qed.

Lemma assoc_ext l1 l2 :
  forallb (fun k => optz_eqb (assoc k l1) (assoc k l2)) (map fst l1 ++ map fst l2) = true ->
  forall k, assoc k l1 = assoc k l2.
Proof.
  intros H k. rewrite forallb_forall in H.
  destruct (in_dec string_dec k (map fst l1 ++ map fst l2)) as [Hin|Hn].
  - apply optz_eqb_eq, H, Hin.
  - rewrite !assoc_none; [reflexivity| |]; intros Hi; apply Hn, in_or_app; [right|left]; exact Hi.
Qed.

(* the regenerated table of sc3 is, as a function on ALL strings, the server's table *)
Lemma shape_table_matches : forall s, assoc s env_shape_names = assoc s server_shape_names.
Proof. apply assoc_ext. vm_compute. reflexivity. Qed.
Lemma numeric_shape_matches : env_numeric_shape = server_numeric_shape.
Proof. reflexivity. Qed.
Lemma absent_node_matches : env_absent_node = server_absent_node.
Proof. reflexivity. Qed.

Lemma shape_number_server c :
  shape_number c = match server_shape c with Some k => Ok k | None => Err ValueError end.
Proof.
  destruct c as [s|x]; cbn [shape_number server_shape]; [rewrite shape_table_matches; reflexivity|].
  rewrite numeric_shape_matches. reflexivity.
Qed.

Lemma shape_numbers_all c k : server_shape c = Some k <-> shape_number c = Ok k.
Proof.
  rewrite shape_number_server. destruct (server_shape c); split; intros H; inversion H; reflexivity.
Qed.

(* ------------------------------------------------------------------ wrap_extend *)
Lemma concat_repeat_length {A} (l : list A) k : length (concat (repeat l k)) = (k * length l)%nat.
Proof. induction k; simpl; [reflexivity|]. rewrite app_length, IHk. reflexivity. Qed.

Lemma wrap_extend_unfold {A} (l : list A) n : l <> [] ->
  wrap_extend l n = concat (repeat l (n / length l)) ++ firstn (n mod length l) l.
Proof. intros Hl. destruct l; [contradiction|reflexivity]. Qed.
Lemma length_nonzero {A} (l : list A) : l <> [] -> length l <> 0%nat.
Proof. destruct l; [contradiction|simpl; discriminate]. Qed.

Lemma wrap_extend_length {A} (l : list A) n : l <> [] -> length (wrap_extend l n) = n.
Proof.
  intros Hl. rewrite wrap_extend_unfold by exact Hl. pose proof (length_nonzero l Hl) as Hlen.
  rewrite app_length, concat_repeat_length, firstn_length.
  pose proof (Nat.mod_upper_bound n (length l) Hlen).
  rewrite Nat.min_l by lia.
  pose proof (Nat.div_mod n (length l) Hlen). lia.
Qed.

Lemma nth_concat_repeat {A} (l : list A) k i d :
  (i < k * length l)%nat -> nth i (concat (repeat l k)) d = nth (i mod length l) l d.
Proof.
  revert i. induction k as [|k IH]; intros i Hi; [simpl in Hi; lia|].
  simpl. assert (Hlen : length l <> 0%nat) by (destruct l; simpl in *; [lia|discriminate]).
  destruct (Nat.lt_ge_cases i (length l)) as [Hlt|Hge].
  - rewrite app_nth1 by exact Hlt. rewrite Nat.mod_small by exact Hlt. reflexivity.
  - rewrite app_nth2 by exact Hge. rewrite IH by (simpl in Hi; lia).
    f_equal. replace i with ((i - length l) + 1 * length l)%nat at 2 by lia.
    rewrite Nat.mod_add by exact Hlen. reflexivity.
Qed.

Lemma nth_firstn_lt {A} (l : list A) : forall n i d, (i < n)%nat -> nth i (firstn n l) d = nth i l d.
Proof.
  induction l as [|a r IH]; intros n i d Hi; [rewrite firstn_nil; reflexivity|].
  destruct n; [lia|]. destruct i; simpl; [reflexivity|]. apply IH. lia.
Qed.

(* "times are wrapped to the number of segments" *)
Lemma wrap_extend_nth {A} (l : list A) n i d :
  l <> [] -> (i < n)%nat -> nth i (wrap_extend l n) d = nth (i mod length l) l d.
Proof.
  intros Hl Hi. rewrite wrap_extend_unfold by exact Hl. pose proof (length_nonzero l Hl) as Hlen.
  pose proof (Nat.div_mod n (length l) Hlen) as Hdm.
  pose proof (Nat.mod_upper_bound n (length l) Hlen) as Hmb.
  destruct (Nat.lt_ge_cases i ((n / length l) * length l)) as [Hlt|Hge].
  - rewrite app_nth1 by (rewrite concat_repeat_length; exact Hlt).
    apply nth_concat_repeat. exact Hlt.
  - rewrite app_nth2 by (rewrite concat_repeat_length; exact Hge).
    rewrite concat_repeat_length.
    assert (Hj : (i - n / length l * length l < n mod length l)%nat) by lia.
    rewrite nth_firstn_lt by exact Hj.
    f_equal. replace i with ((i - n / length l * length l) + (n / length l) * length l)%nat at 2 by lia.
    rewrite Nat.mod_add by exact Hlen. rewrite Nat.mod_small by lia. reflexivity.
Qed.

(* ------------------------------------------------------------------ encoding of segments *)
Fixpoint encode_segs (l : list seg) : list num :=
  match l with
  | [] => []
  | s :: r => s_target s :: s_dur s :: s_shape s :: s_curve s :: encode_segs r
  end.
Fixpoint iencode_segs (l : list seg) : list num :=
  match l with
  | [] => []
  | s :: r => s_dur s :: s_shape s :: s_curve s :: s_target s :: iencode_segs r
  end.
Definition encode_env (d : decoded) : list num :=
  d_init d :: I (d_n d) :: d_rel d :: d_loop d :: encode_segs (d_segs d).
Definition encode_ienv (d : idecoded) : list num :=
  i_offset d :: i_init d :: I (i_n d) :: i_total d :: iencode_segs (i_segs d).

Lemma take_segs_encode l : take_segs (length l) (encode_segs l) = Some l.
Proof. induction l as [|[a b c d] r IH]; simpl; [reflexivity|]. rewrite IH. reflexivity. Qed.
Lemma take_isegs_encode l : take_isegs (length l) (iencode_segs l) = Some l.
Proof. induction l as [|[a b c d] r IH]; simpl; [reflexivity|]. rewrite IH. reflexivity. Qed.
Lemma encode_segs_length l : length (encode_segs l) = (4 * length l)%nat.
Proof. induction l; simpl; [reflexivity|]. rewrite IHl. lia. Qed.
Lemma iencode_segs_length l : length (iencode_segs l) = (4 * length l)%nat.
Proof. induction l; simpl; [reflexivity|]. rewrite IHl. lia. Qed.

Lemma decode_encode d : d_n d = Z.of_nat (length (d_segs d)) -> decode_env (encode_env d) = Ok d.
Proof.
  intros Hn. destruct d as [i n r l s]; simpl in *. subst n.
  destruct (Z.ltb_spec (Z.of_nat (length s)) 0); [lia|].
  rewrite Nat2Z.id, take_segs_encode. reflexivity.
Qed.
Lemma idecode_encode d : i_n d = Z.of_nat (length (i_segs d)) -> decode_ienv (encode_ienv d) = Ok d.
Proof.
  intros Hn. destruct d as [o i n t s]; simpl in *. subst n.
  destruct (Z.ltb_spec (Z.of_nat (length s)) 0); [lia|].
  rewrite Nat2Z.id, take_isegs_encode. reflexivity.
Qed.

(* ------------------------------------------------------------------ the loop *)
Definition seg_at (lv tm : list num) (cv : list curve) (i0 j : nat) : seg :=
  let c := wrap_at cv (i0 + j) (CName "") in
  {| s_target := nth j lv NErr; s_dur := nth j tm NErr;
     s_shape := I (match server_shape c with Some k => k | None => -1 end);
     s_curve := match c with CNum x => x | CName _ => I 0 end |}.

Lemma wrap_at_in {A} (l : list A) i d : l <> [] -> In (wrap_at l i d) l.
Proof.
  intros Hl. unfold wrap_at. apply nth_In. apply Nat.mod_upper_bound. destruct l; [contradiction|simpl; discriminate].
Qed.
Lemma nth_default_irrel {A} (l : list A) i d d' : (i < length l)%nat -> nth i l d = nth i l d'.
Proof. intros. apply nth_indep. assumption. Qed.

Definition curves_ok (cv : list curve) : Prop := cv <> [] /\ forallb valid_curve cv = true.

Lemma fmt_segments_cons l lv' t tm' cv i : cv <> [] ->
  fmt_segments (l :: lv') (t :: tm') cv i =
  (let c := wrap_at cv i (CName "") in
   do sh <- shape_number c; do rest <- fmt_segments lv' tm' cv (S i);
   Ok (l :: t :: I sh :: curve_value c :: rest)).
Proof.
  intros Hne. destruct cv as [|c0 cr]; [contradiction|]. cbn [fmt_segments]. unfold wrap_at.
  rewrite (nth_indep (c0 :: cr) c0 (CName "")) by (apply Nat.mod_upper_bound; simpl; discriminate).
  reflexivity.
Qed.
Lemma ifmt_segments_cons l lv' t tm' cv i : cv <> [] ->
  ifmt_segments (l :: lv') (t :: tm') cv i =
  (let c := wrap_at cv i (CName "") in
   do sh <- shape_number c; do rest <- ifmt_segments lv' tm' cv (S i);
   Ok (t :: I sh :: curve_value c :: l :: rest)).
Proof.
  intros Hne. destruct cv as [|c0 cr]; [contradiction|]. cbn [ifmt_segments]. unfold wrap_at.
  rewrite (nth_indep (c0 :: cr) c0 (CName "")) by (apply Nat.mod_upper_bound; simpl; discriminate).
  reflexivity.
Qed.

Lemma fmt_segments_spec tm : forall lv i0 cv,
  length lv = length tm -> (tm <> [] -> curves_ok cv) ->
  fmt_segments lv tm cv i0 = Ok (encode_segs (map (seg_at lv tm cv i0) (seq 0 (length tm))))
  /\ ifmt_segments lv tm cv i0 = Ok (iencode_segs (map (seg_at lv tm cv i0) (seq 0 (length tm)))).
Proof.
  induction tm as [|t tm' IH]; intros lv i0 cv Hlen Hcv; [split; reflexivity|].
  destruct lv as [|l lv']; [discriminate|]. simpl in Hlen.
  destruct Hcv as [Hne Hval]; [discriminate|].
  assert (Hv : valid_curve (wrap_at cv i0 (CName "")) = true).
  { rewrite forallb_forall in Hval. apply Hval, wrap_at_in. exact Hne. }
  destruct (IH lv' (S i0) cv) as [IH1 IH2]; [lia|intros _; split; assumption|].
  assert (Hmap : map (seg_at (l :: lv') (t :: tm') cv i0) (seq 1 (length tm'))
                 = map (seg_at lv' tm' cv (S i0)) (seq 0 (length tm'))).
  { rewrite <- seq_shift, map_map. apply map_ext. intros j. unfold seg_at. simpl.
    rewrite Nat.add_succ_r. reflexivity. }
  unfold valid_curve in Hv.
  destruct (server_shape (wrap_at cv i0 (CName ""))) as [k|] eqn:Ek; [|discriminate].
  split.
  - rewrite fmt_segments_cons by exact Hne. cbv zeta. rewrite shape_number_server, Ek.
    cbn [bind]. rewrite IH1. cbn [bind length seq map encode_segs]. rewrite Hmap.
    unfold seg_at. cbn [s_target s_dur s_shape s_curve nth]. rewrite ?Nat.add_0_r, Ek.
    unfold curve_value. reflexivity.
  - rewrite ifmt_segments_cons by exact Hne. cbv zeta. rewrite shape_number_server, Ek.
    cbn [bind]. rewrite IH2. cbn [bind length seq map iencode_segs]. rewrite Hmap.
    unfold seg_at. cbn [s_target s_dur s_shape s_curve nth]. rewrite ?Nat.add_0_r, Ek.
    unfold curve_value. reflexivity.
Qed.

(* ------------------------------------------------------------------ well-formed envelopes *)
Definition wf_env (e : env) : Prop :=
  levels e <> [] /\ length (times e) = (length (levels e) - 1)%nat
  /\ (times e <> [] -> curves_ok (curves e)).

Lemma norm_seg_seg_at e l0 lv' : levels e = l0 :: lv' ->
  forall j, norm_seg e j = seg_at lv' (times e) (curves e) 0 j.
Proof. intros Hl j. unfold norm_seg, seg_at. rewrite Hl. reflexivity. Qed.

Lemma envgen_format_encode e : wf_env e -> envgen_format e = Ok (encode_env (normalise e)).
Proof.
  intros (Hne & Hlen & Hcv). unfold envgen_format, normalise, encode_env.
  destruct (levels e) as [|l0 lv'] eqn:El; [contradiction|].
  destruct (fmt_segments_spec (times e) lv' 0%nat (curves e)) as [H1 _]; [simpl in Hlen; lia|exact Hcv|].
  rewrite H1. cbn [bind d_init d_n d_rel d_loop d_segs hd].
  rewrite (map_ext _ _ (norm_seg_seg_at e l0 lv' El)).
  unfold node_or_absent. rewrite absent_node_matches.
  destruct (release e), (loop e); reflexivity.
Qed.

Lemma interpolation_format_encode e : wf_env e -> interpolation_format e = Ok (encode_ienv (inormalise e)).
Proof.
  intros (Hne & Hlen & Hcv). unfold interpolation_format, inormalise, encode_ienv.
  destruct (levels e) as [|l0 lv'] eqn:El; [contradiction|].
  destruct (fmt_segments_spec (times e) lv' 0%nat (curves e)) as [_ H2]; [simpl in Hlen; lia|exact Hcv|].
  rewrite H2. cbn [bind i_offset i_init i_n i_total i_segs hd].
  rewrite (map_ext _ _ (norm_seg_seg_at e l0 lv' El)). reflexivity.
Qed.

Lemma env_format_layout_wf e : wf_env e ->
  exists data, envgen_format e = Ok data /\ decode_env data = Ok (normalise e)
               /\ length data = (4 + 4 * length (times e))%nat.
Proof.
  intros Hwf. exists (encode_env (normalise e)). split; [apply envgen_format_encode, Hwf|]. split.
  - apply decode_encode. simpl. rewrite map_length, seq_length. reflexivity.
  - unfold encode_env. simpl. rewrite encode_segs_length, map_length, seq_length. lia.
Qed.

Lemma interpolation_format_layout_wf e : wf_env e ->
  exists data, interpolation_format e = Ok data /\ decode_ienv data = Ok (inormalise e)
               /\ length data = (4 + 4 * length (times e))%nat.
Proof.
  intros Hwf. exists (encode_ienv (inormalise e)). split; [apply interpolation_format_encode, Hwf|]. split.
  - apply idecode_encode. simpl. rewrite map_length, seq_length. reflexivity.
  - unfold encode_ienv. simpl. rewrite iencode_segs_length, map_length, seq_length. lia.
Qed.

(* every envelope built by Env(...) is well-formed as soon as its curves are *)
Lemma times_list_nonempty t : times_list t <> [].
Proof. destruct t as [|x|[|a r]]; simpl; try discriminate. destruct (truth x); discriminate. Qed.

Definition init_levels (lv : option (list num)) : list num :=
  match lv with None | Some [] => [I 0; I 1; I 0] | Some l => l end.
Lemma init_levels_nonempty lv : init_levels lv <> [].
Proof. destruct lv as [[|a r]|]; simpl; discriminate. Qed.

Lemma env_init_fields lv t c rel lp off :
  levels (env_init lv t c rel lp off) = init_levels lv
  /\ times (env_init lv t c rel lp off) = wrap_extend (times_list t) (length (init_levels lv) - 1)
  /\ curves (env_init lv t c rel lp off) = curves_list c.
Proof. unfold env_init, init_levels. destruct lv as [[|a r]|]; simpl; auto. Qed.

Lemma env_init_wf lv t c rel lp off :
  ((length (init_levels lv) > 1)%nat -> curves_ok (curves_list c)) ->
  wf_env (env_init lv t c rel lp off).
Proof.
  intros Hc. destruct (env_init_fields lv t c rel lp off) as (Hl & Ht & Hcv).
  unfold wf_env. rewrite Hl, Ht, Hcv. split; [apply init_levels_nonempty|]. split.
  - apply wrap_extend_length, times_list_nonempty.
  - intros Hne. apply Hc.
    destruct (length (init_levels lv) - 1)%nat eqn:E; [|lia].
    exfalso. apply Hne, length_zero_iff_nil, wrap_extend_length, times_list_nonempty.
Qed.

Lemma env_init_times_wrapped lv t c rel lp off i d :
  (i < length (init_levels lv) - 1)%nat ->
  nth i (times (env_init lv t c rel lp off)) d = nth (i mod length (times_list t)) (times_list t) d.
Proof.
  intros Hi. destruct (env_init_fields lv t c rel lp off) as (_ & Ht & _). rewrite Ht.
  apply wrap_extend_nth; [apply times_list_nonempty|exact Hi].
Qed.

(* the raising branches *)
Lemma envgen_format_invalid_name e l0 lv' t tm' :
  levels e = l0 :: lv' -> times e = t :: tm' -> lv' <> [] -> curves e <> [] ->
  valid_curve (wrap_at (curves e) 0 (CName "")) = false -> envgen_format e = Err ValueError.
Proof.
  intros Hl Ht Hlv Hc Hv. unfold envgen_format. rewrite Hl, Ht.
  destruct lv' as [|l1 lv'']; [contradiction|]. cbn [fmt_segments].
  destruct (curves e) as [|c0 cr] eqn:Ec; [contradiction|]. rewrite <- Ec in *.
  replace (nth (0 mod length (curves e)) (curves e) c0) with (wrap_at (curves e) 0 (CName ""))
    by (unfold wrap_at; apply nth_indep, Nat.mod_upper_bound; rewrite Ec; simpl; discriminate).
  rewrite shape_number_server. unfold valid_curve in Hv.
  destruct (server_shape (wrap_at (curves e) 0 (CName ""))); [discriminate|reflexivity].
Qed.
