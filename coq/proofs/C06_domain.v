(* C06 -- success lemmas: the encoder accepts every value of its documented domain. *)
From Coq Require Import ZArith QArith List Bool Lia.
Import ListNotations.
Require Import SC3.model.Osc SC3.model.OscSize SC3.model.OscDomain.
Require Import SC3.proofs.C06_base SC3.proofs.C06_size SC3.proofs.C06_readers SC3.proofs.C06_roundtrip.
Open Scope Z_scope.

(* ---- unfolding in_domain ---- *)
Lemma in_domain_msg : forall st addr args,
  in_domain st (AList (AStr addr :: args)) =
  negb (match addr with [] => true | _ => false end) && negb (has_nul addr) && balanced args 0 && forallb (arg_ok st) args.
Proof.
  intros st addr args. cbn [in_domain]. f_equal;
  try (induction args as [| x r IH]; [reflexivity |]; cbn [forallb]; rewrite <- IH; reflexivity).
Qed.
Lemma in_domain_bundle : forall st lat tag elems,
  in_domain st (AList (ATime lat tag :: elems)) = uint64 tag && forallb (elem_ok st lat) elems.
Proof.
  intros st lat tag elems. cbn [in_domain]. f_equal;
  try (induction elems as [| x r IH]; [reflexivity |]; cbn [forallb]; rewrite <- IH; reflexivity).
Qed.

(* ---- the writers succeed on their domain ---- *)
Lemma write_int_ok : forall z, int32 z = true -> exists h, write_int z = Ok h.
Proof. intros z H. unfold write_int. unfold int32 in H. rewrite H. eauto. Qed.
Lemma write_timetag_ok : forall t, uint64 t = true -> exists h, write_timetag t = Ok h.
Proof. intros t H. unfold write_timetag. unfold uint64 in H. rewrite H. eauto. Qed.
Lemma write_string_ok : forall nc s, has_nul s = false -> write_string nc s = Ok (s ++ zeros (4 - zlen s mod 4)).
Proof. intros nc s H. unfold write_string. rewrite H, andb_false_r. reflexivity. Qed.
Lemma write_blob_ok : forall b, b <> [] -> zlen b < 2147483648 -> exists h, write_blob b = Ok h.
Proof.
  intros b Hne Hlt. unfold write_blob. destruct b as [| x r]; [contradiction |].
  pose proof (zlen_nonneg (x :: r)).
  destruct (write_int_ok (zlen (x :: r))) as (h & Hh).
  { unfold int32. apply andb_true_intro. split; [apply Z.leb_le | apply Z.ltb_lt]; lia. }
  rewrite Hh. cbn [bind]. eauto.
Qed.

(* ---- balanced markers nest ---- *)
Lemma balanced_nests : forall nc args targs st,
  coerce_args nc args = Ok targs -> st <> [] -> balanced args (pred (length st)) = true ->
  exists ps, nest (map tok_of targs) st = Some ps.
Proof.
  intros nc args. induction args as [| x r IH]; intros targs st Hc Hst Hb.
  - cbn in Hc. inv_ok Hc. cbn [balanced] in Hb. apply Nat.eqb_eq in Hb.
    destruct st as [| top [| y z]]; [contradiction | | cbn in Hb; discriminate Hb].
    cbn. eauto.
  - cbn [coerce_args] in Hc. apply bind_ok in Hc as (t & Ht & Hc). apply bind_ok in Hc as (ts & Hts & Hc). inv_ok Hc.
    destruct st as [| top rest]; [contradiction |].
    assert (Hval : forall v, tok_of t = KVal v -> balanced r (pred (length (top :: rest))) = true ->
                   exists ps, nest (map tok_of (t :: ts)) (top :: rest) = Some ps).
    { intros v Hv Hb'. cbn [map nest]. rewrite Hv. apply (IH ts ((v :: top) :: rest) Hts); [discriminate | exact Hb']. }
    destruct x as [| b | z | w | s | b | lat tag | | l]; cbn [coerce1] in Ht; try discriminate Ht.
    + inv_ok Ht. apply (Hval _ eq_refl). exact Hb.
    + inv_ok Ht. apply (Hval _ eq_refl). exact Hb.
    + inv_ok Ht. apply (Hval _ eq_refl). exact Hb.
    + inv_ok Ht. apply (Hval _ eq_refl). exact Hb.
    + inv_ok Ht. cbn [balanced] in Hb. unfold is_open_s, is_close_s in Hb.
      destruct (match s with [91] => true | _ => false end).
      * cbn [map tok_of nest]. apply (IH ts ([] :: top :: rest) Hts); [discriminate | exact Hb].
      * destruct (match s with [93] => true | _ => false end).
        -- cbn [length pred] in Hb. destruct rest as [| p rest']; [discriminate Hb |].
           cbn [map tok_of nest]. apply (IH ts ((PArr (rev top) :: p) :: rest') Hts); [discriminate | exact Hb].
        -- apply (Hval _ eq_refl). exact Hb.
    + inv_ok Ht. apply (Hval _ eq_refl). exact Hb.
    + destruct l as [| h tl]; [inv_ok Ht; apply (Hval _ eq_refl); exact Hb |].
      destruct h; try discriminate Ht.
      * apply bind_ok in Ht as (d & _ & Ht). inv_ok Ht. apply (Hval _ eq_refl). exact Hb.
      * destruct tl as [| e1 tl']; [discriminate Ht |]. destruct e1; try discriminate Ht.
        apply bind_ok in Ht as (d & _ & Ht). inv_ok Ht. apply (Hval _ eq_refl). exact Hb.
Qed.

Lemma build_nonempty : forall nc a d, build_pkt nc a = Ok d -> d <> [].
Proof.
  intros nc a d Hb. destruct a as [| | | | | | | | l]; try discriminate Hb.
  destruct l as [| h tl]; [discriminate Hb |].
  destruct h as [| | | | addr | | lat tag | |]; try discriminate Hb.
  - rewrite build_pkt_msg in Hb. apply bind_ok in Hb as (targs & _ & Hb). apply bind_ok in Hb as (d0 & He & Hb).
    pose proof (check_msg_ok _ _ Hb) as ->. destruct (enc_msg_head _ _ _ _ He) as (r & ->).
    unfold enc_msg in He. destruct addr; [discriminate He | discriminate].
  - rewrite build_pkt_bundle in Hb. apply bind_ok in Hb as (ds & _ & Hb). apply bind_ok in Hb as (d0 & He & Hb).
    pose proof (check_bundle_ok _ _ Hb) as ->. unfold enc_bundle in He.
    apply bind_ok in He as (t & _ & He). apply bind_ok in He as (b & _ & He). inv_ok He. discriminate.
Qed.

(* ---- the strict domain implies the guard of the round trip ---- *)
Lemma arg_ok_str : forall st args, forallb (arg_ok st) args = true -> forall s, In (AStr s) args -> has_nul s = false.
Proof.
  intros st args H s Hs. rewrite forallb_forall in H. specialize (H _ Hs). cbn in H.
  destruct (has_nul s); [discriminate H | reflexivity].
Qed.
Lemma arg_ok_strs : forall st args, forallb (arg_ok st) args = true -> forallb str_nul_free args = true.
Proof.
  intros st args H. apply forallb_forall. intros x Hx. rewrite forallb_forall in H. specialize (H x Hx).
  destruct x; try reflexivity. exact H.
Qed.

Definition guarded (nc : bool) (a : arg) : Prop :=
  in_domain true a = true ->
  match a with
  | AList (AStr addr :: _) => starts_with [47] addr = true -> pkt_guard nc a = true
  | _ => pkt_guard nc a = true
  end.

Lemma guarded_all : forall nc a, guarded nc a.
Proof.
  intros nc. apply arg_nested_ind.
  - intros a Hleaf Hd. destruct a; try reflexivity. exfalso. eapply Hleaf. reflexivity.
  - intros l HF Hd. destruct l as [| h tl]; [reflexivity |].
    inversion HF as [| ? ? _ Htl]; subst.
    destruct h as [| | | | addr | | lat tag | |]; try reflexivity.
    + intros Hs. rewrite in_domain_msg in Hd.
      apply andb_prop in Hd as [Hd Hargs]. apply andb_prop in Hd as [Hd _]. apply andb_prop in Hd as [_ Hna].
      cbn [pkt_guard]. rewrite Hs, Hna, (arg_ok_strs _ _ Hargs). cbn. apply orb_true_r.
    + rewrite in_domain_bundle in Hd. apply andb_prop in Hd as [_ Hel].
      rewrite pkt_guard_bundle. apply forallb_forall. intros e He.
      rewrite forallb_forall in Hel. specialize (Hel e He).
      rewrite Forall_forall in Htl. specialize (Htl e He). unfold guarded in Htl.
      destruct e as [| | | | | | | | le]; try discriminate Hel.
      destruct le as [| h2 t2]; [discriminate Hel |].
      destruct h2 as [| | | | a2 | | sub tg | |]; try discriminate Hel; cbn [elem_ok] in Hel.
      * apply andb_prop in Hel as [Hin Hrest]. cbn [negb orb] in Hrest. apply andb_prop in Hrest as [Hsl _].
        exact (Htl Hin Hsl).
      * apply andb_prop in Hel as [Hel _]. apply andb_prop in Hel as [_ Hin]. exact (Htl Hin).
Qed.

(* ---- the main induction ---- *)
Definition accepted (nc : bool) (a : arg) : Prop :=
  floats4 a = true -> in_domain true a = true -> exists d, build_pkt nc a = Ok d.

Lemma size_ok_bound : forall nc x d, floats4 x = true -> size_ok x = true -> build_pkt nc x = Ok d -> zlen d < 2147483648.
Proof.
  intros nc x d Hwf Hs Hb. unfold size_ok in Hs. destruct (calc_pkt true x) as [n |] eqn:Hn; [| discriminate Hs].
  apply Z.ltb_lt in Hs. pose proof (proj2 (sized_all nc x Hwf d Hb) n Hn). lia.
Qed.

Lemma accepted_arg : forall nc x,
  (forall l, x = AList l -> accepted nc x) -> floats4 x = true -> arg_ok true x = true ->
  exists t bx, coerce1 nc x = Ok t /\ enc_targ nc t = Ok bx.
Proof.
  intros nc x IH Hwf Hok.
  destruct x as [| b | z | w | s | b | lat tag | | l]; cbn [arg_ok] in Hok; try discriminate Hok.
  - exists (TInt 0). eexists. split; reflexivity.
  - exists (TInt (if b then 1 else 0)). destruct b; eexists; split; reflexivity.
  - destruct (write_int_ok z Hok) as (h & Hh). exists (TInt z), h. split; [reflexivity | exact Hh].
  - exists (TFloat w), w. split; reflexivity.
  - cbn [coerce1].
    destruct (match s with [91] => true | _ => false end); [exists TOpen, []; split; reflexivity |].
    destruct (match s with [93] => true | _ => false end); [exists TClose, []; split; reflexivity |].
    exists (TStr s). eexists. split; [reflexivity |]. cbn [enc_targ]. apply write_string_ok.
    destruct (has_nul s); [discriminate Hok | reflexivity].
  - apply andb_prop in Hok as [Hne Hlt]. apply Z.ltb_lt in Hlt.
    destruct (write_blob_ok b) as (h & Hh); [destruct b; [discriminate Hne | discriminate] | exact Hlt |].
    exists (TBlob b), h. split; [reflexivity | exact Hh].
  - specialize (IH l eq_refl). unfold accepted in IH.
    destruct l as [| h tl]; [exists (TInt 0); eexists; split; reflexivity |].
    assert (Hblob : in_domain true (AList (h :: tl)) && (negb true || size_ok (AList (h :: tl))) = true ->
                    forall (Hc : forall d, build_pkt nc (AList (h :: tl)) = Ok d -> coerce1 nc (AList (h :: tl)) = Ok (TBlob d)),
                    exists t bx, coerce1 nc (AList (h :: tl)) = Ok t /\ enc_targ nc t = Ok bx).
    { intros H Hc. apply andb_prop in H as [Hin Hsz]. cbn [negb orb] in Hsz.
      destruct (IH Hwf Hin) as (d & Hd).
      destruct (write_blob_ok d (build_nonempty _ _ _ Hd) (size_ok_bound nc _ d Hwf Hsz Hd)) as (hh & Hh).
      exists (TBlob d), hh. split; [exact (Hc d Hd) | exact Hh]. }
    destruct h as [| | | | a2 | | lt tg | |]; try discriminate Hok.
    + apply (Hblob Hok). intros d Hd. cbn [coerce1]. rewrite Hd. reflexivity.
    + destruct tl as [| e1 tl']; [discriminate Hok |]. destruct e1; try discriminate Hok.
      apply (Hblob Hok). intros d Hd. cbn [coerce1]. rewrite Hd. reflexivity.
Qed.

Lemma accepted_args : forall nc args,
  Forall (accepted nc) args -> forallb floats4 args = true -> forallb (arg_ok true) args = true ->
  exists targs v, coerce_args nc args = Ok targs /\ enc_targs nc targs = Ok v.
Proof.
  intros nc args. induction args as [| x r IH]; intros HF Hwf Hok.
  - exists [], []. split; reflexivity.
  - cbn [forallb] in Hwf, Hok. apply andb_prop in Hwf as [Hwx Hwr]. apply andb_prop in Hok as [Hox Hor].
    inversion HF as [| ? ? Hx Hr]; subst.
    destruct (accepted_arg nc x (fun _ _ => Hx) Hwx Hox) as (t & bx & Ht & Hbx).
    destruct (IH Hr Hwr Hor) as (ts & v & Hts & Hv).
    exists (t :: ts), (bx ++ v). cbn [coerce_args enc_targs]. rewrite Ht, Hts, Hbx, Hv. split; reflexivity.
Qed.

Lemma accepted_elems : forall nc lat elems,
  Forall (accepted nc) elems -> forallb floats4 elems = true -> forallb (elem_ok true lat) elems = true ->
  exists ds b, build_elems nc lat elems = Ok ds /\ enc_contents ds = Ok b.
Proof.
  intros nc lat elems. induction elems as [| e r IH]; intros HF Hwf Hok.
  - exists [], []. split; reflexivity.
  - cbn [forallb] in Hwf, Hok. apply andb_prop in Hwf as [Hwe Hwr]. apply andb_prop in Hok as [Hoe Hor].
    inversion HF as [| ? ? He Hr]; subst.
    destruct (IH Hr Hwr Hor) as (ds & b & Hds & Hb).
    assert (Hel : exists d, build_elem nc lat e = Ok d /\ zlen d < 2147483648).
    { destruct e as [| | | | | | | | le]; try discriminate Hoe.
      destruct le as [| h2 t2]; [discriminate Hoe |].
      destruct h2 as [| | | | a2 | | sub tg | |]; try discriminate Hoe; cbn [elem_ok] in Hoe.
      - apply andb_prop in Hoe as [Hin Hrest]. cbn [negb orb] in Hrest. apply andb_prop in Hrest as [_ Hsz].
        destruct (He Hwe Hin) as (d & Hd). exists d. split; [exact Hd | exact (size_ok_bound nc _ d Hwe Hsz Hd)].
      - apply andb_prop in Hoe as [Hoe Hsz]. cbn [negb orb] in Hsz. apply andb_prop in Hoe as [Hsub Hin].
        destruct (He Hwe Hin) as (d & Hd). exists d. split; [| exact (size_ok_bound nc _ d Hwe Hsz Hd)].
        cbn [build_elem]. rewrite Hsub. exact Hd. }
    destruct Hel as (d & Hd & Hlt). pose proof (zlen_nonneg d).
    destruct (write_int_ok (zlen d)) as (h & Hh).
    { unfold int32. apply andb_true_intro. split; [apply Z.leb_le | apply Z.ltb_lt]; lia. }
    exists (d :: ds), (h ++ d ++ b). cbn [build_elems enc_contents]. rewrite Hd, Hds, Hh, Hb. split; reflexivity.
Qed.

Lemma forallb_guard : forall nc lat elems,
  forallb (elem_ok true lat) elems = true -> forallb (pkt_guard nc) elems = true.
Proof.
  intros nc lat elems H. apply forallb_forall. intros e He. rewrite forallb_forall in H. specialize (H e He).
  pose proof (guarded_all nc e) as G. unfold guarded in G.
  destruct e as [| | | | | | | | le]; try discriminate H.
  destruct le as [| h2 t2]; [discriminate H |].
  destruct h2 as [| | | | a2 | | sub tg | |]; try discriminate H; cbn [elem_ok] in H.
  - apply andb_prop in H as [Hin Hrest]. cbn [negb orb] in Hrest. apply andb_prop in Hrest as [Hsl _]. exact (G Hin Hsl).
  - apply andb_prop in H as [H _]. apply andb_prop in H as [_ Hin]. exact (G Hin).
Qed.

Lemma bundle_self_parse : forall nc lat tag tl ds b t fuel,
  forallb floats4 tl = true -> forallb (pkt_guard nc) tl = true ->
  build_elems nc lat tl = Ok ds -> enc_contents ds = Ok b -> write_timetag tag = Ok t ->
  (length (bundle_prefix ++ t ++ b) < fuel)%nat ->
  exists cs, parse_bundle fuel (bundle_prefix ++ t ++ b) = Ok (PBundle tag cs).
Proof.
  intros nc lat tag tl ds b t fuel Hwtl Hg Hds Hb Ht Hfuel.
  pose proof (write_timetag_len _ _ Ht) as Ht8.
  destruct fuel as [| f]; [inversion Hfuel |].
  assert (Hlen : length (bundle_prefix ++ t ++ b) = (16 + length b)%nat).
  { rewrite !app_length. unfold zlen in Ht8. cbn [length bundle_prefix]. lia. }
  assert (Hrt : Forall (rt nc) tl) by (apply Forall_forall; intros x _; apply rt_all).
  destruct (rt_contents nc lat tl Hrt Hwtl Hg ds b Hds Hb (bundle_prefix ++ t) [] [] f eq_refl ltac:(lia)) as (cs & _ & Hpc).
  exists cs. cbn [parse_bundle]. change 8 with (zlen bundle_prefix) at 1.
  rewrite (get_timetag_write _ _ _ _ Ht). cbn [bind].
  replace (zlen bundle_prefix + 8) with (zlen (bundle_prefix ++ t)) by (rewrite zlen_app; change (zlen bundle_prefix) with 8; lia).
  rewrite app_nil_r in Hpc. rewrite app_assoc. rewrite Hpc. cbn [bind rev app]. reflexivity.
Qed.

Theorem accepted_all : forall nc a, accepted nc a.
Proof.
  intros nc. apply arg_nested_ind.
  - intros a Hleaf Hwf Hd. destruct a; try discriminate Hd. exfalso. eapply Hleaf. reflexivity.
  - intros l HF Hwf Hd. rewrite floats4_list in Hwf.
    destruct l as [| h tl]; [discriminate Hd |].
    inversion HF as [| ? ? _ Htl]; subst. cbn [forallb] in Hwf. apply andb_prop in Hwf as [_ Hwtl].
    destruct h as [| | | | addr | | lat tag | |]; try discriminate Hd.
    + (* message *)
      rewrite in_domain_msg in Hd.
      apply andb_prop in Hd as [Hd Hargs]. apply andb_prop in Hd as [Hd Hbal]. apply andb_prop in Hd as [Hne Hna].
      assert (Hna' : has_nul addr = false) by (destruct (has_nul addr); [discriminate Hna | reflexivity]).
      destruct (accepted_args nc tl Htl Hwtl Hargs) as (targs & v & Hc & Hv).
      assert (He : exists d0, enc_msg nc addr targs = Ok d0).
      { unfold enc_msg. destruct addr as [| a0 ar] eqn:Ea; [discriminate Hne |]. rewrite <- Ea in *.
        rewrite (write_string_ok nc addr Hna'), (write_string_ok nc _ (tags_no_nul targs)), Hv. cbn [bind]. eauto. }
      destruct He as (d0 & He).
      assert (Hok : Forall targ_ok targs).
      { apply (coerce_args_ok nc tl targs v Hwtl Hc Hv). right. apply (arg_ok_str _ _ Hargs). }
      destruct (balanced_nests nc tl targs [[]] Hc ltac:(discriminate) Hbal) as (ps & Hps).
      exists d0. rewrite build_pkt_msg, Hc. cbn [bind]. rewrite He. cbn [bind].
      unfold check_msg. rewrite (parse_enc_msg nc addr targs d0 He Hna' Hok). unfold nest_res. rewrite Hps. reflexivity.
    + (* bundle *)
      rewrite in_domain_bundle in Hd. apply andb_prop in Hd as [Htag Hel].
      destruct (accepted_elems nc lat tl Htl Hwtl Hel) as (ds & b & Hds & Hb).
      destruct (write_timetag_ok tag Htag) as (t & Ht).
      destruct (bundle_self_parse nc lat tag tl ds b t (S (length (bundle_prefix ++ t ++ b))) Hwtl (forallb_guard nc lat tl Hel) Hds Hb Ht
                                  (Nat.lt_succ_diag_r _)) as (cs & Hp).
      exists (bundle_prefix ++ t ++ b). rewrite build_pkt_bundle, Hds. cbn [bind]. unfold enc_bundle. rewrite Ht, Hb. cbn [bind].
      unfold check_bundle, parse_bundle_top. rewrite Hp. reflexivity.
Qed.

(* ---- conversely: whatever the (NUL-checking) encoder accepts is representable ---- *)
Lemma write_int_inv : forall z h, write_int z = Ok h -> int32 z = true.
Proof. intros z h H. unfold write_int in H. unfold int32. destruct (_ && _); [reflexivity | discriminate H]. Qed.
Lemma write_timetag_inv : forall t h, write_timetag t = Ok h -> uint64 t = true.
Proof. intros t h H. unfold write_timetag in H. unfold uint64. destruct (_ && _); [reflexivity | discriminate H]. Qed.
Lemma write_blob_inv : forall b h, write_blob b = Ok h ->
  negb (match b with [] => true | _ => false end) && (zlen b <? 2147483648) = true.
Proof.
  intros b h H. unfold write_blob in H. destruct b as [| x r] eqn:Eb; [discriminate H |].
  (* keep the blob abstract: the kernel must not start computing with zlen (x :: r) *)
  rewrite <- Eb in H.
  apply bind_ok in H as (hd & Hh & _). apply write_int_inv in Hh. unfold int32 in Hh.
  apply andb_prop in Hh as [_ Hh]. rewrite Eb in Hh. rewrite Hh. reflexivity.
Qed.
Lemma is_open_inv : forall s, is_open_s s = true -> s = [91].
Proof.
  intros s H. unfold is_open_s in H. destruct s as [| b [| c r]]; try discriminate H.
  - destruct b as [| p | p]; try discriminate H.
    repeat (destruct p as [p | p |]; try discriminate H). reflexivity.
  - destruct b as [| p | p]; try discriminate H.
    repeat (destruct p as [p | p |]; try discriminate H).
Qed.
Lemma is_close_inv : forall s, is_close_s s = true -> s = [93].
Proof.
  intros s H. unfold is_close_s in H. destruct s as [| b [| c r]]; try discriminate H.
  - destruct b as [| p | p]; try discriminate H.
    repeat (destruct p as [p | p |]; try discriminate H). reflexivity.
  - destruct b as [| p | p]; try discriminate H.
    repeat (destruct p as [p | p |]; try discriminate H).
Qed.

Lemma nests_balanced : forall nc args targs st ps,
  coerce_args nc args = Ok targs -> st <> [] -> nest (map tok_of targs) st = Some ps ->
  balanced args (pred (length st)) = true.
Proof.
  intros nc args. induction args as [| x r IH]; intros targs st ps Hc Hst Hn.
  - cbn in Hc. inv_ok Hc. cbn [map nest] in Hn. destruct st as [| top [| y z]]; try discriminate Hn. reflexivity.
  - cbn [coerce_args] in Hc. apply bind_ok in Hc as (t & Ht & Hc). apply bind_ok in Hc as (ts & Hts & Hc). inv_ok Hc.
    destruct st as [| top rest]; [contradiction |].
    assert (Hval : forall v, tok_of t = KVal v -> balanced r (pred (length (top :: rest))) = true).
    { intros v Hv. cbn [map nest] in Hn. rewrite Hv in Hn.
      exact (IH ts ((v :: top) :: rest) ps Hts ltac:(discriminate) Hn). }
    destruct x as [| b | z | w | s | b | lat tag | | l]; cbn [coerce1] in Ht; try discriminate Ht;
      try (inv_ok Ht; cbn [balanced]; exact (Hval _ eq_refl)).
    + inv_ok Ht. cbn [balanced]. unfold is_open_s, is_close_s.
      destruct (match s with [91] => true | _ => false end).
      * cbn [map tok_of nest] in Hn. exact (IH ts ([] :: top :: rest) ps Hts ltac:(discriminate) Hn).
      * destruct (match s with [93] => true | _ => false end).
        -- cbn [map tok_of nest] in Hn. destruct rest as [| p rest']; [discriminate Hn |].
           exact (IH ts ((PArr (rev top) :: p) :: rest') ps Hts ltac:(discriminate) Hn).
        -- exact (Hval _ eq_refl).
    + cbn [balanced]. destruct l as [| h tl]; [inv_ok Ht; exact (Hval _ eq_refl) |].
      destruct h; try discriminate Ht.
      * apply bind_ok in Ht as (d & _ & Ht). inv_ok Ht. exact (Hval _ eq_refl).
      * destruct tl as [| e1 tl']; [discriminate Ht |]. destruct e1; try discriminate Ht.
        apply bind_ok in Ht as (d & _ & Ht). inv_ok Ht. exact (Hval _ eq_refl).
Qed.

Definition representable (a : arg) : Prop :=
  forall d, build_pkt true a = Ok d -> in_domain false a = true.

Lemma representable_args : forall args targs v,
  Forall representable args -> coerce_args true args = Ok targs -> enc_targs true targs = Ok v ->
  forallb (arg_ok false) args = true.
Proof.
  induction args as [| x r IH]; intros targs v HF Hc He; [reflexivity |].
  cbn [coerce_args] in Hc. apply bind_ok in Hc as (t & Ht & Hc). apply bind_ok in Hc as (ts & Hts & Hc). inv_ok Hc.
  cbn [enc_targs] in He. apply bind_ok in He as (a & Ha & He). apply bind_ok in He as (b & Hb & He). inv_ok He.
  inversion HF as [| ? ? Hx Hr]; subst.
  cbn [forallb]. rewrite (IH ts b Hr Hts Hb), andb_true_r.
  destruct x as [| bo | z | w | s | bl | lat tag | | l]; cbn [coerce1] in Ht; try discriminate Ht; cbn [arg_ok].
  - reflexivity.
  - reflexivity.
  - inv_ok Ht. cbn [enc_targ] in Ha. exact (write_int_inv _ _ Ha).
  - reflexivity.
  - inv_ok Ht.
    destruct (match s with [91] => true | _ => false end) eqn:Eo.
    { rewrite (is_open_inv s Eo). reflexivity. }
    destruct (match s with [93] => true | _ => false end) eqn:Ec.
    { rewrite (is_close_inv s Ec). reflexivity. }
    cbn [enc_targ] in Ha. destruct (write_string_inv _ _ _ Ha) as [_ Hn]. rewrite (Hn eq_refl). reflexivity.
  - inv_ok Ht. cbn [enc_targ] in Ha. exact (write_blob_inv _ _ Ha).
  - destruct l as [| h tl]; [reflexivity |].
    destruct h; try discriminate Ht.
    + apply bind_ok in Ht as (d & Hd & _). rewrite (Hx d Hd). reflexivity.
    + destruct tl as [| e1 tl']; [discriminate Ht |]. destruct e1; try discriminate Ht.
      apply bind_ok in Ht as (d & Hd & _). rewrite (Hx d Hd). reflexivity.
Qed.

Lemma representable_elems : forall lat elems ds,
  Forall representable elems -> build_elems true lat elems = Ok ds -> forallb (elem_ok false lat) elems = true.
Proof.
  induction elems as [| e r IH]; intros ds HF Hb; [reflexivity |].
  cbn [build_elems] in Hb. apply bind_ok in Hb as (d & Hd & Hb). apply bind_ok in Hb as (ds' & Hds & _).
  inversion HF as [| ? ? He Hr]; subst.
  cbn [forallb]. rewrite (IH ds' Hr Hds), andb_true_r.
  destruct (build_elem_shape _ _ _ _ Hd) as [Hbp [(addr & args & ->) | (sub & tag & es & -> & Hsub)]]; cbn [elem_ok].
  - rewrite (He d Hbp). reflexivity.
  - rewrite Hsub, (He d Hbp). reflexivity.
Qed.

Theorem representable_all : forall a, floats4 a = true -> representable a.
Proof.
  apply (arg_nested_ind (fun a => floats4 a = true -> representable a)).
  - intros a Hleaf _ d Hb. destruct a; try discriminate Hb. exfalso. eapply Hleaf. reflexivity.
  - intros l HF Hwf d Hb. rewrite floats4_list in Hwf.
    destruct l as [| h tl]; [discriminate Hb |].
    inversion HF as [| ? ? _ Htl]; subst. cbn [forallb] in Hwf. apply andb_prop in Hwf as [_ Hwtl].
    assert (Hrep : Forall representable tl).
    { apply Forall_forall. intros x Hx. rewrite Forall_forall in Htl. apply (Htl x Hx).
      rewrite forallb_forall in Hwtl. exact (Hwtl x Hx). }
    destruct h as [| | | | addr | | lat tag | |]; try discriminate Hb.
    + rewrite build_pkt_msg in Hb. apply bind_ok in Hb as (targs & Hc & Hb). apply bind_ok in Hb as (d0 & He & Hb).
      pose proof He as He0.
      unfold enc_msg in He. destruct addr as [| a0 ar] eqn:Ea; [discriminate He |]. rewrite <- Ea in *.
      apply bind_ok in He as (a & Ha & He). apply bind_ok in He as (t & Ht & He). apply bind_ok in He as (v & Hv & He).
      destruct (write_string_inv _ _ _ Ha) as [_ Hna]. specialize (Hna eq_refl).
      assert (Hok : Forall targ_ok targs) by (apply (coerce_args_ok true tl targs v Hwtl Hc Hv); left; reflexivity).
      unfold check_msg in Hb. rewrite (parse_enc_msg true addr targs d0 He0 Hna Hok) in Hb. unfold nest_res in Hb.
      destruct (nest (map tok_of targs) [[]]) as [ps |] eqn:Hn; [| discriminate Hb].
      pose proof (nests_balanced true tl targs [[]] ps Hc ltac:(discriminate) Hn) as Hbal. cbn [length pred] in Hbal.
      rewrite in_domain_msg, Hna, Hbal, (representable_args tl targs v Hrep Hc Hv).
      rewrite Ea. reflexivity.
    + rewrite build_pkt_bundle in Hb. apply bind_ok in Hb as (ds & Hds & Hb). apply bind_ok in Hb as (d0 & He & _).
      unfold enc_bundle in He. apply bind_ok in He as (t & Ht & _).
      rewrite in_domain_bundle, (write_timetag_inv _ _ Ht), (representable_elems lat tl ds Hrep Hds). reflexivity.
Qed.
