(* C09 -- Process._shutdown drains the exit-action queue completely, also when the running actions
   register, move or unregister actions. *)
From Coq Require Import QArith ZArith List Bool Arith Permutation Sorting Lia Lqa.
Import ListNotations.
Require Import SC3.model.TaskQ SC3.model.Shutdown.
Require Import SC3.proofs.C09_order SC3.proofs.C09_refine SC3.proofs.C09_corollaries.
Local Open Scope nat_scope.

Lemma filter_length_le : forall (A : Type) (f : A -> bool) l, length (filter f l) <= length l.
Proof.
  intros A f l. induction l as [| a r IH]; simpl.
  - lia.
  - destruct (f a); simpl; lia.
Qed.

Lemma insert_by_length : forall (A : Type) (k : A -> key) x l, length (insert_by k x l) = S (length l).
Proof. intros A k x l. apply (Permutation_length (insert_by_perm A k x l)). Qed.

(* one operation of a running action: the queue stays well-formed, grows by at most one item and only
   on an add, and a queued action can only leave by being unregistered *)
Lemma regop_step : forall o q, inv q -> regop o = true ->
  inv (fst (step o q))
  /\ length (contents (fst (step o q))) <= length (contents q) + count_adds [o]
  /\ forall t, o <> ORemove t -> In t (map itask (contents q)) -> In t (map itask (contents (fst (step o q)))).
Proof.
  intros o q I Ho. destruct (step o q) as [q' r] eqn:E.
  destruct (step_refines o q q' r I E) as [I' R]. cbn [fst]. split; [exact I' |].
  unfold abs in R. destruct o as [p t | t | | b | | |]; simpl in Ho; try discriminate; simpl in R.
  - inversion R as [[C N]]. try rewrite <- C. split.
    + rewrite insert_by_length. unfold count_adds. simpl. unfold remove_task.
      assert (L := filter_length_le _ (fun x => negb (Z.eqb t (itask x))) (contents q)). lia.
    + intros u _ Hu. apply in_map_iff in Hu. destruct Hu as [x [Ex Hx]].
      destruct (Z.eq_dec u t) as [Eu | Nu].
      * rewrite Eu. apply in_map_iff. exists (p, counter q, t). split; [reflexivity |].
        apply in_insert_by. left. reflexivity.
      * apply in_map_iff. exists x. split; [exact Ex |]. apply in_insert_by. right.
        apply in_remove_task. split; [exact Hx | congruence].
  - inversion R as [[C N]]. try rewrite <- C. split.
    + unfold count_adds. simpl. unfold remove_task.
      assert (L := filter_length_le _ (fun x => negb (Z.eqb t (itask x))) (contents q)). lia.
    + intros u Nu Hu. apply in_map_iff in Hu. destruct Hu as [x [Ex Hx]].
      apply in_map_iff. exists x. split; [exact Ex |]. apply in_remove_task. split; [exact Hx |].
      intro K. apply Nu. congruence.
  - destruct b; inversion R as [[C N]]; try rewrite <- C; (split; [unfold count_adds; simpl; lia | intros; assumption]).
  - inversion R as [[C N]]. try rewrite <- C. split; [unfold count_adds; simpl; lia | intros; assumption].
  - inversion R as [[C N]]. try rewrite <- C. split; [unfold count_adds; simpl; lia | intros; assumption].
Qed.

Lemma count_adds_cons : forall o ops, count_adds (o :: ops) = count_adds [o] + count_adds ops.
Proof. intros o ops. unfold count_adds. simpl. destruct o; simpl; reflexivity. Qed.

Lemma regop_run : forall ops q, inv q -> forallb regop ops = true ->
  inv (fst (run ops q))
  /\ length (contents (fst (run ops q))) <= length (contents q) + count_adds ops
  /\ forall t, ~ In (ORemove t) ops -> In t (map itask (contents q)) -> In t (map itask (contents (fst (run ops q)))).
Proof.
  induction ops as [| o ops IH]; intros q I H.
  - simpl. split; [exact I | split; [unfold count_adds; simpl; lia | intros; assumption]].
  - simpl in H. apply andb_true_iff in H. destruct H as [Ho Hr].
    destruct (regop_step o q I Ho) as [I1 [L1 K1]].
    rewrite run_cons. simpl fst. destruct (IH _ I1 Hr) as [I2 [L2 K2]].
    split; [exact I2 | split].
    + rewrite count_adds_cons. lia.
    + intros t Nt Ht. apply K2.
      * intro K. apply Nt. right. exact K.
      * apply K1; [| exact Ht]. intro K. apply Nt. left. exact K.
Qed.

Definition chunks_ok (chunks : list (list op)) : Prop := Forall (fun c => forallb regop c = true) chunks.

Lemma chunks_ok_hd : forall chunks, chunks_ok chunks -> forallb regop (hd [] chunks) = true.
Proof. intros [| c r] H; [reflexivity | inversion H; assumption]. Qed.
Lemma chunks_ok_tl : forall chunks, chunks_ok chunks -> chunks_ok (tl chunks).
Proof. intros [| c r] H; [exact H | inversion H; assumption]. Qed.
Lemma adds_in_split : forall chunks, adds_in chunks = count_adds (hd [] chunks) + adds_in (tl chunks).
Proof. intros [| c r]; reflexivity. Qed.

(* the loop, unfolded once on a non-empty queue *)
Lemma shutdown_unfold : forall f chunks q x rest, inv q -> contents q = x :: rest ->
  exists q1, inv q1 /\ contents q1 = rest /\
    shutdown (S f) chunks q =
      (let '(q3, log, fin) := shutdown f (tl chunks) (fst (run (hd [] chunks) q1)) in
       (q3, RItem (fst (fst x)) (snd x) :: log, fin)).
Proof.
  intros f chunks q x rest I C. destruct (tq_pop q) as [q1 r] eqn:P.
  destruct (pop_ok q q1 r I P) as [I1 [_ M]]. rewrite C in M. destruct M as [M C1]. subst r.
  exists q1. split; [exact I1 | split; [exact C1 |]].
  simpl. rewrite (empty_ok q I), C, P. reflexivity.
Qed.

(* shutdown terminates within the stated fuel with an EMPTY queue *)
Lemma shutdown_drains_gen : forall fuel chunks q q' log fin, inv q -> chunks_ok chunks ->
  length (contents q) + adds_in chunks < fuel ->
  shutdown fuel chunks q = (q', log, fin) ->
  fin = true /\ inv q' /\ contents q' = [].
Proof.
  induction fuel as [| f IH]; intros chunks q q' log fin I Hc Hm E.
  - lia.
  - destruct (contents q) as [| x rest] eqn:C.
    + simpl in E. rewrite (empty_ok q I), C in E. inversion E; subst. split; [reflexivity | split; assumption].
    + destruct (shutdown_unfold f chunks q x rest I C) as [q1 [I1 [C1 U]]]. rewrite U in E. clear U.
      destruct (regop_run (hd [] chunks) q1 I1 (chunks_ok_hd _ Hc)) as [I2 [L2 _]].
      destruct (shutdown f (tl chunks) (fst (run (hd [] chunks) q1))) as [[q3 log3] fin3] eqn:E3.
      injection E as Eq El Ef. subst q3 fin3. apply (IH (tl chunks) _ q' log3 fin I2 (chunks_ok_tl _ Hc)); [| exact E3].
      rewrite C1 in L2. rewrite (adds_in_split chunks) in Hm. simpl in Hm. lia.
Qed.

(* every action that is queued, and is not unregistered by a later action, runs *)
Lemma shutdown_runs_gen : forall fuel chunks q q' log t, inv q -> chunks_ok chunks ->
  In t (map itask (contents q)) ->
  (forall c, In c chunks -> ~ In (ORemove t) c) ->
  shutdown fuel chunks q = (q', log, true) ->
  In t (ran log).
Proof.
  induction fuel as [| f IH]; intros chunks q q' log t I Hc Ht Hn E.
  - simpl in E. inversion E.
  - destruct (contents q) as [| x rest] eqn:C; [contradiction |].
    destruct (shutdown_unfold f chunks q x rest I C) as [q1 [I1 [C1 U]]]. rewrite U in E. clear U.
    destruct (regop_run (hd [] chunks) q1 I1 (chunks_ok_hd _ Hc)) as [I2 [_ K2]].
    destruct (shutdown f (tl chunks) (fst (run (hd [] chunks) q1))) as [[q3 log3] fin3] eqn:E3.
    injection E as Eq El Ef. subst q3 fin3 log. simpl. destruct Ht as [Ht | Ht]; [left; exact Ht | right].
    apply (IH (tl chunks) _ q' log3 t I2 (chunks_ok_tl _ Hc)); [| | exact E3].
    + apply K2; [| rewrite C1; exact Ht].
      destruct chunks as [| c r]; [intros [] | apply Hn; left; reflexivity].
    + intros c Hin. apply Hn. destruct chunks as [| c0 r]; [contradiction | right; exact Hin].
Qed.

(* the action that runs is always the earliest entry of the queue at that moment *)
Lemma shutdown_first : forall f chunks q x rest, inv q -> contents q = x :: rest ->
  exists log', snd (fst (shutdown (S f) chunks q)) = RItem (fst (fst x)) (snd x) :: log'.
Proof.
  intros f chunks q x rest I C. destruct (shutdown_unfold f chunks q x rest I C) as [q1 [_ [_ U]]].
  rewrite U. destruct (shutdown f (tl chunks) (fst (run (hd [] chunks) q1))) as [[q3 log3] fin3].
  exists log3. reflexivity.
Qed.

(* ---- for every state reachable by a history ------------------------------------------------------- *)
Lemma SD_drains : forall chunks q q' log fin, reachable q -> chunks_ok chunks ->
  shutdown (shutdown_fuel chunks q) chunks q = (q', log, fin) ->
  fin = true /\ tq_iter q' = [] /\ tq_empty q' = true.
Proof.
  intros chunks q q' log fin R Hc E. assert (I := inv_reachable q R).
  destruct (shutdown_drains_gen (shutdown_fuel chunks q) chunks q q' log fin I Hc) as [F [I' C']].
  - unfold shutdown_fuel. rewrite iter_ok, map_length. lia.
  - exact E.
  - split; [exact F | split].
    + rewrite iter_ok, C'. reflexivity.
    + rewrite (empty_ok q' I'), C'. reflexivity.
Qed.

Lemma SD_runs : forall fuel chunks q q' log t, reachable q -> chunks_ok chunks ->
  In t (map snd (tq_iter q)) ->
  (forall c, In c chunks -> ~ In (ORemove t) c) ->
  shutdown fuel chunks q = (q', log, true) ->
  In t (ran log).
Proof.
  intros fuel chunks q q' log t R Hc Ht Hn E. assert (I := inv_reachable q R).
  rewrite iter_ok, map_snd_ipair in Ht.
  exact (shutdown_runs_gen fuel chunks q q' log t I Hc Ht Hn E).
Qed.

(* an action registered (or moved) by the FIRST action that runs, and not unregistered later, runs too *)
Lemma SD_runs_added : forall chunks q q' log p t, reachable q -> chunks_ok chunks ->
  tq_iter q <> [] ->
  In (OAdd p t) (hd [] chunks) ->
  (forall c, In c chunks -> ~ In (ORemove t) c) ->
  shutdown (shutdown_fuel chunks q) chunks q = (q', log, true) ->
  In t (ran log).
Proof.
  intros chunks q q' log p t R Hc Hne Hadd Hn E. assert (I := inv_reachable q R).
  rewrite iter_ok in Hne. destruct (contents q) as [| x rest] eqn:C; [exfalso; apply Hne; reflexivity |].
  unfold shutdown_fuel in E.
  destruct (shutdown_unfold (length (tq_iter q) + adds_in chunks) chunks q x rest I C) as [q1 [I1 [C1 U]]].
  rewrite U in E. clear U.
  destruct (regop_run (hd [] chunks) q1 I1 (chunks_ok_hd _ Hc)) as [I2 _].
  destruct (shutdown (length (tq_iter q) + adds_in chunks) (tl chunks) (fst (run (hd [] chunks) q1)))
    as [[q3 log3] fin3] eqn:E3.
  injection E as Eq El Ef. subst q3 fin3 log. simpl. right.
  apply (shutdown_runs_gen (length (tq_iter q) + adds_in chunks) (tl chunks) _ q' log3 t I2 (chunks_ok_tl _ Hc)); [| | exact E3].
  - (* after the first action's operations t is queued: the last thing that touched t was not a removal *)
    assert (Hn0 : ~ In (ORemove t) (hd [] chunks)).
    { destruct chunks as [| c r]; [intros [] | apply Hn; left; reflexivity]. }
    clear - I1 Hadd Hn0 Hc. assert (Hr := chunks_ok_hd _ Hc). revert q1 I1 Hadd Hn0 Hr.
    induction (hd [] chunks) as [| o ops IHo]; intros q1 I1 Hadd Hn0 Hr; [contradiction |].
    simpl in Hr. apply andb_true_iff in Hr. destruct Hr as [Ho Hr'].
    rewrite run_cons. simpl fst. destruct (regop_step o q1 I1 Ho) as [Io [_ Ko]].
    destruct Hadd as [Hadd | Hadd].
    + subst o. destruct (regop_run ops _ Io Hr') as [_ [_ K]]. apply K.
      * intro H. apply Hn0. right. exact H.
      * simpl. destruct (add_ok q1 p t I1) as [_ [Ca _]]. rewrite Ca. apply in_map_iff.
        exists (p, counter q1, t). split; [reflexivity | apply in_insert_by; left; reflexivity].
    + apply IHo; [exact Io | exact Hadd | intro H; apply Hn0; right; exact H | exact Hr'].
  - intros c Hin. apply Hn. destruct chunks as [| c0 r]; [contradiction | right; exact Hin].
Qed.

Lemma SD_first : forall f chunks q x rest, reachable q -> tq_iter q = x :: rest ->
  exists log', snd (fst (shutdown (S f) chunks q)) = RItem (fst x) (snd x) :: log'.
Proof.
  intros f chunks q x rest R E. assert (I := inv_reachable q R). rewrite iter_ok in E.
  destruct (contents q) as [| x0 rest0] eqn:C; [discriminate |]. simpl in E. inversion E; subst.
  exact (shutdown_first f chunks q x0 rest0 I C).
Qed.
