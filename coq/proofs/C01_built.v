(* C01_built.v -- the state after _build_ugen_graph (the graph function has run, nothing optimised yet):
   every object is a child at the slot of its creation, inputs refer to earlier objects, the arithmetic
   units have the shape the constructors' shortcuts guarantee.  Preserved by every constructor call
   (SynthDef._add_ugen), hence by every program of the model's language. *)
From Coq Require Import ZArith QArith List String Bool Arith Lia Setoid Permutation.
Import ListNotations.
Require Import SC3.model.Graph SC3.gen.Gen_opcodes SC3.proofs.C20_arrange SC3.proofs.C01_inv SC3.proofs.C01_inv2.
Open Scope string_scope.
Open Scope nat_scope.
Open Scope list_scope.

Definition T := mkT unops_list binops_list.
Arguments sort_by : simpl never.

Definition vok (s : st) (v : inp) : Prop :=
  match v with
  | K _ => True
  | O u ch => exists U, get_unit s u = Some U /\ (multi U = false -> ch = 0) /\ (isugen U = false -> iswf U = true) /\
                       ch < nouts U
  end.

(* the class names the model can write (finitely many literals) and the part of the control array a Control
   unit covers *)
Definition cls_lit (c : string) : bool :=
  arith_cls c || existsb (String.eqb c) (["Control"; "Out"; "DC"] ++ map (fun p => c_cls (snd p)) catalogue).
Definition ctl_bound (U : unit) (controls : list Q) : Prop :=
  (0 <= special U)%Z /\ (special U + Z.of_nat (nouts U) <= Z.of_nat (List.length controls))%Z.
Definition loc_ok (U : unit) (controls : list Q) : Prop :=
  cls_lit (cls U) = true /\ (String.eqb (cls U) "Control" = true -> ctl_bound U controls).

(* the WidthFirstUGen objects among the first n objects, in creation order *)
Definition iswf_at (s : st) (x : nat) : bool := match get_unit s x with Some X => iswf X | None => false end.
Definition wf_upto (s : st) (n : nat) : list nat := filter (iswf_at s) (seq 0 n).

Record Built (s : st) : Prop := mkBuilt {
  B_rw : rewriting s = false;
  B_children : children s = map Some (seq 0 (List.length (units s)));
  B_unit : forall u U, get_unit s u = Some U -> uid U = u /\ sidx U = Z.of_nat u /\ unit_ok U = true;
  B_ins : forall u U v ch, get_unit s u = Some U -> In (O v ch) (ins U) -> v < u /\ vok s (O v ch);
  B_wfa : forall u U, get_unit s u = Some U ->
          exists w, wfa U = Some w /\ forall x, In x w -> x < u /\ exists X, get_unit s x = Some X /\ iswf X = true;
  B_wfugens : forall x, In x (wfugens s) -> exists X, get_unit s x = Some X /\ iswf X = true;
  B_wfx : forall u U, get_unit s u = Some U -> wfa U = Some (wf_upto s u);
  B_wfux : wfugens s = wf_upto s (List.length (units s));
  B_loc : forall u U, get_unit s u = Some U -> loc_ok U (controls s)
}.

Definition ext (s s' : st) : Prop := exists extra, units s' = units s ++ extra.
Lemma ext_refl : forall s, ext s s. Proof. intro s; exists []; rewrite app_nil_r; auto. Qed.
Lemma ext_trans : forall a b c, ext a b -> ext b c -> ext a c.
Proof. intros a b c [x Hx] [y Hy]. exists (x ++ y). rewrite Hy, Hx, app_assoc. auto. Qed.
Lemma get_ext : forall s s' u U, ext s s' -> get_unit s u = Some U -> get_unit s' u = Some U.
Proof. intros s s' u U [x Hx] G. unfold get_unit in *. rewrite Hx. rewrite nth_error_app1; auto. apply nth_error_Some. congruence. Qed.
Lemma vok_ext : forall s s' v, ext s s' -> vok s v -> vok s' v.
Proof. intros s s' [q|u ch] E H; simpl in *; auto. destruct H as (U & G & M). exists U. split; auto. eapply get_ext; eauto. Qed.

(* an object that is read and is not a UGen instance is one of the reader's width-first antecedents; the
   antecedents of an input are antecedents of its reader *)
Lemma Built_covered : forall s c C v ch V, Built s -> get_unit s c = Some C -> In (O v ch) (ins C) -> get_unit s v = Some V ->
  exists w wv, wfa C = Some w /\ wfa V = Some wv /\ (isugen V = false -> In v w) /\ incl wv w.
Proof.
  intros s c C v ch V B GC Hin GV. destruct (B_ins s B c C v ch GC Hin) as [Lt (V0 & GV0 & _ & Hw & _)].
  rewrite GV in GV0. injection GV0 as <-.
  exists (wf_upto s c), (wf_upto s v). split; [apply (B_wfx s B); auto|]. split; [apply (B_wfx s B); auto|]. split.
  - intro Iu. unfold wf_upto. apply filter_In. split; [apply in_seq; lia|]. unfold iswf_at. rewrite GV. auto.
  - intros x Hx. unfold wf_upto in *. apply filter_In in Hx. destruct Hx as [Hx Hy]. apply filter_In. split; auto.
    apply in_seq in Hx. apply in_seq. lia.
Qed.

Lemma Built0 : Built st0.
Proof.
  constructor; simpl; auto.
  - intros u U H. destruct u; discriminate.
  - intros u U v ch H. destruct u; discriminate.
  - intros u U H. destruct u; discriminate.
  - intros x [].
  - intros u U H. destruct u; discriminate.
  - intros u U H. destruct u; discriminate.
Qed.

(* ---- one object creation (SynthDef._add_ugen) *)
Lemma create_built : forall s mk wfirst s' u, Built s -> create s mk wfirst = (s', u) ->
  (forall w i, let U := mk (List.length (units s)) w i in
     uid U = List.length (units s) /\ sidx U = i /\ wfa U = w /\ unit_ok U = true /\ iswf U = wfirst /\
     forall v ch, In (O v ch) (ins U) -> vok s (O v ch)) ->
  (forall w i, loc_ok (mk (List.length (units s)) w i) (controls s)) ->
  Built s' /\ u = List.length (units s) /\ ext s s' /\
  exists U, units s' = units s ++ [U] /\ U = mk (List.length (units s)) (Some (wfugens s)) (Z.of_nat (List.length (units s))).
Proof.
  intros s mk wfirst s' u B Hc Hmk Hloc. destruct B.
  set (n := List.length (units s)) in *.
  assert (Hclen : List.length (children s) = n) by (rewrite B_children0, map_length, seq_length; auto).
  unfold create in Hc. rewrite B_rw0, Hclen in Hc. fold n in Hc. injection Hc as <- <-.
  set (U := mk n (Some (wfugens s)) (Z.of_nat n)).
  destruct (Hmk (Some (wfugens s)) (Z.of_nat n)) as (H1 & H2 & H3 & H4 & H5 & H6). fold U in H1, H2, H3, H4, H5, H6.
  assert (Hget : forall x X, get_unit (mkS (units s ++ [U]) (children s ++ [Some n])
                       (if wfirst then wfugens s ++ [n] else wfugens s) false (sets s) (controls s)) x = Some X ->
                 (x < n /\ get_unit s x = Some X) \/ (x = n /\ X = U)).
  { intros x X G. unfold get_unit in G; simpl in G. destruct (Nat.lt_ge_cases x n) as [L|L].
    - rewrite nth_error_app1 in G by (fold n; auto). left; auto.
    - pose proof (nth_error_Some (units s ++ [U]) x) as Hs. rewrite app_length in Hs; simpl in Hs. fold n in Hs.
      assert (Hx : x < n + 1) by (apply Hs; congruence). assert (x = n) by lia. subst x.
      rewrite nth_error_app2, Nat.sub_diag in G by (fold n; lia). simpl in G. injection G as <-. right; auto. }
  split; [|split; [reflexivity|split; [exists [U]; reflexivity | exists U; split; reflexivity]]].
  assert (E0 : ext s (mkS (units s ++ [U]) (children s ++ [Some n])
                       (if wfirst then wfugens s ++ [n] else wfugens s) false (sets s) (controls s))) by (exists [U]; reflexivity).
  constructor.
  - reflexivity.
  - cbn [children units]. rewrite app_length; simpl. fold n. rewrite Nat.add_1_r, seq_S, map_app, B_children0. fold n. reflexivity.
  - intros x X G. destruct (Hget x X G) as [[L G0]|[-> ->]]; [apply B_unit0; auto|]. auto.
  - intros x X v ch G Hin. destruct (Hget x X G) as [[L G0]|[-> ->]].
    + destruct (B_ins0 x X v ch G0 Hin) as [A Bv]. split; auto. exact (vok_ext _ _ _ E0 Bv).
    + pose proof (H6 v ch Hin) as Hv. split; [|exact (vok_ext _ _ _ E0 Hv)].
      simpl in Hv. destruct Hv as (V & GV & _). apply get_lt in GV. fold n in GV. auto.
  - intros x X G. destruct (Hget x X G) as [[L G0]|[-> ->]].
    + destruct (B_wfa0 x X G0) as (w & Hw & Hall). exists w. split; auto. intros y Hy.
      destruct (Hall y Hy) as (A & Y & GY & WY). split; auto. exists Y. split; auto. eapply get_ext; eauto.
    + exists (wfugens s). split; auto. intros y Hy. destruct (B_wfugens0 y Hy) as (Y & GY & WY).
      split; [apply get_lt in GY; fold n in GY; auto|]. exists Y. split; auto. eapply get_ext; eauto.
  - cbn [wfugens]. intros x Hx. destruct wfirst.
    + apply in_app_iff in Hx. destruct Hx as [Hx|[<-|[]]].
      * destruct (B_wfugens0 x Hx) as (X & GX & WX). exists X. split; auto. eapply get_ext; eauto.
      * exists U. split; auto. unfold get_unit; simpl. rewrite nth_error_app2, Nat.sub_diag by (fold n; lia). auto.
    + destruct (B_wfugens0 x Hx) as (X & GX & WX). exists X. split; auto. eapply get_ext; eauto.
  - intros x X G. assert (Hsame : forall k, k <= n -> wf_upto (mkS (units s ++ [U]) (children s ++ [Some n])
                       (if wfirst then wfugens s ++ [n] else wfugens s) false (sets s) (controls s)) k = wf_upto s k).
    { intros k Hk. unfold wf_upto. apply filter_ext_in. intros y Hy. apply in_seq in Hy. unfold iswf_at, get_unit. cbn [units].
      rewrite nth_error_app1 by (fold n; lia). reflexivity. }
    destruct (Hget x X G) as [[L G0]|[-> ->]].
    + rewrite Hsame by lia. apply B_wfx0; auto.
    + rewrite Hsame by lia. rewrite H3. f_equal. exact B_wfux0.
  - cbn [wfugens units]. rewrite app_length. cbn [List.length]. fold n. rewrite Nat.add_1_r. unfold wf_upto. rewrite seq_S, filter_app. cbn [filter plus].
    assert (Hn : iswf_at (mkS (units s ++ [U]) (children s ++ [Some n])
                       (if wfirst then wfugens s ++ [n] else wfugens s) false (sets s) (controls s)) n = wfirst).
    { unfold iswf_at, get_unit. cbn [units]. rewrite nth_error_app2, Nat.sub_diag by (fold n; lia). simpl. exact H5. }
    rewrite Hn.
    assert (Hold : filter (iswf_at (mkS (units s ++ [U]) (children s ++ [Some n])
                       (if wfirst then wfugens s ++ [n] else wfugens s) false (sets s) (controls s))) (seq 0 n) = wfugens s).
    { rewrite B_wfux0. unfold wf_upto. fold n. apply filter_ext_in. intros y Hy. apply in_seq in Hy. unfold iswf_at, get_unit. cbn [units].
      rewrite nth_error_app1 by (fold n; lia). reflexivity. }
    rewrite Hold. destruct wfirst; [reflexivity | rewrite app_nil_r; reflexivity].
  - intros x X G. cbn [controls]. destruct (Hget x X G) as [[L G0]|[-> ->]]; [apply (B_loc0 x X); auto | apply Hloc].
Qed.

(* ---- the operator tables: every canonical name looks itself up *)
Lemma find_row_head : forall name rows i0 i n, find_row name rows i0 = Some (i, n) ->
  exists r, In r rows /\ n = hd "" r.
Proof.
  intros name rows. induction rows as [|r t IH]; intros i0 i n H; simpl in H; [discriminate|].
  destruct (existsb (String.eqb name) r).
  - injection H as <- <-. exists r. split; [left|]; auto.
  - destruct (IH _ _ _ H) as (r' & A & B). exists r'. split; [right|]; auto.
Qed.
Definition head_canon (r : list string) : bool :=
  match sc_spindex_opname T (hd "" r) with Some (_, n') => String.eqb n' (hd "" r) | None => false end.
Lemma heads_canon : forallb head_canon (un_tab T ++ bin_tab T) = true.
Proof. vm_compute. reflexivity. Qed.
Lemma T_idem : forall py i n, sc_spindex_opname T py = Some (i, n) -> exists i', sc_spindex_opname T n = Some (i', n).
Proof.
  intros py i n H. unfold sc_spindex_opname in H.
  assert (Hr : exists r, In r (un_tab T ++ bin_tab T) /\ n = hd "" r).
  { destruct (find_row py (un_tab T) 0%Z) as [[i1 n1]|] eqn:E.
    - injection H as <- <-. destruct (find_row_head _ _ _ _ _ E) as (r & A & B). exists r. split; auto. apply in_or_app; auto.
    - destruct (find_row_head _ _ _ _ _ H) as (r & A & B). exists r. split; auto. apply in_or_app; auto. }
  destruct Hr as (r & Hin & ->). pose proof heads_canon as Hc. rewrite forallb_forall in Hc.
  specialize (Hc r Hin). unfold head_canon in Hc.
  destruct (sc_spindex_opname T (hd "" r)) as [[i' n']|]; [|discriminate].
  apply String.eqb_eq in Hc. subst. eauto.
Qed.
Lemma T_plus : exists i, sc_spindex_opname T "+" = Some (i, "+"). Proof. eexists; vm_compute; reflexivity. Qed.
Lemma T_minus : exists i, sc_spindex_opname T "-" = Some (i, "-"). Proof. eexists; vm_compute; reflexivity. Qed.

Definition CtorOK (s s' : st) (v : inp) : Prop := Built s' /\ vok s' v /\ ext s s'.
Lemma CtorOK_same : forall s v, Built s -> vok s v -> CtorOK s s v.
Proof. intros; split; [|split]; auto. apply ext_refl. Qed.
Lemma CtorOK_trans : forall s s1 s2 v, ext s s1 -> CtorOK s1 s2 v -> CtorOK s s2 v.
Proof. intros s s1 s2 v E (A & B & C). split; [|split]; auto. eapply ext_trans; eauto. Qed.

Lemma vok_new : forall s s' U, units s' = units s ++ [U] -> multi U = false -> isugen U = true -> nouts U = 1 ->
  vok s' (O (List.length (units s)) 0).
Proof.
  intros s s' U H M Iu Hn. simpl. exists U. split; [|split; [auto | split; [rewrite Iu; discriminate | rewrite Hn; lia]]].
  unfold get_unit. rewrite H, nth_error_app2, Nat.sub_diag; auto.
Qed.

Lemma ctor_un_built : forall s name i a s' v, Built s -> vok s a -> isO a = true ->
  sc_spindex_opname T name = Some (i, name) -> ctor_un T s (Some name) a = Ok (s', v) -> CtorOK s s' v.
Proof.
  intros s name i a s' v B Va Ha Hn H. unfold ctor_un in H. destruct (negb _); [discriminate|]. rewrite Hn in H.
  destruct (create s _ false) as [s1 u] eqn:Ec. injection H as <- <-.
  destruct (create_built _ _ _ _ _ B Ec) as (B1 & -> & E1 & U & HU & EU).
  { intros w k. cbv zeta. cbn [uid sidx wfa iswf ins].
    split; [reflexivity|]. split; [reflexivity|]. split; [reflexivity|]. split; [|split; [reflexivity|]].
    - unfold unit_ok, tracked; simpl. destruct a; [discriminate|reflexivity].
    - intros v0 ch [E|[]]. rewrite <- E. exact Va. }
  { intros w k. split; [vm_compute; reflexivity | cbn [cls]; intro E; vm_compute in E; discriminate E]. }
  split; auto. split; auto. eapply vok_new; eauto; rewrite EU; reflexivity.
Qed.

Lemma vneg_built : forall s a s' v, Built s -> vok s a -> vneg T s a = Ok (s', v) -> CtorOK s s' v.
Proof.
  intros s a s' v B Va H. destruct a as [q|u ch]; unfold vneg in H.
  - injection H as <- <-. apply CtorOK_same; simpl; auto.
  - assert (E : sc_opname T "neg" = Some "neg") by (vm_compute; reflexivity). rewrite E in H.
    eapply (ctor_un_built s "neg"); eauto. vm_compute. reflexivity.
Qed.

(* the condition of unit_ok on the operands of a BinaryOpUGen *)
Definition binok (name : string) (a b : inp) : bool :=
  if String.eqb name "+" then nz a && nz b
  else if String.eqb name "-" then nz a && nz b
  else if String.eqb name "*" then nz a && nz b && negb (kis a 1) && negb (kis a (-1)) && negb (kis b 1) && negb (kis b (-1))
  else true.

Lemma new_bin_built : forall s name i a b s' v, Built s -> vok s a -> vok s b ->
  sc_spindex_opname T name = Some (i, name) -> binok name a b = true ->
  new_bin_unit T s name a b = Ok (s', v) -> CtorOK s s' v.
Proof.
  intros s name i a b s' v B Va Vb Hn Hok H. unfold new_bin_unit in H. rewrite Hn in H.
  destruct (create s _ false) as [s1 u] eqn:Ec. injection H as <- <-.
  destruct (create_built _ _ _ _ _ B Ec) as (B1 & -> & E1 & U & HU & EU).
  { intros w k. cbv zeta. cbn [uid sidx wfa iswf ins].
    split; [reflexivity|]. split; [reflexivity|]. split; [reflexivity|]. split; [|split; [reflexivity|]].
    - unfold unit_ok, tracked. cbn [pure isugen multi iswf ukind ins opname implb andb negb]. exact Hok.
    - intros v0 ch [E|[E|[]]]; rewrite <- E; auto. }
  { intros w k. split; [vm_compute; reflexivity | cbn [cls]; intro E; vm_compute in E; discriminate E]. }
  split; auto. split; auto. eapply vok_new; eauto; rewrite EU; reflexivity.
Qed.

Lemma kis_O : forall u ch z, kis (O u ch) z = false. Proof. reflexivity. Qed.
Lemma is_const_false : forall a, is_const a = false -> forall z, kis a z = false.
Proof. intros [q|u ch] H z; [discriminate|reflexivity]. Qed.

Lemma ctor_bin_built : forall s name i a b s' v, Built s -> vok s a -> vok s b ->
  sc_spindex_opname T name = Some (i, name) ->
  ctor_bin T s name a b = Ok (s', v) -> CtorOK s s' v.
Proof.
  intros s name i a b s' v B Va Vb Hn H. unfold ctor_bin in H.
  destruct (negb (is_const a) && negb (is_const b)) eqn:Enc.
  - apply andb_true_iff in Enc. destruct Enc as [Ea Eb]. apply negb_true_iff in Ea. apply negb_true_iff in Eb.
    apply (new_bin_built s name i a b s' v B Va Vb Hn); [|exact H]. unfold binok, nz.
    destruct (String.eqb name "+"); [rewrite (is_const_false a Ea), (is_const_false b Eb); reflexivity|].
    destruct (String.eqb name "-"); [rewrite (is_const_false a Ea), (is_const_false b Eb); reflexivity|].
    destruct (String.eqb name "*"); [rewrite !(is_const_false a Ea), !(is_const_false b Eb); reflexivity | reflexivity].
  - destruct (String.eqb name "*") eqn:E1.
    { destruct (kis a 0) eqn:K1; [injection H as <- <-; apply CtorOK_same; simpl; auto|].
      destruct (kis b 0) eqn:K2; [injection H as <- <-; apply CtorOK_same; simpl; auto|].
      destruct (kis a 1) eqn:K3; [injection H as <- <-; apply CtorOK_same; auto|].
      destruct (kis a (-1)) eqn:K4; [eapply vneg_built; [exact B| |exact H]; auto|].
      destruct (kis b 1) eqn:K5; [injection H as <- <-; apply CtorOK_same; auto|].
      destruct (kis b (-1)) eqn:K6; [eapply vneg_built; [exact B| |exact H]; auto|].
      apply (new_bin_built s name i a b s' v B Va Vb Hn); [|exact H]. apply String.eqb_eq in E1. subst name. unfold binok, nz. simpl.
      rewrite K1, K2, K3, K4, K5, K6. reflexivity. }
    destruct (String.eqb name "+") eqn:E2.
    { destruct (kis a 0) eqn:K1; [injection H as <- <-; apply CtorOK_same; auto|].
      destruct (kis b 0) eqn:K2; [injection H as <- <-; apply CtorOK_same; auto|].
      apply (new_bin_built s name i a b s' v B Va Vb Hn); [|exact H]. apply String.eqb_eq in E2. subst name. unfold binok, nz. simpl. rewrite K1, K2. reflexivity. }
    destruct (String.eqb name "-") eqn:E3.
    { destruct (kis a 0) eqn:K1; [eapply vneg_built; [exact B| |exact H]; auto|].
      destruct (kis b 0) eqn:K2; [injection H as <- <-; apply CtorOK_same; auto|].
      apply (new_bin_built s name i a b s' v B Va Vb Hn); [|exact H]. apply String.eqb_eq in E3. subst name. unfold binok, nz. simpl. rewrite K1, K2. reflexivity. }
    destruct (String.eqb name "/") eqn:E4.
    { destruct (kis b 1) eqn:K1; [injection H as <- <-; apply CtorOK_same; auto|].
      destruct (kis b (-1)) eqn:K2; [eapply vneg_built; [exact B| |exact H]; auto|].
      apply (new_bin_built s name i a b s' v B Va Vb Hn); [|exact H]. unfold binok. rewrite E2, E3, E1. reflexivity. }
    apply (new_bin_built s name i a b s' v B Va Vb Hn); [|exact H]. unfold binok. rewrite E2, E3, E1. reflexivity.
Qed.

Lemma py_binop_built : forall s py a b s' v, Built s -> vok s a -> vok s b ->
  py_binop T s py a b = Ok (s', v) -> CtorOK s s' v.
Proof.
  intros s py a b s' v B Va Vb H.
  assert (Hgen : (if ugen_ok s a && ugen_ok s b then
                    match sc_opname T py with Some n => ctor_bin T s n a b | None => Err EException end
                  else Err EType) = Ok (s', v) -> CtorOK s s' v).
  { intro H0. destruct (ugen_ok s a && ugen_ok s b); [|discriminate].
    unfold sc_opname in H0. destruct (sc_spindex_opname T py) as [[i n]|] eqn:E; [|discriminate].
    destruct (T_idem py i n E) as [i' Hn]. exact (ctor_bin_built s n i' a b s' v B Va Vb Hn H0). }
  destruct a as [x|ua ca], b as [y|ub cb]; try (apply Hgen; exact H).
  unfold py_binop in H.
  destruct (String.eqb py "add"); [injection H as <- <-; apply CtorOK_same; simpl; auto|].
  destruct (String.eqb py "sub"); [injection H as <- <-; apply CtorOK_same; simpl; auto|].
  destruct (String.eqb py "mul"); [injection H as <- <-; apply CtorOK_same; simpl; auto|discriminate].
Qed.

Lemma py_unop_built : forall s py a s' v, Built s -> vok s a -> py_unop T s py a = Ok (s', v) -> CtorOK s s' v.
Proof.
  intros s py a s' v B Va H. destruct a as [q|u ch]; unfold py_unop in H.
  - destruct (String.eqb py "neg"); [injection H as <- <-; apply CtorOK_same; simpl; auto|discriminate].
  - unfold sc_opname in H. destruct (sc_spindex_opname T py) as [[i n]|] eqn:E.
    + destruct (T_idem py i n E) as [i' Hn]. exact (ctor_un_built s n i' (O u ch) s' v B Va eq_refl Hn H).
    + unfold ctor_un in H. destruct (negb _); discriminate.
Qed.

Lemma plain_built : forall s s1 u cls r l k pu, Built s ->
  create s (fun u w i => mkU u cls r l 1 0%Z "" k pu false true false ChkValid w i None 0) false = (s1, u) ->
  unit_ok (mkU 0 cls r l 1 0%Z "" k pu false true false ChkValid None 0%Z None 0) = true ->
  (forall v ch, In (O v ch) l -> vok s (O v ch)) ->
  cls_lit cls = true -> String.eqb cls "Control" = false ->
  CtorOK s s1 (O u 0).
Proof.
  intros s s1 u cls r l k pu B Ec Hok Hl Hc1 Hc2.
  destruct (create_built _ _ _ _ _ B Ec) as (B1 & -> & E1 & U & HU & EU).
  { intros w i. cbv zeta. cbn [uid sidx wfa iswf ins].
    split; [reflexivity|]. split; [reflexivity|]. split; [reflexivity|]. split; [exact Hok|split; [reflexivity|exact Hl]]. }
  { intros w i. split; [exact Hc1 | simpl; rewrite Hc2; discriminate]. }
  split; auto. split; auto. eapply vok_new; eauto; rewrite EU; reflexivity.
Qed.

Lemma ctor_muladd_built : forall s i m a s' v, Built s -> vok s i -> vok s m -> vok s a ->
  ctor_muladd T s i m a = Ok (s', v) -> CtorOK s s' v.
Proof.
  intros s i m a s' v B Vi Vm Va H. unfold ctor_muladd in H.
  destruct (kis m 0); [injection H as <- <-; apply CtorOK_same; auto|].
  destruct (kis m 1 && kis a 0); [injection H as <- <-; apply CtorOK_same; auto|].
  destruct (kis m (-1) && kis a 0); [exact (py_unop_built s "neg" i s' v B Vi H)|].
  destruct (kis a 0); [exact (py_binop_built s "mul" i m s' v B Vi Vm H)|].
  destruct (kis m (-1)); [exact (py_binop_built s "sub" a i s' v B Va Vi H)|].
  destruct (kis m 1); [exact (py_binop_built s "add" i a s' v B Vi Va H)|].
  assert (Hl : forall x y z, vok s x -> vok s y -> vok s z -> forall v0 ch, In (O v0 ch) [x; y; z] -> vok s (O v0 ch)).
  { intros x y z A1 A2 A3 v0 ch [E|[E|[E|[]]]]; rewrite <- E; auto. }
  destruct (can_be_muladd s i m a).
  - destruct (create s _ false) as [s1 u] eqn:Ec. injection H as <- <-.
    eapply plain_built; eauto; reflexivity.
  - destruct (can_be_muladd s m i a).
    + destruct (create s _ false) as [s1 u] eqn:Ec. injection H as <- <-.
      eapply plain_built; eauto; reflexivity.
    + destruct (py_binop T s "mul" i m) as [[s1 p]|e] eqn:E1; cbn [bind] in H; [|discriminate].
      destruct (py_binop_built s "mul" i m s1 p B Vi Vm E1) as (B1 & Vp & X1).
      apply (CtorOK_trans s s1 s' v X1). exact (py_binop_built s1 "add" p a s' v B1 Vp (vok_ext _ _ _ X1 Va) H).
Qed.

Lemma forallb_nz3 : forall a b c, kis a 0 = false -> kis b 0 = false -> kis c 0 = false -> forallb nz [a; b; c] = true.
Proof. intros a b c A B C. simpl. unfold nz. rewrite A, B, C. reflexivity. Qed.

Lemma sum3_built : forall s a b c s' v, Built s -> vok s a -> vok s b -> vok s c ->
  sum3_new1 T s a b c = Ok (s', v) -> CtorOK s s' v.
Proof.
  intros s a b c s' v B Va Vb Vc H. unfold sum3_new1 in H.
  destruct (kis c 0) eqn:K1; [exact (py_binop_built s "add" a b s' v B Va Vb H)|].
  destruct (kis b 0) eqn:K2; [exact (py_binop_built s "add" a c s' v B Va Vc H)|].
  destruct (kis a 0) eqn:K3; [exact (py_binop_built s "add" b c s' v B Vb Vc H)|].
  destruct (create s _ false) as [s1 u] eqn:Ec. injection H as <- <-.
  eapply plain_built; eauto; try reflexivity.
  - unfold unit_ok, tracked. cbn [pure isugen multi iswf ukind ins opname implb andb negb].
    rewrite sort_by_length. cbn [List.length Nat.eqb]. rewrite forallb_sort; [reflexivity | apply forallb_nz3; auto].
  - intros v0 ch Hin. apply sort_by_In in Hin. destruct Hin as [E|[E|[E|[]]]]; rewrite <- E; auto.
Qed.

Lemma sum4_built : forall s a b c d s' v, Built s -> vok s a -> vok s b -> vok s c -> vok s d ->
  sum4_new1 T s a b c d = Ok (s', v) -> CtorOK s s' v.
Proof.
  intros s a b c d s' v B Va Vb Vc Vd H. unfold sum4_new1 in H.
  destruct (kis a 0); [eapply sum3_built; [exact B| | | |exact H]; auto|].
  destruct (kis b 0); [eapply sum3_built; [exact B| | | |exact H]; auto|].
  destruct (kis c 0); [eapply sum3_built; [exact B| | | |exact H]; auto|].
  destruct (kis d 0); [eapply sum3_built; [exact B| | | |exact H]; auto|].
  destruct (create s _ false) as [s1 u] eqn:Ec. injection H as <- <-.
  eapply plain_built; eauto; try reflexivity.
  - unfold unit_ok, tracked. cbn [pure isugen multi iswf ukind ins opname implb andb negb].
    rewrite sort_by_length. reflexivity.
  - intros v0 ch Hin. apply sort_by_In in Hin. destruct Hin as [E|[E|[E|[E|[]]]]]; rewrite <- E; auto.
Qed.

(* ---- catalogue units, outputs, controls *)
Lemma assoc_In : forall {B} k (l : list (string * B)) v, assoc k l = Some v -> In (k, v) l.
Proof.
  intros B k l v. induction l as [|[k' v'] t IH]; simpl; [discriminate|].
  destruct (String.eqb k k') eqn:E; intro H.
  - injection H as <-. apply String.eqb_eq in E. subst. left; auto.
  - right; auto.
Qed.
Definition centry_ok (c : centry) : bool := implb (c_pure c) (c_isugen c) && implb (c_wf c) (negb (c_pure c)).
Lemma catalogue_ok : forallb (fun p => centry_ok (snd p)) catalogue = true.
Proof. vm_compute. reflexivity. Qed.
(* a class that is not a UGen subclass but whose objects can be inputs (the FFT chain) is width-first *)
Definition centry_ok2 (c : centry) : bool := implb (c_hasval c && negb (c_isugen c)) (c_wf c).
Lemma catalogue_ok2 : forallb (fun p => centry_ok2 (snd p)) catalogue = true.
Proof. vm_compute. reflexivity. Qed.

Definition ValsOK (s s' : st) (vals : list inp) : Prop := Built s' /\ ext s s' /\ forall v, In v vals -> vok s' v.

(* catalogue classes: a known literal, never "Control", at least one output when the object can be an input *)
Definition centry_ok3 (c : centry) : bool :=
  cls_lit (c_cls c) && negb (String.eqb (c_cls c) "Control") && implb (c_hasval c) (Nat.leb 1 (c_nouts c)).
Lemma catalogue_ok3 : forallb (fun p => centry_ok3 (snd p)) catalogue = true.
Proof. vm_compute. reflexivity. Qed.

Lemma ctor_cat_built : forall s name r args tg s' vals, Built s -> (forall v, In v args -> vok s v) ->
  ctor_cat s name r args tg = Ok (s', vals) -> ValsOK s s' vals.
Proof.
  intros s name r args tg s' vals B Hargs H. unfold ctor_cat in H.
  destruct (assoc name catalogue) as [c|] eqn:Ea; [|discriminate].
  destruct (negb _ || negb _); [discriminate|].
  destruct (create s _ (c_wf c)) as [s1 u] eqn:Ec. injection H as <- <-.
  pose proof catalogue_ok as Hcat. rewrite forallb_forall in Hcat.
  specialize (Hcat (name, c) (assoc_In _ _ _ Ea)). simpl in Hcat.
  destruct (create_built _ _ _ _ _ B Ec) as (B1 & -> & E1 & U & HU & EU).
  { intros w k. cbv zeta. cbn [uid sidx wfa iswf ins].
    split; [reflexivity|]. split; [reflexivity|]. split; [reflexivity|]. split; [|split; [reflexivity|]].
    - unfold unit_ok. cbn [pure isugen iswf ukind]. exact Hcat.
    - intros v ch Hin. apply in_map_iff in Hin. destruct Hin as ([n|q] & E & _); [|discriminate].
      destruct (nth_in_or_default n args (K 0)) as [Hn|Hn].
      + rewrite E in Hn. apply Hargs; auto.
      + rewrite Hn in E. discriminate. }
  { pose proof catalogue_ok3 as Hc3. rewrite forallb_forall in Hc3.
    specialize (Hc3 (name, c) (assoc_In _ _ _ Ea)). unfold centry_ok3 in Hc3. cbn [snd] in Hc3.
    apply andb_true_iff in Hc3. destruct Hc3 as [Hc3 _]. apply andb_true_iff in Hc3. destruct Hc3 as [C1 C2].
    intros w k. split; [exact C1 | cbn [cls]; apply negb_true_iff in C2; rewrite C2; discriminate]. }
  split; auto. split; auto. intros v Hv.
  pose proof catalogue_ok3 as Hc3. rewrite forallb_forall in Hc3.
  specialize (Hc3 (name, c) (assoc_In _ _ _ Ea)). unfold centry_ok3 in Hc3. cbn [snd] in Hc3.
  apply andb_true_iff in Hc3. destruct Hc3 as [_ Hnout].
  pose proof catalogue_ok2 as Hcat2. rewrite forallb_forall in Hcat2.
  specialize (Hcat2 (name, c) (assoc_In _ _ _ Ea)). unfold centry_ok2 in Hcat2. cbn [snd] in Hcat2.
  destruct (c_hasval c); [|contradiction]. unfold chans in Hv. apply in_map_iff in Hv. destruct Hv as (ch & <- & Hch).
  cbn [implb] in Hnout. apply Nat.leb_le in Hnout.
  simpl. exists U. split; [|split; [|split]].
  - unfold get_unit. rewrite HU, nth_error_app2, Nat.sub_diag; auto.
  - rewrite EU. cbn [multi]. intro M. rewrite M in Hch. apply in_seq in Hch. lia.
  - rewrite EU. cbn [isugen iswf]. intro Iu. rewrite Iu in Hcat2. exact Hcat2.
  - rewrite EU. cbn [nouts]. apply in_seq in Hch. destruct (c_multi c); lia.
Qed.

Lemma Built_controls : forall s extra, Built s ->
  Built (mkS (units s) (children s) (wfugens s) (rewriting s) (sets s) (controls s ++ extra)).
Proof.
  intros s extra []. constructor; auto.
  intros u U G. destruct (B_loc0 u U G) as [A Bd]. split; auto. intro E. destruct (Bd E) as [B1 B2]. split; auto.
  cbn [controls]. rewrite app_length. lia.
Qed.

Lemma ctor_ctl_built : forall s r vals s' ps, Built s -> ctor_ctl s r vals = (s', ps) -> ValsOK s s' ps.
Proof.
  intros s r vals s' ps B H. unfold ctor_ctl in H. destruct vals as [|q t].
  - injection H as <- <-. split; auto. split; [apply ext_refl|]. intros v [].
  - (* `create` does not read the control array: extend it first, then create the Control unit *)
    set (vals := q :: t) in *. clearbody vals.
    set (sc := mkS (units s) (children s) (wfugens s) (rewriting s) (sets s) (controls s ++ map Qred vals)).
    pose proof (Built_controls s (map Qred vals) B) as Bc. fold sc in Bc.
    set (mk := fun (u : nat) (w : option (list nat)) (k : Z) =>
                 mkU u "Control" r [] (List.length vals) (Z.of_nat (List.length (controls s))) "" KCtl false true true false ChkValid w k None 0).
    destruct (create sc mk false) as [s1c uc] eqn:Ecc.
    assert (Hsame : (s', ps) = (s1c, chans uc (List.length vals))).
    { rewrite <- H. unfold create in Ecc |- *. subst sc. cbn [units children wfugens rewriting sets controls] in Ecc |- *.
      destruct (rewriting s); cbn [units children wfugens rewriting sets controls]; injection Ecc as <- <-; reflexivity. }
    injection Hsame as -> ->.
    destruct (create_built _ _ _ _ _ Bc Ecc) as (B1 & -> & E1 & U & HU & EU).
    { intros w k. cbv zeta. unfold mk. cbn [uid sidx wfa iswf ins].
      split; [reflexivity|]. split; [reflexivity|]. split; [reflexivity|]. split; [reflexivity|split; [reflexivity|]].
      intros v ch []. }
    { intros w k. unfold mk. split; [vm_compute; reflexivity|]. intros _. unfold ctl_bound. cbn [special nouts]. subst sc. cbn [controls].
      rewrite app_length, map_length, Nat2Z.inj_add. split; [apply Nat2Z.is_nonneg | apply Z.le_refl]. }
    split; [exact B1|]. split; [destruct E1 as [x Hx]; exists x; exact Hx|].
    intros v Hv. unfold chans in Hv. apply in_map_iff in Hv. destruct Hv as (ch & <- & Hch).
    simpl. exists U. split; [|split; [|split]].
    + unfold get_unit; simpl. rewrite HU, nth_error_app2, Nat.sub_diag; auto.
    + rewrite EU. unfold mk. cbn [multi]. discriminate.
    + rewrite EU. unfold mk. cbn [isugen]. discriminate.
    + rewrite EU. unfold mk. cbn [nouts]. apply in_seq in Hch. lia.
Qed.

Lemma ctor_out_built : forall s r bus xs tg s', Built s -> vok s bus -> (forall v, In v xs -> vok s v) ->
  ctor_out s r bus xs tg = Ok s' -> Built s' /\ ext s s'.
Proof.
  intros s r bus xs tg s' B Vb Vx H. unfold ctor_out in H.
  assert (Hout : forall s0 outs, Built s0 -> vok s0 bus -> (forall v, In v outs -> vok s0 v) ->
            let s1 := fst (create s0 (fun u w k => mkU u "Out" r (bus :: outs) 0 0%Z "" KOut false false false false (ChkOut 1) w k None tg) false) in
            Built s1 /\ ext s0 s1).
  { intros s0 outs B0 Vb0 Vo. cbv zeta. destruct (create s0 _ false) as [s1 u] eqn:Ec. simpl.
    destruct (create_built _ _ _ _ _ B0 Ec) as (B1 & _ & E1 & _); auto.
    - intros w k. cbv zeta. cbn [uid sidx wfa iswf ins].
      split; [reflexivity|]. split; [reflexivity|]. split; [reflexivity|]. split; [reflexivity|split; [reflexivity|]].
      intros v ch [E|Hin]; [rewrite <- E; auto | apply Vo; auto].
    - intros w k. split; [vm_compute; reflexivity | cbn [cls]; intro E; vm_compute in E; discriminate E]. }
  destruct r; try discriminate.
  - injection H as <-. apply Hout; auto.
  - destruct (create s _ false) as [s1 d] eqn:Ec. injection H as <-.
    destruct (create_built _ _ _ _ _ B Ec) as (B1 & -> & E1 & U & HU & EU).
    { intros w k. cbv zeta. cbn [uid sidx wfa iswf ins].
      split; [reflexivity|]. split; [reflexivity|]. split; [reflexivity|]. split; [reflexivity|split; [reflexivity|]].
      intros v ch [E|[]]. discriminate. }
    { intros w k. split; [vm_compute; reflexivity | cbn [cls]; intro E; vm_compute in E; discriminate E]. }
    destruct (Hout s1 (map (fun x => if kis x 0 then O (List.length (units s)) 0 else x) xs) B1) as [B2 E2].
    + eapply vok_ext; eauto.
    + intros v Hv. apply in_map_iff in Hv. destruct Hv as (x & <- & Hx). destruct (kis x 0).
      * simpl. exists U. split; [unfold get_unit; rewrite HU, nth_error_app2, Nat.sub_diag; auto|]. rewrite EU. cbn [multi isugen nouts]. split; [discriminate | split; [discriminate | lia]].
      * eapply vok_ext; eauto.
    + split; auto. eapply ext_trans; eauto.
Qed.

(* ---- programs *)
Definition EnvOK (s : st) (e : env) : Prop :=
  (forall l v, In l (e_vals e) -> In v l -> vok s v) /\ (forall v, In v (e_ir e) -> vok s v) /\ (forall v, In v (e_kr e) -> vok s v).
Lemma EnvOK_ext : forall s s' e, ext s s' -> EnvOK s e -> EnvOK s' e.
Proof. intros s s' e E (A & B & C). split; [|split]; intros; eapply vok_ext; eauto. Qed.

Lemma lookup_ok : forall s e a v, EnvOK s e -> lookup e a = Ok v -> vok s v.
Proof.
  intros s e a v (A & B & C) H. destruct a as [q|i ch|kr j]; simpl in H.
  - injection H as <-. simpl; auto.
  - destruct (nth_error (e_vals e) i) as [l|] eqn:E1; [|discriminate].
    destruct (nth_error l ch) as [x|] eqn:E2; [|discriminate]. injection H as <-.
    eapply A; eapply nth_error_In; eauto.
  - destruct kr.
    + destruct (nth_error (e_kr e) j) eqn:E; [|discriminate]. injection H as <-. apply C. eapply nth_error_In; eauto.
    + destruct (nth_error (e_ir e) j) eqn:E; [|discriminate]. injection H as <-. apply B. eapply nth_error_In; eauto.
Qed.
Lemma lookups_ok : forall s e l vs, EnvOK s e -> lookups e l = Ok vs -> forall v, In v vs -> vok s v.
Proof.
  intros s e l. induction l as [|a t IH]; intros vs HE H v Hv; simpl in H.
  - injection H as <-. contradiction.
  - destruct (lookup e a) as [x|] eqn:E1; cbn [bind] in H; [|discriminate].
    destruct (lookups e t) as [r|] eqn:E2; cbn [bind] in H; [|discriminate]. injection H as <-.
    destruct Hv as [<-|Hv]; [eapply lookup_ok; eauto | eapply IH; eauto].
Qed.

Lemma sum_fold_built : forall l s acc s' v, Built s -> vok s acc -> (forall x, In x l -> vok s x) ->
  fold_left (fun a x => do2 s0, r <- a; py_binop T s0 "add" r x) l (Ok (s, acc)) = Ok (s', v) -> CtorOK s s' v.
Proof.
  induction l as [|x t IH]; intros s acc s' v B Va Vl H; simpl in H.
  - injection H as <- <-. apply CtorOK_same; auto.
  - destruct (py_binop T s "add" acc x) as [[s1 r]|e] eqn:E.
    + destruct (py_binop_built s "add" acc x s1 r B Va (Vl x (or_introl eq_refl)) E) as (B1 & Vr & X1).
      apply (CtorOK_trans s s1 s' v X1). apply (IH s1 r); auto. intros y Hy. eapply vok_ext; eauto. apply Vl; right; auto.
    + exfalso. clear -H. induction t as [|y t' IHt]; simpl in H; [discriminate|auto].
Qed.

Lemma step_built : forall s e idx i s' vals, Built s -> EnvOK s e -> step T s e idx i = Ok (s', vals) -> ValsOK s s' vals.
Proof.
  intros s e idx i s' vals B HE H.
  assert (One : forall s1 v, CtorOK s s1 v -> ValsOK s s1 [v]).
  { intros s1 v (A & Bv & C). split; auto. split; auto. intros x [<-|[]]; auto. }
  destruct i; simpl in H.
  - destruct (lookups e args) as [a|] eqn:E; cbn [bind] in H; [|discriminate].
    eapply ctor_cat_built; eauto. eapply lookups_ok; eauto.
  - destruct (lookup e a) as [x|] eqn:E; cbn [bind] in H; [|discriminate].
    destruct (py_unop T s py x) as [[s1 v]|] eqn:E2; cbn [bind] in H; [|discriminate]. injection H as <- <-.
    apply One. eapply py_unop_built; eauto. eapply lookup_ok; eauto.
  - destruct (lookup e a) as [x|] eqn:E; cbn [bind] in H; [|discriminate].
    destruct (lookup e b) as [y|] eqn:E1; cbn [bind] in H; [|discriminate].
    destruct (py_binop T s py x y) as [[s1 v]|] eqn:E2; cbn [bind] in H; [|discriminate]. injection H as <- <-.
    apply One. eapply py_binop_built; eauto; eapply lookup_ok; eauto.
  - destruct (lookup e a) as [x|] eqn:E; cbn [bind] in H; [|discriminate].
    destruct (lookup e b) as [y|] eqn:E1; cbn [bind] in H; [|discriminate].
    destruct (lookup e c) as [z|] eqn:E3; cbn [bind] in H; [|discriminate].
    destruct (ctor_muladd T s x y z) as [[s1 v]|] eqn:E2; cbn [bind] in H; [|discriminate]. injection H as <- <-.
    apply One. eapply ctor_muladd_built; eauto; eapply lookup_ok; eauto.
  - destruct (lookups e xs) as [l|] eqn:E; cbn [bind] in H; [|discriminate].
    destruct (fold_left _ l (Ok (s, K 0))) as [[s1 v]|] eqn:E2; cbn [bind] in H; [|discriminate]. injection H as <- <-.
    apply One. eapply sum_fold_built; eauto; [simpl; auto | eapply lookups_ok; eauto].
  - destruct (lookup e a) as [x|] eqn:E; cbn [bind] in H; [|discriminate].
    destruct (lookup e b) as [y|] eqn:E1; cbn [bind] in H; [|discriminate].
    destruct (lookup e c) as [z|] eqn:E3; cbn [bind] in H; [|discriminate].
    destruct (sum3_new1 T s x y z) as [[s1 v]|] eqn:E2; cbn [bind] in H; [|discriminate]. injection H as <- <-.
    apply One. eapply sum3_built; eauto; eapply lookup_ok; eauto.
  - destruct (lookup e a) as [x|] eqn:E; cbn [bind] in H; [|discriminate].
    destruct (lookup e b) as [y|] eqn:E1; cbn [bind] in H; [|discriminate].
    destruct (lookup e c) as [z|] eqn:E3; cbn [bind] in H; [|discriminate].
    destruct (lookup e d) as [w|] eqn:E4; cbn [bind] in H; [|discriminate].
    destruct (sum4_new1 T s x y z w) as [[s1 v]|] eqn:E2; cbn [bind] in H; [|discriminate]. injection H as <- <-.
    apply One. eapply sum4_built; eauto; eapply lookup_ok; eauto.
  - destruct (lookup e bus) as [b|] eqn:E; cbn [bind] in H; [|discriminate].
    destruct (lookups e xs) as [l|] eqn:E1; cbn [bind] in H; [|discriminate].
    destruct (ctor_out s r b l (S idx)) as [s1|] eqn:E2; cbn [bind] in H; [|discriminate]. injection H as <- <-.
    destruct (ctor_out_built s r b l (S idx) s1 B) as [B1 X1]; auto; [eapply lookup_ok; eauto | eapply lookups_ok; eauto|].
    split; auto. split; auto. intros v [].
  - discriminate.
Qed.

Lemma run_ins_built : forall l s e idx s', Built s -> EnvOK s e -> run_ins T s e idx l = Ok s' -> Built s' /\ ext s s'.
Proof.
  induction l as [|i t IH]; intros s e idx s' B HE H; simpl in H.
  - injection H as <-. split; auto. apply ext_refl.
  - destruct (step T s e idx i) as [[s1 v]|] eqn:E; cbn [bind] in H; [|discriminate].
    destruct (step_built s e idx i s1 v B HE E) as (B1 & X1 & Vv).
    assert (HE1 : EnvOK s1 (mkE (e_vals e ++ [v]) (e_ir e) (e_kr e))).
    { pose proof (EnvOK_ext _ _ _ X1 HE) as (A1 & A2 & A3). split; [|split]; simpl; auto.
      intros l0 x Hl Hx. apply in_app_iff in Hl. destruct Hl as [Hl|[<-|[]]]; eauto. }
    destruct (IH s1 _ (S idx) s' B1 HE1 H) as [B2 X2].
    split; auto. eapply ext_trans; eauto.
Qed.

Theorem build_graph_built : forall p s, build_graph T p = Ok s -> Built s.
Proof.
  intros p s H. unfold build_graph in H.
  destruct (ctor_ctl st0 Scalar (p_ir p)) as [s1 irs] eqn:E1.
  destruct (ctor_ctl s1 Control (p_kr p)) as [s2 krs] eqn:E2.
  destruct (ctor_ctl_built _ _ _ _ _ Built0 E1) as (B1 & X1 & V1).
  destruct (ctor_ctl_built _ _ _ _ _ B1 E2) as (B2 & X2 & V2).
  assert (HE : EnvOK s2 (mkE [] irs krs)).
  { split; [|split]; simpl; auto. - intros l v []. - intros v Hv. eapply vok_ext; eauto. }
  destruct (run_ins_built _ _ _ _ _ B2 HE H) as [B3 _]. exact B3.
Qed.
