(* C04 -- lemmas about the control layout computed by model/Controls.v (repaired code, cfg = fixed). *)
From Coq Require Import String List QArith Bool Arith PeanoNat Lia.
Import ListNotations.
Require Import SC3.model.Controls.
Open Scope nat_scope.

(* ------------------------------------------------------------------ generic list facts *)
Lemma seg_app {A} (a x b : list A) : firstn (length x) (skipn (length a) (a ++ x ++ b)) = x.
Proof.
  rewrite skipn_app, skipn_all, Nat.sub_diag. simpl.
  rewrite firstn_app, firstn_all, Nat.sub_diag. simpl. apply app_nil_r.
Qed.

Lemma skipn_skipn' {A} : forall x y (l : list A), skipn x (skipn y l) = skipn (y + x) l.
Proof.
  intros x y. revert x. induction y as [|y IH]; intros x l; [reflexivity|].
  destruct l as [|a l]; simpl; [apply skipn_nil|apply IH].
Qed.

Lemma flat_map_app' {A B} (f : A -> list B) l1 l2 : flat_map f (l1 ++ l2) = flat_map f l1 ++ flat_map f l2.
Proof. induction l1 as [|x l1 IH]; simpl; [reflexivity|]. rewrite IH, app_assoc. reflexivity. Qed.

Lemma clump_concat {A} : forall fuel n (l : list A), 0 < n -> length l <= fuel -> concat (clump_f fuel n l) = l.
Proof.
  induction fuel as [|f IH]; intros n l Hn Hl.
  - destruct l; simpl in *; [reflexivity|lia].
  - destruct l as [|a l]; [reflexivity|].
    cbn [clump_f concat]. rewrite IH; [apply firstn_skipn|assumption|].
    rewrite skipn_length. cbn [length] in *. lia.
Qed.

(* ------------------------------------------------------------------ rates *)
Lemma rate_eqb_eq a b : rate_eqb a b = true <-> a = b.
Proof. destruct a, b; simpl; split; intro H; try reflexivity; try discriminate. Qed.
Lemma rate_eqb_refl a : rate_eqb a a = true.
Proof. destruct a; reflexivity. Qed.
Lemma rate_eqb_neq a b : rate_eqb a b = false <-> a <> b.
Proof. destruct a, b; simpl; split; intro H; try reflexivity; try discriminate; try congruence; exfalso; apply H; reflexivity. Qed.

(* the entries of rate r among a list of entries, and the slots they need *)
Definition of_rate (r : rate) (l : list cname) : list cname := filter (fun c => rate_eqb (cn_rate c) r) l.
Definition gslots (r : rate) (l : list cname) : list Q := group_vals (of_rate r l).

Lemma group_of_map r (cns : list placed) : group_of r cns = of_rate r (map fst cns).
Proof. reflexivity. Qed.

Lemma of_rate_app r l1 l2 : of_rate r (l1 ++ l2) = of_rate r l1 ++ of_rate r l2.
Proof. apply filter_app. Qed.

Lemma gslots_app r l1 l2 : gslots r (l1 ++ l2) = gslots r l1 ++ gslots r l2.
Proof. unfold gslots, group_vals. rewrite of_rate_app. apply flat_map_app'. Qed.

Lemma gslots_cons_same r c l : cn_rate c = r -> gslots r (c :: l) = cn_default c ++ gslots r l.
Proof. intro H. unfold gslots, of_rate. simpl. rewrite H, rate_eqb_refl. reflexivity. Qed.
Lemma gslots_cons_other r c l : cn_rate c <> r -> gslots r (c :: l) = gslots r l.
Proof. intro H. unfold gslots, of_rate. simpl. apply rate_eqb_neq in H. rewrite H. reflexivity. Qed.

(* ------------------------------------------------------------------ scatter *)
Definition same_but_index (a b : cname) : Prop :=
  cn_name a = cn_name b /\ cn_rate a = cn_rate b /\ cn_default a = cn_default b /\
  cn_scalar a = cn_scalar b /\ cn_lag a = cn_lag b /\ cn_argnum a = cn_argnum b.

Lemma same_but_index_refl a : same_but_index a a.
Proof. repeat split. Qed.
Lemma same_but_index_trans a b c : same_but_index a b -> same_but_index b c -> same_but_index a c.
Proof. unfold same_but_index. intuition congruence. Qed.
Lemma same_set_index c i : same_but_index (set_index c i) c.
Proof. repeat split. Qed.

Lemma scatter_length r : forall cns idx px, length (scatter r idx px cns) = length cns.
Proof.
  induction cns as [|[c p] cns IH]; intros idx px; simpl; [reflexivity|].
  destruct (rate_eqb (cn_rate c) r); simpl; rewrite IH; reflexivity.
Qed.

(* the result of scatter, position by position *)
Lemma scatter_split r : forall pre idx px c p post,
  scatter r idx px (pre ++ (c, p) :: post) =
  scatter r idx px pre ++
  (if rate_eqb (cn_rate c) r
   then (set_index c (idx + length (gslots r (map fst pre))),
         firstn (dlen c) (skipn (length (gslots r (map fst pre))) px))
   else (c, p)) ::
  scatter r (idx + length (gslots r (map fst (pre ++ [(c, p)]))))
            (skipn (length (gslots r (map fst (pre ++ [(c, p)])))) px) post.
Proof.
  induction pre as [|[c0 p0] pre IH]; intros idx px c p post.
  - simpl. unfold gslots, of_rate. simpl.
    destruct (rate_eqb (cn_rate c) r) eqn:E; simpl.
    + rewrite app_nil_r, Nat.add_0_r. reflexivity.
    + rewrite Nat.add_0_r. reflexivity.
  - cbn [app scatter map fst].
    destruct (rate_eqb (cn_rate c0) r) eqn:E0.
    + apply rate_eqb_eq in E0.
      rewrite IH. cbn [app]. f_equal.
      rewrite !(gslots_cons_same r c0) by assumption.
      rewrite !app_length. unfold dlen. rewrite !skipn_skipn'.
      rewrite <- !Nat.add_assoc. reflexivity.
    + apply rate_eqb_neq in E0.
      rewrite IH. cbn [app]. f_equal.
      rewrite !(gslots_cons_other r c0) by assumption. reflexivity.
Qed.

Lemma scatter_fst_same r : forall cns idx px,
  Forall2 (fun a b => same_but_index (fst a) (fst b)) (scatter r idx px cns) cns.
Proof.
  induction cns as [|[c p] cns IH]; intros idx px; simpl; [constructor|].
  destruct (rate_eqb (cn_rate c) r); constructor; try apply IH; simpl.
  - apply same_set_index. - apply same_but_index_refl.
Qed.

Lemma of_rate_same r : forall l1 l2, Forall2 same_but_index l1 l2 ->
  gslots r l1 = gslots r l2.
Proof.
  induction 1 as [|a b l1 l2 H _ IH]; [reflexivity|].
  destruct H as (_ & Hr & Hd & _).
  destruct (rate_eqb (cn_rate a) r) eqn:E.
  - apply rate_eqb_eq in E. rewrite (gslots_cons_same r a), (gslots_cons_same r b) by congruence.
    rewrite IH, Hd. reflexivity.
  - apply rate_eqb_neq in E. rewrite (gslots_cons_other r a), (gslots_cons_other r b) by congruence.
    exact IH.
Qed.

Lemma Forall2_map_fst {A B} (P : A -> A -> Prop) (l1 l2 : list (A * B)) :
  Forall2 (fun a b => P (fst a) (fst b)) l1 l2 -> Forall2 P (map fst l1) (map fst l2).
Proof. induction 1; simpl; constructor; assumption. Qed.

Lemma scatter_gslots r r' cns idx px :
  gslots r' (map fst (scatter r idx px cns)) = gslots r' (map fst cns).
Proof. apply of_rate_same, Forall2_map_fst, scatter_fst_same. Qed.

(* entries of another rate are left alone *)
Lemma scatter_other r : forall cns idx px,
  of_rate r (map fst cns) = [] -> scatter r idx px cns = cns.
Proof.
  induction cns as [|[c p] cns IH]; intros idx px H; simpl; [reflexivity|].
  unfold of_rate in H. simpl in H.
  destruct (rate_eqb (cn_rate c) r) eqn:E; [discriminate|].
  f_equal. apply IH. exact H.
Qed.

(* ------------------------------------------------------------------ output proxies *)
Lemma nth_error_skipn' {A} : forall n (l : list A) i, nth_error (skipn n l) i = nth_error l (n + i).
Proof.
  induction n as [|n IH]; intros l i; [reflexivity|].
  destruct l as [|a l]; simpl; [destruct i; reflexivity|apply IH].
Qed.
Lemma nth_error_firstn' {A} : forall n (l : list A) k, k < n -> nth_error (firstn n l) k = nth_error l k.
Proof.
  induction n as [|n IH]; intros l k Hk; [lia|].
  destruct l as [|a l]; [destruct k; reflexivity|].
  destruct k as [|k]; simpl; [reflexivity|apply IH; lia].
Qed.

(* every proxy of px is an output of a control unit of class cls; the k-th proxy is the
   output that reads slot base + k; for a LagControl its lag input is the k-th of glags *)
Definition px_ok (cls : ucls) (glags : list Q) (units : list cunit) (base : nat) (px : list proxy) : Prop :=
  forall k, k < length px ->
    exists un, nth_error units (fst (nth k px (0, 0))) = Some un /\
      u_special un + snd (nth k px (0, 0)) = base + k /\
      snd (nth k px (0, 0)) < length (u_values un) /\
      u_cls un = cls /\
      (cls = ULag -> nth_error (u_lags un) (snd (nth k px (0, 0))) = nth_error glags k).

Lemma px_ok_nil cls glags units base : px_ok cls glags units base [].
Proof. intros k Hk. simpl in Hk. lia. Qed.

Lemma px_ok_ext cls glags units ext base px :
  px_ok cls glags units base px -> px_ok cls glags (units ++ ext) base px.
Proof.
  intros H k Hk. destruct (H k Hk) as (un & Hn & Hrest).
  exists un. split; [|exact Hrest].
  rewrite nth_error_app1; [exact Hn|]. apply nth_error_Some. congruence.
Qed.

Lemma px_ok_app cls glags units base p1 p2 :
  px_ok cls glags units base p1 ->
  px_ok cls (skipn (length p1) glags) units (base + length p1) p2 ->
  px_ok cls glags units base (p1 ++ p2).
Proof.
  intros H1 H2 k Hk. rewrite app_length in Hk.
  destruct (lt_dec k (length p1)) as [Hlt|Hge].
  - rewrite app_nth1 by assumption. apply H1. assumption.
  - rewrite app_nth2 by lia.
    destruct (H2 (k - length p1)) as (un & Hn & Hs & Ho & Hc & Hl); [lia|].
    exists un. repeat split; try assumption; [lia|].
    intro Hc'. rewrite (Hl Hc'), nth_error_skipn'. f_equal. lia.
Qed.

Lemma proxies_of_length u n : length (proxies_of u n) = n.
Proof. unfold proxies_of. rewrite map_length, seq_length. reflexivity. Qed.
Lemma proxies_of_nth u n k : k < n -> nth k (proxies_of u n) (0, 0) = (u, k).
Proof.
  intro Hk. unfold proxies_of.
  rewrite (nth_indep _ (0, 0) ((fun k => (u, k)) 0)) by (rewrite map_length, seq_length; assumption).
  rewrite map_nth, seq_nth by assumption. reflexivity.
Qed.

Lemma px_ok_unit cls glags before un ext base n :
  u_special un = base -> length (u_values un) = n -> u_cls un = cls ->
  (cls = ULag -> forall k, k < n -> nth_error (u_lags un) k = nth_error glags k) ->
  px_ok cls glags (before ++ un :: ext) base (proxies_of (length before) n).
Proof.
  intros Hs Hn Hc Hl k Hk. rewrite proxies_of_length in Hk.
  rewrite proxies_of_nth by assumption. simpl.
  exists un. repeat split; try assumption; try lia.
  - rewrite nth_error_app2, Nat.sub_diag by lia. reflexivity.
  - intro Hc'. apply Hl; assumption.
Qed.

(* ------------------------------------------------------------------ one rate group = one stage *)
Definition stage (r : rate) (cls : ucls) (glags : list Q) (st st' : bstate) (cns cns' : list placed) : Prop :=
  st_controls st' = st_controls st ++ gslots r (map fst cns) /\
  st_cindex st' = length (st_controls st') /\
  st_all st' = st_all st /\ st_callable st' = st_callable st /\ st_recv st' = st_recv st /\
  (exists ext, st_units st' = st_units st ++ ext) /\
  exists px, cns' = scatter r (length (st_controls st)) px cns /\
             length px = length (gslots r (map fst cns)) /\
             px_ok cls glags (st_units st') (length (st_controls st)) px.

Lemma stage_empty r cls glags st cns :
  st_cindex st = length (st_controls st) -> of_rate r (map fst cns) = [] -> stage r cls glags st st cns cns.
Proof.
  intros Hi Hg. unfold stage, gslots. rewrite Hg. simpl. rewrite app_nil_r.
  repeat split; try assumption.
  - exists []. rewrite app_nil_r. reflexivity.
  - exists []. repeat split.
    + symmetry. apply scatter_other. assumption.
    + apply px_ok_nil.
Qed.

Lemma build_ita_stage r cls ur st cns st' cns' :
  build_ita r cls ur (Ok (st, cns)) = Ok (st', cns') ->
  st_cindex st = length (st_controls st) ->
  stage r cls [] st st' cns cns'.
Proof.
  unfold build_ita. intros H Hi.
  destruct (group_of r cns) as [|c0 g] eqn:G.
  - injection H as <- <-. apply stage_empty; assumption.
  - remember (c0 :: g) as grp. destruct (group_vals grp) as [|v vals] eqn:V; [discriminate|].
    injection H as <- <-.
    assert (Hgs : gslots r (map fst cns) = v :: vals).
    { unfold gslots. rewrite <- group_of_map, G. exact V. }
    unfold stage. rewrite Hgs. cbn [add_unit st_controls st_cindex st_all st_callable st_recv st_units].
    repeat split.
    + rewrite app_length, Hi. reflexivity.
    + eexists. reflexivity.
    + eexists. split; [rewrite Hi; reflexivity|]. split; [apply proxies_of_length|].
      rewrite <- (app_nil_r [_]). rewrite <- app_comm_cons.
      apply px_ok_unit; try reflexivity.
Qed.

(* ------------------------------------------------------------------ the LagControl clumps *)
Lemma mce_len_LI l : mce_len (map LI l) = 0.
Proof. induction l; simpl; assumption || reflexivity. Qed.
Lemma pick_LI l : map (pick 0) (map LI l) = l.
Proof. induction l as [|a l IH]; simpl; [reflexivity|rewrite IH; reflexivity]. Qed.

Lemma lag_fold : forall fuel vals glags st px0 st' px',
  length vals = length glags -> length vals <= fuel ->
  fold_left lag_clump (combine (clump_f fuel 16 vals) (clump_f fuel 16 (map LI glags))) (st, px0) = (st', px') ->
  st_controls st' = st_controls st ++ vals /\ st_cindex st' = st_cindex st + length vals /\
  st_all st' = st_all st /\ st_callable st' = st_callable st /\ st_recv st' = st_recv st /\
  (exists ext, st_units st' = st_units st ++ ext) /\
  exists px, px' = px0 ++ px /\ length px = length vals /\
             px_ok ULag glags (st_units st') (length (st_controls st)) px.
Proof.
  induction fuel as [|f IH]; intros vals glags st px0 st' px' Hlen Hfuel H.
  - destruct vals; [|simpl in Hfuel; lia]. simpl in H. injection H as <- <-.
    rewrite app_nil_r. repeat split; try lia.
    + exists []. rewrite app_nil_r. reflexivity.
    + exists []. rewrite app_nil_r. repeat split. apply px_ok_nil.
  - destruct vals as [|v vs].
    { simpl in H. injection H as <- <-. rewrite app_nil_r. repeat split; try (simpl; lia).
      - exists []. rewrite app_nil_r. reflexivity.
      - exists []. rewrite app_nil_r. repeat split. apply px_ok_nil. }
    destruct glags as [|g gs]; [simpl in Hlen; lia|].
    remember (v :: vs) as vals. remember (g :: gs) as gl.
    assert (Hc1 : clump_f (S f) 16 vals = firstn 16 vals :: clump_f f 16 (skipn 16 vals)).
    { subst vals. reflexivity. }
    assert (Hc2 : clump_f (S f) 16 (map LI gl) = map LI (firstn 16 gl) :: clump_f f 16 (map LI (skipn 16 gl))).
    { subst gl. cbn [map clump_f]. rewrite <- map_cons, firstn_map, skipn_map. reflexivity. }
    rewrite Hc1, Hc2 in H. cbn [combine fold_left] in H.
    unfold lag_clump at 2 in H. rewrite mce_len_LI, pick_LI in H.
    set (un := {| u_cls := ULag; u_rate := URcontrol; u_special := length (st_controls st);
                  u_values := firstn 16 vals; u_lags := firstn 16 gl |}) in *.
    apply IH in H.
    2:{ rewrite !skipn_length. lia. }
    2:{ rewrite skipn_length. assert (length vals >= 1) by (subst vals; simpl; lia). lia. }
    cbn [add_unit st_controls st_cindex st_all st_callable st_recv st_units] in H.
    destruct H as (Hctl & Hidx & Hall & Hcal & Hrecv & (ext & Hunits) & px & Hpx & Hpl & Hok).
    repeat split; try assumption.
    + rewrite Hctl, <- app_assoc, firstn_skipn. reflexivity.
    + rewrite Hidx, <- Nat.add_assoc, <- app_length, firstn_skipn. reflexivity.
    + exists (un :: ext). rewrite Hunits, <- app_assoc. reflexivity.
    + exists (proxies_of (length (st_units st)) (length (firstn 16 vals)) ++ px).
      split; [rewrite Hpx, app_assoc; reflexivity|].
      split; [rewrite app_length, proxies_of_length, Hpl, <- app_length, firstn_skipn; reflexivity|].
      apply px_ok_app.
      * rewrite Hunits, <- app_assoc. cbn [app].
        apply px_ok_unit; try reflexivity.
        intros _ k Hk. cbn [u_lags un]. apply nth_error_firstn'.
        rewrite firstn_length in Hk. lia.
      * rewrite proxies_of_length.
        destruct (le_lt_dec 16 (length vals)) as [Hbig|Hsmall].
        -- rewrite firstn_length, Nat.min_l by assumption.
           rewrite app_length, firstn_length, Nat.min_l in Hok by assumption. exact Hok.
        -- assert (Hz : length px = 0) by (rewrite Hpl, skipn_length; lia).
           destruct px; [apply px_ok_nil|simpl in Hz; lia].
Qed.

(* ------------------------------------------------------------------ the kr group (repaired code) *)
Definition klags (g : list cname) : list Q :=
  flat_map (fun c => wrap_extend (lag_as_list (cn_lag c)) (dlen c)) g.

Lemma lagitems_fixed g : flat_map (cn_lagitems fixed) g = map LI (klags g).
Proof.
  induction g as [|c g IH]; [reflexivity|].
  unfold klags in *. cbn [flat_map]. rewrite map_app, <- IH.
  unfold cn_lagitems at 1. cbn [fix_laglist fixed]. rewrite orb_true_r. reflexivity.
Qed.
Lemma existsb_LI l : existsb item_nz (map LI l) = existsb qnz l.
Proof. induction l as [|a l IH]; simpl; [reflexivity|rewrite IH; reflexivity]. Qed.

Lemma build_kr_stage st cns st' cns' :
  build_kr fixed (Ok (st, cns)) = Ok (st', cns') ->
  st_cindex st = length (st_controls st) ->
  (existsb qnz (klags (of_rate Rkr (map fst cns))) = true /\
   stage Rkr ULag (klags (of_rate Rkr (map fst cns))) st st' cns cns') \/
  (existsb qnz (klags (of_rate Rkr (map fst cns))) = false /\ stage Rkr UControl [] st st' cns cns').
Proof.
  unfold build_kr. intros H Hi. rewrite group_of_map in H.
  destruct (of_rate Rkr (map fst cns)) as [|c0 g] eqn:G.
  - injection H as <- <-. right. split; [reflexivity|]. apply stage_empty; assumption.
  - remember (c0 :: g) as grp.
    assert (Hgs : gslots Rkr (map fst cns) = group_vals grp) by (unfold gslots; rewrite G; reflexivity).
    rewrite lagitems_fixed, existsb_LI in H.
    destruct (existsb qnz (klags grp)) eqn:NZ.
    + left. split; [reflexivity|].
      destruct (length (group_vals grp) =? length (map LI (klags grp))) eqn:L; [|discriminate].
      apply Nat.eqb_eq in L. cbn [negb] in H.
      destruct (fold_left lag_clump _ (st, [])) as [st1 px] eqn:F.
      injection H as <- <-.
      unfold clump in F. rewrite <- L in F. rewrite map_length in L.
      apply lag_fold in F; [|assumption|lia].
      destruct F as (Hctl & Hidx & Hall & Hcal & Hrecv & Hext & px' & Hpx & Hpl & Hok).
      unfold stage. rewrite Hgs. repeat split; try assumption.
      * rewrite Hidx, Hctl, app_length, Hi. reflexivity.
      * exists px'. simpl in Hpx. subst px. rewrite Hi. repeat split; assumption.
    + right. split; [reflexivity|].
      destruct (group_vals grp) as [|v vals] eqn:V; [discriminate|].
      injection H as <- <-.
      unfold stage. rewrite Hgs. cbn [add_unit st_controls st_cindex st_all st_callable st_recv st_units].
      repeat split.
      * rewrite app_length, Hi. reflexivity.
      * eexists. reflexivity.
      * eexists. split; [rewrite Hi; reflexivity|]. split; [apply proxies_of_length|].
        rewrite <- (app_nil_r [_]). rewrite <- app_comm_cons.
        apply px_ok_unit; try reflexivity.
Qed.

(* ------------------------------------------------------------------ what a stage does at position i *)
Definition chan_ok (cls : ucls) (glags : list Q) (units : list cunit) (index off n : nat) (p : list proxy) : Prop :=
  length p = n /\
  forall j, j < n ->
    exists un, nth_error units (fst (nth j p (0, 0))) = Some un /\
      u_special un + snd (nth j p (0, 0)) = index + j /\
      snd (nth j p (0, 0)) < length (u_values un) /\
      u_cls un = cls /\
      (cls = ULag -> nth_error (u_lags un) (snd (nth j p (0, 0))) = nth_error glags (off + j)).

Lemma chan_ok_ext cls glags units ext index off n p :
  chan_ok cls glags units index off n p -> chan_ok cls glags (units ++ ext) index off n p.
Proof.
  intros [Hl H]. split; [assumption|]. intros j Hj. destruct (H j Hj) as (un & Hn & Hrest).
  exists un. split; [|exact Hrest]. rewrite nth_error_app1; [exact Hn|]. apply nth_error_Some. congruence.
Qed.

Lemma nth_firstn_skipn {A} (d : A) n off : forall (l : list A) j, j < n -> nth j (firstn n (skipn off l)) d = nth (off + j) l d.
Proof.
  intros l j Hj.
  rewrite <- (firstn_skipn off l) at 2.
  destruct (le_lt_dec (length l) off) as [Hbig|Hsmall].
  - rewrite skipn_all2 by assumption. rewrite firstn_nil, app_nil_r.
    rewrite (nth_overflow (firstn off l)) by (rewrite firstn_length; lia). destruct j; reflexivity.
  - rewrite app_nth2 by (rewrite firstn_length; lia).
    rewrite firstn_length, Nat.min_l by lia.
    replace (off + j - off) with j by lia.
    revert j Hj. generalize (skipn off l). clear. intros l. revert l.
    induction n as [|n IH]; intros l j Hj; [lia|].
    destruct l as [|a l]; [destruct j; reflexivity|].
    destruct j as [|j]; simpl; [reflexivity|apply IH; lia].
Qed.

Lemma split_nth {A} (l : list A) i x : nth_error l i = Some x -> l = firstn i l ++ x :: skipn (S i) l.
Proof.
  revert l. induction i as [|i IH]; intros [|a l] H; try discriminate.
  - injection H as ->. reflexivity.
  - simpl in H. cbn [firstn skipn app]. f_equal. apply IH. assumption.
Qed.

Lemma stage_nth r cls glags st st' cns cns' i c p :
  stage r cls glags st st' cns cns' -> nth_error cns i = Some (c, p) ->
  exists c' p', nth_error cns' i = Some (c', p') /\
    (cn_rate c <> r -> c' = c /\ p' = p) /\
    (cn_rate c = r ->
       c' = set_index c (length (st_controls st) + length (gslots r (map fst (firstn i cns)))) /\
       chan_ok cls glags (st_units st') (cn_index c') (length (gslots r (map fst (firstn i cns)))) (dlen c) p').
Proof.
  intros (Hctl & _ & _ & _ & _ & _ & px & Hcns & Hpl & Hok) Hn.
  pose proof (split_nth _ _ _ Hn) as Hsp.
  assert (Hi : i < length cns) by (apply nth_error_Some; congruence).
  assert (Hfl : length (firstn i cns) = i) by (rewrite firstn_length; lia).
  rewrite Hsp in Hcns. rewrite scatter_split in Hcns.
  assert (Hnth : nth_error cns' i =
     Some (if rate_eqb (cn_rate c) r
           then (set_index c (length (st_controls st) + length (gslots r (map fst (firstn i cns)))),
                 firstn (dlen c) (skipn (length (gslots r (map fst (firstn i cns)))) px))
           else (c, p))).
  { rewrite Hcns. rewrite nth_error_app2 by (rewrite scatter_length; lia).
    rewrite scatter_length, Hfl, Nat.sub_diag. reflexivity. }
  destruct (rate_eqb (cn_rate c) r) eqn:E.
  - apply rate_eqb_eq in E. eexists _, _. split; [exact Hnth|]. split; [intro; contradiction|].
    intros _. split; [reflexivity|].
    assert (Hroom : length (gslots r (map fst (firstn i cns))) + dlen c <= length px).
    { rewrite Hpl. rewrite Hsp at 2. rewrite map_app, gslots_app. cbn [map fst].
      rewrite (gslots_cons_same r c) by assumption. rewrite !app_length. unfold dlen. apply Nat.add_le_mono_l, Nat.le_add_r. }
    set (off := length (gslots r (map fst (firstn i cns)))) in *.
    split.
    + rewrite firstn_length, skipn_length. lia.
    + intros j Hj. rewrite nth_firstn_skipn by assumption.
      destruct (Hok (off + j)) as (un & H1 & H2 & H3 & H4 & H5); [lia|].
      exists un. repeat split; try assumption.
      cbn [cn_index set_index]. lia.
  - apply rate_eqb_neq in E. eexists _, _. split; [exact Hnth|]. split; [intros _; split; reflexivity|].
    intro; contradiction.
Qed.

(* ------------------------------------------------------------------ the four stages together *)
Definition sbi (l1 l2 : list cname) : Prop := Forall2 same_but_index l1 l2.
Lemma sbi_refl l : sbi l l.
Proof. induction l; constructor; [apply same_but_index_refl|assumption]. Qed.
Lemma sbi_trans l1 l2 l3 : sbi l1 l2 -> sbi l2 l3 -> sbi l1 l3.
Proof.
  intro H. revert l3. induction H as [|a b l1 l2 Hab _ IH]; intros l3 H3; inversion H3; subst; constructor.
  - eapply same_but_index_trans; eassumption. - apply IH. assumption.
Qed.
Lemma sbi_firstn i : forall l1 l2, sbi l1 l2 -> sbi (firstn i l1) (firstn i l2).
Proof.
  induction i as [|i IH]; intros l1 l2 H; [constructor|].
  destruct H; simpl; constructor; [assumption|apply IH; assumption].
Qed.
Lemma sbi_scatter r idx px cns l : sbi (map fst cns) l -> sbi (map fst (scatter r idx px cns)) l.
Proof. intro H. eapply sbi_trans; [|exact H]. apply Forall2_map_fst, scatter_fst_same. Qed.
Lemma sbi_gslots r l1 l2 : sbi l1 l2 -> gslots r l1 = gslots r l2.
Proof. apply of_rate_same. Qed.
Lemma sbi_klags r : forall l1 l2, sbi l1 l2 -> klags (of_rate r l1) = klags (of_rate r l2).
Proof.
  induction 1 as [|a b l1 l2 H _ IH]; [reflexivity|].
  destruct H as (_ & Hr & Hd & _ & Hl & _).
  unfold of_rate in *. cbn [filter]. rewrite Hr.
  destruct (rate_eqb (cn_rate b) r); [|exact IH].
  unfold klags in *. cbn [flat_map]. rewrite IH. unfold dlen. rewrite Hd, Hl. reflexivity.
Qed.
Lemma firstn_map_fst {A B} i (l : list (A * B)) : map fst (firstn i l) = firstn i (map fst l).
Proof. symmetry. apply firstn_map. Qed.

Definition before (r : rate) (cns : list cname) : nat :=
  match r with
  | Rir => 0
  | Rtr => length (gslots Rir cns)
  | Rar => length (gslots Rir cns) + length (gslots Rtr cns)
  | Rkr => length (gslots Rir cns) + length (gslots Rtr cns) + length (gslots Rar cns)
  end.

Definition cls_ok (r : rate) (kl : list Q) (cls : ucls) (glags : list Q) : Prop :=
  match r with
  | Rir => cls = UControl | Rtr => cls = UTrig | Rar => cls = UAudio
  | Rkr => (existsb qnz kl = true /\ cls = ULag /\ glags = kl) \/ (existsb qnz kl = false /\ cls = UControl)
  end.

Lemma set_index_rate c i : cn_rate (set_index c i) = cn_rate c. Proof. reflexivity. Qed.
Lemma set_index_dlen c i : dlen (set_index c i) = dlen c. Proof. reflexivity. Qed.
Lemma set_index_twice c i j : set_index (set_index c i) j = set_index c j. Proof. reflexivity. Qed.

Lemma build_controls_spec st cns st' pl :
  build_controls fixed st cns = Ok (st', pl) -> st_cindex st = length (st_controls st) ->
  st_controls st' = st_controls st ++ gslots Rir cns ++ gslots Rtr cns ++ gslots Rar cns ++ gslots Rkr cns /\
  st_cindex st' = length (st_controls st') /\
  st_all st' = st_all st /\ st_callable st' = st_callable st /\ st_recv st' = st_recv st /\
  (exists ext, st_units st' = st_units st ++ ext) /\
  length pl = length cns /\
  forall i c0, nth_error cns i = Some c0 ->
    exists p, nth_error pl i =
                Some (set_index c0 (length (st_controls st) + before (cn_rate c0) cns
                                    + length (gslots (cn_rate c0) (firstn i cns))), p) /\
      exists cls glags, cls_ok (cn_rate c0) (klags (of_rate Rkr cns)) cls glags /\
        chan_ok cls glags (st_units st')
                (length (st_controls st) + before (cn_rate c0) cns + length (gslots (cn_rate c0) (firstn i cns)))
                (length (gslots (cn_rate c0) (firstn i cns))) (dlen c0) p.
Proof.
  unfold build_controls. intros H Hi0.
  set (cns0 := map (fun c => (c, @nil proxy)) cns) in *.
  assert (B0 : sbi (map fst cns0) cns).
  { unfold cns0. rewrite map_map. cbn [fst]. rewrite map_id. apply sbi_refl. }
  destruct (build_ita Rir UControl URscalar (Ok (st, cns0))) as [[st1 cns1]|e] eqn:E1; [|discriminate].
  destruct (build_ita Rtr UTrig URcontrol (Ok (st1, cns1))) as [[st2 cns2]|e] eqn:E2; [|discriminate].
  destruct (build_ita Rar UAudio URaudio (Ok (st2, cns2))) as [[st3 cns3]|e] eqn:E3; [|discriminate].
  apply build_ita_stage in E1; [|assumption].
  pose proof E1 as (C1 & I1 & A1 & L1 & R1 & (x1 & U1) & px1 & P1 & _).
  apply build_ita_stage in E2; [|assumption].
  pose proof E2 as (C2 & I2 & A2 & L2 & R2 & (x2 & U2) & px2 & P2 & _).
  apply build_ita_stage in E3; [|assumption].
  pose proof E3 as (C3 & I3 & A3 & L3 & R3 & (x3 & U3) & px3 & P3 & _).
  assert (B1 : sbi (map fst cns1) cns) by (rewrite P1; apply sbi_scatter; assumption).
  assert (B2 : sbi (map fst cns2) cns) by (rewrite P2; apply sbi_scatter; assumption).
  assert (B3 : sbi (map fst cns3) cns) by (rewrite P3; apply sbi_scatter; assumption).
  apply build_kr_stage in H; [|assumption].
  assert (H4 : exists cls glags, cls_ok Rkr (klags (of_rate Rkr cns)) cls glags /\ stage Rkr cls glags st3 st' cns3 pl).
  { rewrite (sbi_klags Rkr _ _ B3) in H. destruct H as [[Hnz Hs]|[Hnz Hs]].
    - exists ULag, (klags (of_rate Rkr cns)). split; [left; repeat split; assumption|assumption].
    - exists UControl, []. split; [right; split; [assumption|reflexivity]|assumption]. }
  clear H. destruct H4 as (cls4 & gl4 & K4 & E4).
  pose proof E4 as (C4 & I4 & A4 & L4 & R4 & (x4 & U4) & px4 & P4 & _).
  rewrite (sbi_gslots _ _ _ B0) in C1. rewrite (sbi_gslots _ _ _ B1) in C2.
  rewrite (sbi_gslots _ _ _ B2) in C3. rewrite (sbi_gslots _ _ _ B3) in C4.
  assert (LEN : length pl = length cns).
  { rewrite P4, scatter_length, P3, scatter_length, P2, scatter_length, P1, scatter_length.
    unfold cns0. apply map_length. }
  repeat split.
  - rewrite C4, C3, C2, C1, <- !app_assoc. reflexivity.
  - assumption.
  - congruence. - congruence. - congruence.
  - exists (x1 ++ x2 ++ x3 ++ x4). rewrite U4, U3, U2, U1, <- !app_assoc. reflexivity.
  - assumption.
  - intros i c0 Hn.
    assert (N0 : nth_error cns0 i = Some (c0, [])).
    { unfold cns0. rewrite nth_error_map, Hn. reflexivity. }
    assert (F0 : forall r, gslots r (map fst (firstn i cns0)) = gslots r (firstn i cns))
      by (intro r; rewrite <- firstn_map; apply sbi_gslots, sbi_firstn, B0).
    assert (F1 : forall r, gslots r (map fst (firstn i cns1)) = gslots r (firstn i cns))
      by (intro r; rewrite <- firstn_map; apply sbi_gslots, sbi_firstn, B1).
    assert (F2 : forall r, gslots r (map fst (firstn i cns2)) = gslots r (firstn i cns))
      by (intro r; rewrite <- firstn_map; apply sbi_gslots, sbi_firstn, B2).
    assert (F3 : forall r, gslots r (map fst (firstn i cns3)) = gslots r (firstn i cns))
      by (intro r; rewrite <- firstn_map; apply sbi_gslots, sbi_firstn, B3).
    destruct (stage_nth _ _ _ _ _ _ _ _ _ _ E1 N0) as (c1 & p1 & N1 & D1 & S1).
    destruct (stage_nth _ _ _ _ _ _ _ _ _ _ E2 N1) as (c2 & p2 & N2 & D2 & S2).
    destruct (stage_nth _ _ _ _ _ _ _ _ _ _ E3 N2) as (c3 & p3 & N3 & D3 & S3).
    destruct (stage_nth _ _ _ _ _ _ _ _ _ _ E4 N3) as (c4 & p4 & N4 & D4 & S4).
    rewrite F0 in S1. rewrite F1 in S2. rewrite F2 in S3. rewrite F3 in S4.
    assert (Len1 : length (st_controls st1) = length (st_controls st) + length (gslots Rir cns))
      by (rewrite C1, app_length; reflexivity).
    assert (Len2 : length (st_controls st2) = length (st_controls st) + length (gslots Rir cns) + length (gslots Rtr cns))
      by (rewrite C2, app_length, Len1; reflexivity).
    assert (Len3 : length (st_controls st3) = length (st_controls st) + length (gslots Rir cns) + length (gslots Rtr cns) + length (gslots Rar cns))
      by (rewrite C3, app_length, Len2; reflexivity).
    destruct (cn_rate c0) eqn:RT.
    + (* ir *)
      destruct (S1 eq_refl) as [-> K1].
      destruct D2 as [-> ->]; [cbn [cn_rate set_index]; try rewrite RT; discriminate|].
      destruct D3 as [-> ->]; [cbn [cn_rate set_index]; try rewrite RT; discriminate|].
      destruct D4 as [-> ->]; [cbn [cn_rate set_index]; try rewrite RT; discriminate|].
      exists p1. cbn [before]. rewrite Nat.add_0_r. split; [exact N4|].
      exists UControl, []. split; [reflexivity|].
      rewrite U4, U3, U2. do 3 apply chan_ok_ext.
      cbn [cn_index set_index] in K1. exact K1.
    + (* tr *)
      destruct D1 as [-> ->]; [cbn [cn_rate set_index]; try rewrite RT; discriminate|].
      destruct (S2 RT) as [-> K2].
      destruct D3 as [-> ->]; [cbn [cn_rate set_index]; try rewrite RT; discriminate|].
      destruct D4 as [-> ->]; [cbn [cn_rate set_index]; try rewrite RT; discriminate|].
      exists p2. cbn [before]. rewrite <- Len1. split; [exact N4|].
      exists UTrig, []. split; [reflexivity|].
      rewrite U4, U3. do 2 apply chan_ok_ext.
      cbn [cn_index set_index] in K2. exact K2.
    + (* ar *)
      destruct D1 as [-> ->]; [cbn [cn_rate set_index]; try rewrite RT; discriminate|].
      destruct D2 as [-> ->]; [cbn [cn_rate set_index]; try rewrite RT; discriminate|].
      destruct (S3 RT) as [-> K3].
      destruct D4 as [-> ->]; [cbn [cn_rate set_index]; try rewrite RT; discriminate|].
      exists p3. cbn [before]. rewrite Nat.add_assoc, <- Len2. split; [exact N4|].
      exists UAudio, []. split; [reflexivity|].
      rewrite U4. apply chan_ok_ext.
      cbn [cn_index set_index] in K3. exact K3.
    + (* kr *)
      destruct D1 as [-> ->]; [cbn [cn_rate set_index]; try rewrite RT; discriminate|].
      destruct D2 as [-> ->]; [cbn [cn_rate set_index]; try rewrite RT; discriminate|].
      destruct D3 as [-> ->]; [cbn [cn_rate set_index]; try rewrite RT; discriminate|].
      destruct (S4 RT) as [-> K4'].
      exists p4. cbn [before]. rewrite !Nat.add_assoc, <- Len3. split; [exact N4|].
      exists cls4, gl4. split; [exact K4|].
      cbn [cn_index set_index] in K4'. exact K4'.
Qed.
