(* C16 -- alloc(n) preserves the invariant; safety and completeness of one alloc. *)
From Coq Require Import ZArith List Bool Lia.
Import ListNotations.
Require Import SC3.model.Alloc SC3.proofs.C16_base SC3.proofs.C16_inv.
Open Scope Z_scope.

(* the state alloc produces when _find_available returned the free block b *)
Definition alloc_result (s : st) (b : block) (n : Z) : st :=
  let x := bstart b in
  let f := fr_remove (freed s) (bsize b) x in
  if n <? bsize b then
    let t := Z.max (top s) (x + n) in
    mkS (arr (set_at (set_at s x (Some (mkB x n true))) (x + n) (Some (mkB (x + n) (bsize b - n) false))))
        (if x + n <? t then fr_add f (bsize b - n) (x + n) else f) t (pos s) (off s) (size s)
  else mkS (arr (set_at s x (Some (mkB x (bsize b) true)))) f (top s) (pos s) (off s) (size s).

Lemma alloc_exec s b n c : Pre s -> at_ s (bstart b) = Some b -> 0 <= n <= bsize b ->
  find_available s n c = Ok (Some b) -> alloc s n c = Ok (alloc_result s b n, Some (bstart b)).
Proof.
  intros P Hb Hn Hfa. pose proof (P_cell s P _ _ Hb) as Hc. pose proof (at_range _ _ _ Hb) as Hr.
  pose proof (P_len s P) as Hl.
  unfold alloc. rewrite Hfa. simpl. unfold reserve_. simpl. rewrite Z.ltb_irrefl. simpl.
  unfold split_, bsplit, alloc_result.
  destruct (Z.ltb_spec n (bsize b)) as [Hlt|Hge].
  - simpl. unfold hi in *.
    rewrite aset_in by lia. simpl. rewrite aset_in by (rewrite alen_setz; lia). simpl.
    unfold set_at; simpl.
    destruct (bstart b + n <? Z.max (top s) (bstart b + n)); reflexivity.
  - assert (E : n = bsize b) by lia. rewrite E, Z.eqb_refl. simpl. unfold hi in *.
    rewrite aset_in by lia. simpl.
    reflexivity.
Qed.

Section AllocLt.
Variables (s : st) (x m n : Z).
Hypothesis P : Pre s.
Hypothesis C : Coal s (fun _ _ => False).
Hypothesis Hb : at_ s x = Some (mkB x m false).
Hypothesis Hn0 : 0 <= n < m.
Hypothesis Hn1 : 1 <= n.
Let b := mkB x m false.
Let s' := alloc_result s b n.
Let lo := mkB (x + n) (m - n) false.
Let new := mkB x n true.

Lemma at_alloc_lt a : at_ s' a = if a =? x + n then Some lo else if a =? x then Some new else at_ s a.
Proof.
  clear Hn1 C.
  pose proof (P_cell s P _ _ Hb) as Hc. pose proof (at_range _ _ _ Hb) as Hr. simpl in Hc.
  unfold s', alloc_result. simpl. destruct (Z.ltb_spec n m); [|lia].
  rewrite (at_ext _ (set_at (set_at s x (Some new)) (x + n) (Some lo))) by reflexivity.
  rewrite at_set'; [|simpl; rewrite alen_setz; apply P_len; auto|unfold hi in *; simpl; lia].
  rewrite at_set'; [|apply P_len; auto|lia]. reflexivity.
Qed.

Ltac dat a := destruct (Z.eqb_spec a (x + n)) as [?|?]; [|destruct (Z.eqb_spec a x) as [?|?]].
Ltac inv H := inversion H; subst; clear H.

Lemma top_alloc_lt : top s' = Z.max (top s) (x + n).
Proof. clear Hn1 C. unfold s', alloc_result. simpl. destruct (Z.ltb_spec n m); [reflexivity|lia]. Qed.

Lemma freed_alloc_lt : freed s' =
  if x + n <? Z.max (top s) (x + n) then fr_add (fr_remove (freed s) m x) (m - n) (x + n) else fr_remove (freed s) m x.
Proof. clear Hn1 C. unfold s', alloc_result. simpl. destruct (Z.ltb_spec n m); [reflexivity|lia]. Qed.

Lemma consts_alloc_lt : pos s' = pos s /\ off s' = off s /\ size s' = size s /\ alen (arr s') = size s.
Proof.
  clear Hn1 C.
  unfold s', alloc_result. simpl. destruct (Z.ltb_spec n m); [|lia]. simpl.
  rewrite !alen_setz. repeat split; auto. apply P_len; auto.
Qed.

(* where the chosen block sits relative to top *)
Lemma b_vs_top : (x = top s /\ x + m = hi s) \/ (x + m <= top s).
Proof.
  clear Hn1 Hn0 C.
  destruct (P_top s P) as (bt & Ht & Hend).
  pose proof (P_cell s P _ _ Hb) as Hc. pose proof (P_cell s P _ _ Ht) as Hct. simpl in Hc.
  destruct (two_blocks s _ _ _ _ P Hb Ht) as [[? ?]|[[? ?]|[? ?]]]; simpl in *; subst; simpl in *; try lia.
Qed.

Lemma Pre_alloc_lt : Pre s'.
Proof.
  pose proof (P_cell s P _ _ Hb) as Hc. pose proof (at_range _ _ _ Hb) as Hr. simpl in Hc.
  destruct consts_alloc_lt as (Kp & Ko & Ks & Kl).
  assert (Kh : hi s' = hi s) by (unfold hi; rewrite Ko, Ks; auto).
  pose proof b_vs_top as Hbt.
  assert (Hrel : forall a y, at_ s a = Some y -> a <> x ->
            bstart y = a /\ 0 < bsize y /\ bstart y + bsize y <= hi s /\ pos s <= a /\ (a + bsize y <= x \/ x + m <= a)).
  { intros a y Hy Hne. pose proof (P_cell s P _ _ Hy) as Hcy.
    destruct (two_blocks s _ _ _ _ P Hy Hb) as [[? ?]|[[? ?]|[? ?]]]; simpl in *; lia. }
  constructor.
  - rewrite Kl, Ks. auto.
  - rewrite Kp, Ko, Kh. apply P_pos; auto.
  - intros a y Hy. rewrite Kh, Kp. rewrite at_alloc_lt in Hy. dat a.
    + inv Hy. simpl. lia.
    + inv Hy. simpl. lia.
    + destruct (Hrel a y Hy) as (? & ? & ? & ? & ?); auto.
  - intros a y j Hy Hj. rewrite at_alloc_lt in Hy. rewrite at_alloc_lt. dat a.
    + inv Hy. simpl in Hj. dat j; try lia. apply (P_gap s P x _ j Hb). simpl. lia.
    + inv Hy. simpl in Hj. dat j; try lia. apply (P_gap s P x _ j Hb). simpl. lia.
    + destruct (Hrel a y Hy) as (? & ? & ? & ? & ?); auto. dat j; try lia.
      apply (P_gap s P a y j Hy). lia.
  - intros a y Hy Hlt. rewrite Kh in Hlt. rewrite at_alloc_lt in Hy. rewrite at_alloc_lt. dat a.
    + inv Hy. simpl in *. dat (x + n + (m - n)); try lia.
      replace (x + n + (m - n)) with (x + m) by lia. apply (P_next s P x _ Hb); simpl; lia.
    + inv Hy. simpl in *. dat (x + n); try lia. discriminate.
    + destruct (Hrel a y Hy) as (? & ? & ? & ? & ?); auto.
      dat (bstart y + bsize y); try lia; try discriminate. apply (P_next s P a y Hy). lia.
  - rewrite Kp. rewrite at_alloc_lt. dat (pos s); try lia; try discriminate. apply P_first; auto.
  - rewrite Kh, top_alloc_lt. destruct (P_top s P) as (bt & Ht & Hend).
    destruct Hbt as [[Hx Hm]|Hbelow].
    + exists lo. rewrite at_alloc_lt. rewrite Z.max_r by lia. rewrite Z.eqb_refl. split; auto. simpl. lia.
    + exists bt. rewrite Z.max_l by lia. rewrite at_alloc_lt. dat (top s); try lia. split; auto.
  - rewrite freed_alloc_lt. destruct (x + n <? Z.max (top s) (x + n)).
    + apply nodup_add, nodup_remove, P_keys; auto.
    + apply nodup_remove, P_keys; auto.
  - intros k a Hm. rewrite at_alloc_lt.
    assert (Hold : fmem (fr_remove (freed s) m x) k a -> (if a =? x + n then Some lo else if a =? x then Some new else at_ s a) = Some (mkB a k false)).
    { intros Hf. apply fmem_remove in Hf; [|apply P_keys; auto]. destruct Hf as (Hf & Hne).
      pose proof (P_sound s P _ _ Hf) as Ha. dat a.
      - subst. rewrite (P_gap s P x _ (x + n) Hb) in Ha by (simpl; lia). discriminate.
      - subst. rewrite Hb in Ha. inv Ha. tauto.
      - auto. }
    rewrite freed_alloc_lt in Hm. destruct (x + n <? Z.max (top s) (x + n)); auto.
    apply fmem_add in Hm. destruct Hm as [[-> ->]|Hm]; auto. rewrite Z.eqb_refl. reflexivity.
  - intros a y Hy Hu Hlt. rewrite top_alloc_lt in Hlt. rewrite freed_alloc_lt. rewrite at_alloc_lt in Hy. dat a.
    + inv Hy. simpl. destruct (Z.ltb_spec (x + n) (Z.max (top s) (x + n))); [|lia]. apply fmem_add. auto.
    + inv Hy. discriminate.
    + destruct (Hrel a y Hy) as (? & ? & ? & ? & ?); auto.
      assert (a < top s).
      { pose proof (le_top s a y P Hy). destruct Hbt as [[Hx Hm]|Hbelow]; lia. }
      assert (Hf : fmem (fr_remove (freed s) m x) (bsize y) a).
      { apply fmem_remove; [apply P_keys; auto|]. split; [apply (P_compl s P); auto|]. intros [_ ?]; lia. }
      destruct (x + n <? Z.max (top s) (x + n)); auto. apply fmem_add. auto.
Qed.

Lemma Coal_alloc_lt : Coal s' (fun _ _ => False).
Proof.
  pose proof (P_cell s P _ _ Hb) as Hc. simpl in Hc.
  intros a y y' Hy Hu Hy' Hu'. rewrite at_alloc_lt in Hy, Hy'. dat a.
  - inv Hy. simpl in *. replace (x + n + (m - n)) with (x + m) in Hy' by lia.
    dat (x + m); try lia. apply (C x _ y' Hb); auto.
  - inv Hy. discriminate.
  - pose proof (P_cell s P _ _ Hy) as Hcy.
    destruct (two_blocks s _ _ _ _ P Hy Hb) as [[? ?]|[[? ?]|[? ?]]]; simpl in *; try lia.
    + dat (bstart y + bsize y); try lia.
      * inv Hy'. discriminate.
      * apply (C a y y' Hy); auto.
    + dat (bstart y + bsize y); try lia. apply (C a y y' Hy); auto.
Qed.
End AllocLt.

Section AllocEq.
Variables (s : st) (x m : Z).
Hypothesis P : Pre s.
Hypothesis C : Coal s (fun _ _ => False).
Hypothesis Hb : at_ s x = Some (mkB x m false).
Let b := mkB x m false.
Let s' := alloc_result s b m.
Let new := mkB x m true.

Ltac inv H := inversion H; subst; clear H.

Lemma shape_alloc_eq : s' = mkS (arr (set_at s x (Some new))) (fr_remove (freed s) m x) (top s) (pos s) (off s) (size s).
Proof. unfold s', alloc_result. simpl. rewrite Z.ltb_irrefl. reflexivity. Qed.

Lemma at_alloc_eq a : at_ s' a = if a =? x then Some new else at_ s a.
Proof.
  pose proof (at_range _ _ _ Hb) as Hr. rewrite shape_alloc_eq.
  rewrite (at_ext _ (set_at s x (Some new))) by reflexivity.
  rewrite at_set'; [reflexivity|apply P_len; auto|lia].
Qed.

Lemma Pre_alloc_eq : Pre s'.
Proof.
  pose proof (P_cell s P _ _ Hb) as Hc. pose proof (at_range _ _ _ Hb) as Hr. simpl in Hc.
  assert (Kp : pos s' = pos s) by (rewrite shape_alloc_eq; reflexivity).
  assert (Ko : off s' = off s) by (rewrite shape_alloc_eq; reflexivity).
  assert (Ks : size s' = size s) by (rewrite shape_alloc_eq; reflexivity).
  assert (Kt : top s' = top s) by (rewrite shape_alloc_eq; reflexivity).
  assert (Kf : freed s' = fr_remove (freed s) m x) by (rewrite shape_alloc_eq; reflexivity).
  assert (Kl : alen (arr s') = size s) by (rewrite shape_alloc_eq; simpl; rewrite alen_setz; apply P_len; auto).
  assert (Kh : hi s' = hi s) by (unfold hi; rewrite Ko, Ks; auto).
  constructor.
  - rewrite Kl, Ks. auto.
  - rewrite Kp, Ko, Kh. apply P_pos; auto.
  - intros a y Hy. rewrite Kh, Kp. rewrite at_alloc_eq in Hy. destruct (Z.eqb_spec a x).
    + inv Hy. simpl. lia.
    + apply (P_cell s P); auto.
  - intros a y j Hy Hj. rewrite at_alloc_eq in Hy. rewrite at_alloc_eq. destruct (Z.eqb_spec a x).
    + inv Hy. simpl in Hj. destruct (Z.eqb_spec j x); try lia. apply (P_gap s P x _ j Hb). simpl. lia.
    + destruct (Z.eqb_spec j x).
      * subst. rewrite (P_gap s P a y x Hy) in Hb by lia. discriminate.
      * apply (P_gap s P a y j Hy). lia.
  - intros a y Hy Hlt. rewrite Kh in Hlt. rewrite at_alloc_eq in Hy. rewrite at_alloc_eq. destruct (Z.eqb_spec a x).
    + inv Hy. simpl in *. destruct (Z.eqb_spec (x + m) x); try lia. apply (P_next s P x _ Hb); simpl; lia.
    + destruct (Z.eqb_spec (bstart y + bsize y) x); [discriminate|]. apply (P_next s P a y Hy). lia.
  - rewrite Kp. rewrite at_alloc_eq. destruct (Z.eqb_spec (pos s) x); [discriminate|]. apply P_first; auto.
  - rewrite Kh, Kt. destruct (P_top s P) as (bt & Ht & Hend). rewrite at_alloc_eq.
    destruct (Z.eqb_spec (top s) x).
    + exists new. split; auto. subst. rewrite Hb in Ht. inv Ht. simpl in *. auto.
    + exists bt. auto.
  - rewrite Kf. apply nodup_remove, P_keys; auto.
  - intros k a Hm. rewrite Kf in Hm. apply fmem_remove in Hm; [|apply P_keys; auto]. destruct Hm as (Hf & Hne).
    pose proof (P_sound s P _ _ Hf) as Ha. rewrite at_alloc_eq. destruct (Z.eqb_spec a x); auto.
    subst. rewrite Hb in Ha. inv Ha. tauto.
  - intros a y Hy Hu Hlt. rewrite Kt in Hlt. rewrite Kf. rewrite at_alloc_eq in Hy. destruct (Z.eqb_spec a x).
    + inv Hy. discriminate.
    + apply fmem_remove; [apply P_keys; auto|]. split; [apply (P_compl s P); auto|]. intros [_ ?]; lia.
Qed.

Lemma Coal_alloc_eq : Coal s' (fun _ _ => False).
Proof.
  intros a y y' Hy Hu Hy' Hu'. rewrite at_alloc_eq in Hy, Hy'. destruct (Z.eqb_spec a x).
  - inv Hy. discriminate.
  - destruct (Z.eqb_spec (bstart y + bsize y) x).
    + inv Hy'. discriminate.
    + apply (C a y y' Hy); auto.
Qed.
End AllocEq.

(* ---- one alloc --------------------------------------------------------------- *)
Lemma alloc_result_inv s b n : AInv s -> at_ s (bstart b) = Some b -> bused b = false -> 1 <= n <= bsize b ->
  AInv (alloc_result s b n).
Proof.
  intros [P C] Hb Hu Hn. destruct b as [x m u]. simpl in *. subst u.
  destruct (Z.eq_dec n m) as [->|Hne].
  - split; [apply Pre_alloc_eq|apply Coal_alloc_eq]; auto.
  - split; [apply Pre_alloc_lt|apply Coal_alloc_lt]; auto; lia.
Qed.

(* at_ of the result, both cases at once *)
Lemma at_alloc_result s b n a : Pre s -> at_ s (bstart b) = Some b -> bused b = false -> 1 <= n <= bsize b ->
  at_ (alloc_result s b n) a =
    if a =? bstart b then Some (mkB (bstart b) n true)
    else if (a =? bstart b + n) && (n <? bsize b) then Some (mkB (bstart b + n) (bsize b - n) false)
    else at_ s a.
Proof.
  intros P Hb Hu Hn. destruct b as [x m u]. simpl in *. subst u.
  destruct (Z.ltb_spec n m).
  - rewrite at_alloc_lt by (auto; lia). rewrite andb_true_r.
    destruct (Z.eqb_spec a (x + n)); destruct (Z.eqb_spec a x); auto; lia.
  - assert (n = m) by lia. subst. rewrite at_alloc_eq by auto. rewrite andb_false_r. reflexivity.
Qed.

Lemma alloc_spec s n c : AInv s -> 1 <= n ->
  (alloc s n c = Ok (s, None) /\ no_fit s n) \/
  (exists b, at_ s (bstart b) = Some b /\ bused b = false /\ n <= bsize b /\
             alloc s n c = Ok (alloc_result s b n, Some (bstart b)) /\ AInv (alloc_result s b n)).
Proof.
  intros [P C] Hn. destruct (find_available_spec s n c P) as [[Hfa Hnf]|(b & Hfa & Hb & Hu & Hle)].
  - left. split; auto. unfold alloc. rewrite Hfa. reflexivity.
  - right. exists b. split; [auto|]. split; [auto|]. split; [auto|]. split.
    + apply alloc_exec; auto; lia.
    + apply alloc_result_inv; try lia; auto. split; auto.
Qed.

(* ---- a state with the same cells, top and (up to the top block) the same _freed ----------- *)
Lemma AInv_ext s s' : AInv s ->
  (forall a, at_ s' a = at_ s a) -> top s' = top s -> pos s' = pos s -> off s' = off s -> size s' = size s ->
  alen (arr s') = size s -> keys_nodup (freed s') ->
  (forall k a, fmem (freed s') k a -> fmem (freed s) k a) ->
  (forall k a, fmem (freed s) k a -> a < top s -> fmem (freed s') k a) ->
  AInv s'.
Proof.
  intros [P C] Hat Kt Kp Ko Ks Kl Hk Hsub Hsup.
  assert (Kh : hi s' = hi s) by (unfold hi; rewrite Ko, Ks; auto).
  split.
  - constructor.
    + rewrite Kl, Ks. auto.
    + rewrite Kp, Ko, Kh. apply P_pos; auto.
    + intros a b Hb. rewrite Hat in Hb. rewrite Kh, Kp. apply (P_cell s P); auto.
    + intros a b j Hb Hj. rewrite Hat in Hb. rewrite Hat. apply (P_gap s P a b j); auto.
    + intros a b Hb Hlt. rewrite Hat in Hb. rewrite Kh in Hlt. rewrite Hat. apply (P_next s P a b); auto.
    + rewrite Kp, Hat. apply P_first; auto.
    + rewrite Kt, Kh. destruct (P_top s P) as (bt & Ht & He). exists bt. rewrite Hat. auto.
    + exact Hk.
    + intros k a Hm. rewrite Hat. apply (P_sound s P). auto.
    + intros a b Hb Hu Hlt. rewrite Hat in Hb. rewrite Kt in Hlt. apply Hsup; auto. apply (P_compl s P); auto.
  - intros a b b' Hb Hu Hb' Hu'. rewrite Hat in Hb, Hb'. apply (C a b b'); auto.
Qed.

(* alloc(0): hands out the start of some free block (or None); cells, top and live allocations are unchanged *)
Lemma alloc_zero_result_inv s x m : AInv s -> at_ s x = Some (mkB x m false) ->
  AInv (alloc_result s (mkB x m false) 0) /\ (forall a, at_ (alloc_result s (mkB x m false) 0) a = at_ s a).
Proof.
  intros A Hb. pose proof A as [P C]. pose proof (P_cell s P _ _ Hb) as Hc. simpl in Hc.
  assert (Hn0 : 0 <= 0 < m) by lia.
  assert (Hat : forall a, at_ (alloc_result s (mkB x m false) 0) a = at_ s a).
  { intros a. rewrite (at_alloc_lt s x m 0 P Hb Hn0).
    destruct (Z.eqb_spec a (x + 0)) as [E|E].
    - replace a with x by lia. rewrite Hb. f_equal. f_equal; lia.
    - destruct (Z.eqb_spec a x); [lia|reflexivity]. }
  split; auto.
  destruct (consts_alloc_lt s x m 0 P Hn0) as (Kp & Ko & Ks & Kl).
  pose proof (le_top s x _ P Hb) as Hle.
  apply (AInv_ext s); auto.
  - rewrite (top_alloc_lt s x m 0 Hn0). lia.
  - rewrite (freed_alloc_lt s x m 0 Hn0). destruct (_ <? _); [apply nodup_add|]; apply nodup_remove, P_keys; auto.
  - intros k a. rewrite (freed_alloc_lt s x m 0 Hn0).
    destruct (Z.ltb_spec (x + 0) (Z.max (top s) (x + 0))) as [Hlt|Hge].
    + rewrite fmem_add, fmem_remove by (apply P_keys; auto).
      intros [[-> ->]|[H _]]; auto. replace (m - 0) with m by lia. replace (x + 0) with x by lia.
      change m with (bsize (mkB x m false)). apply (P_compl s P); auto. lia.
    + rewrite fmem_remove by (apply P_keys; auto). tauto.
  - intros k a Hm Hlt. rewrite (freed_alloc_lt s x m 0 Hn0).
    destruct (Z.ltb_spec (x + 0) (Z.max (top s) (x + 0))) as [Hlt2|Hge].
    + rewrite fmem_add, fmem_remove by (apply P_keys; auto).
      destruct (Z.eq_dec a x) as [->|Hne].
      * left. pose proof (P_sound s P _ _ Hm) as Ha. rewrite Hb in Ha. inversion Ha. lia.
      * right. split; auto. intros [_ ?]; lia.
    + rewrite fmem_remove by (apply P_keys; auto). split; auto. intros [_ ->]. lia.
Qed.

Lemma alloc_zero_spec s c : AInv s ->
  exists s' r, alloc s 0 c = Ok (s', r) /\ AInv s' /\ (forall a, at_ s' a = at_ s a) /\
    pos s' = pos s /\ off s' = off s /\ size s' = size s /\
    match r with Some a => exists b, at_ s a = Some b /\ bused b = false | None => s' = s end.
Proof.
  intros A. pose proof A as [P C].
  destruct (find_available_spec s 0 c P) as [[Hfa Hnf]|(b & Hfa & Hb & Hu & Hle)].
  - exists s, None. unfold alloc. rewrite Hfa. simpl. split; [reflexivity|]. split; [exact A|]. split; [auto|]. auto.
  - pose proof (P_cell s P _ _ Hb) as Hc. destruct b as [x m u]. simpl in *. subst u.
    destruct (alloc_zero_result_inv s x m A Hb) as (A' & Hat).
    exists (alloc_result s (mkB x m false) 0), (Some x).
    split; [apply (alloc_exec s (mkB x m false) 0 c); auto; simpl; lia|].
    split; [auto|]. split; [auto|].
    unfold alloc_result. simpl. destruct (0 <? m); simpl; repeat split; eauto.
Qed.
