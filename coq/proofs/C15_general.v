(* Range laws for every mix of int and float arguments. *)
Require Import SC3.proofs.NumTac SC3.gen.Gen_builtins SC3.proofs.C15_kernels SC3.proofs.C15_int.
Open Scope Q_scope.

Lemma inj_pos b : 0 < inject_Z b -> (0 < b)%Z.
Proof. change 0 with (inject_Z 0). rewrite <- Zlt_Qlt. auto. Qed.
Lemma inj_lt a b : inject_Z a < inject_Z b -> (a < b)%Z.
Proof. rewrite <- Zlt_Qlt. auto. Qed.

Lemma mod_general a b : is_ok a = true -> is_ok b = true -> 0 < toQ b ->
  exists r, py_mod a b = r /\ is_ok r = true /\ 0 <= toQ r /\ toQ r < toQ b.
Proof.
  intros Ha Hb H.
  destruct a as [a|a|], b as [b|b|]; try discriminate; cbn [toQ] in H.
  - rewrite py_mod_int by (apply inj_pos; exact H). eexists; split; [reflexivity|].
    pose proof (Z.mod_pos_bound a b (inj_pos _ H)) as [M1 M2].
    cbn [toQ is_ok]. split; [reflexivity|]. split.
    + change 0 with (inject_Z 0). rewrite <- Zle_Qle. exact M1.
    + rewrite <- Zlt_Qlt. exact M2.
  - unfold py_mod, py_floor. nunf. qb; try lra; (eexists; split; [reflexivity|]; cbn [is_ok toQ]; split; [reflexivity|]; floor_facts; try lra; try nra).
  - unfold py_mod, py_floor. nunf. qb; try lra; (eexists; split; [reflexivity|]; cbn [is_ok toQ]; split; [reflexivity|]; floor_facts; try lra; try nra).
  - unfold py_mod, py_floor. nunf. qb; try lra; (eexists; split; [reflexivity|]; cbn [is_ok toQ]; split; [reflexivity|]; floor_facts; try lra; try nra).
Qed.

Ltac injn := unfold Z.sub in *; repeat rewrite inject_Z_plus in *; repeat rewrite inject_Z_opp in *.
Ltac okleaf := eexists; split; [reflexivity|]; cbn [is_ok toQ is_int andb]; split; [reflexivity|]; floor_facts; injn; repeat split; intros; try discriminate; try lra; try nra.

(* wrap: inside [lo, hi]; strictly below hi unless all three arguments are ints *)
Lemma wrap_int_range x lo hi : (lo <= hi)%Z ->
  exists r, py_wrap (I x) (I lo) (I hi) = I r /\ (lo <= r <= hi)%Z.
Proof.
  intros H. unfold py_wrap. cbn [is_int andb nsub nadd lift2].
  rewrite py_mod_int by lia. cbn [nadd lift2].
  eexists; split; [reflexivity|]. pose proof (Z.mod_pos_bound (x - lo) (hi - lo + 1) ltac:(lia)). lia.
Qed.

Lemma wrap_general x lo hi : is_ok x = true -> is_ok lo = true -> is_ok hi = true -> toQ lo < toQ hi ->
  exists r, py_wrap x lo hi = r /\ is_ok r = true /\ toQ lo <= toQ r /\ toQ r <= toQ hi /\
            (is_int x && is_int lo && is_int hi = false -> toQ r < toQ hi).
Proof.
  intros Hx Hlo Hhi H.
  destruct x as [x|x|], lo as [lo|lo|], hi as [hi|hi|]; try discriminate; cbn [toQ] in H.
  - destruct (wrap_int_range x lo hi) as [r [E [R1 R2]]]. { apply inj_lt in H. lia. }
    exists (I r). split; [exact E|]. cbn [is_ok toQ is_int andb]. split; [reflexivity|].
    rewrite <- !Zle_Qle. repeat split; try lia; try discriminate.
  - unfold py_wrap, py_floor; cbn [is_int andb]; nunf; qb; injn; try lra; okleaf.
  - unfold py_wrap, py_floor; cbn [is_int andb]; nunf; qb; injn; try lra; okleaf.
  - unfold py_wrap, py_floor; cbn [is_int andb]; nunf; qb; injn; try lra; okleaf.
  - unfold py_wrap, py_floor; cbn [is_int andb]; nunf; qb; injn; try lra; okleaf.
  - unfold py_wrap, py_floor; cbn [is_int andb]; nunf; qb; injn; try lra; okleaf.
  - unfold py_wrap, py_floor; cbn [is_int andb]; nunf; qb; injn; try lra; okleaf.
  - unfold py_wrap, py_floor; cbn [is_int andb]; nunf; qb; injn; try lra; okleaf.
Qed.

Ltac mixed f := unfold f, py_floor, py_ceil; cbn [is_int andb]; nunf; qb; injn; try lra; okleaf.

Lemma fold_int_range x lo hi : (lo < hi)%Z ->
  exists r, py_fold (I x) (I lo) (I hi) = I r /\ (lo <= r <= hi)%Z.
Proof.
  intros H. unfold py_fold. cbn [is_int andb nsub nadd lift2].
  rewrite py_mod_int by lia.
  pose proof (Z.mod_pos_bound (x - lo) (hi - lo + (hi - lo)) ltac:(lia)).
  unfold ngt, cmp2, Qlt_bool. cbn [toQ nsub nadd lift2].
  destruct (Qle_bool_spec (inject_Z ((x - lo) mod (hi - lo + (hi - lo)))) (inject_Z (hi - lo))) as [L|L];
    rewrite <- Zle_Qle in L; cbn [negb nsub nadd lift2]; eexists; (split; [reflexivity|]); lia.
Qed.

Lemma fold_general x lo hi : is_ok x = true -> is_ok lo = true -> is_ok hi = true -> toQ lo < toQ hi ->
  exists r, py_fold x lo hi = r /\ is_ok r = true /\ toQ lo <= toQ r /\ toQ r <= toQ hi.
Proof.
  intros Hx Hlo Hhi H.
  destruct x as [x|x|], lo as [lo|lo|], hi as [hi|hi|]; try discriminate; cbn [toQ] in H.
  - destruct (fold_int_range x lo hi) as [r [E [R1 R2]]]. { apply inj_lt in H. lia. }
    exists (I r). split; [exact E|]. cbn [is_ok toQ]. split; [reflexivity|].
    rewrite <- !Zle_Qle. lia.
  - mixed py_fold.
  - mixed py_fold.
  - mixed py_fold.
  - mixed py_fold.
  - mixed py_fold.
  - mixed py_fold.
  - mixed py_fold.
Qed.
