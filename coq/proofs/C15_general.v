(* Range laws for every mix of int and float arguments. *)
Require Import SC3.proofs.NumTac SC3.gen.Gen_builtins SC3.proofs.C15_kernels SC3.proofs.C15_int.
Open Scope Q_scope.

Lemma inj_pos b : 0 < inject_Z b -> (0 < b)%Z.
Proof. change 0 with (inject_Z 0). rewrite <- Zlt_Qlt. auto. Qed.
Lemma inj_lt a b : inject_Z a < inject_Z b -> (a < b)%Z.
Proof. rewrite <- Zlt_Qlt. auto. Qed.

Lemma mod_general a b : is_ok a = true -> is_ok b = true -> 0 < toQ b ->
  exists r, py_mod a b = r /\ is_ok r = true /\ 0 <= toQ r /\ toQ r < toQ b.
Proof.
  intros Ha Hb H.
  destruct a as [a|a|], b as [b|b|]; try discriminate; cbn [toQ] in H.
  - rewrite py_mod_int by (apply inj_pos; exact H). eexists; split; [reflexivity|].
    pose proof (Z.mod_pos_bound a b (inj_pos _ H)) as [M1 M2].
    cbn [toQ is_ok]. split; [reflexivity|]. split.
    + change 0 with (inject_Z 0). rewrite <- Zle_Qle. exact M1.
    + rewrite <- Zlt_Qlt. exact M2.
  - unfold py_mod, py_floor. nunf. qb; try lra; (eexists; split; [reflexivity|]; cbn [is_ok toQ]; split; [reflexivity|]; floor_facts; try lra; try nra).
  - unfold py_mod, py_floor. nunf. qb; try lra; (eexists; split; [reflexivity|]; cbn [is_ok toQ]; split; [reflexivity|]; floor_facts; try lra; try nra).
  - unfold py_mod, py_floor. nunf. qb; try lra; (eexists; split; [reflexivity|]; cbn [is_ok toQ]; split; [reflexivity|]; floor_facts; try lra; try nra).
Qed.

Ltac injn := unfold Z.sub in *; repeat (rewrite inject_Z_mult in * || rewrite inject_Z_plus in * || rewrite inject_Z_opp in *).
Ltac okleaf := eexists; split; [reflexivity|]; cbn [is_ok toQ is_int andb]; split; [reflexivity|]; injn; floor_facts; injn; repeat split; intros; try discriminate; try lra; try nra.

(* wrap: inside [lo, hi]; strictly below hi unless all three arguments are ints *)
Lemma wrap_int_range x lo hi : (lo <= hi)%Z ->
  exists r, py_wrap (I x) (I lo) (I hi) = I r /\ (lo <= r <= hi)%Z.
Proof.
  intros H. unfold py_wrap. cbn [is_int andb nsub nadd lift2].
  rewrite py_mod_int by lia. cbn [nadd lift2].
  eexists; split; [reflexivity|]. pose proof (Z.mod_pos_bound (x - lo) (hi - lo + 1) ltac:(lia)). lia.
Qed.

Lemma wrap_general x lo hi : is_ok x = true -> is_ok lo = true -> is_ok hi = true -> toQ lo < toQ hi ->
  exists r, py_wrap x lo hi = r /\ is_ok r = true /\ toQ lo <= toQ r /\ toQ r <= toQ hi /\
            (is_int x && is_int lo && is_int hi = false -> toQ r < toQ hi).
Proof.
  intros Hx Hlo Hhi H.
  destruct x as [x|x|], lo as [lo|lo|], hi as [hi|hi|]; try discriminate; cbn [toQ] in H.
  - destruct (wrap_int_range x lo hi) as [r [E [R1 R2]]]. { apply inj_lt in H. lia. }
    exists (I r). split; [exact E|]. cbn [is_ok toQ is_int andb]. split; [reflexivity|].
    rewrite <- !Zle_Qle. repeat split; try lia; try discriminate.
  - unfold py_wrap, py_floor; cbn [is_int andb]; nunf; qb; injn; try lra; okleaf.
  - unfold py_wrap, py_floor; cbn [is_int andb]; nunf; qb; injn; try lra; okleaf.
  - unfold py_wrap, py_floor; cbn [is_int andb]; nunf; qb; injn; try lra; okleaf.
  - unfold py_wrap, py_floor; cbn [is_int andb]; nunf; qb; injn; try lra; okleaf.
  - unfold py_wrap, py_floor; cbn [is_int andb]; nunf; qb; injn; try lra; okleaf.
  - unfold py_wrap, py_floor; cbn [is_int andb]; nunf; qb; injn; try lra; okleaf.
  - unfold py_wrap, py_floor; cbn [is_int andb]; nunf; qb; injn; try lra; okleaf.
Qed.

Ltac mixed f := unfold f, py_floor, py_ceil; cbn [is_int andb]; nunf; qb; injn; try lra; okleaf.

Lemma fold_int_range x lo hi : (lo < hi)%Z ->
  exists r, py_fold (I x) (I lo) (I hi) = I r /\ (lo <= r <= hi)%Z.
Proof.
  intros H. unfold py_fold. cbn [is_int andb nsub nadd lift2].
  rewrite py_mod_int by lia.
  pose proof (Z.mod_pos_bound (x - lo) (hi - lo + (hi - lo)) ltac:(lia)).
  unfold ngt, cmp2, Qlt_bool. cbn [toQ nsub nadd lift2].
  destruct (Qle_bool_spec (inject_Z ((x - lo) mod (hi - lo + (hi - lo)))) (inject_Z (hi - lo))) as [L|L];
    rewrite <- Zle_Qle in L; cbn [negb nsub nadd lift2]; eexists; (split; [reflexivity|]); lia.
Qed.

Lemma fold_general x lo hi : is_ok x = true -> is_ok lo = true -> is_ok hi = true -> toQ lo < toQ hi ->
  exists r, py_fold x lo hi = r /\ is_ok r = true /\ toQ lo <= toQ r /\ toQ r <= toQ hi.
Proof.
  intros Hx Hlo Hhi H.
  destruct x as [x|x|], lo as [lo|lo|], hi as [hi|hi|]; try discriminate; cbn [toQ] in H.
  - destruct (fold_int_range x lo hi) as [r [E [R1 R2]]]. { apply inj_lt in H. lia. }
    exists (I r). split; [exact E|]. cbn [is_ok toQ]. split; [reflexivity|].
    rewrite <- !Zle_Qle. lia.
  - mixed py_fold.
  - mixed py_fold.
  - mixed py_fold.
  - mixed py_fold.
  - mixed py_fold.
  - mixed py_fold.
  - mixed py_fold.
Qed.

(* round / roundup / trunc: the result is a float, a multiple of the quantum, on the stated side *)
Lemma inj_Qc (z : Z) : inject_Z z == inject_Z z. Proof. reflexivity. Qed.

Lemma round_int x q : (0 < q)%Z ->
  exists k : Z, py_round (I x) (I q) = F (inject_Z (k * q)) /\ (2 * (k * q) - q <= 2 * x < 2 * (k * q) + q)%Z.
Proof.
  intros Hq. unfold py_round. cbn [is_int andb].
  unfold neqb, cmp2. cbn [toQ]. destruct (Qeq_bool_spec (inject_Z q) (inject_Z 0)) as [E|E].
  { rewrite inject_Z_injective in E. lia. }
  unfold nfloordiv. cbn [lift2 nadd]. replace (2 =? 0)%Z with false by reflexivity.
  rewrite py_div_pos by exact Hq. cbn [nmul lift2 pfloat].
  exists ((x + q / 2) / q)%Z. split; [reflexivity|].
  Z.to_euclidean_division_equations; nia.
Qed.
Lemma roundup_int x q : (0 < q)%Z ->
  exists k : Z, py_roundup (I x) (I q) = F (inject_Z (k * q)) /\ (x <= k * q < x + q)%Z.
Proof.
  intros Hq. unfold py_roundup. cbn [is_int andb].
  unfold neqb, cmp2. cbn [toQ]. destruct (Qeq_bool_spec (inject_Z q) (inject_Z 0)) as [E|E].
  { rewrite inject_Z_injective in E. lia. }
  cbn [lift2 nadd nsub]. rewrite py_div_pos by exact Hq. cbn [nmul lift2 pfloat].
  exists ((x + q - 1) / q)%Z. split; [reflexivity|].
  Z.to_euclidean_division_equations; nia.
Qed.
Lemma trunc_int x q : (0 < q)%Z ->
  exists k : Z, py_trunc (I x) (I q) = F (inject_Z (k * q)) /\ (k * q <= x < k * q + q)%Z.
Proof.
  intros Hq. unfold py_trunc. cbn [is_int andb].
  unfold neqb, cmp2. cbn [toQ]. destruct (Qeq_bool_spec (inject_Z q) (inject_Z 0)) as [E|E].
  { rewrite inject_Z_injective in E. lia. }
  rewrite py_div_pos by exact Hq. cbn [nmul lift2 pfloat].
  exists (x / q)%Z. split; [reflexivity|].
  Z.to_euclidean_division_equations; nia.
Qed.

Ltac z2q H := rewrite Zle_Qle in H || rewrite Zlt_Qlt in H.
Ltac okmleaf := eexists; split; [reflexivity|]; cbn [is_ok toQ is_int andb]; injn;
  split; [eexists; reflexivity|]; div_facts; injn; repeat split; intros; try discriminate; try lra; try nra.
Ltac mixedm f := unfold f, py_floor, py_ceil; cbn [is_int andb]; nunf; qb; injn; try lra; okmleaf.

Lemma round_general x q : is_ok x = true -> is_ok q = true -> 0 < toQ q ->
  exists r, py_round x q = F r /\ multiple_of r (toQ q) /\ 2 * r - toQ q <= 2 * toQ x /\ 2 * toQ x < 2 * r + toQ q.
Proof.
  intros Hx Hq H. destruct x as [x|x|], q as [q|q|]; try discriminate; cbn [toQ] in *.
  - destruct (round_int x q (inj_pos _ H)) as [k [E [B1 B2]]]. rewrite E. eexists; split; [reflexivity|].
    split. { exists k. rewrite inject_Z_mult. reflexivity. }
    z2q B1. z2q B2. injn. change (inject_Z 2) with 2 in *. split; lra.
  - mixedm py_round.
  - mixedm py_round.
  - mixedm py_round.
Qed.
Lemma roundup_general x q : is_ok x = true -> is_ok q = true -> 0 < toQ q ->
  exists r, py_roundup x q = F r /\ multiple_of r (toQ q) /\ toQ x <= r /\ r < toQ x + toQ q.
Proof.
  intros Hx Hq H. destruct x as [x|x|], q as [q|q|]; try discriminate; cbn [toQ] in *.
  - destruct (roundup_int x q (inj_pos _ H)) as [k [E [B1 B2]]]. rewrite E. eexists; split; [reflexivity|].
    split. { exists k. rewrite inject_Z_mult. reflexivity. }
    z2q B1. z2q B2. injn. split; lra.
  - mixedm py_roundup.
  - mixedm py_roundup.
  - mixedm py_roundup.
Qed.
Lemma trunc_general x q : is_ok x = true -> is_ok q = true -> 0 < toQ q ->
  exists r, py_trunc x q = F r /\ multiple_of r (toQ q) /\ r <= toQ x /\ toQ x < r + toQ q.
Proof.
  intros Hx Hq H. destruct x as [x|x|], q as [q|q|]; try discriminate; cbn [toQ] in *.
  - destruct (trunc_int x q (inj_pos _ H)) as [k [E [B1 B2]]]. rewrite E. eexists; split; [reflexivity|].
    split. { exists k. rewrite inject_Z_mult. reflexivity. }
    z2q B1. z2q B2. injn. split; lra.
  - mixedm py_trunc.
  - mixedm py_trunc.
  - mixedm py_trunc.
Qed.

