(* C11 -- whole-run frame argument for predicates that only look at the Condition / FlowVar cells and the
   scheduler queue: whatever the bodies do (nested next at any depth, any fuel), such a predicate is
   preserved by every operation of every history once it is preserved by the cell/queue primitives.
   Instances: a bound FlowVar stays bound to its value; while a Condition's test is false nothing but
   unhang / test= / value= releases its waiters; the queue never holds two wake-ups of one routine. *)
From Coq Require Import ZArith List Bool Arith Lia.
Require Import SC3.model.Cond SC3.model.Routine.
Require Import SC3.proofs.C11_stack SC3.proofs.C11_machine SC3.proofs.C11_cond.
Import ListNotations.

Section Frame.
Variable defs : list rdef.
Local Notation cfg := patched.
Variable W : world -> Prop.
Variable allowed : call -> bool.
Hypothesis W_ext : forall w w', cells w' = cells w -> queue w' = queue w -> W w -> W w'.
Hypothesis W_direct : forall c w, allowed c = true -> W w -> W (fst (do_direct cfg c w)).
Hypothesis W_wait : forall c w, W w -> W (fst (fst (do_wait c w))).
Hypothesis W_pop : forall w t r q, queue w = (t, r) :: q -> W w -> W (set_queue q w).
Hypothesis W_requeue : forall w t r, W w -> W (set_queue (enqueue t r (queue w)) w).
Hypothesis scripts_allowed : forall i d, nth_error defs i = Some d -> acts_allowed allowed (d_script d).

Definition WStab (call_next : nat -> val -> world -> world * outcome) : Prop :=
  forall r v w, W w -> W (fst (call_next r v w)).

Ltac ext H := (eapply W_ext; [| | exact H]; reflexivity).

Lemma exec_w : forall call_next, WStab call_next -> forall acts self k pc w,
  acts_allowed allowed acts -> W w -> W (fst (exec cfg call_next self k acts pc w)).
Proof.
  intros call_next H. induction acts as [| a rest IH]; intros self k pc w AA Hw; simpl; [exact Hw |].
  assert (AR : acts_allowed allowed rest) by (intros c catch I; eapply AA; right; exact I).
  destruct a as [v | | | v | v | c catch | c | c | v | | rr vv]; simpl; try exact Hw.
  - destruct k; simpl; [exact Hw | apply IH; assumption].
  - assert (Ac : allowed c = true) by (eapply AA; left; reflexivity).
    assert (H1 : W (fst (do_call cfg call_next c w))).
    { destruct c; try (exact (W_direct _ w Ac Hw)). simpl. apply H. exact Hw. }
    destruct (do_call cfg call_next c w) as [w1 o]. simpl in H1.
    destruct o as [u | e]; [apply IH; [exact AR | ext H1] |].
    destruct (catch && catchable e); [apply IH; [exact AR | ext H1] | exact H1].
  - destruct k; [| apply IH; assumption].
    pose proof (W_wait c w Hw) as H1. destruct (do_wait c w) as [[w1 ov] e]. simpl in H1.
    destruct ov; exact H1.
  - apply IH; [exact AR |]. destruct (nth_error (cells w) c); [ext Hw | exact Hw].
  - apply IH; [exact AR |]. unfold log_self. destruct (nth_error (rts w) self); [ext Hw | exact Hw].
  - destruct k; [| apply IH; assumption].
    pose proof (H rr vv w Hw) as H1. destruct (call_next rr vv w) as [w1 o]. simpl in H1.
    destruct o; exact H1.
Qed.

Lemma finish_w : forall i d b own w, W w -> W (fst (finish i d b own w)).
Proof.
  intros i d b own w Hw. unfold finish. destruct (nth_error (rts w) i) as [y |]; [| exact Hw].
  match goal with
  | [ |- context [ let '(x1, o) := ?X in _ ] ] => destruct X as [x1 o]
  end.
  simpl. ext Hw.
Qed.

Ltac run_w H SA Hw :=
  match goal with
  | [ |- W (fst (let '(w3, b) := exec _ ?cn ?i ?k ?acts ?pc ?X in _)) ] =>
    let H2 := fresh "H2" in
    assert (H2 : W X) by (ext Hw);
    let H3 := fresh "H3" in
    pose proof (exec_w cn H acts i k pc X ltac:(first [exact SA | apply acts_allowed_skipn; exact SA]) H2) as H3;
    destruct (exec cfg cn i k acts pc X) as [w3 b]; simpl in H3; apply finish_w; exact H3
  end.

Lemma next_step_w : forall call_next, WStab call_next -> WStab (next_step cfg defs call_next).
Proof.
  intros call_next H r' v w Hw. unfold next_step.
  destruct (nth_error (rts w) r') as [y |] eqn:E; [| exact Hw].
  assert (RUN : W (fst (next_run cfg defs call_next r' v w y))).
  { unfold next_run. destruct (nth_error defs r') as [d |] eqn:D; [| exact Hw].
    pose proof (scripts_allowed r' d D) as SA.
    destruct (cur w) as [p |]; [| simpl; ext Hw].
    destruct (secs_of p w) as [ps |]; [| exact Hw].
    destruct (d_kind d).
    - destruct (gexec y).
      + destruct (iter y); [apply finish_w; ext Hw | simpl; ext Hw].
      + destruct (iter y) as [n |].
        * destruct (nth_error (d_script d) (Nat.pred n)) as [[] |]; run_w H SA Hw.
        * destruct (d_hasin d); run_w H SA Hw.
    - destruct (d_hasin d); run_w H SA Hw. }
  destruct (st y); simpl; try exact Hw; exact RUN.
Qed.

Lemma next_w : forall fuel, WStab (next_ cfg defs fuel).
Proof.
  induction fuel as [| f IH]; [intros r' v w Hw; exact Hw |].
  simpl. apply next_step_w. exact IH.
Qed.

Lemma top_w : forall fuel o w, op_allowed allowed o = true -> W w -> W (fst (top cfg defs fuel o w)).
Proof.
  intros fuel o w A Hw. destruct o as [c |]; simpl.
  - destruct c; try (exact (W_direct _ w A Hw)). simpl. apply next_w. exact Hw.
  - destruct (queue w) as [| [t i] q] eqn:Q; [exact Hw |].
    assert (H1 : W (set_main_secs t (set_queue q w))).
    { pose proof (W_pop w t i q Q Hw) as P. ext P. }
    pose proof (next_w fuel i VAwake _ H1) as H2.
    destruct (next_ cfg defs fuel i VAwake (set_main_secs t (set_queue q w))) as [w2 o]. simpl in H2.
    destruct o as [[| d | | | | | d | | |] | e]; try exact H2; simpl; apply W_requeue; exact H2.
Qed.

Lemma run_w_all : forall fuel ops w, forallb (op_allowed allowed) ops = true -> W w ->
  W (fst (run cfg defs fuel ops w)) /\ Forall (fun p => W (snd p)) (snd (run cfg defs fuel ops w)).
Proof.
  intros fuel. induction ops as [| o ops IH]; intros w A Hw; simpl.
  - split; [exact Hw | constructor].
  - simpl in A. apply andb_prop in A. destruct A as [Ao Ar].
    pose proof (top_w fuel o w Ao Hw) as H1.
    destruct (top cfg defs fuel o w) as [w1 out]. simpl in H1.
    destruct (IH w1 Ar H1) as [H2 F2]. destruct (run cfg defs fuel ops w1) as [w2 outs]. simpl in *.
    split; [exact H2 | constructor; [exact H1 | exact F2]].
Qed.

End Frame.

(* ---- how the primitives touch cells and queue -------------------------------------------------- *)
Local Notation cfg := patched.

Lemma upd_nth_id : forall A n (x : A) l, nth_error l n = Some x -> upd_nth n x l = l.
Proof. induction n; destruct l; simpl; intros; try discriminate; [congruence | f_equal; auto]. Qed.

Lemma sched_all_cells : forall rs w, cells (fst (sched_all rs w)) = cells w.
Proof. intros rs w. unfold sched_all. destruct rs; [reflexivity |]. destruct (cur_secs w); reflexivity. Qed.

Lemma sched_all_queue : forall rs w, exists t rs', queue (fst (sched_all rs w)) = enqueue_all t rs' (queue w).
Proof.
  intros rs w. unfold sched_all. destruct rs as [| r rs]; [exists 0%Z, []; reflexivity |].
  destruct (cur_secs w) as [t |]; [exists t, (r :: rs); reflexivity | exists 0%Z, []; reflexivity].
Qed.

Definition call_cell (c : call) : option nat :=
  match c with CSignal i | CUnhang i | CSetTest i _ | CFlowSet i _ => Some i | _ => None end.

Definition cell_after (c : call) (x : cell) : cell :=
  match c with
  | CSignal _ => match cell_err x with Some _ => x | None => fst (cell_signal x) end
  | CUnhang _ => fst (cell_unhang x)
  | CSetTest _ t => cell_settest t x
  | CFlowSet _ v => match cell_flowset v x with Some (x', _) => x' | None => x end
  | _ => x
  end.

Lemma direct_cells : forall c w,
  match call_cell c with
  | None => cells (fst (do_direct cfg c w)) = cells w
  | Some i => match nth_error (cells w) i with
              | None => cells (fst (do_direct cfg c w)) = cells w
              | Some x => cells (fst (do_direct cfg c w)) = upd_nth i (cell_after c x) (cells w)
              end
  end.
Proof.
  intros c w. destruct c as [r v | r | r | r | r | r | i | i | i t | i v]; simpl.
  - reflexivity.
  - unfold do_stop. destruct (nth_error (rts w) r) as [x |]; [| reflexivity]. destruct (st x); reflexivity.
  - unfold do_pause. destruct (nth_error (rts w) r) as [x |]; [| reflexivity]. destruct (st x); reflexivity.
  - unfold do_resume. destruct (nth_error (rts w) r) as [x |]; [| reflexivity].
    destruct (st x); try reflexivity. rewrite sched_all_cells. reflexivity.
  - unfold do_reset. destruct (nth_error (rts w) r) as [x |]; [| reflexivity]. destruct (st x); reflexivity.
  - unfold do_play. destruct (nth_error (rts w) r) as [x |]; [| reflexivity].
    destruct (st x); try reflexivity; rewrite sched_all_cells; reflexivity.
  - unfold do_signal. destruct (nth_error (cells w) i) as [x |] eqn:E; [| reflexivity].
    destruct (cell_err x); [simpl; symmetry; apply upd_nth_id; exact E |].
    destruct (cell_signal x) as [x' ws]. rewrite sched_all_cells. reflexivity.
  - unfold do_unhang. destruct (nth_error (cells w) i) as [x |] eqn:E; [| reflexivity].
    unfold cell_unhang. rewrite sched_all_cells. reflexivity.
  - unfold do_settest. destruct (nth_error (cells w) i) as [x |]; reflexivity.
  - unfold do_flowset. destruct (nth_error (cells w) i) as [x |] eqn:E; [| reflexivity].
    destruct (cell_flowset v x) as [[x' ws] |]; [rewrite sched_all_cells; reflexivity |].
    simpl. symmetry. apply upd_nth_id. exact E.
Qed.

Lemma direct_queue : forall c w, exists t rs, queue (fst (do_direct cfg c w)) = enqueue_all t rs (queue w).
Proof.
  intros c w.
  assert (SAME : exists t rs, queue w = enqueue_all t rs (queue w)) by (exists 0%Z, []; reflexivity).
  destruct c as [r v | r | r | r | r | r | i | i | i t | i v]; simpl; try exact SAME.
  - unfold do_stop. destruct (nth_error (rts w) r) as [x |]; [| exact SAME]. destruct (st x); exact SAME.
  - unfold do_pause. destruct (nth_error (rts w) r) as [x |]; [| exact SAME]. destruct (st x); exact SAME.
  - unfold do_resume. destruct (nth_error (rts w) r) as [x |]; [| exact SAME].
    destruct (st x); try exact SAME. apply (sched_all_queue [r] (set_rt r (with_st Suspended x) w)).
  - unfold do_reset. destruct (nth_error (rts w) r) as [x |]; [| exact SAME]. destruct (st x); exact SAME.
  - unfold do_play. destruct (nth_error (rts w) r) as [x |]; [| exact SAME].
    destruct (st x); try exact SAME; apply (sched_all_queue [r] (set_rt r (with_st Suspended x) w)).
  - unfold do_signal. destruct (nth_error (cells w) i) as [x |]; [| exact SAME].
    destruct (cell_err x); [exact SAME |]. destruct (cell_signal x) as [x' ws].
    apply (sched_all_queue ws (set_cell i x' w)).
  - unfold do_unhang. destruct (nth_error (cells w) i) as [x |]; [| exact SAME].
    destruct (cell_unhang x) as [x' ws]. apply (sched_all_queue ws (set_cell i x' w)).
  - unfold do_settest. destruct (nth_error (cells w) i) as [x |]; exact SAME.
  - unfold do_flowset. destruct (nth_error (cells w) i) as [x |]; [| exact SAME].
    destruct (cell_flowset v x) as [[x' ws] |]; [| exact SAME]. apply (sched_all_queue ws (set_cell i x' w)).
Qed.

(* a wait leaves the queue alone and either leaves the cells alone or appends one waiter to cell c *)
Lemma wait_shape : forall c w,
  queue (fst (fst (do_wait c w))) = queue w /\
  (cells (fst (fst (do_wait c w))) = cells w \/
   exists x p, nth_error (cells w) c = Some x /\ cell_err x = None /\ cell_test x = false /\
               cells (fst (fst (do_wait c w))) = upd_nth c (fst (cell_wait p x)) (cells w)).
Proof.
  intros c w. unfold do_wait.
  assert (TRIV : forall (ov : option val) (e : exc), queue (fst (fst (w, ov, e))) = queue w /\
            (cells (fst (fst (w, ov, e))) = cells w \/
             exists x p, nth_error (cells w) c = Some x /\ cell_err x = None /\ cell_test x = false /\
                         cells (fst (fst (w, ov, e))) = upd_nth c (fst (cell_wait p x)) (cells w)))
    by (intros; split; [reflexivity | left; reflexivity]).
  destruct (nth_error (cells w) c) as [x |] eqn:E; [| apply TRIV].
  destruct (cur w) as [[| t] |]; [apply TRIV | |].
  - destruct (cell_err x) eqn:CE; [apply TRIV |]. destruct (cell_test x) eqn:T; [apply TRIV |].
    destruct (tplayer (S (length (rts w))) w t) as [p |]; [| apply TRIV].
    destruct (cell_wait p x) as [x' v] eqn:CW. split; [reflexivity |]. right.
    exists x, p. rewrite CW. repeat split; auto.
  - destruct (cell_err x); [apply TRIV |]. destruct (cell_test x); apply TRIV.
Qed.

(* ---- instance 1: the queue never holds two wake-ups of one routine --------------------------------- *)
Section QueueInv.
Variable defs : list rdef.

Lemma queue_one_pending_run : forall cs fuel ops,
  one_pending (queue (fst (run cfg defs fuel ops (init_world defs cs)))) /\
  Forall (fun p => one_pending (queue (snd p))) (snd (run cfg defs fuel ops (init_world defs cs))).
Proof.
  intros cs fuel ops.
  apply (run_w_all defs (fun w => one_pending (queue w)) (fun _ => true)).
  - intros w w' _ Q H. rewrite Q. exact H.
  - intros c w _ H. destruct (direct_queue c w) as (t & rs & E). rewrite E. apply one_pending_enqueue_all. exact H.
  - intros c w H. destruct (wait_shape c w) as [E _]. rewrite E. exact H.
  - intros w t r q Q H. simpl. rewrite Q in H. eapply one_pending_pop. exact H.
  - intros w t r H. simpl. apply one_pending_enqueue. exact H.
  - intros i d _ c catch _. reflexivity.
  - clear. induction ops as [| o ops IH]; simpl; [reflexivity |]. rewrite IH. destruct o; reflexivity.
  - intro r. unfold pend. simpl. lia.
Qed.
End QueueInv.

(* ---- cell predicates ----------------------------------------------------------------------------- *)
Section CellFrame.
Variable defs : list rdef.
Variable c : nat.
Variable Q : cell -> Prop.
Variable allowed : call -> bool.
Hypothesis Q_call : forall k x, allowed k = true -> call_cell k = Some c -> Q x -> Q (cell_after k x).
Hypothesis Q_wait : forall p x, Q x -> cell_err x = None -> cell_test x = false -> Q (fst (cell_wait p x)).
Hypothesis scripts_allowed : forall i d, nth_error defs i = Some d -> acts_allowed allowed (d_script d).

Definition cell_holds (w : world) : Prop := exists x, nth_error (cells w) c = Some x /\ Q x.

Lemma cell_holds_upd : forall w cs' i x x', cell_holds w -> nth_error (cells w) i = Some x ->
  cs' = upd_nth i x' (cells w) -> (i = c -> Q x') -> exists y, nth_error cs' c = Some y /\ Q y.
Proof.
  intros w cs' i x x' (y & E & Qy) Ei -> Hq. destruct (Nat.eq_dec i c) as [D | D].
  - subst i. exists x'. split; [eapply nth_upd_same; exact Ei | auto].
  - exists y. rewrite nth_upd_other; auto.
Qed.

Lemma cell_run : forall fuel ops w, forallb (op_allowed allowed) ops = true -> cell_holds w ->
  cell_holds (fst (run cfg defs fuel ops w)) /\ Forall (fun p => cell_holds (snd p)) (snd (run cfg defs fuel ops w)).
Proof.
  intros fuel ops w A Hw.
  apply (run_w_all defs cell_holds allowed); [ | | | | | exact scripts_allowed | exact A | exact Hw].
  - intros w0 w' Ec _ (x & E & Qx). exists x. rewrite Ec. auto.
  - intros k w0 Ak H. unfold cell_holds. pose proof (direct_cells k w0) as DC.
    destruct (call_cell k) as [i |] eqn:CC; [| rewrite DC; exact H].
    destruct (nth_error (cells w0) i) as [x |] eqn:Ei; [| rewrite DC; exact H].
    eapply cell_holds_upd; eauto. intro D. subst i. destruct H as (y & Ey & Qy).
    rewrite Ei in Ey. inversion Ey; subst y. apply Q_call; auto.
  - intros i w0 H. unfold cell_holds. destruct (wait_shape i w0) as [_ [E | (x & p & Ei & CE & T & E)]].
    + rewrite E. exact H.
    + eapply cell_holds_upd; eauto. intro D. subst i. destruct H as (y & Ey & Qy).
      rewrite Ei in Ey. inversion Ey; subst y. apply Q_wait; auto.
  - intros w0 t r q _ H. exact H.
  - intros w0 t r H. exact H.
Qed.
End CellFrame.

(* ---- instance 2: a bound FlowVar stays bound to its value, in every run --------------------------- *)
Definition all_calls (k : call) : bool := true.

Lemma all_ops_allowed : forall ops, forallb (op_allowed all_calls) ops = true.
Proof. induction ops as [| o ops IH]; simpl; [reflexivity |]. rewrite IH. destruct o; reflexivity. Qed.

Definition bound_to (v : val) (x : cell) : Prop := ckind_of x = CFlow (Some v).

Lemma flowvar_whole_run_l : forall defs c v fuel ops w,
  cell_holds c (bound_to v) w ->
  cell_holds c (bound_to v) (fst (run cfg defs fuel ops w)) /\
  Forall (fun p => cell_holds c (bound_to v) (snd p)) (snd (run cfg defs fuel ops w)) /\
  forall v', do_flowset c v' (fst (run cfg defs fuel ops w)) = (fst (run cfg defs fuel ops w), Exc EException).
Proof.
  intros defs c v fuel ops w Hw.
  destruct (cell_run defs c (bound_to v) all_calls) with (fuel := fuel) (ops := ops) (w := w) as [H1 H2].
  - intros k x _ _ Qx. unfold bound_to in *.
    destruct k; simpl; try exact Qx.
    + unfold cell_err. rewrite Qx. unfold cell_signal. destruct (cell_test x); exact Qx.
    + unfold cell_settest. rewrite Qx. exact Qx.
    + unfold cell_flowset. rewrite Qx. exact Qx.
  - intros p x Qx _ _. unfold bound_to, cell_wait in *. destruct (cell_test x); exact Qx.
  - intros i d _ k catch _. reflexivity.
  - apply all_ops_allowed.
  - exact Hw.
  - split; [exact H1 | split; [exact H2 |]].
    intro v'. destruct H1 as (x & E & Qx). unfold do_flowset. rewrite E.
    unfold cell_flowset. unfold bound_to in Qx. rewrite Qx. reflexivity.
Qed.

(* binding an unbound FlowVar: bound to v, the waiters handed over, nobody left waiting *)
Lemma flowset_binds_l : forall c v w x t, nth_error (cells w) c = Some x -> ckind_of x = CFlow None ->
  cur_secs w = Some t ->
  snd (do_flowset c v w) = Ret VNone /\
  nth_error (cells (fst (do_flowset c v w))) c = Some (mkCell (CFlow (Some v)) []) /\
  queue (fst (do_flowset c v w)) = enqueue_all t (waiting x) (queue w).
Proof.
  intros c v w x t E K C. unfold do_flowset. rewrite E. unfold cell_flowset. rewrite K.
  unfold cell_signal, cell_test. simpl. unfold sched_all.
  destruct (waiting x) as [| r rs] eqn:Wx.
  - simpl. split; [reflexivity | split; [eapply nth_upd_same; exact E | reflexivity]].
  - change (cur_secs (set_cell c (mkCell (CFlow (Some v)) []) w)) with (cur_secs w). rewrite C. simpl.
    split; [reflexivity | split; [eapply nth_upd_same; exact E | reflexivity]].
Qed.

(* ---- instance 3: never before -------------------------------------------------------------------- *)
Definition no_release (c : nat) (k : call) : bool :=
  match k with CUnhang i | CSetTest i _ | CFlowSet i _ => negb (Nat.eqb i c) | _ => true end.

Definition still_waiting (L : list nat) (x : cell) : Prop :=
  cell_err x = None /\ cell_test x = false /\ exists rest, waiting x = L ++ rest.

Lemma never_before_whole_run_l : forall defs c L fuel ops w,
  (forall i d, nth_error defs i = Some d -> acts_allowed (no_release c) (d_script d)) ->
  forallb (op_allowed (no_release c)) ops = true ->
  cell_holds c (still_waiting L) w ->
  cell_holds c (still_waiting L) (fst (run cfg defs fuel ops w)) /\
  Forall (fun p => cell_holds c (still_waiting L) (snd p)) (snd (run cfg defs fuel ops w)).
Proof.
  intros defs c L fuel ops w SA OA Hw.
  apply (cell_run defs c (still_waiting L) (no_release c)); auto.
  - intros k x A CC (CE & T & rest & Wx).
    assert (NE : forall i, negb (Nat.eqb i c) = true -> i <> c).
    { intros i H D. subst. rewrite Nat.eqb_refl in H. discriminate. }
    destruct k; simpl in *; try discriminate; inversion CC; subst;
      try (exfalso; eapply NE; eauto; fail).
    rewrite CE. unfold cell_signal. rewrite T. simpl. split; [exact CE | split; [exact T | exists rest; exact Wx]].
  - intros p x (CE & T & rest & Wx) _ _. unfold cell_wait. rewrite T. simpl.
    unfold still_waiting, cell_err, cell_test in *. simpl.
    split; [exact CE | split; [exact T |]]. exists (rest ++ [p]). rewrite Wx, app_assoc. reflexivity.
Qed.

(* ---- exactly once: hand-over, one pending wake-up, one next() per popped wake-up ------------------- *)
Lemma signal_hands_over_l : forall c w x t, nth_error (cells w) c = Some x -> cell_err x = None ->
  cell_test x = true -> cur_secs w = Some t ->
  snd (do_signal c w) = Ret VNone /\
  nth_error (cells (fst (do_signal c w))) c = Some (mkCell (ckind_of x) []) /\
  queue (fst (do_signal c w)) = enqueue_all t (waiting x) (queue w) /\
  (forall r, In r (waiting x) -> pend (queue (fst (do_signal c w))) r = 1%nat) /\
  (forall r, ~ In r (waiting x) -> pend (queue (fst (do_signal c w))) r = pend (queue w) r).
Proof.
  intros c w x t E CE T C.
  assert (A : snd (do_signal c w) = Ret VNone /\
              nth_error (cells (fst (do_signal c w))) c = Some (mkCell (ckind_of x) []) /\
              queue (fst (do_signal c w)) = enqueue_all t (waiting x) (queue w)).
  { unfold do_signal. rewrite E, CE. unfold cell_signal. rewrite T. unfold sched_all.
    destruct (waiting x) as [| r rs] eqn:Wx.
    - simpl. split; [reflexivity | split; [eapply nth_upd_same; exact E | reflexivity]].
    - change (cur_secs (set_cell c (mkCell (ckind_of x) []) w)) with (cur_secs w). rewrite C. simpl.
      split; [reflexivity | split; [eapply nth_upd_same; exact E | reflexivity]]. }
  destruct A as (A1 & A2 & A3). split; [exact A1 | split; [exact A2 | split; [exact A3 |]]].
  rewrite A3. split; intros r I; [apply enqueue_all_woken; exact I | apply enqueue_all_keeps; exact I].
Qed.

Lemma unhang_hands_over_l : forall c w x t, nth_error (cells w) c = Some x -> cur_secs w = Some t ->
  snd (do_unhang c w) = Ret VNone /\
  nth_error (cells (fst (do_unhang c w))) c = Some (mkCell (ckind_of x) []) /\
  queue (fst (do_unhang c w)) = enqueue_all t (waiting x) (queue w).
Proof.
  intros c w x t E C. unfold do_unhang. rewrite E. unfold cell_unhang, sched_all.
  destruct (waiting x) as [| r rs] eqn:Wx.
  - simpl. split; [reflexivity | split; [eapply nth_upd_same; exact E | reflexivity]].
  - change (cur_secs (set_cell c (mkCell (ckind_of x) []) w)) with (cur_secs w). rewrite C. simpl.
    split; [reflexivity | split; [eapply nth_upd_same; exact E | reflexivity]].
Qed.

(* a scheduler tick consumes the head wake-up and makes exactly ONE next() call, on its routine; under
   the queue invariant that was the routine's only pending wake-up *)
Lemma tick_once_l : forall defs fuel w t r q, queue w = (t, r) :: q ->
  top cfg defs fuel OTick w =
    (let '(w2, o) := next_ cfg defs fuel r VAwake (set_main_secs t (set_queue q w)) in
     match o with
     | Ret (VInt d) => (set_queue (enqueue (t + d) r (queue w2)) w2, o)
     | Ret (VFloat d) => (set_queue (enqueue (t + d) r (queue w2)) w2, o)
     | _ => (w2, o)
     end) /\
  (one_pending (queue w) -> pend q r = 0%nat).
Proof.
  intros defs fuel w t r q Q. split; [simpl; rewrite Q; reflexivity |].
  intro OP. specialize (OP r). rewrite Q in OP. unfold pend in *. simpl in OP.
  destruct (Nat.eq_dec r r); [lia | congruence].
Qed.
