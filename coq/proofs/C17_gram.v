(* C17 -- generic facts about the command grammar (model/ProtoGrammar.v): how repetition and
   counted groups, arrays and completion messages are accepted, with the ids they mention. *)
From Coq Require Import ZArith QArith List String Bool Lia.
Import ListNotations.
Require Import SC3.model.ProtoGrammar.
Open Scope string_scope.
Open Scope Z_scope.
Open Scope list_scope.

(* ---- conforms / msg_ids, one level unfolded ---- *)

Lemma arg_conf_msg : forall a l, arg_conf (AMsg a l) = shape_ok a l && forallb arg_conf l.
Proof.
  intros a l. reflexivity.
Qed.

Definition own_ids (a : string) (l : list arg) : ids :=
  match sig_of a with
  | Some sg => match shape_ids sg l with Some i => i | None => [] end
  | None => []
  end.

Lemma arg_ids_msg : forall a l, arg_ids (AMsg a l) = own_ids a l ++ flat_map arg_ids l.
Proof.
  intros a l. reflexivity.
Qed.

Definition not_msg (x : arg) : bool := match x with AMsg _ _ => false | _ => true end.

Lemma flat_conf : forall l, forallb not_msg l = true -> forallb arg_conf l = true.
Proof.
  induction l as [|x t IH]; intros H; [reflexivity|]. cbn [forallb] in *.
  apply andb_true_iff in H. destruct H as [Hx Ht]. rewrite (IH Ht), andb_true_r.
  destruct x; try reflexivity. discriminate Hx.
Qed.

Lemma flat_ids : forall l, forallb not_msg l = true -> flat_map arg_ids l = [].
Proof.
  induction l as [|x t IH]; intros H; [reflexivity|]. cbn [forallb flat_map] in *.
  apply andb_true_iff in H. destruct H as [Hx Ht]. rewrite (IH Ht), app_nil_r.
  destruct x; try reflexivity. discriminate Hx.
Qed.

(* ---- repetition groups ---- *)

Inductive Groups (g : list ty) : list arg -> ids -> Prop :=
| G_nil : Groups g [] []
| G_cons : forall l1 i1 l2 i2,
    l1 <> [] -> (forall r, eat_seq g (l1 ++ r) = Some (i1, r)) -> Groups g l2 i2 ->
    Groups g (l1 ++ l2) (i1 ++ i2).

Lemma groups_eat : forall g l i, Groups g l i ->
  forall fuel, (List.length l <= fuel)%nat -> eat_groups fuel g l = Some i.
Proof.
  intros g l i H. induction H as [|l1 i1 l2 i2 Hne He HG IH]; intros fuel Hf.
  - destruct fuel; reflexivity.
  - destruct l1 as [|x l1']; [contradiction Hne; reflexivity|].
    destruct fuel as [|f]; [simpl in Hf; lia|].
    change ((x :: l1') ++ l2) with (x :: (l1' ++ l2)). cbn [eat_groups].
    change (x :: l1' ++ l2) with ((x :: l1') ++ l2). rewrite He.
    rewrite IH; [reflexivity|]. simpl in Hf. rewrite app_length in Hf. lia.
Qed.

Lemma groups_app : forall g l1 i1 l2 i2, Groups g l1 i1 -> Groups g l2 i2 -> Groups g (l1 ++ l2) (i1 ++ i2).
Proof.
  intros g l1 i1 l2 i2 H1 H2. induction H1 as [|a ia b ib Hne He HG IH]; [exact H2|].
  rewrite <- !app_assoc. constructor; assumption.
Qed.

Lemma rep_group : forall g m l i, Groups g l i -> (m = false \/ l <> []) -> rep_ids (RGroup g m) l = Some i.
Proof.
  intros g m l i H Hm. unfold rep_ids.
  assert (E : negb m || nonempty l = true).
  { destruct Hm as [Hm|Hm]; [subst; reflexivity|]. destruct l; [contradiction Hm; reflexivity|]. apply orb_true_r. }
  rewrite E. apply groups_eat; [exact H | lia].
Qed.

(* ---- counted groups: key N value*N ---- *)

Inductive CGroups (k v : ty) : list arg -> ids -> Prop :=
| CG_nil : CGroups k v [] []
| CG_cons : forall l1 i1 l2 i2,
    l1 <> [] -> (forall r, eat_counted k v (l1 ++ r) = Some (i1, r)) -> CGroups k v l2 i2 ->
    CGroups k v (l1 ++ l2) (i1 ++ i2).

Lemma cgroups_eat : forall k v l i, CGroups k v l i ->
  forall fuel, (List.length l <= fuel)%nat -> eat_cgroups fuel k v l = Some i.
Proof.
  intros k v l i H. induction H as [|l1 i1 l2 i2 Hne He HG IH]; intros fuel Hf.
  - destruct fuel; reflexivity.
  - destruct l1 as [|x l1']; [contradiction Hne; reflexivity|].
    destruct fuel as [|f]; [simpl in Hf; lia|].
    change ((x :: l1') ++ l2) with (x :: (l1' ++ l2)). cbn [eat_cgroups].
    change (x :: l1' ++ l2) with ((x :: l1') ++ l2). rewrite He.
    rewrite IH; [reflexivity|]. simpl in Hf. rewrite app_length in Hf. lia.
Qed.

Lemma rep_counted : forall k v l i, CGroups k v l i -> l <> [] -> rep_ids (RCounted k v) l = Some i.
Proof.
  intros k v l i H Hne. unfold rep_ids. destruct l; [contradiction Hne; reflexivity|].
  cbn [nonempty]. apply cgroups_eat; [exact H | lia].
Qed.

(* N values of a type that mentions no id *)
Lemma eat_n_plain : forall v (vs : list arg) r,
  (forall x r', In x vs -> eat v (x :: r') = Some ([], r')) ->
  eat_n v (List.length vs) (vs ++ r) = Some ([], r).
Proof.
  intros v vs. induction vs as [|x t IH]; intros r H; [reflexivity|].
  cbn [List.length eat_n app]. rewrite (H x (t ++ r) (or_introl eq_refl)).
  rewrite IH; [reflexivity|]. intros y r' Hy. apply H. right. exact Hy.
Qed.

Lemma counted_one : forall k v key ik (vs : list arg) r,
  (forall r', eat k (key :: r') = Some (ik, r')) ->
  (forall x r', In x vs -> eat v (x :: r') = Some ([], r')) ->
  eat_counted k v (key :: AInt (Z.of_nat (List.length vs)) :: vs ++ r) = Some (ik, r).
Proof.
  intros k v key ik vs r Hk Hv. unfold eat_counted. rewrite Hk.
  assert (E : (0 <=? Z.of_nat (List.length vs)) && (Z.of_nat (List.length vs) <=? Z.of_nat (List.length (vs ++ r))) = true).
  { apply andb_true_iff. split; apply Z.leb_le; [lia|]. rewrite app_length. lia. }
  rewrite E. rewrite Nat2Z.id. rewrite (eat_n_plain v vs r Hv). rewrite app_nil_r. reflexivity.
Qed.

(* ---- shape of a whole message ---- *)

Lemma shape_plain : forall sg F R iF j,
  eat_seq (s_fixed sg) (F ++ R) = Some (iF, R) -> rep_ids (s_rep sg) R = Some j ->
  shape_ids sg (F ++ R) = Some (iF ++ j).
Proof. intros sg F R iF j H1 H2. unfold shape_ids. rewrite H1, H2. reflexivity. Qed.

Lemma split_last_app : forall l c, split_last (l ++ [c]) = Some (l, c).
Proof. intros l c. unfold split_last. rewrite rev_app_distr. simpl. rewrite rev_involutive. reflexivity. Qed.

(* fixed fields followed by the completion only *)
Lemma shape_compl_none : forall sg F c iF,
  s_rep sg = RNone -> s_compl sg = true ->
  eat_seq (s_fixed sg) (F ++ [c]) = Some (iF, [c]) -> compl_ok c = true ->
  shape_ids sg (F ++ [c]) = Some (iF ++ []).
Proof.
  intros sg F c iF Hr Hc He Hok. unfold shape_ids. rewrite He, Hr, Hc. cbn [rep_ids].
  change [c] with ([] ++ [c]). rewrite split_last_app, Hok. reflexivity.
Qed.

Lemma eat_groups_int_ids : forall fuel l j, eat_groups fuel [TInt] l = Some j -> j = [].
Proof.
  induction fuel as [|f IH]; intros l j H; destruct l as [|x t]; simpl in H; try (inversion H; reflexivity); try discriminate.
  destruct x; try discriminate. simpl in H.
  destruct (eat_groups f [TInt] t) as [j'|] eqn:E; [|discriminate].
  inversion H; subst. rewrite (IH _ _ E). reflexivity.
Qed.

Lemma groups_ints : forall zs, Groups [TInt] (map AInt zs) [].
Proof.
  induction zs as [|z t IH]; [constructor|].
  change (map AInt (z :: t)) with ([AInt z] ++ map AInt t). change (@nil (idk * Z)) with (@nil (idk * Z) ++ []).
  constructor; [discriminate | intros r; reflexivity | exact IH].
Qed.

(* fixed fields, a list of ints, the completion *)
Lemma shape_compl_ints : forall sg F zs c iF,
  s_rep sg = RGroup [TInt] false -> s_compl sg = true ->
  (forall R, eat_seq (s_fixed sg) (F ++ R) = Some (iF, R)) -> compl_ok c = true ->
  shape_ids sg (F ++ map AInt zs ++ [c]) = Some (iF ++ []).
Proof.
  intros sg F zs c iF Hr Hc He Hok. unfold shape_ids. rewrite He, Hr, Hc. cbn [rep_ids negb orb].
  destruct (eat_groups (List.length (map AInt zs ++ [c])) [TInt] (map AInt zs ++ [c])) as [j|] eqn:E.
  - rewrite (eat_groups_int_ids _ _ _ E). reflexivity.
  - rewrite split_last_app, Hok. rewrite (groups_eat _ _ _ (groups_ints zs)); [reflexivity | lia].
Qed.

(* ---- arrays ---- *)

Definition arr_scalar (a : arg) : bool :=
  match a with AInt _ | AFlt _ | AStr _ => true | _ => false end.

Lemma close_scalar : forall a r d, arr_scalar a = true -> close_array (a :: r) d = close_array r d.
Proof. intros a r d H. destruct a; try discriminate H; reflexivity. Qed.
