(* C08 -- the tempo / beat changing entry points of TempoClock keep the beat count continuous at their
   anchor, so no pending task becomes due earlier than the documented semantics says. *)
From Coq Require Import QArith ZArith List Bool Lqa.
Import ListNotations.
Require Import SC3.model.TaskQ SC3.model.RtClock.
Local Open Scope Q_scope.

Lemma b2s_s2b : forall m s, ~ tm_tempo m == 0 -> beats2secs m (secs2beats m s) == s.
Proof. intros m s H. unfold beats2secs, secs2beats. field. exact H. Qed.

(* tempo and etempo: the beat count at the anchor is unchanged (no jump) *)
Lemma retime_continuous : forall m a v, ~ tm_tempo m == 0 ->
  secs2beats (retime RTempo m a v) a == secs2beats m a /\
  secs2beats (retime REtempo m a v) a == secs2beats m a /\
  secs2beats (retime RBeats m a v) a == v.
Proof.
  intros m a v H. unfold retime. split; [| split].
  - unfold secs2beats at 1. simpl. rewrite (b2s_s2b m a H). ring.
  - unfold secs2beats at 1. simpl. ring.
  - unfold secs2beats. simpl. ring.
Qed.

(* where a pending beat b lands in physical time after the change: anchor + (b - beats at the anchor) / v,
   so with v > 0 a task whose beat is still ahead at the anchor is not due before the anchor *)
Lemma retime_deadline : forall k m a v b, ~ tm_tempo m == 0 -> ~ v == 0 -> k <> RBeats ->
  beats2secs (retime k m a v) b == a + (b - secs2beats m a) / v.
Proof.
  intros k m a v b H Hv Hk. destruct k; [| | contradiction Hk; reflexivity].
  - unfold retime, beats2secs at 1. simpl. rewrite (b2s_s2b m a H). field. exact Hv.
  - unfold retime, beats2secs at 1. simpl. field. exact Hv.
Qed.

Lemma retime_not_before_anchor : forall k m a v b, ~ tm_tempo m == 0 -> 0 < v -> k <> RBeats ->
  secs2beats m a <= b -> a <= beats2secs (retime k m a v) b.
Proof.
  intros k m a v b H Hv Hk Hb.
  rewrite (retime_deadline k m a v b H); [| intro E; rewrite E in Hv; apply (Qlt_irrefl 0 Hv) | exact Hk].
  assert (0 <= (b - secs2beats m a) / v).
  { unfold Qdiv. apply Qmult_le_0_compat; [lra |]. apply Qlt_le_weak. apply Qinv_lt_0_compat. exact Hv. }
  lra.
Qed.

(* beats := v at anchor a (tempo unchanged): beat b lands at a + (b - v) / tempo *)
Lemma retime_beats_deadline : forall m a v b, ~ tm_tempo m == 0 ->
  beats2secs (retime RBeats m a v) b == a + (b - v) / tm_tempo m.
Proof. intros m a v b H. unfold retime, beats2secs. simpl. field. exact H. Qed.
