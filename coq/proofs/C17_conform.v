(* C17 -- every message emitted by ANY sequence of well-formed ops conforms to the command
   reference and mentions only ids that are in the ledger (ids handed out by the allocators or
   written by the caller, root node 0, default group 1, the placeholder -1).
   One invariant, one induction over op sequences; the invariant covers the messages waiting in
   open bind() blocks. *)
From Coq Require Import ZArith QArith List String Bool Lia.
Import ListNotations.
Require Import SC3.model.ProtoGrammar SC3.model.Proto SC3.gen.Gen_proto.
Require Import SC3.proofs.C17_gram SC3.proofs.C17_args SC3.proofs.C17_bind SC3.proofs.C17_life.
Open Scope string_scope.
Open Scope Z_scope.
Open Scope list_scope.

(* ------------------------------------------------------------------------------------ *)
(* ledger                                                                                *)

Definition ledger := list (idk * Z).

(* constants: -1 (server generated node id / unmap) and the root node 0; the default groups of the logins are ids
   the server handed out at login: they are in the ledger from the start (invariant io_dg) *)
Definition known (L : ledger) (k : idk) (i : Z) : Prop :=
  i = -1 \/ (k = KNode /\ i = 0) \/ In (k, i) L.

Lemma known_mono : forall L L' k i, incl L L' -> known L k i -> known L' k i.
Proof. intros L L' k i H [A|[A|A]]; [left | right; left | right; right]; auto. Qed.
Lemma known_r : forall X L k i, known L k i -> known (X ++ L) k i.
Proof. intros X L k i. apply known_mono. apply incl_appr, incl_refl. Qed.
Lemma known_l : forall X L k i, In (k, i) X -> known (X ++ L) k i.
Proof. intros X L k i H. right. right. apply in_or_app. left. exact H. Qed.

Definition GoodW (L : ledger) (w : msg) : Prop :=
  conforms w = true /\ forall k i, In (k, i) (msg_ids w) -> known L k i.
Definition Good (L : ledger) (m : pmsg) : Prop := exists w, wire_msg m = Some w /\ GoodW L w.

Lemma good_mono : forall L L' m, incl L L' -> Good L m -> Good L' m.
Proof.
  intros L L' m H [w [W [C K]]]. exists w. split; [exact W|]. split; [exact C|].
  intros k i Hi. eapply known_mono; [exact H | apply K; exact Hi].
Qed.

(* ---- building good messages ---- *)

Lemma good_build : forall L a ptoks wl sg ids,
  wire_args ptoks = Some wl -> sig_of a = Some sg -> shape_ids sg wl = Some ids ->
  forallb arg_conf wl = true ->
  (forall k i, In (k, i) ids -> known L k i) ->
  (forall k i, In (k, i) (flat_map arg_ids wl) -> known L k i) ->
  Good L (PStr a :: ptoks).
Proof.
  intros L a ptoks wl sg ids W S H C K1 K2. exists (a, wl). rewrite wire_msg_eq, W. split; [reflexivity|].
  split.
  - unfold conforms. cbn [fst snd]. rewrite arg_conf_msg. unfold shape_ok. rewrite S, H, C. reflexivity.
  - intros k i Hi. unfold msg_ids in Hi. cbn [fst snd] in Hi. rewrite arg_ids_msg in Hi.
    apply in_app_or in Hi. destruct Hi as [Hi|Hi]; [|apply K2; exact Hi].
    apply K1. unfold own_ids in Hi. rewrite S, H in Hi. exact Hi.
Qed.

(* no nested message *)
Lemma good_flat : forall L a ptoks wl sg ids,
  wire_args ptoks = Some wl -> sig_of a = Some sg -> shape_ids sg wl = Some ids ->
  forallb not_msg wl = true ->
  (forall k i, In (k, i) ids -> known L k i) ->
  Good L (PStr a :: ptoks).
Proof.
  intros L a ptoks wl sg ids W S H N K. eapply good_build; eauto.
  - apply flat_conf. exact N.
  - rewrite (flat_ids wl N). intros k i [].
Qed.

(* fixed fields (plain tokens) then a completion message *)
Lemma good_compl_gen : forall L a (F : list pval) xp x sg iF,
  sig_of a = Some sg -> s_rep sg = RNone -> s_compl sg = true ->
  forallb w_tok F = true ->
  (forall y, eat_seq (s_fixed sg) (map wtok F ++ [y]) = Some (iF, [y])) ->
  wire_arg xp = Some [x] -> compl_ok x = true -> arg_conf x = true ->
  (forall k i, In (k, i) iF -> known L k i) -> (forall k i, In (k, i) (arg_ids x) -> known L k i) ->
  Good L (PStr a :: F ++ [xp]).
Proof.
  intros L a F xp x sg iF S R C T E W Ok Cf K1 K2.
  eapply (good_build L a (F ++ [xp]) (map wtok F ++ [x]) sg (iF ++ [])).
  - apply wire_args_app; [apply wire_toks; exact T|]. cbn [wire_args]. rewrite W. reflexivity.
  - exact S.
  - apply shape_compl_none; auto.
  - rewrite forallb_app. rewrite (flat_conf _ (toks_not_msg F)). cbn [forallb]. rewrite Cf. reflexivity.
  - rewrite app_nil_r. exact K1.
  - rewrite flat_map_app, (flat_ids _ (toks_not_msg F)). cbn [flat_map app]. rewrite app_nil_r. exact K2.
Qed.

(* fixed fields, a list of channel numbers, a completion message *)
Lemma good_compl_ints : forall L a (F : list pval) ch xp x sg iF,
  sig_of a = Some sg -> s_rep sg = RGroup [TInt] false -> s_compl sg = true ->
  forallb w_tok F = true ->
  (forall R, eat_seq (s_fixed sg) (map wtok F ++ R) = Some (iF, R)) ->
  wire_arg xp = Some [x] -> compl_ok x = true -> arg_conf x = true ->
  (forall k i, In (k, i) iF -> known L k i) -> (forall k i, In (k, i) (arg_ids x) -> known L k i) ->
  Good L (PStr a :: F ++ zs ch ++ [xp]).
Proof.
  intros L a F ch xp x sg iF S R C T E W Ok Cf K1 K2.
  eapply (good_build L a (F ++ zs ch ++ [xp]) (map wtok F ++ map AInt ch ++ [x]) sg (iF ++ [])).
  - apply wire_args_app; [apply wire_toks; exact T|]. apply wire_args_app; [apply wire_zs|].
    cbn [wire_args]. rewrite W. reflexivity.
  - exact S.
  - apply shape_compl_ints; auto.
  - rewrite !forallb_app. rewrite (flat_conf _ (toks_not_msg F)). cbn [forallb]. rewrite Cf.
    assert (Z1 : forallb arg_conf (map AInt ch) = true) by (induction ch; [reflexivity | exact IHch]).
    rewrite Z1. reflexivity.
  - rewrite app_nil_r. exact K1.
  - rewrite !flat_map_app, (flat_ids _ (toks_not_msg F)).
    assert (Z1 : flat_map arg_ids (map AInt ch) = []) by (induction ch; [reflexivity | exact IHch]).
    rewrite Z1. cbn [flat_map app]. rewrite app_nil_r. exact K2.
Qed.

(* ---- completion messages supplied by the caller ---- *)

Definition compl_wire (c : compl) (num : pval) : option arg :=
  match wire_arg (compl_val c num) with Some [x] => Some x | _ => None end.
(* absent, or a message that itself conforms *)
Definition compl_good (c : compl) (num : pval) : bool :=
  match compl_wire c num with Some x => compl_ok x && arg_conf x | None => false end.
Definition compl_ids (c : compl) (num : pval) : ledger :=
  match compl_wire c num with Some x => arg_ids x | None => [] end.

Lemma compl_good_spec : forall c num, compl_good c num = true ->
  exists x, wire_arg (compl_val c num) = Some [x] /\ compl_ok x = true /\ arg_conf x = true /\
            arg_ids x = compl_ids c num.
Proof.
  intros c num H. unfold compl_good, compl_ids, compl_wire in *.
  destruct (wire_arg (compl_val c num)) as [[|x [|y t]]|]; try discriminate H.
  apply andb_true_iff in H. destruct H as [A B]. exists x. auto.
Qed.

(* ------------------------------------------------------------------------------------ *)
(* what an op adds to the ledger: ids returned by the allocators (oracle fields) and ids the
   caller wrote himself (int targets, bufnum= / index=, bus numbers, ids inside the completion
   or raw messages he supplied)                                                           *)

Definition tg_ids (t : target) : ledger := match t with TgInt z => [(KNode, z)] | _ => [] end.
Definition range_ids (k : idk) (a : Z) (n : nat) : ledger := map (fun i => (k, i)) (zrange a n).
Definition optrange (k : idk) (o : option Z) (n : nat) : ledger :=
  match o with Some a => range_ids k a n | None => [] end.
Fixpoint lit_bus (l : list pval) : ledger :=
  match l with
  | [] => []
  | PInt z :: t => (KBus, z) :: lit_bus t
  | _ :: t => lit_bus t
  end.
Definition raw_ids (m : pmsg) : ledger := match wire_msg m with Some w => msg_ids w | None => [] end.
Definition new_compl_ids (c : compl) (bufnum addr : option Z) : ledger :=
  match new_bufnum bufnum addr with Some num => compl_ids c (PInt num) | None => [] end.

Definition op_ids (s : st) (o : op) : ledger :=
  match o with
  | OSynth _ nid _ _ tg _ => (KNode, nid) :: tg_ids tg
  | OGroup _ nid tg _ => (KNode, nid) :: tg_ids tg
  | OBasicNew id => [(KNode, id)]
  | OReorder _ tg _ => tg_ids tg
  | ONodeMap _ _ args => lit_bus args
  | ONodeMapn _ _ args => lit_bus args
  | ODefSend _ c => compl_ids c PNone
  | OPlay nid _ _ _ _ tg _ => (KNode, nid) :: tg_ids tg
  | ODefLoad _ _ c => compl_ids c PNone
  | OBufNew addr _ _ bufnum c _ => optrange KBuf addr 1 ++ optrange KBuf bufnum 1 ++ new_compl_ids c bufnum addr
  | OBufConsecutive addr n _ _ bufnum c =>
    optrange KBuf addr n ++ optrange KBuf bufnum n ++
    match new_bufnum bufnum addr with
    | Some base => flat_map (fun i => compl_ids c (PInt i)) (zrange base n)
    | None => []
    end
  | OBufNewRead addr _ _ _ _ bufnum => optrange KBuf addr 1 ++ optrange KBuf bufnum 1
  | OBufNewSendList addr _ _ => optrange KBuf addr 1 ++ optrange KBuf None 1
  | OBufNewCue addr _ _ _ _ bufnum c => optrange KBuf addr 1 ++ optrange KBuf bufnum 1 ++ new_compl_ids c bufnum addr
  | OBufAlloc b c => compl_ids c (bufnum_of s b)
  | OBufAllocRead b _ _ _ _ c => compl_ids c (bufnum_of s b)
  | OBufCue b _ _ c => compl_ids c (bufnum_of s b)
  | OBufWrite b _ _ _ _ _ _ c => compl_ids c (bufnum_of s b)
  | OBufSimple _ b c => compl_ids c (bufnum_of s b)
  | OBufFree b c => compl_ids c (bufnum_of s b)
  | OBusNew _ addr chans index => optrange KBus addr (Z.to_nat chans) ++ optrange KBus index (Z.to_nat chans)
  | ORaw m => raw_ids m
  | _ => []
  end.

(* ------------------------------------------------------------------------------------ *)
(* invariant                                                                             *)

Record InvO (L : ledger) (s : st) : Prop := {
  io_objs : inv_objs s = true;
  io_node : forall n x z, get_node s n = Some x -> n_id x = PInt z -> known L KNode z;
  io_buf : forall b x a, get_buf s b = Some x -> b_num x = PInt a -> known L KBuf a;
  io_bus : forall u x a, get_bus s u = Some x -> u_index x = PInt a ->
           exists c, u_chans x = PInt c /\ 1 <= c /\ forall i, a <= i < a + c -> known L KBus i;
  io_blk : forall blk i, In blk (bblocks s) -> In i (zrange (fst blk) (Z.to_nat (snd blk))) -> known L KBuf i;
  io_dg : known L KNode (dgroup s) /\ forall g, In g (dgroups s) -> known L KNode g
}.

Definition Inv (L : ledger) (s : st) : Prop := InvO L s /\ Forall (Forall (Good L)) (stack s).

Lemma invO_mono : forall L L' s, incl L L' -> InvO L s -> InvO L' s.
Proof.
  intros L L' s H [A B C D E F]. constructor; auto.
  - intros n x z G Ez. eapply known_mono; eauto.
  - intros b x a G Ea. eapply known_mono; eauto.
  - intros u x a G Ea. destruct (D u x a G Ea) as [c [Ec [Hc K]]]. exists c. repeat split; auto.
    intros i Hi. eapply known_mono; eauto.
  - intros blk i Hb Hi. eapply known_mono; eauto.
  - destruct F as [F1 F2]. split; [eapply known_mono; eauto | intros g Hg; eapply known_mono; eauto].
Qed.

Lemma nth_app_one : forall {A} (l : list A) (n : A) i x,
  nth_error (l ++ [n]) i = Some x -> nth_error l i = Some x \/ n = x.
Proof.
  intros A l n i x H. destruct (lt_dec i (List.length l)) as [Hl|Hl].
  - left. rewrite nth_error_app1 in H by exact Hl. exact H.
  - right. rewrite nth_error_app2 in H by lia. destruct (i - List.length l)%nat as [|k]; simpl in H.
    + inversion H. reflexivity.
    + destruct k; discriminate H.
Qed.

Lemma get_node_add : forall s n i x, get_node (add_node s n) i = Some x -> get_node s i = Some x \/ n = Some x.
Proof.
  intros s n i x H. unfold get_node, add_node in *. cbn [nodes] in H.
  destruct (nth_error (nodes s ++ [n]) i) as [[y|]|] eqn:E; try discriminate H. inversion H; subst.
  destruct (nth_app_one _ _ _ _ E) as [K|K]; [left; rewrite K; reflexivity | right; exact K].
Qed.
Lemma get_buf_add : forall s n i x, get_buf (add_buf s n) i = Some x -> get_buf s i = Some x \/ n = Some x.
Proof.
  intros s n i x H. unfold get_buf, add_buf in *. cbn [bufs] in H.
  destruct (nth_error (bufs s ++ [n]) i) as [[y|]|] eqn:E; try discriminate H. inversion H; subst.
  destruct (nth_app_one _ _ _ _ E) as [K|K]; [left; rewrite K; reflexivity | right; exact K].
Qed.
Lemma get_bus_add : forall s n i x, get_bus (add_bus s n) i = Some x -> get_bus s i = Some x \/ n = Some x.
Proof.
  intros s n i x H. unfold get_bus, add_bus in *. cbn [buses] in H.
  destruct (nth_error (buses s ++ [n]) i) as [[y|]|] eqn:E; try discriminate H. inversion H; subst.
  destruct (nth_app_one _ _ _ _ E) as [K|K]; [left; rewrite K; reflexivity | right; exact K].
Qed.

Lemma inv_objs_add_node : forall s n, inv_objs s = true -> node_ok n = true -> inv_objs (add_node s n) = true.
Proof.
  intros s n H Hn. apply inv_objs_split in H. apply inv_objs_split. cbn [add_node nodes bufs buses].
  destruct H as [A [B C]]. split; [rewrite forallb_app, A; cbn [forallb]; rewrite Hn; reflexivity | split; assumption].
Qed.
Lemma inv_objs_add_buf : forall s n, inv_objs s = true -> buf_ok n = true -> inv_objs (add_buf s n) = true.
Proof.
  intros s n H Hn. apply inv_objs_split in H. apply inv_objs_split. cbn [add_buf nodes bufs buses].
  destruct H as [A [B C]]. split; [assumption | split; [rewrite forallb_app, B; cbn [forallb]; rewrite Hn; reflexivity | assumption]].
Qed.
Lemma inv_objs_add_bus : forall s n, inv_objs s = true -> bus_ok n = true -> inv_objs (add_bus s n) = true.
Proof.
  intros s n H Hn. apply inv_objs_split in H. apply inv_objs_split. cbn [add_bus nodes bufs buses].
  destruct H as [A [B C]]. split; [assumption | split; [assumption | rewrite forallb_app, C; cbn [forallb]; rewrite Hn; reflexivity]].
Qed.

Lemma invO_add_node_none : forall L s, InvO L s -> InvO L (add_node s None).
Proof.
  intros L s [A B C D E F]. constructor; auto.
  - apply inv_objs_add_node; auto.
  - intros n x z G Ez. destruct (get_node_add _ _ _ _ G) as [K|K]; [eauto | discriminate K].
Qed.
Lemma invO_add_node : forall L s z k, InvO L s -> known L KNode z -> InvO L (add_node s (Some (mkNode (PInt z) k))).
Proof.
  intros L s z k [A B C D E F] Hz. constructor; auto.
  - apply inv_objs_add_node; auto.
  - intros n x z' G Ez. destruct (get_node_add _ _ _ _ G) as [K|K]; [eauto|].
    inversion K; subst. simpl in Ez. inversion Ez; subst. exact Hz.
Qed.

Lemma invO_add_buf_none : forall L s, InvO L s -> InvO L (add_buf s None).
Proof.
  intros L s [A B C D E F]. constructor; auto.
  - apply inv_objs_add_buf; auto.
  - intros b x a G Ea. destruct (get_buf_add _ _ _ _ G) as [K|K]; [eauto | discriminate K].
Qed.
Lemma invO_add_buf : forall L s a fr ch, InvO L s -> known L KBuf a -> ion fr = true -> ion ch = true ->
  InvO L (add_buf s (Some (mkBuf (PInt a) fr ch))).
Proof.
  intros L s a fr ch [A B C D E F] Ha Hf Hc. constructor; auto.
  - apply inv_objs_add_buf; auto. cbn [buf_ok b_num b_frames b_chans ion]. rewrite Hf, Hc. reflexivity.
  - intros b x a' G Ea. destruct (get_buf_add _ _ _ _ G) as [K|K]; [eauto|].
    inversion K; subst. simpl in Ea. inversion Ea; subst. exact Ha.
Qed.

Lemma invO_add_bus_none : forall L s, InvO L s -> InvO L (add_bus s None).
Proof.
  intros L s [A B C D E F]. constructor; auto.
  - apply inv_objs_add_bus; auto.
  - intros u x a G Ea. destruct (get_bus_add _ _ _ _ G) as [K|K]; [eauto | discriminate K].
Qed.
Lemma invO_add_bus : forall L s au a c, InvO L s -> 1 <= c -> (forall i, a <= i < a + c -> known L KBus i) ->
  InvO L (add_bus s (Some (mkBus au (PInt a) (PInt c)))).
Proof.
  intros L s au a c [A B C D E F] Hc Hr. constructor; auto.
  - apply inv_objs_add_bus; auto.
  - intros u x a' G Ea. destruct (get_bus_add _ _ _ _ G) as [K|K]; [eauto|].
    inversion K; subst. simpl in Ea. inversion Ea; subst. exists c. repeat split; auto.
Qed.

Lemma invO_set_bblocks : forall L s B, InvO L s ->
  (forall blk i, In blk B -> In i (zrange (fst blk) (Z.to_nat (snd blk))) -> known L KBuf i) ->
  InvO L (set_bblocks s B).
Proof. intros L s B [A N Bf U K F] H. constructor; auto. Qed.
Lemma invO_set_cblocks : forall L s B, InvO L s -> InvO L (set_cblocks s B).
Proof. intros L s B [A N Bf U K F]. constructor; auto. Qed.
Lemma invO_set_ablocks : forall L s B, InvO L s -> InvO L (set_ablocks s B).
Proof. intros L s B [A N Bf U K F]. constructor; auto. Qed.

Lemma in_blk_remove : forall a l b, In b (blk_remove a l) -> In b l.
Proof.
  intros a l b. induction l as [|x t IH]; simpl; [tauto|].
  destruct (fst x =? a); simpl; [auto | intros [H|H]; auto].
Qed.
Lemma in_blk_insert : forall b l x, In x (blk_insert b l) -> x = b \/ In x l.
Proof.
  intros b l x. induction l as [|y t IH]; simpl; [intros [H|[]]; auto|].
  destruct (fst b <? fst y); simpl; intros [H|H]; auto.
  destruct (IH H); auto.
Qed.

Lemma nth_set_nth : forall {A} (l : list A) i j x y,
  nth_error (set_nth l i x) j = Some y -> nth_error l j = Some y \/ y = x.
Proof.
  intros A l. induction l as [|z t IH]; intros i j x y H; simpl in H.
  - destruct j; discriminate H.
  - destruct i; destruct j; simpl in *; auto.
    + inversion H; auto.
    + eapply IH; eauto.
Qed.
Lemma forallb_set_nth : forall {A} (f : A -> bool) l i x, forallb f l = true -> f x = true -> forallb f (set_nth l i x) = true.
Proof.
  intros A f l. induction l as [|y t IH]; intros i x H Hx; simpl; [reflexivity|].
  simpl in H. apply andb_true_iff in H. destruct H as [H1 H2].
  destruct i; simpl; [rewrite Hx, H2 | rewrite H1, (IH _ _ H2 Hx)]; reflexivity.
Qed.

Lemma invO_clear_buf : forall L s b, InvO L s -> InvO L (set_buf s b (mkBuf PNone PNone PNone)).
Proof.
  intros L s b [A N Bf U K F]. constructor; auto.
  - apply inv_objs_split in A. apply inv_objs_split. destruct A as [A1 [A2 A3]]. cbn [set_buf nodes bufs buses].
    split; [assumption | split; [apply forallb_set_nth; [assumption | reflexivity] | assumption]].
  - intros b' x a G Ea. unfold get_buf, set_buf in G. cbn [bufs] in G.
    destruct (nth_error (set_nth (bufs s) b (Some (mkBuf PNone PNone PNone))) b') as [[y|]|] eqn:E; try discriminate G.
    inversion G; subst. destruct (nth_set_nth _ _ _ _ _ E) as [Q|Q].
    + eapply Bf; [unfold get_buf; rewrite Q; reflexivity | exact Ea].
    + inversion Q; subst. discriminate Ea.
Qed.
Lemma invO_clear_bus : forall L s u au, InvO L s -> InvO L (set_bus s u (mkBus au PNone PNone)).
Proof.
  intros L s u au [A N Bf U K F]. constructor; auto.
  - apply inv_objs_split in A. apply inv_objs_split. destruct A as [A1 [A2 A3]]. cbn [set_bus nodes bufs buses].
    split; [assumption | split; [assumption | apply forallb_set_nth; [assumption | reflexivity]]].
  - intros u' x a G Ea. unfold get_bus, set_bus in G. cbn [buses] in G.
    destruct (nth_error (set_nth (buses s) u (Some (mkBus au PNone PNone))) u') as [[y|]|] eqn:E; try discriminate G.
    inversion G; subst. destruct (nth_set_nth _ _ _ _ _ E) as [Q|Q].
    + eapply U; [unfold get_bus; rewrite Q; reflexivity | exact Ea].
    + inversion Q; subst. discriminate Ea.
Qed.

Lemma in_range_ids : forall k a n i, In i (zrange a n) -> In (k, i) (range_ids k a n).
Proof. intros k a n i H. unfold range_ids. apply in_map_iff. exists i. auto. Qed.

Lemma invO_alloc_bufnum : forall L s bufnum addr n z s1,
  InvO L s -> alloc_bufnum s bufnum addr (Z.of_nat n) = Some (z, s1) ->
  (forall i, In i (zrange z n) -> known L KBuf i) -> InvO L s1.
Proof.
  intros L s bufnum addr n z s1 H A Hr. unfold alloc_bufnum in A.
  destruct bufnum; [inversion A; subst; exact H|]. destruct addr; [|discriminate]. inversion A; subst.
  apply invO_set_bblocks; [exact H|]. intros blk i Hb Hi.
  destruct (in_blk_insert _ _ _ Hb) as [E|E].
  - subst blk. cbn [fst snd] in Hi. rewrite Nat2Z.id in Hi. apply Hr. exact Hi.
  - destruct H as [_ _ _ _ K _]. eapply K; eauto.
Qed.

Lemma alloc_bufnum_new : forall s bufnum addr n z s1,
  alloc_bufnum s bufnum addr n = Some (z, s1) -> new_bufnum bufnum addr = Some z.
Proof. intros s [b|] [a|] n z s1 H; simpl in *; inversion H; reflexivity. Qed.

Lemma known_new_range : forall L k bufnum addr n z i,
  new_bufnum bufnum addr = Some z -> In i (zrange z n) ->
  known ((optrange k addr n ++ optrange k bufnum n) ++ L) k i.
Proof.
  intros L k bufnum addr n z i H Hi. apply known_l. apply in_or_app.
  destruct bufnum as [b|]; simpl in H.
  - inversion H; subst. right. apply in_range_ids. exact Hi.
  - destruct addr as [a|]; [|discriminate]. inversion H; subst. left. apply in_range_ids. exact Hi.
Qed.

Lemma zrange_self : forall a n, (1 <= n)%nat -> In a (zrange a n).
Proof. intros a n H. destruct n; [lia|]. left. reflexivity. Qed.

(* ------------------------------------------------------------------------------------ *)
(* argument lists whose groups carry ids                                                 *)

Definition live_buf (s : st) (b : nat) : bool := match get_buf s b with Some x => is_pint (b_num x) | None => false end.
Definition live_bus (s : st) (u : nat) : bool := match get_bus s u with Some x => is_pint (u_index x) | None => false end.
Definition node_exists (s : st) (n : nat) : bool := match get_node s n with Some _ => true | None => false end.
Definition chans_of (s : st) (u : nat) : Z :=
  match get_bus s u with Some x => match u_chans x with PInt c => c | _ => 0 end | None => 0 end.

Lemma node_int : forall L s n x, InvO L s -> get_node s n = Some x -> exists z, n_id x = PInt z /\ known L KNode z.
Proof.
  intros L s n x I G. pose proof (io_objs _ _ I) as H. apply inv_objs_split in H. destruct H as [H _].
  unfold get_node in G. destruct (nth_error (nodes s) n) as [[y|]|] eqn:E; try discriminate. inversion G; subst.
  pose proof (forallb_nth _ _ _ _ H E) as K. simpl in K. destruct (n_id x) eqn:Ex; try discriminate.
  exists z. split; [reflexivity|]. eapply (io_node _ _ I n x z); [unfold get_node; rewrite E; reflexivity | exact Ex].
Qed.

Lemma buf_ions : forall L s b x, InvO L s -> get_buf s b = Some x ->
  ion (b_num x) = true /\ ion (b_frames x) = true /\ ion (b_chans x) = true.
Proof.
  intros L s b x I G. pose proof (io_objs _ _ I) as H. apply inv_objs_split in H. destruct H as [_ [H _]].
  unfold get_buf in G. destruct (nth_error (bufs s) b) as [[y|]|] eqn:E; try discriminate. inversion G; subst.
  pose proof (forallb_nth _ _ _ _ H E) as K. simpl in K. rewrite !andb_true_iff in K. tauto.
Qed.

Lemma bus_ions : forall L s u x, InvO L s -> get_bus s u = Some x -> ion (u_index x) = true /\ ion (u_chans x) = true.
Proof.
  intros L s u x I G. pose proof (io_objs _ _ I) as H. apply inv_objs_split in H. destruct H as [_ [_ H]].
  unfold get_bus in G. destruct (nth_error (buses s) u) as [[y|]|] eqn:E; try discriminate. inversion G; subst.
  pose proof (forallb_nth _ _ _ _ H E) as K. simpl in K. rewrite !andb_true_iff in K. tauto.
Qed.

Lemma live_bus_spec : forall L s i, InvO L s -> live_bus s i = true ->
  exists x a c, get_bus s i = Some x /\ u_index x = PInt a /\ u_chans x = PInt c /\ 1 <= c /\
                busindex_of s i = PInt a /\ (forall j, a <= j < a + c -> known L KBus j).
Proof.
  intros L s i I H. unfold live_bus in H. destruct (get_bus s i) as [x|] eqn:G; [|discriminate].
  destruct (u_index x) eqn:Ex; try discriminate. destruct (io_bus _ _ I i x z G Ex) as [c [Ec [Hc K]]].
  exists x, z, c. repeat split; auto. unfold busindex_of. unfold get_bus in G.
  destruct (nth_error (buses s) i) as [[y|]|]; try discriminate. inversion G; subst. exact Ex.
Qed.

Lemma in_lit_bus : forall l z, In (PInt z) l -> In (KBus, z) (lit_bus l).
Proof.
  induction l as [|a t IH]; intros z H; [contradiction|]. destruct H as [H|H].
  - subst. left. reflexivity.
  - destruct a; simpl; auto.
Qed.

Fixpoint mapargs_ok (s : st) (args : list pval) : bool :=
  match args with
  | [] => true
  | c :: b :: t => ctl_ok c && (match b with PInt _ => true | PBus i => live_bus s i | _ => false end) && mapargs_ok s t
  | _ => false
  end.

Lemma lit_bus_tail2 : forall a b t x, In x (lit_bus t) -> In x (lit_bus (a :: b :: t)).
Proof. intros a b t x H. destruct a; destruct b; simpl; auto. Qed.

Lemma map_groups : forall L s, InvO L s ->
  forall k args, (List.length args <= k)%nat -> mapargs_ok s args = true ->
  exists ids, forallb w_tok (map (aci s) args) = true /\
              Groups [TCtl; TBusM] (map wtok (map (aci s) args)) ids /\
              (forall kk z, In (kk, z) ids -> known (lit_bus args ++ L) kk z).
Proof.
  intros L s I. induction k as [|k IH]; intros args Hl H.
  - destruct args; [|simpl in Hl; lia]. exists []. repeat split; [constructor | intros kk z []].
  - destruct args as [|c [|b t]]; try discriminate H.
    + exists []. repeat split; [constructor | intros kk z []].
    + cbn [mapargs_ok] in H. apply andb_true_iff in H. destruct H as [H Ht]. apply andb_true_iff in H. destruct H as [Hc Hb].
      destruct (IH t ltac:(simpl in Hl; lia) Ht) as [it [Tt [Gt Kt]]].
      destruct (ctl_ok_spec false s c Hc) as [_ [Ac Wc]].
      assert (B : exists z, aci s b = PInt z /\ known (lit_bus (c :: b :: t) ++ L) KBus z).
      { destruct b; try discriminate Hb.
        - exists z. split; [reflexivity|]. apply known_l. apply in_lit_bus. right. left. reflexivity.
        - destruct (live_bus_spec L s i I Hb) as [x [a [cc [G [Ei [Ec [Hcc [Eb K]]]]]]]].
          exists a. split; [exact Eb|]. apply known_r. apply K. lia. }
      destruct B as [z [Eb Kz]].
      exists ([(KBus, z)] ++ it). cbn [map]. rewrite Ac, Eb. split; [|split].
      * cbn [forallb]. rewrite (ctl_is_tok c Wc), Tt. reflexivity.
      * change (wtok c :: wtok (PInt z) :: map wtok (map (aci s) t)) with ([wtok c; AInt z] ++ map wtok (map (aci s) t)).
        constructor; [discriminate | | exact Gt].
        intros r. cbn [app eat_seq]. rewrite (eat_ctl_tok c _ Wc). reflexivity.
      * intros kk z' Hi. destruct Hi as [Hi|Hi]; [inversion Hi; subst; exact Kz|].
        destruct (Kt kk z' Hi) as [A|[A|A]]; [left; exact A | right; left; exact A | right; right].
        apply in_app_or in A. apply in_or_app. destruct A as [A|A]; [left; apply lit_bus_tail2; exact A | right; exact A].
Qed.

Lemma mapn_groups : forall L s, InvO L s ->
  forall k args, (List.length args <= k)%nat -> mapargs_ok s args = true ->
  exists data ids, mapn_data s (clumps2 args) = Some data /\ forallb w_tok data = true /\
                   Groups [TCtl; TBusM; TInt] (map wtok data) ids /\
                   (forall kk z, In (kk, z) ids -> known (lit_bus args ++ L) kk z) /\
                   (args <> [] -> data <> []).
Proof.
  intros L s I. induction k as [|k IH]; intros args Hl H.
  - destruct args; [|simpl in Hl; lia]. exists [], []. repeat split; [constructor | intros kk z [] | intros C; contradiction C; reflexivity].
  - destruct args as [|c [|b t]]; try discriminate H.
    + exists [], []. repeat split; [constructor | intros kk z [] | intros C; contradiction C; reflexivity].
    + cbn [mapargs_ok] in H. apply andb_true_iff in H. destruct H as [H Ht]. apply andb_true_iff in H. destruct H as [Hc Hb].
      destruct (IH t ltac:(simpl in Hl; lia) Ht) as [dt [it [Et [Tt [Gt [Kt _]]]]]].
      destruct (ctl_ok_spec false s c Hc) as [_ [Ac Wc]].
      assert (B : exists z n, mapn_item s (c, b) = Some [c; PInt z; PInt n] /\ known (lit_bus (c :: b :: t) ++ L) KBus z).
      { unfold mapn_item. cbn [fst snd]. rewrite Ac. destruct b; try discriminate Hb.
        - exists z, 1. split; [reflexivity|]. apply known_l. apply in_lit_bus. right. left. reflexivity.
        - destruct (live_bus_spec L s i I Hb) as [x [a [cc [G [Ei [Ec [Hcc [Eb K]]]]]]]].
          exists a, cc. rewrite G, Ei, Ec. split; [reflexivity|]. apply known_r. apply K. lia. }
      destruct B as [z [n [Ei Kz]]].
      exists ([c; PInt z; PInt n] ++ dt), ([(KBus, z)] ++ it). cbn [clumps2 mapn_data]. rewrite Ei, Et.
      split; [reflexivity | split; [|split; [|split]]].
      * cbn [app forallb]. rewrite (ctl_is_tok c Wc), Tt. reflexivity.
      * rewrite map_app. constructor; [discriminate | | exact Gt].
        intros r. cbn [map app eat_seq]. rewrite (eat_ctl_tok c _ Wc). reflexivity.
      * intros kk z' Hi. destruct Hi as [Hi|Hi]; [inversion Hi; subst; exact Kz|].
        destruct (Kt kk z' Hi) as [A|[A|A]]; [left; exact A | right; left; exact A | right; right].
        apply in_app_or in A. apply in_or_app. destruct A as [A|A]; [left; apply lit_bus_tail2; exact A | right; exact A].
      * intros _. discriminate.
Qed.

Lemma eat_bus_int : forall z r, eat TBus (AInt z :: r) = Some ([(KBus, z)], r).
Proof. reflexivity. Qed.

(* /c_set: index+k value ... *)
Lemma bus_pairs_groups : forall a vs k, forallb w_num vs = true ->
  exists ids, forallb w_tok (bus_pairs a k vs) = true /\
              Groups [TBus; TNum] (map wtok (bus_pairs a k vs)) ids /\
              (forall kk z, In (kk, z) ids -> kk = KBus /\ a + k <= z < a + k + Z.of_nat (List.length vs)).
Proof.
  intros a vs. induction vs as [|v t IH]; intros k H.
  - exists []. repeat split; try constructor; destruct H0.
  - cbn [forallb] in H. apply andb_true_iff in H. destruct H as [Hv Ht].
    destruct (IH (k + 1) Ht) as [it [Tt [Gt Kt]]].
    exists ([(KBus, a + k)] ++ it). cbn [bus_pairs]. rewrite (flat_num v Hv). split; [|split].
    + cbn [app forallb]. rewrite (num_is_tok v Hv), Tt. reflexivity.
    + change (PInt (a + k) :: [v] ++ bus_pairs a (k + 1) t) with ([PInt (a + k); v] ++ bus_pairs a (k + 1) t).
      rewrite map_app. constructor; [discriminate | | exact Gt].
      intros r. cbn [map app eat_seq]. change (wtok (PInt (a + k))) with (AInt (a + k)).
      rewrite eat_bus_int, (eat_num_tok v _ Hv). reflexivity.
    + intros kk z Hi. cbn [List.length]. destruct Hi as [Hi|Hi].
      * inversion Hi; subst. split; [reflexivity | lia].
      * destruct (Kt kk z Hi) as [A B]. split; [exact A | lia].
Qed.

(* ControlBus.set_pairs: (offset, value) pairs *)
Fixpoint pairs_ok (c : Z) (l : list pval) : bool :=
  match l with
  | [] => true
  | PInt i :: v :: t => (0 <=? i) && (i <? c) && w_num v && pairs_ok c t
  | _ => false
  end.

Lemma pairs_groups : forall a c k l, (List.length l <= k)%nat -> pairs_ok c l = true ->
  exists data ids, pairs_data a (clumps2 l) = Some data /\ forallb w_tok data = true /\
                   Groups [TBus; TNum] (map wtok data) ids /\
                   (forall kk z, In (kk, z) ids -> kk = KBus /\ a <= z < a + c) /\ (l <> [] -> data <> []).
Proof.
  intros a c. induction k as [|k IH]; intros l Hl H.
  - destruct l; [|simpl in Hl; lia]. exists [], []. repeat split; try constructor; try destruct H0. intros C; contradiction C; reflexivity.
  - destruct l as [|p [|v t]]; try (destruct p; discriminate H).
    + exists [], []. repeat split; try constructor; try destruct H0. intros C; contradiction C; reflexivity.
    + destruct p; try discriminate H. cbn [pairs_ok] in H.
      apply andb_true_iff in H. destruct H as [H Ht]. apply andb_true_iff in H. destruct H as [H Hv].
      apply andb_true_iff in H. destruct H as [H0 H1]. apply Z.leb_le in H0. apply Z.ltb_lt in H1.
      destruct (IH t ltac:(simpl in Hl; lia) Ht) as [dt [it [Et [Tt [Gt [Kt _]]]]]].
      exists ([PInt (z + a); v] ++ dt), ([(KBus, z + a)] ++ it). cbn [clumps2 pairs_data padd]. rewrite Et, (flat_num v Hv).
      split; [reflexivity | split; [|split; [|split]]].
      * cbn [app forallb]. rewrite (num_is_tok v Hv), Tt. reflexivity.
      * rewrite map_app. constructor; [discriminate | | exact Gt].
        intros r. cbn [map app eat_seq]. change (wtok (PInt (z + a))) with (AInt (z + a)).
        rewrite eat_bus_int, (eat_num_tok v _ Hv). reflexivity.
      * intros kk z' Hi. destruct Hi as [Hi|Hi]; [inversion Hi; subst; split; [reflexivity | lia] | apply Kt; exact Hi].
      * intros _. discriminate.
Qed.

(* Server.reorder: the ids of existing nodes *)
Lemma node_ids_groups : forall L s ns, InvO L s -> forallb (node_exists s) ns = true ->
  exists data ids, node_ids_of s ns = Some data /\ forallb w_tok data = true /\
                   Groups [TNode] (map wtok data) ids /\ (forall kk z, In (kk, z) ids -> known L kk z) /\
                   (ns <> [] -> data <> []).
Proof.
  intros L s ns I. induction ns as [|n t IH]; intros H.
  - exists [], []. repeat split; try constructor; try destruct H0. intros C; contradiction C; reflexivity.
  - cbn [forallb] in H. apply andb_true_iff in H. destruct H as [Hn Ht].
    destruct (IH Ht) as [dt [it [Et [Tt [Gt [Kt _]]]]]].
    unfold node_exists in Hn. destruct (get_node s n) as [x|] eqn:G; [|discriminate].
    destruct (node_int L s n x I G) as [z [Ez Kz]].
    exists ([PInt z] ++ dt), ([(KNode, z)] ++ it). cbn [node_ids_of]. rewrite G, Et, Ez.
    split; [reflexivity | split; [|split; [|split]]].
    + cbn [app forallb]. rewrite Tt. reflexivity.
    + rewrite map_app. constructor; [discriminate | | exact Gt]. intros r. reflexivity.
    + intros kk z' Hi. destruct Hi as [Hi|Hi]; [inversion Hi; subst; exact Kz | apply Kt; exact Hi].
    + intros _. discriminate.
Qed.

(* ------------------------------------------------------------------------------------ *)
(* the domain: what a call must look like for the library to owe a conforming message    *)

Definition raw_good (m : pmsg) : bool :=
  match wire_msg m with Some w => conforms w | None => false end.

Definition is_load_cmd (c : string) : bool := String.eqb c "/d_load" || String.eqb c "/d_loadDir".
Definition is_simple_cmd (c : string) : bool := String.eqb c "/b_zero" || String.eqb c "/b_close".

Definition new_compl_good (c : compl) (bufnum addr : option Z) : bool :=
  match new_bufnum bufnum addr with Some num => compl_good c (PInt num) | None => true end.

(* n bounds the nesting depth of list values *)
Definition wf_op (n : nat) (s : st) (o : op) : bool :=
  match o with
  | OSynth _ _ def args _ _ => plain def && sargs_ok n args
  | OGroup _ _ _ _ => true
  | OBasicNew _ => true
  | ONodeSet _ args => set_ok n args && nonempty (flat_map (embed false s) args)
  | ONodeSetn _ args => setn_ok w_ctl (map (aci s) args) && nonempty args
  | ONodeMap _ _ args => mapargs_ok s args && nonempty args
  | ONodeMapn _ _ args => mapargs_ok s args && nonempty args
  | ONodeFill _ args =>
    match args with
    | c :: k :: v :: more => chunks_ok (S (S (S (List.length more)))) [TCtl; TInt; TNum] (c :: k :: v :: map (aci s) more)
    | _ => false
    end
  | ONodeRelease _ _ => true
  | ONodeRun _ (PBool _) => true
  | ONodeFree _ _ | ONodeTrace _ | ONodeQuery _ => true
  | ONodeMoveBefore _ _ | ONodeMoveAfter _ _ | ONodeMoveToHead _ _ | ONodeMoveToTail _ _ => true
  | OGroupFreeAll _ | OGroupDeepFree _ | OGroupDumpTree _ _ => true
  | OReorder ns _ _ => forallb (node_exists s) ns && nonempty ns
  | OFreeDefaultGroup _ | OSendDefaultGroups | ODumpOsc _ => true
  | ODefSend _ c => compl_good c PNone
  | OPlay _ def _ ob args _ _ =>
    plain def && match play_elems s args with Some r => sargs_ok n (play_args ob r) | None => false end
  | ODefLoad cmd path c => is_load_cmd cmd && plain path && compl_good c PNone
  | OBufNew addr fr ch bufnum c _ => ion fr && ion ch && new_compl_good c bufnum addr
  | OBufConsecutive addr k fr ch bufnum c =>
    ion fr && ion ch &&
    match new_bufnum bufnum addr with
    | Some base => forallb (fun i => compl_good c (PInt i)) (zrange base k)
    | None => true
    end
  | OBufNewRead _ path _ _ _ _ => plain path
  | OBufNewCue addr path _ _ ch bufnum c => plain path && ion ch && new_compl_good c bufnum addr
  | OBufAlloc b c => live_buf s b && compl_good c (bufnum_of s b)
  | OBufAllocRead b path _ _ _ c => live_buf s b && plain path && compl_good c (bufnum_of s b)
  | OBufRead b path _ _ _ _ _ => live_buf s b && plain path
  | OBufCue b path _ c => live_buf s b && plain path && compl_good c (bufnum_of s b)
  | OBufWrite b path header sample _ _ _ c =>
    plain path && plain header && plain sample && compl_good c (bufnum_of s b)
  | OBufSimple cmd b c => is_simple_cmd cmd && compl_good c (bufnum_of s b)
  | OBufFree b c => compl_good c (bufnum_of s b)
  | OBufFreeAll => true
  | OBufFill _ start frames values =>
    match py_int frames with
    | Some f => chunks_ok (S (S (List.length values))) [TInt; TInt; TNum] (start :: f :: values)
    | None => true
    end
  | OBufSet _ args => chunks_ok (List.length args) [TInt; TNum] args && nonempty args
  | OBufSetn _ args => setn_ok w_int args && nonempty args
  | OBufQuery b checked => checked || live_buf s b
  | OBufGet _ _ | OBufGetn _ _ _ => true
  | OBufGen _ cmd args _ _ _ => plain cmd && chunks_ok (List.length args) [TNumStr] args
  | OBufNormalize _ newmax _ => w_numstr newmax
  | OBufCopyData _ dst _ _ _ => live_buf s dst
  | OBufSendList b vals _ => live_buf s b && forallb w_num vals
  | OBufNewSendList _ vals _ => forallb w_num vals
  | OBufGetToList b _ _ => live_buf s b
  | OBusNew _ _ chans _ => 1 <=? chans
  | OBusFree _ | OBusClear _ | OBusGet _ | OBusGetn _ _ => true
  | OBusSub _ off ch => (0 <=? off) && (1 <=? ch)
  | OBusSet u off values =>
    forallb w_num values && nonempty values && (0 <=? off) && (off + Z.of_nat (List.length values) <=? chans_of s u)
  | OBusSetn u off values => forallb w_num values && (0 <=? off) && (off <? chans_of s u)
  | OBusSetPairs u pairs => pairs_ok (chans_of s u) pairs && nonempty pairs
  | OBusFill _ v (PInt _) => w_num v
  | ORaw m => raw_good m
  | OBindEnter | OBindExit | OBindRaise _ | OSync _ => true
  | _ => false
  end.

(* ------------------------------------------------------------------------------------ *)
(* per-op obligation                                                                     *)

Lemma bufnum_of_get : forall s b x, get_buf s b = Some x -> bufnum_of s b = b_num x.
Proof.
  intros s b x G. unfold bufnum_of. unfold get_buf in G.
  destruct (nth_error (bufs s) b) as [[y|]|]; try discriminate. inversion G; subst. reflexivity.
Qed.

Lemma target_known : forall L s tg, InvO L s -> target_ok s tg = true ->
  exists z, target_id s tg = PInt z /\ known (tg_ids tg ++ L) KNode z.
Proof.
  intros L s tg I T. destruct tg; cbn [target_id tg_ids app].
  - exists (dgroup s). split; [reflexivity|]. apply (proj1 (io_dg _ _ I)).
  - exists (dgroup s). split; [reflexivity|]. apply (proj1 (io_dg _ _ I)).
  - exists 0. split; [reflexivity|]. right. left. auto.
  - unfold target_ok in T. unfold node_id_of.
    destruct (nth_error (nodes s) i) as [[y|]|] eqn:E; try discriminate.
    destruct (node_int L s i y I) as [z [Ez Kz]]; [unfold get_node; rewrite E; reflexivity|].
    exists z. split; assumption.
  - exists z. split; [reflexivity|]. right. right. left. reflexivity.
Qed.

Lemma good_cmd_compl : forall L a (F : list pval) c num sg iF,
  sig_of a = Some sg -> s_rep sg = RNone -> s_compl sg = true ->
  forallb w_tok F = true ->
  (forall y, eat_seq (s_fixed sg) (map wtok F ++ [y]) = Some (iF, [y])) ->
  compl_good c num = true ->
  (forall k i, In (k, i) iF -> known L k i) -> (forall k i, In (k, i) (compl_ids c num) -> known L k i) ->
  Good L (PStr a :: F ++ [compl_val c num]).
Proof.
  intros L a F c num sg iF S R C T E Hc K1 K2.
  destruct (compl_good_spec c num Hc) as [x [Wx [Ox [Cx Ix]]]].
  eapply good_compl_gen; eauto. rewrite Ix. exact K2.
Qed.

Lemma good_cmd_compl_ints : forall L a (F : list pval) ch c num sg iF,
  sig_of a = Some sg -> s_rep sg = RGroup [TInt] false -> s_compl sg = true ->
  forallb w_tok F = true ->
  (forall R, eat_seq (s_fixed sg) (map wtok F ++ R) = Some (iF, R)) ->
  compl_good c num = true ->
  (forall k i, In (k, i) iF -> known L k i) -> (forall k i, In (k, i) (compl_ids c num) -> known L k i) ->
  Good L (PStr a :: F ++ zs ch ++ [compl_val c num]).
Proof.
  intros L a F ch c num sg iF S R C T E Hc K1 K2.
  destruct (compl_good_spec c num Hc) as [x [Wx [Ox [Cx Ix]]]].
  eapply good_compl_ints; eauto. rewrite Ix. exact K2.
Qed.

(* fixed fields then groups, no completion *)
Lemma good_groups : forall L a (F R : list pval) sg g m iF wr ids,
  sig_of a = Some sg -> s_rep sg = RGroup g m -> s_compl sg = false ->
  forallb w_tok F = true ->
  (forall Y, eat_seq (s_fixed sg) (map wtok F ++ Y) = Some (iF, Y)) ->
  wire_args R = Some wr -> Groups g wr ids -> (m = false \/ wr <> []) -> forallb not_msg wr = true ->
  (forall k i, In (k, i) iF -> known L k i) -> (forall k i, In (k, i) ids -> known L k i) ->
  Good L (PStr a :: F ++ R).
Proof.
  intros L a F R sg g m iF wr ids S Rp C T E W G M N K1 K2.
  eapply (good_flat L a (F ++ R) (map wtok F ++ wr) sg (iF ++ ids)).
  - apply wire_args_app; [apply wire_toks; exact T | exact W].
  - exact S.
  - apply shape_plain; [apply E|]. rewrite Rp. apply rep_group; assumption.
  - rewrite forallb_app, toks_not_msg, N. reflexivity.
  - intros k i Hi. apply in_app_or in Hi. destruct Hi; auto.
Qed.

Lemma good_cgroups : forall L a (F R : list pval) sg kt vt iF wr ids,
  sig_of a = Some sg -> s_rep sg = RCounted kt vt -> s_compl sg = false ->
  forallb w_tok F = true ->
  (forall Y, eat_seq (s_fixed sg) (map wtok F ++ Y) = Some (iF, Y)) ->
  wire_args R = Some wr -> CGroups kt vt wr ids -> wr <> [] -> forallb not_msg wr = true ->
  (forall k i, In (k, i) iF -> known L k i) -> (forall k i, In (k, i) ids -> known L k i) ->
  Good L (PStr a :: F ++ R).
Proof.
  intros L a F R sg kt vt iF wr ids S Rp C T E W G M N K1 K2.
  eapply (good_flat L a (F ++ R) (map wtok F ++ wr) sg (iF ++ ids)).
  - apply wire_args_app; [apply wire_toks; exact T | exact W].
  - exact S.
  - apply shape_plain; [apply E|]. rewrite Rp. apply rep_counted; assumption.
  - rewrite forallb_app, toks_not_msg, N. reflexivity.
  - intros k i Hi. apply in_app_or in Hi. destruct Hi; auto.
Qed.

Lemma toks_wire_nonempty : forall l, l <> [] -> map wtok l <> [].
Proof. intros l H. destruct l; [contradiction H; reflexivity | discriminate]. Qed.

Lemma nonempty_ne : forall {A} (l : list A), nonempty l = true -> l <> [].
Proof. intros A l H. destruct l; [discriminate | discriminate]. Qed.

Lemma wire_arg_single : forall p a, wire_arg p = Some a -> exists x, a = [x].
Proof.
  intros p a H. destruct p; cbn [wire_arg] in H; try discriminate H; try (inversion H; eauto; fail).
  - destruct (String.eqb s "["); [inversion H; eauto|]. destruct (String.eqb s "]"); inversion H; eauto.
  - destruct l as [|q t]; [inversion H; eauto|]. destruct q; try discriminate H.
    match type of H with match ?X with _ => _ end = _ => destruct X end; [inversion H; eauto | discriminate].
Qed.

Lemma wire_args_nonempty : forall l ws, wire_args l = Some ws -> l <> [] -> ws <> [].
Proof.
  intros l ws H Hn. destruct l as [|p t]; [contradiction Hn; reflexivity|]. cbn [wire_args] in H.
  destruct (wire_arg p) as [a|] eqn:E; [|discriminate]. destruct (wire_args t); [|discriminate].
  destruct (wire_arg_single p a E) as [x Ex]. subst. inversion H. discriminate.
Qed.
