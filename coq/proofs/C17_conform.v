(* C17 -- every message emitted by a sequence of fixed-shape ops conforms to the command
   reference (induction over op sequences; the invariant covers the messages waiting in open
   bind() blocks). *)
From Coq Require Import ZArith QArith List String Bool Lia.
Import ListNotations.
Require Import SC3.model.ProtoGrammar SC3.model.Proto SC3.gen.Gen_proto.
Require Import SC3.proofs.C17_bind SC3.proofs.C17_life.
Open Scope string_scope.
Open Scope Z_scope.
Open Scope list_scope.

Definition is_pint (v : pval) : bool := match v with PInt _ => true | _ => false end.
Definition ion (v : pval) : bool := match v with PInt _ | PNone => true | _ => false end.
Definition node_ok (n : option nodeobj) : bool := match n with Some x => is_pint (n_id x) | None => true end.
Definition buf_ok (b : option bufobj) : bool :=
  match b with Some x => ion (b_num x) && ion (b_frames x) && ion (b_chans x) | None => true end.
Definition bus_ok (u : option busobj) : bool :=
  match u with Some x => ion (u_index x) && ion (u_chans x) | None => true end.

Definition good_pmsg (m : pmsg) : bool :=
  match wire_msg m with Some w => conforms w | None => false end.

Definition inv_objs (s : st) : bool :=
  forallb node_ok (nodes s) && forallb buf_ok (bufs s) && forallb bus_ok (buses s).
Definition inv_b (s : st) : bool := inv_objs s && forallb (forallb good_pmsg) (stack s).
Definition inv (s : st) : Prop := inv_b s = true.

Definition no_compl (c : compl) : bool := match c with CNone => true | _ => false end.
Definition is_num (v : pval) : bool := match v with PInt _ | PFlt _ => true | _ => false end.

(* a string that the encoder does not turn into an array bracket *)
Definition plain (x : string) : bool := negb (String.eqb x "[") && negb (String.eqb x "]").

Definition fixed_shape (o : op) : bool :=
  match o with
  | OSynth _ _ def PNone _ _ => plain def
  | OGroup _ _ _ _ => true
  | OBasicNew _ => true
  | ONodeRelease _ _ => true
  | ONodeRun _ (PBool _) => true
  | ONodeFree _ _ | ONodeTrace _ | ONodeQuery _ => true
  | ONodeMoveBefore _ _ | ONodeMoveAfter _ _ | ONodeMoveToHead _ _ | ONodeMoveToTail _ _ => true
  | OGroupFreeAll _ | OGroupDeepFree _ | OGroupDumpTree _ _ => true
  | OFreeDefaultGroup | OSendDefaultGroups | ODumpOsc _ => true
  | OBufNew _ fr ch _ c _ => ion fr && ion ch && no_compl c
  | OBufAlloc _ c => no_compl c
  | OBufSimple cmd _ c => (String.eqb cmd "/b_zero" || String.eqb cmd "/b_close") && no_compl c
  | OBufFree _ c => no_compl c
  | OBufFreeAll => true
  | OBufQuery _ _ | OBufGet _ _ | OBufGetn _ _ _ => true
  | OBufCue _ path _ c => plain path && no_compl c
  | OBufWrite _ path header sample _ _ _ c => plain path && plain header && plain sample && no_compl c
  | OBufRead _ path _ _ _ _ None => plain path
  | OBusNew _ _ _ _ | OBusFree _ | OBusClear _ | OBusGet _ | OBusGetn _ _ => true
  | OBusFill _ v (PInt _) => is_num v
  | OBindEnter | OBindExit | OBindRaise _ => true
  | _ => false
  end.

(* ---- invariant plumbing ---- *)

Lemma forallb_nth : forall {A} (f : A -> bool) l i x, forallb f l = true -> nth_error l i = Some x -> f x = true.
Proof.
  intros A f l. induction l as [|y t IH]; intros i x H Hn; destruct i; simpl in *; try discriminate.
  - inversion Hn; subst. apply andb_true_iff in H. tauto.
  - apply andb_true_iff in H. eapply IH; [tauto | exact Hn].
Qed.

Lemma forallb_set_nth : forall {A} (f : A -> bool) l i x, forallb f l = true -> f x = true -> forallb f (set_nth l i x) = true.
Proof.
  intros A f l. induction l as [|y t IH]; intros i x H Hx; simpl; [reflexivity|].
  simpl in H. apply andb_true_iff in H. destruct H as [H1 H2].
  destruct i; simpl; [rewrite Hx, H2 | rewrite H1, (IH _ _ H2 Hx)]; reflexivity.
Qed.

Lemma inv_objs_split : forall s, inv_objs s = true <->
  forallb node_ok (nodes s) = true /\ forallb buf_ok (bufs s) = true /\ forallb bus_ok (buses s) = true.
Proof. intros s. unfold inv_objs. rewrite !andb_true_iff. tauto. Qed.

Lemma inv_add_node : forall s n, inv_objs s = true -> node_ok n = true -> inv_objs (add_node s n) = true.
Proof.
  intros s n H Hn. apply inv_objs_split in H. apply inv_objs_split. simpl.
  destruct H as [A [B C]]. split; [rewrite forallb_app, A; simpl; rewrite Hn; reflexivity | split; assumption].
Qed.
Lemma inv_add_buf : forall s n, inv_objs s = true -> buf_ok n = true -> inv_objs (add_buf s n) = true.
Proof.
  intros s n H Hn. apply inv_objs_split in H. apply inv_objs_split. simpl.
  destruct H as [A [B C]]. split; [assumption | split; [rewrite forallb_app, B; simpl; rewrite Hn; reflexivity | assumption]].
Qed.
Lemma inv_add_bus : forall s n, inv_objs s = true -> bus_ok n = true -> inv_objs (add_bus s n) = true.
Proof.
  intros s n H Hn. apply inv_objs_split in H. apply inv_objs_split. simpl.
  destruct H as [A [B C]]. split; [assumption | split; [assumption | rewrite forallb_app, C; simpl; rewrite Hn; reflexivity]].
Qed.
Lemma inv_set_bblocks : forall s b, inv_objs (set_bblocks s b) = inv_objs s. Proof. reflexivity. Qed.
Lemma inv_set_cblocks : forall s b, inv_objs (set_cblocks s b) = inv_objs s. Proof. reflexivity. Qed.
Lemma inv_set_ablocks : forall s b, inv_objs (set_ablocks s b) = inv_objs s. Proof. reflexivity. Qed.
Lemma inv_set_stack : forall s k, inv_objs (set_stack s k) = inv_objs s. Proof. reflexivity. Qed.
Lemma inv_set_buf : forall s i x, inv_objs s = true -> buf_ok (Some x) = true -> inv_objs (set_buf s i x) = true.
Proof.
  intros s i x H Hx. apply inv_objs_split in H. apply inv_objs_split. simpl. destruct H as [A [B C]].
  split; [assumption | split; [apply forallb_set_nth; assumption | assumption]].
Qed.
Lemma inv_set_bus : forall s i x, inv_objs s = true -> bus_ok (Some x) = true -> inv_objs (set_bus s i x) = true.
Proof.
  intros s i x H Hx. apply inv_objs_split in H. apply inv_objs_split. simpl. destruct H as [A [B C]].
  split; [assumption | split; [assumption | apply forallb_set_nth; assumption]].
Qed.
Lemma inv_alloc_bufnum : forall s b a n z s1, inv_objs s = true -> alloc_bufnum s b a n = Some (z, s1) -> inv_objs s1 = true.
Proof.
  intros s b a n z s1 H A. unfold alloc_bufnum in A.
  destruct b; [inversion A; subst; assumption|]. destruct a; [inversion A; subst; assumption | discriminate].
Qed.

Lemma node_int : forall s n x, inv_objs s = true -> get_node s n = Some x -> exists z, n_id x = PInt z.
Proof.
  intros s n x H G. apply inv_objs_split in H. destruct H as [H _]. unfold get_node in G.
  destruct (nth_error (nodes s) n) as [[y|]|] eqn:E; try discriminate. inversion G; subst.
  pose proof (forallb_nth _ _ _ _ H E) as K. simpl in K. destruct (n_id x); try discriminate. eauto.
Qed.

Lemma buf_ion : forall s b x, inv_objs s = true -> get_buf s b = Some x ->
  ion (b_num x) = true /\ ion (b_frames x) = true /\ ion (b_chans x) = true.
Proof.
  intros s b x H G. apply inv_objs_split in H. destruct H as [_ [H _]]. unfold get_buf in G.
  destruct (nth_error (bufs s) b) as [[y|]|] eqn:E; try discriminate. inversion G; subst.
  pose proof (forallb_nth _ _ _ _ H E) as K. simpl in K. rewrite !andb_true_iff in K. tauto.
Qed.

Lemma bus_ion : forall s u x, inv_objs s = true -> get_bus s u = Some x ->
  ion (u_index x) = true /\ ion (u_chans x) = true.
Proof.
  intros s u x H G. apply inv_objs_split in H. destruct H as [_ [_ H]]. unfold get_bus in G.
  destruct (nth_error (buses s) u) as [[y|]|] eqn:E; try discriminate. inversion G; subst.
  pose proof (forallb_nth _ _ _ _ H E) as K. simpl in K. rewrite !andb_true_iff in K. tauto.
Qed.

Lemma target_int : forall s tg, inv_objs s = true -> target_ok s tg = true -> exists z, target_id s tg = PInt z.
Proof.
  intros s tg H T. destruct tg; simpl; eauto.
  unfold target_ok in T. unfold node_id_of.
  destruct (nth_error (nodes s) i) as [[y|]|] eqn:E; try discriminate.
  apply (node_int s i y H). unfold get_node. rewrite E. reflexivity.
Qed.

Lemma action_cases : forall act a, action_number act = Some a -> a = 0 \/ a = 1 \/ a = 2 \/ a = 3 \/ a = 4.
Proof. intros act a H. apply action_number_range in H. lia. Qed.

(* ---- the per-op obligation ---- *)

Ltac use_inv Hi :=
  repeat match goal with
         | G : get_node ?s ?n = Some ?x |- _ =>
           let z := fresh "z" in let E := fresh "E" in
           destruct (node_int s n x Hi G) as [z E]; simpl in E; try rewrite E in *; clear G
         | G : get_buf ?s ?b = Some ?x |- _ =>
           let K := fresh "K" in pose proof (buf_ion s b x Hi G) as K; destruct K as [? [? ?]]; clear G
         | G : get_bus ?s ?u = Some ?x |- _ =>
           let K := fresh "K" in pose proof (bus_ion s u x Hi G) as K; destruct K as [? ?]; clear G
         end.

Ltac brk_hyp H :=
  repeat match type of H with
         | context [match ?x with _ => _ end] => destruct x eqn:?
         | context [if ?x then _ else _] => destruct x eqn:?
         end.

Lemma good_b_free : forall i, good_pmsg [PStr "/b_free"; PInt i] = true.
Proof. intros i. reflexivity. Qed.

Lemma good_free_all : forall (f : Z * Z -> list Z) blks,
  forallb good_pmsg (flat_map (fun blk => map (fun i => [PStr "/b_free"; PInt i]) (f blk)) blks) = true.
Proof.
  intros f blks. apply forallb_forall. intros m Hm. apply in_flat_map in Hm. destruct Hm as [b [_ Hm]].
  apply in_map_iff in Hm. destruct Hm as [i [Hi _]]. subst m. apply good_b_free.
Qed.

Ltac inv_goal Hi :=
  repeat first
    [ assumption
    | rewrite inv_set_bblocks | rewrite inv_set_cblocks | rewrite inv_set_ablocks
    | apply inv_add_node | apply inv_add_buf | apply inv_add_bus | apply inv_set_buf | apply inv_set_bus
    | match goal with A : alloc_bufnum _ _ _ _ = Some (_, ?s1) |- inv_objs ?s1 = true => exact (inv_alloc_bufnum _ _ _ _ _ _ Hi A) end
    | reflexivity ].

Ltac ints :=
  repeat match goal with
         | K : ion ?v = true |- _ => destruct v; try discriminate K; clear K
         | K : is_pint ?v = true |- _ => destruct v; try discriminate K; clear K
         end.

(* wire_msg, compositionally *)
Fixpoint wire_args (l : list pval) : option (list arg) :=
  match l with
  | [] => Some []
  | x :: t => match wire_arg x, wire_args t with Some a, Some b => Some (a ++ b) | _, _ => None end
  end.

Lemma wire_msg_eq : forall a l,
  wire_msg (PStr a :: l) = match wire_args l with Some args => Some (a, args) | None => None end.
Proof.
  intros a l. unfold wire_msg. cbn [wire_arg].
  change ((fix go (l0 : list pval) : option (list arg) :=
             match l0 with
             | [] => Some []
             | x :: t => match wire_arg x, go t with Some a', Some b' => Some (a' ++ b') | _, _ => None end
             end) l) with (wire_args l).
  destruct (wire_args l); reflexivity.
Qed.

Lemma plain_eqs : forall x, plain x = true -> String.eqb x "[" = false /\ String.eqb x "]" = false.
Proof. intros x H. unfold plain in H. apply andb_true_iff in H. rewrite !negb_true_iff in H. exact H. Qed.

Ltac good :=
  cbn [forallb flat_map send_msgs app]; unfold good_pmsg; rewrite ?wire_msg_eq;
  cbn [wire_args wire_arg];
  repeat match goal with P : plain ?x = true |- _ =>
           let A := fresh in let B := fresh in destruct (plain_eqs x P) as [A B]; rewrite ?A, ?B; clear P
         end;
  reflexivity.

Ltac brk_eqs :=
  repeat match goal with
         | Hq : context [match ?x with _ => _ end] |- _ => destruct x eqn:?; try discriminate Hq
         | Hq : context [if ?x then _ else _] |- _ => destruct x eqn:?; try discriminate Hq
         end;
  repeat match goal with Hq : Some _ = Some _ |- _ => inversion Hq; subst; clear Hq end.

Ltac msg_goal Hi :=
  try match goal with T : negb (target_ok ?s ?tg) = false |- _ =>
        let z := fresh "tz" in let E := fresh "TE" in
        apply negb_false_iff in T; destruct (target_int s tg Hi T) as [z E]; rewrite E in *; clear T
      end;
  try match goal with A : action_number ?act = Some ?a |- _ =>
        destruct (action_cases act a A) as [?|[?|[?|[?|?]]]]; subst a; clear A
      end;
  use_inv Hi; ints;
  unfold s_new_msg, args_or_empty, oal, pargroup_creation_cmd, group_creation_cmd, py_int, compl_val in *;
  brk_eqs;
  try (simpl in *; congruence);
  repeat match goal with b : bool |- _ => destruct b end;
  try good.

Lemma obj_conform : forall s o s1 sends e,
  inv_objs s = true -> fixed_shape o = true -> obj_step repaired s o = (s1, sends, e) ->
  inv_objs s1 = true /\ forallb good_pmsg (flat_map send_msgs sends) = true.
Proof.
  intros s o s1 sends e Hi Hf H.
  destruct o; try discriminate Hf.
  all: cbn [fixed_shape] in Hf.
  (* OBufSimple: the command is one of the two *)
  all: try match type of Hf with
           | ((String.eqb ?cmd _ || _) && _) = true =>
             apply andb_true_iff in Hf; destruct Hf as [Hc Hf]; apply orb_true_iff in Hc;
             destruct Hc as [Hc|Hc]; apply String.eqb_eq in Hc; subst cmd
           end.
  all: repeat match goal with
              | Q : (_ && _) = true |- _ => let P := fresh "P" in apply andb_true_iff in Q; destruct Q as [P Q]
              end.
  all: unfold no_compl, ion, is_num in *.
  all: repeat match goal with
              | Q : context [match ?x with _ => _ end] |- _ =>
                lazymatch type of Q with _ = true => destruct x; try discriminate Q end
              end.
  all: unfold obj_step, ok, fail in H.
  all: brk_hyp H; inversion H; subst; clear H;
    (split; [ try solve [inv_goal Hi | use_inv Hi; inv_goal Hi; simpl; ints; reflexivity] | try reflexivity ]).
  all: try solve [msg_goal Hi].
  all: try (cbn [flat_map send_msgs]; rewrite app_nil_r; apply good_free_all).
Qed.

(* ---- routing keeps the invariant and only lets conforming messages through ---- *)

Lemma good_wire_msgs : forall ms, forallb good_pmsg ms = true ->
  exists ws, wire_msgs ms = Some ws /\ forallb conforms ws = true.
Proof.
  induction ms as [|m t IH]; intros H; simpl in *.
  - exists []. split; reflexivity.
  - apply andb_true_iff in H. destruct H as [Hm Ht]. destruct (IH Ht) as [ws [E C]].
    unfold good_pmsg in Hm. destruct (wire_msg m) as [w|] eqn:W; [|discriminate].
    exists (w :: ws). rewrite E. split; [reflexivity|]. simpl. rewrite Hm, C. reflexivity.
Qed.

Lemma route_conform : forall sends stk,
  forallb (forallb good_pmsg) stk = true -> forallb good_pmsg (flat_map send_msgs sends) = true ->
  forallb (forallb good_pmsg) (fst (fst (route stk sends))) = true /\ all_conform (snd (fst (route stk sends))) = true.
Proof.
  induction sends as [|x t IH]; intros stk Hs Hg.
  - simpl. split; [exact Hs | reflexivity].
  - cbn [flat_map] in Hg. rewrite forallb_app in Hg. apply andb_true_iff in Hg. destruct Hg as [Hx Ht].
    destruct stk as [|top rest].
    + destruct x as [m|tm ms]; cbn [route].
      * simpl in Hx. rewrite andb_true_r in Hx. unfold good_pmsg in Hx.
        destruct (wire_msg m) as [w|]; [|discriminate].
        specialize (IH [] Hs Ht). destruct (route [] t) as [[stk' evs] e]. simpl in *.
        destruct IH as [I1 I2]. split; [exact I1|]. unfold all_conform in *. simpl. rewrite Hx, I2. reflexivity.
      * simpl in Hx. destruct (good_wire_msgs ms Hx) as [ws [E C]]. rewrite E.
        specialize (IH [] Hs Ht). destruct (route [] t) as [[stk' evs] e]. simpl in *.
        destruct IH as [I1 I2]. split; [exact I1|]. unfold all_conform in *. simpl. rewrite C, I2. reflexivity.
    + cbn [route]. apply IH; [|exact Ht].
      simpl in Hs. apply andb_true_iff in Hs. destruct Hs as [H1 H2]. simpl.
      rewrite forallb_app, H1, Hx, H2. reflexivity.
Qed.

Lemma forallb_drop_n : forall {A} (f : A -> bool) k l, forallb f l = true -> forallb f (drop_n k l) = true.
Proof.
  intros A f k. induction k as [|k IH]; intros l H; simpl; [exact H|].
  destruct l; [reflexivity|]. simpl in H. apply andb_true_iff in H. apply IH. tauto.
Qed.

Lemma step_conform : forall s o,
  inv s -> fixed_shape o = true ->
  inv (fst (fst (step repaired s o))) /\ all_conform (snd (fst (step repaired s o))) = true.
Proof.
  intros s o Hinv Hf. unfold inv, inv_b in *. apply andb_true_iff in Hinv. destruct Hinv as [Hi Hk].
  destruct (nonbind o) eqn:Hn.
  - destruct (obj_step repaired s o) as [[s1 sends] e] eqn:E.
    destruct (obj_conform _ _ _ _ _ Hi Hf E) as [Hi1 Hg].
    pose proof (obj_step_stack _ _ _ _ _ _ E) as Hst.
    assert (Hstep : step repaired s o =
                    (let '(stk, evs, e2) := route (stack s1) sends in
                     (set_stack s1 stk, evs, match e with Some _ => e | None => e2 end))).
    { destruct o; try discriminate Hn; unfold step; rewrite E; reflexivity. }
    rewrite Hstep. rewrite Hst.
    destruct (route_conform sends (stack s) Hk Hg) as [R1 R2].
    destruct (route (stack s) sends) as [[stk evs] e2]. simpl in *.
    split; [|exact R2]. rewrite inv_set_stack, Hi1. simpl. exact R1.
  - destruct o; try discriminate Hn; unfold step.
    + simpl. split; [|reflexivity]. rewrite inv_set_stack, Hi. simpl. exact Hk.
    + destruct (stack s) as [|top rest] eqn:S.
      * simpl. rewrite Hi, S. split; reflexivity.
      * simpl in Hk. apply andb_true_iff in Hk. destruct Hk as [K1 K2].
        assert (Hg : forallb good_pmsg (flat_map send_msgs (flush top)) = true).
        { unfold flush. destruct top; [reflexivity|]. cbn [flat_map send_msgs]. rewrite app_nil_r. exact K1. }
        destruct (route_conform (flush top) rest K2 Hg) as [R1 R2].
        destruct (route rest (flush top)) as [[stk evs] e2]. simpl in *.
        split; [|exact R2]. rewrite inv_set_stack, Hi. simpl. exact R1.
    + simpl. split; [|reflexivity]. rewrite inv_set_stack, Hi. simpl. apply forallb_drop_n. exact Hk.
Qed.

Lemma run_conform : forall ops s,
  inv s -> forallb fixed_shape ops = true ->
  Forall (fun st => all_conform (fst st) = true) (fst (run repaired s ops)).
Proof.
  induction ops as [|o t IH]; intros s Hi Hf.
  - constructor.
  - simpl in Hf. apply andb_true_iff in Hf. destruct Hf as [Ho Ht].
    destruct (step_conform s o Hi Ho) as [I1 C1].
    rewrite run_cons. destruct (step repaired s o) as [[s1 evs] e]. simpl in I1, C1.
    specialize (IH s1 I1 Ht). destruct (run repaired s1 t) as [r s2]. simpl in *.
    constructor; [exact C1 | exact IH].
Qed.

(* the code as found: Buffer.cue puts the frame count where leaveOpen (0/1) belongs *)
Lemma cue_as_found_does_not_conform : exists ops,
  forallb fixed_shape ops = true /\
  ~ Forall (fun st => all_conform (fst st) = true) (fst (run as_found st0 ops)).
Proof.
  exists [OBufNew (Some 0) (PInt 32768) (PInt 2) None CNone true; OBufCue 0 "/tmp/a.wav" 100 CNone].
  split; [reflexivity|]. intros H. inversion H as [|x l H1 H2]; subst. inversion H2 as [|y l' H3 H4]; subst.
  vm_compute in H3. discriminate.
Qed.
