(* C08 -- AppClock transition system (model/RtClock.v, system 2): the lost-notify window of
   clock.py (refutation of no_oversleep on the faithful model, with a witness trace) and the
   proof that the proposed repair (a pending flag under _tick_cond) closes it. *)
From Coq Require Import QArith ZArith List Bool Arith Lia Lqa Permutation Sorting.
Import ListNotations.
Require Import SC3.model.TaskQ SC3.model.RtClock SC3.proofs.C09_order SC3.proofs.C08_sys
  SC3.proofs.C08_mon.
Local Open Scope Q_scope.

Lemma arun_invariant : forall (P : ast -> Prop),
  (forall s e s', P s -> astep s e = Some s' -> P s') ->
  forall evs s s', P s -> arun s evs = Some s' -> P s'.
Proof.
  intros P HS. induction evs as [| e r IH]; intros s s' HP HR; simpl in HR.
  - inversion HR; subst. exact HP.
  - destruct (astep s e) as [s1 |] eqn:E; [| discriminate].
    apply (IH s1 s'); [apply (HS s e s1); assumption | exact HR].
Qed.

Ltac unfold_astep H :=
  unfold astep, a_norm, a_next, a_set_pc, a_set_q, a_main_free, a_in_task, a_tick_free, a_waiting in H;
  simpl in H.
Ltac astep_cases H :=
  unfold_astep H; break_step H; try (injection H as H); subst.

(* ---- F13: the faithful model oversleeps -------------------------------------------------------- *)
(* The clock thread ticks on an empty queue (timeout None) and leaves the first with-block;
   a client then runs a COMPLETE sched(1/20 s from now, task 7): add under _sched_lock, notify
   under _tick_cond -- no waiter yet, the notify is lost; the clock thread enters the second
   with-block and waits without timeout although task 7 is queued. *)
Definition f13_witness : list aevent :=
  [ATickBegin; ATime 0; ATickEnd;                 (* clock: tick, queue empty -> seconds = None *)
   ATime 0; AAdd (1 # 20) 7%Z;                    (* client: with _sched_lock: scheduler.sched *)
   ANotify;                                       (* client: with _tick_cond: notify()  (lost)  *)
   ACondEnter; AWaitBegin None].                  (* clock: with _tick_cond: wait(None)          *)

Lemma f13_refuted :
  exists s, arun (ainit VOrig) f13_witness = Some s /\
    a_pc s = AWaiting None /\ a_q s = [((1 # 20), 0%nat, 7%Z)] /\
    a_notified s = false /\ a_owed s = 0%nat /\ a_run s = true /\
    a_oversleep_free s = false.
Proof. eexists. vm_compute. repeat split; reflexivity. Qed.

(* the same schedule is not a path of the repaired system: the wait is skipped *)
Lemma f13_witness_not_fixed : a_accepts VFlag f13_witness = false.
Proof. vm_compute. reflexivity. Qed.
Definition f13_fixed_path : list aevent :=
  [ATickBegin; ATime 0; ATickEnd; ATime 0; AAdd (1 # 20) 7%Z; ANotify;
   ACondEnter; ACondExit;                         (* _tick_pending is set: no wait *)
   ATickBegin; ATime 0; ATickEnd; ACondEnter; AWaitBegin (Some (1 # 20))].
Lemma f13_fixed_path_ok :
  exists s, arun (ainit VFlag) f13_fixed_path = Some s /\ a_pc s = AWaiting (Some (1 # 20)) /\
    a_oversleep_free s = true.
Proof. eexists. vm_compute. repeat split; reflexivity. Qed.

(* ---- the repaired system never oversleeps -------------------------------------------------------- *)
Definition jinv (s : ast) : Prop :=
  sorted ikey (a_q s) /\
  (a_var s = VFlag ->
   match a_pc s with
   | AWindow _ dl | ACond _ dl =>
       a_stale dl (a_q s) = true -> (a_owed s <> 0)%nat \/ a_flag s = true
   | AWaiting dl =>
       a_stale dl (a_q s) = true -> (a_owed s <> 0)%nat \/ a_notified s = true
   | _ => True
   end).

Lemma stale_tail : forall dl h r, sorted ikey (h :: r) ->
  a_stale dl (h :: r) = false -> a_stale dl r = false.
Proof.
  intros dl h r S H. destruct r as [| h2 r2]; [reflexivity |].
  simpl in *. destruct dl as [d |]; [| discriminate].
  unfold Qltb in *. apply negb_false_iff in H. apply negb_false_iff.
  apply Qle_bool_iff in H. apply Qle_bool_iff.
  assert (K : ~ klt (ikey h2) (ikey h)).
  { apply (sorted_head_le _ ikey h (h2 :: r2) h2 S). left. reflexivity. }
  apply klt_prio_le in K. unfold ikey in K. simpl in K. unfold itime.
  eapply Qle_trans; eassumption.
Qed.

Lemma stale_fresh : forall h r, a_stale (Some (itime h)) (h :: r) = false.
Proof.
  intros. simpl. unfold Qltb. apply negb_false_iff. apply Qle_bool_iff. apply Qle_refl.
Qed.

Lemma jinv_step : forall s e s', jinv s -> astep s e = Some s' -> jinv s'.
Proof.
  intros s e s' [S J] HS.
  destruct s as [v q n p rn nt ow fl la]. unfold jinv in *. simpl in *.
  destruct e, p; simpl in HS; try discriminate HS;
    astep_cases HS; simpl.
  all: try match goal with E : (if _ then _ else _) = _ |- _ => solve [exfalso; clear - E; break_step E] end.
  all: try match goal with |- _ /\ _ => split end.
  all: try assumption.
  all: try (apply q_add_qinv; [assumption | constructor]).
  all: try match goal with |- sorted ikey (q_add _ _ _ _) =>
         unfold q_add; apply insert_by_sorted; apply sorted_filter; assumption end.
  all: try match goal with H : sorted ikey (?h :: ?r) |- sorted ikey ?r =>
         apply (sorted_tail _ _ h); exact H end.
  all: try (intros; exact I).
  all: try (intros Hv Hst; left; discriminate).
  all: try (intros Hv Hst; right; reflexivity).
  all: try (intros Hv Hst; rewrite stale_fresh in Hst; discriminate).
  all: try (intros Hv Hst; discriminate Hst).
  all: try (intros Hv Hst; exfalso;
            match goal with H : Qltb ?a ?a = true |- _ =>
              unfold Qltb in H; apply negb_true_iff in H;
              assert (Qle_bool a a = true) by (apply Qle_bool_iff; apply Qle_refl); congruence end).
  all: try (right; apply orb_true_r).
  all: try (intros Hv Hst; specialize (J Hv);
            match goal with
            | S0 : sorted ikey (?h :: ?r), Hst : a_stale ?dl ?r = true |- _ =>
                destruct (a_stale dl (h :: r)) eqn:Est;
                [apply J; reflexivity
                | rewrite (stale_tail dl h r S0 Est) in Hst; discriminate]
            end).
  all: try (intros Hv Hst; specialize (J Hv Hst); subst;
            repeat match goal with E : _ && _ = true |- _ => apply andb_true_iff in E; destruct E end;
            repeat match goal with E : negb _ = true |- _ => apply negb_true_iff in E end;
            destruct J as [J | J]; [left; exact J | try congruence; try (right; exact J)]).
  all: try (intros Hv Hst; specialize (J Hv Hst); destruct J as [J | J];
            [try (left; exact J) | try (right; rewrite J; reflexivity); try (right; exact J)]).
  all: try (intros Hv; rewrite Hv in *; discriminate).
Qed.

Lemma jinv_init : forall v, jinv (ainit v).
Proof. intro v. split; [constructor | intros; exact I]. Qed.

Lemma fixed_no_oversleep : forall evs s,
  arun (ainit VFlag) evs = Some s -> a_oversleep_free s = true.
Proof.
  intros evs s HR.
  assert (J : jinv s) by (apply (arun_invariant jinv jinv_step evs (ainit VFlag) s (jinv_init VFlag) HR)).
  assert (V : a_var s = VFlag).
  { apply (arun_invariant (fun s => a_var s = VFlag)) with (evs := evs) (s := ainit VFlag);
      [| reflexivity | exact HR].
    intros s0 e s1 H0 H1. destruct s0 as [v q n p rn nt ow fl la]. simpl in *. subst v.
    destruct e, p; simpl in H1; try discriminate H1; astep_cases H1; reflexivity. }
  destruct J as [_ J]. specialize (J V). unfold a_oversleep_free.
  destruct (a_pc s); try reflexivity.
  destruct (a_stale dl (a_q s)) eqn:Est.
  - destruct (J eq_refl) as [H | H].
    + destruct (a_owed s); [contradiction H; reflexivity |]. simpl.
      rewrite orb_true_r. reflexivity.
    + rewrite H. reflexivity.
  - simpl. rewrite !orb_true_r. reflexivity.
Qed.

(* ---- never early: only items with time <= the tick's time read are popped ------------------------ *)
Lemma app_pop_due : forall s t k s', astep s (APop t k) = Some s' ->
  exists now acc h r, a_norm (a_q s) (a_pc s) = ACollect now acc /\ a_q s = h :: r /\ a_q s' = r /\
    itask h = k /\ t == itime h /\ itime h <= now /\ a_pc s' = ACollect now (acc ++ [h]).
Proof.
  intros s t k s' HS.
  destruct s as [v q n p rn nt ow fl la]. simpl in *.
  destruct p, q; simpl in HS; try discriminate HS; astep_cases HS; simpl.
  all: repeat match goal with E : _ && _ = true |- _ => apply andb_true_iff in E; destruct E end.
  all: try match goal with E : (if ?c then _ else _) = _ |- _ =>
         destruct c eqn:?; [inversion E; subst | destruct acc; discriminate E] end.
  all: repeat match goal with
       | E : Qeq_bool _ _ = true |- _ => apply Qeq_bool_true in E
       | E : Z.eqb _ _ = true |- _ => apply Z.eqb_eq in E; subst
       | E : Qle_bool _ _ = true |- _ => apply Qle_bool_iff in E
       end.
  all: eexists; eexists; eexists; eexists; repeat split; eauto.
Qed.

(* ---- drifting re-schedule: relative to the physical present ---------------------------------------- *)
(* ANotify / AStop of other threads (under _tick_cond) may interleave with the tick; apart from
   them, a numeric result d is followed by a time read t' and by add(t' + d). *)
Definition tick_lock_event (e : aevent) : Prop := e = ANotify \/ e = AStop.

Lemma app_resched_1 : forall s k d s1, astep s (AAwakeEnd k (RDelta d)) = Some s1 ->
  exists now todo, a_pc s1 = AReaddT now d k todo /\ a_q s1 = a_q s /\ a_n s1 = a_n s.
Proof.
  intros s k d s1 H1.
  destruct s as [v q n p rn nt ow fl la]. simpl in *.
  destruct p; simpl in H1; try discriminate H1; astep_cases H1; simpl.
  all: repeat match goal with E : Z.eqb _ _ = true |- _ => apply Z.eqb_eq in E; subst end.
  all: eexists; eexists; repeat split; eauto.
Qed.

Lemma app_resched_2 : forall s now d k todo e s',
  a_pc s = AReaddT now d k todo -> astep s e = Some s' ->
  (tick_lock_event e /\ a_pc s' = a_pc s /\ a_q s' = a_q s /\ a_n s' = a_n s) \/
  (exists t', e = ATime t' /\ a_last s <= t' /\ a_pc s' = AReadd now (t' + d) k todo /\
              a_q s' = a_q s /\ a_n s' = a_n s).
Proof.
  intros s now d k todo e s' Hpc HS.
  destruct s as [v q n p rn nt ow fl la]. simpl in *. subst p.
  destruct e; simpl in HS; try discriminate HS; astep_cases HS; simpl.
  all: repeat match goal with E : Qle_bool _ _ = true |- _ => apply Qle_bool_iff in E end.
  all: try (left; unfold tick_lock_event; repeat split; auto; fail).
  all: try (right; eexists; repeat split; eauto; fail).
Qed.

Lemma app_resched_3 : forall s now tm k todo e s',
  a_pc s = AReadd now tm k todo -> astep s e = Some s' ->
  (tick_lock_event e /\ a_pc s' = a_pc s /\ a_q s' = a_q s /\ a_n s' = a_n s) \/
  (exists t'', e = AAdd t'' k /\ t'' == tm /\ a_q s' = q_add tm k (a_q s) (a_n s)).
Proof.
  intros s now tm k todo e s' Hpc HS.
  destruct s as [v q n p rn nt ow fl la]. simpl in *. subst p.
  destruct e; simpl in HS; try discriminate HS; astep_cases HS; simpl.
  all: repeat match goal with E : _ && _ = true |- _ => apply andb_true_iff in E; destruct E end.
  all: repeat match goal with
       | E : Qeq_bool _ _ = true |- _ => apply Qeq_bool_true in E
       | E : Z.eqb _ _ = true |- _ => apply Z.eqb_eq in E; subst
       end.
  all: try (left; unfold tick_lock_event; repeat split; auto; fail).
  all: try (right; eexists; repeat split; eauto; fail).
Qed.

(* ---- an exception is swallowed ----------------------------------------------------------------------- *)
Lemma app_raise_is_other : forall s k, astep s (AAwakeEnd k RRaise) = astep s (AAwakeEnd k ROther).
Proof. intros. reflexivity. Qed.

(* ---- clear empties the queue pop by pop; what is popped by a tick is woken in pop order -------------- *)
Lemma app_tick_wakes_in_pop_order : forall s k r s', astep s (AAwakeEnd k r) = Some s' ->
  exists now x todo, a_norm (a_q s) (a_pc s) = AAwk now x todo /\ itask x = k.
Proof.
  intros s k r s' HS.
  destruct s as [v q n p rn nt ow fl la]. simpl in *.
  destruct p; simpl in HS; try discriminate HS; astep_cases HS; simpl.
  all: repeat match goal with
       | E : Z.eqb _ _ = true |- _ => apply Z.eqb_eq in E; subst
       end.
  all: eexists; eexists; eexists; split; eauto.
Qed.

(* ---- order on AppClock: a tick pops (time, seq)-minima, collects them in pop order and wakes them
        in that order ------------------------------------------------------------------------------- *)
Lemma app_sorted_run : forall v evs s, arun (ainit v) evs = Some s -> sorted ikey (a_q s).
Proof.
  intros v evs s HR.
  destruct (arun_invariant jinv jinv_step evs (ainit v) s (jinv_init v) HR) as [S _]. exact S.
Qed.

Lemma app_pop_minimum : forall v evs s t k s',
  arun (ainit v) evs = Some s -> astep s (APop t k) = Some s' ->
  exists now acc h, a_q s = h :: a_q s' /\ itask h = k /\ t == itime h /\ itime h <= now /\
    a_pc s' = ACollect now (acc ++ [h]) /\
    forall x, In x (a_q s') -> ~ klt (ikey x) (ikey h).
Proof.
  intros v evs s t k s' HR HS.
  pose proof (app_sorted_run v evs s HR) as S.
  destruct (app_pop_due s t k s' HS) as [now [acc [h [r [_ [Hq [Hq' [Hk [Ht [Hle Hpc]]]]]]]]]].
  exists now, acc, h. rewrite Hq'. repeat split; try assumption.
  intros x Hx. rewrite Hq in S. apply (sorted_head_le _ ikey h r x S Hx).
Qed.

(* when the collecting ends the first collected item is woken, the others wait in collection order;
   after a wake-up that does not re-schedule the next collected item is woken *)
Lemma app_wake_order : forall s k r s',
  astep s (AAwakeEnd k r) = Some s' ->
  exists now x todo, a_norm (a_q s) (a_pc s) = AAwk now x todo /\ itask x = k /\
    match r with
    | RDelta d => a_pc s' = AReaddT now d k todo
    | _ => a_pc s' = match todo with [] => ATickDone now | y :: rest => AAwk now y rest end
    end.
Proof.
  intros s k r s' HS.
  destruct s as [v q n p rn nt ow fl la]. simpl in *.
  destruct p; simpl in HS; try discriminate HS; astep_cases HS; simpl.
  all: repeat match goal with E : Z.eqb _ _ = true |- _ => apply Z.eqb_eq in E; subst end.
  all: eexists; eexists; eexists; split; [eauto |]; split; [reflexivity |]; reflexivity.
Qed.

Lemma app_collect_to_wake : forall l now x todo,
  a_norm l (ACollect now (x :: todo)) = AAwk now x todo \/
  a_norm l (ACollect now (x :: todo)) = ACollect now (x :: todo).
Proof.
  intros l now x todo. unfold a_norm. destruct l as [| h r]; simpl; [left; reflexivity |].
  destruct (Qle_bool (itime h) now); [right | left]; reflexivity.
Qed.

(* ---- clear / stop on AppClock ----------------------------------------------------------------------- *)
Lemma app_clear_pops_head : forall s t k s', astep s (AClearPop t k) = Some s' ->
  exists h, a_q s = h :: a_q s' /\ itask h = k /\ t == itime h.
Proof.
  intros s t k s' HS.
  destruct s as [v q n p rn nt ow fl la]. simpl in *.
  destruct p, q; simpl in HS; try discriminate HS; astep_cases HS; simpl.
  all: repeat match goal with E : _ && _ = true |- _ => apply andb_true_iff in E; destruct E end.
  all: repeat match goal with
       | E : Qeq_bool _ _ = true |- _ => apply Qeq_bool_true in E
       | E : Z.eqb _ _ = true |- _ => apply Z.eqb_eq in E; subst
       end.
  all: eexists; repeat split; eauto.
Qed.

Lemma app_stop_sets_flag : forall s s', astep s AStop = Some s' -> a_run s' = false.
Proof.
  intros s s' HS. destruct s as [v q n p rn nt ow fl la]. simpl in *.
  destruct p; simpl in HS; try discriminate HS; astep_cases HS; reflexivity.
Qed.

Lemma app_run_stays_false : forall s e s', a_run s = false -> astep s e = Some s' -> a_run s' = false.
Proof.
  intros s e s' HI HS. destruct s as [v q n p rn nt ow fl la]. simpl in *. subst rn.
  destruct e, p; simpl in HS; try discriminate HS; astep_cases HS; reflexivity.
Qed.

(* once stopped the thread never starts a wait again: at its next pass through the second block it returns *)
Lemma app_stopped_no_wait : forall s to, a_run s = false -> astep s (AWaitBegin to) = None.
Proof.
  intros s to HI. destruct s as [v q n p rn nt ow fl la]. simpl in *. subst rn.
  unfold astep. simpl. destruct p; simpl; try reflexivity.
  all: try (destruct (match q with [] => false | h :: _ => Qle_bool (itime h) now end); try reflexivity;
            destruct acc; reflexivity).
Qed.

Lemma app_stopped_exits : forall s s', a_run s = false -> astep s ACondExit = Some s' ->
  a_pc s' = AExited \/ a_pc s' = APre.
Proof.
  intros s s' HI HS. destruct s as [v q n p rn nt ow fl la]. simpl in *. subst rn.
  destruct p; simpl in HS; try discriminate HS; astep_cases HS; simpl; auto.
Qed.
