(* C01_cov.v -- inputs that are not UGen instances (the FFT chain) are width-first antecedents of their
   reader, and the antecedents of an input are antecedents of its reader: true after the graph function
   (C01_built.Built_covered), preserved by every step of the optimiser, hence true of the optimised graph. *)
From Coq Require Import ZArith QArith List String Bool Arith Lia Setoid Permutation.
Import ListNotations.
Require Import SC3.model.Graph SC3.gen.Gen_opcodes SC3.proofs.C01_inv SC3.proofs.C01_inv2 SC3.proofs.C01_inv3
               SC3.proofs.C01_pass SC3.proofs.C01_built SC3.proofs.C01_init SC3.proofs.C01_opt.
Open Scope string_scope.
Open Scope nat_scope.
Open Scope list_scope.

Definition wl (U : unit) : list nat := match wfa U with Some l => l | None => [] end.
Definition CovInv (s : st) : Prop :=
  forall c C v ch V, liv s c -> get_unit s c = Some C -> In (O v ch) (ins C) -> get_unit s v = Some V ->
  (isugen V = false -> In v (wl C)) /\ incl (wl V) (wl C).

Lemma same_meta_wl : forall X X', same_meta X X' -> wl X' = wl X /\ isugen X' = isugen X.
Proof. intros X X' (_ & _ & _ & A & _ & B & _). unfold wl. rewrite A. auto. Qed.

Lemma astep_cov : forall x y, astep x y -> CovInv (fst x) -> CovInv (fst y).
Proof.
  intros x y H W. destruct H; simpl in *; auto.
  - (* remove *)
    destruct (I_dying s D H u H0) as (Lu & (U & GU & _ & PU) & _).
    destruct (remove_ugen_eq s D u U H Lu GU) as [Heq _].
    pose proof (liv_after_remove s D u U) as Hl.
    intros c C v ch V Lc GC Hin GV. apply Hl in Lc; auto. destruct Lc as [Lc Nc]. rewrite Heq in GC, GV.
    exact (W c C v ch V Lc GC Hin GV).
  - (* rewrite *)
    destruct H4 as [a UA R HA La Na TA Hra Hone HuR TR OkR In1 In2 In3 RV RC].
    assert (Hold : forall x X, get_unit s x = Some X -> exists X', get_unit s' x = Some X' /\ same_meta X X' /\
              (forall v ch, In (O v ch) (ins X') -> (v <> List.length (units s) /\ In (O v ch) (ins X)) \/
                                                     (v = List.length (units s) /\ In (O self ch) (ins X)))).
    { intros x X G. destruct (rw_get_old s D self a Self UA R s' H RV x X G) as (X' & A & B & _ & Hi).
      exists X'. split; auto. split; auto. intros v ch Hv. apply Hi in Hv.
      destruct Hv as [(_ & [(N & I)|(E & I)])|(_ & I)]; auto.
      - left. split; auto. intro E. subst v. pose proof (I_ins s D H x X _ ch G I). lia.
      - left. split; auto. intro E. subst v. pose proof (I_ins s D H x X _ ch G I). lia. }
    assert (Hliv : forall x, liv s' x <-> x = List.length (units s) \/ (liv s x /\ x <> a /\ x <> self)).
    { intro x. eapply (rw_liv' s D self a Self UA R s'); eauto. }
    assert (Hnew : get_unit s' (List.length (units s)) = Some (set_place R (wfa Self) (sidx Self) (dref Self))) by exact (V_new _ _ _ _ _ _ _ _ RV).
    assert (Hlen : forall v V, get_unit s v = Some V -> v <> List.length (units s)).
    { intros v V G E. apply get_lt in G. lia. }
    destruct Hra as [cha Hra].
    destruct (W self Self a cha UA H1 H0 Hra HA) as [_ IncA].
    (* values seen through an old unit are unchanged *)
    assert (Hback : forall v V', v <> List.length (units s) -> get_unit s' v = Some V' ->
              exists V, get_unit s v = Some V /\ wl V' = wl V /\ isugen V' = isugen V).
    { intros v V' Nv GV'. destruct (get_unit s v) as [V|] eqn:GV.
      - destruct (Hold v V GV) as (V2 & G2 & SM & _). rewrite GV' in G2. injection G2 as <-.
        exists V. split; auto. apply same_meta_wl; auto.
      - exfalso. apply get_lt in GV'. rewrite (V_len _ _ _ _ _ _ _ _ RV) in GV'.
        assert (Hvlt : v < List.length (units s)) by lia. destruct (get_some s v Hvlt) as [V GV2]. congruence. }
    intros c C' v ch V' Lc GC' Hin GV'. apply Hliv in Lc. destruct Lc as [->|(Lc & N1 & N2)].
    + (* the new unit *)
      rewrite Hnew in GC'. injection GC' as <-. cbn [ins set_place] in Hin.
      assert (Ewl : wl (set_place R (wfa Self) (sidx Self) (dref Self)) = wl Self) by reflexivity. rewrite Ewl.
      assert (Nv : v <> List.length (units s)).
      { destruct (In1 v ch Hin) as [I|[I _]].
        - pose proof (I_ins s D H a UA v ch HA I). lia.
        - pose proof (I_ins s D H self Self v ch H0 I). lia. }
      destruct (Hback v V' Nv GV') as (V & GV & E1 & E2). rewrite E1, E2.
      destruct (In1 v ch Hin) as [I|[I _]].
      * destruct (W a UA v ch V La HA I GV) as [A1 A2]. split.
        -- intro Iu. apply IncA. auto.
        -- intros z Hz. apply IncA. apply A2. auto.
      * exact (W self Self v ch V H1 H0 I GV).
    + destruct (liv_get s D c H Lc) as (C & r & GC & _). destruct (Hold c C GC) as (C2 & G2 & SM & Hi).
      rewrite GC' in G2. injection G2 as <-. destruct (same_meta_wl C C' SM) as [EC _]. rewrite EC.
      destruct (Hi v ch Hin) as [(Nv & I)|(-> & I)].
      * destruct (Hback v V' Nv GV') as (V & GV & E1 & E2). rewrite E1, E2. exact (W c C v ch V Lc GC I GV).
      * rewrite Hnew in GV'. injection GV' as <-. cbn [isugen set_place].
        assert (Ewl : wl (set_place R (wfa Self) (sidx Self) (dref Self)) = wl Self) by reflexivity. rewrite Ewl.
        destruct (W c C self ch Self Lc GC I H0) as [_ A2]. split; auto.
        intro Iu. unfold tracked in TR. rewrite Iu in TR. discriminate.
Qed.
Lemma asteps_cov : forall x y, asteps x y -> CovInv (fst x) -> CovInv (fst y).
Proof. intros x y H. induction H; auto. intro. apply IHasteps. eapply astep_cov; eauto. Qed.

Lemma Built_cov_inv : forall s s0 ante, Built s -> InitSpec s s0 ante -> CovInv (with_rewriting s0 true).
Proof.
  intros s s0 ante B IS c C' v ch V' Lc GC' Hin GV'.
  assert (G0 : get_unit s0 c = Some C') by exact GC'. assert (G1 : get_unit s0 v = Some V') by exact GV'.
  rewrite (IS_get _ _ _ IS) in G0, G1.
  destruct (get_unit s c) as [C|] eqn:GC; [|discriminate]. destruct (get_unit s v) as [V|] eqn:GV; [|discriminate].
  assert (EC : wl C' = wl C /\ ins C' = ins C).
  { injection G0 as <-. destruct (pos c (live s)); auto. }
  assert (EV : wl V' = wl V /\ isugen V' = isugen V).
  { injection G1 as <-. destruct (pos v (live s)); auto. }
  destruct EC as [E1 E2]. destruct EV as [E3 E4]. rewrite E1, E3, E4. rewrite E2 in Hin.
  destruct (Built_covered s c C v ch V B GC Hin GV) as (w & wv & Hw & Hwv & A1 & A2).
  unfold wl. rewrite Hw, Hwv. auto.
Qed.

Lemma Reindexed_covered : forall s2 s', CovInv s2 -> Reindexed s2 s' ->
  forall c C v ch V, In c (live s') -> get_unit s' c = Some C -> In (O v ch) (ins C) -> get_unit s' v = Some V ->
  isugen V = false -> In v (match wfa C with Some l => l | None => [] end).
Proof.
  intros s2 s' W (Hl & _ & _ & _ & Hg) c C v ch V Lc GC Hin GV Iu.
  rewrite Hl in Lc. apply live_In in Lc.
  destruct (Hg c) as [i Hi]. destruct (Hg v) as [j Hj]. rewrite GC in Hi. rewrite GV in Hj.
  destruct (get_unit s2 c) as [C2|] eqn:G2; [|discriminate]. destruct (get_unit s2 v) as [V2|] eqn:G3; [|discriminate].
  injection Hi as ->. injection Hj as ->. cbn [ins set_sidx set_place] in Hin. cbn [isugen set_sidx set_place] in Iu.
  destruct (W c C2 v ch V2 Lc G2 Hin G3) as [A _]. exact (A Iu).
Qed.

(* every input that is not a UGen object (FFT-like chains) is one of the unit's width-first antecedents *)
Definition Covered (s : st) : Prop :=
  forall c C v ch V, In c (live s) -> get_unit s c = Some C -> In (O v ch) (ins C) -> get_unit s v = Some V ->
  isugen V = false -> In v (match wfa C with Some l => l | None => [] end).
Lemma Reindexed_Covered : forall s2 s', CovInv s2 -> Reindexed s2 s' -> Covered s'.
Proof. intros s2 s' W R. exact (Reindexed_covered s2 s' W R). Qed.
