(* C02_link -- the compiler model's output is topologically ordered and refers only to collected
   constants, for EVERY program it compiles: graph_order_ok (model/GraphScgf.v) from build-C01's
   theorems (compile_total / Compiled: the sorted children, the unit objects after the sort, Before,
   Covered).  Graph.v and the C01 proofs are imported, nothing in them is changed. *)
From Coq Require Import ZArith QArith List String Bool Arith Lia Setoid Permutation.
Import ListNotations.
Require Import SC3.model.Graph SC3.gen.Gen_opcodes.
Require Import SC3.proofs.C01_inv SC3.proofs.C01_init SC3.proofs.C01_built SC3.proofs.C01_opt SC3.proofs.C01_topo
               SC3.proofs.C01_topo2 SC3.proofs.C01_cov SC3.proofs.C01_compile SC3.proofs.C01_sem2.
Require SC3.model.Scgf SC3.model.GraphScgf.
Open Scope nat_scope.
Open Scope list_scope.

(* ------------------------------------------------------------------ constants *)
Definition has (q : Q) (l : list Q) : Prop := exists x, In x l /\ Qeq_bool x q = true.

Lemma Qeq_bool_sym : forall a b, Qeq_bool a b = true -> Qeq_bool b a = true.
Proof. intros a b H. apply Qeq_bool_iff. apply Qeq_bool_iff in H. symmetry. exact H. Qed.

Lemma has_const_add_keep : forall q q' l, has q l -> has q (const_add q' l).
Proof.
  intros q q' l (x & Hx & E). unfold const_add. destruct (existsb (Qeq_bool q') l); [exists x; auto|].
  exists x. split; [apply in_or_app; left; exact Hx | exact E].
Qed.
Lemma has_const_add_new : forall q l, has q (const_add q l).
Proof.
  intros q l. unfold const_add. destruct (existsb (Qeq_bool q) l) eqn:E.
  - apply existsb_exists in E. destruct E as (x & Hx & Ex). exists x. split; [exact Hx | apply Qeq_bool_sym; exact Ex].
  - exists q. split; [apply in_or_app; right; left; reflexivity | apply Qeq_bool_iff; reflexivity].
Qed.

Definition addk (a : list Q) (i : inp) : list Q := match i with K q => const_add q a | _ => a end.

Lemma inner_keep : forall q ins acc, has q acc -> has q (fold_left addk ins acc).
Proof.
  intros q ins; induction ins as [|i r IH]; intros acc H; simpl; [exact H|].
  apply IH. destruct i as [q'|v ch]; simpl; [apply has_const_add_keep; exact H | exact H].
Qed.
Lemma inner_new : forall q ins acc, In (K q) ins -> has q (fold_left addk ins acc).
Proof.
  intros q ins; induction ins as [|i r IH]; intros acc H; simpl; [destruct H|].
  destruct H as [H|H].
  - subst i. simpl. apply inner_keep. apply has_const_add_new.
  - apply IH. exact H.
Qed.

Definition outer (s : st) (acc : list Q) (u : nat) : list Q :=
  match get_unit s u with Some U => fold_left addk (ins U) acc | None => acc end.

Lemma collect_constants_eq : forall s, collect_constants s = fold_left (outer s) (live s) [].
Proof. reflexivity. Qed.

Lemma outer_keep : forall s q l acc, has q acc -> has q (fold_left (outer s) l acc).
Proof.
  intros s q l; induction l as [|u r IH]; intros acc H; simpl; [exact H|].
  apply IH. unfold outer. destruct (get_unit s u); [apply inner_keep; exact H | exact H].
Qed.
Lemma outer_new : forall s q l acc c C, In c l -> get_unit s c = Some C -> In (K q) (ins C) ->
  has q (fold_left (outer s) l acc).
Proof.
  intros s q l; induction l as [|u r IH]; intros acc c C Hc GC Hin; simpl; [destruct Hc|].
  destruct Hc as [Hc|Hc].
  - subst u. apply outer_keep. unfold outer. rewrite GC. apply inner_new. exact Hin.
  - eapply IH; eauto.
Qed.

Lemma collected : forall s c C q, In c (live s) -> get_unit s c = Some C -> In (K q) (ins C) ->
  has q (collect_constants s).
Proof. intros s c C q Hc GC Hin. rewrite collect_constants_eq. eapply outer_new; eauto. Qed.

Lemma has_const_index : forall q l i, has q l -> GraphScgf.const_index_from q l i <> None.
Proof.
  intros q l; induction l as [|x r IH]; intros i (y & Hy & E); [destruct Hy|].
  simpl. destruct (Qeq_bool x q) eqn:Ex; [discriminate|].
  destruct Hy as [Hy|Hy]; [subst y; congruence|]. apply IH. exists y. auto.
Qed.

(* ------------------------------------------------------------------ the emitted unit list *)
Section Emitted.
Variable s3 : st.
Variable out : list nat.
Variable G : nat -> unit.
Variable consts : list Q.
Hypothesis Hnd : NoDup out.
Hypothesis Hkey : forall v j, pos v out = Some j -> key_of s3 v = Z.of_nat j.
Hypothesis Hbefore : forall c v ch i, pos c out = Some i -> In (O v ch) (ins (G c)) -> exists j, pos v out = Some j /\ j < i.
Hypothesis Hconst : forall c q, In c out -> In (K q) (ins (G c)) -> has q consts.

Lemma order_fold : forall post pre, out = pre ++ post ->
  GraphScgf.gunits_order consts (Z.of_nat (List.length pre)) (map (fun u => gu s3 (G u)) post) = true.
Proof.
  induction post as [|c x IH]; intros pre E; [reflexivity|].
  cbn [map GraphScgf.gunits_order]. apply andb_true_iff. split.
  - unfold gu. cbn [g_ins]. apply forallb_forall. intros gi Hgi. apply in_map_iff in Hgi.
    destruct Hgi as (i & <- & Hi).
    assert (Hc : pos c out = Some (List.length pre)).
    { rewrite E. apply pos_app_new. rewrite E in Hnd. apply NoDup_remove_2 in Hnd. intro H. apply Hnd. apply in_or_app; auto. }
    destruct i as [q|v ch]; simpl.
    + assert (Hin : In c out) by (rewrite E; apply in_or_app; right; left; reflexivity).
      pose proof (has_const_index q consts 0%Z (Hconst c q Hin Hi)) as Hn.
      unfold GraphScgf.const_index. destruct (GraphScgf.const_index_from q consts 0); [reflexivity | congruence].
    + destruct (Hbefore c v ch _ Hc Hi) as (j & Pj & Lt). rewrite (Hkey v j Pj).
      apply andb_true_iff. split; [apply Z.leb_le | apply Z.ltb_lt]; lia.
  - replace (Z.of_nat (List.length pre) + 1)%Z with (Z.of_nat (List.length (pre ++ [c])))
      by (rewrite app_length; simpl; lia).
    apply IH. rewrite E, <- app_assoc. reflexivity.
Qed.
End Emitted.

(* ------------------------------------------------------------------ from C01's Compiled *)
Lemma compiled_order : forall p s1 s2f s3 s2 out g, Compiled p s1 s2f s3 s2 out g ->
  GraphScgf.graph_order_ok g = true.
Proof.
  intros p s1 s2f s3 s2 out g [Hb B HI2 R [rho Op] (C3 & P3 & B3) U3 -> _ Cov _ _].
  destruct Op as [Orw Ouid [Och Ond] Ounit Oins Owfa].
  assert (Hnd : NoDup out) by (eapply Permutation_NoDup; [symmetry; exact P3 | exact Ond]).
  assert (Hin_out : forall u, In u out <-> In u (live s2f)).
  { intro u. split; intro H; [eapply Permutation_in; eauto | eapply Permutation_in; [symmetry|]; eauto]. }
  set (dflt := mkU 0 "" Scalar [] 0 0%Z "" KPlain false false false false ChkValid None 0%Z None 0).
  set (G := fun u => match get_unit s3 u with Some U => U | None => dflt end).
  assert (HG : forall u, In u out -> exists C, get_unit s2f u = Some C /\ get_unit s3 u = Some (G u) /\
               ins (G u) = ins C /\ sidx (G u) = Z.of_nat (match pos u out with Some i => i | None => 0 end)).
  { intros u Hu. pose proof Hu as Hl. apply Hin_out in Hl. destruct (Ounit u Hl) as (C & GC & _).
    pose proof (U3 u) as H3. rewrite GC in H3. apply pos_In in Hu. destruct Hu as [k Hk]. rewrite Hk in H3.
    exists C. unfold G. rewrite H3, Hk.
    repeat split; auto; try (destruct (pos u (live s2f)); reflexivity). }
  assert (Hkey : forall v j, pos v out = Some j -> key_of s3 v = Z.of_nat j).
  { intros v j Pj. assert (Hv : In v out) by (apply pos_In; eauto). destruct (HG v Hv) as (C & _ & G3 & _ & Hs).
    unfold key_of. rewrite G3, Hs, Pj. reflexivity. }
  assert (Hbefore : forall c v ch i, pos c out = Some i -> In (O v ch) (ins (G c)) -> exists j, pos v out = Some j /\ j < i).
  { intros c v ch i Pc Hin. assert (Hc : In c out) by (apply pos_In; eauto).
    destruct (HG c Hc) as (C & GC & _ & Ei & _). rewrite Ei in Hin.
    assert (Lc : In c (live s2f)) by (apply Hin_out; auto).
    destruct (Oins c C v ch Lc GC Hin) as (Lv & _ & _).
    destruct (Ounit v Lv) as (V0 & GV & _).
    assert (Hsrc : In v (SrcOf s2f c)).
    { unfold SrcOf. rewrite GC. unfold srcs. apply in_or_app. destruct (isugen V0) eqn:Ei0.
      - left. apply input_sources_In. exists ch, V0. auto.
      - right. exact (Cov c C v ch V0 Lc GC Hin GV Ei0). }
    destruct (Before_pos out v c Hnd (B3 c v Lc Hsrc)) as (i' & j & Pi & Pj & Lt). rewrite Pc in Pi. injection Pi as <-. eauto. }
  assert (Hconst : forall c q, In c out -> In (K q) (ins (G c)) -> has q (collect_constants s2f)).
  { intros c q Hc Hin. destruct (HG c Hc) as (C & GC & _ & Ei & _). rewrite Ei in Hin.
    eapply collected; eauto. apply Hin_out; auto. }
  assert (Hget : forall u, In u out -> get_unit s3 u = Some (G u)) by (intros u Hu; destruct (HG u Hu) as (C & _ & H3 & _); auto).
  assert (Hl3 : live s3 = out) by (apply live_map_some; auto).
  assert (Hunits : gr_units (emit s3 (collect_constants s2f)) = map (fun u => gu s3 (G u)) out).
  { unfold emit. cbn [gr_units]. rewrite Hl3. clear -Hget. induction out as [|u t IH]; simpl; auto.
    rewrite (Hget u (or_introl eq_refl)). simpl. f_equal. apply IH. intros x Hx. apply Hget. right; auto. }
  unfold GraphScgf.graph_order_ok. rewrite Hunits. cbn [gr_consts emit].
  exact (order_fold s3 out G (collect_constants s2f) Hnd Hkey Hbefore Hconst out [] eq_refl).
Qed.

(* the regenerated flags describe the code C01's proofs are about (discard, liveness guard, `a is b`
   guard); on another tree this stops checking, as in props/C01.v *)
Lemma optimiser_flags : dce_strict = false /\ dce_guard = true /\ sub_guard = true.
Proof. repeat split; reflexivity. Qed.

(* every program the compiler model compiles (with the regenerated flags = the code of the tree) *)
Lemma compile_order_l : forall p g, compile T dce_strict dce_guard sub_guard p = Ok g ->
  GraphScgf.graph_order_ok g = true.
Proof.
  intros p g H. destruct optimiser_flags as (E1 & E2 & E3). rewrite E1, E2, E3 in H.
  unfold compile in H. destruct (compile_flag T false true true p) as [[g0 ok0]|e] eqn:Ecf; [|discriminate].
  simpl in H. injection H as <-.
  pose proof Ecf as Ecf0. unfold compile_flag in Ecf.
  destruct (build_graph T p) as [s1|e] eqn:Hb; [|discriminate]. cbn [bind] in Ecf.
  destruct (optimize T false true true s1) as [[s2f ok]|e] eqn:Eo; [|discriminate]. cbn [bind] in Ecf.
  destruct (negb (check_inputs s2f)) eqn:Eck; [discriminate|].
  assert (Hc : forall s2 ok', optimize T false true true s1 = Ok (s2, ok') -> check_inputs s2 = true).
  { intros s2 ok' E. rewrite Eo in E. injection E as <- <-. apply negb_false_iff. exact Eck. }
  destruct (compile_total p s1 Hb Hc) as (g' & ok' & s2f' & s3 & s2 & out & E & C).
  rewrite Ecf0 in E. injection E as <- <-.
  exact (compiled_order _ _ _ _ _ _ _ C).
Qed.

Require SC3.proofs.C02_bridge.

(* hence: a compiled program whose graph passes the two decidable checks is written and parses back *)
Lemma compile_roundtrip_l : forall f32 name pnames p g,
  (forall q, Scgf.w32_ok (f32 q) = true) ->
  compile T dce_strict dce_guard sub_guard p = Ok g ->
  GraphScgf.graph_local_ok g = true ->
  GraphScgf.graph_small g = true ->
  GraphScgf.names_ok name pnames (Scgf.zlen (gr_controls g)) = true ->
  exists d bs, GraphScgf.to_sdef f32 name pnames g = Some d /\ Scgf.wf_def d = true
               /\ Scgf.write_def d = Some bs /\ Scgf.parse_def bs = Scgf.Ok d.
Proof.
  intros f32 name pnames p g Hf Hc Hl Hs Hn.
  apply C02_bridge.to_sdef_roundtrip_l; try assumption.
  apply C02_bridge.graph_core_small_ok; [|exact Hs].
  apply C02_bridge.graph_order_local_core; [exact (compile_order_l p g Hc) | exact Hl].
Qed.
