(* C01_init.v -- SynthDef._init_topo_sort (init_topo): fresh descendant / antecedent sets for every child,
   filled from the inputs (through proxies) and the width-first antecedents.  Used twice: at the start of
   _optimize_graph (it establishes the invariant of C01_inv.v) and at the start of _topological_sort. *)
From Coq Require Import ZArith QArith List String Bool Arith Lia Setoid Permutation.
Import ListNotations.
Require Import SC3.model.Graph SC3.proofs.C01_inv.
Open Scope string_scope.
Open Scope nat_scope.
Open Scope list_scope.

Fixpoint pos (u : nat) (l : list nat) : option nat :=
  match l with
  | [] => None
  | x :: t => if Nat.eqb u x then Some 0 else match pos u t with Some i => Some (S i) | None => None end
  end.
Lemma pos_In : forall u l, In u l <-> exists i, pos u l = Some i.
Proof.
  intros u l. induction l as [|x t IH]; simpl.
  - split; [tauto|]. intros [i H]; discriminate.
  - destruct (Nat.eqb u x) eqn:E.
    + apply Nat.eqb_eq in E. subst. split; eauto.
    + apply Nat.eqb_neq in E. rewrite IH. split.
      * intros [H|[i H]]; [congruence|]. rewrite H. eauto.
      * intros [i H]. right. destruct (pos u t); [eauto|discriminate].
Qed.
Lemma pos_lt : forall u l i, pos u l = Some i -> i < List.length l.
Proof.
  intros u l. induction l as [|x t IH]; intros i H; simpl in *; [discriminate|].
  destruct (Nat.eqb u x); [injection H as <-; lia|]. destruct (pos u t) eqn:E; [|discriminate]. injection H as <-.
  specialize (IH n eq_refl). lia.
Qed.
Lemma pos_inj : forall u v l i, pos u l = Some i -> pos v l = Some i -> u = v.
Proof.
  intros u v l. induction l as [|x t IH]; intros i Hu Hv; simpl in *; [discriminate|].
  destruct (Nat.eqb u x) eqn:Eu, (Nat.eqb v x) eqn:Ev.
  - apply Nat.eqb_eq in Eu, Ev. congruence.
  - injection Hu as <-. destruct (pos v t); discriminate.
  - injection Hv as <-. destruct (pos u t); discriminate.
  - destruct (pos u t) eqn:E1, (pos v t) eqn:E2; try discriminate. injection Hu as <-. injection Hv as E. subst. eauto.
Qed.

Definition fs_step (s0 : st) (u : nat) : st :=
  match get_unit s0 u with
  | Some U => let '(s1, r) := new_set s0 in put_unit s1 (set_dref U (Some r))
  | None => s0 end.

Lemma fresh_fold_spec : forall l s, uid_ok s -> NoDup l -> (forall u, In u l -> exists U, get_unit s u = Some U) ->
  let s0 := fold_left fs_step l s in
  uid_ok s0 /\ children s0 = children s /\ rewriting s0 = rewriting s /\ wfugens s0 = wfugens s /\
  List.length (units s0) = List.length (units s) /\
  sets s0 = sets s ++ repeat [] (List.length l) /\
  forall u, get_unit s0 u = match get_unit s u with
                            | Some U => Some (match pos u l with
                                              | Some i => set_dref U (Some (List.length (sets s) + i))
                                              | None => U end)
                            | None => None end.
Proof.
  induction l as [|x t IH]; intros s Hu Hnd Hex; simpl.
  - rewrite app_nil_r. repeat split; auto. intro u. destruct (get_unit s u); auto.
  - inversion Hnd as [|? ? Hnot Hnd']; subst.
    destruct (Hex x (or_introl eq_refl)) as [X GX].
    set (s1 := fs_step s x).
    assert (E1 : s1 = put_unit (with_sets s (sets s ++ [[]])) (set_dref X (Some (List.length (sets s))))).
    { unfold s1, fs_step. rewrite GX. reflexivity. }
    pose proof (Hu x X GX) as HidX.
    assert (Hid' : uid (set_dref X (Some (List.length (sets s)))) = x) by (simpl; auto).
    assert (G1 : forall u, get_unit s1 u = if Nat.eqb u x then Some (set_dref X (Some (List.length (sets s)))) else get_unit s u).
    { intro u. rewrite E1. destruct (Nat.eqb u x) eqn:E.
      - apply Nat.eqb_eq in E. subst u. pose proof (get_put_same (with_sets s (sets s ++ [[]])) (set_dref X (Some (List.length (sets s))))) as Hp.
        rewrite Hid' in Hp. apply Hp. simpl. eapply get_lt; eauto.
      - apply Nat.eqb_neq in E. rewrite get_put_other by (rewrite Hid'; auto). reflexivity. }
    assert (U1 : uid_ok s1).
    { intros u U G. rewrite G1 in G. destruct (Nat.eqb u x) eqn:E.
      - apply Nat.eqb_eq in E. subst. injection G as <-. auto.
      - apply Hu; auto. }
    assert (Hex1 : forall u, In u t -> exists U, get_unit s1 u = Some U).
    { intros u Hin. rewrite G1. destruct (Nat.eqb u x); eauto. apply Hex. right; auto. }
    destruct (IH s1 U1 Hnd' Hex1) as (A & B & C & D & E & F & G).
    fold s1. split; [exact A|]. split; [rewrite B, E1; reflexivity|]. split; [rewrite C, E1; reflexivity|].
    split; [rewrite D, E1; reflexivity|]. split; [rewrite E, E1, units_put_length; reflexivity|].
    assert (S1 : sets s1 = sets s ++ [[]]) by (rewrite E1; reflexivity).
    split.
    + rewrite F, S1, <- app_assoc. reflexivity.
    + intro u. rewrite G, G1, S1, app_length. simpl.
      destruct (Nat.eqb u x) eqn:Eux.
      * apply Nat.eqb_eq in Eux. subst u. rewrite GX.
        assert (pos x t = None). { destruct (pos x t) eqn:P; auto. exfalso. apply Hnot. apply pos_In. eauto. }
        rewrite H. rewrite Nat.add_0_r. reflexivity.
      * destruct (get_unit s u); auto. destruct (pos u t); auto.
        f_equal. f_equal. f_equal. lia.
Qed.

(* ---- filling the sets *)
Definition srcs (s : st) (U : unit) : list nat :=
  input_sources s U ++ match wfa U with Some l => l | None => [] end.

Definition inner_step (u : nat) (acc2 : res (st * list (nat * list nat))) (g : nat) : res (st * list (nat * list nat)) :=
  do2 s2, an2 <- acc2; do s3 <- desc_add s2 g u; Ok (s3, assoc_add u g an2).
Definition outer_step (acc : res (st * list (nat * list nat))) (u : nat) : res (st * list (nat * list nat)) :=
  do2 s1, an <- acc;
  match get_unit s1 u with
  | None => Err EInternal
  | Some U => fold_left (inner_step u) (srcs s1 U) (Ok (s1, an))
  end.
Lemma init_topo_eq : forall s, init_topo s =
  fold_left outer_step (live (fresh_sets s)) (Ok (fresh_sets s, map (fun u => (u, @nil nat)) (live (fresh_sets s)))).
Proof. reflexivity. Qed.

Lemma NoDup_snoc : forall (x : nat) l, NoDup l -> ~ In x l -> NoDup (l ++ [x]).
Proof.
  intros x l. induction l as [|y t IH]; intros H N; simpl.
  - repeat constructor; auto.
  - inversion H; subst. constructor.
    + intro Hin. apply in_app_iff in Hin. destruct Hin as [Hin|[->|[]]]; auto. apply N; left; auto.
    + apply IH; auto. intro; apply N; right; auto.
Qed.
Lemma set_add_nodup : forall x l, NoDup l -> NoDup (set_add x l).
Proof.
  intros x l H. unfold set_add. destruct (mem x l) eqn:E; auto.
  apply NoDup_snoc; auto. intro Hin. apply mem_In in Hin. congruence.
Qed.

(* association lists keyed by the live units *)
Lemma assoc_get_add : forall k u g m, NoDup (map fst m) ->
  assoc_get k (assoc_add u g m) = match assoc_get k m with
                                  | Some l => Some (if Nat.eqb u k then set_add g l else l)
                                  | None => None end.
Proof.
  intros k u g m. unfold assoc_get, assoc_add. induction m as [|[k' l'] t IH]; intro Hnd; simpl; auto.
  inversion Hnd; subst.
  destruct (Nat.eqb u k') eqn:E1; simpl.
  - apply Nat.eqb_eq in E1. subst k'. destruct (Nat.eqb k u) eqn:E2.
    + apply Nat.eqb_eq in E2. subst. rewrite Nat.eqb_refl. auto.
    + rewrite IH; auto.
  - destruct (Nat.eqb k k') eqn:E2.
    + apply Nat.eqb_eq in E2. subst. rewrite E1. auto.
    + rewrite IH; auto.
Qed.
Lemma assoc_add_keys : forall u g m, map fst (assoc_add u g m) = map fst m.
Proof. intros. unfold assoc_add. rewrite map_map. apply map_ext. intros [k l]. destruct (Nat.eqb u k); auto. Qed.

Definition SameU (s0 s1 : st) : Prop :=
  units s1 = units s0 /\ children s1 = children s0 /\ rewriting s1 = rewriting s0 /\ wfugens s1 = wfugens s0 /\
  List.length (sets s1) = List.length (sets s0).
Lemma SameU_refl : forall s, SameU s s. Proof. intro; repeat split; auto. Qed.
Lemma SameU_trans : forall a b c, SameU a b -> SameU b c -> SameU a c.
Proof. intros a b c (A1 & A2 & A3 & A4 & A5) (B1 & B2 & B3 & B4 & B5). repeat split; congruence. Qed.
Lemma SameU_get : forall s0 s1 u, SameU s0 s1 -> get_unit s1 u = get_unit s0 u.
Proof. intros s0 s1 u (A & _). unfold get_unit. rewrite A. auto. Qed.

Definition HasRef (s : st) (g : nat) : Prop :=
  exists G r, get_unit s g = Some G /\ dref G = Some r /\ r < List.length (sets s).

Lemma inner_fold : forall u gs s1 an, (forall g, In g gs -> HasRef s1 g) -> NoDup (map fst an) ->
  exists s2 an2, fold_left (inner_step u) gs (Ok (s1, an)) = Ok (s2, an2) /\ SameU s1 s2 /\
    (forall r m, In m (get_set s2 r) <->
                 In m (get_set s1 r) \/ (m = u /\ exists g G, In g gs /\ get_unit s1 g = Some G /\ dref G = Some r)) /\
    (forall r, NoDup (get_set s1 r) -> NoDup (get_set s2 r)) /\
    map fst an2 = map fst an /\
    (forall k, assoc_get k an = None -> assoc_get k an2 = None) /\
    (forall k lst, assoc_get k an = Some lst -> exists lst', assoc_get k an2 = Some lst' /\
        (forall x, In x lst' <-> In x lst \/ (k = u /\ In x gs)) /\ (NoDup lst -> NoDup lst')).
Proof.
  intros u gs. induction gs as [|g t IH]; intros s1 an Hg Hnd.
  - exists s1, an. simpl. split; auto. split; [apply SameU_refl|]. split.
    + intros r m. split; auto. intros [H|[_ (g & G & [] & _)]]; auto.
    + split; auto. split; auto. split; auto. intros k lst H. exists lst. split; auto. split; auto.
      intro x. split; auto. intros [H0|[_ []]]; auto.
  - destruct (Hg g (or_introl eq_refl)) as (G & r & GG & DG & Hr).
    cbn [fold_left]. unfold inner_step at 2. cbn [bind]. unfold desc_add. rewrite GG, DG. cbn [bind].
    set (s1' := put_set s1 r (set_add u (get_set s1 r))).
    set (an' := assoc_add u g an).
    assert (SU : SameU s1 s1') by (unfold s1'; repeat split; auto; simpl; apply upd_length).
    assert (Hg' : forall g0, In g0 t -> HasRef s1' g0).
    { intros g0 Hin. destruct (Hg g0 (or_intror Hin)) as (G0 & r0 & A & B & C). exists G0, r0. split; auto. split; auto.
      unfold s1'. rewrite sets_put_length. auto. }
    assert (Hnd' : NoDup (map fst an')) by (unfold an'; rewrite assoc_add_keys; auto).
    destruct (IH s1' an' Hg' Hnd') as (s2 & an2 & E & SU2 & Hsets & Hnds & Hkeys & Hnone & Hsome).
    exists s2, an2. split; [exact E|]. split; [eapply SameU_trans; eauto|]. split.
    + intros r0 m. rewrite Hsets. destruct (Nat.eq_dec r0 r) as [->|Hne].
      * unfold s1'. rewrite get_set_put_same by auto. rewrite In_set_add. split.
        -- intros [[Hm|H]|[Hm (g0 & G0 & A & B & C)]].
           ++ right. split; auto. exists g, G. split; [left; auto|]. split; auto.
           ++ left; auto.
           ++ right. split; auto. exists g0, G0. split; [right; auto|]. split; auto.
        -- intros [H|[Hm (g0 & G0 & A & B & C)]].
           ++ left; right; auto.
           ++ left; left; auto.
      * unfold s1'. rewrite get_set_put_other by auto. split.
        -- intros [H|[Hm (g0 & G0 & A & B & C)]].
           ++ left; auto.
           ++ right. split; auto. exists g0, G0. split; [right; auto|]. split; auto.
        -- intros [H|[Hm (g0 & G0 & [A|A] & B & C)]].
           ++ left; auto.
           ++ exfalso. subst g0. rewrite GG in B. injection B as E0. subst G0. congruence.
           ++ right. split; auto. exists g0, G0. split; auto.
    + split.
      * intros r0 H. apply Hnds. unfold s1'. destruct (Nat.eq_dec r0 r) as [->|Hne].
        -- rewrite get_set_put_same by auto. apply set_add_nodup; auto.
        -- rewrite get_set_put_other by auto. auto.
      * split; [rewrite Hkeys; unfold an'; apply assoc_add_keys|]. split.
        -- intros k H. apply Hnone. unfold an'. rewrite assoc_get_add by auto. rewrite H. auto.
        -- intros k lst H.
           assert (H' : assoc_get k an' = Some (if Nat.eqb u k then set_add g lst else lst)).
           { unfold an'. rewrite assoc_get_add by auto. rewrite H. auto. }
           destruct (Hsome k _ H') as (lst' & A & B & C). exists lst'. split; auto. split.
           ++ intro x. rewrite B. destruct (Nat.eqb u k) eqn:Euk.
              ** apply Nat.eqb_eq in Euk. subst k. rewrite In_set_add. simpl. intuition.
              ** apply Nat.eqb_neq in Euk. simpl. intuition congruence.
           ++ intro Hl. apply C. destruct (Nat.eqb u k); auto. apply set_add_nodup; auto.
Qed.

Lemma input_sources_units : forall s0 s1 U, units s1 = units s0 -> input_sources s1 U = input_sources s0 U.
Proof. intros s0 s1 U H. unfold input_sources, get_unit. rewrite H. reflexivity. Qed.
Lemma srcs_units : forall s0 s1 U, units s1 = units s0 -> srcs s1 U = srcs s0 U.
Proof. intros. unfold srcs. rewrite (input_sources_units s0 s1); auto. Qed.

(* c is recorded in the set r: c is a processed child and one of its sources owns r *)
Definition Recorded (s0 : st) (done : list nat) (r m : nat) : Prop :=
  In m done /\ exists M g G, get_unit s0 m = Some M /\ In g (srcs s0 M) /\ get_unit s0 g = Some G /\ dref G = Some r.

Lemma outer_fold : forall s0 rest done s1 an,
  SameU s0 s1 -> NoDup (map fst an) ->
  (forall c, In c rest -> exists C, get_unit s0 c = Some C /\ forall g, In g (srcs s0 C) -> HasRef s0 g) ->
  (forall r m, In m (get_set s1 r) <-> In m (get_set s0 r) \/ Recorded s0 done r m) ->
  (forall r, NoDup (get_set s0 r) -> NoDup (get_set s1 r)) ->
  (forall k, In k (map fst an) -> exists lst, assoc_get k an = Some lst /\ NoDup lst /\
      forall x, In x lst <-> In k done /\ exists K, get_unit s0 k = Some K /\ In x (srcs s0 K)) ->
  exists s2 an2, fold_left outer_step rest (Ok (s1, an)) = Ok (s2, an2) /\ SameU s0 s2 /\
    map fst an2 = map fst an /\
    (forall r m, In m (get_set s2 r) <-> In m (get_set s0 r) \/ Recorded s0 (done ++ rest) r m) /\
    (forall r, NoDup (get_set s0 r) -> NoDup (get_set s2 r)) /\
    (forall k, In k (map fst an) -> exists lst, assoc_get k an2 = Some lst /\ NoDup lst /\
      forall x, In x lst <-> In k (done ++ rest) /\ exists K, get_unit s0 k = Some K /\ In x (srcs s0 K)).
Proof.
  intros s0 rest. induction rest as [|u t IH]; intros done s1 an SU Hnd Hpre Hsets Hnd1 Hante.
  - exists s1, an. rewrite app_nil_r. simpl. repeat split; auto; try apply Hsets; try apply Hante.
    all: try (destruct SU as (A & B & C & E & F); auto).
  - destruct (Hpre u (or_introl eq_refl)) as (U & GU & Hsrc).
    cbn [fold_left]. unfold outer_step at 2. cbn [bind].
    rewrite (SameU_get s0 s1 u SU), GU.
    assert (Eu : units s1 = units s0) by (destruct SU; auto).
    rewrite (srcs_units s0 s1 U Eu).
    assert (Hg : forall g, In g (srcs s0 U) -> HasRef s1 g).
    { intros g Hin. destruct (Hsrc g Hin) as (G & r & A & B & C). exists G, r.
      rewrite (SameU_get s0 s1 g SU). split; auto. split; auto. destruct SU as (_ & _ & _ & _ & L). lia. }
    destruct (inner_fold u (srcs s0 U) s1 an Hg Hnd) as (s2 & an2 & E & SU2 & Hs2 & Hn2 & Hk2 & Hnone2 & Hsome2).
    rewrite E.
    assert (SU02 : SameU s0 s2) by (eapply SameU_trans; eauto).
    destruct (IH (done ++ [u]) s2 an2 SU02) as (s3 & an3 & E3 & SU3 & Hk3 & Hs3 & Hn3 & Ha3).
    + rewrite Hk2; auto.
    + intros c Hin. apply Hpre. right; auto.
    + intros r m. rewrite Hs2, Hsets. unfold Recorded. split.
      * intros [[H|(Hd & M & g & G & A & B & C & Dd)]|[-> (g & G & A & B & C)]].
        -- left; auto.
        -- right. split; [apply in_or_app; left; auto|]. exists M, g, G. auto.
        -- right. split; [apply in_or_app; right; left; auto|]. exists U, g, G. rewrite (SameU_get s0 s1 g SU) in B. auto.
      * intros [H|(Hd & M & g & G & A & B & C & Dd)]; [left; left; auto|].
        apply in_app_iff in Hd. destruct Hd as [Hd|[<-|[]]].
        -- left. right. split; auto. exists M, g, G. auto.
        -- right. split; auto. rewrite GU in A. injection A as <-. exists g, G. rewrite (SameU_get s0 s1 g SU). auto.
    + intros r H0. apply Hn2. auto.
    + rewrite Hk2. intros k Hk. destruct (Hante k Hk) as (lst & A & B & C).
      destruct (Hsome2 k lst A) as (lst' & A' & B' & C'). exists lst'. split; auto. split; auto.
      intro x. rewrite B', C. rewrite in_app_iff. simpl. split.
      * intros [[Hd HK]|[-> Hx]]; [split; auto|]. split; auto. exists U. auto.
      * intros [[Hd|[<-|[]]] (K & GK & Hx)]; [left; split; eauto|]. right. split; auto. rewrite GU in GK. injection GK as <-. auto.
    + exists s3, an3. split; auto. split; auto. split; [congruence|].
      rewrite <- app_assoc in Hs3, Ha3. simpl in Hs3, Ha3. split; auto. split; auto. rewrite <- Hk2. auto.
Qed.

(* ---- the specification of init_topo *)
Record InitSpec (s s' : st) (ante : list (nat * list nat)) : Prop := mkInit {
  IS_children : children s' = children s;
  IS_rw : rewriting s' = rewriting s;
  IS_wfu : wfugens s' = wfugens s;
  IS_len : List.length (units s') = List.length (units s);
  IS_get : forall u, get_unit s' u = match get_unit s u with
                                     | Some U => Some (match pos u (live s) with
                                                       | Some i => set_dref U (Some (List.length (sets s) + i))
                                                       | None => U end)
                                     | None => None end;
  IS_setlen : List.length (sets s') = List.length (sets s) + List.length (live s);
  IS_desc : forall u i, pos u (live s) = Some i -> forall c,
            In c (get_set s' (List.length (sets s) + i)) <->
            In c (live s) /\ exists C, get_unit s c = Some C /\ In u (srcs s C);
  IS_nodup : forall u i, pos u (live s) = Some i -> NoDup (get_set s' (List.length (sets s) + i));
  IS_keys : map fst ante = live s;
  IS_ante : forall u, In u (live s) -> exists lst, assoc_get u ante = Some lst /\ NoDup lst /\
            forall g, In g lst <-> exists U, get_unit s u = Some U /\ In g (srcs s U)
}.

Lemma assoc_get_init : forall l k, In k l -> assoc_get k (map (fun u => (u, @nil nat)) l) = Some [].
Proof.
  intros l k. unfold assoc_get. induction l as [|x t IH]; intro H; [contradiction|]. simpl.
  destruct (Nat.eqb k x) eqn:E; auto. apply IH. destruct H as [->|H]; auto. rewrite Nat.eqb_refl in E. discriminate.
Qed.
Lemma nth_app_repeat : forall (l : list (list nat)) m i, i < m -> nth (List.length l + i) (l ++ repeat [] m) [] = [].
Proof.
  intros l m i H. rewrite app_nth2 by lia. replace (List.length l + i - List.length l) with i by lia.
  revert i H. induction m as [|m IH]; intros i H; [lia|]. destruct i; simpl; auto. apply IH. lia.
Qed.

Theorem init_topo_spec : forall s, uid_ok s -> NoDup (live s) ->
  (forall c, In c (live s) -> exists C, get_unit s c = Some C /\ forall g, In g (srcs s C) -> In g (live s)) ->
  exists s' ante, init_topo s = Ok (s', ante) /\ InitSpec s s' ante.
Proof.
  intros s Hu Hnd Hpre. rewrite init_topo_eq.
  remember (live s) as l eqn:Hl. remember (List.length (sets s)) as r0 eqn:Hr0.
  assert (Hex : forall u, In u l -> exists U, get_unit s u = Some U) by (intros u H; destruct (Hpre u H) as (C & A & _); eauto).
  assert (Efs : fresh_sets s = fold_left fs_step l s) by (rewrite Hl; reflexivity).
  destruct (fresh_fold_spec l s Hu Hnd Hex) as (U0 & C0 & R0 & W0 & L0 & S0 & G0). cbv zeta in *.
  rewrite <- Efs, <- Hr0 in *. remember (fresh_sets s) as s0 eqn:Hs0.
  assert (Hl0 : live s0 = l) by (rewrite Hl; unfold live; rewrite C0; reflexivity). rewrite Hl0.
  assert (Hsl0 : List.length (sets s0) = r0 + List.length l) by (rewrite S0, app_length, repeat_length; auto).
  (* sources are insensitive to the fresh references *)
  assert (Hsrc : forall c C C', get_unit s c = Some C -> get_unit s0 c = Some C' -> srcs s0 C' = srcs s C).
  { intros c C C' A B. rewrite G0, A in B. injection B as <-.
    assert (Eins : ins (match pos c l with Some i => set_dref C (Some (r0 + i)) | None => C end) = ins C
                   /\ wfa (match pos c l with Some i => set_dref C (Some (r0 + i)) | None => C end) = wfa C).
    { destruct (pos c l); simpl; auto. }
    destruct Eins as [E1 E2]. unfold srcs. rewrite E2. f_equal.
    unfold input_sources. rewrite E1. apply flat_map_ext. intros [q|v ch]; auto.
    rewrite G0. destruct (get_unit s v) as [V|]; auto. destruct (pos v l); auto. }
  assert (Href : forall g, In g l -> HasRef s0 g).
  { intros g Hin. destruct (Hex g Hin) as [G GG]. apply pos_In in Hin. destruct Hin as [i Hi].
    exists (set_dref G (Some (r0 + i))), (r0 + i). rewrite G0, GG, Hi. split; auto. split; auto.
    pose proof (pos_lt _ _ _ Hi). lia. }
  destruct (outer_fold s0 l [] s0 (map (fun u => (u, @nil nat)) l)) as (s' & ante & E & SU & Hk & Hs & Hn & Ha).
  - apply SameU_refl.
  - rewrite map_map. simpl. rewrite map_id. auto.
  - intros c Hin. destruct (Hpre c Hin) as (C & A & B). apply pos_In in Hin. destruct Hin as [i Hi].
    exists (set_dref C (Some (r0 + i))). split; [rewrite G0, A, Hi; auto|].
    intros g Hg. apply Href. apply B.
    rewrite <- (Hsrc c C (set_dref C (Some (r0 + i))) A); auto. rewrite G0, A, Hi. auto.
  - intros r m. split; auto. intros [H|[[] _]]; auto.
  - auto.
  - rewrite map_map. simpl. rewrite map_id. intros k Hk. exists []. split; [apply assoc_get_init; auto|].
    split; [constructor|]. intro x. split; [intros []|intros [[] _]].
  - simpl in Hs, Ha. rewrite map_map in Hk, Ha. simpl in Hk, Ha. rewrite map_id in Hk, Ha.
    destruct SU as (A1 & A2 & A3 & A4 & A5).
    assert (Hget : forall u, get_unit s' u = get_unit s0 u) by (intro; unfold get_unit; rewrite A1; auto).
    exists s', ante. split; [exact E|]. constructor; rewrite <- ?Hl, <- ?Hr0.
    + congruence.
    + congruence.
    + congruence.
    + rewrite A1. auto.
    + intro u. rewrite Hget. apply G0.
    + rewrite A5. auto.
    + intros u i Hi c. rewrite Hs.
      assert (Hempty : get_set s0 (r0 + i) = []).
      { unfold get_set. rewrite S0, Hr0. apply nth_app_repeat. eapply pos_lt; eauto. }
      rewrite Hempty. unfold Recorded. split.
      * intros [[]|(Hc & M & g & G & B1 & B2 & B3 & B4)].
        split; auto. destruct (Hpre c Hc) as (C & GC & Hlive). exists C. split; auto.
        rewrite (Hsrc c C M GC B1) in B2.
        assert (Hgl : In g l) by (apply Hlive; auto).
        apply pos_In in Hgl. destruct Hgl as [j Hj]. destruct (Hex g) as [G' GG']; [apply pos_In; eauto|].
        rewrite G0, GG', Hj in B3. injection B3 as <-. simpl in B4. injection B4 as E4.
        assert (j = i) by lia. subst j. rewrite (pos_inj u g l i Hi Hj). exact B2.
      * intros (Hc & C & GC & Hin). right. split; auto.
        destruct (Hex u) as [U GU]; [apply pos_In; eauto|]. apply pos_In in Hc. destruct Hc as [j Hj].
        exists (set_dref C (Some (r0 + j))), u, (set_dref U (Some (r0 + i))).
        split; [rewrite G0, GC, Hj; auto|]. split.
        -- rewrite (Hsrc c C (set_dref C (Some (r0 + j))) GC); auto. rewrite G0, GC, Hj. auto.
        -- split; [rewrite G0, GU, Hi; auto | reflexivity].
    + intros u i Hi. apply Hn. unfold get_set. rewrite S0, Hr0, nth_app_repeat; [constructor | eapply pos_lt; eauto].
    + exact Hk.
    + intros u Hin. destruct (Ha u Hin) as (lst & B1 & B2 & B3). exists lst. split; auto. split; auto.
      intro g. rewrite B3. split.
      * intros (_ & K & GK & Hg). destruct (Hex u Hin) as [U GU]. exists U. split; auto. rewrite <- (Hsrc u U K GU GK). auto.
      * intros (U & GU & Hg). split; auto. apply pos_In in Hin. destruct Hin as [i Hi].
        exists (set_dref U (Some (r0 + i))). split; [rewrite G0, GU, Hi; auto|].
        rewrite (Hsrc u U (set_dref U (Some (r0 + i))) GU); auto. rewrite G0, GU, Hi. auto.
Qed.
