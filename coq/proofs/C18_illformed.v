(* C18 (a) -- ill-formed pattern texts: the regex parser never runs out of fuel (so the outcome of
   the matching function is always match / no match / re.error), and a well-formed text followed by
   an unbalanced '}' , an unclosed '{' or an unclosed '[' is an re.error. *)
From Coq Require Import ZArith List Bool Lia.
Import ListNotations.
Require Import SC3.model.OscMatch SC3.proofs.C18_match SC3.proofs.C18_render SC3.proofs.C18_text.
Open Scope Z_scope.

(* ---- the rewrite is compositional after a well-formed text ---------------------------------------- *)
Lemma head_not_app : forall x p q, head_not x p -> head_not x q -> head_not x (p ++ q).
Proof. intros x [| e p] q Hp Hq; simpl; assumption. Qed.

Lemma rewrite_pat_text_app : forall ts p q, pat_text ts p -> head_not ch_rbrk q ->
  rewrite Repaired (p ++ q) = rwt ts ++ rewrite Repaired q.
Proof.
  intros ts p q H Hq. induction H.
  - reflexivity.
  - cbn [rwt rwtok]. simpl app. rewrite rewrite_plain_cons; [rewrite IHpat_text; reflexivity | assumption |].
    apply head_not_app; [eapply pat_text_head; eassumption | assumption].
  - cbn [rwt rwtok]. simpl app. rewrite rewrite_quest_cons, IHpat_text. reflexivity.
  - cbn [rwt rwtok]. simpl app. rewrite rewrite_star_cons, IHpat_text. reflexivity.
  - assert (Hit : items <> [] /\ forallb item_ok items = true).
    { simpl in H. destruct items; [discriminate | split; [discriminate | assumption]]. }
    destruct Hit as [Hne Hit].
    assert (Htail : rewrite Repaired (render_items items ++ (if dash then [ch_minus] else []) ++ ch_rbrk :: p ++ q)
                     = render_items items ++ ch_rbrk :: rwt ts ++ rewrite Repaired q).
    { rewrite rewrite_items by assumption. f_equal. destruct dash; simpl app.
      - rewrite rewrite_dashrbrk_cons, IHpat_text. reflexivity.
      - rewrite rewrite_rbrk_cons, IHpat_text. reflexivity. }
    cbn [rwt rwtok]. rewrite <- app_comm_cons. rewrite <- !app_assoc. rewrite <- app_comm_cons.
    destruct neg.
    + simpl app. rewrite rewrite_negclass_cons.
      change (render_items items ++ (if dash then [ch_minus] else []) ++ ch_rbrk :: p ++ q)
        with (render_items items ++ (if dash then [ch_minus] else []) ++ ch_rbrk :: p ++ q) in Htail.
      rewrite Htail. simpl. rewrite <- ?app_assoc. reflexivity.
    + simpl app.
      destruct (render_items_head items ((if dash then [ch_minus] else []) ++ ch_rbrk :: p ++ q) Hne Hit) as (m & t & Em & Hm).
      rewrite Em. destruct (cplain_plain m Hm) as (_ & _ & Hb & _).
      rewrite rewrite_lbrk_cons by assumption. rewrite <- Em. rewrite Htail. simpl. rewrite <- ?app_assoc. reflexivity.
  - assert (Hal : alts <> [] /\ forallb (forallb aplain) alts = true).
    { simpl in H. destruct alts; [discriminate | split; [discriminate | assumption]]. }
    destruct Hal as [Hne Hal]. cbn [rwt rwtok]. rewrite <- app_comm_cons. rewrite <- !app_assoc. rewrite <- app_comm_cons.
    rewrite rewrite_lbrace_cons, rewrite_alts by assumption. rewrite IHpat_text. simpl. rewrite <- ?app_assoc. reflexivity.
Qed.

(* ---- totality of the regex parser -------------------------------------------------------------------- *)
Definition cont (f : nat) (a : pres regex) : pres regex :=
  match a with
  | POk r rest => match p_seq f rest with POk r' rest' => POk (RCat r r') rest' | e => e end
  | e => e
  end.

Lemma p_seq_S : forall f c t,
  p_seq (S f) (c :: t) =
    if (c =? ch_bar) || (c =? ch_rpar) then POk REps (c :: t)
    else if c =? ch_bsl then match t with e :: t1 => cont f (POk (RChr e) t1) | [] => PErr end
    else if c =? ch_dot then
      match t with
      | e :: t1 => if e =? ch_star then cont f (POk (RStar (RAny [ch_nl])) t1) else cont f (POk (RAny [ch_nl]) t)
      | [] => cont f (POk (RAny [ch_nl]) t)
      end
    else if c =? ch_lpar then
      match t with
      | q :: k :: t2 =>
        if (q =? ch_quest) && (k =? ch_colon) then
          match p_alt f t2 with
          | POk r (cl :: rest) => if cl =? ch_rpar then cont f (POk r rest) else PErr
          | POk _ [] => PErr
          | e => e
          end
        else PErr
      | _ => PErr
      end
    else if c =? ch_lbrk then
      match parse_class t with
      | POk r (e :: t1) => if e =? ch_star then cont f (POk (RStar r) t1) else cont f (POk r (e :: t1))
      | other => cont f other
      end
    else if (c =? ch_star) || (c =? ch_quest) || (c =? ch_plus) || (c =? ch_lbrace) || (c =? ch_caret) || (c =? ch_dollar)
    then PErr
    else cont f (POk (RChr c) t).
Proof. intros. reflexivity. Qed.

Definition ok_res (n : nat) (a : pres regex) : Prop :=
  a <> PFuel /\ forall r rest, a = POk r rest -> (length rest <= n)%nat.

Lemma class_loop_total : forall fuel set s, (length s < fuel)%nat ->
  class_loop fuel set s <> PFuel /\ forall set' rest, class_loop fuel set s = POk set' rest -> (length rest < length s)%nat.
Proof.
  induction fuel as [| f IH]; intros set s Hf; [lia|].
  destruct s as [| c t]; [simpl; split; [discriminate | discriminate]|].
  cbn [class_loop].
  destruct ((c =? ch_rbrk) && negb (match set with [] => true | _ :: _ => false end)).
  - split; [discriminate|]. intros set' rest E. inversion E; subst. simpl. lia.
  - simpl in Hf.
    assert (Hrec : forall set2 s2, (length s2 <= length t)%nat ->
              class_loop f set2 s2 <> PFuel /\ forall set' rest, class_loop f set2 s2 = POk set' rest -> (length rest < length (c :: t))%nat).
    { intros set2 s2 Hl. destruct (IH set2 s2 ltac:(lia)) as [H1 H2]. split; [assumption|].
      intros set' rest E. apply H2 in E. simpl. lia. }
    destruct (c =? ch_bsl).
    + destruct t as [| e t1]; [split; discriminate|].
      destruct t1 as [| m t2]; [apply Hrec; simpl; lia|].
      destruct (m =? ch_minus); [|apply Hrec; simpl; lia].
      destruct t2 as [| e2 t3]; [split; discriminate|].
      destruct (e2 =? ch_rbrk); [split; [discriminate | intros ? ? E; inversion E; subst; simpl; lia]|].
      destruct (e2 =? ch_bsl).
      * destruct t3 as [| e3 t4]; [split; discriminate|]. destruct (e3 <? e); [split; discriminate | apply Hrec; simpl; lia].
      * destruct (e2 <? e); [split; discriminate | apply Hrec; simpl; lia].
    + destruct t as [| m t2]; [apply Hrec; simpl; lia|].
      destruct (m =? ch_minus); [|apply Hrec; simpl; lia].
      destruct t2 as [| e2 t3]; [split; discriminate|].
      destruct (e2 =? ch_rbrk); [split; [discriminate | intros ? ? E; inversion E; subst; simpl; lia]|].
      destruct (e2 =? ch_bsl).
      * destruct t3 as [| e3 t4]; [split; discriminate|]. destruct (e3 <? c); [split; discriminate | apply Hrec; simpl; lia].
      * destruct (e2 <? c); [split; discriminate | apply Hrec; simpl; lia].
Qed.

Lemma parse_class_total : forall s, parse_class s <> PFuel /\ forall r rest, parse_class s = POk r rest -> (length rest <= length s)%nat.
Proof.
  intro s. unfold parse_class.
  set (nb := match s with c :: t => if c =? ch_caret then (true, t) else (false, s) | [] => (false, s) end).
  assert (Hb : (length (snd nb) <= length s)%nat).
  { unfold nb. destruct s as [| c t]; [simpl; lia|]. destruct (c =? ch_caret); simpl; lia. }
  destruct nb as [neg body]. simpl in Hb.
  destruct (class_loop_total (S (length body)) [] body ltac:(lia)) as [H1 H2].
  destruct (class_loop (S (length body)) [] body) as [set rest | |]; [|split; discriminate | contradiction].
  split; [discriminate|]. intros r rest' E. inversion E; subst. specialize (H2 set rest' eq_refl). lia.
Qed.

Definition seq_ok (f : nat) : Prop := forall s, (2 * length s + 1 <= f)%nat -> ok_res (length s) (p_seq f s).
Definition alt_ok (f : nat) : Prop := forall s, (2 * length s + 2 <= f)%nat -> ok_res (length s) (p_alt f s).

Lemma cont_ok : forall f a n, seq_ok f -> ok_res n a -> (2 * n + 1 <= f)%nat -> ok_res n (cont f a).
Proof.
  intros f a n Hs [Ha1 Ha2] Hf. destruct a as [r rest | |]; simpl; [|split; [discriminate | discriminate] | contradiction].
  specialize (Ha2 r rest eq_refl). destruct (Hs rest ltac:(lia)) as [H1 H2].
  destruct (p_seq f rest) as [r' rest' | |]; [|split; discriminate | contradiction].
  split; [discriminate|]. intros r0 rest0 E. inversion E; subst. specialize (H2 r' rest0 eq_refl). lia.
Qed.

Lemma ok_res_ok : forall n r rest, (length rest <= n)%nat -> ok_res n (POk r rest).
Proof. intros n r rest H. split; [discriminate|]. intros r0 rest0 E. inversion E; subst. assumption. Qed.
Lemma ok_res_err : forall n, ok_res n PErr.
Proof. intro n. split; discriminate. Qed.
Lemma ok_res_weaken : forall n m a, (n <= m)%nat -> ok_res n a -> ok_res m a.
Proof. intros n m a Hnm [H1 H2]. split; [assumption|]. intros r rest E. specialize (H2 r rest E). lia. Qed.

Lemma parser_total : forall fuel, seq_ok fuel /\ alt_ok fuel.
Proof.
  induction fuel as [| f [IHs IHa]]; [split; intros s H; lia|].
  assert (Hseq : seq_ok (S f)).
  { intros s Hf. destruct s as [| c t]; [simpl; apply ok_res_ok; simpl; lia|].
    rewrite p_seq_S. simpl length in *.
    assert (Hc : forall a, ok_res (length t) a -> ok_res (S (length t)) (cont f a)).
    { intros a Ha. apply (ok_res_weaken (length t)); [lia|]. apply cont_ok; [assumption | assumption | lia]. }
    destruct ((c =? ch_bar) || (c =? ch_rpar)); [apply ok_res_ok; simpl; lia|].
    destruct (c =? ch_bsl).
    { destruct t as [| e t1]; [apply ok_res_err|]. apply Hc. apply ok_res_ok. simpl. lia. }
    destruct (c =? ch_dot).
    { destruct t as [| e t1]; [apply Hc, ok_res_ok; simpl; lia|].
      destruct (e =? ch_star); apply Hc, ok_res_ok; simpl; lia. }
    destruct (c =? ch_lpar).
    { destruct t as [| q [| k t2]]; try apply ok_res_err.
      destruct ((q =? ch_quest) && (k =? ch_colon)); [|apply ok_res_err].
      simpl length in *. destruct (IHa t2 ltac:(lia)) as [H1 H2].
      destruct (p_alt f t2) as [r [| cl rest] | |]; [apply ok_res_err | | apply ok_res_err | contradiction].
      specialize (H2 r (cl :: rest) eq_refl). simpl in H2.
      destruct (cl =? ch_rpar); [|apply ok_res_err].
      apply (ok_res_weaken (length t2)); [lia|]. apply cont_ok; [assumption | apply ok_res_ok; lia | lia]. }
    destruct (c =? ch_lbrk).
    { destruct (parse_class_total t) as [H1 H2].
      destruct (parse_class t) as [r [| e t1] | |]; [| | apply Hc, ok_res_err | contradiction].
      - apply Hc, ok_res_ok. simpl. lia.
      - specialize (H2 r (e :: t1) eq_refl). simpl in H2.
        destruct (e =? ch_star); apply Hc, ok_res_ok; simpl; lia. }
    destruct ((c =? ch_star) || (c =? ch_quest) || (c =? ch_plus) || (c =? ch_lbrace) || (c =? ch_caret) || (c =? ch_dollar));
      [apply ok_res_err|]. apply Hc, ok_res_ok. lia. }
  split; [exact Hseq|].
  intros s Hf. cbn [p_alt]. destruct (IHs s ltac:(lia)) as [H1 H2].
  destruct (p_seq f s) as [r1 [| c rest] | |]; [apply ok_res_ok; simpl; lia | | apply ok_res_err | contradiction].
  specialize (H2 r1 (c :: rest) eq_refl). simpl in H2.
  destruct (c =? ch_bar); [|apply ok_res_ok; simpl; lia].
  destruct (IHa rest ltac:(lia)) as [G1 G2].
  destruct (p_alt f rest) as [r2 rest' | |]; [|apply ok_res_err | contradiction].
  apply ok_res_ok. specialize (G2 r2 rest' eq_refl). lia.
Qed.

Lemma re_parse_total : forall s, re_parse s <> PFuel.
Proof.
  intro s. unfold re_parse. destruct (parser_total (3 * length s + 4)) as [_ Ha].
  destruct (Ha s ltac:(lia)) as [H1 _].
  destruct (p_alt (3 * length s + 4) s) as [r [| ? ?] | |]; try discriminate. contradiction.
Qed.

Lemma rematch_never_out_of_fuel : forall d w p a, osc_rematch_gen d w p a <> MOutOfFuel.
Proof.
  intros d w p a. unfold osc_rematch_gen. pose proof (re_parse_total (rewrite d p)) as H.
  destruct (re_parse (rewrite d p)); [destruct w; [destruct (rmatch a0 a) | destruct (rprefix a0 a)]; discriminate | discriminate | contradiction].
Qed.

(* ---- unbalanced texts are re.error --------------------------------------------------------------------- *)
Lemma re_parse_error_of_seq : forall s, p_seq (3 * length s + 3) s = PErr -> re_parse s = PErr.
Proof.
  intros s H. unfold re_parse. replace (3 * length s + 4)%nat with (S (3 * length s + 3)) by lia.
  cbn [p_alt]. rewrite H. reflexivity.
Qed.

(* a '}' with no '{' *)
Lemma unbalanced_close_brace : forall ts p w a, pat_text ts p -> osc_rematch (p ++ ch_rbrace :: w) a = MReError.
Proof.
  intros ts p w a H. pose proof (pat_text_ok ts p H) as Hok.
  unfold osc_rematch, osc_rematch_gen.
  rewrite (rewrite_pat_text_app ts p (ch_rbrace :: w) H) by (simpl; unfold ch_rbrace, ch_rbrk; discriminate).
  rewrite rewrite_rbrace_cons. set (x := rewrite Repaired w).
  unfold re_parse. remember (3 * length (rwt ts ++ ch_rpar :: x) + 4)%nat as fuel eqn:Hf.
  rewrite app_length in Hf. simpl length in Hf. destruct fuel as [| f]; [lia|].
  cbn [p_alt]. rewrite (p_seq_tokens ts f (ch_rpar :: x) Hok); [|simpl; right; reflexivity | lia].
  change (ch_rpar =? ch_bar) with false. reflexivity.
Qed.

(* a '{' that is never closed *)
Lemma unclosed_brace : forall ts p ts' q a, pat_text ts p -> pat_text ts' q ->
  osc_rematch (p ++ ch_lbrace :: q) a = MReError.
Proof.
  intros ts p ts' q a H H'. pose proof (pat_text_ok ts p H) as Hok. pose proof (pat_text_ok ts' q H') as Hok'.
  unfold osc_rematch, osc_rematch_gen.
  rewrite (rewrite_pat_text_app ts p (ch_lbrace :: q) H) by (simpl; unfold ch_lbrace, ch_rbrk; discriminate).
  rewrite rewrite_lbrace_cons, (rewrite_pat_text ts' q H').
  set (s := rwt ts ++ ch_lpar :: ch_quest :: ch_colon :: rwt ts').
  rewrite (re_parse_error_of_seq s); [reflexivity|].
  assert (Hl : length s = (length (rwt ts) + 3 + length (rwt ts'))%nat) by (unfold s; rewrite app_length; simpl; lia).
  unfold s. rewrite p_seq_tokens_k; [|assumption | simpl; unfold ch_lpar, ch_star; discriminate | fold s; lia].
  fold s. pose proof (rwt_length ts) as Hlt.
  remember (3 * length s + 3 - length ts)%nat as g eqn:Hg. destruct g as [| g]; [lia|].
  rewrite p_seq_S. change (ch_lpar =? ch_bar) with false. change (ch_lpar =? ch_rpar) with false.
  change (ch_lpar =? ch_bsl) with false. change (ch_lpar =? ch_dot) with false. change (ch_lpar =? ch_lpar) with true.
  cbn [orb]. cbv iota. change (ch_quest =? ch_quest) with true. change (ch_colon =? ch_colon) with true. simpl andb. cbv iota.
  destruct g as [| g']; [lia|]. cbn [p_alt].
  pose proof (p_seq_tokens ts' g' [] Hok' I) as Hp. rewrite app_nil_r in Hp. rewrite Hp by lia. reflexivity.
Qed.

(* a '[' that is never closed *)
Lemma rewrite_cplain_all : forall d w, forallb cplain w = true -> rewrite d w = w.
Proof.
  induction w as [| c w IH]; intro H; [reflexivity|]. simpl in H. apply andb_true_iff in H as [Hc Hw].
  rewrite rewrite_cplain_cons by assumption. rewrite IH by assumption. reflexivity.
Qed.
Lemma class_loop_unterminated : forall w fuel set, forallb cplain w = true -> (length w < fuel)%nat ->
  class_loop fuel set w = PErr.
Proof.
  induction w as [| c t IH]; intros fuel set H Hf; (destruct fuel as [| f]; [simpl in Hf; lia|]); [reflexivity|].
  simpl in H. apply andb_true_iff in H as [Hc Ht]. destruct (cplain_plain c Hc) as (Hp & _).
  destruct (plain_not c Hp) as (_ & _ & _ & _ & _ & _ & _ & Hr & _ & _ & Hb & _). apply Z.eqb_neq in Hr, Hb.
  destruct t as [| m t2].
  - cbn [class_loop]. rewrite Hr, Hb. simpl andb. cbv iota. destruct f; [simpl in Hf; lia | reflexivity].
  - assert (Hm : (m =? ch_minus) = false).
    { simpl in Ht. apply andb_true_iff in Ht as [Hm _]. destruct (cplain_plain m Hm) as (_ & Hmm & _). apply Z.eqb_neq. assumption. }
    rewrite class_loop_single by assumption. apply IH; [assumption | simpl in *; lia].
Qed.

Lemma unclosed_bracket : forall ts p w a, pat_text ts p -> forallb cplain w = true ->
  osc_rematch (p ++ ch_lbrk :: w) a = MReError.
Proof.
  intros ts p w a H Hw. pose proof (pat_text_ok ts p H) as Hok.
  unfold osc_rematch, osc_rematch_gen.
  rewrite (rewrite_pat_text_app ts p (ch_lbrk :: w) H) by (simpl; unfold ch_lbrk, ch_rbrk; discriminate).
  assert (Hrw : rewrite Repaired (ch_lbrk :: w) = ch_lbrk :: w).
  { destruct w as [| e t]; [reflexivity|]. simpl in Hw. apply andb_true_iff in Hw as [He Ht].
    destruct (cplain_plain e He) as (_ & _ & Hb & _). rewrite rewrite_lbrk_cons by assumption.
    rewrite rewrite_cplain_all; [reflexivity|]. simpl. rewrite He, Ht. reflexivity. }
  rewrite Hrw. set (s := rwt ts ++ ch_lbrk :: w).
  rewrite (re_parse_error_of_seq s); [reflexivity|].
  assert (Hl : length s = (length (rwt ts) + 1 + length w)%nat) by (unfold s; rewrite app_length; simpl; lia).
  unfold s. rewrite p_seq_tokens_k; [|assumption | simpl; unfold ch_lbrk, ch_star; discriminate | fold s; lia].
  fold s. pose proof (rwt_length ts) as Hlt.
  remember (3 * length s + 3 - length ts)%nat as g eqn:Hg. destruct g as [| g]; [lia|].
  rewrite p_seq_S. change (ch_lbrk =? ch_bar) with false. change (ch_lbrk =? ch_rpar) with false.
  change (ch_lbrk =? ch_bsl) with false. change (ch_lbrk =? ch_dot) with false. change (ch_lbrk =? ch_lpar) with false.
  change (ch_lbrk =? ch_lbrk) with true. cbn [orb]. cbv iota.
  assert (Hpc : parse_class w = PErr).
  { unfold parse_class. destruct w as [| c t].
    - reflexivity.
    - assert (Hca : (c =? ch_caret) = false).
      { simpl in Hw. apply andb_true_iff in Hw as [Hc _]. destruct (cplain_plain c Hc) as (Hp & _).
        destruct (plain_not c Hp) as (_ & _ & _ & _ & _ & _ & _ & _ & _ & _ & _ & _ & _ & _ & Hca & _). apply Z.eqb_neq. assumption. }
      rewrite Hca. rewrite class_loop_unterminated; [reflexivity | assumption | lia]. }
  rewrite Hpc. reflexivity.
Qed.
