(* C09 -- the NRT ClockScheduler (sc3/base/clock.py) on top of the TaskQueue refinement:
   one pending wake-up per (clock, task), re-scheduling = most recent entry, run() pops the earliest,
   retime() keeps the mutual order of the re-timed tasks and does not touch the others. *)
From Coq Require Import QArith ZArith List Bool Arith Permutation Sorting Lia Lqa.
Import ListNotations.
Require Import SC3.model.TaskQ SC3.model.ClockSched.
Require Import SC3.proofs.C09_order SC3.proofs.C09_refine SC3.proofs.C09_corollaries.
Local Open Scope nat_scope.

(* ---- small list facts ---------------------------------------------------------------------- *)
Lemma filter_filter : forall (A : Type) (f g : A -> bool) l,
  filter f (filter g l) = filter (fun x => g x && f x) l.
Proof.
  intros A f g l. induction l as [| a r IH]; simpl.
  - reflexivity.
  - destruct (g a); simpl; [destruct (f a); rewrite IH; reflexivity | exact IH].
Qed.

Lemma nodup_map_filter : forall (A B : Type) (g : A -> B) (p : A -> bool) l,
  NoDup (map g l) -> NoDup (map g (filter p l)).
Proof.
  intros A B g p l. induction l as [| a r IH]; intro N; simpl.
  - constructor.
  - simpl in N. inversion N as [| x y Na Nr]; subst. destruct (p a); simpl.
    + constructor; [| apply IH; exact Nr]. intro H. apply Na. apply in_map_iff in H.
      destruct H as [z [Hz1 Hz2]]. apply filter_In in Hz2. rewrite <- Hz1. apply in_map. tauto.
    + apply IH. exact Nr.
Qed.

Lemma map_filter_comm : forall (A B : Type) (g : A -> B) (p : B -> bool) l,
  filter p (map g l) = map g (filter (fun x => p (g x)) l).
Proof.
  intros A B g p l. induction l as [| a r IH]; simpl.
  - reflexivity.
  - destruct (p (g a)); simpl; rewrite IH; reflexivity.
Qed.

Lemma contents_stamps_nodup : forall s, inv s -> NoDup (map (fun x => snd (ikey x)) (contents s)).
Proof.
  intros s I. apply (Permutation_NoDup (l := map (fun x => snd (ikey x)) (live (heap s)))).
  - apply Permutation_map. apply Permutation_sym. apply contents_perm.
  - apply live_counts_nodup. apply (inv_nodup s I).
Qed.

(* ---- the _pending dict ------------------------------------------------------------------------ *)
Lemma skey_eqb_eq : forall a b, skey_eqb a b = true <-> a = b.
Proof.
  intros [a1 a2] [b1 b2]. unfold skey_eqb. simpl. rewrite andb_true_iff, !Z.eqb_eq. split.
  - intros [H1 H2]. subst. reflexivity.
  - intro H. inversion H. split; reflexivity.
Qed.

Lemma skey_eqb_refl : forall a, skey_eqb a a = true.
Proof. intro a. apply skey_eqb_eq. reflexivity. Qed.

Lemma skey_eqb_neq : forall a b, skey_eqb a b = false <-> a <> b.
Proof.
  intros a b. rewrite <- skey_eqb_eq. destruct (skey_eqb a b); split; intro H; congruence.
Qed.

Lemma pget_pdel_same : forall k p, pget k (pdel k p) = None.
Proof.
  intros k p. induction p as [| [k' c] r IH]; simpl.
  - reflexivity.
  - destruct (skey_eqb k k') eqn:E; simpl; [exact IH | rewrite E; exact IH].
Qed.

Lemma pget_pdel_other : forall k k' p, k' <> k -> pget k' (pdel k p) = pget k' p.
Proof.
  intros k k' p N. induction p as [| [u c] r IH]; simpl.
  - reflexivity.
  - destruct (skey_eqb k u) eqn:E; simpl.
    + apply skey_eqb_eq in E. subst u.
      assert (E' : skey_eqb k' k = false) by (apply skey_eqb_neq; exact N).
      rewrite E'. exact IH.
    + destruct (skey_eqb k' u); [reflexivity | exact IH].
Qed.

Section SchedProofs.
  Variable ck tk : Z -> Z.
  Notation keyof := (keyof ck tk).

  Definition tasks_of (q : tq) : list task := map itask (contents q).

  Record sinv (s : sched) : Prop := mkSinv {
    si_q : inv (squeue s);
    (* _pending is exactly: key of a queued ClockTask |-> that ClockTask *)
    si_pend : forall k ct, pget k (spend s) = Some ct <-> (k = keyof ct /\ In ct (tasks_of (squeue s)))
  }.

  Definition other_key (ct : Z) (x : item) : bool := negb (skey_eqb (keyof (itask x)) (keyof ct)).

  Lemma sinv_key_unique : forall s a b, sinv s ->
    In a (tasks_of (squeue s)) -> In b (tasks_of (squeue s)) -> keyof a = keyof b -> a = b.
  Proof.
    intros s a b I Ha Hb E.
    assert (Pa : pget (keyof a) (spend s) = Some a) by (apply (si_pend s I); split; [reflexivity | exact Ha]).
    assert (Pb : pget (keyof a) (spend s) = Some b) by (apply (si_pend s I); split; [exact E | exact Hb]).
    congruence.
  Qed.

  Lemma sinv_init : sinv sched_init.
  Proof.
    constructor; simpl.
    - exact inv_init.
    - intros k ct. split; [discriminate | intros [_ []]].
  Qed.

  (* ---- add ---------------------------------------------------------------------------------- *)
  Lemma sch_add_ok : forall s time ct, sinv s ->
    sinv (sch_add ck tk time ct s)
    /\ contents (squeue (sch_add ck tk time ct s))
       = insert_by ikey (time, counter (squeue s), ct) (filter (other_key ct) (contents (squeue s)))
    /\ counter (squeue (sch_add ck tk time ct s)) = S (counter (squeue s)).
  Proof.
    intros s time ct I. assert (Iq := si_q s I).
    (* the queue before the final queue.add, and its contents *)
    set (q1 := match pget (keyof ct) (spend s) with
               | Some prev => if (prev =? ct)%Z then squeue s else tq_remove prev (squeue s)
               | None => squeue s end).
    assert (H1 : inv q1 /\ counter q1 = counter (squeue s) /\
                 remove_task ct (contents q1) = filter (other_key ct) (contents (squeue s))).
    { unfold q1. destruct (pget (keyof ct) (spend s)) as [prev |] eqn:P.
      - apply (si_pend s I) in P. destruct P as [Pk Pin].
        destruct (prev =? ct)%Z eqn:E.
        + apply Z.eqb_eq in E. subst prev. split; [exact Iq | split; [reflexivity |]].
          unfold remove_task. apply filter_ext_in. intros x Hx. unfold other_key. f_equal.
          destruct (Z.eqb ct (itask x)) eqn:E1.
          * apply Z.eqb_eq in E1. rewrite <- E1. symmetry. apply skey_eqb_refl.
          * symmetry. apply skey_eqb_neq. intro K. apply Z.eqb_neq in E1. apply E1.
            apply (sinv_key_unique s ct (itask x) I Pin); [apply in_map; exact Hx | symmetry; exact K].
        + apply Z.eqb_neq in E. destruct (remove_ok (squeue s) prev Iq) as [I1 [C1 N1]].
          split; [exact I1 | split; [exact N1 |]]. rewrite C1. unfold remove_task. rewrite filter_filter.
          apply filter_ext_in. intros x Hx. unfold other_key.
          destruct (skey_eqb (keyof (itask x)) (keyof ct)) eqn:K; simpl.
          * apply skey_eqb_eq in K.
            assert (Ex : itask x = prev).
            { apply (sinv_key_unique s _ _ I); [apply in_map; exact Hx | exact Pin | congruence]. }
            rewrite Ex. rewrite Z.eqb_refl. reflexivity.
          * apply skey_eqb_neq in K.
            assert (N2 : Z.eqb prev (itask x) = false).
            { apply Z.eqb_neq. intro Ex. apply K. rewrite <- Ex. symmetry. exact Pk. }
            assert (N3 : Z.eqb ct (itask x) = false).
            { apply Z.eqb_neq. intro Ex. apply K. rewrite <- Ex. reflexivity. }
            rewrite N2, N3. reflexivity.
      - split; [exact Iq | split; [reflexivity |]].
        unfold remove_task. apply filter_ext_in. intros x Hx. unfold other_key. f_equal.
        assert (K : keyof (itask x) <> keyof ct).
        { intro K. assert (P' : pget (keyof ct) (spend s) = Some (itask x)).
          { apply (si_pend s I). split; [symmetry; exact K | apply in_map; exact Hx]. }
          congruence. }
        assert (N3 : Z.eqb ct (itask x) = false).
        { apply Z.eqb_neq. intro Ex. apply K. rewrite <- Ex. reflexivity. }
        rewrite N3. symmetry. apply skey_eqb_neq. exact K. }
    destruct H1 as [I1 [N1 C1]].
    destruct (add_ok q1 time ct I1) as [I2 [C2 N2]].
    change (sch_add ck tk time ct s) with (mkS (tq_add time ct q1) (pset (keyof ct) ct (spend s))).
    cbn [squeue spend]. rewrite C2, N2, C1, N1.
    split; [| split; reflexivity].
    constructor; cbn [squeue spend].
    - exact I2.
    - intros k c. unfold tasks_of. rewrite C2, C1, N1. unfold pset. cbn [pget fst snd].
      destruct (skey_eqb k (keyof ct)) eqn:K.
      + apply skey_eqb_eq in K. subst k. split.
        * intro H. inversion H; subst c. split; [reflexivity |].
          apply in_map_iff. exists (time, counter (squeue s), ct). split; [reflexivity |].
          apply in_insert_by. left. reflexivity.
        * intros [Hk Hin]. apply in_map_iff in Hin. destruct Hin as [x [Ex Hx]].
          apply in_insert_by in Hx. destruct Hx as [Hx | Hx].
          { subst x. simpl in Ex. unfold itask in Ex. simpl in Ex. subst c. reflexivity. }
          { exfalso. apply filter_In in Hx. destruct Hx as [_ Hx]. unfold other_key in Hx.
            rewrite Ex in Hx. rewrite <- Hk in Hx. rewrite skey_eqb_refl in Hx. discriminate. }
      + apply skey_eqb_neq in K. rewrite (pget_pdel_other _ _ _ K). rewrite (si_pend s I). unfold tasks_of.
        split; intros [Hk Hin]; (split; [exact Hk |]).
        * apply in_map_iff in Hin. destruct Hin as [x [Ex Hx]]. apply in_map_iff. exists x.
          split; [exact Ex |]. apply in_insert_by. right. apply filter_In. split; [exact Hx |].
          unfold other_key. rewrite Ex. apply negb_true_iff. apply skey_eqb_neq. congruence.
        * apply in_map_iff in Hin. destruct Hin as [x [Ex Hx]]. apply in_insert_by in Hx.
          destruct Hx as [Hx | Hx].
          { exfalso. subst x. unfold itask in Ex. simpl in Ex. subst c. apply K. exact Hk. }
          { apply filter_In in Hx. apply in_map_iff. exists x. tauto. }
  Qed.

  (* ---- one iteration of run() -------------------------------------------------------------------- *)
  Lemma sch_step_ok : forall s s' r, sinv s -> sch_step ck tk s = (s', r) ->
    sinv s' /\ counter (squeue s') = counter (squeue s) /\
    match contents (squeue s) with
    | [] => r = RBool true /\ s' = s
    | x :: rest => r = RItem (fst (fst x)) (snd x) /\ contents (squeue s') = rest
    end.
  Proof.
    intros s s' r I E. assert (Iq := si_q s I). unfold sch_step in E.
    rewrite (empty_ok _ Iq) in E. assert (OK := abs_ok _ Iq).
    destruct (contents (squeue s)) as [| x rest] eqn:C.
    - inversion E; subst. split; [exact I | split; [reflexivity | split; reflexivity]].
    - destruct (tq_pop (squeue s)) as [q1 r1] eqn:P.
      destruct (pop_ok _ _ _ Iq P) as [I1 [N1 M]]. rewrite C in M. destruct M as [M C1]. subst r1.
      assert (Hin : In (snd x) (tasks_of (squeue s))).
      { unfold tasks_of. rewrite C. left. reflexivity. }
      assert (Pk : pget (keyof (snd x)) (spend s) = Some (snd x))
        by (apply (si_pend s I); split; [reflexivity | exact Hin]).
      rewrite Pk, Z.eqb_refl in E. injection E as Es Er. subst s' r. cbn [squeue spend].
      split; [| split; [exact N1 | split; [reflexivity | exact C1]]].
      assert (Nt := so_tasks _ _ OK). simpl in Nt. inversion Nt as [| y ys Nx Nrest]. subst y ys.
      constructor; cbn [squeue spend].
      + exact I1.
      + intros k c. unfold tasks_of. rewrite C1.
        destruct (skey_eqb k (keyof (snd x))) eqn:K.
        * apply skey_eqb_eq in K. subst k. rewrite pget_pdel_same. split; [discriminate |].
          intros [Hk Hc]. exfalso.
          assert (Ec : snd x = c).
          { apply (sinv_key_unique s _ _ I); [exact Hin | | exact Hk].
            unfold tasks_of. rewrite C. right. exact Hc. }
          subst c. apply Nx. exact Hc.
        * apply skey_eqb_neq in K. rewrite (pget_pdel_other _ _ _ K). rewrite (si_pend s I).
          unfold tasks_of. rewrite C. simpl. split; intros [Hk Hc]; (split; [exact Hk |]).
          { destruct Hc as [Hc | Hc]; [| exact Hc]. exfalso. apply K. rewrite Hk. unfold itask in Hc.
            rewrite Hc. reflexivity. }
          { right. exact Hc. }
  Qed.

  (* ---- retime ------------------------------------------------------------------------------------------ *)
  Section Retime.
    Variable c : Z.
    Variable f : Z -> Q.

    Definition isc (x : item) : bool := (ck (itask x) =? c)%Z.
    Definition isct (t : task) : bool := (ck t =? c)%Z.

    (* the entries retime() inserts for the tasks of the snapshot, in order, with consecutive counts *)
    Fixpoint ents (ts : list task) (n : nat) : list item :=
      match ts with
      | [] => []
      | t :: r => if isct t then (f t, n, t) :: ents r (S n) else ents r n
      end.

    Definition rt_step (ln : list item * nat) (t : task) : list item * nat :=
      if isct t then (insert_by ikey (f t, snd ln, t) (remove_task t (fst ln)), S (snd ln)) else ln.
    Definition rt (ts : list task) (ln : list item * nat) : list item * nat := fold_left rt_step ts ln.

    Definition untouched (ts : list task) (x : item) : bool :=
      negb (isc x && existsb (Z.eqb (itask x)) ts).

    Lemma rt_perm : forall ts l n, NoDup ts ->
      Permutation (fst (rt ts (l, n))) (filter (untouched ts) l ++ ents ts n).
    Proof.
      induction ts as [| t ts IH]; intros l n N.
      - simpl. rewrite app_nil_r. rewrite filter_id; [apply Permutation_refl |].
        intros x _. unfold untouched. simpl. rewrite andb_false_r. reflexivity.
      - inversion N as [| t' ts' Nt Nts]; subst. unfold rt. simpl fold_left. unfold rt_step at 2. simpl fst. simpl snd.
        destruct (isct t) eqn:Ct.
        + fold (rt ts (insert_by ikey (f t, n, t) (remove_task t l), S n)).
          eapply perm_trans; [apply IH; exact Nts |]. simpl ents. rewrite Ct.
          eapply perm_trans; [| apply Permutation_middle].
          rewrite app_comm_cons. apply Permutation_app_tail.
          eapply perm_trans; [apply filter_perm; apply insert_by_perm |]. simpl filter.
          assert (U : untouched ts (f t, n, t) = true).
          { unfold untouched. apply negb_true_iff. apply andb_false_iff. right.
            destruct (existsb (Z.eqb (itask (f t, n, t))) ts) eqn:Ex; [| reflexivity].
            exfalso. apply existsb_exists in Ex. destruct Ex as [u [Hu Eu]]. apply Z.eqb_eq in Eu.
            unfold itask in Eu. simpl in Eu. subst u. contradiction. }
          rewrite U. apply perm_skip. unfold remove_task. rewrite filter_filter.
          rewrite (filter_ext_in _ (untouched (t :: ts))); [apply Permutation_refl |].
          intros x _. unfold untouched. simpl existsb.
          destruct (Z.eqb t (itask x)) eqn:E1.
          * apply Z.eqb_eq in E1. subst t. rewrite Z.eqb_refl. simpl. unfold isc.
            unfold isct in Ct. rewrite Ct. reflexivity.
          * assert (E2 : Z.eqb (itask x) t = false) by (rewrite Z.eqb_sym; exact E1).
            rewrite E2. simpl. reflexivity.
        + fold (rt ts (l, n)). eapply perm_trans; [apply IH; exact Nts |]. simpl ents. rewrite Ct.
          apply Permutation_app_tail.
          rewrite (filter_ext_in _ (untouched (t :: ts))); [apply Permutation_refl |].
          intros x _. unfold untouched. simpl existsb.
          destruct (Z.eqb (itask x) t) eqn:E1; [| reflexivity].
          apply Z.eqb_eq in E1. unfold isc. rewrite E1. unfold isct in Ct. rewrite Ct. reflexivity.
    Qed.

    Lemma ents_facts : forall ts n x, In x (ents ts n) ->
      In (itask x) ts /\ isc x = true /\ fst (fst x) = f (itask x) /\ n <= snd (fst x).
    Proof.
      induction ts as [| t ts IH]; intros n x H; simpl in H.
      - contradiction.
      - destruct (isct t) eqn:Ct.
        + destruct H as [H | H].
          * subst x. unfold itask, isc. simpl. repeat split; [left; reflexivity | exact Ct | lia].
          * destruct (IH _ _ H) as [A [B [C D]]]. repeat split; [right; exact A | exact B | exact C | lia].
        + destruct (IH _ _ H) as [A [B [C D]]]. repeat split; [right; exact A | exact B | exact C | exact D].
    Qed.

    Lemma ents_tasks : forall ts n, map itask (ents ts n) = filter isct ts.
    Proof.
      induction ts as [| t ts IH]; intro n; simpl.
      - reflexivity.
      - destruct (isct t); simpl; rewrite IH; reflexivity.
    Qed.

    Lemma ents_pairs : forall ts n, map ipair (ents ts n) = map (fun t => (f t, t)) (filter isct ts).
    Proof.
      induction ts as [| t ts IH]; intro n; simpl.
      - reflexivity.
      - destruct (isct t); simpl; rewrite IH; reflexivity.
    Qed.

    Lemma ents_sorted : forall ts n,
      StronglySorted (fun a b => (f a <= f b)%Q) (filter isct ts) -> sorted ikey (ents ts n).
    Proof.
      induction ts as [| t ts IH]; intros n S; simpl.
      - constructor.
      - simpl in S. destruct (isct t) eqn:Ct.
        + inversion S as [| a r Sr Fr]; subst. constructor; [apply IH; exact Sr |].
          apply Forall_forall. intros x Hx. destruct (ents_facts _ _ _ Hx) as [A [B [Cx D]]].
          unfold kle, klt, ikey. simpl. rewrite Cx.
          assert (Fx : (f t <= f (itask x))%Q).
          { rewrite Forall_forall in Fr. apply Fr. apply filter_In. split; [exact A | exact B]. }
          intros [H | [_ H]]; [lra | lia].
        + apply IH. exact S.
    Qed.

    (* the concrete fold of retime() is the abstract one *)
    Definition rfold (xs : list (Q * task)) (q : tq) : tq :=
      fold_left (fun q (x : Q * task) => if (ck (snd x) =? c)%Z then tq_add (f (snd x)) (snd x) q else q) xs q.

    Lemma retime_fold : forall xs q, inv q ->
      inv (rfold xs q) /\ (contents (rfold xs q), counter (rfold xs q)) = rt (map snd xs) (contents q, counter q).
    Proof.
      induction xs as [| x xs IH]; intros q I.
      - split; [exact I | reflexivity].
      - change (rfold (x :: xs) q)
          with (rfold xs (if (ck (snd x) =? c)%Z then tq_add (f (snd x)) (snd x) q else q)).
        change (rt (map snd (x :: xs)) (contents q, counter q))
          with (rt (map snd xs) (rt_step (contents q, counter q) (snd x))).
        unfold rt_step, isct. cbn [fst snd].
        destruct (ck (snd x) =? c)%Z.
        + destruct (add_ok q (f (snd x)) (snd x) I) as [I1 [C1 N1]].
          destruct (IH _ I1) as [I2 E2]. split; [exact I2 |]. rewrite E2, C1, N1. reflexivity.
        + apply IH. exact I.
    Qed.

    Lemma sch_retime_ok : forall s, sinv s ->
      let L := contents (squeue s) in
      let L' := contents (squeue (sch_retime ck c f s)) in
      sinv (sch_retime ck c f s)
      /\ Permutation L' (filter (fun x => negb (isc x)) L ++ ents (map itask L) (counter (squeue s)))
      /\ filter (fun x => negb (isc x)) L' = filter (fun x => negb (isc x)) L
      /\ (StronglySorted (fun a b => (f a <= f b)%Q) (map itask (filter isc L)) ->
          filter isc L' = ents (map itask L) (counter (squeue s))).
    Proof.
      intros s I L L'. assert (Iq := si_q s I). assert (OK := abs_ok _ Iq).
      destruct (retime_fold (tq_iter (squeue s)) (squeue s) Iq) as [I' E'].
      change (rfold (tq_iter (squeue s)) (squeue s)) with (squeue (sch_retime ck c f s)) in I', E'.
      assert (Ts : map snd (tq_iter (squeue s)) = map itask L).
      { rewrite iter_ok. apply map_snd_ipair. }
      rewrite Ts in E'.
      assert (EL : L' = fst (rt (map itask L) (L, counter (squeue s)))).
      { unfold L'. fold L in E'. rewrite <- E'. reflexivity. }
      assert (P : Permutation L' (filter (fun x => negb (isc x)) L ++ ents (map itask L) (counter (squeue s)))).
      { rewrite EL. eapply perm_trans; [apply rt_perm; apply (so_tasks _ _ OK) |].
        apply Permutation_app_tail.
        rewrite (filter_ext_in _ (fun x => negb (isc x))); [apply Permutation_refl |].
        intros x Hx. unfold untouched.
        assert (Ex : existsb (Z.eqb (itask x)) (map itask L) = true).
        { apply existsb_exists. exists (itask x). split; [apply in_map; exact Hx | apply Z.eqb_refl]. }
        rewrite Ex, andb_true_r. reflexivity. }
      assert (SL' : sorted ikey L') by apply contents_sorted.
      assert (NL' : NoDup (map (fun x => snd (ikey x)) L')) by (apply contents_stamps_nodup; exact I').
      assert (Pn : Permutation (filter (fun x => negb (isc x)) L') (filter (fun x => negb (isc x)) L)).
      { eapply perm_trans; [apply filter_perm; exact P |]. rewrite filter_app.
        rewrite (filter_none _ _ (ents _ _)).
        - rewrite app_nil_r. rewrite filter_filter.
          rewrite (filter_ext _ (fun x => negb (isc x))); [apply Permutation_refl |].
          intro x. destruct (isc x); reflexivity.
        - intros x Hx. destruct (ents_facts _ _ _ Hx) as [_ [B _]]. rewrite B. reflexivity. }
      assert (Pc : Permutation (filter isc L') (ents (map itask L) (counter (squeue s)))).
      { eapply perm_trans; [apply filter_perm; exact P |]. rewrite filter_app.
        rewrite (filter_none _ _ (filter _ L)).
        - simpl. rewrite filter_id; [apply Permutation_refl |].
          intros x Hx. destruct (ents_facts _ _ _ Hx) as [_ [B _]]. exact B.
        - intros x Hx. apply filter_In in Hx. destruct Hx as [_ Hx]. apply negb_true_iff. exact Hx. }
      split; [| split; [exact P | split]].
      - constructor.
        + exact I'.
        + intros k ct. change (spend (sch_retime ck c f s)) with (spend s).
          rewrite (si_pend s I). unfold tasks_of. fold L'. fold L.
          assert (Same : forall t, In t (map itask L') <-> In t (map itask L)).
          { intro t. split; intro H.
            - apply (Permutation_in _ (Permutation_map itask P)) in H. rewrite map_app in H.
              apply in_app_or in H. destruct H as [H | H].
              + apply in_map_iff in H. destruct H as [x [Ex Hx]]. apply filter_In in Hx.
                apply in_map_iff. exists x. tauto.
              + rewrite ents_tasks in H. apply filter_In in H. tauto.
            - apply (Permutation_in _ (Permutation_sym (Permutation_map itask P))). rewrite map_app.
              apply in_or_app. apply in_map_iff in H. destruct H as [x [Ex Hx]].
              destruct (isc x) eqn:Cx.
              + right. rewrite ents_tasks. apply filter_In. split; [apply in_map_iff; exists x; tauto |].
                unfold isct. unfold isc in Cx. rewrite <- Ex. exact Cx.
              + left. apply in_map_iff. exists x. split; [exact Ex |]. apply filter_In.
                split; [exact Hx | rewrite Cx; reflexivity]. }
          rewrite Same. tauto.
      - apply (sorted_unique _ ikey).
        + apply sorted_filter. exact SL'.
        + apply sorted_filter. apply contents_sorted.
        + exact Pn.
        + apply nodup_map_filter. exact NL'.
      - intro Mono. apply (sorted_unique _ ikey).
        + apply sorted_filter. exact SL'.
        + apply ents_sorted. rewrite (map_filter_comm _ _ itask isct L). exact Mono.
        + exact Pc.
        + apply nodup_map_filter. exact NL'.
    Qed.
  End Retime.

  (* ---- histories ------------------------------------------------------------------------------------------- *)
  Lemma sstep_inv : forall o s, sinv s -> sinv (fst (sstep ck tk o s)).
  Proof.
    intros o s I. destruct o as [time ct | | c f | |]; simpl.
    - exact (proj1 (sch_add_ok s time ct I)).
    - destruct (sch_step ck tk s) as [s' r] eqn:E. exact (proj1 (sch_step_ok s s' r I E)).
    - exact (proj1 (sch_retime_ok c (assoc_q f) s I)).
    - exact sinv_init.
    - exact I.
  Qed.

  Lemma srun_inv : forall ops s, sinv s -> sinv (fst (srun ck tk ops s)).
  Proof.
    induction ops as [| o ops IH]; intros s I; simpl.
    - exact I.
    - assert (I1 := sstep_inv o s I). destruct (sstep ck tk o s) as [s1 x]. simpl in I1.
      specialize (IH s1 I1). destruct (srun ck tk ops s1) as [s2 xs]. exact IH.
  Qed.

  Definition sreachable (s : sched) : Prop := exists ops, fst (srun ck tk ops sched_init) = s.

  Lemma sreachable_inv : forall s, sreachable s -> sinv s.
  Proof. intros s [ops H]. rewrite <- H. apply srun_inv. exact sinv_init. Qed.

  (* ---- statements on what list(self.queue) shows ------------------------------------------------------------- *)
  Definition qiter (s : sched) : list (Q * task) := tq_iter (squeue s).
  Definition pkey_other (ct : Z) (x : Q * task) : bool := negb (skey_eqb (keyof (snd x)) (keyof ct)).
  Definition on_clock (c : Z) (x : Q * task) : bool := (ck (snd x) =? c)%Z.

  Lemma S_one_pending : forall s, sreachable s ->
    NoDup (map (fun x : Q * task => keyof (snd x)) (qiter s))
    /\ forall k ct, pget k (spend s) = Some ct <-> (k = keyof ct /\ In ct (map snd (qiter s))).
  Proof.
    intros s R. assert (I := sreachable_inv s R). assert (OK := abs_ok _ (si_q s I)).
    unfold qiter. rewrite iter_ok. split.
    - rewrite map_map. apply nodup_map_of_inj.
      + apply (NoDup_map_inv itask). apply (so_tasks _ _ OK).
      + intros x y Hx Hy E. simpl in E.
        assert (Et : itask x = itask y).
        { apply (sinv_key_unique s _ _ I); [apply in_map; exact Hx | apply in_map; exact Hy | exact E]. }
        apply (nodup_map_inj _ _ itask (contents (squeue s))); [apply (so_tasks _ _ OK) | exact Hx | exact Hy | exact Et].
    - intros k ct. rewrite map_snd_ipair. apply (si_pend s I).
  Qed.

  Lemma S_add : forall s time ct, sreachable s ->
    let rest := filter (pkey_other ct) (qiter s) in
    qiter (sch_add ck tk time ct s) = filter (at_most time) rest ++ (time, ct) :: filter (later_than time) rest.
  Proof.
    intros s time ct R rest. assert (I := sreachable_inv s R). assert (OK := abs_ok _ (si_q s I)).
    destruct (sch_add_ok s time ct I) as [_ [C _]].
    unfold qiter. rewrite iter_ok, C. rewrite insert_latest_split.
    - rewrite map_app. simpl. unfold rest, qiter. rewrite iter_ok.
      rewrite !map_filter_ipair.
      replace (map ipair (filter (other_key ct) (contents (squeue s))))
        with (filter (pkey_other ct) (map ipair (contents (squeue s)))); [reflexivity |].
      symmetry. apply (map_filter_ipair (pkey_other ct)).
    - apply sorted_filter. apply (so_sorted _ _ OK).
    - apply Forall_forall. intros x Hx. apply filter_In in Hx.
      assert (L := so_stamps _ _ OK). rewrite Forall_forall in L. apply L. tauto.
  Qed.

  Lemma S_step : forall s s' r, sreachable s -> sch_step ck tk s = (s', r) ->
    match qiter s with
    | [] => r = RBool true /\ s' = s
    | x :: rest => r = RItem (fst x) (snd x) /\ qiter s' = rest
    end.
  Proof.
    intros s s' r R E. assert (I := sreachable_inv s R).
    destruct (sch_step_ok s s' r I E) as [_ [_ M]]. unfold qiter. rewrite !iter_ok.
    destruct (contents (squeue s)) as [| x rest]; simpl.
    - exact M.
    - destruct M as [M1 M2]. rewrite M2. split; [exact M1 | reflexivity].
  Qed.

  Lemma S_retime : forall s c f, sreachable s ->
    filter (fun x => negb (on_clock c x)) (qiter (sch_retime ck c f s))
      = filter (fun x => negb (on_clock c x)) (qiter s)
    /\ (StronglySorted (fun a b : Q * task => (f (snd a) <= f (snd b))%Q) (filter (on_clock c) (qiter s)) ->
        filter (on_clock c) (qiter (sch_retime ck c f s))
          = map (fun x : Q * task => (f (snd x), snd x)) (filter (on_clock c) (qiter s))).
  Proof.
    intros s c f R. assert (I := sreachable_inv s R).
    destruct (sch_retime_ok c f s I) as [_ [_ [Hn Hc]]].
    unfold qiter. rewrite !iter_ok. split.
    - rewrite <- !(map_filter_ipair (fun x => negb (on_clock c x))).
      change (fun x : item => negb (on_clock c (ipair x))) with (fun x : item => negb (isc c x)).
      rewrite Hn. reflexivity.
    - intro Mono. rewrite <- !(map_filter_ipair (on_clock c)).
      change (fun x : item => on_clock c (ipair x)) with (isc c).
      rewrite Hc.
      + rewrite ents_pairs. rewrite (map_filter_comm _ _ itask (isct c)). rewrite !map_map. reflexivity.
      + rewrite <- (map_filter_ipair (on_clock c)) in Mono.
        change (fun x : item => on_clock c (ipair x)) with (isc c) in Mono.
        clear - Mono. induction (filter (isc c) (contents (squeue s))) as [| x r IH]; simpl in *.
        * constructor.
        * inversion Mono as [| a b Sr Fr]; subst. constructor; [apply IH; exact Sr |].
          rewrite Forall_forall in *. intros t Ht. apply in_map_iff in Ht. destruct Ht as [y [Ey Hy]]. subst t.
          apply (Fr (ipair y)). apply in_map. exact Hy.
  Qed.
  (* ---- wake-ups come out in non-decreasing time -------------------------------------------------------------------- *)
  Definition sop_at_least (b : Q) (o : sop) : Prop :=
    match o with
    | SAdd t _ => (b <= t)%Q
    | SRetime _ f => forall ct, (b <= assoc_q f ct)%Q
    | _ => True
    end.

  Lemma lower_bound_sstep : forall b o s, sinv s -> lower_bound b (contents (squeue s)) -> sop_at_least b o ->
    lower_bound b (contents (squeue (fst (sstep ck tk o s)))).
  Proof.
    intros b o s I LB Ho. unfold lower_bound in *. destruct o as [time ct | | c f | |]; cbn [sstep fst sop_at_least] in *.
    - destruct (sch_add_ok s time ct I) as [_ [C _]]. rewrite C. apply Forall_forall. intros y Hy.
      apply in_insert_by in Hy. destruct Hy as [Hy | Hy]; [subst y; exact Ho |].
      apply filter_In in Hy. rewrite Forall_forall in LB. apply LB. tauto.
    - destruct (sch_step ck tk s) as [s' r] eqn:E. destruct (sch_step_ok s s' r I E) as [_ [_ M]]. cbn [fst].
      destruct (contents (squeue s)) as [| x rest] eqn:C.
      + destruct M as [_ M]. subst s'. rewrite C. exact LB.
      + destruct M as [_ M]. rewrite M. inversion LB; assumption.
    - destruct (sch_retime_ok c (assoc_q f) s I) as [_ [P _]].
      apply (@Permutation_Forall _ _ _ _ (Permutation_sym P)). apply Forall_app. split.
      + apply Forall_forall. intros y Hy. apply filter_In in Hy. rewrite Forall_forall in LB. apply LB. tauto.
      + apply Forall_forall. intros y Hy. destruct (ents_facts _ _ _ _ _ Hy) as [_ [_ [Fy _]]]. rewrite Fy. apply Ho.
    - constructor.
    - exact LB.
  Qed.

  Lemma lower_bound_srun : forall b ops s, sinv s -> lower_bound b (contents (squeue s)) ->
    Forall (sop_at_least b) ops ->
    sinv (fst (srun ck tk ops s)) /\ lower_bound b (contents (squeue (fst (srun ck tk ops s)))).
  Proof.
    induction ops as [| o ops IH]; intros s I LB Hops; simpl.
    - split; assumption.
    - inversion Hops as [| o' ops' Ho Hr]; subst.
      assert (I1 := sstep_inv o s I). assert (LB1 := lower_bound_sstep b o s I LB Ho).
      destruct (sstep ck tk o s) as [s1 x]. simpl in I1, LB1.
      specialize (IH s1 I1 LB1 Hr). destruct (srun ck tk ops s1) as [s2 xs]. exact IH.
  Qed.

  Lemma S_nondecreasing : forall s s1 p1 t1 ops s3 p2 t2,
    sreachable s ->
    sch_step ck tk s = (s1, RItem p1 t1) ->
    Forall (sop_at_least p1) ops ->
    sch_step ck tk (fst (srun ck tk ops s1)) = (s3, RItem p2 t2) ->
    (p1 <= p2)%Q.
  Proof.
    intros s s1 p1 t1 ops s3 p2 t2 R E1 Hops E3. assert (I := sreachable_inv s R).
    destruct (sch_step_ok s s1 _ I E1) as [I1 [_ M1]].
    assert (Sd := contents_sorted (squeue s)).
    destruct (contents (squeue s)) as [| x rest] eqn:C; destruct M1 as [M1 C1]; [discriminate |].
    inversion M1; subst p1 t1.
    assert (LB1 : lower_bound (fst (fst x)) (contents (squeue s1))).
    { rewrite C1. unfold lower_bound. apply Forall_forall. intros y Hy.
      assert (L := sorted_head_le _ ikey x rest y Sd Hy). unfold kle in L. apply klt_prio_le in L. exact L. }
    destruct (lower_bound_srun _ ops s1 I1 LB1 Hops) as [I2 LB2].
    destruct (sch_step_ok _ s3 _ I2 E3) as [_ [_ M3]].
    destruct (contents (squeue (fst (srun ck tk ops s1)))) as [| y rest2]; destruct M3 as [M3 _]; [discriminate |].
    inversion M3; subst. inversion LB2; assumption.
  Qed.

  Lemma S_inv : forall ops, sinv (fst (srun ck tk ops sched_init)).
  Proof. intro ops. apply srun_inv. exact sinv_init. Qed.

End SchedProofs.
