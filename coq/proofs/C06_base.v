(* C06 -- basic lemmas: lengths of the writers, alignment, nested induction on argument
   trees, unfolding of the nested fixpoints of the models. *)
From Coq Require Import ZArith QArith List Bool Lia.
Import ListNotations.
Require Import SC3.model.Osc SC3.model.OscSize.
Open Scope Z_scope.

(* ---- nested induction on arg ---- *)
Section ArgInd.
  Variable P : arg -> Prop.
  Hypothesis Hleaf : forall a, (forall l, a <> AList l) -> P a.
  Hypothesis Hlist : forall l, Forall P l -> P (AList l).
  Fixpoint arg_nested_ind (a : arg) : P a.
  Proof.
    destruct a as [| b | z | w | s | b | lat tag | | l].
    1-8: apply Hleaf; intros l' Heq; discriminate Heq.
    apply Hlist.
    induction l as [| x r IHr].
    - constructor.
    - constructor; [apply arg_nested_ind | exact IHr].
  Defined.
End ArgInd.

(* ---- res monad ---- *)
Lemma bind_ok : forall {A B} (r : res A) (f : A -> res B) b,
  r >>= f = Ok b -> exists a, r = Ok a /\ f a = Ok b.
Proof. intros A B [a | e] f b H; simpl in H; [eauto | discriminate]. Qed.

Lemma ok_inj : forall {A} (a b : A), Ok a = Ok b -> a = b.
Proof. intros A a b H; inversion H; reflexivity. Qed.
(* (injection/inversion would reduce Z arithmetic inside the terms) *)
Ltac inv_ok H := first [discriminate H | apply ok_inj in H; try subst].

(* ---- zlen ---- *)
Lemma zlen_nonneg : forall {A} (l : list A), 0 <= zlen l.
Proof. intros; unfold zlen; lia. Qed.
Lemma zlen_app : forall {A} (a b : list A), zlen (a ++ b) = zlen a + zlen b.
Proof. intros; unfold zlen; rewrite app_length; lia. Qed.
Lemma zlen_cons : forall {A} (x : A) l, zlen (x :: l) = 1 + zlen l.
Proof. intros; unfold zlen; simpl length; lia. Qed.
Lemma zlen_nil : forall {A}, zlen (@nil A) = 0.
Proof. reflexivity. Qed.
Lemma zlen_zeros : forall n, 0 <= n -> zlen (zeros n) = n.
Proof. intros; unfold zlen, zeros; rewrite repeat_length; lia. Qed.
Lemma zlen_map : forall {A B} (f : A -> B) l, zlen (map f l) = zlen l.
Proof. intros; unfold zlen; rewrite map_length; reflexivity. Qed.

(* ---- strpad4 ---- *)
Lemma land3 : forall n, Z.land n 3 = n mod 4.
Proof. intros; change 3 with (Z.ones 2); rewrite Z.land_ones by lia; reflexivity. Qed.
Lemma strpad4_eq : forall n, strpad4 n = n + 4 - n mod 4.
Proof. intros; unfold strpad4; rewrite land3; reflexivity. Qed.
Lemma strpad4_aligned : forall n, strpad4 n mod 4 = 0.
Proof.
  intros; rewrite strpad4_eq.
  pose proof (Z.div_mod n 4 ltac:(lia)) as Hd.
  replace (n + 4 - n mod 4) with ((n / 4 + 1) * 4) by lia.
  apply Z.mod_mul; lia.
Qed.
Lemma strpad4_gt : forall n, n < strpad4 n <= n + 4.
Proof. intros; rewrite strpad4_eq; pose proof (Z.mod_pos_bound n 4 ltac:(lia)); lia. Qed.

(* ---- writers: lengths ---- *)
Lemma be32_len : forall u, zlen (be32 u) = 4.
Proof. reflexivity. Qed.
Lemma write_int_len : forall z d, write_int z = Ok d -> zlen d = 4.
Proof. unfold write_int; intros z d H; destruct (_ && _); inv_ok H; reflexivity. Qed.
Lemma write_timetag_len : forall t d, write_timetag t = Ok d -> zlen d = 8.
Proof. unfold write_timetag; intros t d H; destruct (_ && _); inv_ok H; reflexivity. Qed.
Lemma write_string_len : forall nc s d, write_string nc s = Ok d -> zlen d = strpad4 (zlen s).
Proof.
  unfold write_string; intros nc s d H; destruct (nc && has_nul s); inv_ok H.
  pose proof (Z.mod_pos_bound (zlen s) 4 ltac:(lia)).
  rewrite zlen_app, zlen_zeros, strpad4_eq by lia; lia.
Qed.
Lemma write_blob_len : forall b d, write_blob b = Ok d -> zlen d = 4 + zlen b + (- zlen b) mod 4.
Proof.
  unfold write_blob; intros b d H; destruct b as [| x r]; [discriminate |].
  apply bind_ok in H as (h & Hh & H); inv_ok H.
  pose proof (Z.mod_pos_bound (- zlen (x :: r)) 4 ltac:(lia)).
  rewrite !zlen_app, zlen_zeros, (write_int_len _ _ Hh) by lia; lia.
Qed.
Lemma blob_aligned : forall n, (4 + n + (- n) mod 4) mod 4 = 0.
Proof.
  intros n.
  pose proof (Z.div_mod (- n) 4 ltac:(lia)) as Hd.
  replace (4 + n + (- n) mod 4) with ((1 - (- n) / 4) * 4) by lia.
  apply Z.mod_mul; lia.
Qed.
Lemma pad_aligned_zero : forall n, n mod 4 = 0 -> (- n) mod 4 = 0.
Proof.
  intros n H. apply Z.mod_divide in H; [| lia]. destruct H as [k Hk]; subst.
  replace (- (k * 4)) with ((- k) * 4) by lia. apply Z.mod_mul; lia.
Qed.
Lemma add_aligned : forall a b, a mod 4 = 0 -> b mod 4 = 0 -> (a + b) mod 4 = 0.
Proof. intros a b Ha Hb; rewrite Z.add_mod, Ha, Hb by lia; reflexivity. Qed.

(* ---- unfolding the nested fixpoints ---- *)
Lemma build_pkt_msg : forall nc addr args,
  build_pkt nc (AList (AStr addr :: args)) =
  coerce_args nc args >>= fun targs => enc_msg nc addr targs >>= check_msg.
Proof.
  intros nc addr args. cbn [build_pkt]. f_equal.
  induction args as [| x r IH]; [reflexivity |].
  cbn [coerce_args]. rewrite <- IH. reflexivity.
Qed.
Lemma build_pkt_bundle : forall nc lat tag elems,
  build_pkt nc (AList (ATime lat tag :: elems)) =
  build_elems nc lat elems >>= fun cs => enc_bundle tag cs >>= check_bundle.
Proof.
  intros nc lat tag elems. cbn [build_pkt]. f_equal.
  induction elems as [| x r IH]; [reflexivity |].
  cbn [build_elems]. rewrite <- IH. reflexivity.
Qed.
