(* C11 -- the thread stack of the repaired Routine.next (config [patched]) is restored by
   every operation, whatever the bodies do: induction on the fuel of nested next() calls
   and on the script of the executing body. *)
From Coq Require Import ZArith List Bool Arith Lia.
Require Import SC3.model.Cond SC3.model.Routine.
Import ListNotations.

(* ---- lists ----------------------------------------------------------------- *)
Lemma upd_nth_length : forall A n (x : A) l, length (upd_nth n x l) = length l.
Proof. induction n; destruct l; simpl; auto. Qed.

Lemma nth_upd_same : forall A n (x y : A) l, nth_error l n = Some y -> nth_error (upd_nth n x l) n = Some x.
Proof. induction n; destruct l; simpl; intros; try discriminate; auto. eapply IHn; eauto. Qed.

Lemma nth_upd_other : forall A n m (x : A) l, n <> m -> nth_error (upd_nth n x l) m = nth_error l m.
Proof.
  induction n; destruct l; destruct m; simpl; intros; auto; try congruence.
Qed.

(* ---- invariants -------------------------------------------------------------- *)
Definition getr (w : world) (i : nat) : option rt := nth_error (rts w) i.

(* a routine that is not running is off the thread stack and its generator is not
   executing; a terminal value is recorded only in state Done *)
Definition wfrt (x : rt) : Prop :=
  (st x <> Running -> parent x = None /\ gexec x = false) /\ (st x <> Done -> term x = None).

Definition cur_valid (w : world) : Prop :=
  match cur w with
  | Some Main => True
  | Some (R i) => (i < length (rts w))%nat
  | None => False
  end.

Definition wfw (w : world) : Prop :=
  cur_valid w /\ (forall i x, getr w i = Some x -> wfrt x) /\ poison w = false.

(* what a call may do to the world of its caller *)
Definition pres (w w' : world) : Prop :=
  cur w' = cur w /\ main_secs w' = main_secs w /\ length (rts w') = length (rts w) /\
  (forall i x, getr w i = Some x -> st x = Running -> getr w' i = Some x) /\
  (forall i x, getr w i = Some x -> st x <> Running -> exists x', getr w' i = Some x' /\ st x' <> Running).

Lemma pres_refl : forall w, pres w w.
Proof. intro w. repeat split; auto. intros i x H N. exists x. auto. Qed.

Lemma pres_trans : forall a b c, pres a b -> pres b c -> pres a c.
Proof.
  intros a b c (A1 & A2 & A3 & A4 & A5) (B1 & B2 & B3 & B4 & B5).
  repeat split; try congruence.
  - intros i x H S. apply B4; auto.
  - intros i x H S. destruct (A5 i x H S) as (x' & H' & S'). eapply B5; eauto.
Qed.

(* what the bodies themselves observe *)
Definition refusal (o : outcome) : Prop := o = Exc ERoutine \/ o = Exc ERecursion.

Definition targets_self (c : call) (r : nat) : bool :=
  match c with
  | CNext i _ | CStop i | CPause i | CReset i => Nat.eqb i r
  | _ => false
  end.

Definition logok (e : nat * ev) : Prop :=
  match snd e with
  | EvLog _ c s _ => c = true /\ s = Running
  | EvCall c o => targets_self c (fst e) = true -> refusal o
  | _ => True
  end.

Definition loginv (w : world) : Prop := Forall logok (log w).
Definition good (w : world) : Prop := wfw w /\ loginv w.

(* changes that leave routines, thread stack, time, poison and log alone *)
Definition same_core (w w' : world) : Prop :=
  rts w' = rts w /\ cur w' = cur w /\ main_secs w' = main_secs w /\ poison w' = poison w /\ log w' = log w.

Lemma same_core_ok : forall w w', same_core w w' -> good w -> pres w w' /\ good w'.
Proof.
  intros w w' (E1 & E2 & E3 & E4 & E5) ((V & W & P) & L).
  split.
  - unfold pres, getr. rewrite E1, E2, E3. repeat split; auto.
    intros i x H N. exists x. auto.
  - split; [| unfold loginv; rewrite E5; exact L].
    unfold wfw, cur_valid, getr. rewrite E1, E2, E4. auto.
Qed.

Lemma add_log_ok : forall w r e, good w -> logok (r, e) -> pres w (add_log r e w) /\ good (add_log r e w).
Proof.
  intros w r e ((V & W & P) & L) K. split.
  - unfold pres, getr. simpl. repeat split; auto. intros i x H N. exists x. auto.
  - split; [split; [exact V | split; [exact W | exact P]] |].
    unfold loginv. simpl. constructor; assumption.
Qed.

Lemma getr_set_same : forall w r x y, getr w r = Some y -> getr (set_rt r x w) r = Some x.
Proof. intros. unfold getr in *. simpl. eapply nth_upd_same; eauto. Qed.

Lemma getr_set_other : forall w r x i, r <> i -> getr (set_rt r x w) i = getr w i.
Proof. intros. unfold getr. simpl. apply nth_upd_other; auto. Qed.

(* replacing a non-running record by a well-formed non-running record *)
Lemma set_rt_nonrunning : forall w r x x',
  getr w r = Some x -> st x <> Running -> st x' <> Running -> wfrt x' -> good w ->
  pres w (set_rt r x' w) /\ good (set_rt r x' w).
Proof.
  intros w r x x' G N N' WF ((V & W & P) & L). split.
  - unfold pres. simpl. rewrite upd_nth_length. repeat split; auto.
    + intros i y H S. destruct (Nat.eq_dec r i) as [E | E].
      * subst. rewrite G in H. inversion H. subst. contradiction.
      * rewrite getr_set_other; auto.
    + intros i y H S. destruct (Nat.eq_dec r i) as [E | E].
      * subst. exists x'. split; auto. eapply getr_set_same; eauto.
      * exists y. rewrite getr_set_other; auto.
  - split; [| exact L]. split; [| split].
    + unfold cur_valid in *. simpl. rewrite upd_nth_length. exact V.
    + intros i y H. destruct (Nat.eq_dec r i) as [E | E].
      * subst. erewrite getr_set_same in H; eauto. inversion H. subst. exact WF.
      * rewrite getr_set_other in H; auto. eapply W; eauto.
    + exact P.
Qed.

Lemma sched_all_ok : forall rs w, good w ->
  pres w (fst (sched_all rs w)) /\ good (fst (sched_all rs w)).
Proof.
  intros rs w G. unfold sched_all. destruct rs.
  - simpl. split; [apply pres_refl | exact G].
  - destruct (cur_secs w); simpl.
    + apply same_core_ok; auto. repeat split.
    + split; [apply pres_refl | exact G].
Qed.

Lemma set_cell_ok : forall c x w, good w -> pres w (set_cell c x w) /\ good (set_cell c x w).
Proof. intros. apply same_core_ok; auto. repeat split. Qed.

Section Patched.
Variable defs : list rdef.
Local Notation cfg := patched.

(* ---- every operation except next ------------------------------------------- *)
Lemma rt_change_ok : forall w r x x',
  good w -> getr w r = Some x -> st x <> Running -> st x' <> Running ->
  parent x' = parent x -> gexec x' = gexec x -> (st x' <> Done -> term x' = None) ->
  pres w (set_rt r x' w) /\ good (set_rt r x' w).
Proof.
  intros w r x x' G E N N' PA GE TM. pose proof G as ((V & W & P) & L).
  eapply set_rt_nonrunning; eauto.
  destruct (W _ _ E) as [A B]. destruct (A N) as [A1 A2].
  split; [intros _; split; congruence | exact TM].
Qed.

Lemma running_refused : forall c r x w,
  (forall i v, c <> CNext i v) -> targets_self c r = true -> getr w r = Some x -> st x = Running ->
  do_direct cfg c w = (w, Exc ERoutine).
Proof.
  intros c r x w NN T E S. unfold getr in E.
  destruct c as [i v | i | i | i | i | i | i | i | i b | i v]; simpl in T; try discriminate;
    try (exfalso; eapply NN; reflexivity);
    apply Nat.eqb_eq in T; subst i; simpl;
    unfold do_stop, do_pause, do_reset; rewrite E, S; reflexivity.
Qed.

Lemma term_of_nondone : forall w r x, good w -> getr w r = Some x -> st x <> Done -> term x = None.
Proof. intros w r x ((V & W & P) & L) E N. destruct (W _ _ E) as [A B]. auto. Qed.

Lemma direct_ok : forall c w,
  good w -> pres w (fst (do_direct cfg c w)) /\ good (fst (do_direct cfg c w)).
Proof.
  intros c w G.
  assert (TRIV : pres w w /\ good w) by (split; [apply pres_refl | exact G]).
  destruct c as [r v | r | r | r | r | r | c | c | c b | c v]; simpl.
  - exact TRIV.
  - (* stop *)
    unfold do_stop. fold (getr w r). destruct (getr w r) as [x |] eqn:E; [| exact TRIV].
    destruct (st x) eqn:S; simpl; try exact TRIV;
      (eapply rt_change_ok; eauto; simpl; congruence).
  - (* pause *)
    unfold do_pause. fold (getr w r). destruct (getr w r) as [x |] eqn:E; [| exact TRIV].
    destruct (st x) eqn:S; simpl; try exact TRIV;
      (eapply rt_change_ok; eauto; simpl; try congruence;
       intros _; eapply term_of_nondone; eauto; congruence).
  - (* resume *)
    unfold do_resume. fold (getr w r). destruct (getr w r) as [x |] eqn:E; [| exact TRIV].
    destruct (st x) eqn:S; simpl; try exact TRIV.
    assert (Hs : pres w (set_rt r (with_st Suspended x) w) /\ good (set_rt r (with_st Suspended x) w)).
    { eapply rt_change_ok; eauto; simpl; try congruence.
      intros _; eapply term_of_nondone; eauto; congruence. }
    destruct Hs as [Hp Hg]. destruct (sched_all_ok [r] _ Hg) as [Hp2 Hg2].
    split; [eapply pres_trans; [exact Hp | exact Hp2] | exact Hg2].
  - (* reset *)
    unfold do_reset. fold (getr w r). destruct (getr w r) as [x |] eqn:E; [| exact TRIV].
    destruct (st x) eqn:S; simpl; try exact TRIV;
      (eapply rt_change_ok; eauto; simpl; congruence).
  - (* play *)
    unfold do_play. fold (getr w r). destruct (getr w r) as [x |] eqn:E; [| exact TRIV].
    destruct (st x) eqn:S; simpl; try exact TRIV.
    + assert (Hs : pres w (set_rt r (with_st Suspended x) w) /\ good (set_rt r (with_st Suspended x) w)).
      { eapply rt_change_ok; eauto; simpl; try congruence.
        intros _; eapply term_of_nondone; eauto; congruence. }
      destruct Hs as [Hp Hg]. destruct (sched_all_ok [r] _ Hg) as [Hp2 Hg2].
      split; [eapply pres_trans; [exact Hp | exact Hp2] | exact Hg2].
    + assert (Hs : pres w (set_rt r (with_st Suspended x) w) /\ good (set_rt r (with_st Suspended x) w)).
      { eapply rt_change_ok; eauto; simpl; try congruence.
        intros _; eapply term_of_nondone; eauto; congruence. }
      destruct Hs as [Hp Hg]. destruct (sched_all_ok [r] _ Hg) as [Hp2 Hg2].
      split; [eapply pres_trans; [exact Hp | exact Hp2] | exact Hg2].
  - (* signal *)
    unfold do_signal. destruct (nth_error (cells w) c) as [x |]; [| exact TRIV].
    destruct (cell_err x); [exact TRIV |].
    destruct (cell_signal x) as [x' ws]. cbv iota beta. destruct (set_cell_ok c x' w G) as [Hp Hg].
    destruct (sched_all_ok ws _ Hg) as [Hp2 Hg2].
    split; [eapply pres_trans; [exact Hp | exact Hp2] | exact Hg2].
  - (* unhang *)
    unfold do_unhang. destruct (nth_error (cells w) c) as [x |]; [| exact TRIV].
    destruct (cell_unhang x) as [x' ws]. cbv iota beta. destruct (set_cell_ok c x' w G) as [Hp Hg].
    destruct (sched_all_ok ws _ Hg) as [Hp2 Hg2].
    split; [eapply pres_trans; [exact Hp | exact Hp2] | exact Hg2].
  - (* test = b *)
    unfold do_settest. destruct (nth_error (cells w) c) as [x |]; simpl; [| exact TRIV].
    apply set_cell_ok; exact G.
  - (* value = v *)
    unfold do_flowset. destruct (nth_error (cells w) c) as [x |]; simpl; [| exact TRIV].
    destruct (cell_flowset v x) as [[x' ws] |]; simpl; [| exact TRIV].
    destruct (set_cell_ok c x' w G) as [Hp Hg]. destruct (sched_all_ok ws _ Hg) as [Hp2 Hg2].
    split; [eapply pres_trans; [exact Hp | exact Hp2] | exact Hg2].
Qed.

(* ---- the specification every (nested) next() satisfies ----------------------- *)
Definition CN (call_next : nat -> val -> world -> world * outcome) : Prop :=
  forall r v w, good w ->
    pres w (fst (call_next r v w)) /\ good (fst (call_next r v w)) /\
    (forall x, getr w r = Some x -> st x = Running -> refusal (snd (call_next r v w))).

Lemma do_call_ok : forall call_next, CN call_next -> forall c w, good w ->
  pres w (fst (do_call cfg call_next c w)) /\ good (fst (do_call cfg call_next c w)) /\
  (forall r x, targets_self c r = true -> getr w r = Some x -> st x = Running ->
               refusal (snd (do_call cfg call_next c w))).
Proof.
  intros call_next H c w G.
  destruct (match c with CNext _ _ => true | _ => false end) eqn:K.
  - destruct c as [r v | | | | | | | | |]; try discriminate.
    simpl. destruct (H r v w G) as (A & B & C). split; [exact A | split; [exact B |]].
    intros r' x' T E S. simpl in T. apply Nat.eqb_eq in T. subst. eapply C; eauto.
  - assert (EQ : do_call cfg call_next c w = do_direct cfg c w) by (destruct c; try discriminate; reflexivity).
    assert (NN : forall i v, c <> CNext i v) by (intros i v Q; subst; discriminate).
    rewrite EQ. destruct (direct_ok c w G) as (A & B). split; [exact A | split; [exact B |]].
    intros r' x' T E S. rewrite (running_refused c r' x' w NN T E S). left; reflexivity.
Qed.

(* ---- bodies -------------------------------------------------------------------- *)
Lemma exec_ok : forall call_next, CN call_next ->
  forall acts self k pc w x,
    good w -> cur w = Some (R self) -> getr w self = Some x -> st x = Running ->
    pres w (fst (exec cfg call_next self k acts pc w)) /\ good (fst (exec cfg call_next self k acts pc w)).
Proof.
  intros call_next H. induction acts as [| a rest IH]; intros self k pc w x G C E SR.
  - simpl. split; [apply pres_refl | exact G].
  - assert (KEEP : forall w1, pres w w1 -> good w1 -> forall pc',
               pres w (fst (exec cfg call_next self k rest pc' w1)) /\ good (fst (exec cfg call_next self k rest pc' w1))).
    { intros w1 P1 G1 pc'. pose proof P1 as (Q1 & Q2 & Q3 & Q4 & Q5).
      destruct (IH self k pc' w1 x G1) as [P2 G2]; try congruence; auto.
      split; [eapply pres_trans; eauto | exact G2]. }
    destruct a as [v | | | v | v | c catch | c | c | v | | rr vv]; simpl.
    + destruct k; simpl; [split; [apply pres_refl | exact G] | apply KEEP; [apply pres_refl | exact G]].
    + split; [apply pres_refl | exact G].
    + split; [apply pres_refl | exact G].
    + split; [apply pres_refl | exact G].
    + split; [apply pres_refl | exact G].
    + destruct (do_call_ok call_next H c w G) as (P1 & G1 & R1).
      destruct (do_call cfg call_next c w) as [w1 o] eqn:DC. simpl in P1, G1, R1.
      assert (LK : logok (self, EvCall c o)).
      { unfold logok. simpl. intro T. eapply R1; eauto. }
      destruct (add_log_ok w1 self (EvCall c o) G1 LK) as [P2 G2].
      destruct o as [v | e].
      * apply KEEP; [eapply pres_trans; eauto | exact G2].
      * destruct (catch && catchable e).
        -- apply KEEP; [eapply pres_trans; eauto | exact G2].
        -- simpl. split; assumption.
    + destruct k; [| apply KEEP; [apply pres_refl | exact G]].
      unfold do_wait. destruct (nth_error (cells w) c) as [cx |]; [| simpl; split; [apply pres_refl | exact G]].
      rewrite C. destruct (cell_err cx); [simpl; split; [apply pres_refl | exact G] |].
      destruct (cell_test cx); [simpl; split; [apply pres_refl | exact G] |].
      destruct (tplayer (S (length (rts w))) w self) as [p |]; [| simpl; split; [apply pres_refl | exact G]].
      destruct (cell_wait p cx) as [cx' v]. simpl. apply set_cell_ok; exact G.
    + destruct (nth_error (cells w) c) as [cx |].
      * assert (LK : logok (self, EvFlow (cell_value cx))) by exact I.
        destruct (add_log_ok w self _ G LK) as [P2 G2]. apply KEEP; assumption.
      * apply KEEP; [apply pres_refl | exact G].
    + unfold log_self. fold (getr w self). rewrite E, C, Nat.eqb_refl.
      assert (LK : logok (self, EvLog v true (st x) (secs x))) by (split; [reflexivity | exact SR]).
      destruct (add_log_ok w self _ G LK) as [P2 G2]. apply KEEP; assumption.
    + split; [apply pres_refl | exact G].
    + destruct k; [| apply KEEP; [apply pres_refl | exact G]].
      destruct (H rr vv w G) as (P1 & G1 & _).
      destruct (call_next rr vv w) as [w1 o]. simpl in P1, G1.
      destruct o; simpl; split; assumption.
Qed.

(* ---- next -------------------------------------------------------------------- *)
Definition tid_valid (p : tid) (w : world) : Prop :=
  match p with Main => True | R i => (i < length (rts w))%nat end.

(* outcome of a next() that ran the body versus the state it leaves (stream.py:504-528) *)
Definition out_rel (o : outcome) (x' : rt) : Prop :=
  match o with
  | Ret v => lastv x' = v /\ (st x' = Suspended \/ st x' = Init \/ (st x' = Done /\ term x' = Some v))
  | Exc e => st x' = Done /\ term x' = None
  end.

Lemma secs_of_valid : forall p w, tid_valid p w -> secs_of p w <> None.
Proof.
  intros [| i] w V; simpl in *; [discriminate |].
  destruct (nth_error (rts w) i) eqn:E; simpl; [discriminate | apply nth_error_None in E; lia].
Qed.

(* the except clauses and the finally: the routine leaves the stack, the caller is current again *)
Lemma finish_ok : forall r d b w x p,
  good w -> getr w r = Some x -> st x = Running -> parent x = Some p -> term x = None -> tid_valid p w ->
  good (fst (finish r d b true w)) /\ cur (fst (finish r d b true w)) = Some p /\
  main_secs (fst (finish r d b true w)) = main_secs w /\
  length (rts (fst (finish r d b true w))) = length (rts w) /\
  (forall i, i <> r -> getr (fst (finish r d b true w)) i = getr w i) /\
  (exists x', getr (fst (finish r d b true w)) r = Some x' /\ st x' <> Running /\
              out_rel (snd (finish r d b true w)) x').
Proof.
  intros r d b w x p ((V & W & P) & L) E SR PA TM VP.
  unfold finish. fold (getr w r). rewrite E.
  match goal with
  | [ |- context [ let '(x1, o) := ?X in _ ] ] => destruct X as [x1 o] eqn:XE
  end.
  assert (X1 : st x1 <> Running /\ (st x1 <> Done -> term x1 = None) /\ out_rel o x1).
  { destruct b as [v pc' | | e | v | v]; simpl in XE.
    - inversion XE; subst; simpl. split; [congruence | split; [auto | split; [reflexivity | left; reflexivity]]].
    - inversion XE; subst; simpl. split; [congruence | split; [congruence | split; [reflexivity | exact TM]]].
    - destruct (is_stop e); inversion XE; subst; simpl; (split; [congruence | split; [congruence | split; [reflexivity | exact TM]]]).
    - inversion XE; subst; simpl. split; [congruence | split; [auto | split; [reflexivity | right; left; reflexivity]]].
    - inversion XE; subst; simpl. split; [congruence | split; [congruence | split; [reflexivity | right; right; split; reflexivity]]]. }
  destruct X1 as (N1 & T1 & O1). simpl. rewrite upd_nth_length.
  split; [| split; [exact PA | split; [reflexivity | split; [reflexivity | split]]]].
  - split; [| exact L]. split; [| split; [| exact P]].
    + unfold cur_valid. simpl. rewrite upd_nth_length, PA. exact VP.
    + intros i y H. destruct (Nat.eq_dec r i) as [Q | Q].
      * subst i. unfold getr in H. simpl in H. erewrite nth_upd_same in H; [| exact E].
        inversion H. subst y. split; simpl; [intros _; auto | exact T1].
      * unfold getr in H. simpl in H. rewrite nth_upd_other in H; auto. eapply W; eauto.
  - intros i Q. unfold getr. simpl. apply nth_upd_other. auto.
  - eexists. split; [unfold getr; simpl; eapply nth_upd_same; exact E | split; [simpl; exact N1 |]].
    destruct o; simpl in *; exact O1.
Qed.

Lemma tid_valid_of_cur : forall w p, good w -> cur w = Some p -> tid_valid p w.
Proof. intros w p ((V & W & P) & L) C. unfold cur_valid in V. rewrite C in V. destruct p; exact V. Qed.

(* entering a routine that is not running: push, run the body, pop *)
Lemma next_run_ok : forall call_next, CN call_next -> forall r v w x,
  good w -> getr w r = Some x -> st x <> Running -> st x <> Done ->
  pres w (fst (next_run cfg defs call_next r v w x)) /\ good (fst (next_run cfg defs call_next r v w x)) /\
  (nth_error defs r <> None ->
   exists x', getr (fst (next_run cfg defs call_next r v w x)) r = Some x' /\
              out_rel (snd (next_run cfg defs call_next r v w x)) x').
Proof.
  intros call_next H r v w x G E NR ND. pose proof G as ((V & W & P) & L).
  assert (TRIV : pres w w /\ good w) by (split; [apply pres_refl | exact G]).
  unfold next_run. destruct (nth_error defs r) as [d |]; [| destruct TRIV; split; [assumption | split; [assumption | congruence]]].
  destruct (cur w) as [p |] eqn:C; [| exfalso; unfold cur_valid in V; rewrite C in V; exact V].
  pose proof (tid_valid_of_cur w p G C) as VP.
  destruct (secs_of p w) as [ps |] eqn:SO; [| exfalso; eapply secs_of_valid; eauto].
  destruct (W _ _ E) as [WA WB]. destruct (WA NR) as [PN GX]. pose proof (WB ND) as TN.
  set (x1 := with_st Running (with_secs ps (with_parent (Some p) x))).
  set (w1 := set_cur (Some (R r)) (set_rt r x1 w)).
  (* the world while the body runs, for any record x2 that is x1 up to iterator / executing flag *)
  assert (RUN : forall x2, st x2 = Running -> parent x2 = Some p -> term x2 = None ->
            let w2 := set_rt r x2 w1 in
            good w2 /\ cur w2 = Some (R r) /\ getr w2 r = Some x2 /\ main_secs w2 = main_secs w /\
            length (rts w2) = length (rts w) /\ (forall i, i <> r -> getr w2 i = getr w i)).
  { intros x2 S2 P2 T2 w2. unfold w2, w1. simpl.
    assert (LEN : length (upd_nth r x2 (upd_nth r x1 (rts w))) = length (rts w)) by (rewrite !upd_nth_length; reflexivity).
    assert (SAME : nth_error (upd_nth r x2 (upd_nth r x1 (rts w))) r = Some x2).
    { eapply nth_upd_same. eapply nth_upd_same. exact E. }
    assert (OTHER : forall i, i <> r -> nth_error (upd_nth r x2 (upd_nth r x1 (rts w))) i = nth_error (rts w) i).
    { intros i Q. rewrite !nth_upd_other; auto. }
    split; [| split; [reflexivity | split; [exact SAME | split; [reflexivity | split; [exact LEN | exact OTHER]]]]].
    split; [| exact L]. split; [| split; [| exact P]].
    - unfold cur_valid. simpl. rewrite LEN. apply nth_error_Some. unfold getr in E. congruence.
    - intros i y Hy. unfold getr in Hy. simpl in Hy. destruct (Nat.eq_dec i r) as [Q | Q].
      + subst i. rewrite SAME in Hy. inversion Hy. subst y. split; [intro; congruence | intros _; exact T2].
      + rewrite OTHER in Hy; auto. eapply W; eauto. }
  (* after the body: pop *)
  assert (POP : forall x2 w2 w3 b, st x2 = Running -> parent x2 = Some p -> term x2 = None ->
            good w2 -> cur w2 = Some (R r) -> getr w2 r = Some x2 -> main_secs w2 = main_secs w ->
            length (rts w2) = length (rts w) -> (forall i, i <> r -> getr w2 i = getr w i) ->
            pres w2 w3 -> good w3 ->
            pres w (fst (finish r d b true w3)) /\ good (fst (finish r d b true w3)) /\
            (Some d <> None -> exists x', getr (fst (finish r d b true w3)) r = Some x' /\
                               out_rel (snd (finish r d b true w3)) x')).
  { intros x2 w2 w3 b S2 P2 T2 G2 C2 E2 M2 L2 O2 (Q1 & Q2 & Q3 & Q4 & Q5) G3.
    pose proof (Q4 r x2 E2 S2) as E3.
    assert (VP3 : tid_valid p w3) by (destruct p; simpl in *; [exact I | rewrite Q3, L2; exact VP]).
    destruct (finish_ok r d b w3 x2 p G3 E3 S2 P2 T2 VP3) as (F1 & F2 & F3 & F4 & F5 & F6).
    split; [| split; [exact F1 | intros _; destruct F6 as (x' & F6a & F6b & F6c); exists x'; split; assumption]].
    unfold pres. rewrite F2, F3, F4, Q2, Q3, M2, L2. split; [symmetry; exact C | split; [reflexivity | split; [reflexivity | split]]].
    - intros i y Hy Sy. assert (Q : i <> r) by (intro; subst i; rewrite E in Hy; inversion Hy; subst; contradiction).
      rewrite F5; auto. apply Q4; auto. rewrite O2; auto.
    - intros i y Hy Sy. destruct (Nat.eq_dec i r) as [Q | Q].
      + subst i. destruct F6 as (x' & F6a & F6b & F6c). exists x'. split; assumption.
      + rewrite F5; auto. apply (Q5 i y); auto. rewrite O2; auto. }
  destruct (d_kind d).
  - (* generator function *)
    rewrite GX.
    set (pc := match iter x with Some pc => pc | None => O end).
    set (x2 := with_gexec true (with_iter (Some pc) x1)).
    destruct (RUN x2 eq_refl eq_refl TN) as (G2 & C2 & E2 & M2 & L2 & O2).
    set (w2 := set_rt r x2 w1) in *.
    match goal with
    | [ |- context [ exec _ _ _ _ _ _ ?W ] ] => set (w2' := W)
    end.
    assert (G2' : good w2' /\ cur w2' = Some (R r) /\ getr w2' r = Some x2 /\ main_secs w2' = main_secs w /\
                  length (rts w2') = length (rts w) /\ (forall i, i <> r -> getr w2' i = getr w i)).
    { unfold w2'.
      assert (LOGGED : forall e, logok (r, e) ->
                good (add_log r e w2) /\ cur (add_log r e w2) = Some (R r) /\ getr (add_log r e w2) r = Some x2 /\
                main_secs (add_log r e w2) = main_secs w /\ length (rts (add_log r e w2)) = length (rts w) /\
                (forall i, i <> r -> getr (add_log r e w2) i = getr w i)).
      { intros e K. destruct (add_log_ok w2 r e G2 K) as [_ GL].
        split; [exact GL | split; [exact C2 | split; [exact E2 | split; [exact M2 | split; [exact L2 | exact O2]]]]]. }
      destruct (iter x).
      - destruct (nth_error (d_script d) (Nat.pred pc)) as [[] |]; try (split; [exact G2 | split; [exact C2 | split; [exact E2 | split; [exact M2 | split; [exact L2 | exact O2]]]]]);
          apply LOGGED; exact I.
      - destruct (d_hasin d); [apply LOGGED; exact I | split; [exact G2 | split; [exact C2 | split; [exact E2 | split; [exact M2 | split; [exact L2 | exact O2]]]]]]. }
    destruct G2' as (G2' & C2' & E2' & M2' & L2' & O2').
    destruct (exec_ok call_next H (skipn pc (d_script d)) r Gen pc w2' x2 G2' C2' E2' eq_refl) as [P3 G3].
    destruct (exec cfg call_next r Gen (skipn pc (d_script d)) pc w2') as [w3 b]. simpl in P3, G3.
    exact (POP x2 w2' w3 b eq_refl eq_refl TN G2' C2' E2' M2' L2' O2' P3 G3).
  - (* common function *)
    destruct (RUN x1 eq_refl eq_refl TN) as (G2 & C2 & E2 & M2 & L2 & O2).
    assert (IDEM : set_rt r x1 w1 = w1).
    { unfold w1, set_rt, set_cur. simpl. f_equal.
      clear -E. unfold getr in E. revert r E. induction (rts w) as [| h t IH]; intros [| r] E; simpl in *; try discriminate; auto.
      f_equal. eapply IH; eauto. }
    rewrite IDEM in *.
    match goal with
    | [ |- context [ exec _ _ _ _ _ _ ?W ] ] => set (w2' := W)
    end.
    assert (G2' : good w2' /\ cur w2' = Some (R r) /\ getr w2' r = Some x1 /\ main_secs w2' = main_secs w /\
                  length (rts w2') = length (rts w) /\ (forall i, i <> r -> getr w2' i = getr w i)).
    { unfold w2'. destruct (d_hasin d); [| split; [exact G2 | split; [exact C2 | split; [exact E2 | split; [exact M2 | split; [exact L2 | exact O2]]]]]].
      destruct (add_log_ok w1 r (EvArg v) G2 I) as [_ GL].
      split; [exact GL | split; [exact C2 | split; [exact E2 | split; [exact M2 | split; [exact L2 | exact O2]]]]]. }
    destruct G2' as (G2' & C2' & E2' & M2' & L2' & O2').
    destruct (exec_ok call_next H (d_script d) r Fn O w2' x1 G2' C2' E2' eq_refl) as [P3 G3].
    destruct (exec cfg call_next r Fn (d_script d) O w2') as [w3 b]. simpl in P3, G3.
    exact (POP x1 w2' w3 _ eq_refl eq_refl TN G2' C2' E2' M2' L2' O2' P3 G3).
Qed.

Lemma next_step_ok : forall call_next, CN call_next -> CN (next_step cfg defs call_next).
Proof.
  intros call_next H r v w G.
  assert (TRIV : pres w w /\ good w) by (split; [apply pres_refl | exact G]).
  unfold next_step. fold (getr w r).
  destruct (getr w r) as [x |] eqn:E.
  2: { simpl. destruct TRIV as [T1 T2]. split; [exact T1 | split; [exact T2 |]]. intros y Y. discriminate. }
  destruct (st x) eqn:SX; simpl.
  - destruct (next_run_ok call_next H r v w x G E) as (A & B & _); try congruence.
    split; [exact A | split; [exact B |]]. intros y Y SY. inversion Y; subst. congruence.
  - destruct TRIV. split; [assumption | split; [assumption |]]. intros; left; reflexivity.
  - destruct (next_run_ok call_next H r v w x G E) as (A & B & _); try congruence.
    split; [exact A | split; [exact B |]]. intros y Y SY. inversion Y; subst. congruence.
  - destruct TRIV. split; [assumption | split; [assumption |]]. intros y Y SY. inversion Y; subst. congruence.
  - destruct TRIV. split; [assumption | split; [assumption |]]. intros y Y SY. inversion Y; subst. congruence.
Qed.

Theorem next_ok : forall fuel, CN (next_ cfg defs fuel).
Proof.
  induction fuel as [| f IH].
  - intros r v w G. simpl. split; [apply pres_refl | split; [exact G |]]. intros; right; reflexivity.
  - simpl. apply next_step_ok. exact IH.
Qed.

(* ---- top level ------------------------------------------------------------------ *)
Definition quiescent (w : world) : Prop :=
  good w /\ cur w = Some Main /\ forall i x, getr w i = Some x -> st x <> Running.

Lemma pres_quiescent : forall w w', quiescent w -> pres w w' -> good w' -> quiescent w'.
Proof.
  intros w w' (G & C & N) (Q1 & Q2 & Q3 & Q4 & Q5) G'. split; [exact G' | split; [congruence |]].
  intros i x' E'. assert (LT : (i < length (rts w))%nat) by (rewrite <- Q3; apply nth_error_Some; unfold getr in E'; congruence).
  destruct (nth_error (rts w) i) as [x |] eqn:E; [| apply nth_error_None in E; lia].
  destruct (Q5 i x E (N i x E)) as (x'' & E'' & N''). congruence.
Qed.

Lemma top_ok : forall fuel op w, quiescent w ->
  quiescent (fst (top cfg defs fuel op w)) /\
  (op <> OTick -> main_secs (fst (top cfg defs fuel op w)) = main_secs w).
Proof.
  intros fuel op w Q. pose proof Q as (G & C & N).
  destruct op as [c |]; simpl.
  - destruct (do_call_ok (next_ cfg defs fuel) (next_ok fuel) c w G) as (A & B & _).
    split; [eapply pres_quiescent; eauto | intros _; apply A].
  - split; [| intro K; congruence].
    destruct (queue w) as [| [t r] q]; [exact Q |].
    set (w1 := set_main_secs t (set_queue q w)).
    assert (Q1 : quiescent w1).
    { destruct (same_core_ok w (set_queue q w)) as [_ Ga]; [repeat split | exact G |].
      unfold w1. destruct Ga as ((V & W & P) & L).
      split; [split; [split; [exact V | split; [exact W | exact P]] | exact L] | split; [exact C | exact N]]. }
    destruct (next_ok fuel r VAwake w1 (proj1 Q1)) as (A & B & _).
    destruct (next_ cfg defs fuel r VAwake w1) as [w2 o]. simpl in A, B.
    pose proof (pres_quiescent w1 w2 Q1 A B) as Q2.
    destruct o as [[| d | | | | | d | | |] | e]; exact Q2.
Qed.

Lemma init_quiescent : forall cs, quiescent (init_world defs cs).
Proof.
  intro cs. unfold init_world. split; [split; [split; [exact I | split; [| reflexivity]] | constructor] | split; [reflexivity |]].
  - intros i x E. unfold getr in E. simpl in E. apply nth_error_In in E. apply in_map_iff in E.
    destruct E as (d & Ed & _). subst x. split; simpl; [intros _; auto | auto].
  - intros i x E. unfold getr in E. simpl in E. apply nth_error_In in E. apply in_map_iff in E.
    destruct E as (d & Ed & _). subst x. simpl. congruence.
Qed.

Lemma run_ok : forall fuel ops w, quiescent w ->
  quiescent (fst (run cfg defs fuel ops w)) /\
  Forall (fun p => quiescent (snd p)) (snd (run cfg defs fuel ops w)).
Proof.
  intros fuel. induction ops as [| o ops IH]; intros w Q; simpl.
  - split; [exact Q | constructor].
  - destruct (top_ok fuel o w Q) as [Q1 _].
    destruct (top cfg defs fuel o w) as [w1 out]. simpl in Q1.
    destruct (IH w1 Q1) as [Q2 F2]. destruct (run cfg defs fuel ops w1) as [w2 outs]. simpl in *.
    split; [exact Q2 | constructor; [exact Q1 | exact F2]].
Qed.

End Patched.
