(* C10: which primitive operations of a segment (KRand.xrun) touch the generator objects and the logged
   values, and which touch the clock part; lifted to wake-ups and whole executions. *)
From Coq Require Import ZArith QArith Qround List Bool Lia.
Require Import SC3.model.KProg SC3.model.KNrt SC3.model.KRt SC3.model.KRand SC3.model.KAgree.
Import ListNotations.
Open Scope Q_scope.

(* the generator store and the value log *)
Definition gv (st : xstate) : list (Z * list Z) * list vevent := (x_gens st, x_vals st).

Lemma gv_set_n st n : gv (set_n st n) = gv st. Proof. reflexivity. Qed.
Lemma gv_set_xrouts st r : gv (set_xrouts st r) = gv st. Proof. reflexivity. Qed.
Lemma gv_set_conds st c : gv (set_conds st c) = gv st. Proof. reflexivity. Qed.
Lemma gv_set_flows st f : gv (set_flows st f) = gv st. Proof. reflexivity. Qed.
Lemma gv_upd_rout st rid f : gv (upd_rout st rid f) = gv st.
Proof. unfold upd_rout. destruct (nth_error (x_routs st) rid); reflexivity. Qed.
Lemma gv_sched dd rt st T w : gv (x_sched dd rt st T w) = gv st.
Proof. unfold x_sched. destruct (nth_error (x_routs st) w); reflexivity. Qed.
Lemma gv_sched_all dd rt T ws : forall st, gv (x_sched_all dd rt st T ws) = gv st.
Proof.
  unfold x_sched_all. induction ws as [|w ws IH]; intros st; simpl; auto.
  rewrite IH. apply gv_sched.
Qed.

Section Prims.
  Context (gen : Z -> list Z -> Z -> Z) (dd : bool) (rt : option Z) (p : xprog).
  Lemma gv_send st rid k T lat es : gv (fst (x_send rt st rid k T lat es)) = gv st.
  Proof. reflexivity. Qed.
  Lemma gv_play st rid k T b c : gv (fst (x_play dd rt p st rid k T b c)) = gv st.
  Proof.
    unfold x_play. destruct (nth_error (xp_bodies p) b); auto.
    destruct (clock_ok (n_tcs (x_n st)) c && clock_ok_mode rt c); reflexivity.
  Qed.
  Lemma gv_tempo st rid k T i v : gv (fst (x_tempo rt st rid k T i v)) = gv st.
  Proof. reflexivity. Qed.
  Lemma gv_setbeats st rid k T i v : gv (fst (x_setbeats rt st rid k T i v)) = gv st.
  Proof. unfold x_setbeats. destruct (nth_error (n_tcs (x_n st)) i); reflexivity. Qed.
  Lemma gv_signal st T c : gv (fst (x_signal dd rt st T c)) = gv st.
  Proof.
    unfold x_signal. destruct (nth_error (x_conds st) c) as [[t ws]|]; auto.
    destruct t; auto. simpl. rewrite gv_sched_all. reflexivity.
  Qed.
  Lemma gv_settest st c t : gv (fst (x_settest st c t)) = gv st.
  Proof. unfold x_settest. destruct (nth_error (x_conds st) c) as [[t' ws]|]; reflexivity. Qed.
  Lemma gv_flowset st T f v : gv (fst (x_flowset dd rt st T f v)) = gv st.
  Proof.
    unfold x_flowset. destruct (nth_error (x_flows st) f) as [[[x|] ws]|]; auto.
    simpl. rewrite gv_sched_all. reflexivity.
  Qed.
  Lemma gv_pause st rid b : gv (fst (x_pause st rid b)) = gv st.
  Proof.
    unfold x_pause. destruct (latest b (x_routs st)); auto. destruct (Nat.eqb n rid); auto.
    simpl. apply gv_upd_rout.
  Qed.
  Lemma gv_resume st rid T b : gv (fst (x_resume dd rt st rid T b)) = gv st.
  Proof.
    unfold x_resume. destruct (latest b (x_routs st)); auto. destruct (Nat.eqb n rid); auto.
    destruct (nth_error (x_routs st) n); auto. destruct (xr_st x); auto.
    simpl. rewrite gv_sched. apply gv_upd_rout.
  Qed.

  (* induction over a segment for a property P of (generators, values): only seed, draw and the
     flow-variable read can change it *)
  Context (P : list (Z * list Z) * list vevent -> Prop).
  Hypothesis Pseed : forall st rid s, P (gv st) -> P (gv (fst (x_seed st rid s))).
  Hypothesis Pdraw : forall st rid k req, P (gv st) -> P (gv (fst (x_draw gen st rid k req))).
  Hypothesis Pread : forall st rid k f, P (gv st) -> P (gv (fst (x_flowread st rid k f))).

  Lemma xrun_gv : forall acts st rid k T cclk st' oc,
    xrun gen dd rt p st rid k T cclk acts = (st', oc) -> P (gv st) -> P (gv st').
  Proof.
    induction acts as [|a acts IH]; intros st rid k T cclk st' oc H HP.
    - inversion H; subst; auto.
    - destruct a; cbn [xrun] in H;
        try (match type of H with
             | (if snd ?r then _ else _) = _ =>
                 let E := fresh "E" in
                 destruct (snd r) eqn:E;
                 [ eapply IH; [exact H|] | apply (f_equal fst) in H; cbn [fst] in H; rewrite <- H ]
             end).
      + inversion H; subst; auto.
      + rewrite gv_send; auto.
      + rewrite gv_send; auto.
      + rewrite gv_play; auto.
      + rewrite gv_play; auto.
      + rewrite gv_play; auto.
      + rewrite gv_play; auto.
      + rewrite gv_tempo; auto.
      + rewrite gv_tempo; auto.
      + rewrite gv_setbeats; auto.
      + rewrite gv_setbeats; auto.
      + apply Pseed; auto.
      + apply Pseed; auto.
      + apply Pdraw; auto.
      + apply Pdraw; auto.
      + destruct (nth_error (x_conds st) c) as [[t ws]|]; [|inversion H; subst; auto].
        destruct t; inversion H; subst; auto.
      + rewrite gv_signal; auto.
      + rewrite gv_signal; auto.
      + rewrite gv_settest; auto.
      + rewrite gv_settest; auto.
      + destruct (nth_error (x_flows st) f) as [[[x|] ws]|]; inversion H; subst; auto.
      + apply Pread; auto.
      + apply Pread; auto.
      + rewrite gv_flowset; auto.
      + rewrite gv_flowset; auto.
      + rewrite gv_pause; auto.
      + rewrite gv_pause; auto.
      + rewrite gv_resume; auto.
      + rewrite gv_resume; auto.
      + inversion H; subst; auto.
      + inversion H; subst; auto.
  Qed.

  Lemma gv_after st2 oc rid k c resched :
    (forall s d, gv (resched s d) = gv s) -> gv (x_after st2 oc rid k c resched) = gv st2.
  Proof.
    intros Hr. unfold x_after. destruct oc.
    - rewrite Hr. apply gv_upd_rout.
    - apply gv_upd_rout.
    - simpl. apply gv_upd_rout.
    - simpl. apply gv_upd_rout.
  Qed.
End Prims.

Section Execs.
  Context (gen : Z -> list Z -> Z -> Z) (dd : bool) (p : xprog).
  Context (P : list (Z * list Z) * list vevent -> Prop).
  Hypothesis Pseed : forall st rid s, P (gv st) -> P (gv (fst (x_seed st rid s))).
  Hypothesis Pdraw : forall st rid k req, P (gv st) -> P (gv (fst (x_draw gen st rid k req))).
  Hypothesis Pread : forall st rid k f, P (gv st) -> P (gv (fst (x_flowread st rid k f))).

  Lemma nrt_wake_gv st e : P (gv st) -> P (gv (xnrt_wake gen dd p st e)).
  Proof.
    intros HP. unfold xnrt_wake.
    destruct (nth_error (x_routs st) (e_rid e)) as [r|]; [|exact HP].
    destruct (xr_st r); try exact HP.
    match goal with |- context [xrun gen dd None p ?s ?a ?b ?c ?d ?f] => destruct (xrun gen dd None p s a b c d f) as [st2 oc] eqn:E end.
    rewrite gv_after by reflexivity.
    eapply (xrun_gv gen dd None p P Pseed Pdraw Pread); [exact E|]. exact HP.
  Qed.
  Lemma nrt_loop_gv fuel : forall st, P (gv st) -> P (gv (xnrt_loop gen dd p fuel st)).
  Proof.
    induction fuel as [|f IH]; intros st HP; simpl; auto.
    destruct (n_q (x_n st)) as [|e rest]; auto. apply IH. apply nrt_wake_gv. exact HP.
  Qed.
  Lemma rt_wake_gv off st e : P (gv st) -> P (gv (xrt_wake gen off p st e)).
  Proof.
    intros HP. unfold xrt_wake.
    destruct (nth_error (x_routs st) (e_rid e)) as [r|]; [|exact HP].
    destruct (xr_st r); try exact HP.
    match goal with |- context [xrun gen true (Some off) p ?s ?a ?b ?c ?d ?f] => destruct (xrun gen true (Some off) p s a b c d f) as [st2 oc] eqn:E end.
    rewrite gv_after by reflexivity.
    eapply (xrun_gv gen true (Some off) p P Pseed Pdraw Pread); [exact E|]. exact HP.
  Qed.
  Lemma rt_step_gv off s ch : P (gv (xs s)) -> P (gv (xs (xrt_step gen off p s ch))).
  Proof.
    intros HP. destruct ch as [rid t]. unfold xrt_step.
    destruct (find_rid rid (n_q (x_n (xs s)))) as [e0|]; simpl; auto.
    destruct (pop_clock (e_clock e0) (n_q (x_n (xs s)))) as [[e rest]|]; simpl; auto.
    destruct (Nat.eqb (e_rid e) rid); simpl; auto. apply rt_wake_gv. exact HP.
  Qed.
  Lemma rt_run_gv off t0 sched : P (gv (xs (xrt_init p t0))) -> P (gv (xs (xrt_run gen off p t0 sched))).
  Proof.
    unfold xrt_run. generalize (xrt_init p t0). induction sched as [|ch l IH]; intros s HP; simpl; auto.
    apply IH. apply rt_step_gv. exact HP.
  Qed.
End Execs.

Lemma gv_init rt p t0 n : gv (x_init rt p t0 n) = ([(xp_mseed p, [])], []).
Proof. unfold x_init. destruct (nth_error (xp_bodies p) 0); reflexivity. Qed.
