(* C08 -- what each accepted event does to the queue, the counter and the program counter
   (one case analysis of [step], reused by every monitor proof). *)
From Coq Require Import QArith ZArith List Bool Arith Lia Lqa Permutation Sorting.
Import ListNotations.
Require Import SC3.model.TaskQ SC3.model.RtClock SC3.proofs.C09_order SC3.proofs.C08_sys.
Local Open Scope Q_scope.

(* the task being awakened, if any *)
Definition cur_of (p : pc) : option task :=
  match p with PAwake _ _ k => Some k | _ => None end.
(* the time read that loop 3 is working with *)
Definition nb_of (p : pc) : option Q :=
  match p with PLoop3 nb | PAwake nb _ _ | PReadd nb _ _ => Some nb | _ => None end.
(* the scheduled time of the task being awakened *)
Definition popt_of (p : pc) : option Q :=
  match p with PAwake _ t _ => Some t | _ => None end.

Definition facts (s : cst) (e : event) (s' : cst) : Prop :=
  c_kind s' = c_kind s /\
  match e with
  | EAdd t k =>
      c_q s' = q_add t k (c_q s) (c_n s) /\ c_n s' = S (c_n s) /\
      cur_of (c_pc s') = cur_of (c_pc s) /\ c_map s' = c_map s /\
      (nb_of (c_pc s') = nb_of (c_pc s) \/ nb_of (c_pc s') = None) /\
      popt_of (c_pc s') = popt_of (c_pc s) /\
      (forall nb t' k', c_pc s = PReadd nb t' k' -> t == t' /\ k = k')
  | EPop t k =>
      exists h r nb, c_q s = h :: r /\ c_q s' = r /\ itask h = k /\ t == itime h /\
        c_n s' = c_n s /\ c_pc s = PLoop3 nb /\ itime h <= nb /\
        c_pc s' = PAwake nb (itime h) k /\ c_map s' = c_map s
  | EAwakeEnd k r =>
      exists nb t, c_pc s = PAwake nb t k /\ c_q s' = c_q s /\ c_n s' = c_n s /\ c_map s' = c_map s /\
        c_pend s' = NoPend /\
        c_pc s' = match r with RDelta d => PReadd nb (t + d) k | _ => PLoop3 nb end
  | EClearPop t k =>
      exists h r, c_q s = h :: r /\ c_q s' = r /\ itask h = k /\ t == itime h /\
        c_n s' = c_n s /\ cur_of (c_pc s') = cur_of (c_pc s) /\ c_map s' = c_map s /\
        nb_of (c_pc s') = nb_of (c_pc s) /\ popt_of (c_pc s') = popt_of (c_pc s)
  | ENotify SClear =>
      c_q s = [] /\ c_q s' = [] /\ c_n s' = c_n s /\ cur_of (c_pc s') = cur_of (c_pc s) /\ c_map s' = c_map s /\
      nb_of (c_pc s') = nb_of (c_pc s) /\ popt_of (c_pc s') = popt_of (c_pc s)
  | EQClear =>
      c_q s' = [] /\ c_n s' = 0%nat /\ cur_of (c_pc s') = cur_of (c_pc s) /\ c_map s' = c_map s /\
      c_run s' = false /\ nb_of (c_pc s') = nb_of (c_pc s) /\ popt_of (c_pc s') = popt_of (c_pc s) /\
      cur_of (c_pc s) = None
  | ETempo m =>
      c_q s' = c_q s /\ c_n s' = c_n s /\ cur_of (c_pc s') = cur_of (c_pc s) /\ c_map s' = m /\
      nb_of (c_pc s') = nb_of (c_pc s) /\ popt_of (c_pc s') = popt_of (c_pc s)
  | ETime t =>
      c_q s' = c_q s /\ c_n s' = c_n s /\ cur_of (c_pc s') = None /\ cur_of (c_pc s) = None /\
      c_map s' = c_map s /\ c_last s <= t /\ c_last s' = t /\
      (nb_of (c_pc s') = Some (secs2beats (c_map s) t) \/ nb_of (c_pc s') = None)
  | ESchedCall base d =>
      c_q s' = c_q s /\ c_n s' = c_n s /\ cur_of (c_pc s') = cur_of (c_pc s) /\ c_map s' = c_map s /\
      (nb_of (c_pc s') = nb_of (c_pc s) \/ nb_of (c_pc s') = None) /\
      popt_of (c_pc s') = popt_of (c_pc s) /\
      lock_free (c_pc s) = true /\ c_pend s = NoPend /\
      c_pend s' = OweAdd (secs2beats (c_map s) base + d)
  | ENotify _ | EWaitBegin _ | EWaitEnd _ =>
      c_q s' = c_q s /\ c_n s' = c_n s /\ cur_of (c_pc s') = cur_of (c_pc s) /\ c_map s' = c_map s /\
      (nb_of (c_pc s') = nb_of (c_pc s) \/ nb_of (c_pc s') = None) /\
      popt_of (c_pc s') = popt_of (c_pc s)
  end.

Lemma step_facts : forall s e s', step s e = Some s' -> facts s e s'.
Proof.
  intros s e s' HS.
  destruct s as [kd q n p rn nt la m pe]. unfold facts. simpl.
  destruct pe, e, p, q; simpl in HS; try discriminate HS;
    step_cases HS; simpl; try discriminate.
  all: try match goal with E : (if ?c then _ else _) = _ |- _ => destruct c eqn:?; try discriminate E end.
  all: try match goal with E : _ && _ = true |- _ => apply andb_true_iff in E; destruct E as [Ea Eb] end.
  all: try match goal with E : _ && _ = true |- _ => apply andb_true_iff in E; destruct E as [Ec Ed] end.
  all: repeat match goal with
       | E : Qeq_bool _ _ = true |- _ => apply Qeq_bool_true in E
       | E : Z.eqb _ _ = true |- _ => apply Z.eqb_eq in E; subst
       | E : Qle_bool _ _ = true |- _ => apply Qle_bool_iff in E
       end.
  all: try match goal with E : PLoop3 _ = PLoop3 _ |- _ => inversion E; subst; clear E end.
  all: try (split; [reflexivity |]).
  all: try solve [repeat match goal with |- _ /\ _ => split end; auto;
                  try (intros; discriminate);
                  try (intros ? ? ? HH; inversion HH; subst; split; auto)].
  all: try solve [eexists; eexists; eexists; repeat split; eauto].
  all: try solve [eexists; eexists; repeat split; eauto].
Qed.
