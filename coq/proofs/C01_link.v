(* C01_link.v -- SynthDef._build preserves the meaning of the graph function: the observations of the
   emitted graph (every effectful unit with the values it reads, under every interpretation of the
   opaque unit classes and every control valuation) are those of the source program. *)
From Coq Require Import ZArith QArith Qcanon List String Bool Arith Lia Setoid Permutation.
Import ListNotations.
Require Import SC3.model.Graph SC3.model.GraphSem SC3.gen.Gen_opcodes SC3.proofs.C01_ctor SC3.proofs.C01_inv
               SC3.proofs.C01_inv2 SC3.proofs.C01_inv3 SC3.proofs.C01_built SC3.proofs.C01_init SC3.proofs.C01_opt
               SC3.proofs.C01_cov SC3.proofs.C01_compile SC3.proofs.C01_sem SC3.proofs.C01_sem2 SC3.proofs.C01_src.
Open Scope string_scope.
Open Scope nat_scope.
Open Scope list_scope.

Definition f0 (I : interp) (s : st) : nat -> row := fun u => nth u (D I s) [].

Lemma ival_f0 : forall I s i, ival (f0 I s) i = val_den (D I s) i.
Proof. intros I s [q|u ch]; reflexivity. Qed.

Lemma f0_valid : forall I s u U, Built s -> get_unit s u = Some U -> f0 I s u = usem I (f0 I s) U.
Proof.
  intros I s u U B G. unfold f0 at 1, D, den_store.
  destruct (den_row I (units s) u U G) as (pre & more & L & _ & Hd). rewrite Hd.
  destruct (den_list_prefix I pre []) as (m0 & Hm0 & Lm0). simpl in Hm0.
  assert (Lp : List.length (den_list I [] pre) = u) by (rewrite Hm0; lia).
  rewrite app_nth2 by lia. rewrite Lp, Nat.sub_diag. simpl.
  unfold unit_val, usem. f_equal. apply map_ext_in. intros i Hi. rewrite ival_f0. unfold D, den_store. rewrite Hd.
  symmetry. apply val_den_app. destruct i as [q|v ch]; auto. destruct (B_ins s B u U v ch G Hi) as [Hlt _]. lia.
Qed.


Lemma flat_map_map_some : forall {B} (h : option nat -> list B) l, flat_map h (map Some l) = flat_map (fun u => h (Some u)) l.
Proof. intros B h l. induction l as [|x t IH]; simpl; auto. rewrite IH. reflexivity. Qed.

Lemma usem_set_place : forall I f U w i d, usem I f (set_place U w i d) = usem I f U.
Proof. intros. reflexivity. Qed.

Section Link.
Variable I : interp.
Variables (s1 s0 : st) (ante : list (nat * list nat)).
Hypothesis B : Built s1.
Hypothesis IS : InitSpec s1 s0 ante.

Lemma init_unit : forall u U', get_unit (with_rewriting s0 true) u = Some U' ->
  exists U r, get_unit s1 u = Some U /\ U' = set_place U (wfa U) (sidx U) r.
Proof.
  intros u U' G. assert (G0 : get_unit s0 u = Some U') by exact G. rewrite (IS_get _ _ _ IS) in G0.
  destruct (get_unit s1 u) as [U|] eqn:GU; [|discriminate]. injection G0 as <-.
  destruct (pos u (live s1)).
  - exists U, (Some (List.length (sets s1) + n)). auto.
  - exists U, (dref U). split; auto. destruct U; reflexivity.
Qed.

Lemma init_valid : Valid I (with_rewriting s0 true) [] (f0 I s1).
Proof.
  intros u U' _ _ G. destruct (init_unit u U' G) as (U & r & GU & ->). rewrite usem_set_place.
  apply f0_valid; auto.
Qed.

Lemma init_obs : obs_state I (with_rewriting s0 true) (f0 I s1) = obs_store I s1.
Proof.
  unfold obs_state. cbn [children with_rewriting]. rewrite (IS_children _ _ _ IS), (B_children s1 B), flat_map_map_some.
  unfold obs_store. rewrite <- (flat_map_seq_units (entryU (D I s1)) (units s1) []). cbn [List.length app].
  apply flat_map_ext. intro u. cbn [obs_of].
  destruct (get_unit (with_rewriting s0 true) u) as [U'|] eqn:G.
  - destruct (init_unit u U' G) as (U & r & GU & ->). unfold get_unit in GU. rewrite GU.
    cbn [ukind pure tag cls ins set_place]. unfold entryU.
    destruct (observable (ukind U) (pure U) (tag U)); auto.
  - assert (G0 : get_unit s0 u = None) by exact G. rewrite (IS_get _ _ _ IS) in G0.
    unfold get_unit in G0. destruct (nth_error (units s1) u); [discriminate|reflexivity].
Qed.
End Link.

Lemma asteps_sem : forall I x y, asteps x y -> forall f, Valid I (fst x) (snd x) f ->
  exists f', Valid I (fst y) (snd y) f' /\ obs_state I (fst y) f' = obs_state I (fst x) f.
Proof.
  intros I x y H. induction H; intros f V.
  - exists f. auto.
  - destruct (astep_sem I x y H f V) as (f1 & V1 & _ & O1).
    destruct (IHasteps f1 V1) as (f2 & V2 & O2). exists f2. split; auto. congruence.
Qed.

Theorem compiled_meaning : forall I p s1 s2f s3 s2 out g, Compiled p s1 s2f s3 s2 out g ->
  Permutation (obs_graph I g) (obs_src T I p).
Proof.
  intros I p s1 s2f s3 s2 out g C.
  destruct (CP_trace _ _ _ _ _ _ _ C) as (s0 & ante & IS & Tr).
  pose proof (CP_built _ _ _ _ _ _ _ C) as B.
  destruct (asteps_sem I _ _ Tr (f0 I s1) (init_valid I s1 s0 ante B IS)) as (f & V & Ob). cbn [fst snd] in *.
  rewrite <- (build_sim I p s1 (CP_build _ _ _ _ _ _ _ C)), <- (init_obs I s1 s0 ante B IS), <- Ob.
  eapply emit_sem; eauto.
Qed.

Theorem compile_preserves_meaning_all : forall p s1, build_graph T p = Ok s1 ->
  (forall s2f ok, optimize T false true true s1 = Ok (s2f, ok) -> check_inputs s2f = true) ->
  exists g ok, compile_flag T false true true p = Ok (g, ok) /\
    forall I, Permutation (obs_graph I g) (obs_src T I p).
Proof.
  intros p s1 Hb Hchk. destruct (compile_total p s1 Hb Hchk) as (g & ok & s2f & s3 & s2 & out & E & C).
  exists g, ok. split; auto. intro I. eapply compiled_meaning; eauto.
Qed.
