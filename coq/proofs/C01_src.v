(* C01_src.v -- the graph built by the constructor calls denotes the source program: every value the
   graph function holds denotes what the source semantics says, and the effectful units read the source's
   values (build_preserves_meaning). *)
From Coq Require Import ZArith QArith Qcanon List String Bool Arith Lia Setoid Permutation.
Import ListNotations.
Require Import SC3.model.Graph SC3.model.GraphSem SC3.gen.Gen_opcodes SC3.proofs.C20_arrange SC3.proofs.C01_ctor.
Open Scope string_scope.
Open Scope nat_scope.
Open Scope list_scope.

Arguments Qred : simpl never.
Arguments Q2Qc : simpl never.

(* ---- arithmetic constructors only append derived units (tag 0) *)
Definition ext0 (s s' : st) : Prop := exists extra, units s' = units s ++ extra /\ Forall (fun U => tag U = 0) extra.
Lemma ext0_refl : forall s, ext0 s s. Proof. intro s; exists []; rewrite app_nil_r; auto. Qed.
Lemma ext0_trans : forall a b c, ext0 a b -> ext0 b c -> ext0 a c.
Proof. intros a b c (x & Hx & Fx) (y & Hy & Fy). exists (x ++ y). rewrite Hy, Hx, app_assoc. split; auto. apply Forall_app; auto. Qed.
Lemma ext0_ext : forall s s', ext0 s s' -> ext s s'. Proof. intros s s' (x & H & _). exists x; auto. Qed.

Lemma create_ext0 : forall s mk w s1 u, create s mk w = (s1, u) -> (forall n W i, tag (mk n W i) = 0) -> ext0 s s1.
Proof.
  intros s mk w s1 u H Ht. destruct (create_spec _ _ _ _ _ H) as (_ & W & i & E). exists [mk u W i]. split; auto.
Qed.

Lemma ctor_un_ext0 : forall s n a s' v, ctor_un T s n a = Ok (s', v) -> ext0 s s'.
Proof.
  intros s n a s' v H. unfold ctor_un in H. destruct (negb _); [discriminate|].
  destruct (match n with Some n0 => sc_spindex_opname T n0 | None => None end) as [[i nm]|]; [|discriminate].
  destruct (create s _ false) as [s1 u] eqn:Ec. injection H as <- <-. eapply create_ext0; eauto.
Qed.
Lemma vneg_ext0 : forall s a s' v, vneg T s a = Ok (s', v) -> ext0 s s'.
Proof. intros s [q|u ch] s' v H; unfold vneg in H; [injection H as <- <-; apply ext0_refl | eapply ctor_un_ext0; eauto]. Qed.
Lemma new_bin_ext0 : forall s n a b s' v, new_bin_unit T s n a b = Ok (s', v) -> ext0 s s'.
Proof.
  intros s n a b s' v H. unfold new_bin_unit in H. destruct (sc_spindex_opname T n) as [[i nm]|]; [|discriminate].
  destruct (create s _ false) as [s1 u] eqn:Ec. injection H as <- <-. eapply create_ext0; eauto.
Qed.
Lemma ctor_bin_ext0 : forall s n a b s' v, ctor_bin T s n a b = Ok (s', v) -> ext0 s s'.
Proof.
  intros s n a b s' v H. unfold ctor_bin in H.
  repeat match type of H with
  | (if ?c then _ else _) = _ => destruct c
  end;
  try solve [injection H as <- <-; apply ext0_refl]; try solve [eapply vneg_ext0; exact H]; try solve [eapply new_bin_ext0; exact H].
Qed.
Lemma py_binop_ext0 : forall s py a b s' v, py_binop T s py a b = Ok (s', v) -> ext0 s s'.
Proof.
  intros s py a b s' v H. unfold py_binop in H.
  destruct a, b;
  repeat match type of H with
  | (if ?c then _ else _) = _ => destruct c
  | match ?c with Some _ => _ | None => _ end = _ => destruct c
  end; try discriminate; try solve [injection H as <- <-; apply ext0_refl]; try solve [eapply ctor_bin_ext0; exact H].
Qed.
Lemma py_unop_ext0 : forall s py a s' v, py_unop T s py a = Ok (s', v) -> ext0 s s'.
Proof.
  intros s py [q|u ch] s' v H; unfold py_unop in H.
  - destruct (String.eqb py "neg"); [injection H as <- <-; apply ext0_refl | discriminate].
  - eapply ctor_un_ext0; eauto.
Qed.
Lemma ctor_muladd_ext0 : forall s i m a s' v, ctor_muladd T s i m a = Ok (s', v) -> ext0 s s'.
Proof.
  intros s i m a s' v H. unfold ctor_muladd in H.
  destruct (kis m 0); [injection H as <- <-; apply ext0_refl|].
  destruct (kis m 1 && kis a 0); [injection H as <- <-; apply ext0_refl|].
  destruct (kis m (-1) && kis a 0); [eapply py_unop_ext0; eauto|].
  destruct (kis a 0); [eapply py_binop_ext0; eauto|].
  destruct (kis m (-1)); [eapply py_binop_ext0; eauto|].
  destruct (kis m 1); [eapply py_binop_ext0; eauto|].
  destruct (can_be_muladd s i m a).
  - destruct (create s _ false) as [s1 u] eqn:Ec. injection H as <- <-. eapply create_ext0; eauto.
  - destruct (can_be_muladd s m i a).
    + destruct (create s _ false) as [s1 u] eqn:Ec. injection H as <- <-. eapply create_ext0; eauto.
    + destruct (py_binop T s "mul" i m) as [[s1 p]|] eqn:E1; cbn [bind] in H; [|discriminate].
      eapply ext0_trans; [eapply py_binop_ext0; eauto | eapply py_binop_ext0; eauto].
Qed.
Lemma sum3_ext0 : forall s a b c s' v, sum3_new1 T s a b c = Ok (s', v) -> ext0 s s'.
Proof.
  intros s a b c s' v H. unfold sum3_new1 in H.
  destruct (kis c 0); [eapply py_binop_ext0; eauto|]. destruct (kis b 0); [eapply py_binop_ext0; eauto|].
  destruct (kis a 0); [eapply py_binop_ext0; eauto|].
  destruct (create s _ false) as [s1 u] eqn:Ec. injection H as <- <-. eapply create_ext0; eauto.
Qed.
Lemma sum4_ext0 : forall s a b c d s' v, sum4_new1 T s a b c d = Ok (s', v) -> ext0 s s'.
Proof.
  intros s a b c d s' v H. unfold sum4_new1 in H.
  destruct (kis a 0); [eapply sum3_ext0; eauto|]. destruct (kis b 0); [eapply sum3_ext0; eauto|].
  destruct (kis c 0); [eapply sum3_ext0; eauto|]. destruct (kis d 0); [eapply sum3_ext0; eauto|].
  destruct (create s _ false) as [s1 u] eqn:Ec. injection H as <- <-. eapply create_ext0; eauto.
Qed.

Require Import SC3.proofs.C01_inv SC3.proofs.C01_inv2 SC3.proofs.C01_built SC3.proofs.C01_opt.

(* ---- Python operators on values, any selector *)
Lemma scn_of : forall py i n, sc_spindex_opname T py = Some (i, n) -> scn T py = n.
Proof. intros py i n H. unfold scn. rewrite H. reflexivity. Qed.

Lemma py_binop_sem : forall I s py a b s' v, wf_val s a -> wf_val s b -> py_binop T s py a b = Ok (s', v) ->
  spec I s s' v (bin_sem I (scn T py) (val_den (D I s) a) (val_den (D I s) b)).
Proof.
  intros I s py a b s' v Wa Wb H.
  assert (Hgen : (if ugen_ok s a && ugen_ok s b then
                    match sc_opname T py with Some n => ctor_bin T s n a b | None => Err EException end
                  else Err EType) = Ok (s', v) ->
                 spec I s s' v (bin_sem I (scn T py) (val_den (D I s) a) (val_den (D I s) b))).
  { intro H0. destruct (ugen_ok s a && ugen_ok s b); [|discriminate]. unfold sc_opname in H0.
    destruct (sc_spindex_opname T py) as [[i n]|] eqn:E; [|discriminate].
    rewrite (scn_of py i n E). destruct (C01_built.T_idem py i n E) as [i' Hn].
    exact (ctor_bin_sound I s n i' a b s' v Wa Wb Hn H0). }
  destruct a as [x|ua ca], b as [y|ub cb]; try (apply Hgen; exact H).
  unfold py_binop in H.
  destruct (String.eqb py "add") eqn:E1.
  { apply String.eqb_eq in E1. subst py. assert (Es : scn T "add" = "+") by (vm_compute; reflexivity). rewrite Es.
    apply (py_binop_sound I s "add" "+" (K x) (K y) s' v Wa Wb (or_introl (conj eq_refl eq_refl))). unfold py_binop. exact H. }
  destruct (String.eqb py "sub") eqn:E2.
  { apply String.eqb_eq in E2. subst py. assert (Es : scn T "sub" = "-") by (vm_compute; reflexivity). rewrite Es.
    apply (py_binop_sound I s "sub" "-" (K x) (K y) s' v Wa Wb (or_intror (or_introl (conj eq_refl eq_refl)))). unfold py_binop. exact H. }
  destruct (String.eqb py "mul") eqn:E3; [|discriminate].
  apply String.eqb_eq in E3. subst py. assert (Es : scn T "mul" = "*") by (vm_compute; reflexivity). rewrite Es.
  apply (py_binop_sound I s "mul" "*" (K x) (K y) s' v Wa Wb (or_intror (or_intror (conj eq_refl eq_refl)))). unfold py_binop. exact H.
Qed.

Lemma py_unop_sem : forall I s py a s' v, wf_val s a -> py_unop T s py a = Ok (s', v) ->
  spec I s s' v (un_sem I (scn T py) (val_den (D I s) a)).
Proof.
  intros I s py a s' v Wa H. destruct a as [q|u ch]; unfold py_unop in H.
  - destruct (String.eqb py "neg") eqn:E; [|discriminate]. apply String.eqb_eq in E. subst py.
    injection H as <- <-. assert (Es : scn T "neg" = "neg") by (vm_compute; reflexivity). rewrite Es.
    split; [apply ext_refl|]. split; [simpl; auto|]. unfold un_sem. simpl. rewrite Q2Qc_red, Q2Qc_opp. reflexivity.
  - unfold sc_opname in H. destruct (sc_spindex_opname T py) as [[i n]|] eqn:E.
    + rewrite (scn_of py i n E). destruct (C01_built.T_idem py i n E) as [i' Hn].
      exact (ctor_un_sound I s n i' (O u ch) s' v Wa Hn H).
    + unfold ctor_un in H. destruct (negb _); discriminate.
Qed.

(* ---- observations of a store and how they grow *)
Definition entryU (tab : list row) (U : unit) : list obs :=
  if observable (ukind U) (pure U) (tag U) then [(tag U, cls U, map (val_den tab) (ins U))] else [].
Definition obs_store (I : interp) (s : st) : list obs := flat_map (entryU (D I s)) (units s).
Definition AllWf (s : st) : Prop := forall U v, In U (units s) -> In v (ins U) -> wf_val s v.

Lemma observable_tag0 : forall k p, observable k p 0 = false.
Proof. intros [] p; simpl; auto; destruct p; auto. Qed.

Lemma Built_AllWf : forall s, Built s -> AllWf s.
Proof.
  intros s B U v HU Hv. apply In_nth_error in HU. destruct HU as [u Hu]. destruct v as [q|w ch]; simpl; auto.
  destruct (B_ins s B u U w ch Hu Hv) as [Hlt _]. pose proof (get_lt _ _ _ Hu). lia.
Qed.

Lemma flat_map_ext_in' : forall {A B} (f g : A -> list B) l, (forall x, In x l -> f x = g x) -> flat_map f l = flat_map g l.
Proof. intros A B f g l H. induction l as [|x t IH]; simpl; auto. rewrite H by (left; auto). f_equal. apply IH. intros; apply H; right; auto. Qed.

Lemma obs_store_ext : forall I s extra s', AllWf s -> units s' = units s ++ extra ->
  obs_store I s' = obs_store I s ++ flat_map (entryU (D I s')) extra.
Proof.
  intros I s extra s' HW E. unfold obs_store. rewrite E, flat_map_app. f_equal.
  assert (He : ext s s') by (exists extra; auto).
  apply flat_map_ext_in'. intros U HU. unfold entryU. destruct (observable _ _ _); auto. f_equal. f_equal.
  apply map_ext_in. intros v Hv. apply val_den_ext; auto. exact (HW U v HU Hv).
Qed.
Lemma obs_store_ext0 : forall I s s', AllWf s -> ext0 s s' -> obs_store I s' = obs_store I s.
Proof.
  intros I s s' HW (extra & E & F). rewrite (obs_store_ext I s extra s' HW E).
  assert (flat_map (entryU (D I s')) extra = []).
  { clear E. induction F as [|U t HU F IH]; simpl; auto. unfold entryU at 1. rewrite HU, observable_tag0. exact IH. }
  rewrite H, app_nil_r. reflexivity.
Qed.

(* ---- the environments correspond *)
Record SimEnv (I : interp) (s : st) (e : env) (se : senv) : Prop := mkSim {
  S_len : List.length (e_vals e) = List.length (se_vals se);
  S_vals : forall i l r, nth_error (e_vals e) i = Some l -> nth_error (se_vals se) i = Some r ->
           forall ch v, nth_error l ch = Some v -> wf_val s v /\ val_den (D I s) v = nthq r ch;
  S_ir : forall j v, nth_error (e_ir e) j = Some v -> wf_val s v /\ val_den (D I s) v = I_ctl I j;
  S_kr : forall j v, nth_error (e_kr e) j = Some v -> wf_val s v /\ val_den (D I s) v = I_ctl I (se_nir se + j)
}.
Lemma SimEnv_ext : forall I s s' e se, ext s s' -> SimEnv I s e se -> SimEnv I s' e se.
Proof.
  intros I s s' e se E [A B C F]. constructor; auto.
  - intros i l r H1 H2 ch v H3. destruct (B i l r H1 H2 ch v H3) as [W V]. split; [eapply wf_val_ext; eauto|].
    rewrite (val_den_ext I s s' v E W). auto.
  - intros j v H. destruct (C j v H) as [W V]. split; [eapply wf_val_ext; eauto|]. rewrite (val_den_ext I s s' v E W). auto.
  - intros j v H. destruct (F j v H) as [W V]. split; [eapply wf_val_ext; eauto|]. rewrite (val_den_ext I s s' v E W). auto.
Qed.

Lemma lookup_sim : forall I s e se a v, SimEnv I s e se -> lookup e a = Ok v ->
  wf_val s v /\ val_den (D I s) v = sarg I se a.
Proof.
  intros I s e se a v [A B C F] H. destruct a as [q|i ch|kr j]; simpl in H.
  - injection H as <-. split; [simpl; auto|]. simpl. apply Q2Qc_red.
  - destruct (nth_error (e_vals e) i) as [l|] eqn:E1; [|discriminate].
    destruct (nth_error l ch) as [x|] eqn:E2; [|discriminate]. injection H as <-.
    assert (Hi : i < List.length (se_vals se)) by (rewrite <- A; apply nth_error_Some; congruence).
    destruct (nth_error (se_vals se) i) as [r|] eqn:E3; [|apply nth_error_None in E3; lia].
    destruct (B i l r E1 E3 ch x E2) as [W V]. split; auto. rewrite V. unfold sarg.
    rewrite (nth_error_nth (se_vals se) i [] E3). reflexivity.
  - destruct kr.
    + destruct (nth_error (e_kr e) j) eqn:E; [|discriminate]. injection H as <-. apply F; auto.
    + destruct (nth_error (e_ir e) j) eqn:E; [|discriminate]. injection H as <-. apply C; auto.
Qed.
Lemma lookups_sim : forall I s e se l vs, SimEnv I s e se -> lookups e l = Ok vs ->
  Forall (wf_val s) vs /\ map (val_den (D I s)) vs = map (sarg I se) l.
Proof.
  intros I s e se l. induction l as [|a t IH]; intros vs HS H; simpl in H.
  - injection H as <-. split; auto.
  - destruct (lookup e a) as [x|] eqn:E1; cbn [bind] in H; [|discriminate].
    destruct (lookups e t) as [r|] eqn:E2; cbn [bind] in H; [|discriminate]. injection H as <-.
    destruct (lookup_sim I s e se a x HS E1) as [W V]. destruct (IH r HS eq_refl) as [Wr Vr].
    split; [constructor; auto|]. simpl. rewrite V, Vr. reflexivity.
Qed.

(* ---- one instruction *)
Definition StepSim (I : interp) (s : st) (se : senv) (idx : nat) (i : instr) (s' : st) (vals : list inp) : Prop :=
  ext s s' /\
  (forall ch x, nth_error vals ch = Some x -> wf_val s' x /\ val_den (D I s') x = nthq (fst (sstep T I se idx i)) ch) /\
  obs_store I s' = obs_store I s ++ snd (sstep T I se idx i).

Lemma one_value : forall I s s' v sem r o, spec I s s' v sem -> ext0 s s' -> AllWf s -> r = [sem] -> o = [] ->
  ext s s' /\ (forall ch x, nth_error [v] ch = Some x -> wf_val s' x /\ val_den (D I s') x = nthq r ch) /\
  obs_store I s' = obs_store I s ++ o.
Proof.
  intros I s s' v sem r o (E & W & V) E0 HW -> ->. split; auto. split.
  - intros [|ch] x H; simpl in H; [injection H as <-; auto | destruct ch; discriminate].
  - rewrite app_nil_r. apply obs_store_ext0; auto.
Qed.

Lemma scn_add : scn T "add" = "+". Proof. vm_compute; reflexivity. Qed.

Lemma sum_fold_sem : forall I l s acc s' v, wf_val s acc -> Forall (wf_val s) l ->
  fold_left (fun a x => do2 s0, r <- a; py_binop T s0 "add" r x) l (Ok (s, acc)) = Ok (s', v) ->
  spec I s s' v (fold_left Qcplus (map (val_den (D I s)) l) (val_den (D I s) acc)) /\ ext0 s s'.
Proof.
  intros I l. induction l as [|x t IH]; intros s acc s' v Wa Wl H; simpl in H.
  - injection H as <- <-. split; [apply spec_same; auto | apply ext0_refl].
  - inversion Wl as [|? ? Wx Wt]; subst.
    destruct (py_binop T s "add" acc x) as [[s1 r]|e] eqn:E.
    + pose proof (py_binop_sem I s "add" acc x s1 r Wa Wx E) as (E1 & W1 & V1). rewrite scn_add in V1.
      assert (Wt1 : Forall (wf_val s1) t) by (eapply Forall_impl; [|exact Wt]; intros; eapply wf_val_ext; eauto).
      destruct (IH s1 r s' v W1 Wt1 H) as [(E2 & W2 & V2) X2].
      split; [|eapply ext0_trans; [eapply py_binop_ext0; eauto | exact X2]].
      split; [eapply ext_trans; eauto|]. split; auto. rewrite V2, V1. simpl. f_equal.
      * apply map_ext_in. intros y Hy. apply val_den_ext; auto. rewrite Forall_forall in Wt. auto.
    + exfalso. clear -H. induction t as [|y t' IHt]; simpl in H; [discriminate|auto].
Qed.

Lemma nth_default_eq : forall I s (args : list inp) (a : list Qc) n,
  map (val_den (D I s)) args = a -> val_den (D I s) (nth n args (K 0)) = nthq a n.
Proof.
  intros I s args a n <-. unfold nthq. revert n. induction args as [|x t IH]; intros [|n]; simpl; auto.
Qed.

Lemma step_sim : forall I s e se idx i s' vals, Built s -> SimEnv I s e se ->
  step T s e idx i = Ok (s', vals) -> StepSim I s se idx i s' vals.
Proof.
  intros I s e se idx i s' vals B HS H. pose proof (Built_AllWf s B) as HW.
  destruct i; simpl in H.
  - (* catalogue unit *)
    destruct (lookups e args) as [a|] eqn:E; cbn [bind] in H; [|discriminate].
    destruct (lookups_sim I s e se args a HS E) as [Wa Va].
    unfold ctor_cat in H. unfold StepSim, sstep.
    destruct (assoc name catalogue) as [c|] eqn:Ea; [|discriminate].
    destruct (negb _ || negb _); [discriminate|].
    destruct (create s _ (c_wf c)) as [s1 u] eqn:Ec. injection H as <- <-.
    destruct (create_spec _ _ _ _ _ Ec) as (Hu & W & k & Hs).
    set (inputs := map (fun x => match x with inl n => nth n a (K 0) | inr q => K q end) (c_inputs c)) in *.
    set (xs := map (fun x => match x with inl n => nthq (map (sarg I se) args) n | inr q => Q2Qc q end) (c_inputs c)).
    assert (Hin : map (val_den (D I s)) inputs = xs).
    { unfold inputs, xs. rewrite map_map. apply map_ext. intros [n|q]; [|reflexivity]. apply (nth_default_eq I s); auto. }
    assert (Hwf : forall v, In v inputs -> wf_val s v).
    { intros v Hv. unfold inputs in Hv. apply in_map_iff in Hv. destruct Hv as ([n|q] & <- & _); [|simpl; auto].
      destruct (nth_in_or_default n a (K 0)) as [Hn|Hn]; [rewrite Forall_forall in Wa; auto | rewrite Hn; simpl; auto]. }
    match type of Hs with _ = _ ++ [?U0] => set (U := U0) in * end.
    destruct (new_unit_den I s s1 u U Hu Hs) as (He & Hwu & Hn).
    assert (Hrow : nth u (D I s1) [] = unit_sem I KPlain (c_cls c) "" (S idx) (c_nouts c) 0%Z xs).
    { rewrite Hn. unfold unit_val, U. cbn [ukind cls opname tag nouts special ins]. rewrite Hin. reflexivity. }
    split; [exact He|]. split.
    + intros ch x Hx. destruct (c_hasval c); [|destruct ch; discriminate].
      unfold chans in Hx. rewrite nth_error_map in Hx.
      destruct (nth_error (seq 0 (if c_multi c then c_nouts c else 1)) ch) as [ch'|] eqn:Es; [|discriminate].
      injection Hx as <-. rewrite nth_error_seq in Es. destruct (ch <? _); [|discriminate]. injection Es as <-. simpl.
      split; [rewrite Hs, app_length; simpl; lia|]. rewrite Hrow. reflexivity.
    + rewrite (obs_store_ext I s [U] s1 HW Hs). f_equal. simpl. rewrite app_nil_r. unfold entryU, U.
      cbn [ukind pure tag cls ins]. unfold observable. simpl.
      destruct (c_pure c); simpl; auto. f_equal. f_equal.
      rewrite <- Hin. apply map_ext_in. intros v Hv. apply val_den_ext; auto.
  - (* unary *)
    destruct (lookup e a) as [x|] eqn:E; cbn [bind] in H; [|discriminate].
    destruct (py_unop T s py x) as [[s1 v]|] eqn:E2; cbn [bind] in H; [|discriminate]. injection H as <- <-.
    destruct (lookup_sim I s e se a x HS E) as [W V].
    apply (one_value I s s1 v _ _ _ (py_unop_sem I s py x s1 v W E2) (py_unop_ext0 _ _ _ _ _ E2) HW); simpl; rewrite ?V; reflexivity.
  - destruct (lookup e a) as [x|] eqn:E; cbn [bind] in H; [|discriminate].
    destruct (lookup e b) as [y|] eqn:E1; cbn [bind] in H; [|discriminate].
    destruct (py_binop T s py x y) as [[s1 v]|] eqn:E2; cbn [bind] in H; [|discriminate]. injection H as <- <-.
    destruct (lookup_sim I s e se a x HS E) as [W V]. destruct (lookup_sim I s e se b y HS E1) as [W' V'].
    apply (one_value I s s1 v _ _ _ (py_binop_sem I s py x y s1 v W W' E2) (py_binop_ext0 _ _ _ _ _ _ E2) HW); simpl; rewrite ?V, ?V'; reflexivity.
  - destruct (lookup e a) as [x|] eqn:E; cbn [bind] in H; [|discriminate].
    destruct (lookup e b) as [y|] eqn:E1; cbn [bind] in H; [|discriminate].
    destruct (lookup e c) as [z|] eqn:E3; cbn [bind] in H; [|discriminate].
    destruct (ctor_muladd T s x y z) as [[s1 v]|] eqn:E2; cbn [bind] in H; [|discriminate]. injection H as <- <-.
    destruct (lookup_sim I s e se a x HS E) as [W V]. destruct (lookup_sim I s e se b y HS E1) as [W' V'].
    destruct (lookup_sim I s e se c z HS E3) as [W'' V''].
    apply (one_value I s s1 v _ _ _ (ctor_muladd_sound I s x y z s1 v W W' W'' E2) (ctor_muladd_ext0 _ _ _ _ _ _ E2) HW); simpl; rewrite ?V, ?V', ?V''; reflexivity.
  - destruct (lookups e xs) as [l|] eqn:E; cbn [bind] in H; [|discriminate].
    destruct (fold_left _ l (Ok (s, K 0))) as [[s1 v]|] eqn:E2; cbn [bind] in H; [|discriminate]. injection H as <- <-.
    destruct (lookups_sim I s e se xs l HS E) as [Wl Vl].
    destruct (sum_fold_sem I l s (K 0) s1 v (Logic.I) Wl E2) as [Sp X0].
    apply (one_value I s s1 v _ _ _ Sp X0 HW); simpl; [|reflexivity].
    rewrite Vl. unfold qsum. reflexivity.
  - destruct (lookup e a) as [x|] eqn:E; cbn [bind] in H; [|discriminate].
    destruct (lookup e b) as [y|] eqn:E1; cbn [bind] in H; [|discriminate].
    destruct (lookup e c) as [z|] eqn:E3; cbn [bind] in H; [|discriminate].
    destruct (sum3_new1 T s x y z) as [[s1 v]|] eqn:E2; cbn [bind] in H; [|discriminate]. injection H as <- <-.
    destruct (lookup_sim I s e se a x HS E) as [W V]. destruct (lookup_sim I s e se b y HS E1) as [W' V'].
    destruct (lookup_sim I s e se c z HS E3) as [W'' V''].
    apply (one_value I s s1 v _ _ _ (sum3_new1_sound I s x y z s1 v W W' W'' E2) (sum3_ext0 _ _ _ _ _ _ E2) HW); simpl; [|reflexivity].
    rewrite V, V', V''. f_equal. rewrite qsum_fr. simpl. ring.
  - destruct (lookup e a) as [x|] eqn:E; cbn [bind] in H; [|discriminate].
    destruct (lookup e b) as [y|] eqn:E1; cbn [bind] in H; [|discriminate].
    destruct (lookup e c) as [z|] eqn:E3; cbn [bind] in H; [|discriminate].
    destruct (lookup e d) as [w|] eqn:E4; cbn [bind] in H; [|discriminate].
    destruct (sum4_new1 T s x y z w) as [[s1 v]|] eqn:E2; cbn [bind] in H; [|discriminate]. injection H as <- <-.
    destruct (lookup_sim I s e se a x HS E) as [W V]. destruct (lookup_sim I s e se b y HS E1) as [W' V'].
    destruct (lookup_sim I s e se c z HS E3) as [W'' V'']. destruct (lookup_sim I s e se d w HS E4) as [W3 V3].
    apply (one_value I s s1 v _ _ _ (sum4_new1_sound I s x y z w s1 v W W' W'' W3 E2) (sum4_ext0 _ _ _ _ _ _ _ E2) HW); simpl; [|reflexivity].
    rewrite V, V', V'', V3. f_equal. rewrite qsum_fr. simpl. ring.
  - (* Out *)
    destruct (lookup e bus) as [b|] eqn:E; cbn [bind] in H; [|discriminate].
    destruct (lookups e xs) as [l|] eqn:E1; cbn [bind] in H; [|discriminate].
    destruct (ctor_out s r b l (S idx)) as [s1|] eqn:E2; cbn [bind] in H; [|discriminate]. injection H as <- <-.
    destruct (lookup_sim I s e se bus b HS E) as [Wb Vb]. destruct (lookups_sim I s e se xs l HS E1) as [Wl Vl].
    unfold StepSim, sstep. cbn [fst snd].
    assert (Hvals : forall ch x, nth_error (@nil inp) ch = Some x -> wf_val s1 x /\ val_den (D I s1) x = nthq [] ch)
      by (intros [|ch] x Hx; discriminate).
    unfold ctor_out in E2.
    assert (HoutU : forall s0 outs sx u, AllWf s0 -> wf_val s0 b -> Forall (wf_val s0) outs ->
               create s0 (fun u w k => mkU u "Out" r (b :: outs) 0 0%Z "" KOut false false false false (ChkOut 1) w k None (S idx)) false = (sx, u) ->
               ext s0 sx /\ obs_store I sx = obs_store I s0 ++ [(S idx, "Out", map (val_den (D I s0)) (b :: outs))]).
    { intros s0 outs sx u HW0 Wb0 Wo Ec. destruct (create_spec _ _ _ _ _ Ec) as (Hu & W & k & Hs).
      assert (He : ext s0 sx) by (eexists; exact Hs). split; auto.
      rewrite (obs_store_ext I s0 _ sx HW0 Hs). f_equal. cbn [flat_map]. rewrite app_nil_r. unfold entryU. cbn [ukind pure tag cls ins].
      simpl. f_equal. f_equal. f_equal; [apply val_den_ext; auto|].
      apply map_ext_in. intros v Hv. apply val_den_ext; auto. rewrite Forall_forall in Wo. auto. }
    destruct r; try discriminate.
    + (* control rate *)
      injection E2 as <-. destruct (create s _ false) as [sx u] eqn:Ec. simpl.
      destruct (HoutU s l sx u HW Wb Wl Ec) as [He Ho]. split; auto. split; auto.
      rewrite Ho. f_equal. simpl. rewrite Vb, Vl. reflexivity.
    + (* audio rate: DC.ar(0) first *)
      destruct (create s _ false) as [sd d] eqn:Ed. injection E2 as <-.
      destruct (create_spec _ _ _ _ _ Ed) as (Hd & W & k & Hsd).
      match type of Hsd with _ = _ ++ [?U0] => set (UD := U0) in * end.
      destruct (new_unit_den I s sd d UD Hd Hsd) as (Hed & Hwd & Hnd).
      assert (X0 : ext0 s sd) by (exists [UD]; split; auto).
      assert (HWd : AllWf sd).
      { intros U v HU Hv. rewrite Hsd in HU. apply in_app_iff in HU. destruct HU as [HU|[<-|[]]].
        - eapply wf_val_ext; eauto.
        - simpl in Hv. destruct Hv as [<-|[]]. simpl. auto. }
      set (outs := map (fun x => if kis x 0 then O d 0 else x) l) in *.
      destruct (create sd _ false) as [sx u] eqn:Ec. simpl.
      assert (Wo : Forall (wf_val sd) outs).
      { apply Forall_forall. intros v Hv. unfold outs in Hv. apply in_map_iff in Hv. destruct Hv as (x & <- & Hx).
        destruct (kis x 0); [exact Hwd|]. eapply wf_val_ext; eauto. rewrite Forall_forall in Wl. auto. }
      destruct (HoutU sd outs sx u HWd (wf_val_ext _ _ _ Hed Wb) Wo Ec) as [He Ho].
      split; [eapply ext_trans; eauto|]. split; auto.
      rewrite Ho, (obs_store_ext0 I s sd HW X0). f_equal. f_equal. f_equal. simpl. f_equal.
      * rewrite (val_den_ext I s sd b Hed Wb). exact Vb.
      * rewrite <- Vl. unfold outs. rewrite map_map. apply map_ext_in. intros x Hx.
        destruct (kis x 0) eqn:Kx.
        -- destruct (kis_sound _ _ Kx) as (q & -> & Hq). simpl. rewrite Hnd. unfold unit_val, UD.
           cbn [ukind cls opname tag nouts special ins]. simpl. rewrite Hq. reflexivity.
        -- apply val_den_ext; auto. rewrite Forall_forall in Wl. auto.
  - discriminate.
Qed.

(* ---- whole programs *)
Lemma run_sim : forall I l s e se idx s', Built s -> EnvOK s e -> SimEnv I s e se -> run_ins T s e idx l = Ok s' ->
  obs_store I s' = obs_store I s ++ srun T I se idx l.
Proof.
  intros I l. induction l as [|i t IH]; intros s e se idx s' B HE HS H; simpl in H.
  - injection H as <-. simpl. rewrite app_nil_r. reflexivity.
  - destruct (step T s e idx i) as [[s1 vals]|] eqn:E; cbn [bind] in H; [|discriminate].
    destruct (step_sim I s e se idx i s1 vals B HS E) as (He & Hv & Ho).
    destruct (step_built s e idx i s1 vals B HE E) as (B1 & X1 & Vv).
    assert (HE1 : EnvOK s1 (mkE (e_vals e ++ [vals]) (e_ir e) (e_kr e))).
    { pose proof (EnvOK_ext _ _ _ X1 HE) as (A1 & A2 & A3). split; [|split]; simpl; auto.
      intros l0 x Hl Hx. apply in_app_iff in Hl. destruct Hl as [Hl|[<-|[]]]; eauto. }
    simpl. destruct (sstep T I se idx i) as [r o] eqn:Es. cbn [fst snd] in *.
    assert (HS1 : SimEnv I s1 (mkE (e_vals e ++ [vals]) (e_ir e) (e_kr e)) (mkSE (se_vals se ++ [r]) (se_nir se))).
    { pose proof (SimEnv_ext I s s1 e se He HS) as [A Bv C F]. constructor; simpl; auto.
      - rewrite !app_length. simpl. lia.
      - intros k l0 r0 H1 H2 ch v H3.
        destruct (Nat.lt_ge_cases k (List.length (e_vals e))) as [L|L].
        + rewrite nth_error_app1 in H1 by auto. rewrite nth_error_app1 in H2 by (rewrite <- A; auto). eapply Bv; eauto.
        + assert (k = List.length (e_vals e)).
          { assert (k < List.length (e_vals e ++ [vals])) by (apply nth_error_Some; congruence). rewrite app_length in H0. simpl in H0. lia. }
          subst k. rewrite nth_error_app2, Nat.sub_diag in H1 by auto. injection H1 as <-.
          rewrite A in H2. rewrite nth_error_app2, Nat.sub_diag in H2 by auto. injection H2 as <-. apply Hv; auto. }
    rewrite (IH s1 _ _ (S idx) s' B1 HE1 HS1 H). rewrite Ho, app_assoc. reflexivity.
Qed.

Lemma nthq_map_seq : forall (g : nat -> Qc) n j, j < n -> nthq (map g (seq 0 n)) j = g j.
Proof.
  intros g n j H. unfold nthq.
  rewrite (nth_indep _ (Q2Qc 0) (g 0)) by (rewrite map_length, seq_length; auto).
  rewrite map_nth, seq_nth; auto.
Qed.

Lemma D_units : forall I a b, units a = units b -> D I a = D I b.
Proof. intros I a b H. unfold D, den_store. rewrite H. reflexivity. Qed.

Lemma ctor_ctl_sim : forall I s r vals s' ps, ctor_ctl s r vals = (s', ps) ->
  ext0 s s' /\ List.length (controls s') = List.length (controls s) + List.length vals /\
  forall j v, nth_error ps j = Some v -> wf_val s' v /\ val_den (D I s') v = I_ctl I (List.length (controls s) + j).
Proof.
  intros I s r vals s' ps H. unfold ctor_ctl in H. destruct vals as [|q t].
  - injection H as <- <-. split; [apply ext0_refl|]. split; [simpl; lia|]. intros [|j] v Hj; discriminate.
  - destruct (create s _ false) as [s1 u] eqn:Ec.
    destruct (create_spec _ _ _ _ _ Ec) as (Hu & W & k & Hs).
    match type of Hs with _ = _ ++ [?U0] => set (U := U0) in * end.
    assert (Hc1 : controls s1 = controls s).
    { unfold create in Ec. destruct (rewriting s); injection Ec as <- _; reflexivity. }
    assert (Hs' : units s' = units s ++ [U]) by (injection H as <- _; exact Hs).
    assert (Hc' : controls s' = controls s1 ++ map Qred (q :: t)) by (injection H as <- _; reflexivity).
    assert (Hps : ps = chans u (List.length (q :: t))) by (injection H as _ <-; reflexivity).
    destruct (new_unit_den I s s' u U Hu Hs') as (He & Hwu & Hn).
    split; [exists [U]; split; auto|]. split.
    + rewrite Hc', app_length, map_length, Hc1. reflexivity.
    + intros j v Hj. rewrite Hps in Hj. unfold chans in Hj. rewrite nth_error_map in Hj.
      destruct (nth_error (seq 0 (List.length (q :: t))) j) as [j'|] eqn:Es; simpl in Hj; [|discriminate]. injection Hj as <-.
      rewrite nth_error_seq in Es. destruct (j <? List.length (q :: t)) eqn:Lt; [|discriminate]. injection Es as <-.
      apply Nat.ltb_lt in Lt. simpl plus.
      split; [exact Hwu|].
      unfold val_den. rewrite Hn. unfold unit_val, U. cbn [ukind cls opname tag nouts special ins]. unfold unit_sem.
      rewrite nthq_map_seq by auto. rewrite Nat2Z.id. reflexivity.
Qed.

Theorem build_sim : forall I p s, build_graph T p = Ok s -> obs_store I s = obs_src T I p.
Proof.
  intros I p s H. unfold build_graph in H.
  destruct (ctor_ctl st0 Scalar (p_ir p)) as [s1 irs] eqn:E1.
  destruct (ctor_ctl s1 Control (p_kr p)) as [s2 krs] eqn:E2.
  destruct (ctor_ctl_built _ _ _ _ _ Built0 E1) as (B1 & X1 & V1).
  destruct (ctor_ctl_built _ _ _ _ _ B1 E2) as (B2 & X2 & V2).
  destruct (ctor_ctl_sim I _ _ _ _ _ E1) as (Y1 & L1 & S1).
  destruct (ctor_ctl_sim I _ _ _ _ _ E2) as (Y2 & L2 & S2).
  assert (HE : EnvOK s2 (mkE [] irs krs)).
  { split; [|split]; simpl; auto. - intros l v []. - intros v Hv. eapply vok_ext; eauto. }
  assert (HS : SimEnv I s2 (mkE [] irs krs) (mkSE [] (List.length (p_ir p)))).
  { constructor; simpl; auto.
    - intros i l r Hi. destruct i; discriminate.
    - intros j v Hj. destruct (S1 j v Hj) as [W V]. split; [eapply wf_val_ext; [apply ext0_ext; exact Y2|exact W]|].
      rewrite (val_den_ext I s1 s2 v (ext0_ext _ _ Y2) W). exact V.
    - intros j v Hj. destruct (S2 j v Hj) as [W V]. split; auto. rewrite V. simpl in L1. rewrite L1. reflexivity. }
  assert (O0 : obs_store I s2 = []).
  { rewrite (obs_store_ext0 I s1 s2 (Built_AllWf s1 B1) Y2), (obs_store_ext0 I st0 s1 (Built_AllWf st0 Built0) Y1). reflexivity. }
  rewrite (run_sim I _ _ _ _ _ _ B2 HE HS H), O0. reflexivity.
Qed.

(* ---- the valuation of the constructed graph *)
Lemma den_row : forall I us u U, nth_error us u = Some U ->
  exists pre more, List.length pre = u /\ (exists post, us = pre ++ U :: post) /\
    den_list I [] us = den_list I [] pre ++ unit_val I (den_list I [] pre) U :: more.
Proof.
  intros I us u U H. destruct (nth_error_split us u H) as (pre & post & E & L).
  destruct (den_list_prefix I post (den_list I [] pre ++ [unit_val I (den_list I [] pre) U])) as (more & Hm & _).
  exists pre, more. split; auto. split; [eauto|].
  rewrite E at 1. rewrite den_list_app. simpl. rewrite Hm, <- app_assoc. reflexivity.
Qed.

Lemma flat_map_seq_units : forall (e : unit -> list obs) us pre,
  flat_map (fun u => match nth_error (pre ++ us) u with Some U => e U | None => [] end) (seq (List.length pre) (List.length us))
  = flat_map e us.
Proof.
  intros e us. induction us as [|U t IH]; intro pre; simpl; auto.
  rewrite nth_error_app2, Nat.sub_diag by auto. simpl. f_equal.
  replace (pre ++ U :: t) with ((pre ++ [U]) ++ t) by (rewrite <- app_assoc; reflexivity).
  replace (S (List.length pre)) with (List.length (pre ++ [U])) by (rewrite app_length; simpl; lia). apply IH.
Qed.
