(* C07: pure facts about bundle stamping (the stamp functions of KProg), timetag conversions. *)
From Coq Require Import ZArith QArith Qround List Bool Lia Lqa.
Require Import SC3.model.KProg SC3.proofs.C05_frame.
Import ListNotations.
Open Scope Q_scope.

(* ---- int(): truncation is monotone ---------------------------------------- *)
Lemma Qceiling_neg x : x < 0 -> (Qceiling x <= 0)%Z.
Proof.
  intros H. pose proof (Qceiling_lt x) as H1.
  assert (H2 : inject_Z (Qceiling x - 1) < inject_Z 0) by (simpl; change (inject_Z 0) with 0; lra).
  rewrite <- Zlt_Qlt in H2. lia.
Qed.
Lemma Qfloor_nonneg x : 0 <= x -> (0 <= Qfloor x)%Z.
Proof. intros H. change 0%Z with (Qfloor 0). apply Qfloor_resp_le. exact H. Qed.
Lemma Qtrunc_mono x y : x <= y -> (Qtrunc x <= Qtrunc y)%Z.
Proof.
  intros H. unfold Qtrunc.
  destruct (Qle_bool 0 x) eqn:Ex; destruct (Qle_bool 0 y) eqn:Ey.
  - apply Qfloor_resp_le; auto.
  - apply Qle_bool_iff in Ex. assert (~ 0 <= y) by (intros G; apply Qle_bool_iff in G; congruence). lra.
  - apply Qle_bool_iff in Ey. assert (Hx : ~ 0 <= x) by (intros G; apply Qle_bool_iff in G; congruence).
    assert (x < 0) by lra. pose proof (Qceiling_neg x H0). pose proof (Qfloor_nonneg y Ey). lia.
  - apply Qceiling_resp_le; auto.
Qed.
Lemma Qtrunc_nonneg x : 0 <= x -> Qtrunc x = Qfloor x.
Proof. intros H. unfold Qtrunc. apply Qle_bool_iff in H. rewrite H. reflexivity. Qed.
Lemma two32_pos : 0 < two32. Proof. reflexivity. Qed.

(* ---- latencies ------------------------------------------------------------- *)
Lemma lat_val_nonneg lat : 0 <= lat_val lat.
Proof.
  destruct lat as [l|]; simpl; [|lra]. destruct (Qltb l 0) eqn:E; [lra|]. apply Qltb_ge in E. exact E.
Qed.
Lemma lat_val_of_nonneg l : 0 <= l -> lat_val (Some l) = l.
Proof. intros H. simpl. destruct (Qltb l 0) eqn:E; auto. apply Qltb_lt in E. lra. Qed.
Lemma lat_immediate_false l : 0 <= l -> lat_immediate (Some l) = false.
Proof. intros H. simpl. apply Qltb_ge. exact H. Qed.
Lemma check_subtime_mono p s : check_subtime p s = true -> lat_val p <= lat_val s.
Proof.
  destruct p as [pt|]; simpl.
  - destruct s as [st|]; [|discriminate]. rewrite negb_true_iff, Qltb_ge. intros H. simpl.
    destruct (Qltb pt 0) eqn:Ep; destruct (Qltb st 0) eqn:Es; cbv iota;
      try apply Qltb_lt in Ep; try apply Qltb_ge in Ep; try apply Qltb_lt in Es; try apply Qltb_ge in Es; lra.
  - intros _. apply (lat_val_nonneg s).
Qed.
Lemma check_subtime_imm p s : check_subtime p s = true -> lat_immediate s = true -> lat_immediate p = true.
Proof.
  destruct p as [pt|]; simpl; auto. destruct s as [st|]; [|discriminate]. simpl.
  rewrite negb_true_iff, Qltb_ge, !Qltb_lt. intros; lra.
Qed.

(* ---- shape of a stamped bundle --------------------------------------------- *)
Lemma stamp_bundle_shape md T lat es sb : stamp_bundle md T lat es = Some sb ->
  exists ss, sb = SBundle (stamp_imm md lat) (stamp_time md T lat) (stamp_tag md T lat) ss
             /\ stamp_elems md T lat es = Some ss /\ (0 <= stamp_tag md T lat)%Z.
Proof.
  unfold stamp_bundle. destruct (tag_ok (stamp_tag md T lat)) eqn:Et; [|discriminate].
  destruct (stamp_elems md T lat es) eqn:E; [|discriminate].
  intros H; inversion H; subst. exists l. repeat split. unfold tag_ok in Et. lia.
Qed.

Lemma stamp_time_nrt_inside T lat : stamp_time (MNrt true) T lat == T + lat_val lat.
Proof. unfold stamp_time. rewrite Qred_correct. ring. Qed.
Lemma stamp_time_nrt_outside T lat : stamp_time (MNrt false) T lat == lat_val lat.
Proof. unfold stamp_time. rewrite Qred_correct. ring. Qed.
Lemma stamp_time_rt off T lat : stamp_time (MRt off) T lat == T + lat_val lat.
Proof. unfold stamp_time. rewrite Qred_correct. ring. Qed.
Lemma Qtrunc_comp x y : x == y -> Qtrunc x = Qtrunc y.
Proof.
  intros H. unfold Qtrunc.
  assert (E : Qle_bool 0 x = Qle_bool 0 y).
  { destruct (Qle_bool 0 x) eqn:A; destruct (Qle_bool 0 y) eqn:B; auto.
    - apply Qle_bool_iff in A. rewrite H in A. apply Qle_bool_iff in A. congruence.
    - apply Qle_bool_iff in B. rewrite <- H in B. apply Qle_bool_iff in B. congruence. }
  rewrite E. destruct (Qle_bool 0 y); [apply Qfloor_comp | apply Qceiling_comp]; exact H.
Qed.
Lemma stamp_tag_nrt inside T lat :
  stamp_tag (MNrt inside) T lat = Qtrunc ((lat_val lat + (if inside then T else 0)) * two32).
Proof.
  unfold stamp_tag, stamp_time. apply Qtrunc_comp. rewrite Qred_correct. reflexivity.
Qed.
Lemma stamp_tag_rt off T l : 0 <= l ->
  stamp_tag (MRt off) T (Some l) = elapsed_to_osc off (l + T).
Proof.
  intros H. unfold stamp_tag. rewrite (lat_immediate_false l H), (lat_val_of_nonneg l H). reflexivity.
Qed.
Lemma stamp_rt_immediate off T lat : lat_immediate lat = true ->
  stamp_tag (MRt off) T lat = 1%Z /\ stamp_imm (MRt off) lat = true.
Proof. intros H. unfold stamp_tag, stamp_imm. rewrite H. auto. Qed.
Lemma stamp_nrt_immediate inside T lat : lat_immediate lat = true ->
  stamp_time (MNrt inside) T lat == (if inside then T else 0).
Proof.
  intros H. unfold stamp_time. rewrite Qred_correct.
  assert (lat_val lat = 0) as ->; [|ring].
  destruct lat as [l|]; simpl in *; [rewrite H|]; reflexivity.
Qed.

(* ---- nested bundles --------------------------------------------------------- *)
Section ElemInd.
  Context (P : elem -> Prop).
  Hypothesis Hm : forall m, P (EMsg m).
  Hypothesis Hb : forall l es, Forall P es -> P (EBundle l es).
  Fixpoint elem_ind' (e : elem) : P e :=
    match e with
    | EMsg m => Hm m
    | EBundle l es =>
        Hb l es ((fix go (es : list elem) : Forall P es :=
                    match es with [] => Forall_nil _ | x :: r => Forall_cons _ (elem_ind' x) (go r) end) es)
    end.
End ElemInd.

(* every (nested) bundle is stamped from ITS latency and the SAME send instant T *)
Inductive stamped (md : smode) (T : Q) : elem -> selem -> Prop :=
| st_msg m : stamped md T (EMsg m) (SMsg m)
| st_bndl l es ss : Forall2 (stamped md T) es ss ->
    stamped md T (EBundle l es) (SBundle (stamp_imm md l) (stamp_time md T l) (stamp_tag md T l) ss).

(* a sub-bundle is not before its parent: the parent is "immediately", or both carry times and
   the parent's is not later (seconds and timetag) *)
Definition not_before (i : bool) (t : Q) (g : Z) (x : selem) : Prop :=
  match x with
  | SMsg _ => True
  | SBundle i' t' g' _ => i = true \/ (i' = false /\ t <= t' /\ (g <= g')%Z)
  end.
Fixpoint nest_ok (s : selem) : Prop :=
  match s with
  | SMsg _ => True
  | SBundle i t g ss =>
      (fix all (l : list selem) : Prop :=
         match l with [] => True | x :: r => not_before i t g x /\ nest_ok x /\ all r end) ss
  end.
Definition nest_all (i : bool) (t : Q) (g : Z) (ss : list selem) : Prop :=
  Forall (fun x => not_before i t g x /\ nest_ok x) ss.
Lemma nest_ok_bundle i t g ss : nest_ok (SBundle i t g ss) <-> nest_all i t g ss.
Proof.
  unfold nest_all. simpl. induction ss as [|x r IH].
  - split; auto.
  - split.
    + intros (A & B & C). constructor; auto. apply IH. exact C.
    + intros H. inversion H; subst. destruct H2. repeat split; auto. apply IH. auto.
Qed.

Lemma stamp_order md T p l : check_subtime p l = true ->
  stamp_imm md p = true \/
  (stamp_imm md l = false /\ stamp_time md T p <= stamp_time md T l /\ (stamp_tag md T p <= stamp_tag md T l)%Z).
Proof.
  intros H. pose proof (check_subtime_mono p l H) as Hm.
  destruct md as [inside|off].
  - right. split; [reflexivity|]. split.
    + unfold stamp_time. rewrite !Qred_correct. lra.
    + rewrite !stamp_tag_nrt. apply Qtrunc_mono. pose proof two32_pos. nra.
  - destruct (lat_immediate p) eqn:Ep; [left; exact Ep|]. right.
    assert (El : lat_immediate l = false).
    { destruct (lat_immediate l) eqn:E; auto. rewrite (check_subtime_imm p l H E) in Ep. discriminate. }
    split; [exact El|]. split.
    + rewrite !stamp_time_rt. lra.
    + unfold stamp_tag, stamp_imm. rewrite Ep, El. unfold elapsed_to_osc.
      apply Zplus_le_compat_r. apply Qtrunc_mono. pose proof two32_pos. nra.
Qed.

Lemma Forall2_imp {A B} (R S : A -> B -> Prop) l l' :
  (forall a b, R a b -> S a b) -> Forall2 R l l' -> Forall2 S l l'.
Proof. intros H F. induction F; constructor; auto. Qed.

Lemma stamp_list_forall2 (f : elem -> option selem) (R : elem -> selem -> Prop) es :
  Forall (fun e => forall s, f e = Some s -> R e s) es ->
  forall ss, stamp_list f es = Some ss -> Forall2 R es ss.
Proof.
  induction 1 as [|e es He Hes IH]; intros ss H; simpl in H.
  - inversion H; constructor.
  - destruct (f e) eqn:E; [|discriminate]. destruct (stamp_list f es) eqn:E2; [|discriminate].
    inversion H; subst. constructor; auto.
Qed.

Lemma stamp_elem_spec md T : forall e plat s, stamp_elem md T plat e = Some s ->
  stamped md T e s /\ nest_ok s /\
  (forall i t g, (i = stamp_imm md plat /\ t = stamp_time md T plat /\ g = stamp_tag md T plat) -> not_before i t g s).
Proof.
  induction e as [m|l es IH] using elem_ind'; intros plat s H; simpl in H.
  - inversion H; subst. repeat split; constructor.
  - destruct (check_subtime plat l) eqn:Ec; simpl in H; [|discriminate].
    destruct (tag_ok (stamp_tag md T l)); simpl in H; [|discriminate].
    destruct (stamp_list (stamp_elem md T l) es) as [ss|] eqn:El; [|discriminate].
    inversion H; subst. clear H.
    assert (F2 : Forall2 (fun e s => stamped md T e s /\ nest_ok s /\
                   not_before (stamp_imm md l) (stamp_time md T l) (stamp_tag md T l) s) es ss).
    { eapply stamp_list_forall2; [|exact El].
      eapply Forall_impl; [|exact IH]. intros e He s Hs. destruct (He l s Hs) as (A & B & C).
      repeat split; auto. }
    repeat split.
    + constructor. eapply Forall2_imp; [|exact F2]. intros a b (A & _); exact A.
    + apply nest_ok_bundle. unfold nest_all. clear -F2. induction F2; constructor; auto.
      destruct H as (_ & B & C). split; auto.
    + intros i t g (-> & -> & ->). simpl. apply stamp_order. exact Ec.
Qed.

Lemma stamp_bundle_spec md T lat es sb : stamp_bundle md T lat es = Some sb ->
  stamped md T (EBundle lat es) sb /\ nest_ok sb.
Proof.
  intros H. destruct (stamp_bundle_shape _ _ _ _ _ H) as (ss & -> & Hs & _).
  unfold stamp_elems in Hs.
  assert (F2 : Forall2 (fun e s => stamped md T e s /\ nest_ok s /\
                 not_before (stamp_imm md lat) (stamp_time md T lat) (stamp_tag md T lat) s) es ss).
  { eapply stamp_list_forall2; [|exact Hs].
    apply Forall_forall. intros e _ s Hs'. destruct (stamp_elem_spec md T e lat s Hs') as (A & B & C).
    repeat split; auto. }
  split.
  - constructor. eapply Forall2_imp; [|exact F2]. intros a b (A & _); exact A.
  - apply nest_ok_bundle. unfold nest_all. clear -F2. induction F2; constructor; auto.
    destruct H as (_ & B & C). split; auto.
Qed.

(* a nested bundle that would precede its parent makes the whole send raise *)
Lemma stamp_rejects_early_sub md T lat l sub rest :
  check_subtime lat l = false -> stamp_bundle md T lat (EBundle l sub :: rest) = None.
Proof.
  intros H. unfold stamp_bundle, stamp_elems. simpl. rewrite H. simpl.
  destruct (tag_ok (stamp_tag md T lat)); reflexivity.
Qed.

(* ---- incoming timetags ------------------------------------------------------ *)
Lemma osc_roundtrip off t : 0 <= t ->
  osc_to_elapsed off (elapsed_to_osc off t) <= t /\
  t < osc_to_elapsed off (elapsed_to_osc off t) + 1 / two32.
Proof.
  intros H. unfold osc_to_elapsed, elapsed_to_osc.
  replace (Qtrunc (t * two32) + off - off)%Z with (Qtrunc (t * two32)) by lia.
  assert (H0 : 0 <= t * two32) by (pose proof two32_pos; nra).
  rewrite (Qtrunc_nonneg _ H0).
  pose proof (Qfloor_le (t * two32)) as H1. pose proof (Qlt_floor (t * two32)) as H2.
  rewrite inject_Z_plus in H2. change (inject_Z 1) with 1 in H2.
  set (f := inject_Z (Qfloor (t * two32))) in *. clearbody f.
  assert (P : 0 < two32) by reflexivity.
  split.
  - apply Qle_shift_div_r; auto.
  - assert (E : f / two32 + 1 / two32 == (f + 1) / two32) by (field; lra).
    rewrite E. apply Qlt_shift_div_l; auto.
Qed.
Lemma osc_roundtrip_exact off (z : Z) : (0 <= z)%Z ->
  osc_to_elapsed off (elapsed_to_osc off (inject_Z z / two32)) == inject_Z z / two32.
Proof.
  intros H. unfold osc_to_elapsed, elapsed_to_osc.
  replace (Qtrunc (inject_Z z / two32 * two32) + off - off)%Z with (Qtrunc (inject_Z z / two32 * two32)) by lia.
  assert (E : inject_Z z / two32 * two32 == inject_Z z) by (field; discriminate).
  rewrite (Qtrunc_comp _ _ E).
  assert (H0 : 0 <= inject_Z z) by (change 0 with (inject_Z 0); rewrite <- Zle_Qle; exact H).
  rewrite (Qtrunc_nonneg _ H0), Qfloor_Z. reflexivity.
Qed.
