(* C16 -- server level: all live ranges of all clients of one server are pairwise disjoint. *)
From Coq Require Import ZArith List Bool Lia.
Import ListNotations.
Require Import SC3.model.Alloc SC3.model.AllocServer.
Require Import SC3.proofs.C16_base SC3.proofs.C16_inv SC3.proofs.C16_alloc SC3.proofs.C16_free SC3.proofs.C16_main SC3.proofs.C16_thms.
Open Scope Z_scope.

Lemma nth_error_upd {A} (l : list A) i v j : (i < length l)%nat ->
  nth_error (upd l i v) j = if Nat.eqb j i then Some v else nth_error l j.
Proof.
  revert i j; induction l as [|x l IH]; intros i j Hi; simpl in Hi; [lia|].
  destruct i as [|i], j as [|j]; simpl; auto. apply IH; lia.
Qed.

Lemma partition_bounds total io logins reserved k : 0 < logins -> io <= total -> 0 <= k < logins ->
  let '(sz, _, o) := partition total io logins reserved k in io <= o /\ o + sz <= total /\ 0 <= sz.
Proof.
  intros Hl Hio Hk. unfold partition. set (per := (total - io) / logins).
  assert (0 <= per) by (apply Z.div_pos; lia).
  assert (logins * per <= total - io) by (apply Z.mul_div_le; lia).
  repeat split; nia.
Qed.

Section Server.
Variables total io logins reserved : Z.
Hypothesis Hl : 0 < logins.
Hypothesis Hio : io <= total.
Hypothesis Hres : 0 <= reserved < (total - io) / logins.

(* every client's allocator satisfies the invariant and still has the constructor arguments Server gave it *)
Definition SInv (cs : list st) : Prop :=
  length cs = Z.to_nat logins /\
  forall i s, nth_error cs i = Some s ->
    AInv s /\ (size s, pos s - off s, off s) = partition total io logins reserved (Z.of_nat i).

Lemma mk_clients_from_inv cnt : forall k, 0 <= k ->
  exists cs, mk_clients_from total io logins reserved k cnt = Ok cs /\ length cs = cnt /\
    forall i s, nth_error cs i = Some s ->
      AInv s /\ (size s, pos s - off s, off s) = partition total io logins reserved (k + Z.of_nat i) /\
      forall a n, ~ is_live s a n.
Proof.
  induction cnt as [|c IH]; intros k Hk; simpl.
  - exists []. split; auto. split; auto. intros [|i] s H; discriminate.
  - unfold mk_client, partition.
    destruct (init_inv ((total - io) / logins) reserved ((total - io) / logins * k + io) Hres)
      as (s0 & E0 & A0 & Kp & Ko & Ks & Hnl).
    rewrite E0. simpl. destruct (IH (k + 1) ltac:(lia)) as (cs & E & Hlen & Hall). rewrite E. simpl.
    exists (s0 :: cs). split; auto. split; [simpl; lia|].
    intros [|i] s H; simpl in H.
    + inversion H; subst. split; auto. split; auto. unfold partition. rewrite Ks, Kp, Ko.
      f_equal; [f_equal; lia|f_equal; lia].
    + destruct (Hall i s H) as (? & E2 & ?). split; auto. split; auto. rewrite E2. unfold partition. rewrite Nat2Z.inj_succ. f_equal. f_equal. f_equal. lia.
Qed.

Lemma mk_clients_inv : exists cs, mk_clients total io logins reserved = Ok cs /\ SInv cs /\
  forall i s a n, nth_error cs i = Some s -> ~ is_live s a n.
Proof.
  destruct (mk_clients_from_inv (Z.to_nat logins) 0 ltac:(lia)) as (cs & E & Hlen & Hall).
  exists cs. split; auto. split; [split; auto|].
  - intros i s H. destruct (Hall i s H) as (? & E2 & _). split; auto.
  - intros i s a n H. destruct (Hall i s H) as (_ & _ & Hn). apply Hn.
Qed.

Definition wf_mop (e : nat * op) : Prop := (fst e < Z.to_nat logins)%nat /\ wf_op 0 0 (snd e).

Lemma run_multi_inv h : forall cs, SInv cs -> Forall wf_mop h ->
  exists cs' outs, run_multi true cs h = Ok (cs', outs) /\ SInv cs'.
Proof.
  induction h as [|[i o] h IH]; intros cs [Hlen Hall] Hwf.
  - exists cs, []. split; auto. split; auto.
  - inversion Hwf as [|? ? [Hi Ho] Hrest]; subst. simpl in Hi, Ho. simpl.
    destruct (nth_error cs i) as [s|] eqn:Es; [|apply nth_error_None in Es; lia].
    destruct (Hall i s Es) as (A & Epart).
    destruct (step_inv s o A) as (s1 & r & E1 & A1 & Kp & Ko & Ks & _).
    { destruct o; simpl in *; auto. }
    rewrite E1. simpl.
    assert (S1 : SInv (upd cs i s1)).
    { split; [rewrite upd_length; auto|]. intros j sj Hj. rewrite nth_error_upd in Hj by lia.
      destruct (Nat.eqb_spec j i) as [->|Hne]; [|apply Hall; auto].
      inversion Hj; subst. split; auto. rewrite Kp, Ko, Ks. auto. }
    destruct (IH _ S1 Hrest) as (cs' & outs & E & S'). rewrite E. simpl. eauto.
Qed.

Lemma SInv_disjoint cs : SInv cs ->
  forall i j si sj a n a' n', nth_error cs i = Some si -> nth_error cs j = Some sj ->
    is_live si a n -> is_live sj a' n' ->
    io <= a /\ a + n <= total /\ ((i = j /\ a = a' /\ n = n') \/ a + n <= a' \/ a' + n' <= a).
Proof.
  intros [Hlen Hall] i j si sj a n a' n' Hi Hj La La'.
  destruct (Hall i si Hi) as ([Pi _] & Ei). destruct (Hall j sj Hj) as ([Pj _] & Ej).
  assert (Hil : (i < length cs)%nat) by (apply nth_error_Some; congruence).
  assert (Hjl : (j < length cs)%nat) by (apply nth_error_Some; congruence).
  unfold is_live in *.
  pose proof (P_cell si Pi _ _ La) as Ca. pose proof (P_cell sj Pj _ _ La') as Ca'. simpl in Ca, Ca'.
  pose proof (P_pos si Pi) as Ppi. pose proof (P_pos sj Pj) as Ppj. unfold hi in *.
  pose proof (partition_bounds total io logins reserved (Z.of_nat i) Hl Hio ltac:(lia)) as Bi.
  rewrite <- Ei in Bi.
  split; [lia|]. split; [lia|].
  destruct (lt_eq_lt_dec i j) as [[Hlt|Heq]|Hgt].
  - pose proof (partitions_arith total io logins reserved (Z.of_nat i) (Z.of_nat j) Hl Hio ltac:(lia) ltac:(lia)) as Hp.
    rewrite <- Ei, <- Ej in Hp. right; left. lia.
  - subst j. rewrite Hi in Hj. inversion Hj; subst sj.
    destruct (two_blocks si _ _ _ _ Pi La La') as [[? E]|[[? ?]|[? ?]]]; simpl in *.
    + left. inversion E. auto.
    + right; left; lia.
    + right; right; lia.
  - pose proof (partitions_arith total io logins reserved (Z.of_nat j) (Z.of_nat i) Hl Hio ltac:(lia) ltac:(lia)) as Hp.
    rewrite <- Ei, <- Ej in Hp. right; right. lia.
Qed.

Lemma server_live_ranges_disjoint_proof h : Forall wf_mop h ->
  exists cs outs, (cs0 <- mk_clients total io logins reserved ;; run_multi true cs0 h) = Ok (cs, outs) /\
    length cs = Z.to_nat logins /\
    forall i j si sj a n a' n', nth_error cs i = Some si -> nth_error cs j = Some sj ->
      is_live si a n -> is_live sj a' n' ->
      io <= a /\ a + n <= total /\ ((i = j /\ a = a' /\ n = n') \/ a + n <= a' \/ a' + n' <= a).
Proof.
  intros Hwf. destruct mk_clients_inv as (cs0 & E0 & S0 & _).
  destruct (run_multi_inv h cs0 S0 Hwf) as (cs & outs & E & S).
  exists cs, outs. rewrite E0. simpl. split; auto. split; [apply S|]. apply SInv_disjoint; auto.
Qed.
End Server.
