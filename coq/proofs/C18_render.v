(* C18 (a) -- the text of a bracket-free, brace-free OSC 1.0 pattern (literals, '?', '*') is parsed
   by the model of the (repaired) _oscmatch into a regex with exactly the OSC 1.0 language. *)
From Coq Require Import ZArith List Bool Lia.
Import ListNotations.
Require Import SC3.model.OscMatch SC3.proofs.C18_match.
Open Scope Z_scope.

Definition flat_tok (t : otok) : bool :=
  match t with OLit c => plain c | OAny => true | OStar => true | _ => false end.
Definition neg_slash : regex := RSet true [(ch_slash, ch_slash)].
Definition tok_re' (t : otok) : regex :=
  match t with OLit c => RChr c | OAny => neg_slash | OStar => RStar neg_slash | _ => REmpty end.
Fixpoint cre (ts : list otok) : regex := match ts with [] => REps | t :: r => RCat (tok_re' t) (cre r) end.
Definition tok_txt (t : otok) : list Z :=
  match t with
  | OLit c => [c]
  | OAny => [ch_lbrk; ch_caret; ch_slash; ch_rbrk]
  | OStar => [ch_lbrk; ch_caret; ch_slash; ch_rbrk; ch_star]
  | _ => []
  end.
Fixpoint rw (ts : list otok) : list Z := match ts with [] => [] | t :: r => tok_txt t ++ rw r end.

Lemma render_head : forall ts, forallb flat_tok ts = true ->
  match render ts with [] => True | e :: _ => e <> ch_rbrk end.
Proof.
  destruct ts as [| t ts]; simpl; [trivial|]. intro H. apply andb_true_iff in H as [Ht _].
  destruct t as [c | | | |]; simpl in *; try discriminate.
  destruct (plain_not c Ht) as (_ & _ & _ & _ & _ & _ & _ & Hr & _). assumption.
Qed.

Lemma rewrite_flat : forall ts, forallb flat_tok ts = true -> rewrite Repaired (render ts) = rw ts.
Proof.
  induction ts as [| t ts IH]; intro H; [reflexivity|].
  simpl in H. apply andb_true_iff in H as [Ht Hts]. specialize (IH Hts).
  pose proof (render_head ts Hts) as Hh.
  destruct t as [c | | | |]; simpl in Ht; try discriminate.
  - (* literal *)
    destruct (plain_not c Ht) as (He & H1 & H2 & H3 & H4 & H5 & H6 & _).
    apply Z.eqb_neq in H1, H2, H3, H4, H5, H6.
    change (render (OLit c :: ts)) with (c :: render ts). cbn [rewrite]. rewrite He, H1, H2, H3, H4, H5.
    destruct (render ts) as [| e t'] eqn:Er.
    + simpl. simpl in IH. rewrite <- IH. reflexivity.
    + apply Z.eqb_neq in Hh. rewrite H6, Hh. simpl andb. rewrite andb_false_r. rewrite IH. reflexivity.
  - change (render (OAny :: ts)) with (ch_quest :: render ts). cbn [rewrite]. simpl. rewrite IH. reflexivity.
  - change (render (OStar :: ts)) with (ch_star :: render ts). cbn [rewrite]. simpl. rewrite IH. reflexivity.
Qed.

Lemma parse_class_negslash : forall rest, parse_class (ch_caret :: ch_slash :: ch_rbrk :: rest) = POk neg_slash rest.
Proof. intro rest. unfold parse_class. simpl. reflexivity. Qed.

Lemma rw_head : forall ts, forallb flat_tok ts = true ->
  match rw ts with [] => True | e :: _ => e <> ch_star /\ e <> ch_bar /\ e <> ch_rpar end.
Proof.
  destruct ts as [| t ts]; simpl; [trivial|]. intro H. apply andb_true_iff in H as [Ht _].
  destruct t as [c | | | |]; simpl in *; try discriminate.
  - destruct (plain_not c Ht) as (_ & _ & _ & _ & H4 & _ & _ & _ & Hbar & Hrp & _). auto.
  - unfold ch_lbrk, ch_star, ch_bar, ch_rpar. repeat split; discriminate.
  - unfold ch_lbrk, ch_star, ch_bar, ch_rpar. repeat split; discriminate.
Qed.

Lemma p_seq_flat : forall ts fuel, forallb flat_tok ts = true -> (length ts < fuel)%nat ->
  p_seq fuel (rw ts) = POk (cre ts) [].
Proof.
  induction ts as [| t ts IH]; intros fuel H Hf.
  - destruct fuel; [simpl in Hf; lia | reflexivity].
  - destruct fuel as [| f]; [simpl in Hf; lia|].
    simpl in H. apply andb_true_iff in H as [Ht Hts].
    assert (IHf : p_seq f (rw ts) = POk (cre ts) []) by (apply IH; [assumption | simpl in Hf; lia]).
    pose proof (rw_head ts Hts) as Hh.
    destruct t as [c | | | |]; simpl in Ht; try discriminate.
    + destruct (plain_not c Ht) as (_ & H1 & _ & _ & H4 & H5 & H6 & _ & Hbar & Hrp & Hbs & Hdot & Hlp & Hpl & Hca & Hdo).
      apply Z.eqb_neq in H1, H4, H5, H6, Hbar, Hrp, Hbs, Hdot, Hlp, Hpl, Hca, Hdo.
      change (rw (OLit c :: ts)) with (c :: rw ts).
      cbn [p_seq]. rewrite Hbar, Hrp, Hbs, Hdot, Hlp, H6, H4, H5, Hpl, H1, Hca, Hdo. cbn [orb].
      rewrite IHf. reflexivity.
    + change (rw (OAny :: ts)) with (ch_lbrk :: ch_caret :: ch_slash :: ch_rbrk :: rw ts).
      cbn [p_seq]. change (ch_lbrk =? ch_bar) with false. change (ch_lbrk =? ch_rpar) with false.
      change (ch_lbrk =? ch_bsl) with false. change (ch_lbrk =? ch_dot) with false. change (ch_lbrk =? ch_lpar) with false.
      change (ch_lbrk =? ch_lbrk) with true. cbn [orb]. cbv iota. rewrite parse_class_negslash.
      destruct (rw ts) as [| e t1] eqn:Er.
      * rewrite IHf. reflexivity.
      * destruct Hh as (Hs & _). apply Z.eqb_neq in Hs. rewrite Hs. rewrite IHf. reflexivity.
    + change (rw (OStar :: ts)) with (ch_lbrk :: ch_caret :: ch_slash :: ch_rbrk :: ch_star :: rw ts).
      cbn [p_seq]. change (ch_lbrk =? ch_bar) with false. change (ch_lbrk =? ch_rpar) with false.
      change (ch_lbrk =? ch_bsl) with false. change (ch_lbrk =? ch_dot) with false. change (ch_lbrk =? ch_lpar) with false.
      change (ch_lbrk =? ch_lbrk) with true. cbn [orb]. cbv iota. rewrite parse_class_negslash.
      change (ch_star =? ch_star) with true. cbv iota. rewrite IHf. reflexivity.
Qed.

Lemma rw_length : forall ts, (length ts <= length (rw ts))%nat \/ exists t, In t ts /\ flat_tok t = false.
Proof.
  induction ts as [| t ts IH]; [left; simpl; lia|].
  destruct IH as [IH | (t' & H1 & H2)]; [|right; exists t'; split; [right; assumption | assumption]].
  destruct t; simpl; rewrite ?app_length; simpl; try (left; lia); right; eexists; split; try (left; reflexivity); reflexivity.
Qed.

Lemma re_parse_flat : forall ts, forallb flat_tok ts = true -> re_parse (rw ts) = POk (cre ts) [].
Proof.
  intros ts H. unfold re_parse.
  assert (Hl : (length ts <= length (rw ts))%nat).
  { destruct (rw_length ts) as [Hl | (t & H1 & H2)]; [assumption|].
    rewrite forallb_forall in H. rewrite (H t H1) in H2. discriminate. }
  remember (3 * length (rw ts) + 4)%nat as fuel eqn:Hf. destruct fuel as [| f]; [lia|].
  cbn [p_alt]. rewrite (p_seq_flat ts f H) by lia. reflexivity.
Qed.

(* language congruences *)
Lemma lang_cat_congr : forall a a' b b', (forall s, lang a s <-> lang a' s) -> (forall s, lang b s <-> lang b' s) ->
  forall s, lang (RCat a b) s <-> lang (RCat a' b') s.
Proof.
  intros a a' b b' Ha Hb s. split; intro H; inversion H; subst; constructor;
    try (apply Ha; assumption); try (apply Hb; assumption).
Qed.
Lemma lang_star_congr_1 : forall a b, (forall s, lang a s -> lang b s) -> forall s, lang (RStar a) s -> lang (RStar b) s.
Proof.
  intros a b Hab s H. remember (RStar a) as r eqn:Hr. induction H; try discriminate.
  - constructor.
  - inversion Hr; subst. constructor; [apply Hab; assumption | apply IHlang2; reflexivity].
Qed.
Lemma lang_negslash_any : forall s, lang neg_slash s <-> lang (RAny [ch_slash]) s.
Proof.
  intro s. split; intro H; inversion H; subst; constructor.
  - match goal with h : xorb true _ = true |- _ => rewrite (neg_class_slash c []) in h; simpl in h end.
    rewrite in_list_slash. apply negb_false_iff. assumption.
  - rewrite (neg_class_slash c []). simpl.
    match goal with h : in_list _ _ = false |- _ => rewrite in_list_slash in h; apply negb_false_iff in h; assumption end.
Qed.

Lemma cre_compile : forall ts, forallb flat_tok ts = true -> forall s, lang (cre ts) s <-> lang (compile ts) s.
Proof.
  induction ts as [| t ts IH]; intros H s; [reflexivity|].
  simpl in H. apply andb_true_iff in H as [Ht Hts]. simpl.
  apply lang_cat_congr; [|apply IH; assumption].
  intro s'. destruct t; simpl in *; try discriminate.
  - reflexivity.
  - apply lang_negslash_any.
  - split; apply lang_star_congr_1; intro; apply lang_negslash_any.
Qed.

(* the statement *)
Lemma flat_pattern_correct : forall ts a, forallb flat_tok ts = true ->
  (osc_rematch (render ts) a = MTrue <-> osc_lang ts a).
Proof.
  intros ts a H. unfold osc_rematch, osc_rematch_gen. rewrite (rewrite_flat ts H), (re_parse_flat ts H).
  rewrite <- compile_correct, <- (cre_compile ts H a), <- rmatch_correct.
  destruct (rmatch (cre ts) a); split; intro; congruence.
Qed.
