(* C06 -- parse (build m) = the coerced arguments: messages (type-tag loop, array
   stack) and bundles of any nesting depth (fuel = length + 1 suffices). *)
From Coq Require Import ZArith QArith List Bool Lia.
Import ListNotations.
Require Import SC3.model.Osc SC3.model.OscSize SC3.proofs.C06_base SC3.proofs.C06_size SC3.proofs.C06_readers.
Open Scope Z_scope.

(* typed arguments the readers can undo *)
Definition targ_ok (t : targ) : Prop :=
  match t with
  | TFloat w => zlen w = 4
  | TStr s => has_nul s = false
  | _ => True
  end.

Definition nest_res (toks : list tok) (st : list (list pval)) : res (list pval) :=
  match nest toks st with Some ps => Ok ps | None => Err EParse end.

Lemma tag_loop_enc : forall nc targs v pre post st,
  enc_targs nc targs = Ok v -> Forall targ_ok targs -> st <> [] ->
  tag_loop (pre ++ v ++ post) (map tag_of targs) (zlen pre) st = nest_res (map tok_of targs) st.
Proof.
  intros nc targs. induction targs as [| t r IH]; intros v pre post st He Hok Hst.
  - cbn [map tag_loop]. unfold nest_res. cbn [nest]. destruct st as [| top [| x y]]; reflexivity.
  - cbn [enc_targs] in He. apply bind_ok in He as (a & Ha & He). apply bind_ok in He as (b & Hb & He). inv_ok He.
    inversion Hok as [| ? ? Ht Hr]; subst.
    destruct st as [| top rest]; [contradiction |].
    rewrite <- app_assoc.
    assert (Hnext : forall st', st' <> [] ->
              tag_loop (pre ++ a ++ b ++ post) (map tag_of r) (zlen pre + zlen a) st' = nest_res (map tok_of r) st').
    { intros st' Hst'. rewrite (app_assoc pre a). replace (zlen pre + zlen a) with (zlen (pre ++ a)) by apply zlen_app.
      apply IH; assumption. }
    destruct t as [z | w | s | bl | |]; cbn [map tag_of tok_of tag_loop enc_targ] in *.
    + (* int *)
      change (105 =? 105) with true. cbv iota.
      rewrite (get_int_write _ _ _ _ Ha). cbn [bind].
      rewrite <- (write_int_len _ _ Ha). rewrite Hnext by discriminate.
      unfold nest_res. cbn [nest]. reflexivity.
    + (* float *)
      change (102 =? 105) with false. change (102 =? 102) with true. cbv iota.
      inv_ok Ha. cbn [targ_ok] in Ht.
      rewrite (get_float_app _ _ _ Ht). cbn [bind].
      rewrite <- Ht. rewrite Hnext by discriminate.
      unfold nest_res. cbn [nest]. reflexivity.
    + (* str *)
      change (115 =? 105) with false. change (115 =? 102) with false. change (115 =? 100) with false.
      change (115 =? 115) with true. cbv iota.
      cbn [targ_ok] in Ht. destruct (write_string_inv _ _ _ Ha) as [-> _].
      rewrite (get_string_write _ _ _ Ht). cbn [bind].
      assert (Hl : strpad4 (zlen s) = zlen (s ++ zeros (4 - zlen s mod 4))).
      { pose proof (Z.mod_pos_bound (zlen s) 4 ltac:(lia)). rewrite zlen_app, zlen_zeros, strpad4_eq by lia. lia. }
      rewrite Hl. rewrite Hnext by discriminate.
      unfold nest_res. cbn [nest]. reflexivity.
    + (* blob *)
      change (98 =? 105) with false. change (98 =? 102) with false. change (98 =? 100) with false.
      change (98 =? 115) with false. change (98 =? 98) with true. cbv iota.
      rewrite (get_blob_write _ _ _ _ Ha). cbn [bind].
      rewrite Hnext by discriminate.
      unfold nest_res. cbn [nest]. reflexivity.
    + (* '[' *)
      change (91 =? 105) with false. change (91 =? 102) with false. change (91 =? 100) with false.
      change (91 =? 115) with false. change (91 =? 98) with false. change (91 =? 114) with false.
      change (91 =? 109) with false. change (91 =? 116) with false. change (91 =? 84) with false.
      change (91 =? 70) with false. change (91 =? 91) with true. cbv iota.
      inv_ok Ha. rewrite zlen_nil in Hnext. rewrite Z.add_0_r in Hnext. cbn [app] in *.
      rewrite Hnext by discriminate. unfold nest_res. cbn [nest]. reflexivity.
    + (* ']' *)
      change (93 =? 105) with false. change (93 =? 102) with false. change (93 =? 100) with false.
      change (93 =? 115) with false. change (93 =? 98) with false. change (93 =? 114) with false.
      change (93 =? 109) with false. change (93 =? 116) with false. change (93 =? 84) with false.
      change (93 =? 70) with false. change (93 =? 91) with false. change (93 =? 93) with true. cbv iota.
      inv_ok Ha. rewrite zlen_nil in Hnext. rewrite Z.add_0_r in Hnext. cbn [app] in *.
      destruct rest as [| p rest'].
      * unfold nest_res. cbn [nest]. reflexivity.
      * rewrite Hnext by discriminate. unfold nest_res. cbn [nest]. reflexivity.
Qed.

Lemma list_case_ne : forall {A B} (l : list A) (x y : B), l <> [] -> match l with [] => x | _ :: _ => y end = y.
Proof. intros A B l x y H. destruct l; [contradiction | reflexivity]. Qed.

(* no NUL among the type tags *)
Lemma tags_no_nul : forall targs, has_nul (44 :: map tag_of targs) = false.
Proof.
  intros targs. cbn [has_nul existsb]. change (0 =? 44) with false. cbn [orb].
  induction targs as [| t r IH]; [reflexivity |].
  cbn [map existsb]. rewrite IH. destruct t; reflexivity.
Qed.

(* the parser on the output of the writer *)
Lemma parse_enc_msg : forall nc addr targs d,
  enc_msg nc addr targs = Ok d -> has_nul addr = false -> Forall targ_ok targs ->
  parse_msg d = nest_res (map tok_of targs) [[]] >>= fun ps => Ok (addr, ps).
Proof.
  intros nc addr targs d H Hna Hok. unfold enc_msg in H.
  destruct addr as [| a0 ar] eqn:Ea; [discriminate |]. rewrite <- Ea in *. clear Ea a0 ar.
  apply bind_ok in H as (a & Ha & H). apply bind_ok in H as (t & Ht & H). apply bind_ok in H as (v & Hv & H). inv_ok H.
  destruct (write_string_inv _ _ _ Ha) as [EA _].
  destruct (write_string_inv _ _ _ Ht) as [ET _].
  remember (44 :: map tag_of targs) as tg eqn:Etg.
  assert (G1 : get_string (a ++ t ++ v) 0 = Ok (addr, zlen a)).
  { pose proof (get_string_write addr [] (t ++ v) Hna) as G. cbn [app] in G. rewrite zlen_nil in G.
    rewrite <- EA in G. rewrite G. f_equal. f_equal.
    rewrite EA. pose proof (Z.mod_pos_bound (zlen addr) 4 ltac:(lia)). rewrite zlen_app, zlen_zeros, strpad4_eq by lia. lia. }
  assert (G2 : get_string (a ++ t ++ v) (zlen a) = Ok (tg, zlen (a ++ t))).
  { pose proof (get_string_write tg a v) as G. rewrite <- ET in G. rewrite G by (rewrite Etg; apply tags_no_nul).
    f_equal. f_equal.
    rewrite zlen_app, ET. pose proof (Z.mod_pos_bound (zlen tg) 4 ltac:(lia)). rewrite zlen_app, zlen_zeros, strpad4_eq by lia. lia. }
  unfold parse_msg. rewrite G1. cbn [bind]. rewrite slice_from_app.
  rewrite list_case_ne by (rewrite ET, Etg; cbn [app]; discriminate).
  rewrite G2. cbn [bind]. rewrite Etg. lazy beta iota zeta.
  replace (a ++ t ++ v) with ((a ++ t) ++ v ++ []) by (rewrite app_nil_r, app_assoc; reflexivity).
  rewrite (tag_loop_enc nc targs v (a ++ t) [] [[]] Hv Hok) by discriminate.
  reflexivity.
Qed.

(* what _build_msg hands to the builder: strings are NUL-free when the writer checks,
   float words have 4 bytes under the harness invariant *)
Lemma coerce_args_ok : forall nc args targs v,
  forallb floats4 args = true ->
  coerce_args nc args = Ok targs -> enc_targs nc targs = Ok v ->
  (nc = true \/ forall s, In (AStr s) args -> has_nul s = false) ->
  Forall targ_ok targs.
Proof.
  intros nc args. induction args as [| x r IH]; intros targs v Hwf Hc He Hn.
  - cbn in Hc. inv_ok Hc. constructor.
  - cbn [coerce_args] in Hc. apply bind_ok in Hc as (t & Ht & Hc). apply bind_ok in Hc as (ts & Hts & Hc). inv_ok Hc.
    cbn [enc_targs] in He. apply bind_ok in He as (a & Ha & He). apply bind_ok in He as (b & Hb & He). inv_ok He.
    cbn [forallb] in Hwf. apply andb_prop in Hwf as [Hwx Hwr].
    constructor.
    + destruct x as [| bo | z | w | s | bl | lat tag | | l]; cbn [coerce1] in Ht; try discriminate Ht.
      * inv_ok Ht. exact I.
      * inv_ok Ht. exact I.
      * inv_ok Ht. exact I.
      * inv_ok Ht. cbn [floats4] in Hwx. apply Z.eqb_eq in Hwx. exact Hwx.
      * inv_ok Ht.
        destruct (match s with [91] => true | _ => false end); [exact I |].
        destruct (match s with [93] => true | _ => false end); [exact I |].
        cbn [targ_ok]. cbn [enc_targ] in Ha. destruct (write_string_inv _ _ _ Ha) as [_ Hnc].
        destruct Hn as [-> | Hn]; [apply Hnc; reflexivity | apply Hn; left; reflexivity].
      * inv_ok Ht. exact I.
      * destruct l as [| h tl]; [inv_ok Ht; exact I |].
        destruct h; try discriminate Ht.
        -- apply bind_ok in Ht as (d & _ & Ht). inv_ok Ht. exact I.
        -- destruct tl as [| e1 tl']; [discriminate Ht |]. destruct e1; try discriminate Ht.
           apply bind_ok in Ht as (d & _ & Ht). inv_ok Ht. exact I.
    + apply (IH ts b Hwr Hts Hb). destruct Hn as [Hn | Hn]; [left; exact Hn | right; intros s Hs; apply Hn; right; exact Hs].
Qed.

Theorem msg_roundtrip_main : forall nc addr args d,
  forallb floats4 args = true ->
  (nc = true \/ (has_nul addr = false /\ forall s, In (AStr s) args -> has_nul s = false)) ->
  build_pkt nc (AList (AStr addr :: args)) = Ok d ->
  exists targs ps,
    coerce_args nc args = Ok targs /\
    nest (map tok_of targs) [[]] = Some ps /\
    parse_msg d = Ok (addr, ps).
Proof.
  intros nc addr args d Hwf Hn Hb. rewrite build_pkt_msg in Hb.
  apply bind_ok in Hb as (targs & Hc & Hb). apply bind_ok in Hb as (d0 & He & Hb).
  pose proof (check_msg_ok _ _ Hb) as ->.
  assert (Hna : has_nul addr = false).
  { destruct Hn as [-> | [Hna _]]; [| exact Hna].
    unfold enc_msg in He. destruct addr as [| a0 ar] eqn:Ea; [discriminate |]. rewrite <- Ea in *.
    apply bind_ok in He as (a & Ha & _). destruct (write_string_inv _ _ _ Ha) as [_ Hnc]. apply Hnc. reflexivity. }
  destruct (enc_msg_len _ _ _ _ He) as (v & Hv & _).
  assert (Hok : Forall targ_ok targs).
  { apply (coerce_args_ok nc args targs v Hwf Hc Hv). destruct Hn as [Hn | [_ Hn]]; [left | right]; exact Hn. }
  pose proof (parse_enc_msg nc addr targs d0 He Hna Hok) as Hp.
  exists targs. unfold check_msg in Hb. rewrite Hp in Hb. unfold nest_res in *.
  destruct (nest (map tok_of targs) [[]]) as [ps |]; cbn [bind] in *; [| discriminate Hb].
  exists ps. auto.
Qed.

(* refusal: unbalanced array markers never reach the wire *)
Theorem msg_unbalanced_refused : forall nc addr args targs d0,
  forallb floats4 args = true ->
  (nc = true \/ (has_nul addr = false /\ forall s, In (AStr s) args -> has_nul s = false)) ->
  coerce_args nc args = Ok targs -> enc_msg nc addr targs = Ok d0 ->
  nest (map tok_of targs) [[]] = None ->
  build_pkt nc (AList (AStr addr :: args)) = Err EParse.
Proof.
  intros nc addr args targs d0 Hwf Hn Hc He Hnest. rewrite build_pkt_msg. rewrite Hc. cbn [bind]. rewrite He. cbn [bind].
  assert (Hna : has_nul addr = false).
  { destruct Hn as [-> | [Hna _]]; [| exact Hna].
    unfold enc_msg in He. destruct addr as [| a0 ar] eqn:Ea; [discriminate |]. rewrite <- Ea in *.
    apply bind_ok in He as (a & Ha & _). destruct (write_string_inv _ _ _ Ha) as [_ Hnc]. apply Hnc. reflexivity. }
  destruct (enc_msg_len _ _ _ _ He) as (v & Hv & _).
  assert (Hok : Forall targ_ok targs).
  { apply (coerce_args_ok nc args targs v Hwf Hc Hv). destruct Hn as [Hn | [_ Hn]]; [left | right]; exact Hn. }
  unfold check_msg. rewrite (parse_enc_msg nc addr targs d0 He Hna Hok). unfold nest_res. rewrite Hnest. reflexivity.
Qed.

(* ---- bundles ---- *)
(* what the receiver must see for an argument tree *)
Inductive expect (nc : bool) : arg -> packet -> Prop :=
| ExMsg : forall addr args targs ps,
    coerce_args nc args = Ok targs -> nest (map tok_of targs) [[]] = Some ps ->
    expect nc (AList (AStr addr :: args)) (PMsg addr ps)
| ExBundle : forall lat tag elems cs,
    Forall2 (expect nc) elems cs ->
    expect nc (AList (ATime lat tag :: elems)) (PBundle tag cs).

Lemma pkt_guard_bundle : forall nc lat tag elems,
  pkt_guard nc (AList (ATime lat tag :: elems)) = forallb (pkt_guard nc) elems.
Proof.
  intros nc lat tag elems. cbn [pkt_guard].
  induction elems as [| x r IH]; [reflexivity |]. cbn [forallb]. rewrite IH. reflexivity.
Qed.

Definition rt (nc : bool) (a : arg) : Prop :=
  floats4 a = true -> pkt_guard nc a = true ->
  forall d, build_pkt nc a = Ok d -> forall fuel, (length d < fuel)%nat ->
  exists p, parse_any fuel d = Ok p /\ expect nc a p.

Lemma str_guard_in : forall args, forallb str_nul_free args = true -> forall s, In (AStr s) args -> has_nul s = false.
Proof.
  intros args H s Hs. rewrite forallb_forall in H. specialize (H _ Hs). cbn in H.
  destruct (has_nul s); [discriminate H | reflexivity].
Qed.

Lemma rt_contents : forall nc lat elems,
  Forall (rt nc) elems -> forallb floats4 elems = true -> forallb (pkt_guard nc) elems = true ->
  forall ds b, build_elems nc lat elems = Ok ds -> enc_contents ds = Ok b ->
  forall pre post acc f, post = [] -> (length b < f)%nat ->
  exists cs, Forall2 (expect nc) elems cs /\
             parse_contents f (pre ++ b ++ post) (zlen pre) acc = Ok (rev acc ++ cs).
Proof.
  intros nc lat elems. induction elems as [| e r IH]; intros HF Hwf Hg ds b Hb He pre post acc f Hpost Hf.
  - subst post. cbn in Hb. inv_ok Hb. cbn in He. inv_ok He. exists []. split; [constructor |].
    destruct f as [| f']; [inversion Hf |]. cbn [parse_contents]. rewrite slice_from_app. cbn [app].
    rewrite app_nil_r. reflexivity.
  - subst post. cbn [build_elems] in Hb. apply bind_ok in Hb as (d & Hd & Hb). apply bind_ok in Hb as (ds' & Hds & Hb). inv_ok Hb.
    cbn [enc_contents] in He. apply bind_ok in He as (h & Hh & He). apply bind_ok in He as (b' & Hb' & He). inv_ok He.
    cbn [forallb] in Hwf, Hg. apply andb_prop in Hwf as [Hwe Hwr]. apply andb_prop in Hg as [Hge Hgr].
    inversion HF as [| ? ? Pe Pr]; subst.
    destruct (build_elem_shape _ _ _ _ Hd) as [Hbp _].
    pose proof (write_int_len _ _ Hh) as Hh4.
    assert (Hlen : length (h ++ d ++ b') = (4 + length d + length b')%nat).
    { rewrite !app_length. unfold zlen in Hh4. lia. }
    destruct f as [| f']; [inversion Hf |].
    destruct (Pe Hwe Hge d Hbp f' ltac:(lia)) as (p & Hp & Hex).
    destruct (IH Pr Hwr Hgr ds' b' Hds Hb' (pre ++ h ++ d) [] (p :: acc) f' eq_refl ltac:(lia)) as (cs & Hcs & Hrest).
    exists (p :: cs). split; [constructor; assumption |].
    cbn [parse_contents]. rewrite slice_from_app.
    rewrite list_case_ne by (destruct h; [discriminate Hh4 | cbn [app]; discriminate]).
    rewrite <- !app_assoc. rewrite (get_int_write _ _ _ _ Hh). cbn [bind].
    assert (Hchk : ((zlen d <? 0) || (zlen (pre ++ h ++ d ++ b' ++ []) <? zlen pre + 4 + zlen d)) = false).
    { apply orb_false_intro; apply Z.ltb_ge; [apply zlen_nonneg |].
      rewrite !zlen_app. pose proof (zlen_nonneg b'). rewrite zlen_nil. lia. }
    rewrite Hchk.
    assert (Hcontent : slice (pre ++ h ++ d ++ b' ++ []) (zlen pre + 4) (zlen pre + 4 + zlen d) = d).
    { rewrite (app_assoc pre h). replace (zlen pre + 4) with (zlen (pre ++ h)) by (rewrite zlen_app; lia). apply slice_app. }
    rewrite Hcontent.
    assert (Hidx : zlen pre + 4 + zlen d = zlen (pre ++ h ++ d)) by (rewrite !zlen_app; lia).
    rewrite Hidx.
    assert (Hdg : pre ++ h ++ d ++ b' ++ [] = (pre ++ h ++ d) ++ b' ++ []) by (rewrite <- !app_assoc; reflexivity).
    rewrite Hdg. unfold parse_any in Hp.
    destruct (is_bundle d).
    + rewrite Hp. cbn [bind]. rewrite Hrest. cbn [rev]. rewrite <- app_assoc. reflexivity.
    + destruct (is_message d); [| discriminate Hp].
      destruct (parse_msg d) as [[a0 ps0] | e0]; [| discriminate Hp]. cbn [bind] in *. inv_ok Hp.
      rewrite Hrest. cbn [rev]. rewrite <- app_assoc. reflexivity.
Qed.

Lemma enc_msg_head : forall nc addr targs d, enc_msg nc addr targs = Ok d -> exists r, d = addr ++ r.
Proof.
  intros nc addr targs d H. unfold enc_msg in H. destruct addr as [| a0 ar] eqn:Ea; [discriminate |]. rewrite <- Ea in *.
  apply bind_ok in H as (a & Ha & H). apply bind_ok in H as (t & Ht & H). apply bind_ok in H as (v & Hv & H). inv_ok H.
  destruct (write_string_inv _ _ _ Ha) as [-> _]. rewrite <- app_assoc. eauto.
Qed.

Theorem rt_all : forall nc a, rt nc a.
Proof.
  intros nc. apply arg_nested_ind.
  - intros a Hleaf Hwf Hg d Hb. destruct a; try discriminate Hb. exfalso. eapply Hleaf. reflexivity.
  - intros l HF Hwf Hg d Hb fuel Hfuel. rewrite floats4_list in Hwf.
    destruct l as [| h tl]; [discriminate Hb |].
    inversion HF as [| ? ? _ Htl]; subst. cbn [forallb] in Hwf. apply andb_prop in Hwf as [_ Hwtl].
    destruct h as [| | | | addr | | lat tag | |]; try discriminate Hb.
    + (* message *)
      cbn [pkt_guard] in Hg. apply andb_prop in Hg as [Hslash Hnul].
      assert (Hn : nc = true \/ (has_nul addr = false /\ forall s, In (AStr s) tl -> has_nul s = false)).
      { destruct nc; [left; reflexivity | right]. cbn [orb] in Hnul. apply andb_prop in Hnul as [H1 H2].
        split; [destruct (has_nul addr); [discriminate H1 | reflexivity] | apply str_guard_in; exact H2]. }
      destruct (msg_roundtrip_main nc addr tl d Hwtl Hn Hb) as (targs & ps & Hc & Hnest & Hp).
      exists (PMsg addr ps). split; [| econstructor; eassumption].
      rewrite build_pkt_msg in Hb. apply bind_ok in Hb as (targs' & _ & Hb). apply bind_ok in Hb as (d0 & He & Hb).
      pose proof (check_msg_ok _ _ Hb) as ->.
      destruct (enc_msg_head _ _ _ _ He) as (r & ->).
      destruct addr as [| c0 ar]; [discriminate Hslash |]. cbn [starts_with] in Hslash.
      apply andb_prop in Hslash as [Hc0 _]. apply Z.eqb_eq in Hc0. subst c0.
      unfold parse_any. cbn [app] in *. 
      change (is_bundle (47 :: ar ++ r)) with false. change (is_message (47 :: ar ++ r)) with true. cbv iota.
      rewrite Hp. reflexivity.
    + (* bundle *)
      rewrite pkt_guard_bundle in Hg.
      rewrite build_pkt_bundle in Hb. apply bind_ok in Hb as (ds & Hds & Hb). apply bind_ok in Hb as (d0 & He & Hb).
      pose proof (check_bundle_ok _ _ Hb) as ->.
      unfold enc_bundle in He. apply bind_ok in He as (t & Ht & He). apply bind_ok in He as (b & Hbb & He). inv_ok He.
      pose proof (write_timetag_len _ _ Ht) as Ht8.
      destruct fuel as [| f]; [inversion Hfuel |].
      assert (Hlen : length (bundle_prefix ++ t ++ b) = (16 + length b)%nat).
      { rewrite !app_length. unfold zlen in Ht8. cbn [length bundle_prefix]. lia. }
      destruct (rt_contents nc lat tl Htl Hwtl Hg ds b Hds Hbb (bundle_prefix ++ t) [] [] f eq_refl ltac:(lia)) as (cs & Hcs & Hpc).
      exists (PBundle tag cs). split; [| constructor; exact Hcs].
      unfold parse_any. change (is_bundle (bundle_prefix ++ t ++ b)) with true. cbv iota.
      cbn [parse_bundle]. change 8 with (zlen bundle_prefix) at 1.
      rewrite (get_timetag_write _ _ _ _ Ht). cbn [bind].
      replace (zlen bundle_prefix + 8) with (zlen (bundle_prefix ++ t)) by (rewrite zlen_app; change (zlen bundle_prefix) with 8; lia).
      rewrite app_nil_r in Hpc. rewrite app_assoc. rewrite Hpc. cbn [bind rev app]. reflexivity.
Qed.
