(* C16 -- the statements of the property, derived from the invariant. *)
From Coq Require Import ZArith List Bool Lia.
Import ListNotations.
Require Import SC3.model.Alloc SC3.proofs.C16_base SC3.proofs.C16_inv SC3.proofs.C16_alloc SC3.proofs.C16_free SC3.proofs.C16_main.
Open Scope Z_scope.

(* index x of the partition belongs to a free block *)
Definition free_addr (s : st) (x : Z) : Prop :=
  exists a b, at_ s a = Some b /\ bused b = false /\ a <= x < a + bsize b.

Lemma alloc_some_inv s n c s' a : AInv s -> 1 <= n -> alloc s n c = Ok (s', Some a) ->
  exists b, at_ s a = Some b /\ bstart b = a /\ bused b = false /\ n <= bsize b /\ s' = alloc_result s b n /\ AInv s'.
Proof.
  intros A Hn E. destruct (alloc_spec s n c A Hn) as [[E' _]|(b & Hb & Hu & Hle & E' & A')].
  - rewrite E' in E. discriminate.
  - rewrite E' in E. inv E. exists b. split; [auto|]. split; [auto|]. split; [auto|]. split; [auto|]. split; auto.
Qed.

Lemma alloc_disjoint_from_live_proof s n c s' a : AInv s -> 1 <= n -> alloc s n c = Ok (s', Some a) ->
  (forall a' n', is_live s a' n' -> a + n <= a' \/ a' + n' <= a) /\
  is_live s' a n /\
  (forall a' n', is_live s' a' n' <-> is_live s a' n' \/ (a' = a /\ n' = n)).
Proof.
  intros A Hn E. destruct (alloc_some_inv s n c s' a A Hn E) as (b & Hb & Hst & Hu & Hle & -> & A').
  destruct A as [P C]. subst a.
  assert (Hlive : forall a' n', is_live (alloc_result s b n) a' n' <-> is_live s a' n' \/ (a' = bstart b /\ n' = n))
    by (intros; apply alloc_live; auto; lia).
  split; [|split; auto].
  - intros a' n' Hl. unfold is_live in Hl.
    destruct (two_blocks s _ _ _ _ P Hb Hl) as [[? E2]|[[? ?]|[? ?]]]; simpl in *; try lia.
    rewrite E2 in Hu. discriminate.
  - apply Hlive. auto.
Qed.

Lemma alloc_inside_partition_proof s n c s' a : AInv s -> 1 <= n -> alloc s n c = Ok (s', Some a) ->
  pos s <= a /\ a + n <= off s + size s.
Proof.
  intros A Hn E. destruct (alloc_some_inv s n c s' a A Hn E) as (b & Hb & Hst & Hu & Hle & _ & _).
  destruct A as [P C]. pose proof (P_cell s P _ _ Hb) as Hc. unfold hi in Hc. lia.
Qed.

(* a run of n free indices lies inside one free block *)
Lemma free_run_in_block s a n : AInv s -> 1 <= n -> (forall x, a <= x < a + n -> free_addr s x) ->
  exists a0 b, at_ s a0 = Some b /\ bused b = false /\ a0 <= a /\ a + n <= a0 + bsize b.
Proof.
  intros [P C] Hn Hrun. destruct (Hrun a ltac:(lia)) as (a0 & b & Hb & Hu & Hr).
  exists a0, b. split; [auto|]. split; [auto|]. split; [lia|].
  destruct (Z.le_gt_cases (a + n) (a0 + bsize b)) as [|Hgt]; auto. exfalso.
  pose proof (P_cell s P _ _ Hb) as Hc. destruct Hc as (Hst & Hsz & Hend & Hpos). subst a0.
  destruct (Hrun (bstart b + bsize b) ltac:(lia)) as (a1 & b1 & Hb1 & Hu1 & Hr1).
  pose proof (P_cell s P _ _ Hb1) as Hc1.
  destruct (at_ s (bstart b + bsize b)) as [b'|] eqn:Hb'; [|apply (P_next s P _ b Hb); auto; lia].
  assert (a1 = bstart b + bsize b).
  { destruct (two_blocks s _ _ _ _ P Hb1 Hb') as [[? ?]|[[? ?]|[? ?]]]; auto; lia. }
  subst a1. rewrite Hb' in Hb1. inv Hb1. apply (C _ b b1 Hb); auto.
Qed.

Lemma alloc_complete s n c s' : AInv s -> 1 <= n -> alloc s n c = Ok (s', None) ->
  s' = s /\ ~ exists a, forall x, a <= x < a + n -> free_addr s x.
Proof.
  intros A Hn E. destruct (alloc_spec s n c A Hn) as [[E' Hnf]|(b & Hb & Hu & Hle & E' & A')].
  2:{ rewrite E' in E. discriminate. }
  rewrite E' in E. inv E. split; auto. intros (a & Hrun).
  destruct (free_run_in_block s' a n A Hn Hrun) as (a0 & b & Hb & Hu & H1 & H2).
  destruct A as [P C]. destruct Hnf as (Hsmall & bt & Ht & Hbt).
  pose proof (P_cell s' P _ _ Hb) as Hc. pose proof (le_top s' a0 b P Hb) as Hle.
  destruct (Z.eq_dec a0 (top s')) as [->|Hne].
  - rewrite Ht in Hb. inv Hb. destruct Hbt; [congruence|lia].
  - assert (Hm : fmem (freed s') (bsize b) a0) by (apply (P_compl s' P); auto; lia).
    apply Hsmall in Hm. lia.
Qed.

Lemma free_then_available_again_proof s a n : AInv s -> is_live s a n ->
  exists s', free true s a = Ok s' /\ AInv s' /\
    (forall x, a <= x < a + n -> free_addr s' x) /\
    (forall a' n', is_live s' a' n' <-> is_live s a' n' /\ a' <> a) /\
    forall c, exists s'' a', alloc s' n c = Ok (s'', Some a').
Proof.
  intros A Hl. destruct (free_live s a n A Hl) as (s' & xb & mb & E & A' & Hb & H1 & H2 & U & _).
  assert (Hn : 1 <= n) by (destruct A as [P _]; pose proof (P_cell s P _ _ Hl) as Hc; simpl in Hc; lia).
  assert (Hrun : forall x, a <= x < a + n -> free_addr s' x).
  { intros x Hx. exists xb, (mkB xb mb false). simpl. split; [auto|]. split; [auto|]. lia. }
  exists s'. split; [auto|]. split; [auto|]. split; [auto|]. split.
  - intros a' n'. unfold is_live. apply U. reflexivity.
  - intros c. destruct (alloc s' n c) as [[s'' [a'|]]|e] eqn:Ea.
    + eauto.
    + exfalso. destruct (alloc_complete s' n c s'' A' Hn Ea) as (_ & Hno). apply Hno. eauto.
    + exfalso. destruct (alloc_spec s' n c A' Hn) as [[E' _]|(b & _ & _ & _ & E' & _)]; congruence.
Qed.

Lemma free_not_live_noop s a : AInv s -> (forall n, ~ is_live s a n) -> free true s a = Ok s.
Proof. intros [P _] Hn. apply free_noop; auto. Qed.

Lemma double_free_is_noop_proof s a n s' : AInv s -> is_live s a n -> free true s a = Ok s' ->
  free true s' a = Ok s'.
Proof.
  intros A Hl E. destruct (free_then_available_again_proof s a n A Hl) as (s1 & E1 & A1 & _ & U & _).
  rewrite E1 in E. inv E. pose proof (at_range _ _ _ Hl) as Hr.
  destruct (free_live s a n A Hl) as (s2 & _ & _ & E2 & _ & _ & _ & _ & _ & Kp & Ko & Ks).
  rewrite E1 in E2. inv E2.
  apply free_not_live_noop; auto.
  intros n' Hl'. apply U in Hl'. tauto.
Qed.

(* ---- partitions (server.py) -------------------------------------------------------------- *)
Lemma partitions_arith total io logins reserved c1 c2 :
  0 < logins -> io <= total -> 0 <= c1 < c2 -> c2 < logins ->
  let '(sz1, _, o1) := partition total io logins reserved c1 in
  let '(sz2, _, o2) := partition total io logins reserved c2 in
  io <= o1 /\ o1 + sz1 <= o2 /\ o2 + sz2 <= total.
Proof.
  intros Hl Hio Hc Hc2. unfold partition.
  set (per := (total - io) / logins).
  assert (0 <= per) by (apply Z.div_pos; lia).
  assert (logins * per <= total - io) by (apply Z.mul_div_le; lia).
  repeat split; nia.
Qed.

Lemma partitions_disjoint_proof total io logins reserved c1 c2 s1 s2 n1 n2 k1 k2 s1' s2' a1 a2 :
  0 < logins -> io <= total -> 0 <= c1 < c2 -> c2 < logins -> 0 <= reserved ->
  AInv s1 -> AInv s2 ->
  (size s1, pos s1 - off s1, off s1) = partition total io logins reserved c1 ->
  (size s2, pos s2 - off s2, off s2) = partition total io logins reserved c2 ->
  1 <= n1 -> 1 <= n2 ->
  alloc s1 n1 k1 = Ok (s1', Some a1) -> alloc s2 n2 k2 = Ok (s2', Some a2) ->
  io <= a1 /\ a1 + n1 <= a2 /\ a2 + n2 <= total.
Proof.
  intros Hl Hio Hc Hc2 Hr A1 A2 E1 E2 Hn1 Hn2 Ea1 Ea2.
  pose proof (partitions_arith total io logins reserved c1 c2 Hl Hio Hc Hc2) as Hp.
  rewrite <- E1, <- E2 in Hp. destruct Hp as (H1 & H2 & H3).
  pose proof (alloc_inside_partition_proof s1 n1 k1 s1' a1 A1 Hn1 Ea1).
  pose proof (alloc_inside_partition_proof s2 n2 k2 s2' a2 A2 Hn2 Ea2).
  unfold partition in E1, E2. inversion E1. inversion E2.
  destruct A1 as [P1 _], A2 as [P2 _]. pose proof (P_pos s1 P1). pose proof (P_pos s2 P2).
  lia.
Qed.

(* F1: with the test "i < self.size" (rel = false) and a client offset, coalescing and completeness fail *)
Lemma absolute_test_breaks_completeness_proof :
  exists sz p o ops s outs, 0 <= p < sz /\ Forall (wf_op o sz) ops /\
    (s0 <- init sz p o ;; run false s0 ops) = Ok (s, outs) /\
    last outs (Some 0) = None /\ ghost ops outs [] = [] /\
    (forall x, o + p <= x < o + sz -> free_addr s x).
Proof.
  exists 4, 0, 8, [OAlloc 3 0; OFree 8; OAlloc 4 0].
  eexists. eexists. split; [lia|]. split; [repeat constructor; simpl; lia|].
  split; [vm_compute; reflexivity|]. split; [reflexivity|]. split; [reflexivity|].
  intros x Hx. unfold free_addr.
  assert (Hx4 : x = 8 \/ x = 9 \/ x = 10 \/ x = 11) by lia.
  destruct Hx4 as [E|[E|[E|E]]]; subst x.
  - exists 8, (mkB 8 3 false). vm_compute. intuition congruence.
  - exists 8, (mkB 8 3 false). vm_compute. intuition congruence.
  - exists 8, (mkB 8 3 false). vm_compute. intuition congruence.
  - exists 11, (mkB 11 1 false). vm_compute. intuition congruence.
Qed.
