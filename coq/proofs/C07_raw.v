(* C07: the binary form of the score over C06's encoder -- unique decodability, timetags. *)
From Coq Require Import ZArith QArith Qround List Bool Lia Lqa Sorting.Sorted.
Require Import SC3.model.Osc SC3.model.KProg SC3.model.KNrt SC3.model.KScore.
Require Import SC3.proofs.C06_base SC3.proofs.C06_size SC3.proofs.C06_readers SC3.proofs.C06_roundtrip.
Require Import SC3.proofs.C05_frame SC3.proofs.C07_stamp SC3.proofs.C07_runs SC3.proofs.C07_props.
Import ListNotations.

(* ---- the splitter inverts the concatenation --------------------------------------------------- *)
Open Scope Z_scope.
Lemma firstn_zlen_app {A} (d r : list A) : firstn (Z.to_nat (zlen d)) (d ++ r) = d.
Proof.
  unfold zlen. rewrite Nat2Z.id. rewrite firstn_app, Nat.sub_diag, firstn_all. simpl. apply app_nil_r.
Qed.

Lemma split_concat : forall ds fuel, (length ds < fuel)%nat ->
  Forall (fun d => zlen d < 4294967296) ds ->
  split_raw fuel (concat (map prefixed ds)) = Some ds.
Proof.
  induction ds as [|d ds IH]; intros fuel Hf Hb.
  - destruct fuel; [lia|]. reflexivity.
  - destruct fuel as [|f]; [simpl in Hf; lia|]. inversion Hb as [|? ? Hd Hds]; subst.
    cbn [map concat]. unfold prefixed at 1.
    assert (Hz : 0 <= zlen d < 4294967296) by (pose proof (@zlen_nonneg Z d); lia).
    pose proof (be_val_be32_acc (zlen d) 0 Hz) as Hv. rewrite Z.mul_0_l, Z.add_0_l in Hv.
    unfold Osc.be32 in *. cbn [app]. cbn [split_raw]. rewrite Hv.
    rewrite zlen_app.
    destruct (zlen d + zlen (concat (map prefixed ds)) <? zlen d) eqn:E.
    { apply Z.ltb_lt in E. pose proof (@zlen_nonneg Z (concat (map prefixed ds))). lia. }
    rewrite skipn_zlen_app, firstn_zlen_app. rewrite IH; auto. simpl in Hf. lia.
Qed.

Lemma length_concat_prefixed ds : (length ds <= length (concat (map prefixed ds)))%nat.
Proof.
  induction ds as [|d ds IH]; [simpl; auto|].
  cbn [map concat Datatypes.length]. rewrite app_length. unfold prefixed at 1. rewrite app_length.
  unfold Osc.be32. cbn [Datatypes.length]. lia.
Qed.

Lemma split_top ds : Forall (fun d => zlen d < 4294967296) ds ->
  split_raw_top (concat (map prefixed ds)) = Some ds.
Proof.
  intros H. unfold split_raw_top. apply split_concat; [|exact H].
  pose proof (length_concat_prefixed ds) as L. apply Nat.lt_succ_r. exact L.
Qed.

(* ---- what score_encs returns ------------------------------------------------------------------ *)
Lemma score_encs_ok nc : forall sc ds, score_encs nc sc = Ok ds ->
  Forall2 (fun s d => build_pkt nc (to_arg (s_b s)) = Ok d) sc ds /\ Forall (fun d => zlen d < 4294967296) ds.
Proof.
  induction sc as [|s r IH]; intros ds H; simpl in H.
  - inversion H; subst. split; constructor.
  - apply bind_ok in H as (d & Hd & H). destruct (zlen d <? 4294967296) eqn:E; [|discriminate].
    apply bind_ok in H as (ds' & Hr & H). inversion H; subst. destruct (IH _ Hr) as [A B].
    apply Z.ltb_lt in E. split; constructor; auto.
Qed.

Lemma score_raw_link nc : forall sc ds, score_encs nc sc = Ok ds ->
  concat (map prefixed ds) = score_raw (osc_enc nc) sc.
Proof.
  induction sc as [|s r IH]; intros ds H; simpl in H.
  - inversion H; reflexivity.
  - apply bind_ok in H as (d & Hd & H). destruct (zlen d <? 4294967296); [|discriminate].
    apply bind_ok in H as (ds' & Hr & H). inversion H; subst.
    unfold score_raw. cbn [map concat flat_map]. fold (score_raw (osc_enc nc) r). rewrite <- (IH _ Hr).
    unfold osc_enc. unfold enc_entry in Hd. rewrite Hd. unfold prefixed at 1. reflexivity.
Qed.

(* ---- every stamped bundle is inside the guards of C06's round trip ---------------------------- *)
Section SelemInd.
  Context (P : selem -> Prop).
  Hypothesis Hm : forall m, P (SMsg m).
  Hypothesis Hb : forall i t g es, Forall P es -> P (SBundle i t g es).
  Fixpoint selem_ind' (s : selem) : P s :=
    match s with
    | SMsg m => Hm m
    | SBundle i t g es =>
        Hb i t g es ((fix go (es : list selem) : Forall P es :=
                        match es with [] => Forall_nil _ | x :: r => Forall_cons _ (selem_ind' x) (go r) end) es)
    end.
End SelemInd.

Lemma to_arg_guards nc : forall s, floats4 (to_arg s) = true /\ pkt_guard nc (to_arg s) = true.
Proof.
  induction s as [m|i t g es IH] using selem_ind'.
  - unfold to_arg, msg_arg. destruct (m =? gnew_msg); [|destruct (m =? cset_msg)]; destruct nc; split; reflexivity.
  - cbn [to_arg]. rewrite floats4_list, pkt_guard_bundle. cbn [forallb floats4]. split.
    + induction IH as [|x r [Hx _] _ IHr]; simpl; auto. rewrite Hx. exact IHr.
    + induction IH as [|x r [_ Hx] _ IHr]; simpl; auto. rewrite Hx. exact IHr.
Qed.

Lemma entry_decodes nc i t g es d :
  build_pkt nc (to_arg (SBundle i t g es)) = Ok d ->
  exists cs, parse_bundle_top d = Ok (PBundle g cs) /\ expect nc (to_arg (SBundle i t g es)) (PBundle g cs).
Proof.
  intros H. destruct (to_arg_guards nc (SBundle i t g es)) as [Hf Hg]. cbn [to_arg] in *.
  rewrite floats4_list in Hf. cbn [forallb floats4] in Hf.
  (* C06's bundle round trip, from its main induction rt_all (same steps as props/C06.v bundle_roundtrip; props/C06.v is
     not imported so that this file does not depend on everything C06 proves) *)
  assert (Hf' : floats4 (AList (ATime (Some t) g :: map to_arg es)) = true) by (rewrite floats4_list; exact Hf).
  destruct (rt_all nc _ Hf' Hg d H (S (length d)) (Nat.lt_succ_diag_r _)) as (pk & Hp & Hex).
  inversion Hex as [| lat' tag' elems' cs Hcs]; subst.
  exists cs. split; [|constructor; exact Hcs].
  unfold parse_any in Hp. unfold parse_bundle_top.
  rewrite build_pkt_bundle in H. apply bind_ok in H as (ds & _ & H). apply bind_ok in H as (d0 & He & H).
  pose proof (check_bundle_ok _ _ H) as ->.
  unfold enc_bundle in He. apply bind_ok in He as (tt & _ & He). apply bind_ok in He as (bb & _ & He). inv_ok He.
  change (is_bundle (bundle_prefix ++ tt ++ bb)) with true in Hp. exact Hp.
Qed.

(* ---- shape of the entries of a finished score -------------------------------------------------- *)
Open Scope Q_scope.
Definition entry_shape (s : sentry) : Prop :=
  exists t ss, s_b s = SBundle false t (Qtrunc (s_time s * two32)) ss /\ t == s_time s.

Lemma Qtrunc_mul_comp x y : x == y -> Qtrunc (x * two32) = Qtrunc (y * two32).
Proof. intros H. apply Qtrunc_comp. rewrite H. reflexivity. Qed.

Lemma stamp_shape_nrt inside T lat es sb : stamp_bundle (MNrt inside) T lat es = Some sb ->
  exists ss, sb = SBundle false (stamp_time (MNrt inside) T lat) (Qtrunc (stamp_time (MNrt inside) T lat * two32)) ss.
Proof.
  intros H. apply stamp_bundle_shape in H. destruct H as (ss & -> & _ & _). exists ss. reflexivity.
Qed.

Lemma loop_entry_shape qk p fuel s :
  In s (n_score (nrt_loop qk p fuel (nrt_main qk p))) -> entry_shape s.
Proof.
  intros H. pose proof (sinv_reach qk p fuel) as I.
  destruct (si_only _ _ I s H) as [(_ & Ht & Hb)|(o & T & lat & es & Hev & Ht)].
  - exists 0, [SMsg gnew_msg]. split; [|symmetry; exact Ht].
    rewrite Hb. f_equal. rewrite (Qtrunc_mul_comp _ _ Ht). reflexivity.
  - assert (E : stamp_bundle (send_mode None o) T lat es = Some (s_b s)).
    { destruct o as [[rid k]|].
      - destruct (si_inside _ _ I _ _ _ _ _ _ Hev) as [E _]. auto.
      - destruct (si_outside _ _ I _ _ _ _ Hev) as [E _]. auto. }
    simpl send_mode in *. destruct (stamp_shape_nrt _ _ _ _ _ E) as (ss & Hs).
    exists (stamp_time (MNrt (inside o)) T lat), ss. split; [|symmetry; exact Ht].
    rewrite Hs. f_equal. apply Qtrunc_mul_comp. symmetry. exact Ht.
Qed.

Lemma run_entry_cases qk p fuel s : In s (n_score (nrt_run qk p fuel)) ->
  In s (n_score (nrt_loop qk p fuel (nrt_main qk p))) \/
  (exists t, s_b s = SBundle false t (Qtrunc (s_time s * two32)) [SMsg cset_msg] /\ t == s_time s /\
             s_cnt s = n_scnt (nrt_loop qk p fuel (nrt_main qk p))).
Proof.
  unfold nrt_run, nrt_finish, score_add. cbn [n_score]. intros H. apply kinsert_in in H.
  destruct H as [->|H]; auto. right. cbn [s_b s_time s_cnt].
  eexists. split; [|split; [|reflexivity]].
  - f_equal. unfold stamp_tag. apply Qtrunc_mul_comp. symmetry. apply Qred_correct.
  - symmetry. apply Qred_correct.
Qed.

Lemma run_entry_shape qk p fuel s : In s (n_score (nrt_run qk p fuel)) -> entry_shape s.
Proof.
  intros H. destruct (run_entry_cases _ _ _ _ H) as [G|(t & A & B & _)].
  - eapply loop_entry_shape; eauto.
  - exists t, [SMsg cset_msg]. auto.
Qed.

(* ---- the binary form ---------------------------------------------------------------------------- *)
Lemma raw_full nc qk p fuel raw :
  let sc := n_score (nrt_run qk p fuel) in
  score_raw_osc nc sc = Ok raw ->
  exists ds,
    score_encs nc sc = Ok ds /\
    raw = concat (map prefixed ds) /\
    raw = score_raw (osc_enc nc) sc /\
    split_raw_top raw = Some ds /\
    Forall2 (fun s d => build_pkt nc (to_arg (s_b s)) = Ok d /\
               exists cs, parse_bundle_top d = Ok (PBundle (top_tag (s_b s)) cs) /\
                          expect nc (to_arg (s_b s)) (PBundle (top_tag (s_b s)) cs) /\
                          top_tag (s_b s) = Qtrunc (s_time s * two32)) sc ds.
Proof.
  intros sc H. unfold score_raw_osc in H. apply bind_ok in H as (ds & He & H). inversion H; subst raw.
  exists ds. destruct (score_encs_ok nc _ _ He) as [F2 Fb].
  split; [exact He|]. split; [reflexivity|]. split; [apply score_raw_link; exact He|].
  split; [apply split_top; exact Fb|].
  assert (Hsh : forall s, In s sc -> entry_shape s) by (intros s Hs; eapply run_entry_shape; eauto).
  clear -F2 Hsh. induction F2 as [|s d r ds Hd _ IH]; constructor.
  - split; auto. destruct (Hsh s (or_introl eq_refl)) as (t & ss & Hs & _).
    rewrite Hs in *. destruct (entry_decodes nc _ _ _ _ _ Hd) as (cs & A & B). exists cs. auto.
  - apply IH. intros x Hx. apply Hsh. right; exact Hx.
Qed.

(* ---- order and times on the timetags ------------------------------------------------------------ *)
Lemma strongly_sorted_weaken {A} (R R' : A -> A -> Prop) l :
  StronglySorted R l -> (forall a b, In a l -> In b l -> R a b -> R' a b) -> StronglySorted R' l.
Proof.
  induction 1 as [|a l Hs IH Ha]; intros H; constructor.
  - apply IH. intros x y Hx Hy. apply H; simpl; auto.
  - rewrite Forall_forall in *. intros b Hb. apply H; simpl; auto.
Qed.

Lemma tags_sorted qk p fuel :
  StronglySorted (fun a b => (top_tag (s_b a) <= top_tag (s_b b))%Z /\
                             (s_time a == s_time b -> (s_cnt a < s_cnt b)%nat))
                 (n_score (nrt_run qk p fuel)).
Proof.
  destruct (nrt_score_sorted qk p fuel) as [Hs _].
  eapply strongly_sorted_weaken; [exact Hs|].
  intros a b Ha Hb Hab.
  destruct (run_entry_shape _ _ _ _ Ha) as (ta & sa & Ea & _).
  destruct (run_entry_shape _ _ _ _ Hb) as (tb & sb & Eb & _).
  rewrite Ea, Eb. cbn [top_tag]. split.
  - apply Qtrunc_mono. pose proof two32_pos. destruct Hab as [G|[G _]]; nra.
  - intros E. destruct Hab as [G|[_ G]]; [lra|exact G].
Qed.

Lemma tags_exact qk p fuel :
  let st := nrt_loop qk p fuel (nrt_main qk p) in
  (forall o T lat es sb, In (EvSend o T lat es (Some sb)) (n_log st) ->
     exists s, In s (n_score (nrt_run qk p fuel)) /\ s_b s = sb /\
               top_tag sb = Qtrunc ((lat_val lat + match o with Some _ => T | None => 0 end) * two32)) /\
  (forall s, In s (n_score (nrt_run qk p fuel)) ->
     (top_tag (s_b s) = 0%Z /\ s_cnt s = 0%nat /\ s_b s = SBundle false 0 0 [SMsg gnew_msg]) \/
     (exists t, s_b s = SBundle false t (Qtrunc (s_time s * two32)) [SMsg cset_msg] /\ s_cnt s = n_scnt st) \/
     exists o T lat es, In (EvSend o T lat es (Some (s_b s))) (n_log st) /\
        top_tag (s_b s) = Qtrunc ((lat_val lat + match o with Some _ => T | None => 0 end) * two32)).
Proof.
  intros st. pose proof (sinv_reach qk p fuel) as I. fold st in I. split.
  - intros o T lat es sb H. destruct (si_listed _ _ I eq_refl _ _ _ _ _ H) as (s & A & B & C).
    exists s. split; [|split; auto].
    + unfold nrt_run, nrt_finish, score_add. cbn [n_score]. apply kinsert_in. right. exact A.
    + destruct (loop_entry_shape qk p fuel s A) as (t & ss & Hs & _). rewrite <- B, Hs. cbn [top_tag].
      apply Qtrunc_mul_comp. rewrite C. destruct o; simpl send_mode; unfold stamp_time; rewrite Qred_correct; simpl; ring.
  - intros s H. destruct (run_entry_cases _ _ _ _ H) as [G|(t & A & _ & B)].
    + destruct (si_only _ _ I s G) as [(Hc & Ht & Hb)|(o & T & lat & es & Hev & Ht)].
      * left. rewrite Hb. auto.
      * right. right. exists o, T, lat, es. split; auto.
        destruct (loop_entry_shape qk p fuel s G) as (t & ss & Hs & _). rewrite Hs. cbn [top_tag].
        apply Qtrunc_mul_comp. rewrite Ht. destruct o; simpl send_mode; unfold stamp_time; rewrite Qred_correct; simpl; ring.
    + right. left. exists t. auto.
Qed.

