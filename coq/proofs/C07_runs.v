(* C07 (and the simple part of C05): invariants over executions -- what is in the log and in the score. *)
From Coq Require Import ZArith QArith Qround List Bool Lia Lqa Sorting.Sorted.
Require Import SC3.model.KProg SC3.model.KNrt SC3.model.KRt SC3.proofs.C05_frame SC3.proofs.C07_stamp.
Import ListNotations.
Open Scope Q_scope.

(* ---- sortedness of (time, count) insertion ------------------------------- *)
Section Sorted.
  Context {A : Type} (kt : A -> Q) (kc : A -> nat).
  Definition lex_lt (a b : A) : Prop := kt a < kt b \/ (kt a == kt b /\ (kc a < kc b)%nat).
  Definition ksorted (l : list A) : Prop := StronglySorted lex_lt l.

  Lemma key_leb_true a b : key_leb (kt a) (kc a) (kt b) (kc b) = true -> (kc a < kc b)%nat -> lex_lt a b.
  Proof.
    unfold key_leb, lex_lt. rewrite orb_true_iff, andb_true_iff, Qltb_lt. intros [H|[H1 H2]] Hc; auto.
    right. split; auto. apply Qeq_bool_iff; auto.
  Qed.
  Lemma key_leb_false a b : key_leb (kt a) (kc a) (kt b) (kc b) = false -> (kc a < kc b)%nat -> kt b < kt a.
  Proof.
    unfold key_leb. rewrite orb_false_iff, andb_false_iff, Qltb_ge. intros [H1 [H2|H2]] Hc.
    - assert (~ kt a == kt b) by (intros E; apply Qeq_bool_iff in E; congruence). lra.
    - apply Nat.leb_gt in H2. lia.
  Qed.
  Lemma kinsert_sorted x l : ksorted l -> (forall y, In y l -> (kc y < kc x)%nat) -> ksorted (kinsert kt kc x l).
  Proof.
    unfold ksorted. induction 1 as [|y l Hs IH Hy]; intros Hc; simpl.
    - constructor; constructor.
    - destruct (key_leb (kt y) (kc y) (kt x) (kc x)) eqn:E.
      + constructor; [apply IH; intros; apply Hc; simpl; auto|].
        apply Forall_forall. intros z Hz. apply kinsert_in in Hz. destruct Hz as [->|Hz].
        * apply key_leb_true; auto. apply Hc; simpl; auto.
        * rewrite Forall_forall in Hy; auto.
      + pose proof (key_leb_false _ _ E (Hc y (or_introl eq_refl))) as Hlt.
        constructor; [constructor; auto|].
        constructor; [left; exact Hlt|].
        apply Forall_forall. intros z Hz. rewrite Forall_forall in Hy. specialize (Hy z Hz).
        destruct Hy as [Hy|[Hy _]]; left; lra.
  Qed.
  Lemma ksorted_head_min x l : ksorted (x :: l) -> forall y, In y l -> kt x <= kt y.
  Proof.
    intros H y Hy. inversion H; subst. rewrite Forall_forall in H3. destruct (H3 y Hy) as [G|[G _]]; lra.
  Qed.
End Sorted.

(* ---- score --------------------------------------------------------------- *)
Definition score_ok (st : nstate) : Prop :=
  ksorted s_time s_cnt (n_score st) /\ (forall s, In s (n_score st) -> (s_cnt s < n_scnt st)%nat).

Lemma score_add_ok st t b : score_ok st -> score_ok (score_add st t b).
Proof.
  intros [Hs Hc]. split; simpl.
  - apply kinsert_sorted; auto.
  - intros s Hs'. apply kinsert_in in Hs'. destruct Hs' as [->|Hs']; simpl; [lia|]. specialize (Hc s Hs'). lia.
Qed.

(* what a segment does to the score in NRT (and nothing in RT) *)
Definition sc_frame (rt : option Z) (org : origin) (T : Q) (st st' : nstate) : Prop :=
  (score_ok st -> score_ok st') /\
  (forall s, In s (n_score st) -> In s (n_score st')) /\
  (forall s, In s (n_score st') -> In s (n_score st) \/
     exists lat es, In (EvSend org T lat es (Some (s_b s))) (n_log st') /\
                    s_time s == stamp_time (send_mode rt org) T lat) /\
  (rt = None -> forall o s0 lat es sb, In (EvSend o s0 lat es (Some sb)) (n_log st') ->
     In (EvSend o s0 lat es (Some sb)) (n_log st) \/
     exists s, In s (n_score st') /\ s_b s = sb /\ s_time s == stamp_time (send_mode rt o) s0 lat) /\
  n_mtime st' = n_mtime st /\
  (forall ev, In ev (n_log st) -> In ev (n_log st')).

Ltac split6 := split; [|split; [|split; [|split; [|split]]]].
Lemma sc_frame_refl rt org T st : sc_frame rt org T st st.
Proof. unfold sc_frame; split6; auto. Qed.
Lemma sc_frame_trans rt org T a b c : sc_frame rt org T a b -> sc_frame rt org T b c -> sc_frame rt org T a c.
Proof.
  intros (A1 & A2 & A3 & A4 & A5 & A6) (B1 & B2 & B3 & B4 & B5 & B6). unfold sc_frame. split6; auto.
  - intros s Hs. destruct (B3 s Hs) as [H|H]; auto. destruct (A3 s H) as [G|(lat & es & G1 & G2)]; auto.
    right. exists lat, es. split; auto.
  - intros E o s0 lat es sb H. destruct (B4 E _ _ _ _ _ H) as [G|G]; auto.
    destruct (A4 E _ _ _ _ _ G) as [K|(s & K1 & K2 & K3)]; auto. right. exists s. auto.
  - congruence.
Qed.

Lemma sc_frame_logonly rt org T st st' ev :
  n_log st' = ev :: n_log st -> n_score st' = n_score st -> n_scnt st' = n_scnt st -> n_mtime st' = n_mtime st ->
  (forall o s0 lat es sb, ev <> EvSend o s0 lat es (Some sb)) \/ rt <> None ->
  sc_frame rt org T st st'.
Proof.
  intros Hl Hs Hc Hm Hev. unfold sc_frame, score_ok. rewrite Hl, Hs, Hc. split6; auto.
  - intros E o s0 lat es sb [H|H]; auto. destruct Hev as [Hev|Hev]; [|congruence]. exfalso. eapply Hev; eauto.
  - intros; simpl; auto.
Qed.

Lemma send_sc_frame rt org T st lat es : sc_frame rt org T st (fst (nrt_send rt st org T lat es)).
Proof.
  unfold nrt_send. destruct (stamp_bundle (send_mode rt org) T lat es) as [sb|] eqn:E.
  - destruct rt as [off|]; simpl.
    + eapply sc_frame_logonly; try reflexivity. right; discriminate.
    + unfold sc_frame. simpl. split6.
      * apply score_add_ok.
      * intros s Hs. apply kinsert_in. auto.
      * intros s Hs. apply kinsert_in in Hs. destruct Hs as [->|Hs]; auto. right.
        exists lat, es. simpl. split; auto. apply Qred_correct.
      * intros _ o s0 l0 e0 b0 [H|H]; auto. inversion H; subst. right.
        eexists. split; [apply kinsert_in; left; reflexivity|]. simpl. split; auto. apply Qred_correct.
      * auto.
      * intros; simpl; auto.
  - simpl. eapply sc_frame_logonly; try reflexivity. left. intros; discriminate.
Qed.
Lemma sendmsg_sc_frame rt org T st m : sc_frame rt org T st (fst (nrt_sendmsg rt st org T m)).
Proof.
  unfold nrt_sendmsg. destruct rt.
  - simpl. eapply sc_frame_logonly; try reflexivity. left; intros; discriminate.
  - apply send_sc_frame.
Qed.
Lemma play_sc_frame rt qk p org T st r c : sc_frame rt org T st (fst (nrt_play rt qk p st org T r c)).
Proof.
  unfold nrt_play. destruct (nth_error (p_bodies p) r); [|apply sc_frame_refl].
  destruct (clock_ok (n_tcs st) c && clock_ok_mode rt c); [|apply sc_frame_refl].
  simpl. unfold nrt_sched_play.
  eapply sc_frame_logonly with (ev := EvPlay org (length (n_routs st)) c T); try (destruct rt; reflexivity).
  left; intros; discriminate.
Qed.
Lemma tempo_sc_frame rt qk org T st i v : sc_frame rt org T st (fst (nrt_set_tempo rt qk st org T i v)).
Proof.
  unfold nrt_set_tempo. destruct (nth_error (n_tcs st) i).
  - destruct (tc_set_tempo t T v).
    + simpl. eapply sc_frame_logonly with (ev := EvTempo org i v true); [| | | |left; intros; discriminate]; simpl;
        (destruct rt; [reflexivity|]; destruct (qk_tempo_frozen qk); [reflexivity|]);
        match goal with |- context [retime ?s ?j] => destruct (retime_proj s j) as (H1 & H2 & H3 & H4 & H5 & H6) end;
        simpl in *; congruence.
    + simpl. eapply sc_frame_logonly; try reflexivity. left; intros; discriminate.
  - simpl. eapply sc_frame_logonly; try reflexivity. left; intros; discriminate.
Qed.
Lemma run_acts_sc_frame rt qk p org T acts st cclk st' oc :
  run_acts rt qk p st org T cclk acts = (st', oc) -> sc_frame rt org T st st'.
Proof.
  apply run_acts_ind.
  - apply sc_frame_refl.
  - apply sc_frame_trans.
  - intros; apply send_sc_frame.
  - intros; apply sendmsg_sc_frame.
  - intros; apply play_sc_frame.
  - intros; apply tempo_sc_frame.
Qed.

(* ---- the invariant -------------------------------------------------------- *)
Definition last_resume_secs (log : list event) : option Q :=
  match filter (fun ev => match ev with EvResume _ _ _ _ _ => true | _ => false end) log with
  | EvResume _ _ _ s _ :: _ => Some s
  | _ => None
  end.

Record sinv (rt : option Z) (st : nstate) : Prop := mkSinv {
  (* every send from a routine is stamped from the logical time of that resumption *)
  si_inside : forall rid k T lat es res, In (EvSend (Some (rid, k)) T lat es res) (n_log st) ->
      res = stamp_bundle (send_mode rt (Some (rid, k))) T lat es /\ exists c b, In (EvResume rid k c T b) (n_log st);
  si_outside : forall T lat es res, In (EvSend None T lat es res) (n_log st) ->
      res = stamp_bundle (send_mode rt None) T lat es /\ (rt = None -> T = 0);
  si_score : rt = None -> score_ok st;
  (* the score lists every bundle that was sent, at its exact time ... *)
  si_listed : rt = None -> forall o T lat es sb, In (EvSend o T lat es (Some sb)) (n_log st) ->
      exists s, In s (n_score st) /\ s_b s = sb /\ s_time s == stamp_time (send_mode rt o) T lat;
  (* ... and nothing else but the root node *)
  si_only : forall s, In s (n_score st) ->
      (s_cnt s = 0%nat /\ s_time s == 0 /\ s_b s = SBundle false 0 0 [SMsg gnew_msg]) \/
      exists o T lat es, In (EvSend o T lat es (Some (s_b s))) (n_log st) /\
                         s_time s == stamp_time (send_mode rt o) T lat;
  si_mtime : rt = None -> match last_resume_secs (n_log st) with Some s => n_mtime st = s | None => n_mtime st = 0 end
}.

(* a segment run by thread org at logical time T keeps the invariant, provided org's resumption
   is in the log (or org is the code outside routines at time zero / any time in RT) *)
Lemma sinv_segment rt qk p org T acts st cclk st' oc :
  sinv rt st ->
  (match org with
   | Some (rid, k) => exists c b, In (EvResume rid k c T b) (n_log st)
   | None => rt = None -> T = 0
   end) ->
  run_acts rt qk p st org T cclk acts = (st', oc) ->
  sinv rt st' /\ n_mtime st' = n_mtime st /\ last_resume_secs (n_log st') = last_resume_secs (n_log st).
Proof.
  intros I Horg H.
  pose proof (run_acts_log_ext _ _ _ _ _ _ _ _ _ _ H) as (new & Hlog & Hnew).
  pose proof (run_acts_sc_frame _ _ _ _ _ _ _ _ _ _ H) as (F1 & F2 & F3 & F4 & F5 & F6).
  assert (Hlast : last_resume_secs (n_log st') = last_resume_secs (n_log st)).
  { unfold last_resume_secs. rewrite Hlog, filter_app.
    replace (filter _ new) with (@nil event); [reflexivity|].
    clear -Hnew. induction Hnew as [|ev l Hev Hl IH]; simpl; auto. destruct ev; simpl in *; tauto. }
  assert (Hin : forall ev, In ev (n_log st') -> In ev new \/ In ev (n_log st)).
  { intros ev. rewrite Hlog. apply in_app_or. }
  rewrite Forall_forall in Hnew.
  split; [|split; auto]. constructor.
  - intros rid k T0 lat es res Hev. destruct (Hin _ Hev) as [Hn|Ho].
    + specialize (Hnew _ Hn). simpl in Hnew. destruct Hnew as (Eo & ET & Er). subst org T0.
      split; auto. destruct Horg as (c & b & Hr). exists c, b. apply F6. exact Hr.
    + destruct (si_inside _ _ I _ _ _ _ _ _ Ho) as (A & c & b & B). split; auto. exists c, b. apply F6; exact B.
  - intros T0 lat es res Hev. destruct (Hin _ Hev) as [Hn|Ho].
    + specialize (Hnew _ Hn). simpl in Hnew. destruct Hnew as (Eo & ET & Er). subst org T0. split; auto.
    + apply (si_outside _ _ I _ _ _ _ Ho).
  - intros E. apply F1. apply (si_score _ _ I E).
  - intros E o T0 lat es sb Hev. destruct (F4 E _ _ _ _ _ Hev) as [Ho|Hn]; auto.
    destruct (si_listed _ _ I E _ _ _ _ _ Ho) as (s & A & B & C). exists s. auto.
  - intros s Hs. destruct (F3 s Hs) as [Ho|(lat & es & A & B)].
    + destruct (si_only _ _ I s Ho) as [G|(o & T0 & lat & es & A & B)]; auto.
      right. exists o, T0, lat, es. split; auto.
    + right. exists org, T, lat, es. auto.
  - intros E. rewrite Hlast, F5. apply (si_mtime _ _ I E).
Qed.

Lemma sinv_add_nonsend rt st st' ev :
  n_log st' = ev :: n_log st -> n_score st' = n_score st -> n_scnt st' = n_scnt st ->
  (match ev with
   | EvSend _ _ _ _ _ => False
   | EvResume _ _ _ s _ => n_mtime st' = s
   | _ => n_mtime st' = n_mtime st
   end) ->
  sinv rt st -> sinv rt st'.
Proof.
  intros Hl Hs Hc Hev I. constructor.
  - intros rid k T lat es res. rewrite Hl. intros [H|H]; [subst ev; tauto|].
    destruct (si_inside _ _ I _ _ _ _ _ _ H) as (A & c & b & B). split; auto. exists c, b. simpl; auto.
  - intros T lat es res. rewrite Hl. intros [H|H]; [subst ev; tauto|]. apply (si_outside _ _ I _ _ _ _ H).
  - intros E. destruct (si_score _ _ I E) as [A B]. unfold score_ok. rewrite Hs, Hc. auto.
  - intros E o T lat es sb. rewrite Hl, Hs. intros [H|H]; [subst ev; tauto|]. apply (si_listed _ _ I E _ _ _ _ _ H).
  - intros s. rewrite Hs, Hl. intros H. destruct (si_only _ _ I s H) as [G|(o & T & lat & es & A & B)]; auto.
    right. exists o, T, lat, es. simpl; auto.
  - intros E. rewrite Hl. unfold last_resume_secs. pose proof (si_mtime _ _ I E) as Hm. unfold last_resume_secs in Hm.
    destruct ev; simpl; auto; try (rewrite Hev; exact Hm); try tauto.
Qed.

Lemma sinv_same rt st st' :
  n_log st' = n_log st -> n_score st' = n_score st -> n_scnt st' = n_scnt st ->
  (rt = None -> n_mtime st' = n_mtime st) ->
  sinv rt st -> sinv rt st'.
Proof.
  intros Hl Hs Hc Hm I. destruct I as [A B C D E F]. constructor; unfold score_ok in *; rewrite ?Hl, ?Hs, ?Hc; auto.
  intros G. rewrite (Hm G). exact (F G).
Qed.

(* ---- NRT executions ------------------------------------------------------- *)
Lemma sinv_init p : sinv None (nrt_init p).
Proof.
  constructor; simpl; try (intros; tauto).
  - intros _. split; simpl.
    + repeat constructor.
    + intros s [<-|[]]. simpl. lia.
  - intros s [<-|[]]. left. simpl. repeat split; reflexivity.
Qed.

Lemma sinv_main qk p : sinv None (nrt_main qk p) /\ n_mtime (nrt_main qk p) = 0.
Proof.
  unfold nrt_main. destruct (run_acts None qk p (nrt_init p) None 0 CSystem (p_main p)) as [st' oc] eqn:E.
  destruct (sinv_segment None qk p None 0 _ _ _ _ _ (sinv_init p) (fun _ => eq_refl) E) as (A & B & _).
  simpl. split; auto.
Qed.

Lemma sinv_wake qk p st e : sinv None st -> sinv None (nrt_wake qk p (set_q st (tl (n_q st))) e).
Proof.
  intros I. unfold nrt_wake.
  set (st0 := set_q st (tl (n_q st))).
  destruct (nth_error (n_routs (set_mtime st0 (e_time e))) (e_rid e)) as [r|] eqn:Er.
  2:{ apply (sinv_same None st); auto. }
  set (T := e_time e). set (c := e_clock e). set (rid := e_rid e).
  set (beats := Qred (s2b (n_tcs (set_mtime st0 T)) c T)).
  set (st1 := add_log (set_mtime st0 T) (EvResume rid (r_k r) c T beats)).
  assert (I1 : sinv None st1).
  { apply (sinv_add_nonsend None st st1 (EvResume rid (r_k r) c T beats)); auto; try reflexivity. }
  destruct (run_acts None qk p st1 (Some (rid, r_k r)) T c (r_rest r)) as [st2 oc] eqn:E.
  assert (Hr : exists c0 b, In (EvResume rid (r_k r) c0 T b) (n_log st1)) by (exists c, beats; simpl; auto).
  destruct (sinv_segment None qk p (Some (rid, r_k r)) T _ _ _ _ _ I1 Hr E) as (I2 & Hm & _).
  destruct oc.
  - eapply sinv_same; [| | | |exact I2]; try reflexivity; intros; reflexivity.
  - eapply sinv_add_nonsend; [| | | |eapply sinv_same; [| | | |exact I2]]; try reflexivity; intros; reflexivity.
  - eapply sinv_add_nonsend; [| | | |eapply sinv_same; [| | | |exact I2]]; try reflexivity; intros; reflexivity.
Qed.

(* ---- RT executions: every oracle ------------------------------------------- *)
Lemma sinv_rt_wake off p st e : sinv (Some off) st -> sinv (Some off) (rt_wake off p st e).
Proof.
  intros I. unfold rt_wake.
  destruct (nth_error (n_routs st) (e_rid e)) as [r|] eqn:Er; auto.
  set (T := Qred (b2s (n_tcs st) (e_clock e) (e_time e))). set (c := e_clock e). set (rid := e_rid e).
  set (beats := Qred (s2b (n_tcs (set_mtime st T)) c T)).
  set (st1 := add_log (set_mtime st T) (EvResume rid (r_k r) c T beats)).
  assert (I1 : sinv (Some off) st1).
  { apply (sinv_add_nonsend (Some off) st st1 (EvResume rid (r_k r) c T beats)); auto; try reflexivity. }
  destruct (run_acts (Some off) repaired p st1 (Some (rid, r_k r)) T c (r_rest r)) as [st2 oc] eqn:E.
  assert (Hr : exists c0 b, In (EvResume rid (r_k r) c0 T b) (n_log st1)) by (exists c, beats; simpl; auto).
  destruct (sinv_segment (Some off) repaired p (Some (rid, r_k r)) T _ _ _ _ _ I1 Hr E) as (I2 & Hm & _).
  destruct oc.
  - eapply sinv_same; [| | | |exact I2]; try reflexivity; intros HH; discriminate HH.
  - eapply sinv_add_nonsend; [| | | |eapply sinv_same; [| | | |exact I2]]; try reflexivity; intros HH; discriminate HH.
  - eapply sinv_add_nonsend; [| | | |eapply sinv_same; [| | | |exact I2]]; try reflexivity; intros HH; discriminate HH.
Qed.

Opaque run_acts.
Lemma sinv_rt_step off p s ch : sinv (Some off) (rs s) -> sinv (Some off) (rs (rt_step off p s ch)).
Proof.
  intros I. destruct ch as [t|t|rid t]; simpl.
  - destruct (rs_tempos s); simpl; auto. eapply sinv_same; [| | | |exact I]; try reflexivity; intros HH; discriminate HH.
  - destruct (rs_tempos s); [|simpl; auto]. destruct (rs_main s) as [|a rest]; simpl; auto.
    destruct (run_acts (Some off) repaired p (set_mtime (rs s) (advance (rs_now s) t)) None
                (advance (rs_now s) t) CSystem [a]) as [st' oc] eqn:E.
    assert (I0 : sinv (Some off) (set_mtime (rs s) (advance (rs_now s) t))).
    { eapply sinv_same; [| | | |exact I]; try reflexivity; intros HH; discriminate HH. }
    destruct (sinv_segment (Some off) repaired p None _ _ _ _ _ _ I0 (fun H => ltac:(discriminate)) E) as (A & _).
    exact A.
  - destruct (find_rid rid (n_q (rs s))) as [e0|]; simpl; auto.
    destruct (pop_clock (e_clock e0) (n_q (rs s))) as [[e rest]|]; simpl; auto.
    destruct (Nat.eqb (e_rid e) rid); simpl; auto.
    apply sinv_rt_wake. eapply sinv_same; [| | | |exact I]; try reflexivity; intros; reflexivity.
Qed.

Transparent run_acts.
Lemma sinv_rt_init off p : sinv (Some off) (rs (rt_init p)).
Proof. constructor; simpl; try (intros; tauto); try discriminate. Qed.

Lemma sinv_rt_run off p sched : sinv (Some off) (rs (rt_run off p sched)).
Proof.
  unfold rt_run. generalize (sinv_rt_init off p). generalize (rt_init p).
  induction sched as [|ch l IH]; intros s I; simpl; auto. apply IH. apply sinv_rt_step. exact I.
Qed.

(* the step that runs code outside routines stamps with the physical time it has just read *)
Opaque run_acts.
Lemma rt_top_step_log off p s t a rest : rs_tempos s = [] -> rs_main s = a :: rest ->
  log_ext (Some off) None (advance (rs_now s) t) (rs s) (rs (rt_step off p s (ChTop t))).
Proof.
  intros Ht Hm. simpl. rewrite Ht, Hm.
  destruct (run_acts (Some off) repaired p (set_mtime (rs s) (advance (rs_now s) t)) None
              (advance (rs_now s) t) CSystem [a]) as [st' oc] eqn:E.
  simpl. apply run_acts_log_ext in E. exact E.
Qed.

Lemma sinv_loop qk p fuel : forall st, sinv None st -> sinv None (nrt_loop qk p fuel st).
Proof.
  induction fuel as [|f IH]; intros st I; simpl; auto.
  destruct (n_q st) as [|e rest] eqn:Eq; auto.
  apply IH. replace rest with (tl (n_q st)) by (rewrite Eq; reflexivity). apply sinv_wake. exact I.
Qed.

Lemma sinv_reach qk p fuel : sinv None (nrt_loop qk p fuel (nrt_main qk p)).
Proof. apply sinv_loop. apply sinv_main. Qed.

(* ---- finish(): the tail marker -------------------------------------------- *)
Lemma score_last_time_ge sc : forall m, (forall s, In s sc -> s_time s <= fold_left (fun m s => Qmaxq m (s_time s)) sc m)
                                        /\ m <= fold_left (fun m s => Qmaxq m (s_time s)) sc m.
Proof.
  induction sc as [|x r IH]; intros m; simpl.
  - split; [tauto|lra].
  - destruct (IH (Qmaxq m (s_time x))) as [A B]. split.
    + intros s [->|Hs]; auto. pose proof (Qmaxq_ge_r m (s_time s)). lra.
    + pose proof (Qmaxq_ge_l m (s_time x)). lra.
Qed.

Definition marker_of (st : nstate) : sentry :=
  match rev (n_score st) with s :: _ => s | [] => mkS 0 0 (SMsg 0) end.

Lemma finish_marker_last tail st : score_ok st ->
  let st' := nrt_finish repaired tail st in
  exists t g, n_score st' = n_score st ++ [mkS t (n_scnt st) (SBundle false t g [SMsg cset_msg])]
    /\ t == Qmaxq (tail + n_mtime st) (score_last_time (n_score st))
    /\ (forall s, In s (n_score st) -> s_time s <= t)
    /\ g = Qtrunc (t * two32)
    /\ score_ok st'.
Proof.
  intros [Hs Hc] st'. subst st'. unfold nrt_finish. simpl qk_tail_early. cbv iota.
  set (t0 := Qmaxq (tail + n_mtime st) (score_last_time (n_score st))).
  destruct (score_last_time_ge (n_score st) 0) as [Hge H0]. fold (score_last_time (n_score st)) in Hge, H0.
  assert (Ht0 : 0 <= t0) by (pose proof (Qmaxq_ge_r (tail + n_mtime st) (score_last_time (n_score st))); unfold t0; lra).
  assert (Ht : stamp_time (MNrt false) (n_mtime st) (Some t0) == t0).
  { rewrite stamp_time_nrt_outside, lat_val_of_nonneg; auto. reflexivity. }
  assert (Hle : forall s, In s (n_score st) -> s_time s <= t0).
  { intros s Hs'. pose proof (Hge s Hs'). pose proof (Qmaxq_ge_r (tail + n_mtime st) (score_last_time (n_score st))).
    unfold t0. lra. }
  exists (Qred (stamp_time (MNrt false) (n_mtime st) (Some t0))), (stamp_tag (MNrt false) (n_mtime st) (Some t0)).
  assert (Hred : Qred (stamp_time (MNrt false) (n_mtime st) (Some t0)) = stamp_time (MNrt false) (n_mtime st) (Some t0)).
  { unfold stamp_time. apply Qred_complete, Qred_correct. }
  split; [|split; [|split; [|split]]].
  - unfold score_add. simpl. rewrite Hred. apply kinsert_last. intros y Hy. simpl.
    unfold key_leb. specialize (Hle y Hy). specialize (Hc y Hy).
    destruct (Qltb (s_time y) (stamp_time (MNrt false) (n_mtime st) (Some t0))) eqn:E; auto. simpl.
    apply Qltb_ge in E. rewrite andb_true_iff. split.
    + apply Qeq_bool_iff. lra.
    + apply Nat.leb_le. lia.
  - rewrite Qred_correct, Ht. reflexivity.
  - intros s Hs'. rewrite Qred_correct, Ht. auto.
  - rewrite stamp_tag_nrt. apply Qtrunc_comp. rewrite Qred_correct, Ht.
    rewrite lat_val_of_nonneg by auto. ring.
  - apply score_add_ok. split; auto.
Qed.

Transparent run_acts.
