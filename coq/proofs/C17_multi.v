(* C17 -- two servers: the product model projects onto the single-server model, so every theorem
   about runs of one server holds for each server of a two-server history, whatever the other
   server is asked to do in between. *)
From Coq Require Import ZArith QArith List String Bool Lia.
Import ListNotations.
Require Import SC3.model.ProtoGrammar SC3.model.Proto SC3.model.ProtoMulti.
Require Import SC3.proofs.C17_bind SC3.proofs.C17_conform SC3.proofs.C17_run.

Lemma comp_set_same : forall k s x, comp k (set_comp k s x) = x.
Proof. intros [|] [a b] x; reflexivity. Qed.
Lemma comp_set_other : forall k s x, comp (negb k) (set_comp k s x) = comp (negb k) s.
Proof. intros [|] [a b] x; reflexivity. Qed.

(* an op addressed to one server does not touch the other server's objects, allocator blocks or open
   bind blocks, and nothing is sent to the other server's address *)
Lemma step2_other_untouched : forall V s o,
  comp (negb (fst o)) (fst (step2 V s o)) = comp (negb (fst o)) s /\ fst (fst (snd (step2 V s o))) = fst o.
Proof.
  intros V s [k o]. unfold step2. cbn [fst snd].
  destruct (step V (comp k s) o) as [[x evs] e]. cbn [fst snd]. split; [apply comp_set_other | reflexivity].
Qed.

(* what server k sees in a two-server run = the single-server run of the ops addressed to it *)
Lemma run2_projection : forall V k ops s,
  seen_by k (fst (run2 V s ops)) = fst (run V (comp k s) (ops_of k ops)) /\
  comp k (snd (run2 V s ops)) = snd (run V (comp k s) (ops_of k ops)).
Proof.
  intros V k ops. induction ops as [|[j o] t IH]; intros s.
  - split; reflexivity.
  - cbn [run2]. unfold step2. cbn [fst snd].
    destruct (step V (comp j s) o) as [[x evs] e] eqn:E.
    specialize (IH (set_comp j s x)).
    destruct (run2 V (set_comp j s x) t) as [rs s2]. cbn [fst snd] in *.
    unfold ops_of, seen_by in *. cbn [filter fst snd].
    destruct (Bool.eqb j k) eqn:Q.
    + apply eqb_prop in Q. subst j. cbn [map fst snd]. rewrite run_cons, E.
      rewrite comp_set_same in IH. destruct IH as [I1 I2].
      match goal with |- context [run V x ?l] => destruct (run V x l) as [r' s'] end.
      cbn [fst snd] in *. split; [rewrite I1; reflexivity | exact I2].
    + assert (J : j = negb k) by (destruct j, k; try discriminate Q; reflexivity).
      subst j. assert (C : comp k (set_comp (negb k) s x) = comp k s).
      { pose proof (comp_set_other (negb k) s x) as H. rewrite negb_involutive in H. exact H. }
      rewrite C in IH. exact IH.
Qed.

(* hence: in any two-server history whose per-server parts are well-formed, everything either address
   receives conforms to the command reference *)
Lemma two_servers_conform : forall n ops L0 L1 s,
  Inv L0 (fst s) -> Inv L1 (snd s) ->
  wf_ops n (fst s) (ops_of false ops) = true -> wf_ops n (snd s) (ops_of true ops) = true ->
  forall k, Forall (fun x => all_conform (fst x) = true) (seen_by k (fst (run2 repaired s ops))).
Proof.
  intros n ops L0 L1 s I0 I1 W0 W1 k. rewrite (proj1 (run2_projection repaired k ops s)).
  destruct k; cbn [comp].
  - eapply run_conform_all; eauto.
  - eapply run_conform_all; eauto.
Qed.
