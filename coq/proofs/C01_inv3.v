(* C01_inv3.v -- the optimiser pass as a trace of atomic steps, each preserving the invariant
   (Part G), and ugen._optimize_graph() = opt_unit for the fixed code (discard, live-guard, a-is-b guard
   in _optimize_sub): total, invariant preserving, touching only slots up to its own (Part H). *)
From Coq Require Import ZArith QArith List String Bool Arith Lia Setoid Permutation.
Import ListNotations.
Require Import SC3.model.Graph SC3.proofs.C01_inv SC3.proofs.C01_inv2.
Open Scope string_scope.
Open Scope nat_scope.
Open Scope list_scope.

Section Trace.
Variable T : optabs.

(* ================================================================== Part G: atomic steps and traces *)
Definition clean (s : st) (D : list nat) (u : nat) : Prop :=
  forall x X, liv s x -> ~ In x D -> get_unit s x = Some X -> tracked X = true -> ~ In u (dsetf s X).

Inductive astep : st * list nat -> st * list nat -> Prop :=
| AS_mark s D u U : Inv s D -> liv s u -> ~ In u D -> get_unit s u = Some U -> pure U = true -> dsetf s U = [] ->
    astep (s, D) (s, u :: D)
| AS_discard s D u r : Inv s D -> In u D -> r < List.length (sets s) ->
    astep (s, D) (put_set s r (set_discard u (get_set s r)), D)
| AS_remove s D u : Inv s D -> In u D -> clean s D u ->
    astep (s, D) (remove_ugen s u, remove Nat.eq_dec u D)
| AS_rewrite s D self Self s' : Inv s D -> get_unit s self = Some Self -> liv s self -> ~ In self D ->
    ukind Self = KBin -> RwStep s D self Self s' ->
    astep (s, D) (s', D).

Inductive asteps : st * list nat -> st * list nat -> Prop :=
| AS_refl x : asteps x x
| AS_cons x y z : astep x y -> asteps y z -> asteps x z.

Lemma asteps_trans : forall x y z, asteps x y -> asteps y z -> asteps x z.
Proof. intros x y z H. induction H; auto. intro. econstructor; eauto. Qed.
Lemma asteps_one : forall x y, astep x y -> asteps x y.
Proof. intros. econstructor; eauto. constructor. Qed.

Lemma astep_inv : forall x y, astep x y -> Inv (fst y) (snd y).
Proof.
  intros x y H. destruct H; simpl.
  - eapply step_mark; eauto.
  - eapply step_discard; eauto.
  - eapply step_remove; eauto.
  - eapply RwStep_inv; eauto. apply tracked_of_kind; auto. eapply I_ok; eauto.
Qed.
Lemma asteps_inv : forall x y, asteps x y -> Inv (fst x) (snd x) -> Inv (fst y) (snd y).
Proof. intros x y H. induction H; auto. intro. apply IHasteps. eapply astep_inv; eauto. Qed.

(* ---- frame facts that hold along every trace *)
Record Fr (x y : st * list nat) : Prop := mkFr {
  F_len : List.length (units (fst x)) <= List.length (units (fst y));
  F_get : forall u U, get_unit (fst x) u = Some U -> exists U', get_unit (fst y) u = Some U' /\ same_meta U U';
  F_clen : List.length (children (fst y)) = List.length (children (fst x));
  F_slen : List.length (sets (fst y)) = List.length (sets (fst x));
  F_mono : forall r m, In m (get_set (fst y) r) -> In m (get_set (fst x) r) \/ List.length (units (fst x)) <= m;
  F_live : forall u U', liv (fst y) u -> ~ In u (snd y) -> get_unit (fst y) u = Some U' -> tracked U' = true ->
           exists v V, liv (fst x) v /\ ~ In v (snd x) /\ get_unit (fst x) v = Some V /\ tracked V = true /\ dref V = dref U';
  F_newlive : forall u, liv (fst y) u -> liv (fst x) u \/ List.length (units (fst x)) <= u
}.

Lemma Fr_refl : forall x, Fr x x.
Proof.
  intro x. constructor.
  - auto.
  - intros u U H. exists U. split; auto. apply same_meta_refl.
  - auto.
  - auto.
  - auto.
  - intros u U' L N G Tr. exists u, U'. auto.
  - auto.
Qed.
Lemma Fr_trans : forall x y z, Fr x y -> Fr y z -> Fr x z.
Proof.
  intros x y z [] []. constructor.
  - lia.
  - intros u U H. destruct (F_get0 u U H) as (U1 & G1 & M1). destruct (F_get1 u U1 G1) as (U2 & G2 & M2).
    exists U2. split; auto. eapply same_meta_trans; eauto.
  - congruence.
  - congruence.
  - intros r m H. destruct (F_mono1 r m H) as [H1|H1]; [|right; lia].
    destruct (F_mono0 r m H1); auto.
  - intros u U' L N G Tr. destruct (F_live1 u U' L N G Tr) as (v & V & Lv & Nv & Gv & Tv & Dv).
    destruct (F_live0 v V Lv Nv Gv Tv) as (w & W & Lw & Nw & Gw & Tw & Dw). exists w, W. repeat split; auto. congruence.
  - intros u L. destruct (F_newlive1 u L) as [H|H]; [|right; lia]. destruct (F_newlive0 u H); auto.
Qed.

Lemma astep_Fr : forall x y, astep x y -> Fr x y.
Proof.
  intros x y H. destruct H.
  - (* mark *) constructor; simpl.
    + auto.
    + intros x X G. exists X. split; auto. apply same_meta_refl.
    + auto.
    + auto.
    + auto.
    + intros x X' L N G Tr. exists x, X'. repeat split; auto; try (intro; apply N; right; auto).
    + auto.
  - (* discard *) constructor; simpl.
    + auto.
    + intros x X G. exists X. split; auto. apply same_meta_refl.
    + auto.
    + apply sets_put_length.
    + intros r0 m Hm. left. destruct (Nat.eq_dec r0 r) as [->|Hne].
      * rewrite get_set_put_same in Hm; auto. apply In_set_discard in Hm. tauto.
      * rewrite get_set_put_other in Hm; auto.
    + intros x X' L N G Tr. exists x, X'. repeat split; auto.
    + auto.
  - (* remove *)
    destruct (I_dying s D H u H0) as (Lu & (U & GU & _) & _).
    destruct (remove_ugen_eq s D u U H Lu GU) as [Heq _].
    pose proof (liv_after_remove s D u U) as Hl.
    constructor; simpl.
    + rewrite Heq; simpl; auto.
    + intros x X G. exists X. rewrite Heq. split; auto. apply same_meta_refl.
    + rewrite Heq; simpl. apply upd_length.
    + rewrite Heq; simpl; auto.
    + intros r m Hm. left. rewrite Heq in Hm. exact Hm.
    + intros x X' L N G Tr. apply Hl in L; auto. destruct L as [L Nu]. exists x, X'.
      split; auto. split; [intro Hin; apply N; apply in_remove_iff; auto|]. rewrite Heq in G. auto.
    + intros x L. apply Hl in L; auto. tauto.
  - (* rewrite *)
    destruct H4 as [a UA R HA La Na TA Hra Hone HuR TR OkR In1 In2 In3 RV RC].
    assert (TS : tracked Self = true) by (apply tracked_of_kind; [eapply I_ok; eauto|auto]).
    assert (Hold : forall x X, get_unit s x = Some X -> exists X', get_unit s' x = Some X' /\ same_meta X X').
    { intros x X G. destruct (rw_get_old s D self a Self UA R s' H RV x X G) as (X' & A & B & _). eauto. }
    assert (Hliv : forall x, liv s' x <-> x = List.length (units s) \/ (liv s x /\ x <> a /\ x <> self)).
    { intro x. eapply (rw_liv' s D self a Self UA R s'); eauto. }
    constructor; simpl.
    + rewrite (V_len _ _ _ _ _ _ _ _ RV). lia.
    + intros x X G. destruct (Hold x X G) as (X' & G' & SM). eauto.
    + rewrite (V_children _ _ _ _ _ _ _ _ RV), !upd_length. auto.
    + exact (V_setlen _ _ _ _ _ _ _ _ RV).
    + intros r m Hm. apply (V_sets _ _ _ _ _ _ _ _ RV) in Hm. destruct (touchedb s (ins R) r); [|auto].
      destruct Hm as [[->|Hm] _]; auto.
    + intros x X' L N G Tr. apply Hliv in L. destruct L as [->|(L & N1 & N2)].
      * exists self, Self. repeat split; auto. rewrite (V_new _ _ _ _ _ _ _ _ RV) in G. injection G as <-. reflexivity.
      * destruct (liv_get s D x H L) as (X & r & GX & _). destruct (Hold x X GX) as (X2 & G2 & SM).
        rewrite G in G2. injection G2 as <-. destruct SM as (_ & A & _ & _ & B & _).
        exists x, X. repeat split; auto; congruence.
    + intros x L. apply Hliv in L. destruct L as [->|(L & _)]; auto.
Qed.
Lemma asteps_Fr : forall x y, asteps x y -> Fr x y.
Proof. intros x y H. induction H; [apply Fr_refl|]. eapply Fr_trans; eauto. apply astep_Fr; auto. Qed.

(* slots above k are not touched *)
Definition above (k : nat) (s s' : st) : Prop :=
  forall i, k < i -> nth_error (children s') i = nth_error (children s) i.
Lemma above_refl : forall k s, above k s s.
Proof. intros k s i H. auto. Qed.
Lemma above_trans : forall k s1 s2 s3, above k s1 s2 -> above k s2 s3 -> above k s1 s3.
Proof. intros k s1 s2 s3 A B i H. rewrite (B i H). apply A; auto. Qed.
Lemma above_le : forall k k' s s', k <= k' -> above k s s' -> above k' s s'.
Proof. intros k k' s s' H A i Hi. apply A. lia. Qed.
End Trace.

