(* C01_topo2.v -- SynthDef._topological_sort on the state left by _optimize_graph. *)
From Coq Require Import ZArith QArith List String Bool Arith Lia Setoid Permutation.
Import ListNotations.
Require Import SC3.model.Graph SC3.gen.Gen_opcodes SC3.proofs.C20_arrange SC3.proofs.C01_inv SC3.proofs.C01_init
               SC3.proofs.C01_built SC3.proofs.C01_opt SC3.proofs.C01_topo.
Open Scope string_scope.
Open Scope nat_scope.
Open Scope list_scope.

Definition SrcOf (s : st) (u : nat) : list nat := match get_unit s u with Some U => srcs s U | None => [] end.

Lemma flat_filter_In : forall (f : nat -> list nat) l x, In x (flat_map f l) <-> exists u, In u l /\ In x (f u).
Proof. intros. apply in_flat_map. Qed.

Lemma flat_single_nodup : forall (P : nat -> bool) l, NoDup l -> NoDup (flat_map (fun u => if P u then [u] else []) l).
Proof.
  intros P l H. induction H as [|x t Hn Hnd IH]; simpl; [constructor|].
  destruct (P x); simpl; auto. constructor; auto. intro Hin. apply in_flat_map in Hin.
  destruct Hin as (u & Hu & Hx). destruct (P u); [destruct Hx as [->|[]]; contradiction | contradiction].
Qed.

Theorem topological_sort_ok : forall s rho, Opt s rho ->
  exists s' out, topological_sort s = Ok s' /\ children s' = map Some out /\ Permutation out (live s) /\
    (forall c g, In c (live s) -> In g (SrcOf s c) -> Before out g c) /\
    rewriting s' = rewriting s /\
    (forall u, get_unit s' u = match get_unit s u with
                               | Some U => Some (match pos u out with
                                                 | Some i => set_sidx (set_dref U (match pos u (live s) with
                                                                                   | Some j => Some (List.length (sets s) + j)
                                                                                   | None => dref U end)) (Z.of_nat i)
                                                 | None => U end)
                               | None => None end).
Proof.
  intros s rho [Orw Ouid [Och Ond] Ounit Oins Owfa].
  set (L := live s) in *.
  assert (Hpre : forall c, In c L -> exists C, get_unit s c = Some C /\ forall g, In g (srcs s C) -> In g L).
  { intros c Hc. destruct (Ounit c Hc) as (C & GC & _). exists C. split; auto. intros g Hg.
    unfold srcs in Hg. apply in_app_iff in Hg. destruct Hg as [Hg|Hg].
    - apply input_sources_In in Hg. destruct Hg as (ch & X & I & _). destruct (Oins c C g ch Hc GC I); auto.
    - destruct (Owfa c C Hc GC) as (w & Hw & Hall). rewrite Hw in Hg. destruct (Hall g Hg); auto. }
  destruct (init_topo_spec s Ouid Ond Hpre) as (s1 & ante & E1 & IS).
  destruct IS as [A1 A2 A3 A4 A5 A6 A7 A8 A9 A10]. fold L in A5, A6, A7, A8, A9, A10.
  set (r0 := List.length (sets s)) in *.
  assert (Hl1 : live s1 = L) by (unfold live, L; rewrite A1; reflexivity).
  set (Dsc := fun u => match pos u L with Some i => get_set s1 (r0 + i) | None => [] end).
  assert (HSrc : forall c g, In c L -> In g (SrcOf s c) -> In g L /\ (rho g < rho c)%Z).
  { intros c g Hc Hg. unfold SrcOf in Hg. destruct (Ounit c Hc) as (C & GC & _). rewrite GC in Hg.
    unfold srcs in Hg. apply in_app_iff in Hg. destruct Hg as [Hg|Hg].
    - apply input_sources_In in Hg. destruct Hg as (ch & X & I & _). destruct (Oins c C g ch Hc GC I) as (P1 & P2 & _); auto.
    - destruct (Owfa c C Hc GC) as (w & Hw & Hall). rewrite Hw in Hg. destruct (Hall g Hg) as (P1 & P2 & _); auto. }
  assert (HDsc : forall u, In u L -> NoDup (Dsc u) /\ forall c, In c (Dsc u) <-> In c L /\ In u (SrcOf s c)).
  { intros u Hu. apply pos_In in Hu. destruct Hu as [i Hi]. unfold Dsc. rewrite Hi. split; [apply (A8 u i Hi)|].
    intro c. rewrite (A7 u i Hi c). unfold SrcOf. split.
    - intros (Hc & C & GC & Hin). rewrite GC. auto.
    - intros (Hc & Hin). destruct (Ounit c Hc) as (C & GC & _). rewrite GC in Hin. split; auto. exists C. auto. }
  assert (HState : forall u, In u L -> exists U, get_unit s1 u = Some U /\ desc_of s1 U = Some (Dsc u)).
  { intros u Hu. destruct (Ounit u Hu) as (U & GU & _). apply pos_In in Hu. destruct Hu as [i Hi].
    exists (set_dref U (Some (r0 + i))). split; [rewrite A5, GU, Hi; auto|]. unfold desc_of, Dsc. simpl. rewrite Hi. auto. }
  set (avail := flat_map (fun u => match assoc_get u ante with Some [] => [u] | _ => [] end) (rev (live s1))).
  assert (TI0 : TInv L (SrcOf s) ante avail []).
  { constructor.
    - split; [constructor|intros u []].
    - unfold avail.
      assert (Hshape : forall l, flat_map (fun u => match assoc_get u ante with Some [] => [u] | _ => [] end) l =
                                 flat_map (fun u => if (match assoc_get u ante with Some [] => true | _ => false end) then [u] else []) l).
      { intro l. apply flat_map_ext. intro u. destruct (assoc_get u ante) as [[|]|]; auto. }
      rewrite Hshape. apply flat_single_nodup. rewrite Hl1. apply NoDup_rev. auto.
    - exact A9.
    - intros u Hu. destruct (A10 u Hu) as (lst & G & Hnd & Hl). exists lst. split; auto. split; auto.
      intro g. rewrite Hl. unfold SrcOf. destruct (Ounit u Hu) as (U & GU & _). rewrite GU. split.
      + intros (U' & GU' & Hin). injection GU' as <-. auto.
      + intros [Hin _]. exists U. auto.
    - intro u. unfold avail. rewrite in_flat_map. rewrite Hl1. split.
      + intros (x & Hx & Hu). apply in_rev in Hx. destruct (assoc_get x ante) as [[|]|] eqn:G; try contradiction.
        destruct Hu as [<-|[]]. auto.
      + intros (Hu & _ & G). exists u. split; [apply in_rev; rewrite rev_involutive; auto|]. rewrite G. left; auto.
    - intros c g []. }
  destruct (topo_loop_ok s1 L (SrcOf s) Dsc rho HSrc HDsc HState (S (S (List.length (live s1)))) ante avail [] TI0)
    as (out & an' & E2 & TI').
  { rewrite Hl1. simpl. lia. }
  assert (Hperm : Permutation out L).
  { pose proof TI' as TI2. destruct TI' as [[Hout HoutL] _ _ _ _ _]. apply NoDup_Permutation; auto.
    intro x. split; auto. intro Hx. exact (topo_complete L (SrcOf s) rho HSrc an' out TI2 x Hx). }
  assert (Hbefore : forall c g, In c L -> In g (SrcOf s c) -> Before out g c).
  { intros c g Hc Hg. pose proof TI' as TI3. destruct TI3 as [_ _ _ _ _ Hb]. apply Hb; auto. eapply Permutation_in; [symmetry; exact Hperm | exact Hc]. }
  unfold topological_sort. rewrite E1. cbn [bind]. fold avail. rewrite E2. cbn [bind].
  set (s2 := with_children s1 (map Some out)).
  assert (Hl2 : live s2 = out) by (apply live_map_some; reflexivity).
  assert (U2 : uid_ok s2).
  { intros u U G. change (get_unit s2 u) with (get_unit s1 u) in G. rewrite A5 in G.
    destruct (get_unit s u) as [U0|] eqn:G0; [|discriminate]. injection G as <-.
    destruct (pos u L); simpl; apply Ouid; auto. }
  assert (N2 : NoDup (live s2)) by (rewrite Hl2; destruct TI' as [[H _] _ _ _ _ _]; auto).
  assert (X2 : forall u, In u (live s2) -> exists U, get_unit s2 u = Some U).
  { intros u Hu. rewrite Hl2 in Hu. assert (In u L) by (eapply Permutation_in; eauto).
    destruct (HState u H) as (U & G & _). exists U. exact G. }
  pose proof (ix_fold_spec (live s2) s2 0%Z U2 N2 X2) as Hix. cbv zeta in Hix. rewrite <- index_ugens_eq in Hix.
  destruct Hix as (B1 & B2 & B3 & B4 & B5 & B6 & B7 & B8).
  exists (index_ugens s2), out. split; [reflexivity|]. split; [rewrite B2; reflexivity|]. split; [exact Hperm|].
  split; [exact Hbefore|]. split; [rewrite B3; simpl; exact A2|].
  intro u. rewrite B8, Hl2. change (get_unit s2 u) with (get_unit s1 u). rewrite A5.
  destruct (get_unit s u) as [U|]; auto. destruct (pos u out) eqn:Po.
  - f_equal. destruct (pos u L); reflexivity.
  - destruct (pos u L) eqn:PL; auto. exfalso. assert (In u L) by (apply pos_In; eauto).
      assert (In u out) by (eapply Permutation_in; [symmetry; exact Hperm | auto]). apply pos_In in H0. destruct H0. congruence.
Qed.
