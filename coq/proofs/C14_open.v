(* C14 -- closing what was only tested: the stream of Pdelta as a list; and the one clause that is false of the
   faithful model (a 'stretch' key in the event given to Ppar). *)
From Coq Require Import String List Morphisms.
Require Import SC3.proofs.NumTac SC3.gen.Gen_builtins SC3.proofs.C12_num SC3.model.TaskQ SC3.model.Event.
Require Import SC3.proofs.C14_play SC3.proofs.C14_stream.
Import ListNotations.
Open Scope Q_scope.

(* ---- Pdelta(t, p): one rest of length t * stretch, then p's own events (repaired code) --------------------------------- *)
Lemma stream_run_delta_passes : forall c K lib fuel dep t s inev mc,
  stream_run c K lib fuel (S dep) (SDelta false t s) inev mc = stream_run c K lib fuel dep s inev mc.
Proof.
  intros c K lib fuel. induction fuel as [|f IH]; intros dep t s inev mc; [reflexivity|].
  cbn [stream_run]. cbn [snext].
  destruct (snext c K lib dep s inev mc) as [[e s' o|o r|] mc']; try reflexivity. rewrite IH. reflexivity.
Qed.

Lemma pdelta_stream_l : forall c K lib, fix_pdelta_input c = true ->
  forall fuel dep t s inev mc,
  stream_run c K lib (S fuel) (S dep) (SDelta true t s) inev mc
  = if ngt (vnum t) (F 0) then silent t inev :: stream_run c K lib fuel dep s inev mc
    else stream_run c K lib (S fuel) dep s inev mc.
Proof.
  intros c K lib Hf fuel dep t s inev mc. cbn [stream_run]. cbn [snext].
  destruct (ngt (vnum t) (F 0)).
  - rewrite Hf. rewrite stream_run_delta_passes. reflexivity.
  - destruct (snext c K lib dep s inev mc) as [[e s' o|o r|] mc']; try reflexivity.
    rewrite stream_run_delta_passes. reflexivity.
Qed.

(* the rest lasts t * stretch (stretch of the input event, 1 when it has none) and is a rest *)
Lemma pdelta_rest_delta_l : forall K t inev tq, get "stretch" inev = None -> val (vnum t) tq ->
  (exists n, t = VNum n) -> delta_q K (silent t inev) == tq /\ is_rest (silent t inev) = true.
Proof.
  intros K t inev tq Hs [Hok Hv] [n Et]. split; [|apply silent_is_rest].
  subst t. cbn [vnum] in *. unfold delta_q, silent. rewrite Hs. unfold ev_call.
  rewrite get_put_neq by reflexivity. rewrite get_put_same. cbn [vmul vlift2 unbool vnum].
  destruct n; okd; cbn [nmul lift2 toQ] in *; rewrite <- Hv; cbn; ring.
Qed.

(* ---- Ppar given an input event with a 'stretch' key (e.g. Pchain(Ppar(...), Pbind(stretch = 2)), or a proto event) ------
   released code: the rests that fill the gap left by a voice that has ended are built by Event.silent(nexttime - now,
   inevent), which multiplies by that stretch a second time (the queue times already are in stretched time): voice 0
   (dur 1, 1; stretch 2) has its second event at its own time 2 but it is played at 3.  Repaired: at 2. *)
Definition released_ppar : cfg := mkCfg true true true true true true true false true.
Definition stretch_witness : pat :=
  PPar [PBind [("instrument"%string, VRep (VSym "c14a")); ("pan"%string, VRep (VNum (I 0))); ("dur"%string, VSeq [VNum (I 1); VNum (I 1)])];
        PBind [("instrument"%string, VRep (VSym "c14a")); ("pan"%string, VRep (VNum (I 1))); ("dur"%string, VSeq [VNum (F (1 # 2))])]].
Definition stretch_proto : event := [("stretch"%string, VNum (I 2)); ("legato"%string, VNum (F (1 # 2)))].
Definition voices (l : list bundle) : list (Q * Z) :=
  map (fun b => (Qred (fst b), voice b)) (filter (fun b => match snd b with MNew _ _ _ _ _ => true | _ => false end) l).
Lemma ppar_stretched_input_refuted_l :
  voices (sends released_ppar K0 the_lib 0 20 6 stretch_witness stretch_proto 0) = [(0, 0%Z); (0, 1%Z); (3, 0%Z)] /\
  voices (sends patched K0 the_lib 0 20 6 stretch_witness stretch_proto 0) = [(0, 0%Z); (0, 1%Z); (2, 0%Z)].
Proof. vm_compute. split; reflexivity. Qed.
