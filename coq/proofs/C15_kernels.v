(* Range laws of the regenerated numeric kernels (gen/Gen_builtins.v). *)
Require Import SC3.proofs.NumTac SC3.gen.Gen_builtins.
Open Scope Q_scope.

Ltac floor_facts :=
  rewrite ?inject_Z_mult, ?inject_Z_plus;
  repeat match goal with
  | |- context [inject_Z (Qfloor (?y / ?r))] =>
      let t := fresh "t" in let Ht := fresh "Ht" in let Hf := fresh "Hf" in
      let f := fresh "f" in
      destruct (div_floor y r) as [t [Ht Hf]]; [lra|];
      set (f := inject_Z (Qfloor (y / r))) in *; clearbody f
  | |- context [inject_Z (Qceiling (?y / ?r))] =>
      let t := fresh "t" in let Ht := fresh "Ht" in let Hf := fresh "Hf" in
      let f := fresh "f" in
      destruct (div_ceil y r) as [t [Ht Hf]]; [lra|];
      set (f := inject_Z (Qceiling (y / r))) in *; clearbody f
  end.
Ltac leaf := eexists; split; [reflexivity|]; floor_facts; try lra; try nra.

Lemma mod_float_range a b : 0 < b ->
  exists r, py_mod (F a) (F b) = F r /\ 0 <= r /\ r < b.
Proof.
  intros Hb. unfold py_mod, py_floor. nunf. qb; try lra; leaf.
Qed.

Lemma wrap_float_range x lo hi : lo < hi ->
  exists r, py_wrap (F x) (F lo) (F hi) = F r /\ lo <= r /\ r < hi.
Proof.
  intros H. unfold py_wrap, py_floor. nunf. qb; try lra; leaf.
Qed.

Lemma fold_float_range x lo hi : lo < hi ->
  exists r, py_fold (F x) (F lo) (F hi) = F r /\ lo <= r /\ r <= hi.
Proof.
  intros H. unfold py_fold, py_floor. nunf. qb; try lra; leaf.
Qed.

Definition multiple_of (r q : Q) : Prop := exists k : Z, r == inject_Z k * q.

Ltac div_facts :=
  rewrite ?inject_Z_mult, ?inject_Z_plus;
  repeat match goal with
  | |- context [inject_Z (Qfloor ?e)] =>
      let f := fresh "f" in
      pose proof (floor_bounds e); set (f := inject_Z (Qfloor e)) in *; clearbody f
  | |- context [inject_Z (Qceiling ?e)] =>
      let f := fresh "f" in
      pose proof (ceil_bounds e); set (f := inject_Z (Qceiling e)) in *; clearbody f
  end;
  repeat match goal with
  | H : context [?y / ?r] |- _ =>
      let d := fresh "d" in
      assert (y == (y / r) * r) by (field; lra);
      set (d := y / r) in *; clearbody d
  end.
Ltac mleaf := eexists; split; [reflexivity|]; split; [eexists; reflexivity|]; div_facts; try lra; try nra.

Lemma round_float x q : 0 < q ->
  exists r, py_round (F x) (F q) = F r /\ multiple_of r q /\ 2 * r - q <= 2 * x /\ 2 * x < 2 * r + q.
Proof.
  intros Hq. unfold py_round, py_floor. nunf. qb; try lra. mleaf.
Qed.

Lemma roundup_float x q : 0 < q ->
  exists r, py_roundup (F x) (F q) = F r /\ multiple_of r q /\ x <= r /\ r < x + q.
Proof.
  intros Hq. unfold py_roundup, py_ceil. nunf. qb; try lra. mleaf.
Qed.

Lemma trunc_float x q : 0 < q ->
  exists r, py_trunc (F x) (F q) = F r /\ multiple_of r q /\ r <= x /\ x < r + q.
Proof.
  intros Hq. unfold py_trunc, py_floor. nunf. qb; try lra. mleaf.
Qed.

Lemma round_quant0 x : py_round (F x) (F 0) = F x /\ py_roundup (F x) (F 0) = F x /\ py_trunc (F x) (F 0) = F x.
Proof. unfold py_round, py_roundup, py_trunc. nunf. qb; try lra. auto. Qed.

Lemma clip_float_range x lo hi : lo <= hi ->
  exists r, py_clip (F x) (F lo) (F hi) = F r /\ lo <= r /\ r <= hi.
Proof.
  intros H. unfold py_clip, py_max, py_min. nunf. qb; (eexists; (split; [reflexivity|]); lra).
Qed.
Lemma clip_float_idem x lo hi : lo <= hi ->
  py_clip (py_clip (F x) (F lo) (F hi)) (F lo) (F hi) = py_clip (F x) (F lo) (F hi).
Proof.
  intros H. unfold py_clip, py_max, py_min. nunf. qb; try reflexivity; try lra.
Qed.
Lemma clip_float_fixes_inside x lo hi : lo <= x -> x <= hi -> py_clip (F x) (F lo) (F hi) = F x.
Proof.
  intros H1 H2. unfold py_clip, py_max, py_min. nunf. qb; try reflexivity; try lra.
Qed.
