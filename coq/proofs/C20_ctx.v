(* C20: the build-context state machine releases everything on every path (any outcome) and a
   finished or failed build leaves no residue in any definition. *)
From Coq Require Import List Arith Bool Lia.
Import ListNotations.
Require Import SC3.model.BuildCtx.

Lemma content_attach_same : forall d tok l, content d (attach d tok l) = content d l ++ [tok].
Proof.
  intros d tok l; induction l as [|[k v] t IH]; simpl.
  - rewrite Nat.eqb_refl; reflexivity.
  - destruct (Nat.eqb k d) eqn:E; simpl; rewrite E; auto.
Qed.

Lemma content_attach_other : forall d d' tok l, d' <> d -> content d' (attach d tok l) = content d' l.
Proof.
  intros d d' tok l Hne; induction l as [|[k v] t IH]; simpl.
  - destruct (Nat.eqb d d') eqn:E; auto. apply Nat.eqb_eq in E; congruence.
  - destruct (Nat.eqb k d) eqn:E; simpl.
    + apply Nat.eqb_eq in E; subst k.
      assert (E2 : Nat.eqb d d' = false) by (apply Nat.eqb_neq; congruence).
      rewrite E2; reflexivity.
    + destruct (Nat.eqb k d'); auto.
Qed.

Lemma fold_add_cur : forall toks c, cur (fold_left add_to_synth toks c) = cur c /\
                                    locked (fold_left add_to_synth toks c) = locked c.
Proof.
  induction toks as [|t ts IH]; intros c; simpl; auto.
  destruct (IH (add_to_synth c t)) as [H1 H2]; rewrite H1, H2.
  unfold add_to_synth; destruct (cur c) eqn:E; simpl; split; congruence.
Qed.

Lemma fold_add_content : forall toks c id, cur c = Some id ->
  content id (defs (fold_left add_to_synth toks c)) = content id (defs c) ++ toks /\
  (forall d, d <> id -> content d (defs (fold_left add_to_synth toks c)) = content d (defs c)).
Proof.
  induction toks as [|t ts IH]; intros c id Hc; simpl.
  - rewrite app_nil_r; auto.
  - assert (Hc' : cur (add_to_synth c t) = Some id) by (unfold add_to_synth; rewrite Hc; simpl; auto).
    destruct (IH _ id Hc') as [H1 H2]; split.
    + rewrite H1. unfold add_to_synth; rewrite Hc; simpl. rewrite content_attach_same, <- app_assoc; reflexivity.
    + intros d Hd. rewrite (H2 d Hd). unfold add_to_synth; rewrite Hc; simpl. apply content_attach_other; auto.
Qed.

Definition good_obs (o : obs) : Prop :=
  match o with OOutside _ b => b = None | OBlocked _ => False | OBuilt _ _ => True | OReadDesc _ _ => True end.

Lemma step_released : forall c e, cur c = None -> locked c = false ->
  cur (fst (step true true c e)) = None /\ locked (fst (step true true c e)) = false /\ good_obs (snd (step true true c e)).
Proof.
  intros c e Hc Hl; destruct e as [id toks o | id toks o | tok]; simpl.
  - rewrite Hl; simpl. auto.
  - rewrite Hl; simpl. auto.
  - unfold add_to_synth; rewrite Hc; simpl; auto.
Qed.

Lemma run_released : forall evs c, cur c = None -> locked c = false ->
  cur (fst (run true true c evs)) = None /\ locked (fst (run true true c evs)) = false /\ Forall good_obs (snd (run true true c evs)).
Proof.
  induction evs as [|e t IH]; intros c Hc Hl; simpl.
  - auto.
  - destruct (step_released c e Hc Hl) as (H1 & H2 & H3).
    destruct (step true true c e) as [c1 o] eqn:Es; simpl in *.
    destruct (IH c1 H1 H2) as (H4 & H5 & H6).
    destruct (run true true c1 t) as [c2 os]; simpl in *; auto.
Qed.

(* effect of one event on the definitions, from a released context *)
Lemma step_defs : forall c e, cur c = None -> locked c = false ->
  match ev_toks e with
  | Some (id, toks) =>
      content id (defs (fst (step true true c e))) = content id (defs c) ++ toks /\
      (forall d, d <> id -> content d (defs (fst (step true true c e))) = content d (defs c))
  | None => forall d, content d (defs (fst (step true true c e))) = content d (defs c)
  end.
Proof.
  intros c e Hc Hl; destruct e as [id toks o | id toks o | tok]; simpl.
  - rewrite Hl; simpl.
    apply (fold_add_content toks (mkCtx (Some id) true (defs c)) id); reflexivity.
  - rewrite Hl; simpl.
    apply (fold_add_content toks (mkCtx (Some id) true (defs c)) id); reflexivity.
  - unfold add_to_synth; rewrite Hc; auto.
Qed.

Lemma ev_toks_ids : forall e id toks, ev_toks e = Some (id, toks) -> build_ids [e] = [id].
Proof. intros [i l o|i l o|k] id toks H; simpl in *; try discriminate; injection H as <- <-; auto. Qed.
Lemma build_ids_cons : forall e t, build_ids (e :: t) = build_ids [e] ++ build_ids t.
Proof. intros. unfold build_ids. simpl. rewrite app_nil_r. auto. Qed.
Lemma ev_toks_none_ids : forall e, ev_toks e = None -> build_ids [e] = [].
Proof. intros [i l o|i l o|k] H; simpl in *; try discriminate; auto. Qed.

Lemma run_defs_untouched : forall evs c d, cur c = None -> locked c = false ->
  ~ In d (build_ids evs) -> content d (defs (fst (run true true c evs))) = content d (defs c).
Proof.
  induction evs as [|e t IH]; intros c d Hc Hl Hn; cbn [run]; auto.
  destruct (step_released c e Hc Hl) as (H1 & H2 & _).
  pose proof (step_defs c e Hc Hl) as Hd.
  rewrite build_ids_cons in Hn.
  destruct (step true true c e) as [c1 o] eqn:Es; cbn [fst snd] in *.
  specialize (IH c1 d H1 H2).
  destruct (run true true c1 t) as [c2 os] eqn:Er; cbn [fst snd] in *.
  rewrite IH.
  - destruct (ev_toks e) as [[id toks]|] eqn:Et.
    + destruct Hd as [_ Hd]; apply Hd. intro; subst. apply Hn. apply in_or_app. left.
      rewrite (ev_toks_ids e id toks Et). left; auto.
    + apply Hd.
  - intro Hin; apply Hn. apply in_or_app; auto.
Qed.

Lemma NoDup_app_r : forall (l1 l2 : list nat), NoDup (l1 ++ l2) -> NoDup l2.
Proof. induction l1 as [|x t IH]; simpl; auto. intros l2 H. inversion H; auto. Qed.

Lemma run_no_residue : forall evs c, cur c = None -> locked c = false ->
  NoDup (build_ids evs) ->
  forall e id toks, In e evs -> ev_toks e = Some (id, toks) ->
  content id (defs (fst (run true true c evs))) = content id (defs c) ++ toks.
Proof.
  induction evs as [|e t IH]; intros c Hc Hl Hnd e0 id toks Hin Het; simpl in Hin; [contradiction|].
  destruct (step_released c e Hc Hl) as (H1 & H2 & _).
  pose proof (step_defs c e Hc Hl) as Hd.
  rewrite build_ids_cons in Hnd.
  cbn [run]. destruct (step true true c e) as [c1 ob] eqn:Es; cbn [fst snd] in *.
  destruct Hin as [Heq | Hin].
  - subst e0. rewrite Het in Hd. rewrite (ev_toks_ids e id toks Het) in Hnd. simpl in Hnd.
    inversion Hnd as [|x l Hnotin Hnd']; subst.
    pose proof (run_defs_untouched t c1 id H1 H2 Hnotin) as Hu.
    destruct (run true true c1 t) as [c2 os]; cbn [fst snd] in *.
    rewrite Hu. apply Hd.
  - assert (Hnd' : NoDup (build_ids t)) by (eapply NoDup_app_r; eauto).
    pose proof (IH c1 H1 H2 Hnd' e0 id toks Hin Het) as Hr.
    destruct (run true true c1 t) as [c2 os]; cbn [fst snd] in *.
    rewrite Hr. f_equal.
    assert (Hid : In id (build_ids t)).
    { clear - Hin Het. induction t as [|e' t' IHt]; [contradiction|].
      rewrite build_ids_cons. apply in_or_app. destruct Hin as [->|Hin]; [left; rewrite (ev_toks_ids _ _ _ Het); left; auto | right; auto]. }
    destruct (ev_toks e) as [[id' toks']|] eqn:Et.
    + destruct Hd as [_ Hd]. apply Hd. intro; subst id'.
      rewrite (ev_toks_ids e id toks' Et) in Hnd. simpl in Hnd. inversion Hnd; subst. contradiction.
    + apply Hd.
Qed.
