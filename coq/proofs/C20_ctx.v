(* C20: the build-context state machine releases everything on every Exception path and a
   finished or failed build leaves no residue in any definition. *)
From Coq Require Import List Arith Bool Lia.
Import ListNotations.
Require Import SC3.model.BuildCtx.

Lemma content_attach_same : forall d tok l, content d (attach d tok l) = content d l ++ [tok].
Proof.
  intros d tok l; induction l as [|[k v] t IH]; simpl.
  - rewrite Nat.eqb_refl; reflexivity.
  - destruct (Nat.eqb k d) eqn:E; simpl; rewrite E; auto.
Qed.

Lemma content_attach_other : forall d d' tok l, d' <> d -> content d' (attach d tok l) = content d' l.
Proof.
  intros d d' tok l Hne; induction l as [|[k v] t IH]; simpl.
  - destruct (Nat.eqb d d') eqn:E; auto. apply Nat.eqb_eq in E; congruence.
  - destruct (Nat.eqb k d) eqn:E; simpl.
    + apply Nat.eqb_eq in E; subst k.
      assert (E2 : Nat.eqb d d' = false) by (apply Nat.eqb_neq; congruence).
      rewrite E2; reflexivity.
    + destruct (Nat.eqb k d'); auto.
Qed.

Lemma fold_add_cur : forall toks c, cur (fold_left add_to_synth toks c) = cur c /\
                                    locked (fold_left add_to_synth toks c) = locked c.
Proof.
  induction toks as [|t ts IH]; intros c; simpl; auto.
  destruct (IH (add_to_synth c t)) as [H1 H2]; rewrite H1, H2.
  unfold add_to_synth; destruct (cur c) eqn:E; simpl; split; congruence.
Qed.

Lemma fold_add_content : forall toks c id, cur c = Some id ->
  content id (defs (fold_left add_to_synth toks c)) = content id (defs c) ++ toks /\
  (forall d, d <> id -> content d (defs (fold_left add_to_synth toks c)) = content d (defs c)).
Proof.
  induction toks as [|t ts IH]; intros c id Hc; simpl.
  - rewrite app_nil_r; auto.
  - assert (Hc' : cur (add_to_synth c t) = Some id) by (unfold add_to_synth; rewrite Hc; simpl; auto).
    destruct (IH _ id Hc') as [H1 H2]; split.
    + rewrite H1. unfold add_to_synth; rewrite Hc; simpl. rewrite content_attach_same, <- app_assoc; reflexivity.
    + intros d Hd. rewrite (H2 d Hd). unfold add_to_synth; rewrite Hc; simpl. apply content_attach_other; auto.
Qed.

Definition good_obs (o : obs) : Prop :=
  match o with OOutside _ b => b = None | OBlocked _ => False | OBuilt _ _ => True end.

Lemma step_released : forall c e, cur c = None -> locked c = false -> no_base e = true ->
  cur (fst (step c e)) = None /\ locked (fst (step c e)) = false /\ good_obs (snd (step c e)).
Proof.
  intros c e Hc Hl Hb; destruct e as [id toks o | tok]; simpl.
  - rewrite Hl; simpl. destruct o; simpl in *; try discriminate; auto.
  - unfold add_to_synth; rewrite Hc; simpl; auto.
Qed.

Lemma run_released : forall evs c, cur c = None -> locked c = false -> forallb no_base evs = true ->
  cur (fst (run c evs)) = None /\ locked (fst (run c evs)) = false /\ Forall good_obs (snd (run c evs)).
Proof.
  induction evs as [|e t IH]; intros c Hc Hl Hb; simpl.
  - auto.
  - simpl in Hb; apply andb_true_iff in Hb; destruct Hb as [Hb1 Hb2].
    destruct (step_released c e Hc Hl Hb1) as (H1 & H2 & H3).
    destruct (step c e) as [c1 o] eqn:Es; simpl in *.
    destruct (IH c1 H1 H2 Hb2) as (H4 & H5 & H6).
    destruct (run c1 t) as [c2 os]; simpl in *; auto.
Qed.

(* effect of one event on the definitions, from a released context *)
Lemma step_defs : forall c e, cur c = None -> locked c = false ->
  match e with
  | EBuild id toks _ =>
      content id (defs (fst (step c e))) = content id (defs c) ++ toks /\
      (forall d, d <> id -> content d (defs (fst (step c e))) = content d (defs c))
  | EOutside _ => forall d, content d (defs (fst (step c e))) = content d (defs c)
  end.
Proof.
  intros c e Hc Hl; destruct e as [id toks o | tok]; simpl.
  - rewrite Hl; simpl.
    apply (fold_add_content toks (mkCtx (Some id) true (defs c)) id); reflexivity.
  - unfold add_to_synth; rewrite Hc; auto.
Qed.

Lemma run_defs_untouched : forall evs c d, cur c = None -> locked c = false -> forallb no_base evs = true ->
  ~ In d (build_ids evs) -> content d (defs (fst (run c evs))) = content d (defs c).
Proof.
  induction evs as [|e t IH]; intros c d Hc Hl Hb Hn; simpl; auto.
  simpl in Hb; apply andb_true_iff in Hb; destruct Hb as [Hb1 Hb2].
  destruct (step_released c e Hc Hl Hb1) as (H1 & H2 & _).
  pose proof (step_defs c e Hc Hl) as Hd.
  destruct (step c e) as [c1 o] eqn:Es; simpl in *.
  specialize (IH c1 d H1 H2 Hb2).
  destruct (run c1 t) as [c2 os] eqn:Er; simpl in *.
  rewrite IH.
  - destruct e as [id toks oc | tok]; simpl in *.
    + destruct Hd as [_ Hd]; apply Hd. intro; subst; apply Hn; left; reflexivity.
    + apply Hd.
  - intro Hin; apply Hn. destruct e; simpl; auto.
Qed.

Lemma run_no_residue : forall evs c, cur c = None -> locked c = false -> forallb no_base evs = true ->
  NoDup (build_ids evs) ->
  forall id toks o, In (EBuild id toks o) evs ->
  content id (defs (fst (run c evs))) = content id (defs c) ++ toks.
Proof.
  induction evs as [|e t IH]; intros c Hc Hl Hb Hnd id toks o Hin; simpl in Hin; [contradiction|].
  simpl in Hb; apply andb_true_iff in Hb; destruct Hb as [Hb1 Hb2].
  destruct (step_released c e Hc Hl Hb1) as (H1 & H2 & _).
  pose proof (step_defs c e Hc Hl) as Hd.
  simpl. destruct (step c e) as [c1 ob] eqn:Es; simpl in *.
  destruct Hin as [Heq | Hin].
  - subst e. simpl in Hnd. inversion Hnd as [|x l Hnotin Hnd']; subst.
    pose proof (run_defs_untouched t c1 id H1 H2 Hb2 Hnotin) as Hu.
    destruct (run c1 t) as [c2 os]; simpl in *.
    rewrite Hu. apply Hd.
  - assert (Hnd' : NoDup (build_ids t)).
    { destruct e; simpl in Hnd; auto. inversion Hnd; auto. }
    pose proof (IH c1 H1 H2 Hb2 Hnd' id toks o Hin) as Hr.
    destruct (run c1 t) as [c2 os]; simpl in *.
    rewrite Hr. f_equal.
    destruct e as [id' toks' o' | tok]; simpl in *.
    + destruct Hd as [_ Hd]. apply Hd. intro; subst id'.
      inversion Hnd as [|x l Hnotin _]; subst. apply Hnotin.
      clear - Hin. induction t as [|e' t' IHt]; simpl in *; [contradiction|].
      destruct Hin as [He | Hin]; [subst; simpl; auto|]. apply in_or_app; right; auto.
    + apply Hd.
Qed.
