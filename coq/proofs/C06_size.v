(* C06 -- alignment of the encoder's output, upper bound of the size prediction,
   partition and size bound of _clump_bundle. *)
From Coq Require Import ZArith QArith List Bool Lia.
Import ListNotations.
Require Import SC3.model.Osc SC3.model.OscSize SC3.proofs.C06_base.
Open Scope Z_scope.

(* ---- unfolding calc_pkt ---- *)
Lemma calc_pkt_msg : forall fx addr args,
  calc_pkt fx (AList (AStr addr :: args)) =
  if negb fx && negb (is_ascii addr) then Err EValue
  else calc_vals fx args >>= fun v => Ok (strpad4 (zlen addr) + strpad4 (zlen args + 1) + v).
Proof.
  intros fx addr args. cbn [calc_pkt]. destruct (negb fx && negb (is_ascii addr)); [reflexivity |].
  f_equal. induction args as [| x r IH]; [reflexivity |].
  cbn [calc_vals]. rewrite <- IH. reflexivity.
Qed.
Lemma calc_pkt_bundle : forall fx lat tag elems,
  calc_pkt fx (AList (ATime lat tag :: elems)) = calc_bndl fx elems.
Proof.
  intros fx lat tag elems. cbn [calc_pkt].
  induction elems as [| x r IH]; [reflexivity |].
  cbn [calc_bndl]. rewrite <- IH. reflexivity.
Qed.

Lemma floats4_list : forall l, floats4 (AList l) = forallb floats4 l.
Proof. induction l as [| x r IH]; [reflexivity |]. cbn [floats4 forallb] in *. rewrite IH. reflexivity. Qed.

(* ---- lengths of the encoders ---- *)
Lemma coerce_args_length : forall nc args targs, coerce_args nc args = Ok targs -> zlen targs = zlen args.
Proof.
  induction args as [| x r IH]; intros targs H; cbn [coerce_args] in H.
  - inv_ok H. reflexivity.
  - apply bind_ok in H as (t & Ht & H). apply bind_ok in H as (ts & Hts & H). inv_ok H.
    rewrite !zlen_cons, (IH _ Hts). reflexivity.
Qed.

Lemma enc_msg_len : forall nc addr targs d, enc_msg nc addr targs = Ok d ->
  exists v, enc_targs nc targs = Ok v /\
            zlen d = strpad4 (zlen addr) + strpad4 (zlen targs + 1) + zlen v.
Proof.
  intros nc addr targs d H. unfold enc_msg in H. destruct addr as [| a0 ar] eqn:Ea; [discriminate |]. rewrite <- Ea in *. clear Ea.
  apply bind_ok in H as (a & Ha & H). apply bind_ok in H as (t & Ht & H). apply bind_ok in H as (v & Hv & H).
  inv_ok H. exists v. split; [assumption |].
  rewrite !zlen_app, (write_string_len _ _ _ Ha), (write_string_len _ _ _ Ht), zlen_cons, zlen_map.
  replace (1 + zlen targs) with (zlen targs + 1) by lia. lia.
Qed.

Lemma check_msg_ok : forall d d', check_msg d = Ok d' -> d' = d.
Proof. unfold check_msg; intros d d' H; destruct (parse_msg d); inv_ok H; reflexivity. Qed.
Lemma check_bundle_ok : forall d d', check_bundle d = Ok d' -> d' = d.
Proof. unfold check_bundle; intros d d' H; destruct (parse_bundle_top d); inv_ok H; reflexivity. Qed.

Definition bundle_len' (ds : list bytes) : Z := sumz (map (fun d => 4 + zlen d) ds).
Lemma enc_contents_len : forall ds b, enc_contents ds = Ok b -> zlen b = bundle_len' ds.
Proof.
  induction ds as [| c r IH]; intros b H; cbn [enc_contents] in H.
  - inv_ok H. reflexivity.
  - apply bind_ok in H as (h & Hh & H). apply bind_ok in H as (t & Ht & H). inv_ok H.
    unfold bundle_len' in *. cbn [map sumz]. rewrite !zlen_app, (write_int_len _ _ Hh), (IH _ Ht). lia.
Qed.
Lemma enc_bundle_len : forall tag ds d, enc_bundle tag ds = Ok d -> zlen d = bundle_len ds.
Proof.
  intros tag ds d H. unfold enc_bundle in H.
  apply bind_ok in H as (t & Ht & H). apply bind_ok in H as (b & Hb & H). inv_ok H.
  rewrite !zlen_app, (write_timetag_len _ _ Ht), (enc_contents_len _ _ Hb).
  unfold bundle_len, bundle_len'. change (zlen bundle_prefix) with 8. lia.
Qed.

(* the bundle of a list of elements: its length from the lengths of the built elements *)
Lemma build_bundle_len : forall nc lat tag elems d,
  build_pkt nc (AList (ATime lat tag :: elems)) = Ok d ->
  exists ds, build_elems nc lat elems = Ok ds /\ zlen d = bundle_len ds.
Proof.
  intros nc lat tag elems d H. rewrite build_pkt_bundle in H.
  apply bind_ok in H as (ds & Hds & H). apply bind_ok in H as (d0 & Hd0 & H).
  apply check_bundle_ok in H. subst d. exists ds. split; [assumption |]. eapply enc_bundle_len; eassumption.
Qed.

(* ---- the main induction: alignment and upper bound together ---- *)
Definition sized (nc : bool) (a : arg) : Prop :=
  floats4 a = true -> forall d, build_pkt nc a = Ok d ->
  zlen d mod 4 = 0 /\ forall n, calc_pkt true a = Ok n -> zlen d <= n.

Lemma sized_val : forall nc x t bx,
  (forall l, x = AList l -> sized nc x) -> floats4 x = true ->
  coerce1 nc x = Ok t -> enc_targ nc t = Ok bx ->
  zlen bx mod 4 = 0 /\ forall s, calc_val true x = Ok s -> zlen bx <= s.
Proof.
  intros nc x t bx IH Hwf Hc He.
  destruct x as [| b | z | w | s | b | lat tag | | l]; cbn [coerce1] in Hc; try discriminate Hc.
  - (* None *) inv_ok Hc. cbn [enc_targ] in He. rewrite (write_int_len _ _ He). split; [reflexivity |].
    intros s Hs. cbn in Hs. inv_ok Hs. lia.
  - (* bool *) inv_ok Hc. cbn [enc_targ] in He. rewrite (write_int_len _ _ He). split; [reflexivity |].
    intros s Hs. cbn in Hs. inv_ok Hs. lia.
  - (* int *) inv_ok Hc. cbn [enc_targ] in He. rewrite (write_int_len _ _ He). split; [reflexivity |].
    intros s Hs. cbn in Hs. inv_ok Hs. lia.
  - (* float *) inv_ok Hc. cbn [enc_targ] in He. inv_ok He. cbn [floats4] in Hwf. apply Z.eqb_eq in Hwf.
    rewrite Hwf. split; [reflexivity |]. intros s Hs. cbn in Hs. inv_ok Hs. lia.
  - (* str, markers *)
    cbn [calc_val]. inv_ok Hc.
    pose proof (strpad4_gt (zlen s)) as Hgt. pose proof (zlen_nonneg s) as Hnn.
    destruct (match s with [91] => true | _ => false end).
    { cbn in He. inv_ok He. split; [reflexivity |]. intros n Hn. inv_ok Hn. rewrite zlen_nil. lia. }
    destruct (match s with [93] => true | _ => false end).
    { cbn in He. inv_ok He. split; [reflexivity |]. intros n Hn. inv_ok Hn. rewrite zlen_nil. lia. }
    cbn [enc_targ] in He. rewrite (write_string_len _ _ _ He). split; [apply strpad4_aligned |].
    intros n Hn. inv_ok Hn. lia.
  - (* bytes *) inv_ok Hc. cbn [enc_targ] in He. rewrite (write_blob_len _ _ He). split; [apply blob_aligned |].
    intros s Hs. cbn [calc_val] in Hs. inv_ok Hs. rewrite land3. lia.
  - (* list *)
    specialize (IH l eq_refl). unfold sized in IH. specialize (IH Hwf).
    destruct l as [| h tl].
    + inv_ok Hc. cbn [enc_targ] in He. rewrite (write_int_len _ _ He). split; [reflexivity |].
      intros s Hs. cbn in Hs. inv_ok Hs. lia.
    + assert (Hblob : forall d, build_pkt nc (AList (h :: tl)) = Ok d -> t = TBlob d ->
                zlen bx mod 4 = 0 /\ forall s, (calc_pkt true (AList (h :: tl)) >>= fun s => Ok (s + 4)) = Ok s -> zlen bx <= s).
      { intros d Hd ->. cbn [enc_targ] in He. destruct (IH d Hd) as [Hal Hub].
        rewrite (write_blob_len _ _ He), (pad_aligned_zero _ Hal).
        split; [replace (4 + zlen d + 0) with (4 + zlen d) by lia; apply add_aligned; [reflexivity | exact Hal] |].
        intros s Hs. apply bind_ok in Hs as (n & Hn & Hs). inv_ok Hs. specialize (Hub n Hn). lia. }
      destruct h as [| b | z | w | s | b | lat tag | | l']; try discriminate Hc.
      * (* message-shaped *)
        apply bind_ok in Hc as (d & Hd & Hc). inv_ok Hc. exact (Hblob d Hd eq_refl).
      * (* bundle-shaped *)
        destruct tl as [| e1 tl']; [discriminate Hc |].
        destruct e1; try discriminate Hc.
        apply bind_ok in Hc as (d & Hd & Hc). inv_ok Hc. exact (Hblob d Hd eq_refl).
Qed.

Lemma sized_vals : forall nc args targs v,
  Forall (sized nc) args -> forallb floats4 args = true ->
  coerce_args nc args = Ok targs -> enc_targs nc targs = Ok v ->
  zlen v mod 4 = 0 /\ forall n, calc_vals true args = Ok n -> zlen v <= n.
Proof.
  intros nc args. induction args as [| x r IH]; intros targs v HF Hwf Hc He.
  - cbn in Hc. inv_ok Hc. cbn in He. inv_ok He. split; [reflexivity |]. intros n Hn. cbn in Hn. inv_ok Hn. reflexivity.
  - cbn [coerce_args] in Hc. apply bind_ok in Hc as (t & Ht & Hc). apply bind_ok in Hc as (ts & Hts & Hc). inv_ok Hc.
    cbn [enc_targs] in He. apply bind_ok in He as (a & Ha & He). apply bind_ok in He as (b & Hb & He). inv_ok He.
    cbn [forallb] in Hwf. apply andb_prop in Hwf as [Hwx Hwr].
    inversion HF as [| ? ? Hx Hr]; subst.
    destruct (sized_val nc x t a (fun _ _ => Hx) Hwx Ht Ha) as [Hal Hub].
    destruct (IH ts b Hr Hwr Hts Hb) as [Hal' Hub'].
    rewrite zlen_app. split; [apply add_aligned; assumption |].
    intros n Hn. cbn [calc_vals] in Hn. apply bind_ok in Hn as (s & Hs & Hn). apply bind_ok in Hn as (u & Hu & Hn). inv_ok Hn.
    specialize (Hub s Hs). specialize (Hub' u Hu). lia.
Qed.

Lemma build_elem_shape : forall nc lat e d, build_elem nc lat e = Ok d ->
  build_pkt nc e = Ok d /\
  ((exists addr args, e = AList (AStr addr :: args)) \/
   (exists sub tag es, e = AList (ATime sub tag :: es) /\ check_subtime lat sub = true)).
Proof.
  intros nc lat e d H. destruct e as [| | | | | | | | l]; try discriminate H.
  destruct l as [| h tl]; [discriminate H |].
  destruct h as [| | | | s | | sub tag | |]; try discriminate H.
  - split; [exact H | left; eauto].
  - cbn [build_elem] in H. destruct (check_subtime lat sub) eqn:Hs; [| discriminate H].
    split; [exact H | right; eauto].
Qed.

Lemma sized_elems : forall nc lat elems ds,
  Forall (sized nc) elems -> forallb floats4 elems = true ->
  build_elems nc lat elems = Ok ds ->
  bundle_len' ds mod 4 = 0 /\ forall n, calc_bndl true elems = Ok n -> 16 + bundle_len' ds <= n.
Proof.
  intros nc lat elems. induction elems as [| e r IH]; intros ds HF Hwf Hb.
  - cbn in Hb. inv_ok Hb. split; [reflexivity |]. intros n Hn. cbn in Hn. inv_ok Hn. cbn. lia.
  - cbn [build_elems] in Hb. apply bind_ok in Hb as (d & Hd & Hb). apply bind_ok in Hb as (ds' & Hds & Hb). inv_ok Hb.
    cbn [forallb] in Hwf. apply andb_prop in Hwf as [Hwe Hwr].
    inversion HF as [| ? ? He Hr]; subst.
    destruct (IH ds' Hr Hwr Hds) as [Hal' Hub'].
    destruct (build_elem_shape _ _ _ _ Hd) as [Hbp Hshape].
    destruct (He Hwe d Hbp) as [Hal Hub].
    unfold bundle_len' in *. cbn [map sumz].
    split; [apply add_aligned; [apply add_aligned; [reflexivity | exact Hal] | exact Hal'] |].
    intros n Hn. cbn [calc_bndl] in Hn. apply bind_ok in Hn as (s & Hs & Hn). apply bind_ok in Hn as (u & Hu & Hn). inv_ok Hn.
    specialize (Hub' u Hu).
    assert (Hcs : calc_pkt true e = Ok s).
    { destruct Hshape as [(addr & args & ->) | (sub & tag & es & -> & _)]; [exact Hs |].
      cbn [calc_elem orb] in Hs. exact Hs. }
    specialize (Hub s Hcs). lia.
Qed.

Theorem sized_all : forall nc a, sized nc a.
Proof.
  intros nc. apply arg_nested_ind.
  - (* leaves: build_pkt refuses *)
    intros a Hleaf Hwf d Hb. destruct a; try discriminate Hb. exfalso. eapply Hleaf. reflexivity.
  - intros l HF Hwf d Hb. rewrite floats4_list in Hwf.
    destruct l as [| h tl]; [discriminate Hb |].
    inversion HF as [| ? ? _ Htl]; subst. cbn [forallb] in Hwf. apply andb_prop in Hwf as [_ Hwtl].
    destruct h as [| | | | addr | | lat tag | |]; try discriminate Hb.
    + (* message *)
      rewrite build_pkt_msg in Hb.
      apply bind_ok in Hb as (targs & Hc & Hb). apply bind_ok in Hb as (d0 & He & Hb).
      apply check_msg_ok in Hb. subst d.
      destruct (enc_msg_len _ _ _ _ He) as (v & Hv & Hlen).
      destruct (sized_vals nc tl targs v Htl Hwtl Hc Hv) as [Hal Hub].
      rewrite Hlen. split.
      * apply add_aligned; [apply add_aligned; apply strpad4_aligned | exact Hal].
      * intros n Hn. rewrite calc_pkt_msg in Hn. cbn [negb andb] in Hn.
        apply bind_ok in Hn as (u & Hu & Hn). inv_ok Hn. specialize (Hub u Hu).
        rewrite (coerce_args_length _ _ _ Hc). lia.
    + (* bundle *)
      destruct (build_bundle_len _ _ _ _ _ Hb) as (ds & Hds & Hlen).
      destruct (sized_elems nc lat tl ds Htl Hwtl Hds) as [Hal Hub].
      rewrite Hlen. unfold bundle_len. fold (bundle_len' ds). split.
      * apply add_aligned; [reflexivity | exact Hal].
      * intros n Hn. rewrite calc_pkt_bundle in Hn. exact (Hub n Hn).
Qed.

(* ---- _clump_bundle ---- *)
Lemma clump_loop_concat : forall {A} fx size (l : list (Z * A)) acc cur,
  concat (clump_loop fx size l acc cur) = rev cur ++ map snd l.
Proof.
  intros A fx size l. induction l as [| [s0 e] r IH]; intros acc cur.
  - cbn [clump_loop map]. destruct cur; cbn [concat]; rewrite ?app_nil_r; reflexivity.
  - cbn [clump_loop map snd].
    destruct ((if fx then match cur with [] => false | _ => true end else true) && (size <=? acc + (if fx then s0 + 4 else s0))).
    + cbn [concat]. rewrite IH. reflexivity.
    + rewrite IH. cbn [rev]. rewrite <- app_assoc. reflexivity.
Qed.

Lemma clump_loop_nonempty : forall {A} size (l : list (Z * A)) acc cur,
  Forall (fun c => c <> []) (clump_loop true size l acc cur).
Proof.
  intros A size l. induction l as [| [s0 e] r IH]; intros acc cur.
  - cbn [clump_loop]. destruct cur as [| x cur']; constructor; [| constructor].
    intro H. apply (f_equal (@length A)) in H. rewrite rev_length in H. discriminate H.
  - cbn [clump_loop]. destruct cur as [| x cur'].
    + cbn [andb]. apply IH.
    + cbn [andb]. destruct (size <=? acc + (s0 + 4)).
      * constructor; [| apply IH].
        intro H. apply (f_equal (@length A)) in H. rewrite rev_length in H. discriminate H.
      * apply IH.
Qed.

Section ClumpBound.
  Context {A : Type} (sz : A -> Z) (size : Z).
  Definition wsum (c : list A) : Z := sumz (map (fun e => sz e + 4) c).
  Lemma wsum_app : forall a b, wsum (a ++ b) = wsum a + wsum b.
  Proof. unfold wsum. induction a as [| x a IH]; intros b; cbn [app map sumz]; [lia | rewrite IH; lia]. Qed.
  Lemma wsum_rev : forall c, wsum (rev c) = wsum c.
  Proof. induction c as [| x c IH]; [reflexivity |]. cbn [rev]. rewrite wsum_app, IH. unfold wsum. cbn [map sumz]. lia. Qed.

  Lemma clump_loop_bound : forall (es : list A) acc cur,
    acc = 16 + wsum cur -> ((length cur <= 1)%nat \/ acc < size) ->
    Forall (fun c => (length c <= 1)%nat \/ 16 + wsum c < size)
           (clump_loop true size (map (fun e => (sz e, e)) es) acc cur).
  Proof.
    induction es as [| e r IH]; intros acc cur Hacc Hinv.
    - cbn [map clump_loop]. destruct cur as [| x cur']; constructor; [| constructor].
      rewrite rev_length, wsum_rev. destruct Hinv as [H | H]; [left; exact H | right; lia].
    - cbn [map clump_loop]. destruct cur as [| x cur'].
      + cbn [andb]. apply IH.
        * unfold wsum in *. cbn [map sumz] in *. lia.
        * left. cbn [length]. lia.
      + cbn [andb]. destruct (size <=? acc + (sz e + 4)) eqn:Hc.
        * constructor.
          -- rewrite rev_length, wsum_rev. destruct Hinv as [H | H]; [left; exact H | right; lia].
          -- apply IH; [unfold wsum; cbn [map sumz]; lia | left; cbn [length]; lia].
        * apply Z.leb_gt in Hc. apply IH.
          -- unfold wsum in *. cbn [map sumz] in *. lia.
          -- right. lia.
  Qed.
End ClumpBound.

(* ---- the repaired prediction is defined on everything the builder accepts ---- *)
Definition predicted (nc : bool) (a : arg) : Prop :=
  forall d, build_pkt nc a = Ok d -> exists n, calc_pkt true a = Ok n.

Lemma predicted_val : forall nc x t,
  (forall l, x = AList l -> predicted nc x) -> coerce1 nc x = Ok t -> exists s, calc_val true x = Ok s.
Proof.
  intros nc x t IH Hc.
  destruct x as [| b | z | w | s | b | lat tag | | l]; cbn [coerce1] in Hc; try discriminate Hc;
    try (eexists; reflexivity).
  specialize (IH l eq_refl). unfold predicted in IH.
  destruct l as [| h tl]; [eexists; reflexivity |].
  destruct h as [| | | | s | | lat tag | |]; try discriminate Hc.
  - apply bind_ok in Hc as (d & Hd & _). destruct (IH d Hd) as (n & Hn).
    cbn [calc_val]. rewrite Hn. eexists; reflexivity.
  - destruct tl as [| e1 tl']; [discriminate Hc |]. destruct e1; try discriminate Hc.
    apply bind_ok in Hc as (d & Hd & _). destruct (IH d Hd) as (n & Hn).
    cbn [calc_val]. rewrite Hn. eexists; reflexivity.
Qed.

Lemma predicted_vals : forall nc args targs,
  Forall (predicted nc) args -> coerce_args nc args = Ok targs -> exists v, calc_vals true args = Ok v.
Proof.
  intros nc args. induction args as [| x r IH]; intros targs HF Hc.
  - eexists; reflexivity.
  - cbn [coerce_args] in Hc. apply bind_ok in Hc as (t & Ht & Hc). apply bind_ok in Hc as (ts & Hts & _).
    inversion HF as [| ? ? Hx Hr]; subst.
    destruct (predicted_val nc x t (fun _ _ => Hx) Ht) as (s & Hs).
    destruct (IH ts Hr Hts) as (v & Hv).
    cbn [calc_vals]. rewrite Hs, Hv. eexists; reflexivity.
Qed.

Lemma predicted_elems : forall nc lat elems ds,
  Forall (predicted nc) elems -> build_elems nc lat elems = Ok ds ->
  exists n, calc_bndl true elems = Ok n /\ Forall (fun e => exists s, calc_elem true e = Ok s) elems.
Proof.
  intros nc lat elems. induction elems as [| e r IH]; intros ds HF Hb.
  - eexists. split; [reflexivity | constructor].
  - cbn [build_elems] in Hb. apply bind_ok in Hb as (d & Hd & Hb). apply bind_ok in Hb as (ds' & Hds & _).
    inversion HF as [| ? ? He Hr]; subst.
    destruct (IH ds' Hr Hds) as (n & Hn & HFr).
    destruct (build_elem_shape _ _ _ _ Hd) as [Hbp Hshape].
    destruct (He d Hbp) as (s & Hs).
    assert (Hce : calc_elem true e = Ok s).
    { destruct Hshape as [(addr & args & ->) | (sub & tag & es & -> & _)]; exact Hs. }
    cbn [calc_bndl]. rewrite Hce, Hn. eexists. split; [reflexivity |].
    constructor; [eexists; exact Hce | exact HFr].
Qed.

Theorem predicted_all : forall nc a, predicted nc a.
Proof.
  intros nc. apply arg_nested_ind.
  - intros a Hleaf d Hb. destruct a; try discriminate Hb. exfalso. eapply Hleaf. reflexivity.
  - intros l HF d Hb.
    destruct l as [| h tl]; [discriminate Hb |].
    inversion HF as [| ? ? _ Htl]; subst.
    destruct h as [| | | | addr | | lat tag | |]; try discriminate Hb.
    + rewrite build_pkt_msg in Hb. apply bind_ok in Hb as (targs & Hc & _).
      destruct (predicted_vals nc tl targs Htl Hc) as (v & Hv).
      rewrite calc_pkt_msg. cbn [negb andb]. rewrite Hv. eexists; reflexivity.
    + rewrite build_pkt_bundle in Hb. apply bind_ok in Hb as (ds & Hds & _).
      destruct (predicted_elems nc lat tl ds Htl Hds) as (n & Hn & _).
      rewrite calc_pkt_bundle. eauto.
Qed.

Lemma Forall_predicted : forall nc l, Forall (predicted nc) l.
Proof. intros nc l. apply Forall_forall. intros x _. apply predicted_all. Qed.

(* ... and so is the clumping of any list of elements a bundle can be built from *)
Lemma clump_defined : forall nc lat es ds size,
  build_elems nc lat es = Ok ds -> exists cs, clump_bundle true size es = Ok cs.
Proof.
  intros nc lat es ds size Hb.
  destruct (predicted_elems nc lat es ds (Forall_predicted nc es) Hb) as (_ & _ & HF).
  unfold clump_bundle.
  assert (Hs : exists sl, clump_sizes true es = Ok sl).
  { clear Hb. induction es as [| e r IH]; [eexists; reflexivity |].
    inversion HF as [| ? ? (s & Hs) Hr]; subst. destruct (IH Hr) as (sl & Hsl).
    cbn [clump_sizes]. rewrite Hs, Hsl. eexists; reflexivity. }
  destruct Hs as (sl & Hsl). rewrite Hsl. eexists; reflexivity.
Qed.
