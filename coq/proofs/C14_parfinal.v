(* C14 -- Ppar at full strength, part 4: the initial state, the assembled theorem, and player o Ppar. *)
From Coq Require Import String List Morphisms Permutation Sorting.
Require Import SC3.proofs.NumTac SC3.gen.Gen_builtins SC3.proofs.C12_num SC3.model.TaskQ SC3.model.Event.
Require Import SC3.proofs.C09_order SC3.proofs.C14_play SC3.proofs.C14_stream SC3.proofs.C14_pdur SC3.proofs.C14_ppar.
Require Import SC3.proofs.C14_merge SC3.proofs.C14_mergethm.
Import ListNotations.
Open Scope Q_scope.

(* ---- the initial queue: every child at 0.0, sequence number = child index ------------------------------------------ *)
Lemma par_init_S : forall n, par_init (S n) = qadd 0 (Z.of_nat n) (par_init n).
Proof. intros n. unfold par_init. rewrite seq_S, fold_left_app. reflexivity. Qed.

(* steps needed: one per event plus one per child *)
Fixpoint mupto (n : nat) (ls : list (list event)) : nat :=
  match n with
  | O => 0
  | S k => mupto k ls + S (List.length (nth k ls []))
  end.

Lemma par_init_facts : forall n m, (n <= m)%nat ->
  qinv (par_init n) m /\ snd (par_init n) = n /\
  Forall (fun x => prio x = 0 /\ exists i, itask x = Z.of_nat i /\ (i < n)%nat) (fst (par_init n)) /\
  (forall c, (c < n)%nat -> qtime c (fst (par_init n)) = Some 0) /\
  (forall ls, meas (fst (par_init n)) ls = mupto n ls).
Proof.
  induction n as [|n IH]; intros m Hm.
  - split; [|split; [|split; [|split]]]; try reflexivity.
    + constructor; cbn; constructor.
    + constructor.
    + intros c Hc. lia.
  - destruct (IH m ltac:(lia)) as [Hq [Hs [Hf [Ht Hme]]]]. rewrite par_init_S.
    destruct (par_init n) as [l k] eqn:E. cbn [fst snd] in *. subst k.
    assert (Hn : ~ In (Z.of_nat n) (map itask l)).
    { intros Hin. apply in_map_iff in Hin. destruct Hin as [x [Ex Hx]]. rewrite Forall_forall in Hf.
      destruct (Hf x Hx) as [_ [i [Ei Hi]]]. rewrite Ei in Ex. apply Nat2Z.inj in Ex. lia. }
    pose proof (insert_by_perm _ ikey (0, n, Z.of_nat n) l) as P.
    split; [apply qinv_add; [exact Hq|exact Hn|lia]|].
    rewrite qadd_eq. rewrite (remove_task_absent _ _ Hn). cbn [fst snd].
    split; [reflexivity|]. split; [|split].
    + apply (Permutation_Forall (Permutation_sym P)). constructor.
      * split; [reflexivity|]. exists n. split; [reflexivity|lia].
      * eapply Forall_impl; [|exact Hf]. intros x [Hp [i [Ei Hi]]]. split; [exact Hp|]. exists i. split; [exact Ei|lia].
    + intros c Hc. destruct (Nat.eq_dec c n) as [Ec|Ec].
      * subst c. rewrite qtime_insert_same; [reflexivity|reflexivity|exact Hn].
      * rewrite qtime_insert_other; [apply Ht; lia|]. cbn. intros E'. apply Nat2Z.inj in E'. lia.
    + intros ls. rewrite (meas_perm _ _ _ P). cbn [meas mupto itask snd]. rewrite Hme, Nat2Z.id. lia.
Qed.

Lemma par_init_pinv : forall K ls, lists_ok K ls -> pinv K (par_init (List.length ls)) (F 0) ls.
Proof.
  intros K ls Hok. destruct (par_init_facts (List.length ls) (List.length ls) (le_n _)) as [Hq [_ [Hf _]]].
  constructor; [exact Hq| |exact Hok].
  exists 0. split; [reflexivity|]. destruct (fst (par_init (List.length ls))) as [|x r]; [exact Logic.I|].
  destruct (Forall_inv Hf) as [Hp _]. symmetry. exact Hp.
Qed.

(* ---- the merge theorem on event lists ------------------------------------------------------------------------------ *)
Lemma ppar_merge_l : forall K inev ls fuel, lists_ok K ls ->
  (mupto (List.length ls) ls <= fuel)%nat ->
  let outs := par_run K inev fuel (par_init (List.length ls)) (F 0) ls in
  (forall c, (c < List.length ls)%nat -> Forall2 own (of_child c outs) (ctimeline K 0 (nth c ls []))) /\
  StronglySorted key_lt outs /\
  Forall (fun o => toQ (po_time o) = fst (po_key o)) outs /\
  (forall k o, nth_error outs k = Some o -> toQ (po_time o) == qsum (firstn k (map (out_delta K) outs))) /\
  (ls <> [] -> is_max (qsum (map (out_delta K) outs)) (map (total K) ls)).
Proof.
  intros K inev ls fuel Hok Hfuel outs.
  pose proof (par_init_pinv K ls Hok) as Hinv.
  destruct (par_init_facts (List.length ls) (List.length ls) (le_n _)) as [Hq [_ [Hf [Ht Hme]]]].
  assert (Hm : (meas (fst (par_init (List.length ls))) ls <= fuel)%nat) by (rewrite Hme; exact Hfuel).
  split; [|split; [|split; [|split]]].
  - intros c Hc. pose proof (par_child_timeline K inev fuel _ _ ls c Hinv Hm) as H. rewrite (Ht c Hc) in H. exact H.
  - apply (par_keys_increase K inev fuel _ _ ls Hinv).
  - apply (par_keys_increase K inev fuel _ _ ls Hinv).
  - intros k o H. rewrite (par_time_prefix K inev fuel _ _ ls Hinv k o H). unfold outs. cbn [toQ]. ring.
  - intros Hne.
    assert (Hq0 : fst (par_init (List.length ls)) <> []).
    { destruct ls as [|l0 r]; [contradiction|]. intros E. pose proof (Ht 0%nat ltac:(cbn; lia)) as H0. rewrite E in H0. discriminate. }
    pose proof (par_total K inev fuel _ _ ls Hinv Hm Hq0) as H.
    eapply is_max_transfer; [exact H|unfold outs; cbn [toQ]; ring| |].
    + intros b Hb. apply in_map_iff in Hb. destruct Hb as [l [El Hl]].
      destruct (In_nth _ _ [] Hl) as [i [Hi Ei]].
      destruct (qtime_in _ _ _ (Ht i Hi)) as [x [Hx [Etx Epx]]].
      exists (prio x + total K (nth (Z.to_nat (itask x)) ls [])). split.
      * unfold endtimes. apply in_map_iff. exists x. split; [reflexivity|exact Hx].
      * rewrite Etx, Nat2Z.id, Ei, Epx, El. ring.
    + intros a Ha. unfold endtimes in Ha. apply in_map_iff in Ha. destruct Ha as [x [Ex Hx]].
      rewrite Forall_forall in Hf. destruct (Hf x Hx) as [Hp [i [Ei Hi]]].
      exists (total K (nth i ls [])). split.
      * apply in_map. apply nth_In. exact Hi.
      * subst a. rewrite Hp, Ei, Nat2Z.id. ring.
Qed.

(* ---- player o Ppar ------------------------------------------------------------------------------------------------------ *)
Lemma par_out_numeric : forall c K inev fuel q now ls, pinv K q now ls ->
  Forall (numeric_delta c K) (map as_event (map po_ev (par_run K inev fuel q now ls))).
Proof.
  intros c K inev fuel. induction fuel as [|f IH]; intros q now ls Hinv; [constructor|].
  destruct q as [[|x r] n]; [constructor|].
  destruct (pinv_now _ _ _ _ Hinv) as [a [Ea Eh]]. cbn [fst] in Eh. subst now a.
  destruct (par_step K inev f x r n (prio x) ls Hinv)
    as [i Ei Hnth Er Hrun | i y r' Ei Hi Hnth Er Hrun Hinv' | i e0 li y r' Ei Hi Hnth He0 Eq2 Hrun Hinv'];
    rewrite Hrun; [constructor| |].
  - cbn [map po_ev]. constructor; [|apply IH; assumption].
    unfold numeric_delta. rewrite delta_as_event. unfold par_rest. rewrite ev_call_put_same. cbn. reflexivity.
  - cbn [map po_ev]. constructor; [|apply IH; assumption].
    unfold numeric_delta. rewrite delta_as_event. rewrite ev_call_put_same. cbn. reflexivity.
Qed.

Lemma Forall2_nth : forall (A B : Type) (R : A -> B -> Prop) la lb, List.length la = List.length lb ->
  (forall k a b, nth_error la k = Some a -> nth_error lb k = Some b -> R a b) -> Forall2 R la lb.
Proof.
  intros A B R la. induction la as [|a r IH]; intros lb Hl H; destruct lb as [|b rb]; cbn in Hl; try discriminate; constructor.
  - apply (H 0%nat); reflexivity.
  - apply IH; [lia|]. intros k x y Hx Hy. apply (H (S k)); assumption.
Qed.
Lemma Forall2_comp : forall (A B C : Type) (R1 : A -> B -> Prop) (R2 : B -> C -> Prop) (R3 : A -> C -> Prop) la lb lc,
  (forall x y z, R1 x y -> R2 y z -> R3 x z) -> Forall2 R1 la lb -> Forall2 R2 lb lc -> Forall2 R3 la lc.
Proof.
  intros A B C R1 R2 R3 la lb lc Hc H1. revert lc. induction H1 as [|a b ra rb Hab H1 IH]; intros lc H2; inversion H2; subst; constructor.
  - eapply Hc; eassumption.
  - apply IH. assumption.
Qed.

(* the entries of a player's log that come from child c, given the tags of the merge *)
Definition sel (c : nat) (log : list (Q * event)) (outs : list pout) : list (Q * event) :=
  map fst (filter (fun p => from_child c (snd p)) (combine log outs)).

Lemma sel_Forall2 : forall (R : Q * event -> pout -> Prop) c log outs, Forall2 R log outs ->
  Forall2 R (sel c log outs) (of_child c outs).
Proof.
  intros R c log outs H. unfold sel, of_child. induction H as [|a b ra rb Hab H IH]; cbn; [constructor|].
  destruct (from_child c b); cbn; [constructor; assumption|exact IH].
Qed.

(* the player's log of a Ppar, entry by entry: the k-th output of the merge, at start + its merge time *)
Definition logged (now : Q) (te : Q * event) (o : pout) : Prop :=
  fst te == now + toQ (po_time o) /\ snd te = as_event (po_ev o).

Lemma player_ppar_log : forall c K lib dep inev cs ls fuel mc now,
  fix_ppar_rest c = true -> (0 < dep)%nat -> lists_ok K ls -> Forall2 (denotes c K lib dep inev) cs ls ->
  let outs := par_run K inev fuel (par_init (List.length ls)) (F 0) ls in
  stream_run c K lib fuel (S dep) (SPar false spec_init (F 0) cs) inev mc = map po_ev outs /\
  Forall2 (logged now) (evs (player c K lib fuel (S dep) (SPar false spec_init (F 0) cs) inev mc now)) outs.
Proof.
  intros c K lib dep inev cs ls fuel mc now Hr Hd Hok HF outs.
  pose proof (ppar_stream_is_par_run_init c K lib dep inev Hr Hd fuel cs ls mc HF) as Es. fold outs in Es.
  split; [exact Es|].
  pose proof (par_init_pinv K ls Hok) as Hinv.
  assert (El : evs (player c K lib fuel (S dep) (SPar false spec_init (F 0) cs) inev mc now)
               = timeline K now (map as_event (map po_ev outs))).
  { rewrite player_is_timeline; rewrite Es; [reflexivity|]. apply par_out_numeric; assumption. }
  rewrite El. apply Forall2_nth.
  - rewrite timeline_length, !map_length. reflexivity.
  - intros k [t e] o H1 H2. destruct (timeline_nth _ _ _ _ _ _ H1) as [H3 H4]. unfold logged. cbn [fst snd]. split.
    + rewrite H4. rewrite (par_time_prefix K inev fuel _ _ ls Hinv k o H2). cbn [toQ].
      assert (M : map (delta_q K) (map as_event (map po_ev outs)) = map (out_delta K) outs).
      { rewrite !map_map. apply map_ext. intros a. apply delta_q_as_event. }
      rewrite M. fold outs. ring.
    + rewrite !nth_error_map, H2 in H3. cbn in H3. inversion H3. reflexivity.
Qed.

(* event m of child c is played at start + the sum of c's own preceding deltas *)
Definition played_own (now : Q) (te : Q * event) (ce : Q * event) : Prop :=
  fst te == now + fst ce /\ exists dv, snd te = as_event (put "delta" dv (as_event (snd ce))).

Lemma player_ppar_times_l : forall c K lib dep inev cs ls fuel mc now,
  fix_ppar_rest c = true -> (0 < dep)%nat -> lists_ok K ls -> Forall2 (denotes c K lib dep inev) cs ls ->
  (mupto (List.length ls) ls <= fuel)%nat ->
  let outs := par_run K inev fuel (par_init (List.length ls)) (F 0) ls in
  let log := evs (player c K lib fuel (S dep) (SPar false spec_init (F 0) cs) inev mc now) in
  forall ch, (ch < List.length ls)%nat ->
  Forall2 (played_own now) (sel ch log outs) (ctimeline K 0 (nth ch ls [])).
Proof.
  intros c K lib dep inev cs ls fuel mc now Hr Hd Hok HF Hfuel outs log ch Hch.
  destruct (player_ppar_log c K lib dep inev cs ls fuel mc now Hr Hd Hok HF) as [_ HL]. fold outs in HL. fold log in HL.
  destruct (ppar_merge_l K inev ls fuel Hok Hfuel) as [T1 _]. fold outs in T1.
  eapply Forall2_comp; [|apply sel_Forall2; exact HL|exact (T1 ch Hch)].
  intros te o ce [A1 A2] [B1 [dv B2]]. split.
  - rewrite A1, B1. reflexivity.
  - exists dv. rewrite A2, B2. reflexivity.
Qed.

(* ---- the property, on the stream of Ppar ------------------------------------------------------------------------------ *)
Lemma ppar_preserves_child_timelines_l : forall c K lib dep inev cs ls fuel mc,
  fix_ppar_rest c = true -> (0 < dep)%nat -> lists_ok K ls -> Forall2 (denotes c K lib dep inev) cs ls ->
  (mupto (List.length ls) ls <= fuel)%nat ->
  let out := stream_run c K lib fuel (S dep) (SPar false spec_init (F 0) cs) inev mc in
  exists outs,
    out = map po_ev outs /\
    (forall ch, (ch < List.length ls)%nat -> Forall2 own (of_child ch outs) (ctimeline K 0 (nth ch ls []))) /\
    (forall k o, nth_error outs k = Some o ->
       toQ (po_time o) == qsum (firstn k (map (delta_q K) out)) /\ toQ (po_time o) = fst (po_key o)) /\
    StronglySorted key_lt outs /\
    (ls <> [] -> is_max (qsum (map (delta_q K) out)) (map (total K) ls)).
Proof.
  intros c K lib dep inev cs ls fuel mc Hr Hd Hok HF Hfuel out.
  exists (par_run K inev fuel (par_init (List.length ls)) (F 0) ls).
  pose proof (ppar_stream_is_par_run_init c K lib dep inev Hr Hd fuel cs ls mc HF) as Es. fold out in Es.
  destruct (ppar_merge_l K inev ls fuel Hok Hfuel) as [T1 [T2 [T2' [Tp T3]]]].
  assert (M : map (delta_q K) out = map (out_delta K) (par_run K inev fuel (par_init (List.length ls)) (F 0) ls)).
  { rewrite Es, map_map. reflexivity. }
  split; [exact Es|]. split; [exact T1|]. split; [|split; [exact T2|]].
  - intros k o H. split; [rewrite M; apply Tp; exact H|].
    rewrite Forall_forall in T2'. apply T2'. eapply nth_error_In. exact H.
  - intros Hne. rewrite M. apply T3. exact Hne.
Qed.

(* ---- non-vacuity: two Pbind voices --------------------------------------------------------------------------------------- *)
Definition voiceA : list (string * vstream) :=
  [("pan"%string, VRep (VNum (I 0))); ("dur"%string, VSeq [VNum (F (1 # 2)); VNum (F (1 # 2)); VNum (F 1)])].
Definition voiceB : list (string * vstream) :=
  [("pan"%string, VRep (VNum (I 1))); ("dur"%string, VSeq [VNum (F 1); VNum (F 1)])].
Definition two_lists : list (list event) := [bind_list [] 5 voiceA; bind_list [] 5 voiceB].

Lemma two_voices_denote : Forall2 (denotes patched K0 the_lib 3 []) [SBind voiceA; SBind voiceB] two_lists.
Proof.
  constructor; [|constructor; [|constructor]]; apply denotes_bind; try lia; vm_compute; exact Logic.I.
Qed.
Lemma two_lists_ok : lists_ok K0 two_lists.
Proof.
  unfold two_lists. vm_compute bind_list.
  repeat constructor; try (vm_compute; reflexivity); try (vm_compute; intros H; discriminate H).
Qed.
(* ties go to the entry queued first, not to the lower child index: at time 1 voice B (queued for 1 at time 0)
   precedes voice A (queued for 1 at time 1/2) *)
Lemma tie_order_example :
  map (fun o => (Qred (toQ (po_time o)), po_src o)) (par_run K0 [] 9 (par_init 2) (F 0) two_lists)
  = [(0, Some 0%nat); (0, Some 1%nat); (1 # 2, Some 0%nat); (1, Some 1%nat); (1, Some 0%nat); (2, None)].
Proof. vm_compute. reflexivity. Qed.
Lemma ppar_hypotheses_met_l :
  Forall2 (denotes patched K0 the_lib 3 []) [SBind voiceA; SBind voiceB] two_lists /\ lists_ok K0 two_lists /\
  (mupto (List.length two_lists) two_lists <= 9)%nat.
Proof. split; [exact two_voices_denote|]. split; [exact two_lists_ok|]. vm_compute. repeat constructor. Qed.
