(* C08 -- SystemClock / TempoClock transition system (model/RtClock.v, system 1):
   invariants over EVERY finite execution (induction over steps; the oracles -- time reads,
   wake-up causes, task results, client choices -- are the events, universally quantified). *)
From Coq Require Import QArith ZArith List Bool Arith Lia Lqa Permutation Sorting.
Import ListNotations.
Require Import SC3.model.TaskQ SC3.model.RtClock SC3.proofs.C09_order.
Local Open Scope Q_scope.

(* ---- executions --------------------------------------------------------------------------- *)
Lemma run_app : forall evs1 evs2 s,
  run s (evs1 ++ evs2) = match run s evs1 with Some s' => run s' evs2 | None => None end.
Proof.
  induction evs1 as [| e r IH]; intros evs2 s; simpl.
  - reflexivity.
  - destruct (step s e) as [s' |]; [apply IH | reflexivity].
Qed.

Lemma run_invariant : forall (P : cst -> Prop) (G : event -> Prop),
  (forall s e s', P s -> G e -> step s e = Some s' -> P s') ->
  forall evs s s', P s -> Forall G evs -> run s evs = Some s' -> P s'.
Proof.
  intros P G HS. induction evs as [| e r IH]; intros s s' HP HG HR; simpl in HR.
  - inversion HR; subst. exact HP.
  - inversion HG as [| e' r' Ge Gr]; subst.
    destruct (step s e) as [s1 |] eqn:E; [| discriminate].
    apply (IH s1 s'); [apply (HS s e s1); assumption | exact Gr | exact HR].
Qed.

Lemma run_invariant0 : forall (P : cst -> Prop),
  (forall s e s', P s -> step s e = Some s' -> P s') ->
  forall evs s s', P s -> run s evs = Some s' -> P s'.
Proof.
  intros P HS evs s s' HP HR.
  apply (run_invariant P (fun _ => True)) with (evs := evs) (s := s); try assumption.
  - intros s0 e s1 H0 _ H1. apply (HS s0 e s1); assumption.
  - apply Forall_forall. intros; exact I.
Qed.

(* case analysis of one step *)
Ltac unfold_step H :=
  unfold step, norm_pc, do_add, do_notify, set_pc, set_q, set_pend, client_ok, lock_free,
    in_task, waiting in H; simpl in H.
Ltac break_step H :=
  repeat match type of H with
  | context [match ?x with _ => _ end] =>
      let E := fresh "E" in destruct x eqn:E; simpl in H; try discriminate H
  end.
Ltac step_cases H :=
  unfold_step H; break_step H;
  try (injection H as H); subst.

(* ---- queue facts ---------------------------------------------------------------------------- *)
Lemma insert_by_nonempty : forall (x : item) l, exists h r, insert_by ikey x l = h :: r.
Proof.
  intros x l. destruct l as [| y r]; simpl.
  - eexists; eexists; reflexivity.
  - destruct (key_ltb (ikey y) (ikey x)); eexists; eexists; reflexivity.
Qed.

Lemma q_add_nonempty : forall t k l n, exists h r, q_add t k l n = h :: r.
Proof. intros. unfold q_add. apply insert_by_nonempty. Qed.

Lemma q_add_spec : forall t k l n,
  fst (spec_step (OAdd t k) (l, n)) = (q_add t k l n, S n).
Proof. reflexivity. Qed.

Lemma Qeq_bool_true : forall a b, Qeq_bool a b = true -> a == b.
Proof. intros a b H. apply Qeq_bool_iff. exact H. Qed.

Lemma beats2secs_eq : forall m a b, a == b -> beats2secs m a == beats2secs m b.
Proof. intros m a b H. unfold beats2secs. rewrite H. reflexivity. Qed.

(* ---- no_oversleep ------------------------------------------------------------------------------ *)
(* guard: scheduled times above the -1e10 sentinel of _sched_add *)
Definition above_sentinel (e : event) : Prop :=
  match e with EAdd t _ => sentinel < t | _ => True end.

Lemma oversleep_step : forall s e s',
  oversleep_free s = true -> above_sentinel e -> step s e = Some s' -> oversleep_free s' = true.
Proof.
  intros s e s' HI HG HS.
  destruct s as [kd q n p rn nt la m pe].
  unfold oversleep_free in *. simpl in *.
  destruct pe, e, p, q; simpl in HS; try discriminate HS;
  step_cases HS; simpl in *; try reflexivity; try discriminate;
    try (rewrite ?orb_true_r; reflexivity);
    try (rewrite HI; reflexivity).
  all: try match goal with E : (if ?c then _ else _) = _ |- _ => destruct c; discriminate E end.
  all: try match goal with
       | E : Qeq_bool (itime (?t, _, _)) sentinel = true |- _ =>
           exfalso; apply Qeq_bool_true in E; unfold itime in E; simpl in E;
           rewrite E in HG; apply (Qlt_irrefl _ HG)
       end.
  all: try (apply Qeq_bool_iff;
            match goal with E : Qeq_bool ?to (beats2secs _ _ - ?t) = true |- _ =>
              apply Qeq_bool_true in E; rewrite E; ring end).
  all: try (apply orb_true_iff in HI; destruct HI as [HI | HI];
            [rewrite HI; reflexivity | try discriminate HI]).
  all: try match goal with
       | E : Qeq_bool (head_time (q_add ?t ?k [] ?n)) sentinel = true |- _ =>
           exfalso; unfold q_add in E; simpl in E; apply Qeq_bool_true in E;
           simpl in HG; rewrite E in HG; apply (Qlt_irrefl _ HG)
       end.
  all: try match goal with
       | E : Qeq_bool (head_time (q_add ?t ?k ?l ?n)) _ = true |- _ =>
           destruct (q_add_nonempty t k l n) as [h' [r' Hq]]; rewrite Hq in *; simpl in E |- *;
           apply Qeq_bool_true in E
       end.
  all: try (apply orb_true_iff; right; apply Qeq_bool_iff;
            apply Qeq_bool_true in HI; rewrite HI; apply beats2secs_eq; symmetry; assumption).
  all: try (apply orb_true_iff; right; apply Qeq_bool_iff;
            match goal with E : Qeq_bool ?to (beats2secs _ _ - ?t) = true |- _ =>
              apply Qeq_bool_true in E; rewrite E; ring end).
Qed.

Lemma oversleep_init : forall k m, oversleep_free (init k m) = true.
Proof. reflexivity. Qed.

Lemma no_oversleep_run : forall k m evs s,
  Forall above_sentinel evs -> run (init k m) evs = Some s -> oversleep_free s = true.
Proof.
  intros k m evs s HG HR.
  apply (run_invariant (fun s => oversleep_free s = true) above_sentinel oversleep_step evs (init k m) s);
    [apply oversleep_init | exact HG | exact HR].
Qed.

(* readable form *)
Lemma no_oversleep_prop : forall k m evs s,
  Forall above_sentinel evs -> run (init k m) evs = Some s -> c_pend s = NoPend ->
  (c_pc s = PWaitEmpty -> c_q s <> [] -> c_notified s = true) /\
  (forall d, c_pc s = PSleeping d -> c_notified s = false ->
     exists h r, c_q s = h :: r /\ d == beats2secs (c_map s) (itime h)).
Proof.
  intros k m evs s HG HR HP.
  pose proof (no_oversleep_run k m evs s HG HR) as H.
  unfold oversleep_free in H. rewrite HP in H. split.
  - intros Hpc Hq. rewrite Hpc in H. apply orb_true_iff in H. destruct H as [H | H]; [exact H |].
    destruct (c_q s); [contradiction Hq; reflexivity | discriminate].
  - intros d Hpc Hn. rewrite Hpc, Hn in H. simpl in H.
    destruct (c_q s) as [| h r]; [discriminate |].
    exists h, r. split; [reflexivity | apply Qeq_bool_true; exact H].
Qed.

(* DESIGN.md form: Sleeping d, queue non-empty: head time >= d, or a notify is pending *)
Lemma no_oversleep_design : forall k m evs s d h r,
  Forall above_sentinel evs -> run (init k m) evs = Some s -> c_pend s = NoPend ->
  c_pc s = PSleeping d -> c_q s = h :: r ->
  d <= beats2secs (c_map s) (itime h) \/ c_notified s = true.
Proof.
  intros k m evs s d h r HG HR HP Hpc Hq.
  destruct (c_notified s) eqn:N; [right; reflexivity | left].
  destruct (no_oversleep_prop k m evs s HG HR HP) as [_ H2].
  destruct (H2 d Hpc N) as [h' [r' [Hq' Hd]]]. rewrite Hq in Hq'. inversion Hq'; subst.
  rewrite Hd. apply Qle_refl.
Qed.
