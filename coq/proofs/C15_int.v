(* Integer branches of the regenerated kernels: the code computes integer division and
   modulo through float operations (true division, math.fmod, int()); these lemmas show
   that on ints they are Z.div / Z.modulo, so that the range laws hold for every mix of
   int and float arguments. *)
Require Import SC3.proofs.NumTac SC3.gen.Gen_builtins.
Open Scope Q_scope.


Lemma Qceiling_unique e k : inject_Z k - 1 < e -> e <= inject_Z k -> Qceiling e = k.
Proof.
  intros H1 H2. destruct (ceil_bounds e) as [C1 C2].
  assert (inject_Z (Qceiling e) - 1 < inject_Z k) by lra.
  assert (inject_Z k - 1 < inject_Z (Qceiling e)) by lra.
  assert (Qceiling e - 1 < k)%Z.
  { rewrite Zlt_Qlt. unfold Z.sub. rewrite inject_Z_plus. exact H. }
  assert (k - 1 < Qceiling e)%Z.
  { rewrite Zlt_Qlt. unfold Z.sub. rewrite inject_Z_plus. exact H0. }
  lia.
Qed.

Lemma inject_div_mod a b : (0 < b)%Z ->
  inject_Z a == inject_Z b * inject_Z (a / b) + inject_Z (a mod b) /\ 0 <= inject_Z (a mod b) /\ inject_Z (a mod b) <= inject_Z b - 1.
Proof.
  intros Hb. pose proof (Z.div_mod a b ltac:(lia)) as E. pose proof (Z.mod_pos_bound a b Hb) as [M1 M2].
  split; [|split].
  - rewrite <- inject_Z_mult, <- inject_Z_plus. rewrite <- E. reflexivity.
  - change 0 with (inject_Z 0). rewrite <- Zle_Qle. exact M1.
  - change 1 with (inject_Z 1). unfold Qminus. rewrite <- inject_Z_opp, <- inject_Z_plus, <- Zle_Qle. lia.
Qed.

Lemma py_div_pos a b : (0 < b)%Z -> py_div (I a) (I b) = I (a / b)%Z.
Proof.
  intros Hb. assert (Hb' : 0 < inject_Z b) by (change 0 with (inject_Z 0); rewrite <- Zlt_Qlt; exact Hb).
  destruct (inject_div_mod a b Hb) as [E [M1 M2]].
  assert (E1 : inject_Z (a + 1) == inject_Z a + 1) by (rewrite inject_Z_plus; reflexivity).
  unfold py_div. nunf. qb; try lra.
  - f_equal. unfold Qtrunc.
    assert (0 <= inject_Z a / inject_Z b).
    { assert (inject_Z a == (inject_Z a / inject_Z b) * inject_Z b) by (field; lra).
      set (d := inject_Z a / inject_Z b) in *. nra. }
    destruct (Qle_bool_spec 0 (inject_Z a / inject_Z b)); [|lra].
    apply Qfloor_inject_div. lia.
  - (* a < 0 *)
    f_equal. unfold Qtrunc.
    assert (Hm : inject_Z (a + 1) == (inject_Z (a + 1) / inject_Z b) * inject_Z b) by (field; lra).
    set (d := inject_Z (a + 1) / inject_Z b) in *.
    assert (Hd: d - 1 < 0) by nra.
    destruct (Qle_bool_spec 0 (d - 1)); [lra|].
    apply Qceiling_unique; nra.
Qed.

Lemma Qtrunc_comp x y : x == y -> Qtrunc x = Qtrunc y.
Proof.
  intros E. unfold Qtrunc.
  destruct (Qle_bool_spec 0 x) as [Hx|Hx], (Qle_bool_spec 0 y) as [Hy|Hy].
  - apply Qfloor_comp; exact E.
  - exfalso. rewrite E in Hx. lra.
  - exfalso. rewrite E in Hx. lra.
  - apply Qceiling_comp; exact E.
Qed.
Lemma Qtrunc_inject z : Qtrunc (inject_Z z) = z.
Proof. unfold Qtrunc. destruct (Qle_bool 0 (inject_Z z)); [apply Qfloor_Z | apply Qceiling_Z]. Qed.

Lemma Qtrunc_inject_div x b : (0 < b)%Z -> Qtrunc (inject_Z x / inject_Z b) = Z.quot x b.
Proof.
  intros Hb. assert (Hb' : 0 < inject_Z b) by (change 0 with (inject_Z 0); rewrite <- Zlt_Qlt; exact Hb).
  assert (Hm : inject_Z x == (inject_Z x / inject_Z b) * inject_Z b) by (field; lra).
  unfold Qtrunc. destruct (Z_lt_le_dec x 0) as [Hx|Hx].
  - assert (inject_Z x < 0) by (change 0 with (inject_Z 0); rewrite <- Zlt_Qlt; exact Hx).
    set (d := inject_Z x / inject_Z b) in *.
    assert (d < 0) by nra.
    destruct (Qle_bool_spec 0 d); [lra|].
    unfold Qceiling.
    assert (Ed : - d == inject_Z (- x) / inject_Z b).
    { unfold d. rewrite inject_Z_opp. field. lra. }
    rewrite (Qfloor_comp _ _ Ed). rewrite Qfloor_inject_div by lia.
    rewrite <- Z.quot_div_nonneg by lia. rewrite Z.quot_opp_l by lia. lia.
  - assert (0 <= inject_Z x) by (change 0 with (inject_Z 0); rewrite <- Zle_Qle; exact Hx).
    set (d := inject_Z x / inject_Z b) in *.
    assert (0 <= d) by nra.
    destruct (Qle_bool_spec 0 d); [|lra].
    unfold d. rewrite Qfloor_inject_div by lia. symmetry. apply Z.quot_div_nonneg; lia.
Qed.

Lemma pint_pfmod_int x b : (0 < b)%Z -> pint (pfmod (I x) (I b)) = I (Z.rem x b).
Proof.
  intros Hb. assert (Hb' : 0 < inject_Z b) by (change 0 with (inject_Z 0); rewrite <- Zlt_Qlt; exact Hb).
  unfold pfmod, pint. nsimp. destruct (Qeq_bool_spec (inject_Z b) 0); [lra|].
  f_equal. rewrite Qtrunc_inject_div by exact Hb.
  rewrite <- (Qtrunc_inject (Z.rem x b)). apply Qtrunc_comp.
  rewrite <- inject_Z_mult. unfold Qminus. rewrite <- inject_Z_opp, <- inject_Z_plus.
  pose proof (Z.quot_rem' x b). replace (x + - (b * (x ÷ b)))%Z with (Z.rem x b) by lia. reflexivity.
Qed.

Lemma inj_le a b : inject_Z a <= inject_Z b <-> (a <= b)%Z. Proof. rewrite <- Zle_Qle. tauto. Qed.
Lemma inj_eq a b : inject_Z a == inject_Z b <-> (a = b)%Z. Proof. split; [apply inject_Z_injective| intros ->; reflexivity]. Qed.
Ltac q2z := change (0 # 1) with (inject_Z 0) in *; change (1 # 1) with (inject_Z 1) in *;
  rewrite ?inj_le, ?inj_eq in *.
Lemma rem_fix x b : (0 < b)%Z ->
  (Z.rem x b = x mod b /\ 0 <= Z.rem x b)%Z \/ (Z.rem x b + b = x mod b /\ Z.rem x b < 0)%Z.
Proof.
  intros Hb. destruct (Z_lt_le_dec x 0) as [Hx|Hx].
  - replace x with (- (- x))%Z by lia. set (y := (- x)%Z). assert (0 < y)%Z by lia.
    rewrite Z.rem_opp_l by lia. rewrite (Z.rem_mod_nonneg y b) by lia.
    pose proof (Z.mod_pos_bound y b Hb).
    destruct (Z.eq_dec (y mod b) 0) as [E|E].
    + left. rewrite (Z.mod_opp_l_z y b) by lia. lia.
    + right. rewrite (Z.mod_opp_l_nz y b) by lia. lia.
  - left. rewrite Z.rem_mod_nonneg by lia. pose proof (Z.mod_pos_bound x b Hb). lia.
Qed.
Lemma mod_shift_m a b : (0 < b)%Z -> ((a - b) mod b = a mod b)%Z.
Proof. intros. replace (a - b)%Z with (a + (-1) * b)%Z by lia. apply Z_mod_plus_full. Qed.
Lemma mod_shift_p a b : (0 < b)%Z -> ((a + b) mod b = a mod b)%Z.
Proof. intros. replace (a + b)%Z with (a + 1 * b)%Z by lia. apply Z_mod_plus_full. Qed.

Lemma py_mod_int a b : (0<b)%Z -> py_mod (I a) (I b) = I (a mod b)%Z.
Proof.
intros Hb. unfold py_mod. cbv zeta. cbn [nsub nadd lift2 is_float orb]. rewrite !pint_pfmod_int by exact Hb.
pose proof (rem_fix (a - b) b Hb). pose proof (rem_fix (a + b) b Hb).
pose proof (mod_shift_m a b Hb). pose proof (mod_shift_p a b Hb).
pose proof (Z.mod_pos_bound a b Hb).
nunf. qb. all: q2z. all: try lia. all: f_equal; try lia.
- symmetry. rewrite <- mod_shift_m by lia. apply Z.mod_small. lia.
- symmetry. apply Z.mod_small. lia.
- symmetry. rewrite <- mod_shift_p by lia. apply Z.mod_small. lia.
Qed.
