(* C03 -- the rate clause of the law: every unit of an expanded call has the rate that its
   class determines from the unit's OWN (picked) inputs. *)
From Coq Require Import ZArith List Bool Arith Lia.
Import ListNotations.
Require Import SC3.model.Mce SC3.proofs.C03_mce.

Lemma cls_rate_with_rate : forall base r, cls_rate (with_rate base r) = r.
Proof.
  intros base r. unfold cls_rate, with_rate.
  rewrite Z.add_comm, Z.mul_comm, Z_mod_plus_full. destruct r; reflexivity.
Qed.

Definition rated_from (base : Z) (rf : ratefn) (st : state) (new : list unit_rec) : Prop :=
  forall j u, nth_error new j = Some u ->
    exists r, rf (st ++ firstn j new) (uargs u) = Some r /\ ucls u = with_rate base r.

Lemma rated_from_nil : forall base rf st, rated_from base rf st [].
Proof. intros base rf st j u H. destruct j; discriminate. Qed.
Lemma rated_from_app : forall base rf st n1 n2,
  rated_from base rf st n1 -> rated_from base rf (st ++ n1) n2 -> rated_from base rf st (n1 ++ n2).
Proof.
  intros base rf st n1 n2 H1 H2 j u Hj.
  destruct (Nat.lt_ge_cases j (length n1)) as [Hlt|Hge].
  - rewrite nth_error_app1 in Hj by exact Hlt. destruct (H1 j u Hj) as (r & Hr & Hc).
    exists r. split; [|exact Hc]. rewrite firstn_app.
    replace (j - length n1) with 0 by lia. simpl. now rewrite app_nil_r.
  - rewrite nth_error_app2 in Hj by exact Hge. destruct (H2 _ u Hj) as (r & Hr & Hc).
    exists r. split; [|exact Hc]. rewrite firstn_app, firstn_all2 by exact Hge.
    now rewrite app_assoc.
Qed.

Lemma loop_grows_st : forall A (Q : state -> list unit_rec -> Prop) (f : nat -> M A),
  (forall s, Q s []) ->
  (forall s n1 n2, Q s n1 -> Q (s ++ n1) n2 -> Q s (n1 ++ n2)) ->
  (forall j s r s', f j s = Ok r s' -> exists new, s' = s ++ new /\ Q s new) ->
  forall n i st rs st', loop f i n st = Ok rs st' -> exists new, st' = st ++ new /\ Q st new.
Proof.
  intros A Q f Hnil Happ Hf. induction n as [|n IH]; intros i st rs st' H; simpl in H.
  - inversion H; subst. exists []. rewrite app_nil_r. auto.
  - unfold bind in H. destruct (f i st) as [r s1|e] eqn:E1; [|discriminate].
    destruct (loop f (S i) n s1) as [rs1 s2|e] eqn:E2; [|discriminate].
    inversion H; subst. destruct (Hf _ _ _ _ E1) as (n1 & -> & Q1).
    destruct (IH _ _ _ _ E2) as (n2 & -> & Q2).
    exists (n1 ++ n2). rewrite app_assoc. auto.
Qed.

Lemma multi_new_f_rated : forall base k rf n args st r st',
  multi_new_f (new1_rated base k rf) n args st = Ok r st' ->
  exists new, st' = st ++ new /\ rated_from base rf st new.
Proof.
  intros base k rf. induction n as [|n IH]; intros args st r st' H; [discriminate|].
  simpl in H. destruct (maxlen args =? 0).
  - unfold new1_rated in H. destruct (rf st args) as [rt|] eqn:Er; [|discriminate].
    unfold new1_plain in H. inversion H; subst. exists [mkUnit (with_rate base rt) args].
    split; [reflexivity|]. intros j u Hj. destruct j as [|j]; [|destruct j; discriminate].
    inversion Hj; subst. exists rt. simpl. rewrite app_nil_r. auto.
  - unfold bind in H. destruct (loop _ 0 (maxlen args) st) as [rs s1|e] eqn:EL; [|discriminate].
    inversion H; subst.
    eapply (loop_grows_st _ (rated_from base rf)) in EL; eauto using rated_from_nil, rated_from_app.
    intros j s r0 s' Hj. destruct (pick_all j args) as [a'|]; [|discriminate]. eapply IH; eauto.
Qed.

Lemma multi_new_rated : forall base k rf args st r st',
  multi_new (new1_rated base k rf) args st = Ok r st' ->
  exists new, st' = st ++ new /\
    forall j u, nth_error new j = Some u ->
      exists rt, rf (st ++ firstn j new) (uargs u) = Some rt /\
                 ucls u = with_rate base rt /\ cls_rate (ucls u) = rt.
Proof.
  intros base k rf args st r st' H. unfold multi_new in H.
  destruct (multi_new_f_rated _ _ _ _ _ _ _ _ H) as (new & -> & Q).
  exists new. split; [reflexivity|]. intros j u Hj. destruct (Q j u Hj) as (rt & Hr & Hc).
  exists rt. repeat split; auto. rewrite Hc. apply cls_rate_with_rate.
Qed.
