(* C03 -- lemmas about utils.flop / wrap_extend / list_binop and Out (model/Mce.v). *)
From Coq Require Import ZArith List Bool Arith Lia.
Import ListNotations.
Require Import SC3.model.Mce SC3.proofs.C03_mce.

(* ---- wrap_extend ------------------------------------------------------------ *)
Lemma concat_repeat_length : forall (l : list arg) q, length (concat (repeat l q)) = q * length l.
Proof. induction q as [|q IH]; simpl; [reflexivity|]. rewrite app_length, IH. reflexivity. Qed.

Lemma wrap_extend_length : forall l n, l <> [] -> length (wrap_extend l n) = n.
Proof.
  intros l n Hl. destruct l as [|x l]; [congruence|]. unfold wrap_extend.
  set (L := x :: l). assert (length L <> 0) as HL by (subst L; simpl; lia).
  rewrite app_length, concat_repeat_length, firstn_length.
  pose proof (Nat.mod_upper_bound n (length L) HL).
  pose proof (Nat.div_mod n (length L) HL). rewrite Nat.min_l by lia. lia.
Qed.

Lemma concat_repeat_nth : forall (l : list arg) q i, i < q * length l ->
  nth_error (concat (repeat l q)) i = nth_error l (i mod length l).
Proof.
  intros l. induction q as [|q IH]; intros i Hi; simpl in *; [lia|].
  assert (length l <> 0) as HL by (destruct l; simpl in *; lia).
  destruct (Nat.lt_ge_cases i (length l)) as [Hlt|Hge].
  - rewrite nth_error_app1 by exact Hlt. now rewrite Nat.mod_small.
  - rewrite nth_error_app2 by exact Hge. rewrite IH by lia.
    replace i with ((i - length l) + 1 * length l) at 2 by lia.
    now rewrite Nat.mod_add.
Qed.

Lemma nth_error_firstn_lt : forall (l : list arg) k i, i < k -> nth_error (firstn k l) i = nth_error l i.
Proof.
  induction l as [|x l IH]; intros k i H; destruct k; try lia; simpl.
  - now destruct i.
  - destruct i; [reflexivity|]. simpl. apply IH. lia.
Qed.

Lemma wrap_extend_nth : forall l n i, i < n -> l <> [] ->
  nth_error (wrap_extend l n) i = nth_error l (i mod length l).
Proof.
  intros l n i Hi Hl. destruct l as [|x l]; [congruence|]. unfold wrap_extend.
  set (L := x :: l). assert (length L <> 0) as HL by (subst L; simpl; lia).
  pose proof (Nat.mod_upper_bound n (length L) HL) as Hr.
  pose proof (Nat.div_mod n (length L) HL) as Hdm.
  destruct (Nat.lt_ge_cases i (n / length L * length L)) as [Hlt|Hge].
  - rewrite nth_error_app1 by (now rewrite concat_repeat_length).
    now apply concat_repeat_nth.
  - rewrite nth_error_app2 by (now rewrite concat_repeat_length).
    rewrite concat_repeat_length.
    assert (i - n / length L * length L < n mod length L) as Hlt2 by lia.
    rewrite nth_error_firstn_lt by exact Hlt2.
    f_equal.
    replace i with ((i - n / length L * length L) + (n / length L) * length L) at 2 by lia.
    rewrite Nat.mod_add by exact HL. rewrite Nat.mod_small by lia. reflexivity.
Qed.

Lemma wrap_extend_in : forall l n x, In x (wrap_extend l n) -> In x l.
Proof.
  intros l n x H. destruct l as [|y l]; [exact H|]. unfold wrap_extend in H.
  apply in_app_or in H. destruct H as [H|H].
  - apply in_concat in H. destruct H as (l' & Hl' & Hx). apply repeat_spec in Hl'. now subst.
  - rewrite <- (firstn_skipn (n mod length (y :: l)) (y :: l)). apply in_or_app. now left.
Qed.

(* ---- flop ---------------------------------------------------------------------- *)
(* for a non-empty argument list: as many rows as the longest column; row i, column j is
   element i modulo its length of column j (an empty column yields []) *)
Definition wrap_at (col : list arg) (i : nat) : arg :=
  match col with [] => Lst [] | _ => nth (i mod length col) col (Lst []) end.

Lemma flop_length : forall lst, lst <> [] ->
  length (flop lst) = list_max (map (fun x => length (as_list x)) lst).
Proof.
  intros lst H. unfold flop. destruct lst as [|x r]; [congruence|].
  cbn [map]. rewrite map_length, seq_length. f_equal.
  change (length (as_list x) :: map (@length arg) (map as_list r))
    with (map (@length arg) (map as_list (x :: r))).
  now rewrite map_map.
Qed.
Lemma flop_row : forall lst i, lst <> [] -> i < length (flop lst) ->
  nth_error (flop lst) i = Some (map (fun x => wrap_at (as_list x) i) lst).
Proof.
  intros lst i H Hi. unfold flop in *.
  destruct lst as [|x r]; [congruence|]. cbn [map] in *.
  rewrite map_length, seq_length in Hi.
  erewrite map_nth_error; [|apply nth_error_nth' with (d := 0); now rewrite seq_length].
  rewrite seq_nth by exact Hi. simpl Nat.add. f_equal.
  change (as_list x :: map as_list r) with (map as_list (x :: r)). rewrite map_map.
  reflexivity.
Qed.

(* ---- list_binop ------------------------------------------------------------------ *)
Lemma mapM_ext_in : forall A B (f g : A -> M B) l st,
  (forall x s, In x l -> f x s = g x s) -> mapM f l st = mapM g l st.
Proof.
  induction l as [|x l IH]; intros st H; simpl; [reflexivity|]. unfold bind.
  rewrite H by now left. destruct (g x st) as [y s1|e]; [|reflexivity].
  rewrite (IH s1); [reflexivity|]. intros; apply H; now right.
Qed.

Lemma items_sdepth : forall a x, In x (items a) -> sdepth x < sdepth a.
Proof.
  intros a x H. destruct a as [s|l|l]; simpl in H; [contradiction| |];
    (assert (sdepth x <= list_max (map sdepth l)) by (apply list_max_ge; now apply in_map); simpl; lia).
Qed.
Lemma sdepth_untuple : forall x, sdepth (untuple x) = sdepth x.
Proof. intros [s|[|y l]|l]; reflexivity. Qed.

Section BinopLaw.
  Variable op2 : arg -> arg -> M arg.

  (* the operands after wrap extension *)
  Definition wrapped_a (a b : arg) : list arg :=
    if length (items b) <=? length (items a) then items a else wrap_extend (items a) (length (items b)).
  Definition wrapped_b (a b : arg) : list arg :=
    if length (items b) <=? length (items a) then wrap_extend (items b) (length (items a)) else items b.

  Lemma wrapped_a_depth : forall a b x, In x (wrapped_a a b) -> sdepth x < sdepth a.
  Proof.
    intros a b x Hx. apply items_sdepth. unfold wrapped_a in Hx.
    destruct (_ <=? _); [exact Hx|eapply wrap_extend_in; eauto].
  Qed.
  Lemma wrapped_b_depth : forall a b y, In y (wrapped_b a b) -> sdepth y < sdepth b.
  Proof.
    intros a b y Hy. apply items_sdepth. unfold wrapped_b in Hy.
    destruct (_ <=? _); [eapply wrap_extend_in; eauto|exact Hy].
  Qed.

  Lemma list_binop_f_unfold : forall n a b t,
    list_binop_f op2 (S n) a b t =
    match is_seq a, is_seq b with
    | true, true =>
      if existsb is_seq (wrapped_a a b) || existsb is_seq (wrapped_b a b) then
        bind (loop (fun i => match nth_error (wrapped_a a b) i, nth_error (wrapped_b a b) i with
                             | Some x, Some y => list_binop_f op2 n (untuple x) (untuple y) (elem_kind x y)
                             | _, _ => raise IndexError
                             end) 0 (length (wrapped_a a b)))
             (fun r => ret (mk t r))
      else bind (mapM (fun p => op2 (fst p) (snd p)) (combine (wrapped_a a b) (wrapped_b a b)))
                (fun r => ret (mk t r))
    | true, false => bind (mapM (fun x => list_binop_f op2 n x b (kind_of x)) (items a)) (fun r => ret (mk t r))
    | false, true => bind (mapM (fun y => list_binop_f op2 n a y (kind_of y)) (items b)) (fun r => ret (mk t r))
    | false, false => op2 a b
    end.
  Proof. reflexivity. Qed.

  Lemma list_binop_f_stable : forall n m a b t st,
    sdepth a + sdepth b < n -> sdepth a + sdepth b < m ->
    list_binop_f op2 n a b t st = list_binop_f op2 m a b t st.
  Proof.
    induction n as [|n IH]; intros m a b t st Hn Hm; [lia|].
    destruct m as [|m]; [lia|]. rewrite !list_binop_f_unfold.
    destruct (is_seq a) eqn:Ea, (is_seq b) eqn:Eb; try reflexivity.
    - destruct (existsb is_seq (wrapped_a a b) || existsb is_seq (wrapped_b a b)); [|reflexivity].
      unfold bind.
      rewrite (loop_ext _ _ (fun i => match nth_error (wrapped_a a b) i, nth_error (wrapped_b a b) i with
                                     | Some x, Some y => list_binop_f op2 m (untuple x) (untuple y) (elem_kind x y)
                                     | _, _ => raise IndexError end)); [reflexivity|].
      intros j s _. destruct (nth_error (wrapped_a a b) j) as [x|] eqn:Ex; [|reflexivity].
      destruct (nth_error (wrapped_b a b) j) as [y|] eqn:Ey; [|reflexivity].
      apply nth_error_In in Ex, Ey. apply wrapped_a_depth in Ex. apply wrapped_b_depth in Ey.
      apply IH; rewrite !sdepth_untuple; lia.
    - unfold bind. rewrite (mapM_ext_in _ _ _ (fun x => list_binop_f op2 m x b (kind_of x))); [reflexivity|].
      intros x s Hx. apply items_sdepth in Hx. apply IH; lia.
    - unfold bind. rewrite (mapM_ext_in _ _ _ (fun y => list_binop_f op2 m a y (kind_of y))); [reflexivity|].
      intros y s Hy. apply items_sdepth in Hy. apply IH; lia.
  Qed.

  (* fuel-free recursive characterisation of list_binop *)
  Lemma list_binop_eq : forall a b t st,
    list_binop op2 a b t st =
    (match is_seq a, is_seq b with
     | true, true =>
       if existsb is_seq (wrapped_a a b) || existsb is_seq (wrapped_b a b) then
         bind (loop (fun i => match nth_error (wrapped_a a b) i, nth_error (wrapped_b a b) i with
                              | Some x, Some y => list_binop op2 (untuple x) (untuple y) (elem_kind x y)
                              | _, _ => raise IndexError
                              end) 0 (length (wrapped_a a b)))
              (fun r => ret (mk t r))
       else bind (mapM (fun p => op2 (fst p) (snd p)) (combine (wrapped_a a b) (wrapped_b a b)))
                 (fun r => ret (mk t r))
     | true, false => bind (mapM (fun x => list_binop op2 x b (kind_of x)) (items a)) (fun r => ret (mk t r))
     | false, true => bind (mapM (fun y => list_binop op2 a y (kind_of y)) (items b)) (fun r => ret (mk t r))
     | false, false => op2 a b
     end) st.
  Proof.
    intros a b t st. unfold list_binop at 1. rewrite list_binop_f_unfold.
    destruct (is_seq a) eqn:Ea, (is_seq b) eqn:Eb; try reflexivity.
    - destruct (existsb is_seq (wrapped_a a b) || existsb is_seq (wrapped_b a b)); [|reflexivity].
      unfold bind.
      rewrite (loop_ext _ _ (fun i => match nth_error (wrapped_a a b) i, nth_error (wrapped_b a b) i with
                                     | Some x, Some y => list_binop op2 (untuple x) (untuple y) (elem_kind x y)
                                     | _, _ => raise IndexError end)); [reflexivity|].
      intros j s _. destruct (nth_error (wrapped_a a b) j) as [x|] eqn:Ex; [|reflexivity].
      destruct (nth_error (wrapped_b a b) j) as [y|] eqn:Ey; [|reflexivity].
      apply nth_error_In in Ex, Ey. apply wrapped_a_depth in Ex. apply wrapped_b_depth in Ey.
      unfold list_binop. apply list_binop_f_stable; rewrite !sdepth_untuple; lia.
    - unfold bind. rewrite (mapM_ext_in _ _ _ (fun x => list_binop op2 x b (kind_of x))); [reflexivity|].
      intros x s Hx. apply items_sdepth in Hx. unfold list_binop. apply list_binop_f_stable; lia.
    - unfold bind. rewrite (mapM_ext_in _ _ _ (fun y => list_binop op2 a y (kind_of y))); [reflexivity|].
      intros y s Hy. apply items_sdepth in Hy. unfold list_binop. apply list_binop_f_stable; lia.
  Qed.

  (* wrap-around: both wrapped operands have the length of the longer one and element i of
     each is element i modulo its length of the original *)
  Lemma wrapped_spec : forall a b, items a <> [] -> items b <> [] ->
    length (wrapped_a a b) = Nat.max (length (items a)) (length (items b)) /\
    length (wrapped_b a b) = Nat.max (length (items a)) (length (items b)) /\
    forall i, i < Nat.max (length (items a)) (length (items b)) ->
      nth_error (wrapped_a a b) i = nth_error (items a) (i mod length (items a)) /\
      nth_error (wrapped_b a b) i = nth_error (items b) (i mod length (items b)).
  Proof.
    intros a b Ha Hb. unfold wrapped_a, wrapped_b.
    destruct (length (items b) <=? length (items a)) eqn:E.
    - apply Nat.leb_le in E. rewrite Nat.max_l by exact E.
      rewrite wrap_extend_length by exact Hb. repeat split; try lia.
      + rewrite Nat.mod_small by lia. reflexivity.
      + apply wrap_extend_nth; [lia|exact Hb].
    - apply Nat.leb_gt in E. rewrite Nat.max_r by lia.
      rewrite wrap_extend_length by exact Ha. repeat split; try lia.
      + apply wrap_extend_nth; [lia|exact Ha].
      + rewrite Nat.mod_small by lia. reflexivity.
  Qed.
End BinopLaw.

(* ---- Out: no literal zero survives _replace_zeroes_with_silence ------------------------ *)
Section ArgInd.
  Variable P : arg -> Prop.
  Hypothesis HS : forall a, P (Scalar a).
  Hypothesis HT : forall l, P (Tuple l).
  Hypothesis HL : forall l, Forall P l -> P (Lst l).
  Fixpoint arg_list_ind (a : arg) : P a :=
    match a with
    | Scalar x => HS x
    | Tuple l => HT l
    | Lst l => HL l ((fix go (l : list arg) : Forall P l :=
                        match l with
                        | [] => Forall_nil P
                        | x :: r => Forall_cons x (arg_list_ind x) (go r)
                        end) l)
    end.
End ArgInd.

Definition is_dc (dc : Z) (u : unit_rec) : Prop := ucls u = dc /\ uargs u = [Scalar (K 0%Z)].

Definition go_rz (dc : Z) (silence : arg) : list arg -> M (list arg) :=
  fix go (l : list arg) : M (list arg) :=
    match l with
    | [] => ret []
    | x :: r =>
      bind (match x with
            | Scalar (K 0%Z) => ret silence
            | Lst _ => rz dc x
            | _ => ret x
            end) (fun x' => bind (go r) (fun r' => ret (x' :: r')))
    end.
Lemma rz_lst_unfold : forall dc l,
  rz dc (Lst l) = bind (multi_new (new1_plain dc 1) [Scalar (K 0%Z)])
                       (fun silence => bind (go_rz dc silence l) (fun l' => ret (Lst l'))).
Proof. reflexivity. Qed.

Definition rz_post (dc : Z) (a : arg) (st : state) (a' : arg) (st' : state) : Prop :=
  (is_lst a = true -> has_zero a' = false) /\ is_lst a' = is_lst a /\
  length (items a') = length (items a) /\
  exists new, st' = st ++ new /\ Forall (is_dc dc) new.

Lemma go_rz_spec : forall dc sil l,
  has_zero sil = false ->
  Forall (fun x => forall st a' st', rz dc x st = Ok a' st' -> rz_post dc x st a' st') l ->
  forall st l' st', go_rz dc sil l st = Ok l' st' ->
  existsb has_zero l' = false /\ length l' = length l /\
  exists new, st' = st ++ new /\ Forall (is_dc dc) new.
Proof.
  intros dc sil l Hsil HF. induction HF as [|x r Hx _ IH]; intros st l' st' H.
  - simpl in H. inversion H; subst. repeat split; auto. exists []. now rewrite app_nil_r.
  - cbn [go_rz] in H. unfold bind at 1 in H.
    destruct ((match x with
               | Scalar (K 0%Z) => ret sil
               | Lst _ => rz dc x
               | _ => ret x end) st) as [x' s1|e] eqn:E1; [|discriminate].
    assert (has_zero x' = false /\ exists n1, s1 = st ++ n1 /\ Forall (is_dc dc) n1) as (Hz & n1 & -> & P1).
    { destruct x as [[z|u c|s]|l|l].
      - destruct z; inversion E1; subst; (split; [assumption || reflexivity|]; exists []; now rewrite app_nil_r).
      - inversion E1; subst. split; [reflexivity|]. exists []; now rewrite app_nil_r.
      - inversion E1; subst. split; [reflexivity|]. exists []; now rewrite app_nil_r.
      - inversion E1; subst. split; [reflexivity|]. exists []; now rewrite app_nil_r.
      - destruct (Hx _ _ _ E1) as (Hz & _ & _ & n1 & -> & P1). split; [now apply Hz|]. eauto. }
    unfold bind in H. fold (go_rz dc sil) in H.
    destruct (go_rz dc sil r (st ++ n1)) as [r' s2|e] eqn:E2; [|discriminate].
    inversion H; subst. destruct (IH _ _ _ E2) as (Hz2 & L2 & n2 & -> & P2).
    split; [simpl; now rewrite Hz, Hz2|]. split; [simpl; now rewrite L2|].
    exists (n1 ++ n2). rewrite app_assoc. split; [reflexivity|]. now apply Forall_app.
Qed.

Lemma rz_spec : forall dc a st a' st', rz dc a st = Ok a' st' -> rz_post dc a st a' st'.
Proof.
  intros dc a. induction a as [s|l|l IH] using arg_list_ind; intros st a' st' H.
  - simpl in H. inversion H; subst. unfold rz_post. repeat split; try discriminate; auto.
    exists []. now rewrite app_nil_r.
  - simpl in H. inversion H; subst. unfold rz_post. repeat split; try discriminate; auto.
    exists []. now rewrite app_nil_r.
  - rewrite rz_lst_unfold in H. unfold bind at 1 in H.
    change (multi_new (new1_plain dc 1) [Scalar (K 0%Z)] st)
      with (Ok (A := arg) (Scalar (U (length st) 0)) (st ++ [mkUnit dc [Scalar (K 0%Z)]])) in H.
    unfold bind in H.
    destruct (go_rz dc (Scalar (U (length st) 0)) l (st ++ [mkUnit dc [Scalar (K 0%Z)]])) as [l' s2|e] eqn:E;
      [|discriminate].
    inversion H; subst.
    destruct (go_rz_spec dc (Scalar (U (length st) 0)) l eq_refl IH _ _ _ E) as (Hz & L & n2 & -> & P2).
    unfold rz_post. split; [intros _; exact Hz|]. split; [reflexivity|]. split; [exact L|].
    exists ([mkUnit dc [Scalar (K 0%Z)]] ++ n2). rewrite app_assoc. split; [reflexivity|].
    apply Forall_app. split; [|exact P2]. constructor; [|constructor]. split; reflexivity.
Qed.

(* Out.ar: every Out unit gets the bus followed by channels in which no literal zero is left;
   the only other units created are DC(0) silence units and the Out units themselves *)
Lemma out_ar_spec : forall dc out bus output st r st',
  out_ar dc out bus output st = Ok r st' ->
  exists chans silences outs,
    length chans = length (as_list output) /\ existsb has_zero chans = false /\
    Forall (is_dc dc) silences /\
    multi_new (new1_plain out 1) (bus :: chans) (st ++ silences) = Ok r st' /\
    st' = st ++ silences ++ outs /\ length outs = count_calls (bus :: chans) /\
    Forall (flat_vector out) outs.
Proof.
  intros dc out bus output st r st' H. unfold out_ar, replace_zeroes in H. unfold bind at 1 2 in H.
  destruct (rz dc (Lst (as_list output)) st) as [a' s1|e] eqn:E; [|discriminate].
  destruct (rz_spec _ _ _ _ _ E) as (Hz & Hl & Hlen & sil & -> & Psil).
  unfold ret in H. destruct a' as [s|l|l]; try discriminate Hl.
  simpl in H, Hlen. specialize (Hz eq_refl). simpl in Hz.
  destruct (multi_new_units _ _ _ _ _ _ H) as (outs & -> & Lo & Po).
  exists l, sil, outs. rewrite app_assoc. auto 10.
Qed.
