(* C01_opt.v -- SynthDef._optimize_graph as a whole: the state built by the graph function satisfies the
   invariant once _init_topo_sort has run (desc_inv holds initially), the loop over the children preserves
   it (C01_pass.v), so desc_inv holds after every step and at the end, for every program. *)
From Coq Require Import ZArith QArith List String Bool Arith Lia Setoid Permutation.
Import ListNotations.
Require Import SC3.model.Graph SC3.gen.Gen_opcodes SC3.proofs.C01_inv SC3.proofs.C01_inv2 SC3.proofs.C01_inv3
               SC3.proofs.C01_pass SC3.proofs.C01_built SC3.proofs.C01_init.
Open Scope string_scope.
Open Scope nat_scope.
Open Scope list_scope.

Lemma live_map_some : forall s l, children s = map Some l -> live s = l.
Proof. intros s l H. unfold live. rewrite H. clear H. induction l as [|x t IH]; simpl; auto. f_equal; exact IH. Qed.
Lemma pos_seq : forall n u, u < n -> pos u (seq 0 n) = Some u.
Proof.
  intros n u H. assert (G : forall m k v, v < m -> pos (k + v) (seq k m) = Some v).
  { clear. induction m as [|m IH]; intros k u Hu; [lia|]. simpl.
    destruct u as [|u'].
    - rewrite Nat.add_0_r, Nat.eqb_refl. auto.
    - assert (E : Nat.eqb (k + S u') k = false) by (apply Nat.eqb_neq; lia). rewrite E.
      replace (k + S u') with (S k + u') by lia. rewrite IH by lia. auto. }
  apply (G n 0 u H).
Qed.

Lemma nth_error_seq : forall m k i, nth_error (seq k m) i = if i <? m then Some (k + i) else None.
Proof.
  induction m as [|m IH]; intros k i; simpl.
  - destruct i; reflexivity.
  - destruct i as [|i]; simpl; [rewrite Nat.add_0_r; reflexivity|].
    rewrite IH. change (S i <? S m) with (i <? m). destruct (i <? m); auto. f_equal. lia.
Qed.
Lemma slot_seq : forall n i u, nth_error (map Some (seq 0 n)) i = Some (Some u) <-> (i = u /\ u < n).
Proof.
  intros n i u. rewrite nth_error_map, nth_error_seq. simpl. destruct (i <? n) eqn:E; simpl.
  - apply Nat.ltb_lt in E. split; [intro H; injection H as <-; auto | intros [-> _]; auto].
  - apply Nat.ltb_ge in E. split; [discriminate | intros [-> H]; lia].
Qed.

Lemma input_sources_In : forall s C x, In x (input_sources s C) <->
  exists ch X, In (O x ch) (ins C) /\ get_unit s x = Some X /\ isugen X = true.
Proof.
  intros s C x. unfold input_sources. rewrite in_flat_map. split.
  - intros ([q|v ch] & Hin & H); [contradiction|]. destruct (get_unit s v) as [V|] eqn:E; [|contradiction].
    destruct (isugen V) eqn:Ei; [|contradiction]. destruct H as [<-|[]]. exists ch, V. auto.
  - intros (ch & X & Hin & G & I). exists (O x ch). split; auto. rewrite G, I. left; auto.
Qed.

Lemma unit_ok_set_dref : forall U d, unit_ok (set_dref U d) = unit_ok U.
Proof. intros [] d. reflexivity. Qed.

Lemma wf_not_tracked : forall U, iswf U = true -> tracked U = false.
Proof. intros U H. unfold tracked. rewrite H. destruct (isugen U), (multi U); reflexivity. Qed.

(* desc_inv holds when the optimiser starts *)
Theorem built_init_inv : forall s, Built s ->
  exists s0 ante, init_topo s = Ok (s0, ante) /\ Inv (with_rewriting s0 true) [] /\
                  List.length (children s0) = List.length (units s0) /\ InitSpec s s0 ante.
Proof.
  intros s B. destruct B as [B_rw0 B_children0 B_unit0 B_ins0 B_wfa0 B_wfugens0].
  set (n := List.length (units s)) in *.
  assert (Hl : live s = seq 0 n) by (apply live_map_some; auto).
  assert (BU1 : forall u U, get_unit s u = Some U -> uid U = u) by (intros u U G; destruct (B_unit0 u U G) as (A1 & A2 & A3); auto).
  assert (BU2 : forall u U, get_unit s u = Some U -> sidx U = Z.of_nat u) by (intros u U G; destruct (B_unit0 u U G) as (A1 & A2 & A3); auto).
  assert (BU3 : forall u U, get_unit s u = Some U -> unit_ok U = true) by (intros u U G; destruct (B_unit0 u U G) as (A1 & A2 & A3); auto).
  assert (Huid : uid_ok s) by exact BU1.
  assert (Hall : forall u, In u (live s) <-> u < n) by (intro u; rewrite Hl, in_seq; lia).
  assert (Hsrcs : forall c C g, get_unit s c = Some C -> In g (srcs s C) -> g < c).
  { intros c C g GC Hg. unfold srcs in Hg. apply in_app_iff in Hg. destruct Hg as [Hg|Hg].
    - apply input_sources_In in Hg. destruct Hg as (ch & X & Hin & _). destruct (B_ins0 c C g ch GC Hin); auto.
    - destruct (B_wfa0 c C GC) as (w & Hw & Hall'). rewrite Hw in Hg. destruct (Hall' g Hg); auto. }
  destruct (init_topo_spec s Huid) as (s0 & ante & E & IS).
  { rewrite Hl. apply seq_NoDup. }
  { intros c Hc. apply Hall in Hc. destruct (get_some s c Hc) as [C GC]. exists C. split; auto.
    intros g Hg. apply Hall. pose proof (Hsrcs c C g GC Hg). lia. }
  exists s0, ante. split; auto.
  pose proof IS as IS'. destruct IS as [IS_children0 IS_rw0 IS_wfu0 IS_len0 IS_get0 IS_setlen0 IS_desc0 IS_nodup0 IS_keys0 IS_ante0].
  set (r0 := List.length (sets s)) in *.
  assert (Hget : forall u U, get_unit s u = Some U -> get_unit s0 u = Some (set_dref U (Some (r0 + u)))).
  { intros u U G. rewrite IS_get0, G, Hl, pos_seq; auto. eapply get_lt; eauto. }
  assert (Hget' : forall u U', get_unit s0 u = Some U' -> exists U, get_unit s u = Some U /\ U' = set_dref U (Some (r0 + u))).
  { intros u U' G. destruct (get_unit s u) as [U|] eqn:E0.
    - exists U. split; auto. rewrite (Hget u U E0) in G. congruence.
    - rewrite IS_get0, E0 in G. discriminate. }
  assert (Hch : children s0 = map Some (seq 0 n)) by congruence.
  assert (Hslot : forall i u, slot (with_rewriting s0 true) i u <-> (i = u /\ u < n)).
  { intros i u. unfold slot. simpl. rewrite Hch. apply slot_seq. }
  assert (Hliv : forall u, liv (with_rewriting s0 true) u <-> u < n).
  { intro u. unfold liv. split; [intros [i Hi]; apply Hslot in Hi; tauto | intro; exists u; apply Hslot; auto]. }
  assert (Hreads : forall c v, reads (with_rewriting s0 true) c v <-> reads s c v).
  { intros c v. unfold reads. split.
    - intros (C' & ch & G & I). destruct (Hget' c C' G) as (C & GC & ->). exists C, ch. auto.
    - intros (C & ch & G & I). exists (set_dref C (Some (r0 + c))), ch. split; [apply Hget; auto | auto]. }
  split; [|split; [rewrite IS_children0, B_children0, map_length, seq_length, IS_len0; auto | exact IS']].
  constructor.
  - reflexivity.
  - intros u U' G. destruct (Hget' u U' G) as (U & GU & ->). simpl. apply BU1; auto.
  - intros u U' G. destruct (Hget' u U' G) as (U & GU & ->). rewrite unit_ok_set_dref. eapply BU3; eauto.
  - intros u U' v ch G I. destruct (Hget' u U' G) as (U & GU & ->). simpl in I.
    destruct (B_ins0 u U v ch GU I) as [A _]. simpl. rewrite IS_len0. pose proof (get_lt _ _ _ GU). fold n in H. lia.
  - intros i u Hs. apply Hslot in Hs. destruct Hs as [-> Hu]. destruct (get_some s u Hu) as [U GU].
    exists (set_dref U (Some (r0 + u))), (r0 + u). split; [apply Hget; auto|]. split; [simpl; apply BU2; auto | reflexivity].
  - intros u U' r G Dr. destruct (Hget' u U' G) as (U & GU & ->). simpl in Dr. injection Dr as <-.
    pose proof (get_lt _ _ _ GU) as Hu. fold n in Hu. simpl. rewrite IS_setlen0, Hl, seq_length, Hch, map_length, seq_length.
    rewrite (BU2 u U GU). fold r0. lia.
  - intros u v U' V' r Lu Lv GU GV DU DV. destruct (Hget' u U' GU) as (U & _ & ->). destruct (Hget' v V' GV) as (V & _ & ->).
    simpl in DU, DV. injection DU as <-. injection DV as E0. lia.
  - intros u v U' V' r GU GV DU DV. destruct (Hget' u U' GU) as (U & GU0 & ->). destruct (Hget' v V' GV) as (V & GV0 & ->).
    simpl in DU, DV. injection DU as <-. injection DV as E0. assert (u = v) by lia. subst v.
    rewrite GU0 in GV0. injection GV0 as <-. auto.
  - intros u U' v ch G Dn I. destruct (Hget' u U' G) as (U & GU & ->). simpl in I.
    destruct (B_ins0 u U v ch GU I) as [A (V & GV & _)].
    exists (set_dref V (Some (r0 + v))). split; [apply Hget; auto|]. split; [simpl; discriminate|].
    simpl. rewrite (BU2 u U GU), (BU2 v V GV). lia.
  - intros u U' v ch V' G I GV MV. destruct (Hget' u U' G) as (U & GU & ->). destruct (Hget' v V' GV) as (V & GV0 & ->).
    simpl in I, MV. destruct (B_ins0 u U v ch GU I) as [_ (V2 & GV2 & Hm & _)]. rewrite GV0 in GV2. injection GV2 as <-. auto.
  - intros c C' v ch Lc _ G I. destruct (Hget' c C' G) as (C & GC & ->). simpl in I.
    destruct (B_ins0 c C v ch GC I) as [A _]. apply Hliv. apply Hliv in Lc. lia.
  - intros x X' c Lx _ GX IX Lc _ Hr. destruct (Hget' x X' GX) as (X & GX0 & ->).
    apply Hliv in Lx. apply Hliv in Lc. apply Hreads in Hr. destruct Hr as (C & ch & GC & I).
    unfold dsetf. simpl. apply (IS_desc0 x x).
    + rewrite Hl. apply pos_seq; auto.
    + split; [apply Hall; auto|]. exists C. split; auto. unfold srcs. apply in_or_app. left.
      apply input_sources_In. exists ch, X. auto.
  - intros x X' c Lx _ GX TX Hc. destruct (Hget' x X' GX) as (X & GX0 & ->).
    apply Hliv in Lx. unfold dsetf in Hc. simpl in Hc.
    apply (IS_desc0 x x) in Hc; [|rewrite Hl; apply pos_seq; auto].
    destruct Hc as (Lc & C & GC & Hin). split; [apply Hliv; apply Hall; auto|].
    apply Hreads. unfold srcs in Hin. apply in_app_iff in Hin. destruct Hin as [Hin|Hin].
    + apply input_sources_In in Hin. destruct Hin as (ch & X2 & I & _). exists C, ch. auto.
    + exfalso. destruct (B_wfa0 c C GC) as (w & Hw & Hall'). rewrite Hw in Hin. destruct (Hall' x Hin) as (_ & X2 & GX2 & WX).
      rewrite GX0 in GX2. injection GX2 as <-. simpl in TX.
      assert (tracked X = false) by (apply wf_not_tracked; auto).
      unfold tracked in *. simpl in TX. congruence.
  - intros y [].
Qed.

(* ---- width-first antecedents stay live, earlier and width-first along the pass *)
Definition WfaInv (s : st) : Prop :=
  forall c C, liv s c -> get_unit s c = Some C ->
  exists w, wfa C = Some w /\ forall x, In x w ->
    exists X, get_unit s x = Some X /\ liv s x /\ iswf X = true /\ (sidx X < sidx C)%Z.

Lemma wf_not_pure : forall U, unit_ok U = true -> iswf U = true -> pure U = false /\ tracked U = false.
Proof.
  intros U H W. split; [|apply wf_not_tracked; auto].
  unfold unit_ok in H. apply andb_true_iff in H. destruct H as [_ H].
  assert (Tr : tracked U = false) by (apply wf_not_tracked; auto).
  destruct (ukind U); rewrite ?Tr in H; simpl in H; try discriminate;
    rewrite W in H; simpl in H; destruct (pure U); auto; discriminate.
Qed.

Lemma astep_wfa : forall x y, astep x y -> WfaInv (fst x) -> WfaInv (fst y).
Proof.
  intros x y H W. destruct H; simpl in *; auto.
  - (* remove *)
    destruct (I_dying s D H u H0) as (Lu & (U & GU & _ & PU) & _).
    destruct (remove_ugen_eq s D u U H Lu GU) as [Heq _].
    pose proof (liv_after_remove s D u U) as Hl.
    intros c C Lc GC. apply Hl in Lc; auto. destruct Lc as [Lc Nc]. rewrite Heq in GC.
    destruct (W c C Lc GC) as (w & Hw & Hall). exists w. split; auto. intros x Hx.
    destruct (Hall x Hx) as (X & GX & LX & WX & SX). exists X. split; [rewrite Heq; auto|]. split; auto.
    apply Hl; auto. split; auto. intro; subst x. rewrite GU in GX. injection GX as <-.
    destruct (wf_not_pure U (I_ok s D H u U GU) WX). congruence.
  - (* rewrite *)
    destruct H4 as [a UA R HA La Na TA Hra Hone HuR TR OkR In1 In2 In3 RV RC].
    assert (TS : tracked Self = true) by (apply tracked_of_kind; [eapply I_ok; eauto|auto]).
    assert (Hold : forall x X, get_unit s x = Some X -> exists X', get_unit s' x = Some X' /\ same_meta X X').
    { intros x X G. destruct (rw_get_old s D self a Self UA R s' H RV x X G) as (X' & A & B & _). eauto. }
    assert (Hliv : forall x, liv s' x <-> x = List.length (units s) \/ (liv s x /\ x <> a /\ x <> self)).
    { intro x. eapply (rw_liv' s D self a Self UA R s'); eauto. }
    assert (Hmem : forall C w, liv s (uid C) -> get_unit s (uid C) = Some C -> wfa C = Some w -> forall C', sidx C' = sidx C ->
              forall x, In x w -> exists X, get_unit s' x = Some X /\ liv s' x /\ iswf X = true /\ (sidx X < sidx C')%Z).
    { intros C w LC GC Hw C' ES x Hx. destruct (W (uid C) C LC GC) as (w' & Hw' & Hall). rewrite Hw in Hw'. injection Hw' as <-.
      destruct (Hall x Hx) as (X & GX & LX & WX & SX). destruct (Hold x X GX) as (X' & GX' & SM).
      destruct SM as (_ & _ & E2 & _ & _ & _ & _ & _ & _ & _ & _ & E11 & _).
      exists X'. split; auto. split; [|split; [congruence | rewrite E2, ES; auto]].
      apply Hliv. right. split; auto.
      split; intro; subst x.
      - rewrite HA in GX. injection GX as <-. apply wf_not_tracked in WX. congruence.
      - rewrite H0 in GX. injection GX as <-. apply wf_not_tracked in WX. congruence. }
    intros c C' Lc GC'. apply Hliv in Lc. destruct Lc as [->|(Lc & N1 & N2)].
    + rewrite (V_new _ _ _ _ _ _ _ _ RV) in GC'. injection GC' as <-. simpl.
      destruct (W self Self H1 H0) as (w & Hw & _). exists w. split; auto.
      assert (US : uid Self = self) by (apply (I_uid s D H); auto).
      apply (Hmem Self w); try rewrite US; auto.
    + destruct (liv_get s D c H Lc) as (C & r & GC & _). destruct (Hold c C GC) as (C2 & G2 & SM).
      rewrite GC' in G2. injection G2 as <-. destruct SM as (_ & _ & E2 & E3 & _).
      destruct (W c C Lc GC) as (w & Hw & _). exists w. split; [congruence|].
      assert (UC : uid C = c) by (apply (I_uid s D H); auto).
      apply (Hmem C w); try rewrite UC; auto.
Qed.
Lemma asteps_wfa : forall x y, asteps x y -> WfaInv (fst x) -> WfaInv (fst y).
Proof. intros x y H. induction H; auto. intro. apply IHasteps. eapply astep_wfa; eauto. Qed.

(* ---- SynthDef._index_ugens *)
Definition ix_step : st * Z -> nat -> st * Z :=
  fun '(sa, i) (u : nat) =>
  match get_unit sa u with
  | Some U => (put_unit sa (set_sidx U i), (i + 1)%Z)
  | None => (sa, (i + 1)%Z) end.
Lemma index_ugens_eq : forall s, index_ugens s = fst (fold_left ix_step (live s) (s, 0%Z)).
Proof. reflexivity. Qed.

Lemma ix_fold_spec : forall l s i0, uid_ok s -> NoDup l -> (forall u, In u l -> exists U, get_unit s u = Some U) ->
  let s' := fst (fold_left ix_step l (s, i0)) in
  uid_ok s' /\ children s' = children s /\ rewriting s' = rewriting s /\ wfugens s' = wfugens s /\ sets s' = sets s /\
  controls s' = controls s /\ List.length (units s') = List.length (units s) /\
  forall u, get_unit s' u = match get_unit s u with
                            | Some U => Some (match pos u l with
                                              | Some i => set_sidx U (i0 + Z.of_nat i)%Z
                                              | None => U end)
                            | None => None end.
Proof.
  induction l as [|x t IH]; intros s i0 Hu Hnd Hex; simpl.
  - repeat split; auto. intro u. destruct (get_unit s u); auto.
  - inversion Hnd as [|? ? Hnot Hnd']; subst.
    destruct (Hex x (or_introl eq_refl)) as [X GX]. rewrite GX.
    set (s1 := put_unit s (set_sidx X i0)).
    pose proof (Hu x X GX) as HidX.
    assert (Hid' : uid (set_sidx X i0) = x) by (simpl; auto).
    assert (G1 : forall u, get_unit s1 u = if Nat.eqb u x then Some (set_sidx X i0) else get_unit s u).
    { intro u. unfold s1. destruct (Nat.eqb u x) eqn:E.
      - apply Nat.eqb_eq in E. subst u. pose proof (get_put_same s (set_sidx X i0)) as Hp. rewrite Hid' in Hp. apply Hp. eapply get_lt; eauto.
      - apply Nat.eqb_neq in E. rewrite get_put_other by (rewrite Hid'; auto). reflexivity. }
    assert (U1 : uid_ok s1).
    { intros u U G. rewrite G1 in G. destruct (Nat.eqb u x) eqn:E.
      - apply Nat.eqb_eq in E. subst. injection G as <-. auto.
      - apply Hu; auto. }
    assert (Hex1 : forall u, In u t -> exists U, get_unit s1 u = Some U).
    { intros u Hin. rewrite G1. destruct (Nat.eqb u x); eauto. apply Hex. right; auto. }
    destruct (IH s1 (i0 + 1)%Z U1 Hnd' Hex1) as (A & B & C & D & E & F & L & G).
    split; [exact A|]. split; [rewrite B; reflexivity|]. split; [rewrite C; reflexivity|]. split; [rewrite D; reflexivity|].
    split; [rewrite E; reflexivity|]. split; [rewrite F; reflexivity|]. split; [rewrite L; unfold s1; apply units_put_length|].
    intro u. rewrite G, G1. destruct (Nat.eqb u x) eqn:Eux.
    + apply Nat.eqb_eq in Eux. subst u. rewrite GX.
      assert (pos x t = None). { destruct (pos x t) eqn:P; auto. exfalso. apply Hnot. apply pos_In. eauto. }
      rewrite H. rewrite Z.add_0_r. reflexivity.
    + destruct (get_unit s u); auto. destruct (pos u t); auto.
      f_equal. f_equal. lia.
Qed.

(* ---- the state handed to _collect_constants / _check_inputs / _topological_sort *)
Record Opt (s : st) (rho : nat -> Z) : Prop := mkOpt {
  O_rw : rewriting s = false;
  O_uid : uid_ok s;
  O_live : children s = map Some (live s) /\ NoDup (live s);
  O_unit : forall u, In u (live s) -> exists U, get_unit s u = Some U /\ unit_ok U = true;
  O_ins : forall c C v ch, In c (live s) -> get_unit s c = Some C -> In (O v ch) (ins C) ->
          In v (live s) /\ (rho v < rho c)%Z /\ (forall V, get_unit s v = Some V -> multi V = false -> ch = 0);
  O_wfa : forall c C, In c (live s) -> get_unit s c = Some C ->
          exists w, wfa C = Some w /\ forall x, In x w -> In x (live s) /\ (rho x < rho c)%Z /\
                                                  exists X, get_unit s x = Some X /\ iswf X = true
}.

Section Optimize.
Hypothesis Hplus : exists i, sc_spindex_opname T "+" = Some (i, "+").
Hypothesis Hminus : exists i, sc_spindex_opname T "-" = Some (i, "-").

Lemma Built_wfa_inv : forall s s0 ante, Built s -> InitSpec s s0 ante -> WfaInv (with_rewriting s0 true).
Proof.
  intros s s0 ante B IS c C' Lc GC'.
  destruct B as [B_rw0 B_children0 B_unit0 B_ins0 B_wfa0 B_wfugens0]. destruct IS as [A1 A2 A3 A4 A5 A6 A7 A8 A9 A10].
  set (n := List.length (units s)) in *.
  assert (Hl : live s = seq 0 n) by (apply live_map_some; auto).
  assert (Hget : forall u U, get_unit s u = Some U -> get_unit s0 u = Some (set_dref U (Some (List.length (sets s) + u)))).
  { intros u U G. rewrite A5, G, Hl, pos_seq; auto. eapply get_lt; eauto. }
  assert (G0 : get_unit s0 c = Some C') by exact GC'.
  destruct (get_unit s c) as [C|] eqn:GC; [|rewrite A5, GC in G0; discriminate].
  rewrite (Hget c C GC) in G0. injection G0 as <-.
  destruct (B_wfa0 c C GC) as (w & Hw & Hall). exists w. split; auto. intros x Hx.
  destruct (Hall x Hx) as (Hlt & X & GX & WX). exists (set_dref X (Some (List.length (sets s) + x))).
  split; [apply (Hget x X GX)|]. split.
  - exists x. unfold slot. simpl. rewrite A1, B_children0. apply slot_seq. split; auto. pose proof (get_lt _ _ _ GC). fold n in H. lia.
  - split; auto. simpl. destruct (B_unit0 c C GC) as (_ & S1 & _). destruct (B_unit0 x X GX) as (_ & S2 & _). rewrite S1, S2. lia.
Qed.

Lemma flat_nodup : forall (l : list (option nat)),
  (forall i j u, nth_error l i = Some (Some u) -> nth_error l j = Some (Some u) -> i = j) ->
  NoDup (flat_map olist l).
Proof.
  induction l as [|o t IH]; intro H; simpl; [constructor|].
  assert (Ht : NoDup (flat_map olist t)).
  { apply IH. intros i j u A B. assert (S i = S j) by (apply (H (S i) (S j) u); auto). lia. }
  destruct o as [u|]; simpl; auto. constructor; auto.
  intro Hin. apply in_flat_map in Hin. destruct Hin as (o & Ho & Hu). destruct o as [v|]; [|contradiction].
  destruct Hu as [->|[]]. apply In_nth_error in Ho. destruct Ho as [j Hj].
  assert (0 = S j) by (apply (H 0 (S j) u); auto). lia.
Qed.
Lemma live_nodup : forall s D, Inv s D -> NoDup (live s).
Proof. intros s D H. apply flat_nodup. intros i j u A B. eapply slot_unique; eauto. Qed.

Lemma set_sidx_same : forall U, set_sidx U (sidx U) = U.
Proof. intros []. reflexivity. Qed.
Lemma unit_ok_set_sidx : forall U i, unit_ok (set_sidx U i) = unit_ok U.
Proof. intros [] i. reflexivity. Qed.

(* the final state differs from the end of the pass only by the synth indices and the compacted children *)
Definition Reindexed (s2 s' : st) : Prop :=
  live s' = live s2 /\ rewriting s' = false /\ sets s' = sets s2 /\ controls s' = controls s2 /\
  forall u, exists i, get_unit s' u = match get_unit s2 u with Some U => Some (set_sidx U i) | None => None end.

Lemma Opt_of_Inv : forall s2 s', Inv s2 [] -> WfaInv s2 -> Reindexed s2 s' -> children s' = map Some (live s') ->
  Opt s' (fun u => match get_unit s2 u with Some U => sidx U | None => 0%Z end).
Proof.
  intros s2 s' HI HW (Hl & Hrw & _ & _ & Hg) Hch.
  assert (Hget : forall u U', get_unit s' u = Some U' -> exists U i, get_unit s2 u = Some U /\ U' = set_sidx U i).
  { intros u U' G. destruct (Hg u) as [i Hi]. rewrite G in Hi. destruct (get_unit s2 u) as [U|]; [|discriminate].
    injection Hi as ->. eauto. }
  assert (Hlv : forall u, In u (live s') <-> liv s2 u) by (intro u; rewrite Hl; apply live_In).
  constructor.
  - exact Hrw.
  - intros u U' G. destruct (Hget u U' G) as (U & i & GU & ->). simpl. apply (I_uid s2 [] HI); auto.
  - split; auto. rewrite Hl. eapply live_nodup; eauto.
  - intros u Hu. apply Hlv in Hu. destruct (liv_get s2 [] u HI Hu) as (U & r & GU & _). destruct (Hg u) as [i Hi]. rewrite GU in Hi.
    exists (set_sidx U i). split; auto. rewrite unit_ok_set_sidx. eapply I_ok; eauto.
  - intros c C' v ch Lc GC I. apply Hlv in Lc. destruct (Hget c C' GC) as (C & i & GC2 & ->). simpl in I.
    destruct (liv_get s2 [] c HI Lc) as (C0 & r & G0 & Dr). rewrite GC2 in G0. injection G0 as <-.
    split; [apply Hlv; eapply (I_inlive s2 [] HI c C); eauto|]. split.
    + rewrite GC2. destruct (I_rank s2 [] HI c C v ch GC2) as (V & GV & _ & Lt); auto; [congruence|]. rewrite GV. exact Lt.
    + intros V' GV' MV. destruct (Hget v V' GV') as (V & j & GV & ->). simpl in MV. eapply (I_ch s2 [] HI c C v ch V); eauto.
  - intros c C' Lc GC. apply Hlv in Lc. destruct (Hget c C' GC) as (C & i & GC2 & ->). simpl.
    destruct (HW c C Lc GC2) as (w & Hw & Hall). exists w. split; auto. intros x Hx.
    destruct (Hall x Hx) as (X & GX & LX & WX & SX). split; [apply Hlv; auto|]. split; [rewrite GX, GC2; auto|].
    destruct (Hg x) as [j Hj]. rewrite GX in Hj. exists (set_sidx X j). split; auto.
Qed.

Theorem optimize_ok : forall s, Built s ->
  exists s' ok s0 ante s2 rho, optimize T false true true s = Ok (s', ok) /\
    init_topo s = Ok (s0, ante) /\ Inv (with_rewriting s0 true) [] /\
    asteps (with_rewriting s0 true, []) (s2, []) /\ Inv s2 [] /\ WfaInv s2 /\ Reindexed s2 s' /\ Opt s' rho.
Proof.
  intros s B. destruct (built_init_inv s B) as (s0 & ante & E0 & HI1 & Hlen & IS).
  set (s1 := with_rewriting s0 true) in *.
  assert (HW1 : WfaInv s1) by (eapply Built_wfa_inv; eauto).
  assert (Hfuel : 2 * List.length (children s1) <= opt_fuel s1).
  { unfold opt_fuel. change (children s1) with (children s0). change (units s1) with (units s0). rewrite Hlen. nia. }
  destruct (opt_loop_ok T Hplus Hminus (opt_fuel s1) (live s1) s1 0 (desc_inv_ok s1) HI1 eq_refl Hfuel) as (s2 & ok & E2 & T2).
  pose proof (asteps_inv _ _ T2 HI1) as HI2. simpl in HI2.
  pose proof (asteps_wfa _ _ T2 HW1) as HW2. simpl in HW2.
  unfold optimize. rewrite E0. cbn [bind]. fold s1. rewrite E2. cbn [bind].
  set (s3 := with_rewriting s2 false). set (s4 := with_children s3 (map Some (live s3))).
  assert (Hl4 : live s4 = live s2) by (apply live_map_some; reflexivity).
  assert (R4 : Reindexed s2 s4).
  { split; auto. split; [reflexivity|]. split; [reflexivity|]. split; [reflexivity|].
    intro u. exists (match get_unit s2 u with Some U => sidx U | None => 0%Z end).
    change (get_unit s4 u) with (get_unit s2 u). destruct (get_unit s2 u); auto. rewrite set_sidx_same. auto. }
  destruct (Nat.eqb (List.length (children s3)) (List.length (children s4))).
  - exists s4, ok, s0, ante, s2, (fun u => match get_unit s2 u with Some U => sidx U | None => 0%Z end). split; [reflexivity|]. split; auto. split; auto. split; auto. split; auto. split; auto. split; auto.
    apply Opt_of_Inv; auto. simpl. rewrite Hl4. reflexivity.
  - assert (U4 : uid_ok s4) by (intros u U G; apply (I_uid s2 [] HI2); exact G).
    assert (N4 : NoDup (live s4)) by (rewrite Hl4; eapply live_nodup; eauto).
    assert (X4 : forall u, In u (live s4) -> exists U, get_unit s4 u = Some U).
    { intros u Hu. rewrite Hl4 in Hu. apply live_In in Hu. destruct (liv_get s2 [] u HI2 Hu) as (U & r & G & _). exists U. exact G. }
    pose proof (ix_fold_spec (live s4) s4 0%Z U4 N4 X4) as Hix. cbv zeta in Hix. rewrite <- index_ugens_eq in Hix.
    destruct Hix as (A1 & A2 & A3 & A4 & A5 & A6 & A7 & A8).
    assert (R5 : Reindexed s2 (index_ugens s4)).
    { split; [unfold live; rewrite A2; exact Hl4|]. split; [rewrite A3; reflexivity|]. split; [rewrite A5; reflexivity|].
      split; [rewrite A6; reflexivity|]. intro u. rewrite A8. change (get_unit s4 u) with (get_unit s2 u).
      destruct (get_unit s2 u) as [U|]; [|exists 0%Z; auto]. destruct (pos u (live s4)).
      - eexists; reflexivity.
      - exists (sidx U). rewrite set_sidx_same. auto. }
    exists (index_ugens s4), ok, s0, ante, s2, (fun u => match get_unit s2 u with Some U => sidx U | None => 0%Z end). split; [reflexivity|]. split; auto. split; auto. split; auto. split; auto. split; auto. split; auto.
    apply Opt_of_Inv; auto. rewrite A2. destruct R5 as [E5 _]. rewrite E5. reflexivity.
Qed.
End Optimize.
