(* C06 -- nothing is silently altered: the bytes determine the coerced arguments.
   Two accepted argument lists that encode to the same bytes have the same address and the
   same coerced typed arguments; two accepted trees with the same bytes denote the same packet. *)
From Coq Require Import ZArith QArith List Bool Lia.
Import ListNotations.
Require Import SC3.model.Osc SC3.model.OscSize.
Require Import SC3.proofs.C06_base SC3.proofs.C06_size SC3.proofs.C06_readers SC3.proofs.C06_roundtrip SC3.proofs.C06_osc10.
Open Scope Z_scope.

(* the token sequence a nested parameter list came from *)
Fixpoint flat_v (v : pval) : list tok :=
  match v with
  | PArr l => KOpen :: (fix go (l : list pval) : list tok := match l with [] => [] | x :: r => flat_v x ++ go r end) l ++ [KClose]
  | _ => [KVal v]
  end.
Fixpoint flat (l : list pval) : list tok := match l with [] => [] | x :: r => flat_v x ++ flat r end.
Lemma flat_v_arr : forall l, flat_v (PArr l) = KOpen :: flat l ++ [KClose].
Proof.
  intros l. reflexivity.
Qed.
Lemma flat_app : forall a b, flat (a ++ b) = flat a ++ flat b.
Proof. induction a as [| x a IH]; intros b; [reflexivity |]. cbn [app flat]. rewrite IH, app_assoc. reflexivity. Qed.

(* tokens already consumed, read off the stack *)
Fixpoint consumed (st : list (list pval)) : list tok :=
  match st with
  | [] => []
  | top :: below =>
      (match below with [] => [] | _ => consumed below ++ [KOpen] end) ++ flat (rev top)
  end.

Definition plain (k : tok) : Prop := match k with KVal (PArr _) => False | _ => True end.

Lemma nest_flat : forall toks st ps,
  Forall plain toks -> st <> [] -> nest toks st = Some ps -> flat ps = consumed st ++ toks.
Proof.
  induction toks as [| k r IH]; intros st ps Hpl Hst H.
  - destruct st as [| top [| x y]]; cbn [nest] in H; try discriminate H.
    assert (ps = rev top) by congruence. subst ps.
    cbn [consumed app]. rewrite app_nil_r. reflexivity.
  - inversion Hpl as [| ? ? Hk Hr]; subst.
    destruct st as [| top below]; [contradiction |].
    destruct k as [v | |]; cbn [nest] in H.
    + rewrite (IH ((v :: top) :: below) ps Hr ltac:(discriminate) H). cbn [consumed rev]. rewrite flat_app. cbn [flat].
      destruct v; try contradiction; cbn [flat_v]; rewrite <- !app_assoc; reflexivity.
    + rewrite (IH ([] :: top :: below) ps Hr ltac:(discriminate) H). cbn [consumed rev flat]. rewrite app_nil_r, <- app_assoc. reflexivity.
    + destruct below as [| p rest]; [discriminate H |].
      rewrite (IH ((PArr (rev top) :: p) :: rest) ps Hr ltac:(discriminate) H).
      cbn [consumed rev]. rewrite flat_app. cbn [flat]. rewrite flat_v_arr, app_nil_r.
      destruct rest; rewrite <- !app_assoc; cbn [app]; rewrite <- ?app_assoc; reflexivity.
Qed.

Lemma nest_injective : forall t1 t2 ps,
  Forall plain t1 -> Forall plain t2 -> nest t1 [[]] = Some ps -> nest t2 [[]] = Some ps -> t1 = t2.
Proof.
  intros t1 t2 ps H1 H2 N1 N2.
  pose proof (nest_flat t1 [[]] ps H1 ltac:(discriminate) N1) as F1.
  pose proof (nest_flat t2 [[]] ps H2 ltac:(discriminate) N2) as F2.
  cbn in F1, F2. congruence.
Qed.

Lemma tok_of_plain : forall targs, Forall plain (map tok_of targs).
Proof. induction targs as [| t r IH]; [constructor |]. constructor; [destruct t; exact I | exact IH]. Qed.
Lemma tok_of_injective : forall t1 t2, map tok_of t1 = map tok_of t2 -> t1 = t2.
Proof.
  induction t1 as [| a r IH]; intros [| b s] H; try discriminate H; [reflexivity |].
  cbn [map] in H. injection H as Hh Ht. f_equal; [| apply IH; exact Ht].
  destruct a, b; try discriminate Hh; try reflexivity; injection Hh as <-; reflexivity.
Qed.

Theorem msg_injective_main : forall nc addr1 args1 addr2 args2 d,
  forallb floats4 args1 = true -> forallb floats4 args2 = true ->
  (nc = true \/ (has_nul addr1 = false /\ forall s, In (AStr s) args1 -> has_nul s = false)) ->
  (nc = true \/ (has_nul addr2 = false /\ forall s, In (AStr s) args2 -> has_nul s = false)) ->
  build_pkt nc (AList (AStr addr1 :: args1)) = Ok d ->
  build_pkt nc (AList (AStr addr2 :: args2)) = Ok d ->
  addr1 = addr2 /\
  exists targs, coerce_args nc args1 = Ok targs /\ coerce_args nc args2 = Ok targs.
Proof.
  intros nc addr1 args1 addr2 args2 d W1 W2 G1 G2 B1 B2.
  destruct (msg_roundtrip_main nc addr1 args1 d W1 G1 B1) as (t1 & ps1 & C1 & N1 & P1).
  destruct (msg_roundtrip_main nc addr2 args2 d W2 G2 B2) as (t2 & ps2 & C2 & N2 & P2).
  rewrite P1 in P2. apply ok_inj in P2. injection P2 as <- <-.
  split; [reflexivity |].
  assert (map tok_of t1 = map tok_of t2)
    by (eapply nest_injective; eauto using tok_of_plain).
  apply tok_of_injective in H. subst t2. eauto.
Qed.

Theorem packet_unique_main : forall nc a1 a2 d,
  floats4 a1 = true -> floats4 a2 = true -> pkt_guard nc a1 = true -> pkt_guard nc a2 = true ->
  build_pkt nc a1 = Ok d -> build_pkt nc a2 = Ok d ->
  exists p, expect nc a1 p /\ expect nc a2 p.
Proof.
  intros nc a1 a2 d W1 W2 G1 G2 B1 B2.
  destruct (rt_all nc a1 W1 G1 d B1 (S (length d)) (Nat.lt_succ_diag_r _)) as (p1 & P1 & E1).
  destruct (rt_all nc a2 W2 G2 d B2 (S (length d)) (Nat.lt_succ_diag_r _)) as (p2 & P2 & E2).
  rewrite P1 in P2. apply ok_inj in P2. subst p2. eauto.
Qed.
