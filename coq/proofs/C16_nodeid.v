(* C16 -- NodeIDAllocator: ids are distinct inside the window and lie in the client's range. *)
From Coq Require Import ZArith List Bool Lia.
Import ListNotations.
Require Import SC3.model.NodeId.
Open Scope Z_scope.

Definition window (it : Z) : Z := temp_max - it + 1.

(* x | (user << 26) = x + user * 2^26 for a 26-bit x: the mask never collides with the counter *)
Lemma lor_mask t u : 0 <= t < 2 ^ 26 -> 0 <= u -> Z.lor t (Z.shiftl u 26) = t + u * 2 ^ 26.
Proof.
  intros Ht Hu.
  assert (Hland : Z.land t (Z.shiftl u 26) = 0).
  { apply Z.bits_inj'. intros n Hn. rewrite Z.land_spec, Z.bits_0.
    destruct (Z.lt_ge_cases n 26).
    - rewrite Z.shiftl_spec_low by lia. apply andb_false_r.
    - replace t with (t mod 2 ^ 26) by (apply Z.mod_small; lia).
      rewrite Z.mod_pow2_bits_high by lia. reflexivity. }
  rewrite <- Z.lxor_lor by auto. rewrite <- Z.add_nocarry_lxor by auto.
  rewrite Z.shiftl_mul_pow2 by lia. reflexivity.
Qed.

(* the allocator is in a regular state: counter inside [init_temp, 0x03FFFFFF], mask = user << 26 *)
Definition nwf (s : nid) : Prop :=
  0 <= user s <= 31 /\ 0 <= init_temp s <= temp s /\ temp s <= temp_max /\ mask s = Z.shiftl (user s) 26.

(* the j-th id handed out from state s *)
Definition id_at (s : nid) (j : Z) : Z :=
  init_temp s + (temp s - init_temp s + j) mod window (init_temp s) + user s * 2 ^ 26.

Lemma nalloc_spec s : nwf s ->
  let '(s1, x) := nalloc s in
  nwf s1 /\ x = id_at s 0 /\ user s1 = user s /\ init_temp s1 = init_temp s /\
  (forall j, id_at s1 j = id_at s (j + 1)).
Proof.
  intros (Hu & Hit & Hmax & Hmask).
  assert (Htm : temp_max = 67108863) by reflexivity.
  assert (Hp : 2 ^ 26 = 67108864) by reflexivity.
  unfold nalloc. cbv beta iota zeta. unfold id_at, window, wrap_int, nwf. cbn [user init_temp temp mask].
  assert (HW : 0 < temp_max - init_temp s + 1) by lia.
  pose proof (Z.mod_pos_bound (temp s + 1 - init_temp s) (temp_max - init_temp s + 1) HW) as Hb.
  split; [split; [auto|split; [lia|split; [lia|auto]]]|].
  split; [|split; [auto|split; [auto|]]].
  - rewrite Hmask. rewrite lor_mask by lia.
    rewrite Z.add_0_r. rewrite Z.mod_small by lia. lia.
  - intros j. f_equal. f_equal.
    replace ((temp s + 1 - init_temp s) mod (temp_max - init_temp s + 1) + init_temp s - init_temp s + j)
      with ((temp s + 1 - init_temp s) mod (temp_max - init_temp s + 1) + j) by lia.
    rewrite Zplus_mod_idemp_l. f_equal. lia.
Qed.

Lemma nalloc_many_spec k : forall s, nwf s ->
  let '(s', xs) := nalloc_many s k in
  nwf s' /\ length xs = k /\ forall j, (j < k)%nat -> nth j xs 0 = id_at s (Z.of_nat j).
Proof.
  induction k as [|k IH]; intros s Hs.
  - change (nalloc_many s 0) with (s, @nil Z). cbv beta iota zeta.
    split; [auto|]. split; [auto|]. intros; lia.
  - change (nalloc_many s (S k)) with
      (let '(s1, x) := nalloc s in let '(s2, xs) := nalloc_many s1 k in (s2, x :: xs)).
    pose proof (nalloc_spec s Hs) as H1. destruct (nalloc s) as [s1 x].
    destruct H1 as (Hs1 & Hx & _ & _ & Hshift).
    pose proof (IH s1 Hs1) as H2. destruct (nalloc_many s1 k) as [s2 xs].
    destruct H2 as (Hs2 & Hlen & Hnth). cbv beta iota zeta.
    split; [auto|]. split; [cbn [length]; lia|].
    intros [|j] Hj; cbn [nth]; auto.
    rewrite Hnth by lia. rewrite Hshift. f_equal. lia.
Qed.

Lemma id_at_range s j : nwf s ->
  user s * 2 ^ 26 + init_temp s <= id_at s j /\ id_at s j < (user s + 1) * 2 ^ 26 /\
  Z.shiftl (user s) 26 <= id_at s j < Z.shiftl (user s + 1) 26.
Proof.
  intros (Hu & Hit & Hmax & Hmask). unfold id_at, window.
  assert (HW : 0 < temp_max - init_temp s + 1) by lia.
  pose proof (Z.mod_pos_bound (temp s - init_temp s + j) (temp_max - init_temp s + 1) HW).
  assert (Htm : temp_max = 67108863) by reflexivity.
  assert (Hp : 2 ^ 26 = 67108864) by reflexivity.
  rewrite !Z.shiftl_mul_pow2 by lia. rewrite Hp. nia.
Qed.

Lemma id_at_distinct s i j : nwf s -> 0 <= i < j -> j - i < window (init_temp s) -> id_at s i <> id_at s j.
Proof.
  intros (Hu & Hit & Hmax & Hmask) Hij Hw. unfold id_at. intros E.
  set (W := window (init_temp s)) in *. set (r := temp s - init_temp s) in *.
  assert (HW : 0 < W) by (unfold W, window; lia).
  assert (Em : (r + i) mod W = (r + j) mod W) by lia.
  pose proof (Z.div_mod (r + i) W ltac:(lia)). pose proof (Z.div_mod (r + j) W ltac:(lia)).
  assert (j - i = W * ((r + j) / W - (r + i) / W)) by lia.
  assert (0 < (r + j) / W - (r + i) / W) by nia.
  nia.
Qed.

Lemma ninit_nwf u it s : 0 <= u -> 0 <= it <= temp_max -> ninit u it = Some s ->
  nwf s /\ user s = u /\ init_temp s = it /\ temp s = it.
Proof.
  intros Hu Hit. unfold ninit. destruct (Z.ltb_spec 31 u); [discriminate|].
  intros E. inversion E; subst; clear E. unfold nwf, nreset. cbn [user init_temp temp mask].
  repeat split; auto; lia.
Qed.

Lemma nreset_nwf s : 0 <= user s <= 31 -> 0 <= init_temp s <= temp_max -> nwf (nreset s).
Proof. intros. unfold nwf, nreset. cbn [user init_temp temp mask]. repeat split; auto; lia. Qed.

Lemma nodeid_window_distinct_proof s k s' ids i j : nwf s -> nalloc_many s k = (s', ids) ->
  (i < j < k)%nat -> Z.of_nat j - Z.of_nat i < temp_max - init_temp s + 1 ->
  nth i ids 0 <> nth j ids 0.
Proof.
  intros Hs E Hij Hw. pose proof (nalloc_many_spec k s Hs) as H. rewrite E in H.
  destruct H as (_ & _ & Hnth). rewrite !Hnth by lia.
  apply id_at_distinct; auto; unfold window; lia.
Qed.

Lemma nodeid_in_client_range_proof s k s' ids i : nwf s -> nalloc_many s k = (s', ids) -> (i < k)%nat ->
  Z.shiftl (user s) 26 <= nth i ids 0 < Z.shiftl (user s + 1) 26 /\
  nth i ids 0 = Z.land (nth i ids 0) temp_max + Z.shiftl (user s) 26 /\
  init_temp s <= nth i ids 0 - Z.shiftl (user s) 26 <= temp_max /\
  nwf s'.
Proof.
  intros Hs E Hi. pose proof (nalloc_many_spec k s Hs) as H. rewrite E in H.
  destruct H as (Hs' & _ & Hnth). rewrite !Hnth by lia.
  pose proof (id_at_range s (Z.of_nat i) Hs) as (H1 & H2 & H3).
  destruct Hs as (Hu & Hit & Hmax & Hmask).
  assert (Htm : temp_max = 67108863) by reflexivity.
  assert (Hp : 2 ^ 26 = 67108864) by reflexivity.
  split; [auto|]. rewrite Z.shiftl_mul_pow2 in * by lia.
  assert (HW : 0 < temp_max - init_temp s + 1) by lia.
  pose proof (Z.mod_pos_bound (temp s - init_temp s + Z.of_nat i) (temp_max - init_temp s + 1) HW) as Hb.
  set (t := init_temp s + (temp s - init_temp s + Z.of_nat i) mod window (init_temp s)).
  assert (Ht : 0 <= t < 2 ^ 26) by (unfold t, window; lia).
  assert (Eid : id_at s (Z.of_nat i) = t + user s * 2 ^ 26) by reflexivity.
  split; [|split; [unfold t, window in *; lia|auto]].
  rewrite Eid. f_equal.
  change temp_max with (Z.ones 26). rewrite Z.land_ones by lia.
  rewrite Z.mod_add by lia. symmetry. apply Z.mod_small. lia.
Qed.

(* ---- the regenerated bi.wrap ------------------------------------------------------------------ *)
Require Import SC3.lib.PyNum SC3.gen.Gen_builtins SC3.proofs.C15_int SC3.model.NodeIdGen.

(* sc3.base.builtins.wrap on ints IS wrap_int, for all arguments with lo <= hi *)
Lemma py_wrap_int x lo hi : lo <= hi -> py_wrap (I x) (I lo) (I hi) = I (wrap_int x lo hi).
Proof.
  intros H. unfold py_wrap. cbn [is_int andb nsub nadd lift2 pint].
  rewrite py_mod_int by lia. cbn [nadd lift2]. reflexivity.
Qed.

Lemma nalloc_py_eq s : init_temp s <= temp_max -> nalloc_py s = Some (nalloc s).
Proof. intros H. unfold nalloc_py, nalloc. rewrite py_wrap_int by exact H. reflexivity. Qed.

Lemma nalloc_py_many_eq k : forall s, nwf s -> nalloc_py_many s k = Some (nalloc_many s k).
Proof.
  induction k as [|k IH]; intros s Hs; [reflexivity|].
  change (nalloc_py_many s (S k)) with
    (match nalloc_py s with
     | Some (s1, x) => match nalloc_py_many s1 k with Some (s2, xs) => Some (s2, cons x xs) | None => None end
     | None => None end).
  change (nalloc_many s (S k)) with
    (let '(s1, x) := nalloc s in let '(s2, xs) := nalloc_many s1 k in (s2, x :: xs)).
  rewrite nalloc_py_eq by (destruct Hs as (_ & ? & ? & _); lia).
  pose proof (nalloc_spec s Hs) as H1. destruct (nalloc s) as [s1 x]. destruct H1 as (Hs1 & _).
  rewrite (IH s1 Hs1). destruct (nalloc_many s1 k) as [s2 xs]. reflexivity.
Qed.

Lemma nodeid_py_total s k : nwf s -> exists s' ids, nalloc_py_many s k = Some (s', ids) /\ length ids = k /\ nwf s'.
Proof.
  intros Hs. rewrite nalloc_py_many_eq by auto. pose proof (nalloc_many_spec k s Hs) as H.
  destruct (nalloc_many s k) as [s' ids]. destruct H as (? & ? & _). eauto.
Qed.

Lemma nodeid_py_window_distinct s k s' ids i j : nwf s -> nalloc_py_many s k = Some (s', ids) ->
  (i < j < k)%nat -> Z.of_nat j - Z.of_nat i < temp_max - init_temp s + 1 ->
  nth i ids 0 <> nth j ids 0.
Proof.
  intros Hs E. rewrite nalloc_py_many_eq in E by auto. inversion E as [E'].
  eapply nodeid_window_distinct_proof; eauto.
Qed.

Lemma nodeid_py_in_client_range s k s' ids i : nwf s -> nalloc_py_many s k = Some (s', ids) -> (i < k)%nat ->
  Z.shiftl (user s) 26 <= nth i ids 0 < Z.shiftl (user s + 1) 26 /\
  nth i ids 0 = Z.land (nth i ids 0) temp_max + Z.shiftl (user s) 26 /\
  init_temp s <= nth i ids 0 - Z.shiftl (user s) 26 <= temp_max /\
  nwf s'.
Proof.
  intros Hs E. rewrite nalloc_py_many_eq in E by auto. inversion E as [E'].
  eapply nodeid_in_client_range_proof; eauto.
Qed.
