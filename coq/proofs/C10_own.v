(* C10: a SYNTACTIC sufficient condition for own_seed_stream_independent.  A body that seeds first and then
   never plays, forks nor re-seeds (XSeed s :: rest0 with rest0 "leafy") keeps its generator to itself: in
   every program, both modes, every oracle, every instance of it draws the stream of s over its own requests. *)
From Coq Require Import ZArith QArith Qround List Bool Lia.
Require Import SC3.model.KProg SC3.model.KNrt SC3.model.KRt SC3.model.KRand SC3.model.KAgree.
Require Import SC3.proofs.C05_exec SC3.proofs.C10_frame SC3.proofs.C10_gens.
Import ListNotations.

Definition leafy_act (a : xact) : Prop := match a with XPlay _ _ | XFork _ | XSeed _ => False | _ => True end.
Definition leafy (acts : list xact) : Prop := Forall leafy_act acts.

Lemma stream_from_fst gen s : forall reqs h, map fst (stream_from gen s h reqs) = reqs.
Proof. induction reqs as [|r reqs IH]; intros h; simpl; auto. rewrite IH. reflexivity. Qed.

(* what the invariant looks at: body, rest, k, generator pointer of every routine; generators; values *)
Definition rcore (r : xrout) : nat * list xact * nat * nat := (xr_body r, xr_rest r, xr_k r, xr_gen r).
Definition same_core (st st' : xstate) : Prop :=
  map rcore (x_routs st') = map rcore (x_routs st) /\ x_gens st' = x_gens st /\ x_vals st' = x_vals st.
Lemma same_core_refl st : same_core st st. Proof. repeat split. Qed.
Lemma same_core_trans a b c : same_core a b -> same_core b c -> same_core a c.
Proof. intros (A1 & A2 & A3) (B1 & B2 & B3). repeat split; congruence. Qed.
Lemma same_core_nth st st' rid r' : same_core st st' -> nth_error (x_routs st') rid = Some r' ->
  exists r, nth_error (x_routs st) rid = Some r /\ rcore r = rcore r'.
Proof.
  intros (A & _ & _) H. assert (E : nth_error (map rcore (x_routs st')) rid = Some (rcore r')) by (rewrite nth_error_map, H; reflexivity).
  rewrite A, nth_error_map in E. destruct (nth_error (x_routs st) rid) as [r|]; [|discriminate]. exists r. simpl in E. split; auto. congruence.
Qed.
Lemma same_core_nth' st st' rid r : same_core st st' -> nth_error (x_routs st) rid = Some r ->
  exists r', nth_error (x_routs st') rid = Some r' /\ rcore r = rcore r'.
Proof.
  intros (A & _ & _) H. assert (E : nth_error (map rcore (x_routs st)) rid = Some (rcore r)) by (rewrite nth_error_map, H; reflexivity).
  rewrite <- A, nth_error_map in E. destruct (nth_error (x_routs st') rid) as [r'|]; [|discriminate]. exists r'. simpl in E. split; auto. congruence.
Qed.
Lemma same_core_len st st' : same_core st st' -> length (x_routs st') = length (x_routs st).
Proof. intros (A & _ & _). rewrite <- (map_length rcore (x_routs st')), A, map_length. reflexivity. Qed.

Lemma same_core_set_n st n : same_core st (set_n st n). Proof. repeat split. Qed.
Lemma same_core_upd st rid f : (forall r, rcore (f r) = rcore r) -> same_core st (upd_rout st rid f).
Proof.
  intros Hf. unfold upd_rout. destruct (nth_error (x_routs st) rid) as [r|] eqn:E; [|apply same_core_refl].
  repeat split. simpl. revert rid E. induction (x_routs st) as [|y l IH]; intros [|rid] E; simpl in *; try discriminate.
  - inversion E; subst. rewrite Hf. reflexivity.
  - f_equal. apply IH. exact E.
Qed.
Lemma same_core_sched dd rt st T w : same_core st (x_sched dd rt st T w).
Proof. unfold x_sched. destruct (nth_error (x_routs st) w); [apply same_core_set_n|apply same_core_refl]. Qed.
Lemma same_core_sched_all dd rt T ws : forall st, same_core st (x_sched_all dd rt st T ws).
Proof.
  unfold x_sched_all. induction ws as [|w ws IH]; intros st; simpl; [apply same_core_refl|].
  eapply same_core_trans; [apply same_core_sched|apply IH].
Qed.

Section Own.
  Context (gen : Z -> list Z -> Z -> Z) (p : xprog) (b : nat) (s : Z) (rest0 : list xact).
  Hypothesis Hb : nth_error (xp_bodies p) b = Some (XSeed s :: rest0).
  Hypothesis Hl : leafy rest0.

  Definition nodraws (rid : nat) (vals : list vevent) : Prop := forall k g req v, ~ In (VDraw rid k g req v) vals.
  (* the routine has its own generator object, seeded s, nobody else points to it, all its draws are on it *)
  Definition gfacts (st : xstate) (rid : nat) : Prop :=
    exists r hist, nth_error (x_routs st) rid = Some r /\ nth_error (x_gens st) (xr_gen r) = Some (s, hist) /\
      (forall j r', j <> rid -> nth_error (x_routs st) j = Some r' -> xr_gen r' <> xr_gen r) /\
      keeps_to_itself rid (xr_gen r) (x_vals st).
  Definition pfacts (st : xstate) (rid : nat) : Prop :=
    exists r, nth_error (x_routs st) rid = Some r /\
      ((xr_k r = 0%nat /\ xr_rest r = XSeed s :: rest0 /\ nodraws rid (x_vals st)) \/ (leafy (xr_rest r) /\ gfacts st rid)).
  Definition Ginv (st : xstate) : Prop :=
    (forall r, In r (x_routs st) -> (xr_gen r < length (x_gens st))%nat) /\
    (forall r k g req v, In (VDraw r k g req v) (x_vals st) -> (g < length (x_gens st))%nat /\ (r < length (x_routs st))%nat).

  (* during the segment of routine cur, whose remaining actions are acts (cur is past its seed) *)
  Definition SJR (st : xstate) (cur : nat) (acts : list xact) : Prop :=
    Ginv st /\
    (forall rid r, rid <> cur -> nth_error (x_routs st) rid = Some r -> xr_body r = b -> pfacts st rid) /\
    (exists rc, nth_error (x_routs st) cur = Some rc) /\
    (forall r, nth_error (x_routs st) cur = Some r -> xr_body r = b -> leafy acts /\ gfacts st cur).

  Lemma gfacts_core st st' rid : same_core st st' -> gfacts st rid -> gfacts st' rid.
  Proof.
    intros C (r & hist & A1 & A2 & A3 & A4). pose proof C as (_ & Cg & Cv).
    destruct (same_core_nth' _ _ _ _ C A1) as (r' & B1 & B2). unfold rcore in B2. inversion B2 as [[E1 E2 E3 E4]].
    exists r', hist. split; [exact B1|]. rewrite Cg, Cv; try rewrite <- E4. split; [exact A2|]. split; [|exact A4].
    intros j r2 Hj Hn. destruct (same_core_nth _ _ _ _ C Hn) as (r1 & D1 & D2). inversion D2 as [[F1 F2 F3 F4]].
    try rewrite <- F4. eapply A3; eauto.
  Qed.
  Lemma pfacts_core st st' rid : same_core st st' -> pfacts st rid -> pfacts st' rid.
  Proof.
    intros C (r & A1 & A2). pose proof C as (_ & Cg & Cv).
    destruct (same_core_nth' _ _ _ _ C A1) as (r' & B1 & B2). unfold rcore in B2. inversion B2 as [[E1 E2 E3 E4]].
    exists r'. split; auto. rewrite Cv; try rewrite <- E2; try rewrite <- E3. destruct A2 as [A2|[A2 A3]]; [left; exact A2|right].
    split; auto. eapply gfacts_core; eauto.
  Qed.
  Lemma Ginv_core st st' : same_core st st' -> Ginv st -> Ginv st'.
  Proof.
    intros C [G1 G2]. pose proof C as (Cr & Cg & Cv). split.
    - intros r' Hin. rewrite Cg. destruct (In_nth_error _ _ Hin) as (i & Hi).
      destruct (same_core_nth _ _ _ _ C Hi) as (r & D1 & D2). inversion D2 as [[F1 F2 F3 F4]]. try rewrite <- F4.
      apply G1. eapply nth_error_In; eauto.
    - intros r k g req v Hin. rewrite Cv in Hin. rewrite Cg, (same_core_len _ _ C). eapply G2; eauto.
  Qed.
  Lemma SJR_core st st' cur acts : same_core st st' -> SJR st cur acts -> SJR st' cur acts.
  Proof.
    intros C (G & O & (rc & Ex) & Cu). split; [eapply Ginv_core; eauto|]. split; [|split].
    - intros rid r' Hne Hn Hbd. destruct (same_core_nth _ _ _ _ C Hn) as (r & D1 & D2). inversion D2 as [[F1 F2 F3 F4]].
      eapply pfacts_core; eauto. eapply O; eauto. congruence.
    - destruct (same_core_nth' _ _ _ _ C Ex) as (rc' & E1 & _). exists rc'. exact E1.
    - intros r' Hn Hbd. destruct (same_core_nth _ _ _ _ C Hn) as (r & D1 & D2). inversion D2 as [[F1 F2 F3 F4]].
      destruct (Cu r D1) as [A1 A2]; [congruence|]. split; auto. eapply gfacts_core; eauto.
  Qed.
  Lemma SJR_tail st cur a acts : SJR st cur (a :: acts) -> SJR st cur acts.
  Proof.
    intros (G & O & Ex & Cu). split; auto. split; auto. split; auto. intros r Hn Hbd.
    destruct (Cu r Hn Hbd) as [A1 A2]. split; auto. inversion A1; auto.
  Qed.
  Lemma SJR_nil st cur acts : SJR st cur acts -> SJR st cur [].
  Proof.
    intros (G & O & Ex & Cu). split; auto. split; auto. split; auto. intros r Hn Hbd.
    destruct (Cu r Hn Hbd) as [A1 A2]. split; auto. constructor.
  Qed.
  Lemma SJR_cons st cur a acts : leafy_act a -> SJR st cur acts -> SJR st cur (a :: acts).
  Proof.
    intros La (G & O & Ex & Cu). split; auto. split; auto. split; auto. intros r Hn Hbd.
    destruct (Cu r Hn Hbd) as [A1 A2]. split; auto. constructor; auto.
  Qed.

  Lemma leafy_not_seed acts s' l : leafy acts -> acts <> XSeed s' :: l.
  Proof. intros H E. subst. inversion H as [|? ? Ha _]. simpl in Ha. exact Ha. Qed.

  Lemma nth_set_nth_cases {A} (l : list A) i j x y : nth_error (set_nth l i x) j = Some y ->
    (i = j /\ y = x /\ (i < length l)%nat) \/ (i <> j /\ nth_error l j = Some y).
  Proof.
    revert i j. induction l as [|z l IH]; intros [|i] [|j] H; simpl in *; try discriminate.
    - inversion H; subst. left. repeat split; lia.
    - right. split; auto.
    - right. split; auto.
    - destruct (IH i j H) as [(E1 & E2 & E3)|(E1 & E2)]; [left; repeat split; auto; lia|right; split; auto].
  Qed.

  (* ---- play: the child points to the player's object ------------------------------------------------- *)
  Lemma SJR_play dd rt st cur k T b' c acts :
    SJR st cur (XPlay b' c :: acts) \/ SJR st cur (XFork b' :: acts) ->
    SJR (fst (x_play dd rt p st cur k T b' c)) cur acts.
  Proof.
    intros H0.
    assert (H : SJR st cur acts /\ (forall r, nth_error (x_routs st) cur = Some r -> xr_body r <> b)).
    { destruct H0 as [H0|H0]; (split; [eapply SJR_tail; eauto|]); destruct H0 as (_ & _ & _ & Cu);
        intros r Hn Hbd; destruct (Cu r Hn Hbd) as [L _]; inversion L as [|? ? La _]; simpl in La; exact La. }
    destruct H as [H1 Hnb]. pose proof H1 as (G & O & (rc & Ex) & Cu).
    unfold x_play. destruct (nth_error (xp_bodies p) b') as [body|] eqn:Eb; [|exact H1].
    destruct (clock_ok (n_tcs (x_n st)) c && clock_ok_mode rt c); [|exact H1].
    cbn [fst]. rewrite Ex. destruct G as [G1 G2].
    set (child := mkXR b' body c 0 RSusp (xr_gen rc)).
    assert (Hcur : (cur < length (x_routs st))%nat) by (apply nth_error_Some; rewrite Ex; discriminate).
    unfold SJR, Ginv; split; [|split; [|split]]; cbn [x_routs x_gens x_vals set_n set_xrouts].
    - split.
      + intros r Hin. apply in_app_or in Hin. destruct Hin as [Hin|[<-|[]]]; auto. simpl. apply G1. eapply nth_error_In; eauto.
      + intros r k0 g req v Hin. destruct (G2 _ _ _ _ _ Hin). rewrite app_length. simpl. split; auto; lia.
    - intros rid r Hne Hn Hbd.
      destruct (Nat.lt_ge_cases rid (length (x_routs st))) as [Hlt|Hge].
      + rewrite nth_error_app1 in Hn by exact Hlt. destruct (O rid r Hne Hn Hbd) as (r0 & A1 & A2).
        exists r0. cbn [x_routs x_gens x_vals set_n set_xrouts]. split; [rewrite nth_error_app1; auto|].
        destruct A2 as [A2|[A2 (r1 & hist & B1 & B2 & B3 & B4)]]; [left; exact A2|right]. split; auto.
        exists r1, hist. cbn [x_routs x_gens x_vals set_n set_xrouts]. split; [rewrite nth_error_app1; auto|]. split; auto. split; auto.
        intros j r' Hj Hn'. destruct (Nat.lt_ge_cases j (length (x_routs st))) as [Hjl|Hjg].
        * rewrite nth_error_app1 in Hn' by exact Hjl. eapply B3; eauto.
        * rewrite nth_error_app2 in Hn' by exact Hjg. destruct (j - length (x_routs st))%nat; simpl in Hn'; [|destruct n; discriminate].
          inversion Hn'; subst r'. simpl. apply (B3 cur rc); auto.
      + rewrite nth_error_app2 in Hn by exact Hge. destruct (rid - length (x_routs st))%nat eqn:Ed; simpl in Hn; [|destruct n; discriminate].
        inversion Hn; subst r. simpl in Hbd. subst b'. rewrite Hb in Eb. inversion Eb; subst body.
        exists child. cbn [x_routs x_gens x_vals set_n set_xrouts]. split; [rewrite nth_error_app2 by exact Hge; rewrite Ed; reflexivity|].
        left. repeat split; auto. intros k0 g req v Hin. destruct (G2 _ _ _ _ _ Hin). lia.
    - exists rc. rewrite nth_error_app1; auto.
    - intros r Hn Hbd. rewrite nth_error_app1 in Hn by exact Hcur. exfalso. eapply Hnb; eauto.
  Qed.

  (* ---- seed by a routine that is not an instance of body b (or is past its own seed: impossible) ---------- *)
  Lemma SJR_seed st cur s' acts : SJR st cur (XSeed s' :: acts) -> SJR (fst (x_seed st cur s')) cur acts.
  Proof.
    intros H. assert (Hnb : forall r, nth_error (x_routs st) cur = Some r -> xr_body r <> b).
    { destruct H as (_ & _ & _ & Cu). intros r Hn Hbd. destruct (Cu r Hn Hbd) as [L _]. inversion L as [|? ? La _]. exact La. }
    apply SJR_tail in H. destruct H as ([G1 G2] & O & (rc & Ex) & Cu).
    unfold x_seed. cbn [fst]. unfold upd_rout. cbn [x_routs set_gens]. rewrite Ex.
    assert (Hcur : (cur < length (x_routs st))%nat) by (apply nth_error_Some; rewrite Ex; discriminate).
    unfold SJR, Ginv; split; [|split; [|split]]; cbn [x_routs x_gens x_vals set_xrouts set_gens].
    - split.
      + intros r Hin. rewrite app_length. simpl. destruct (set_nth_in _ _ _ _ Hin) as [->|Hin']; [simpl; lia|]. specialize (G1 _ Hin'). lia.
      + intros r k0 g req v Hin. destruct (G2 _ _ _ _ _ Hin). rewrite app_length, set_nth_length. simpl. split; auto; lia.
    - intros rid r Hne Hn Hbd. rewrite set_nth_other in Hn by congruence.
      destruct (O rid r Hne Hn Hbd) as (r0 & A1 & A2). exists r0. cbn [x_routs x_gens x_vals set_xrouts set_gens].
      split; [rewrite set_nth_other by congruence; exact A1|].
      destruct A2 as [A2|[A2 (r1 & hist & B1 & B2 & B3 & B4)]]; [left; exact A2|right]. split; auto.
      exists r1, hist. cbn [x_routs x_gens x_vals set_xrouts set_gens].
      split; [rewrite set_nth_other by congruence; exact B1|].
      assert (Hg : (xr_gen r1 < length (x_gens st))%nat) by (apply nth_error_Some; rewrite B2; discriminate).
      split; [rewrite nth_error_app1; auto|]. split; auto.
      intros j r' Hj Hn'. destruct (nth_set_nth_cases _ _ _ _ _ Hn') as [(E1 & E2 & _)|(E1 & E2)].
      * subst r'. simpl. lia.
      * eapply B3; eauto.
    - eexists. eapply set_nth_same; eauto.
    - intros r Hn Hbd. rewrite (set_nth_same _ _ _ _ Ex) in Hn. inversion Hn; subst r. simpl in Hbd. exfalso. eapply Hnb; eauto.
  Qed.

  (* ---- the first action of an instance of body b: its own seed ------------------------------------------- *)
  Lemma SJR_first_seed st cur r :
    Ginv st -> (forall rid r0, rid <> cur -> nth_error (x_routs st) rid = Some r0 -> xr_body r0 = b -> pfacts st rid) ->
    nth_error (x_routs st) cur = Some r -> nodraws cur (x_vals st) ->
    SJR (fst (x_seed st cur s)) cur rest0.
  Proof.
    intros [G1 G2] O Ex Hnd.
    unfold x_seed. cbn [fst]. unfold upd_rout. cbn [x_routs set_gens]. rewrite Ex.
    unfold SJR, Ginv; split; [|split; [|split]]; cbn [x_routs x_gens x_vals set_xrouts set_gens].
    - split.
      + intros r1 Hin. rewrite app_length. simpl. destruct (set_nth_in _ _ _ _ Hin) as [->|Hin']; [simpl; lia|]. specialize (G1 _ Hin'). lia.
      + intros r1 k0 g req v Hin. destruct (G2 _ _ _ _ _ Hin). rewrite app_length, set_nth_length. simpl. split; auto; lia.
    - intros rid r0 Hne Hn Hbd. rewrite set_nth_other in Hn by congruence.
      destruct (O rid r0 Hne Hn Hbd) as (r1 & A1 & A2). exists r1. cbn [x_routs x_gens x_vals set_xrouts set_gens].
      split; [rewrite set_nth_other by congruence; exact A1|].
      destruct A2 as [A2|[A2 (r2 & hist & B1 & B2 & B3 & B4)]]; [left; exact A2|right]. split; auto.
      exists r2, hist. cbn [x_routs x_gens x_vals set_xrouts set_gens].
      split; [rewrite set_nth_other by congruence; exact B1|].
      assert (Hg : (xr_gen r2 < length (x_gens st))%nat) by (apply nth_error_Some; rewrite B2; discriminate).
      split; [rewrite nth_error_app1; auto|]. split; auto.
      intros j r' Hj Hn'. destruct (nth_set_nth_cases _ _ _ _ _ Hn') as [(E1 & E2 & _)|(E1 & E2)].
      * subst r'. simpl. lia.
      * eapply B3; eauto.
    - eexists. eapply set_nth_same; eauto.
    - intros r1 Hn _. split; [exact Hl|].
      exists (with_gen (length (x_gens st)) r), []. cbn [x_routs x_gens x_vals set_xrouts set_gens].
      split; [eapply set_nth_same; eauto|]. simpl xr_gen.
      split; [rewrite nth_error_app2 by lia; rewrite Nat.sub_diag; reflexivity|]. split.
      + intros j r' Hj Hn'. rewrite set_nth_other in Hn' by congruence. apply nth_error_In in Hn'. specialize (G1 _ Hn'). lia.
      + intros r2 k0 g req v Hin. destruct (G2 _ _ _ _ _ Hin) as [Hg _]. split; intros E.
        * subst r2. exfalso. eapply Hnd; eauto.
        * subst g. lia.
  Qed.

  (* ---- draw ------------------------------------------------------------------------------------------------ *)
  Lemma SJR_draw st cur k req acts : SJR st cur (XDraw req :: acts) -> SJR (fst (x_draw gen st cur k req)) cur acts.
  Proof.
    intros H. apply SJR_tail in H. pose proof H as ([G1 G2] & O & (rc & Ex) & Cu).
    unfold x_draw. rewrite Ex. destruct (nth_error (x_gens st) (xr_gen rc)) as [[seed hist]|] eqn:Eg; [|exact H].
    cbn [fst]. assert (Hcur : (cur < length (x_routs st))%nat) by (apply nth_error_Some; rewrite Ex; discriminate).
    assert (Hgc : (xr_gen rc < length (x_gens st))%nat) by (apply nth_error_Some; rewrite Eg; discriminate).
    set (v := gen seed hist req).
    assert (GF : forall rid, gfacts st rid ->
              gfacts (add_val (set_gens st (set_nth (x_gens st) (xr_gen rc) (seed, hist ++ [req]))) (VDraw cur k (xr_gen rc) req v)) rid).
    { intros rid (r1 & h1 & B1 & B2 & B3 & B4). destruct (Nat.eq_dec rid cur) as [->|Hne].
      - rewrite Ex in B1. inversion B1; subst r1. rewrite Eg in B2. inversion B2; subst seed h1.
        exists rc, (hist ++ [req]). cbn [x_routs x_gens x_vals add_val set_gens]. split; auto.
        split; [eapply set_nth_same; eauto|]. split; auto.
        intros r2 k0 g req0 v0 [Hin|Hin]; [inversion Hin; subst; tauto|exact (B4 _ _ _ _ _ Hin)].
      - assert (Hgg : xr_gen rc <> xr_gen r1) by (apply (B3 cur rc); auto).
        exists r1, h1. cbn [x_routs x_gens x_vals add_val set_gens]. split; auto.
        split; [rewrite set_nth_other; auto|]. split; auto.
        intros r2 k0 g req0 v0 [Hin|Hin]; [|exact (B4 _ _ _ _ _ Hin)].
        inversion Hin; subst. split; intros E; congruence. }
    unfold SJR, Ginv; split; [|split; [|split]]; cbn [x_routs x_gens x_vals add_val set_gens].
    - split.
      + intros r Hin. rewrite set_nth_length. auto.
      + intros r k0 g req0 v0 [Hin|Hin]; rewrite set_nth_length; [inversion Hin; subst; auto|eapply G2; eauto].
    - intros rid r Hne Hn Hbd. destruct (O rid r Hne Hn Hbd) as (r0 & A1 & A2). exists r0.
      cbn [x_routs x_gens x_vals add_val set_gens]. split; auto.
      destruct A2 as [(A2 & A3 & A4)|[A2 A3]]; [left|right; split; auto].
      repeat split; auto. intros k0 g req0 v0 [Hin|Hin]; [inversion Hin; congruence|eapply A4; eauto].
    - exists rc. exact Ex.
    - intros r Hn Hbd. destruct (Cu r Hn Hbd) as [A1 A2]. split; auto.
  Qed.

  Lemma SJR_read st cur k f acts : SJR st cur (XFlowRead f :: acts) -> SJR (fst (x_flowread st cur k f)) cur acts.
  Proof.
    intros H. apply SJR_tail in H. pose proof H as ([G1 G2] & O & (rc & Ex) & Cu).
    unfold x_flowread. destruct (nth_error (x_flows st) f) as [[v ws]|]; [|exact H]. cbn [fst].
    assert (GF : forall rid, gfacts st rid -> gfacts (add_val st (VFlow cur k f v)) rid).
    { intros rid (r1 & h1 & B1 & B2 & B3 & B4). exists r1, h1. cbn [x_routs x_gens x_vals add_val]. repeat split; auto.
      - intros E. destruct H0 as [H0|H0]; [discriminate|]. apply (proj1 (B4 _ _ _ _ _ H0)); auto.
      - intros E. destruct H0 as [H0|H0]; [discriminate|]. apply (proj2 (B4 _ _ _ _ _ H0)); auto. }
    unfold SJR, Ginv; split; [|split; [|split]]; cbn [x_routs x_gens x_vals add_val].
    - split; auto. intros r k0 g req0 v0 [Hin|Hin]; [discriminate|eapply G2; eauto].
    - intros rid r Hne Hn Hbd. destruct (O rid r Hne Hn Hbd) as (r0 & A1 & A2). exists r0.
      cbn [x_routs x_gens x_vals add_val]. split; auto.
      destruct A2 as [(A2 & A3 & A4)|[A2 A3]]; [left|right; split; auto].
      repeat split; auto. intros k0 g req0 v0 [Hin|Hin]; [discriminate|eapply A4; eauto].
    - exists rc. exact Ex.
    - intros r Hn Hbd. destruct (Cu r Hn Hbd) as [A1 A2]. split; auto.
  Qed.

  (* ---- a segment ------------------------------------------------------------------------------------------- *)
  Definition rest_of (oc : xoutcome) : list xact :=
    match oc with XOYield _ rest => rest | XOHang rest => rest | _ => [] end.

  Lemma same_core_signal dd rt st T c : same_core st (fst (x_signal dd rt st T c)).
  Proof.
    unfold x_signal. destruct (nth_error (x_conds st) c) as [[t ws]|]; [|apply same_core_refl].
    destruct t; [|apply same_core_refl]. cbn [fst]. eapply same_core_trans; [|apply same_core_sched_all]. repeat split.
  Qed.
  Lemma same_core_flowset dd rt st T f v : same_core st (fst (x_flowset dd rt st T f v)).
  Proof.
    unfold x_flowset. destruct (nth_error (x_flows st) f) as [[[x|] ws]|]; try apply same_core_refl.
    cbn [fst]. eapply same_core_trans; [|apply same_core_sched_all]. repeat split.
  Qed.
  Lemma same_core_pause st rid bd : same_core st (fst (x_pause st rid bd)).
  Proof.
    unfold x_pause. destruct (latest bd (x_routs st)); [|apply same_core_refl]. destruct (Nat.eqb n rid); [apply same_core_refl|].
    cbn [fst]. apply same_core_upd. intros r. destruct (xr_st r); reflexivity.
  Qed.
  Lemma same_core_resume dd rt st rid T bd : same_core st (fst (x_resume dd rt st rid T bd)).
  Proof.
    unfold x_resume. destruct (latest bd (x_routs st)); [|apply same_core_refl]. destruct (Nat.eqb n rid); [apply same_core_refl|].
    destruct (nth_error (x_routs st) n); [|apply same_core_refl]. destruct (xr_st x); try apply same_core_refl.
    cbn [fst]. eapply same_core_trans; [|apply same_core_sched]. apply same_core_upd. reflexivity.
  Qed.

  Lemma xrun_SJR dd rt : forall acts st cur k T cclk, SJR st cur acts ->
    SJR (fst (xrun gen dd rt p st cur k T cclk acts)) cur (rest_of (snd (xrun gen dd rt p st cur k T cclk acts))).
  Proof.
    induction acts as [|x acts IH]; intros st cur k T cclk H; [exact H|].
    assert (STEP : forall r : xstate * bool, SJR (fst r) cur acts ->
              SJR (fst (if snd r then xrun gen dd rt p (fst r) cur k T cclk acts else (fst r, XORaise))) cur
                  (rest_of (snd (if snd r then xrun gen dd rt p (fst r) cur k T cclk acts else (fst r, XORaise))))).
    { intros r Hr. destruct (snd r); [apply IH; exact Hr|]. simpl. eapply SJR_nil; eauto. }
    assert (CORE : forall st', same_core st st' -> SJR st' cur acts).
    { intros st' C. eapply SJR_core; [exact C|]. eapply SJR_tail; eauto. }
    destruct x; cbn [xrun].
    - simpl. eapply SJR_tail; eauto.
    - apply STEP. apply CORE. repeat split.
    - apply STEP. apply SJR_play. left. exact H.
    - apply STEP. apply SJR_play. right. exact H.
    - apply STEP. apply CORE. repeat split.
    - apply STEP. apply CORE. unfold x_setbeats. destruct (nth_error (n_tcs (x_n st)) i); repeat split.
    - apply STEP. apply SJR_seed. exact H.
    - apply STEP. apply SJR_draw. exact H.
    - destruct (nth_error (x_conds st) c) as [[t ws]|]; [|simpl; eapply SJR_nil; eauto].
      destruct t; simpl; [eapply SJR_tail; eauto|]. apply CORE. repeat split.
    - apply STEP. apply CORE. apply same_core_signal.
    - apply STEP. apply CORE. unfold x_settest. destruct (nth_error (x_conds st) c) as [[t' ws]|]; repeat split.
    - destruct (nth_error (x_flows st) f) as [[[v|] ws]|]; simpl.
      + apply SJR_cons; [exact I|]. eapply SJR_tail; eauto.
      + apply SJR_cons; [exact I|]. apply CORE. repeat split.
      + eapply SJR_nil; eauto.
    - apply STEP. apply SJR_read. exact H.
    - apply STEP. apply CORE. apply same_core_flowset.
    - apply STEP. apply CORE. apply same_core_pause.
    - apply STEP. apply CORE. apply same_core_resume.
    - simpl. eapply SJR_tail; eauto.
    - simpl. eapply SJR_nil; eauto.
  Qed.

  (* ---- between segments --------------------------------------------------------------------------------------- *)
  Definition Jinv (st : xstate) : Prop :=
    Ginv st /\ forall rid r, nth_error (x_routs st) rid = Some r -> xr_body r = b -> pfacts st rid.

  Lemma Jinv_core st st' : same_core st st' -> Jinv st -> Jinv st'.
  Proof.
    intros C [G O]. split; [eapply Ginv_core; eauto|].
    intros rid r' Hn Hbd. destruct (same_core_nth _ _ _ _ C Hn) as (r & D1 & D2). inversion D2 as [[F1 F2 F3 F4]].
    eapply pfacts_core; eauto. eapply O; eauto. congruence.
  Qed.

  (* the routine whose segment ended gets its new rest and count; its generator pointer stays *)
  Lemma after_J st2 cur rest' k' st' : SJR st2 cur rest' ->
    Jinv (upd_rout st2 cur (with_rest rest' k' st')).
  Proof.
    intros ([G1 G2] & O & (rc & Ex) & Cu). unfold upd_rout. rewrite Ex.
    assert (GF : forall rid, gfacts st2 rid ->
              gfacts (set_xrouts st2 (set_nth (x_routs st2) cur (with_rest rest' k' st' rc))) rid).
    { intros rid (r1 & h1 & B1 & B2 & B3 & B4). destruct (Nat.eq_dec rid cur) as [->|Hne].
      - rewrite Ex in B1. inversion B1; subst r1. exists (with_rest rest' k' st' rc), h1.
        cbn [x_routs x_gens x_vals set_xrouts]. split; [eapply set_nth_same; eauto|]. split; auto. split; auto.
        intros j r' Hj Hn'. rewrite set_nth_other in Hn' by congruence. eapply B3; eauto.
      - exists r1, h1. cbn [x_routs x_gens x_vals set_xrouts]. split; [rewrite set_nth_other by congruence; exact B1|].
        split; auto. split; auto. intros j r' Hj Hn'.
        destruct (nth_set_nth_cases _ _ _ _ _ Hn') as [(E1 & E2 & _)|(E1 & E2)]; [subst r'; simpl; apply (B3 cur rc); auto|eapply B3; eauto]. }
    split.
    - split; cbn [x_routs x_gens x_vals set_xrouts].
      + intros r Hin. destruct (set_nth_in _ _ _ _ Hin) as [->|Hin']; auto. simpl. apply G1. eapply nth_error_In; eauto.
      + intros r k0 g req v Hin. rewrite set_nth_length. eapply G2; eauto.
    - intros rid r Hn Hbd. cbn [x_routs set_xrouts] in Hn.
      destruct (nth_set_nth_cases _ _ _ _ _ Hn) as [(E1 & E2 & _)|(E1 & E2)].
      + subst rid r. simpl in Hbd. destruct (Cu rc Ex Hbd) as [L GFc].
        exists (with_rest rest' k' st' rc). cbn [x_routs x_gens x_vals set_xrouts]. split; [eapply set_nth_same; eauto|].
        right. split; [exact L|apply GF; exact GFc].
      + destruct (O rid r (fun E => E1 (eq_sym E)) E2 Hbd) as (r0 & A1 & A2). exists r0.
        cbn [x_routs x_gens x_vals set_xrouts]. split; [rewrite set_nth_other by exact E1; exact A1|].
        destruct A2 as [A2|[A2 A3]]; [left; exact A2|right; split; auto].
  Qed.

  Lemma x_after_J st2 oc cur k c resched : (forall s0 d, same_core s0 (resched s0 d)) ->
    SJR st2 cur (rest_of oc) -> Jinv (x_after st2 oc cur k c resched).
  Proof.
    intros Hres H. unfold x_after. destruct oc as [d rest'|rest'| |]; simpl in H.
    - eapply Jinv_core; [apply Hres|]. apply after_J. exact H.
    - apply after_J. exact H.
    - eapply Jinv_core; [apply same_core_set_n|]. apply after_J. exact H.
    - eapply Jinv_core; [apply same_core_set_n|]. apply after_J. exact H.
  Qed.

  (* the common shape of ClockTask._wakeup and of the real-time clocks' wake-up *)
  Lemma wake_J dd rt st rid T c (n0 : nstate) (n1 : xrout -> nstate) resched :
    (forall s0 d, same_core s0 (resched s0 d)) -> Jinv st ->
    Jinv (match nth_error (x_routs st) rid with
          | None => set_n st n0
          | Some r =>
              match xr_st r with
              | RSusp => let '(st2, oc) := xrun gen dd rt p (set_n st (n1 r)) rid (xr_k r) T c (xr_rest r) in
                         x_after st2 oc rid (xr_k r) c resched
              | _ => set_n st n0
              end
          end).
  Proof.
    intros Hres J. destruct (nth_error (x_routs st) rid) as [r|] eqn:Er; [|eapply Jinv_core; [apply same_core_set_n|exact J]].
    destruct (xr_st r); try (eapply Jinv_core; [apply same_core_set_n|exact J]).
    pose proof (Jinv_core st (set_n st (n1 r)) (same_core_set_n _ _) J) as [G1 O1].
    assert (Er1 : nth_error (x_routs (set_n st (n1 r))) rid = Some r) by exact Er.
    assert (S0 : SJR (fst (xrun gen dd rt p (set_n st (n1 r)) rid (xr_k r) T c (xr_rest r))) rid
                     (rest_of (snd (xrun gen dd rt p (set_n st (n1 r)) rid (xr_k r) T c (xr_rest r))))).
    { destruct (Nat.eq_dec (xr_body r) b) as [Hbd|Hnb].
      - destruct (O1 rid r Er1 Hbd) as (r0 & A1 & A2). rewrite Er1 in A1. inversion A1; subst r0.
        destruct A2 as [(K0 & Rest & Nd)|[L GFc]].
        + rewrite Rest. cbn [xrun]. unfold x_seed at 1 2. cbn [snd].
          apply xrun_SJR. apply (SJR_first_seed _ rid r); auto.
          intros rid0 r0 Hne Hn Hb0. eapply O1; eauto.
        + apply xrun_SJR. split; auto. split; [intros rid0 r0 Hne Hn Hb0; eapply O1; eauto|]. split; [exists r; exact Er1|].
          intros r0 Hn _. split; auto.
      - apply xrun_SJR. split; auto. split; [intros rid0 r0 Hne Hn Hb0; eapply O1; eauto|]. split; [exists r; exact Er1|].
        intros r0 Hn Hb0. rewrite Er1 in Hn. inversion Hn; subst r0. congruence. }
    destruct (xrun gen dd rt p (set_n st (n1 r)) rid (xr_k r) T c (xr_rest r)) as [st2 oc]. cbn [fst snd] in S0.
    apply x_after_J; auto.
  Qed.

  (* ---- executions ----------------------------------------------------------------------------------------------- *)
  Lemma nrt_wake_J dd st e : Jinv st -> Jinv (xnrt_wake gen dd p st e).
  Proof.
    intros J. unfold xnrt_wake.
    apply (wake_J dd None st (e_rid e) (e_time e) (e_clock e) (set_mtime (x_n st) (e_time e))
             (fun r => add_log (set_mtime (x_n st) (e_time e))
                         (EvResume (e_rid e) (xr_k r) (e_clock e) (e_time e)
                            (Qred (s2b (n_tcs (set_mtime (x_n st) (e_time e))) (e_clock e) (e_time e)))))); auto.
    intros s0 d. apply same_core_set_n.
  Qed.
  Lemma nrt_loop_J dd fuel : forall st, Jinv st -> Jinv (xnrt_loop gen dd p fuel st).
  Proof.
    induction fuel as [|f IH]; intros st J; simpl; auto.
    destruct (n_q (x_n st)) as [|e rest]; auto. apply IH. apply nrt_wake_J.
    eapply Jinv_core; [apply same_core_set_n|exact J].
  Qed.
  Lemma rt_wake_J off st e : Jinv st -> Jinv (xrt_wake gen off p st e).
  Proof.
    intros J. unfold xrt_wake.
    set (T := Qred (b2s (n_tcs (x_n st)) (e_clock e) (e_time e))).
    apply (wake_J true (Some off) st (e_rid e) T (e_clock e) (set_mtime (x_n st) T)
             (fun r => add_log (set_mtime (x_n st) T)
                         (EvResume (e_rid e) (xr_k r) (e_clock e) T (Qred (s2b (n_tcs (set_mtime (x_n st) T)) (e_clock e) T))))); auto.
    intros s0 d. apply same_core_set_n.
  Qed.
  Lemma rt_step_J off s0 ch : Jinv (xs s0) -> Jinv (xs (xrt_step gen off p s0 ch)).
  Proof.
    intros J. destruct ch as [rid t]. unfold xrt_step.
    destruct (find_rid rid (n_q (x_n (xs s0)))) as [e0|]; simpl; auto.
    destruct (pop_clock (e_clock e0) (n_q (x_n (xs s0)))) as [[e rest]|]; simpl; auto.
    destruct (Nat.eqb (e_rid e) rid); simpl; auto. apply rt_wake_J.
    eapply Jinv_core; [apply same_core_set_n|exact J].
  Qed.

  Lemma rt_fold_J off sched : forall s0, Jinv (xs s0) -> Jinv (xs (fold_left (xrt_step gen off p) sched s0)).
  Proof.
    induction sched as [|ch l IH]; intros s0 J0; simpl; auto. apply IH. apply rt_step_J; auto.
  Qed.

  Lemma init_J rt t0 n : Jinv (x_init rt p t0 n).
  Proof.
    unfold x_init. destruct (nth_error (xp_bodies p) 0) as [body|] eqn:E0.
    - split.
      + split; cbn.
        * intros r [<-|[]]. simpl. lia.
        * intros r k g req v [].
      + intros rid r Hn Hbd. cbn in Hn. destruct rid as [|rid]; [|destruct rid; discriminate].
        inversion Hn; subst r. simpl in Hbd. subst b. rewrite Hb in E0. inversion E0; subst body.
        eexists. cbn. split; [reflexivity|]. left. repeat split; auto. intros k g req v [].
    - split.
      + split; cbn; [intros r []|intros r k g req v []].
      + intros rid r Hn. cbn in Hn. destruct rid; discriminate.
  Qed.

  Lemma nodraws_nil rid vals : nodraws rid vals -> draws_by rid vals = [].
  Proof.
    intros H. unfold draws_by.
    assert (F : forall x, In x (rev vals) -> match x with VDraw r _ _ req v => if Nat.eqb r rid then [(req, v)] else [] | _ => [] end = []).
    { intros x Hx. apply in_rev in Hx. destruct x as [r k g req v|]; auto.
      destruct (Nat.eqb r rid) eqn:E; auto. apply Nat.eqb_eq in E. subst r. exfalso. eapply H; eauto. }
    induction (rev vals) as [|x l IH]; simpl; auto. rewrite (F x) by (simpl; auto). simpl. apply IH. intros y Hy. apply F. simpl; auto.
  Qed.

  (* from the invariant and the stream law of the generator objects *)
  Lemma own_of_J st rid r :
    (forall g seed hist, nth_error (x_gens st) g = Some (seed, hist) -> draws_of g (x_vals st) = stream gen seed hist) ->
    Jinv st -> nth_error (x_routs st) rid = Some r -> xr_body r = b ->
    draws_by rid (x_vals st) = stream gen s (map fst (draws_by rid (x_vals st))).
  Proof.
    intros Hstream [_ O] Hn Hbd. destruct (O rid r Hn Hbd) as (r0 & A1 & A2).
    destruct A2 as [(_ & _ & Nd)|[_ (r1 & hist & B1 & B2 & B3 & B4)]].
    - rewrite (nodraws_nil _ _ Nd). reflexivity.
    - rewrite (draws_by_of _ _ _ B4), (Hstream _ _ _ B2). unfold stream. rewrite stream_from_fst. reflexivity.
  Qed.
End Own.

Lemma own_seed_syntactic_nrt gen p b s rest0 dd fuel rid r :
  nth_error (xp_bodies p) b = Some (XSeed s :: rest0) -> leafy rest0 ->
  let st := xnrt_loop gen dd p fuel (xnrt_init p) in
  nth_error (x_routs st) rid = Some r -> xr_body r = b ->
  draws_by rid (x_vals st) = stream gen s (map fst (draws_by rid (x_vals st))).
Proof.
  intros Hb Hl st Hn Hbd. apply (own_of_J gen b s rest0 st rid r); auto.
  - intros g seed hist. apply gen_stream_nrt.
  - apply nrt_loop_J; auto. apply init_J; auto.
Qed.

Lemma own_seed_syntactic_rt gen p b s rest0 off t0 sched rid r :
  nth_error (xp_bodies p) b = Some (XSeed s :: rest0) -> leafy rest0 ->
  let st := xs (xrt_run gen off p t0 sched) in
  nth_error (x_routs st) rid = Some r -> xr_body r = b ->
  draws_by rid (x_vals st) = stream gen s (map fst (draws_by rid (x_vals st))).
Proof.
  intros Hb Hl st Hn Hbd. apply (own_of_J gen b s rest0 st rid r); auto.
  - intros g seed hist. apply gen_stream_rt.
  - unfold st, xrt_run. apply rt_fold_J; auto. apply init_J; auto.
Qed.
