(* C02 -- bridge: the compiler model's output (model/Graph.v) as an SCgf definition *)
From Coq Require Import ZArith QArith List Bool Lia ZifyBool String.
Import ListNotations.
Require SC3.model.Graph.
Require Import SC3.model.Scgf SC3.model.GraphScgf SC3.proofs.C02_scgf SC3.proofs.C02_wf SC3.proofs.C02_reader.
Open Scope Z_scope.

Lemma const_index_from_range : forall q l i k, const_index_from q l i = Some k -> i <= k < i + zlen l.
Proof.
  intros q l; induction l as [|x r IH]; intros i k H; simpl in H; [discriminate|].
  rewrite zlen_cons. pose proof (zlen_nonneg r).
  destruct (Qeq_bool x q).
  - inversion H; subst. lia.
  - apply IH in H. lia.
Qed.

Lemma rate_num_ok : forall r, rate_ok (Graph.rate_num r) = true /\ i8_ok (Graph.rate_num r) = true.
Proof. intros []; split; reflexivity. Qed.

Lemma forallb_repeat : forall {A} (f : A -> bool) x n, f x = true -> forallb f (repeat x n) = true.
Proof. intros A f x n H; induction n as [|n IH]; simpl; [reflexivity | rewrite H, IH; reflexivity]. Qed.

Lemma zlen_repeat : forall {A} (x : A) n, zlen (repeat x n) = Z.of_nat n.
Proof. intros; unfold zlen; rewrite repeat_length; reflexivity. Qed.

Lemma conv_inps_ok : forall consts before gins,
  i32_ok (zlen consts) = true ->
  forallb (ginp_ok consts before) gins = true ->
  exists ins, conv_inps consts gins = Some ins
              /\ forallb inp_ok ins = true
              /\ forallb (inp_wf (zlen consts) before) ins = true
              /\ zlen ins = zlen gins.
Proof.
  intros consts before gins Hc. induction gins as [|g r IH]; intros H.
  - exists []. repeat split.
  - simpl in H. apply andb_true_iff in H. destruct H as [Hg Hr].
    destruct (IH Hr) as [ins [E [O [W L]]]].
    destruct g as [q|idx ch]; simpl in Hg.
    + destruct (const_index q consts) as [k|] eqn:Ek; [|discriminate].
      exists (IConst k :: ins). simpl. rewrite Ek, E.
      unfold const_index in Ek. apply const_index_from_range in Ek.
      unfold i32_ok in Hc. repeat split.
      * rewrite O. unfold i32_ok. lia.
      * rewrite W. lia.
      * rewrite !zlen_cons. lia.
    + split_andb. destruct (nth_z before idx) as [no|] eqn:En; [|discriminate].
      exists (IOut idx (Z.of_nat ch) :: ins). simpl. rewrite E, En.
      apply nth_z_some in En. destruct En as [En0 _].
      repeat split.
      * rewrite O. match goal with Hi : i32_ok idx = true, Hh : i32_ok (Z.of_nat ch) = true |- _ => rewrite Hi, Hh end.
        replace (0 <=? idx) with true by (symmetry; apply Z.leb_le; lia). reflexivity.
      * rewrite W. lia.
      * rewrite !zlen_cons. lia.
Qed.

Lemma conv_units_ok : forall consts nctl gs before,
  i32_ok (zlen consts) = true ->
  gunits_ok consts nctl before gs = true ->
  exists us, conv_units consts gs = Some us
             /\ forallb ugen_ok us = true
             /\ units_wf (zlen consts) nctl before us = true
             /\ zlen us = zlen gs.
Proof.
  intros consts nctl gs. induction gs as [|g r IH]; intros before Hc H.
  - exists []. repeat split.
  - simpl in H. apply andb_true_iff in H. destruct H as [Hg Hr].
    destruct (IH _ Hc Hr) as [us [E [O [W L]]]].
    unfold gunit_ok in Hg. split_andb.
    match goal with Hi : forallb (ginp_ok consts before) _ = true |- _ =>
      destruct (conv_inps_ok consts before _ Hc Hi) as [ins [Ei [Oi [Wi Li]]]] end.
    destruct (rate_num_ok (Graph.g_rate g)) as [Rr Ri].
    exists (mkUgen (bs_of_string (Graph.g_cls g)) (Graph.rate_num (Graph.g_rate g)) ins
                   (repeat (Graph.rate_num (Graph.g_rate g)) (Graph.g_nouts g)) (Graph.g_special g) :: us).
    simpl. unfold conv_unit. rewrite Ei, E. repeat split.
    + rewrite O. unfold ugen_ok. simpl. rewrite zlen_repeat, Li.
      rewrite (forallb_repeat i8_ok _ _ Ri), Oi.
      repeat match goal with Hx : ?b = true |- context [?b] => rewrite Hx end. reflexivity.
    + rewrite zlen_repeat. rewrite W. unfold ugen_wf. simpl. rewrite zlen_repeat.
      rewrite (forallb_repeat rate_ok _ _ Rr), Wi, Rr.
      repeat match goal with Hx : ?b = true |- context [?b] => rewrite Hx end. reflexivity.
    + rewrite !zlen_cons. lia.
Qed.

Lemma zlen_map : forall {A B} (f : A -> B) l, zlen (map f l) = zlen l.
Proof. intros; unfold zlen; rewrite map_length; reflexivity. Qed.

Lemma forallb_map_all : forall {A B} (f : A -> B) (p : B -> bool) l, (forall x, p (f x) = true) -> forallb p (map f l) = true.
Proof. intros A B f p l H; induction l as [|x l IH]; simpl; [reflexivity | rewrite H, IH; reflexivity]. Qed.

(* the structure of a compiled graph that satisfies graph_ok is well-formed *)
Lemma to_sdef_wf_l : forall f32 name pnames g,
  (forall q, w32_ok (f32 q) = true) ->
  names_ok name pnames (zlen (Graph.gr_controls g)) = true ->
  graph_ok g = true ->
  exists d, to_sdef f32 name pnames g = Some d /\ wf_def d = true.
Proof.
  intros f32 name pnames g Hf Hn Hg. unfold graph_ok in Hg. unfold names_ok in Hn. split_andb.
  match goal with Hu : gunits_ok _ _ _ _ = true, Hc : i32_ok (zlen (Graph.gr_consts g)) = true |- _ =>
    destruct (conv_units_ok _ _ _ _ Hc Hu) as [us [E [O [W L]]]] end.
  unfold to_sdef. rewrite E. eexists. split; [reflexivity|].
  unfold wf_def, def_ok. simpl. rewrite !zlen_map, L.
  rewrite (forallb_map_all f32 w32_ok (Graph.gr_consts g) Hf), (forallb_map_all f32 w32_ok (Graph.gr_controls g) Hf).
  rewrite O, W.
  repeat match goal with Hx : ?b = true |- context [?b] => rewrite Hx end. reflexivity.
Qed.

(* ... hence its bytes exist and parse back to it *)
Lemma to_sdef_roundtrip_l : forall f32 name pnames g,
  (forall q, w32_ok (f32 q) = true) ->
  names_ok name pnames (zlen (Graph.gr_controls g)) = true ->
  graph_ok g = true ->
  exists d bs, to_sdef f32 name pnames g = Some d /\ wf_def d = true
               /\ write_def d = Some bs /\ parse_def bs = Ok d.
Proof.
  intros f32 name pnames g Hf Hn Hg.
  destruct (to_sdef_wf_l f32 name pnames g Hf Hn Hg) as [d [E W]].
  pose proof (wf_def_sound_l d W) as [_ [_ [_ [bs Hb]]]].
  exists d, bs. repeat split; try assumption. apply scgf_roundtrip_l; exact Hb.
Qed.

(* structural part + size part = graph_ok *)
Lemma gunits_core_small : forall consts nctl gs before,
  gunits_core consts nctl before gs = true -> forallb gunit_small gs = true ->
  gunits_ok consts nctl before gs = true.
Proof.
  intros consts nctl gs; induction gs as [|g r IH]; intros before Hc Hs; [reflexivity|].
  cbn [gunits_core forallb] in Hc, Hs. cbn [gunits_ok].
  apply andb_true_iff in Hc. destruct Hc as [Hg Hr]. apply andb_true_iff in Hs. destruct Hs as [Sg Sr].
  apply andb_true_iff. split; [|apply IH; assumption].
  unfold gunit_core in Hg. unfold gunit_small in Sg. unfold gunit_ok. split_andb.
  assert (Hin : forallb (ginp_ok consts before) (Graph.g_ins g) = true).
  { match goal with Ha : forallb (ginp_core consts before) _ = true, Hb : forallb ginp_small _ = true |- _ =>
      rewrite forallb_forall in Ha, Hb; apply forallb_forall; intros x Hx; specialize (Ha x Hx); specialize (Hb x Hx);
      destruct x as [q|idx ch]; simpl in Ha, Hb |- *; [assumption | rewrite Hb, Ha; reflexivity] end. }
  rewrite Hin.
  repeat match goal with Hx : ?b = true |- context [?b] => rewrite Hx end. reflexivity.
Qed.

Lemma graph_core_small_ok : forall g, graph_core_ok g = true -> graph_small g = true -> graph_ok g = true.
Proof.
  intros g Hc Hs. unfold graph_core_ok in Hc. unfold graph_small in Hs. unfold graph_ok. split_andb.
  rewrite (gunits_core_small _ _ _ _ Hc) by assumption.
  repeat match goal with Hx : ?b = true |- context [?b] => rewrite Hx end. reflexivity.
Qed.

(* every compiled program, GIVEN the compiler's well-formedness theorem (compile_wf: C01/C20's
   obligation -- inputs refer to collected constants / strictly earlier units, control units inside
   the control array, field ranges) as an explicit hypothesis *)
Lemma compiled_roundtrip_partial_l : forall (cmp : Graph.prog -> Graph.res Graph.graph),
  (forall p g, cmp p = Graph.Ok g -> graph_core_ok g = true) ->   (* compile_wf *)
  forall f32 name pnames p g,
  (forall q, w32_ok (f32 q) = true) ->
  cmp p = Graph.Ok g ->
  graph_small g = true ->
  names_ok name pnames (zlen (Graph.gr_controls g)) = true ->
  exists d bs, to_sdef f32 name pnames g = Some d /\ wf_def d = true
               /\ write_def d = Some bs /\ parse_def bs = Ok d.
Proof.
  intros cmp compile_wf f32 name pnames p g Hf Hc Hs Hn.
  apply to_sdef_roundtrip_l; try assumption. apply graph_core_small_ok; [exact (compile_wf p g Hc) | exact Hs].
Qed.

(* the Prop reading of graph_ok for unit inputs (what C01/C20 have to prove about compile) *)
Lemma graph_ok_inputs_earlier_l : forall g, graph_ok g = true ->
  forall f32 name pnames d, to_sdef f32 name pnames g = Some d ->
  (forall q, w32_ok (f32 q) = true) -> names_ok name pnames (zlen (Graph.gr_controls g)) = true ->
  forall pos u j c, nth_error (d_units d) pos = Some u -> In (IOut j c) (u_ins u) ->
    (Z.to_nat j < pos)%nat /\ exists v, nth_error (d_units d) (Z.to_nat j) = Some v /\ 0 <= c < zlen (u_outs v).
Proof.
  intros g Hg f32 name pnames d Hd Hf Hn.
  destruct (to_sdef_wf_l f32 name pnames g Hf Hn Hg) as [d' [E W]].
  rewrite Hd in E. inversion E; subst d'. exact (wf_inputs_earlier d W).
Qed.

(* ------------------------------------------------------------------ *)
(* order part + local part = structural part *)
Lemma nth_z_app1 : forall {A} (a b : list A) i x, nth_z a i = Some x -> nth_z (a ++ b) i = Some x.
Proof.
  intros A a b i x H. unfold nth_z in *. destruct (i <? 0); [discriminate|].
  rewrite nth_error_app1; [exact H|]. apply nth_error_Some. rewrite H. discriminate.
Qed.

Lemma nth_z_lt_some : forall {A} (l : list A) i, 0 <= i < zlen l -> exists x, nth_z l i = Some x.
Proof.
  intros A l i Hi. unfold nth_z. replace (i <? 0) with false by (symmetry; apply Z.ltb_ge; lia).
  destruct (nth_error l (Z.to_nat i)) as [x|] eqn:E; [eexists; reflexivity|].
  apply nth_error_None in E. unfold zlen in Hi. lia.
Qed.

Lemma gunits_order_local_core : forall consts nctl rest pre,
  gunits_order consts (zlen pre) rest = true ->
  forallb (gunit_local nctl (pre ++ rest)) rest = true ->
  gunits_core consts nctl (map (fun g => Z.of_nat (Graph.g_nouts g)) pre) rest = true.
Proof.
  intros consts nctl rest; induction rest as [|g r IH]; intros pre Ho Hl; [reflexivity|].
  cbn [gunits_order forallb] in Ho, Hl. cbn [gunits_core].
  apply andb_true_iff in Ho. destruct Ho as [Hog Hor]. apply andb_true_iff in Hl. destruct Hl as [Hlg Hlr].
  apply andb_true_iff. split.
  - unfold gunit_local in Hlg. unfold gunit_core. split_andb.
    assert (Hin : forallb (ginp_core consts (map (fun g0 => Z.of_nat (Graph.g_nouts g0)) pre)) (Graph.g_ins g) = true).
    { match goal with Hc : forallb (ginp_chan _) _ = true |- _ =>
        rewrite forallb_forall in Hog, Hc; apply forallb_forall; intros x Hx; specialize (Hog x Hx); specialize (Hc x Hx);
        destruct x as [q|idx ch]; simpl in Hog, Hc |- *; [exact Hog|];
        assert (Hr : 0 <= idx < zlen pre) by lia;
        destruct (nth_z_lt_some pre idx Hr) as [V HV];
        rewrite nth_z_map, HV; simpl;
        rewrite (nth_z_app1 pre (g :: r) idx V HV) in Hc; exact Hc end. }
    rewrite Hin.
    repeat match goal with Hx : ?b = true |- context [?b] => rewrite Hx end. reflexivity.
  - replace (map (fun g0 => Z.of_nat (Graph.g_nouts g0)) pre ++ [Z.of_nat (Graph.g_nouts g)])
      with (map (fun g0 => Z.of_nat (Graph.g_nouts g0)) (pre ++ [g])) by (rewrite map_app; reflexivity).
    apply IH.
    + rewrite zlen_app. change (zlen [g]) with 1. exact Hor.
    + rewrite <- app_assoc. exact Hlr.
Qed.

Lemma graph_order_local_core : forall g, graph_order_ok g = true -> graph_local_ok g = true -> graph_core_ok g = true.
Proof.
  intros g Ho Hl. unfold graph_core_ok. exact (gunits_order_local_core _ _ (Graph.gr_units g) [] Ho Hl).
Qed.
