(* C18 -- composition of the matcher theorem (well-formed text = OSC 1.0 language) with the dispatch
   invariant: who is invoked by an incoming message, stated directly. *)
From Coq Require Import ZArith List Bool Lia Arith.
Import ListNotations.
Require Import SC3.model.OscMatch SC3.model.OscBundleParse SC3.model.Dispatch.
Require Import SC3.proofs.C18_match SC3.proofs.C18_text SC3.proofs.C18_illformed SC3.proofs.C18_dispatch.
Open Scope Z_scope.

Lemma mres_eqb_true : forall x, mres_eqb x MTrue = true <-> x = MTrue.
Proof. destruct x; simpl; split; intro H; try discriminate; reflexivity. Qed.

Lemma matches_lang : forall m ts k, pat_text ts (m_addr m) -> (matches m k = true <-> osc_lang ts k).
Proof. intros m ts k H. unfold matches. rewrite mres_eqb_true. apply pat_text_correct. assumption. Qed.

(* the specification: responder id must be invoked by message m *)
Definition must_fire (st : dstate) (ts : list otok) (m : omsg) (src : Z * Z) (port : Z) (id : nat) : Prop :=
  exists r, nth_error (resps st) id = Some r /\ r_enabled r = true /\ accepts r m src port = true /\
            (if r_matching r then osc_lang ts (r_path r) else r_path r = m_addr m).

Lemma fires_m_must : forall st ts m src port id, pat_text ts (m_addr m) ->
  (fires_m st m src port id = true <->
   exists r, nth_error (resps st) id = Some r /\ r_enabled r = true /\ r_matching r = true /\
             osc_lang ts (r_path r) /\ accepts r m src port = true).
Proof.
  intros st ts m src port id Hp. unfold fires_m. destruct (nth_error (resps st) id) as [r|].
  - rewrite !andb_true_iff, (matches_lang m ts (r_path r) Hp). split.
    + intros [[[H1 H2] H3] H4]. exists r. auto.
    + intros (r' & E & H1 & H2 & H3 & H4). inversion E; subst. auto.
  - split; [discriminate | intros (r' & E & _); discriminate].
Qed.

Lemma fires_exact_must : forall st m src port id,
  (fires st false (m_addr m) m src port id = true <->
   exists r, nth_error (resps st) id = Some r /\ r_enabled r = true /\ r_matching r = false /\
             r_path r = m_addr m /\ accepts r m src port = true).
Proof.
  intros st m src port id. unfold fires. destruct (nth_error (resps st) id) as [r|].
  - rewrite !andb_true_iff. split.
    + intros [[[H1 H2] H3] H4]. exists r. apply eqb_prop in H2. apply bytes_eqb_eq in H3. auto.
    + intros (r' & E & H1 & H2 & H3 & H4). inversion E; subst. rewrite H2, <- H3, bytes_eqb_refl. auto.
  - split; [discriminate | intros (r' & E & _); discriminate].
Qed.

(* ---- frame: a dispatcher only touches the responders it invokes ------------------------------------------ *)
Lemma nth_disable_other : forall st j id, id <> j -> nth_error (resps (disable st j)) id = nth_error (resps st) id.
Proof.
  intros st j id Hne. unfold disable. destruct (nth_error (resps st) j) as [r|] eqn:Hn; [|reflexivity].
  destruct (r_enabled r); [|reflexivity]. simpl. apply nth_set_resp_other; [apply nth_error_Some; congruence | assumption].
Qed.
Lemma nth_run_func_other : forall f st j id, id <> j -> nth_error (resps (fst (run_func st j f))) id = nth_error (resps st) id.
Proof. induction f as [tag | g IH]; intros; simpl; [reflexivity|]. rewrite IH by assumption. apply nth_disable_other. assumption. Qed.
Lemma nth_call_all_other : forall l st m t src port id, ~ In id (map w_id l) ->
  nth_error (resps (fst (call_all st l m t src port))) id = nth_error (resps st) id.
Proof.
  induction l as [| w l IH]; intros st m t src port id Hn; simpl; [reflexivity|].
  simpl in Hn. destruct (call_wrapped_spec st w m t src port) as [[_ Hc] | [_ Hc]]; rewrite Hc.
  - set (st1 := fst (run_func st (w_id w) (w_func w))).
    pose proof (IH st1 m t src port id ltac:(tauto)) as H. destruct (call_all st1 l m t src port) as [st2 o2]. simpl in *.
    rewrite H. apply nth_run_func_other. intro; subst; tauto.
  - pose proof (IH st m t src port id ltac:(tauto)) as H. destruct (call_all st l m t src port) as [st2 o2]. simpl in *. assumption.
Qed.

Definition rkind (st : dstate) (id : nat) : option bool := option_map r_matching (nth_error (resps st) id).
Lemma rkind_disable : forall st j id, rkind (disable st j) id = rkind st id.
Proof.
  intros st j id. unfold disable. destruct (nth_error (resps st) j) as [r|] eqn:Hn; [|reflexivity].
  destruct (r_enabled r); [|reflexivity]. unfold rkind. simpl.
  assert (Hl : (j < length (resps st))%nat) by (apply nth_error_Some; congruence).
  destruct (Nat.eq_dec id j) as [-> | Hne].
  - rewrite (nth_set_resp_same st j r _ Hn), Hn. reflexivity.
  - rewrite nth_set_resp_other by assumption. reflexivity.
Qed.
Lemma rkind_run_func : forall f st j id, rkind (fst (run_func st j f)) id = rkind st id.
Proof. induction f as [tag | g IH]; intros; simpl; [reflexivity | rewrite IH; apply rkind_disable]. Qed.
Lemma rkind_call_all : forall l st m t src port id, rkind (fst (call_all st l m t src port)) id = rkind st id.
Proof.
  induction l as [| w l IH]; intros st m t src port id; simpl; [reflexivity|].
  destruct (call_wrapped_spec st w m t src port) as [[_ Hc] | [_ Hc]]; rewrite Hc.
  - set (st1 := fst (run_func st (w_id w) (w_func w))).
    pose proof (IH st1 m t src port id) as H. destruct (call_all st1 l m t src port) as [st2 o2]. simpl in *.
    rewrite H. apply rkind_run_func.
  - pose proof (IH st m t src port id) as H. destruct (call_all st l m t src port) as [st2 o2]. simpl in *. assumption.
Qed.

(* the exact dispatcher leaves every matching responder as it was *)
Lemma exact_d_frame : forall st m t src port id, Inv st ->
  fires_m (fst (dispatch_exact_d st m t src port)) m src port id = fires_m st m src port id.
Proof.
  intros st m t src port id HI. unfold dispatch_exact_d.
  destruct (tbl_get (act_exact st) (m_addr m)) as [l|] eqn:Eg; [|reflexivity].
  pose proof (inv_tbl st HI false (m_addr m)) as Ht. unfold ids_at, tbl in Ht. rewrite Eg in Ht.
  destruct (in_dec Nat.eq_dec id (map w_id l)) as [Hin | Hnin].
  - (* an exact responder: fires_m is false before and after *)
    rewrite Ht in Hin. apply filter_In in Hin as [_ Hk]. unfold has_key in Hk.
    pose proof (rkind_call_all l st m t src port id) as Hr. unfold rkind in Hr. unfold fires_m.
    destruct (nth_error (resps st) id) as [r|]; [|discriminate].
    apply andb_true_iff in Hk as [Hk _]. apply eqb_prop in Hk.
    destruct (nth_error (resps (fst (call_all st l m t src port))) id) as [r'|]; simpl in Hr; [|discriminate].
    inversion Hr as [Hr']. rewrite Hr', Hk. rewrite !andb_false_r. reflexivity.
  - unfold fires_m. rewrite (nth_call_all_other l st m t src port id Hnin). reflexivity.
Qed.

(* ---- the composed statement ---------------------------------------------------------------------------------- *)
Lemma incoming_fires_exactly : forall st ts m t src port, Inv2 st -> pat_text ts (m_addr m) ->
  NoDup (map i_id (snd (incoming st m t src port)))
  /\ (forall id, In id (map i_id (snd (incoming st m t src port))) <-> must_fire st ts m src port id)
  /\ (forall i, In i (snd (incoming st m t src port)) ->
        i_msg i = m /\ i_time i = t /\ i_src i = src /\ i_port i = port
        /\ exists r, nth_error (resps st) (i_id i) = Some r /\ i_tag i = user_tag (r_func r)).
Proof.
  intros st ts m t src port HI2 Hp. pose proof HI2 as [HI HF].
  assert (Hpart3 : forall i, In i (snd (incoming st m t src port)) ->
            i_msg i = m /\ i_time i = t /\ i_src i = src /\ i_port i = port
            /\ exists r, nth_error (resps st) (i_id i) = Some r /\ i_tag i = user_tag (r_func r)).
  { intros i Hi. destruct (proj1 (incoming_spec st m t src port HI) i Hi) as (_ & H1 & H2 & H3 & H4).
    repeat split; try assumption. apply (invoked_current st m t src port HI2 i Hi). }
  split; [|split; [|exact Hpart3]].
  - (* each once *)
    unfold incoming.
    pose proof (exact_ids st m t src port HI) as Hex.
    assert (HI1 : Inv (fst (dispatch_exact_d st m t src port))).
    { unfold dispatch_exact_d. destruct (tbl_get (act_exact st) (m_addr m)); [apply Inv_call_all|]; assumption. }
    pose proof (exact_d_frame st m t src port) as Hfr.
    destruct (dispatch_exact_d st m t src port) as [st1 o1]. simpl in *.
    destruct (match_exactly_once st1 m t src port HI1) as [Hnd Hin].
    destruct (dispatch_match_d st1 m t src port) as [st2 o2]. simpl in *.
    rewrite map_app. apply NoDup_app_disj.
    + rewrite Hex. apply NoDup_filter, (inv_nodup st HI).
    + assumption.
    + intros id H1 H2. rewrite Hex in H1. apply filter_In in H1 as [_ H1]. apply Hin in H2. rewrite (Hfr id HI) in H2.
      apply fires_exact_must in H1 as (r & E & _ & Hk & _). unfold fires_m in H2. rewrite E, Hk in H2.
      rewrite andb_false_r in H2. discriminate.
  - (* exactly those *)
    intro id. unfold incoming.
    pose proof (exact_ids st m t src port HI) as Hex.
    assert (HI1 : Inv (fst (dispatch_exact_d st m t src port))).
    { unfold dispatch_exact_d. destruct (tbl_get (act_exact st) (m_addr m)); [apply Inv_call_all|]; assumption. }
    pose proof (exact_d_frame st m t src port id HI) as Hfr.
    destruct (dispatch_exact_d st m t src port) as [st1 o1]. simpl in *.
    destruct (match_exactly_once st1 m t src port HI1) as [_ Hin].
    destruct (dispatch_match_d st1 m t src port) as [st2 o2]. simpl in *.
    rewrite map_app, in_app_iff, Hex, (Hin id), Hfr, filter_In, (fires_m_must st ts m src port id Hp), fires_exact_must.
    unfold must_fire. split.
    + intros [[_ (r & E & H1 & H2 & H3 & H4)] | (r & E & H1 & H2 & H3 & H4)]; exists r; rewrite H2; auto.
    + intros (r & E & H1 & H2 & H3). destruct (r_matching r) eqn:Ek.
      * right. exists r. auto.
      * left. split; [apply (inv_enabled st HI); unfold enabled; rewrite E; assumption | exists r; auto].
Qed.

(* an address that is not a well-formed pattern (re.error) fires no matching responder, and the
   exact dispatcher is unaffected *)
Lemma reg_entries_nil : forall st, reg_entries st [] = [].
Proof.
  intro st. unfold reg_entries. induction (cmdp st) as [| id l IH]; [reflexivity|].
  cbn [flat_map]. rewrite IH, app_nil_r. destruct (nth_error (resps st) id) as [r|]; [|reflexivity].
  simpl. rewrite andb_false_r. reflexivity.
Qed.
Lemma reerror_fires_nothing : forall st m t src port,
  (forall k, osc_rematch (m_addr m) k = MReError) -> dispatch_match_d st m t src port = (st, []).
Proof.
  intros st m t src port H. unfold dispatch_match_d. destruct (act_match st) as [| [k l] ks]; simpl.
  - rewrite reg_entries_nil. reflexivity.
  - rewrite (H k). reflexivity.
Qed.
Lemma rematch_error_any_key : forall p k k', osc_rematch p k = MReError -> osc_rematch p k' = MReError.
Proof.
  intros p k k' H. unfold osc_rematch, osc_rematch_gen in *.
  destruct (re_parse (rewrite Repaired p)); [destruct (rmatch a k); discriminate | reflexivity | discriminate].
Qed.

(* ---- how a responder comes to be enabled or not --------------------------------------------------------------- *)
Lemma enabled_enable_self : forall st id, (id < length (resps st))%nat -> enabled (enable st id) id = true.
Proof.
  intros st id Hl. unfold enable. destruct (nth_error (resps st) id) as [r|] eqn:Hn; [|apply nth_error_None in Hn; lia].
  destruct (r_enabled r) eqn:He; [unfold enabled; rewrite Hn; assumption|].
  unfold enabled. simpl. rewrite (nth_set_resp_same st id r _ Hn). reflexivity.
Qed.

Lemma cmd_period_fold_mono : forall l st id,
  enabled (fold_left (fun s j => if existsb (Nat.eqb j) (cmdp s) then free s j else s) l st) id = true -> enabled st id = true.
Proof.
  induction l as [| j l IH]; intros st id H; simpl in H; [assumption|].
  apply IH in H. destruct (existsb (Nat.eqb j) (cmdp st)); [apply enabled_disable_mono in H|]; assumption.
Qed.
Lemma cmd_period_fold_off : forall l st id, Inv st -> In id l ->
  enabled (fold_left (fun s j => if existsb (Nat.eqb j) (cmdp s) then free s j else s) l st) id = false.
Proof.
  induction l as [| j l IH]; intros st id HI Hin; [contradiction|]. simpl.
  set (s1 := if existsb (Nat.eqb j) (cmdp st) then free st j else st).
  assert (HI1 : Inv s1) by (unfold s1; destruct (existsb (Nat.eqb j) (cmdp st)); [apply Inv_free|]; assumption).
  destruct Hin as [-> | Hin]; [|apply IH; assumption].
  assert (Hoff : enabled s1 id = false).
  { unfold s1. destruct (existsb (Nat.eqb id) (cmdp st)) eqn:E; [apply enabled_disable_self|].
    destruct (enabled st id) eqn:Een; [|reflexivity]. apply (inv_enabled st HI) in Een.
    assert (existsb (Nat.eqb id) (cmdp st) = true) by (apply existsb_exists; exists id; split; [assumption | apply Nat.eqb_refl]).
    congruence. }
  destruct (enabled (fold_left _ l s1) id) eqn:E; [|reflexivity]. apply cmd_period_fold_mono in E. congruence.
Qed.
Lemma cmd_period_disables_all : forall st id, Inv st -> enabled (cmd_period st) id = false.
Proof.
  intros st id HI. destruct (enabled (cmd_period st) id) eqn:E; [|reflexivity].
  pose proof E as E'. unfold cmd_period in E'. apply cmd_period_fold_mono in E'.
  apply (inv_enabled st HI) in E'. unfold cmd_period in E. rewrite cmd_period_fold_off in E; [discriminate | assumption | assumption].
Qed.

(* a one-shot responder that fires is not enabled when the message has been handled *)
Lemma call_all_oneshot_off : forall l st m t src port,
  forall i, In i (snd (call_all st l m t src port)) ->
  exists w, In w l /\ i_id i = w_id w /\
            (forall g, w_func w = FOneShot g -> enabled (fst (call_all st l m t src port)) (w_id w) = false).
Proof.
  induction l as [| w l IH]; intros st m t src port i Hi; simpl in *; [contradiction|].
  destruct (call_wrapped_spec st w m t src port) as [[Ha Hc] | [Ha Hc]].
  - pose proof (oneshot_disables st w m t src port) as Hos. rewrite Hc in *. simpl in Hos.
    set (st1 := fst (run_func st (w_id w) (w_func w))) in *.
    pose proof (IH st1 m t src port) as IH1. destruct (call_all_spec l st1 m t src port) as (_ & _ & Hmono & _).
    destruct (call_all st1 l m t src port) as [st2 o2]. simpl in *.
    destruct Hi as [<- | Hi].
    + exists w. simpl. repeat split; [left; reflexivity|]. intros g Hg.
      destruct (enabled st2 (w_id w)) eqn:E; [|reflexivity]. apply Hmono in E.
      rewrite (Hos g Hg) in E; [discriminate | discriminate].
    + destruct (IH1 i Hi) as (w' & Hw' & Hid & Hoff). exists w'. repeat split; [right; assumption | assumption | assumption].
  - rewrite Hc in *. pose proof (IH st m t src port) as IH1.
    destruct (call_all st l m t src port) as [st2 o2]. simpl in *.
    destruct (IH1 i Hi) as (w' & Hw' & Hid & Hoff). exists w'. repeat split; [right; assumption | assumption | assumption].
Qed.

Lemma oneshot_fired_off : forall st m t src port i, Inv2 st -> In i (snd (incoming st m t src port)) ->
  (exists r g, nth_error (resps st) (i_id i) = Some r /\ r_func r = FOneShot g) ->
  enabled (fst (incoming st m t src port)) (i_id i) = false.
Proof.
  intros st m t src port i HI2 Hi (r & g & Er & Eg). pose proof HI2 as [HI HF]. unfold incoming in *.
  pose proof (Inv2_exact_d st m t src port HI2) as [HI1 HF1].
  assert (Hex : forall i0, In i0 (snd (dispatch_exact_d st m t src port)) ->
            exists w, In w (entries (act_exact st)) /\ i_id i0 = w_id w /\
                      (forall g0, w_func w = FOneShot g0 -> enabled (fst (dispatch_exact_d st m t src port)) (w_id w) = false)).
  { unfold dispatch_exact_d. destruct (tbl_get (act_exact st) (m_addr m)) as [l|] eqn:E; [|simpl; contradiction].
    intros i0 Hi0. destruct (call_all_oneshot_off l st m t src port i0 Hi0) as (w & Hw & Hid & Hoff).
    exists w. repeat split; [eapply tbl_get_entries; eassumption | assumption | assumption]. }
  assert (Hrf : forall id, rfunc (fst (dispatch_exact_d st m t src port)) id = rfunc st id).
  { unfold dispatch_exact_d. destruct (tbl_get (act_exact st) (m_addr m)) as [l|]; [apply call_all_tags | reflexivity]. }
  destruct (dispatch_exact_d st m t src port) as [st1 o1]. simpl in *.
  pose proof (call_all_oneshot_off (match_list st1 m) st1 m t src port) as Hm.
  pose proof (match_list_func st1 m) as Hlf. rewrite dmd_eq in *.
  destruct (call_all_spec (match_list st1 m) st1 m t src port) as (_ & _ & Hmono & _).
  destruct (call_all st1 (match_list st1 m) m t src port) as [st2 o2]. simpl in *.
  assert (Hcur : rfunc st (i_id i) = Some (FOneShot g)) by (unfold rfunc; rewrite Er; simpl; rewrite Eg; reflexivity).
  apply in_app_or in Hi as [Hi | Hi].
  - destruct (Hex i Hi) as (w & Hw & Hid & Hoff).
    pose proof (HF false w Hw) as Hok. unfold func_ok in Hok. rewrite <- Hid, Hcur in Hok. inversion Hok as [Hwf].
    destruct (enabled st2 (i_id i)) eqn:E; [|reflexivity].
    apply Hmono in E. rewrite Hid, (Hoff g (eq_sym Hwf)) in E. discriminate.
  - destruct (Hm i Hi) as (w & Hw & Hid & Hoff).
    pose proof (Hlf w Hw) as Hok. rewrite Hrf, <- Hid, Hcur in Hok. inversion Hok as [Hwf].
    rewrite Hid. apply (Hoff g). symmetry. assumption.
Qed.

Lemma enabled_disable_other : forall st j id, id <> j -> enabled (disable st j) id = enabled st id.
Proof. intros st j id H. unfold enabled. rewrite nth_disable_other by assumption. reflexivity. Qed.

Lemma illformed_address_fires_nothing : forall st m t src port k,
  osc_rematch (m_addr m) k = MReError -> dispatch_match_d st m t src port = (st, []).
Proof.
  intros st m t src port k H. apply reerror_fires_nothing. intro k'. eapply rematch_error_any_key. eassumption.
Qed.

(* ---- registration order under enable / disable / re-enable / function replacement -------------------------- *)
Lemma enable_goes_last : forall st id r, nth_error (resps st) id = Some r -> r_enabled r = false ->
  cmdp (enable st id) = cmdp st ++ [id].
Proof. intros st id r Hn He. unfold enable. rewrite Hn, He. reflexivity. Qed.
Lemma enable_enabled_noop : forall st id r, nth_error (resps st) id = Some r -> r_enabled r = true -> enable st id = st.
Proof. intros st id r Hn He. unfold enable. rewrite Hn, He. reflexivity. Qed.
Lemma disable_keeps_others : forall st id r, nth_error (resps st) id = Some r -> r_enabled r = true ->
  cmdp (disable st id) = filter (fun j => negb (Nat.eqb j id)) (cmdp st).
Proof. intros st id r Hn He. unfold disable. rewrite Hn, He. reflexivity. Qed.
Lemma set_func_keeps_place : forall st id f,
  cmdp (set_func st id f) = cmdp st /\ forall kind key, ids_at (tbl (set_func st id f) kind) key = ids_at (tbl st kind) key.
Proof.
  intros st id f. unfold set_func. destruct (nth_error (resps st) id) as [r|]; [|split; reflexivity].
  split; [reflexivity|]. intros kind key. unfold tbl. simpl.
  destruct kind; [destruct (r_enabled r && r_matching r) | destruct (r_enabled r && negb (r_matching r))];
    rewrite ?ids_at_update; reflexivity.
Qed.

