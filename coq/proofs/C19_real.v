(* C19 -- the 'cubed' shape over the reals, tied to the REGENERATED bi.pow (gen/Gen_builtinsR.v).
   Env._env_at:  cbrt_sl = bi.pow(start_level, c); cbrt_tl = bi.pow(target_level, c);
                 cbrt_level = pos * (cbrt_tl - cbrt_sl) + cbrt_sl;  return cbrt_level ** 3
   The segment starts at its start level only if bi.pow is odd in its base, as its own comment
   documents ("a >= 0 ? pow(a, b) : -pow(-a, b)").  pyR_pow reads math.pow as Rpower, which is a
   junk value for base 0, so the statements are about non-zero levels. *)
From Coq Require Import Reals Rpower Lra.
Require Import SC3.lib.PyReal SC3.gen.Gen_builtinsR.
Open Scope R_scope.

(* specification side: the documented sign-symmetric power *)
Definition spow (a b : R) : R := if Rle_dec 0 a then Rpower a b else - Rpower (- a) b.

Lemma pow_is_sign_symmetric a b : pyR_pow a b = spow a b.
Proof. unfold pyR_pow, spow. destruct (Rle_dec (IZR 0) a); reflexivity. Qed.

Definition cubR (c s t pos : R) : R :=
  let a := pyR_pow s c in let b := pyR_pow t c in
  let l := pos * (b - a) + a in l * l * l.

Lemma Rpower_pos x y : 0 < Rpower x y.
Proof. unfold Rpower. apply exp_pos. Qed.

Lemma spow_sign_neg a b : a < 0 -> spow a b < 0.
Proof. intros H. unfold spow. destruct (Rle_dec 0 a); [lra|]. pose proof (Rpower_pos (- a) b). lra. Qed.
Lemma spow_sign_pos a b : 0 < a -> 0 < spow a b.
Proof. intros H. unfold spow. destruct (Rle_dec 0 a); [apply Rpower_pos|lra]. Qed.

(* a cubed segment starts on the side of zero of its start level *)
Lemma cub_start_sign c s t : (s < 0 -> cubR c s t 0 < 0) /\ (0 < s -> 0 < cubR c s t 0).
Proof.
  unfold cubR. cbv zeta. rewrite !pow_is_sign_symmetric. split; intros H.
  - pose proof (spow_sign_neg s c H) as Ha. set (a := spow s c) in *. clearbody a.
    replace (0 * (spow t c - a) + a) with a by ring. assert (0 < a * a) by nra. nra.
  - pose proof (spow_sign_pos s c H) as Ha. set (a := spow s c) in *. clearbody a.
    replace (0 * (spow t c - a) + a) with a by ring. assert (0 < a * a) by nra. nra.
Qed.

Lemma Rpower_third_cubed u : 0 < u -> Rpower u (1 / 3) * Rpower u (1 / 3) * Rpower u (1 / 3) = u.
Proof.
  intros H. rewrite <- !Rpower_plus. replace (1 / 3 + 1 / 3 + 1 / 3) with 1 by field.
  apply Rpower_1. exact H.
Qed.

(* with the ideal exponent the segment starts exactly at its start level, whatever its sign *)
Lemma cub_start_ideal s t : s <> 0 -> cubR (1 / 3) s t 0 = s.
Proof.
  intros Hs. unfold cubR. cbv zeta. rewrite !pow_is_sign_symmetric.
  replace (0 * (spow t (1 / 3) - spow s (1 / 3)) + spow s (1 / 3)) with (spow s (1 / 3)) by ring.
  unfold spow. destruct (Rle_dec 0 s).
  - apply Rpower_third_cubed. lra.
  - replace (- Rpower (- s) (1 / 3) * - Rpower (- s) (1 / 3) * - Rpower (- s) (1 / 3))
      with (- (Rpower (- s) (1 / 3) * Rpower (- s) (1 / 3) * Rpower (- s) (1 / 3))) by ring.
    rewrite Rpower_third_cubed by lra. ring.
Qed.

Lemma cube_mono a b : a <= b -> a * a * a <= b * b * b.
Proof.
  intros H. assert (0 <= b * b + b * a + a * a) by nra.
  replace (b * b * b) with (a * a * a + (b - a) * (b * b + b * a + a * a)) by ring. nra.
Qed.

(* inside the segment the value stays between its values at the two ends *)
Lemma cub_between c s t pos : 0 <= pos <= 1 ->
  (cubR c s t 0 <= cubR c s t pos <= cubR c s t 1) \/ (cubR c s t 1 <= cubR c s t pos <= cubR c s t 0).
Proof.
  intros [H0 H1]. unfold cubR. cbv zeta. set (a := pyR_pow s c). set (b := pyR_pow t c). clearbody a b.
  replace (0 * (b - a) + a) with a by ring. replace (1 * (b - a) + a) with b by ring.
  destruct (Rle_dec a b); [left|right]; split; apply cube_mono; nra.
Qed.

(* ====================================================================================
   Deepening round: the other transcendental shapes of Env._env_at over the reals, written
   from the code with the REGENERATED kernels where the code calls them
   (bi.pow -> pyR_pow, bi.exp -> pyR_exp: Gen_builtinsR.v; bi.sqrt -> pyR_sqrt and the two
   float literals: Gen_envR.v). *)
From Coq Require Import R_sqrt Ranalysis MVT.
Require Import SC3.gen.Gen_envR.

Definition betweenR (a b v : R) : Prop := (a <= v <= b) \/ (b <= v <= a).

Lemma exp_mono_le x y : x <= y -> exp x <= exp y.
Proof. intros [H|H]; [left; apply exp_increasing; exact H|subst; right; reflexivity]. Qed.
Lemma exp_ge_1_plus x : 1 + x <= exp x.
Proof. destruct (Req_dec x 0) as [->|H]; [rewrite exp_0; lra|left; apply exp_ineq1; exact H]. Qed.

(* ---------------------------------------------------------------- exponential
   if start_level == 0.0: return 0.0
   return start_level * bi.pow(target_level / start_level, pos)
   Domain (documented): levels non-zero and of one sign, i.e. 0 < s * t. *)
Definition expR (s t pos : R) : R :=
  if Req_EM_T s 0 then 0 else s * pyR_pow (t / s) pos.

Lemma ratio_pos s t : 0 < s * t -> s <> 0 /\ 0 < t / s.
Proof.
  intros H. assert (Hs : s <> 0) by (intros ->; lra). split; [exact Hs|].
  assert (0 < / s * / s) by (assert (/ s <> 0) by (apply Rinv_neq_0_compat; exact Hs); nra).
  replace (t / s) with ((s * t) * (/ s * / s)) by (field; exact Hs). nra.
Qed.

Lemma Rpower_between r pos : 0 < r -> 0 <= pos <= 1 -> betweenR 1 r (Rpower r pos).
Proof.
  intros Hr [H0 H1]. unfold Rpower.
  destruct (Rle_dec 0 (ln r)) as [Hl|Hl].
  - left. split.
    + rewrite <- exp_0. apply exp_mono_le. nra.
    + rewrite <- (exp_ln r Hr) at 2. apply exp_mono_le. nra.
  - right. split.
    + rewrite <- (exp_ln r Hr) at 1. apply exp_mono_le. nra.
    + rewrite <- exp_0. apply exp_mono_le. nra.
Qed.

Lemma exp_segment s t : 0 < s * t ->
  expR s t 0 = s /\ expR s t 1 = t /\ (forall pos, 0 <= pos <= 1 -> betweenR s t (expR s t pos)).
Proof.
  intros H. destruct (ratio_pos s t H) as [Hs Hr]. unfold expR.
  destruct (Req_EM_T s 0) as [E|_]; [contradiction|].
  assert (Hp : forall pos, pyR_pow (t / s) pos = Rpower (t / s) pos).
  { intros pos. rewrite pow_is_sign_symmetric. unfold spow. destruct (Rle_dec 0 (t / s)); [reflexivity|lra]. }
  split; [rewrite Hp, Rpower_O by exact Hr; ring|].
  split; [rewrite Hp, Rpower_1 by exact Hr; field; exact Hs|].
  intros pos Hpos. rewrite Hp.
  pose proof (Rpower_between (t / s) pos Hr Hpos) as Hb.
  set (q := Rpower (t / s) pos) in *. clearbody q.
  assert (Ht : t = s * (t / s)) by (field; exact Hs).
  set (r := t / s) in *. clearbody r. subst t. unfold betweenR in *.
  destruct (Rle_dec 0 s); destruct Hb as [[? ?]|[? ?]]; [left|right|right|left]; split; nra.
Qed.

(* ---------------------------------------------------------------- numeric curvature
   if math.fabs(curve) < 0.0001: return pos * (target_level - start_level) + start_level
   fac = (1.0 - bi.exp(pos * curve)) / (1.0 - bi.exp(curve))
   return start_level + (target_level - start_level) * fac
   Domain: every curve value and all levels. *)
Definition curveR (c s t pos : R) : R :=
  if Rlt_dec (Rabs c) env_curve_epsR then pos * (t - s) + s
  else s + (t - s) * ((1 - pyR_exp (pos * c)) / (1 - pyR_exp c)).

Lemma curve_eps_pos : 0 < env_curve_epsR.
Proof. unfold env_curve_epsR. apply Rdiv_lt_0_compat; apply IZR_lt; reflexivity. Qed.

Lemma frac01 u v : 0 <= u <= v -> 0 < v -> 0 <= u / v <= 1.
Proof.
  intros [H0 H1] Hv. assert (Hi : 0 < / v) by (apply Rinv_0_lt_compat; exact Hv).
  assert (Hone : v * / v = 1) by (field; lra). unfold Rdiv. split; nra.
Qed.

Lemma curve_fac c pos : c <> 0 -> 0 <= pos <= 1 ->
  0 <= (1 - exp (pos * c)) / (1 - exp c) <= 1.
Proof.
  intros Hc [H0 H1]. destruct (Rlt_dec 0 c) as [Hp|Hn].
  - assert (He : 1 < exp c) by (rewrite <- exp_0; apply exp_increasing; exact Hp).
    assert (H2 : 1 <= exp (pos * c)) by (rewrite <- exp_0; apply exp_mono_le; nra).
    assert (H3 : exp (pos * c) <= exp c) by (apply exp_mono_le; nra).
    replace ((1 - exp (pos * c)) / (1 - exp c)) with ((exp (pos * c) - 1) / (exp c - 1)) by (field; lra).
    apply frac01; lra.
  - assert (Hc' : c < 0) by lra.
    assert (He : exp c < 1) by (rewrite <- exp_0; apply exp_increasing; exact Hc').
    assert (H2 : exp (pos * c) <= 1) by (rewrite <- exp_0; apply exp_mono_le; nra).
    assert (H3 : exp c <= exp (pos * c)) by (apply exp_mono_le; nra).
    apply frac01; lra.
Qed.

Lemma lin_betweenR s t pos : 0 <= pos <= 1 -> betweenR s t (pos * (t - s) + s).
Proof. intros [? ?]. unfold betweenR. destruct (Rle_dec s t); [left|right]; split; nra. Qed.
Lemma phi_betweenR s t f : 0 <= f <= 1 -> betweenR s t (s + (t - s) * f).
Proof. intros [? ?]. unfold betweenR. destruct (Rle_dec s t); [left|right]; split; nra. Qed.

Lemma curve_segment c s t :
  curveR c s t 0 = s /\ curveR c s t 1 = t /\ (forall pos, 0 <= pos <= 1 -> betweenR s t (curveR c s t pos)).
Proof.
  unfold curveR, pyR_exp. destruct (Rlt_dec (Rabs c) env_curve_epsR) as [Hl|Hl].
  - split; [ring|]. split; [ring|]. intros pos Hp. apply lin_betweenR. exact Hp.
  - assert (Hc : c <> 0).
    { intros ->. apply Hl. rewrite Rabs_R0. apply curve_eps_pos. }
    assert (Hd : 1 - exp c <> 0).
    { destruct (Rlt_dec 0 c).
      - assert (1 < exp c) by (rewrite <- exp_0; apply exp_increasing; lra). lra.
      - assert (exp c < 1) by (rewrite <- exp_0; apply exp_increasing; lra). lra. }
    split; [rewrite Rmult_0_l, exp_0; field; exact Hd|].
    split; [rewrite Rmult_1_l; field; exact Hd|].
    intros pos Hp. apply phi_betweenR, curve_fac; assumption.
Qed.

(* ---------------------------------------------------------------- squared
   sqrt_sl = bi.sqrt(start_level); sqrt_tl = bi.sqrt(target_level)
   sqrt_level = pos * (sqrt_tl - sqrt_sl) + sqrt_sl
   return sqrt_level * abs(sqrt_level)        (repaired; the snapshot returned sqrt_level * sqrt_level)
   bi.sqrt is sign-symmetric (x < 0 -> -sqrt(-x)); with the sign-keeping square the law holds for
   ALL levels; the snapshot's plain square agrees with it exactly when the levels are non-negative. *)
Definition sqrR (s t pos : R) : R :=
  let a := pyR_sqrt s in let b := pyR_sqrt t in let l := pos * (b - a) + a in l * Rabs l.
Definition sqrR_plain (s t pos : R) : R :=
  let a := pyR_sqrt s in let b := pyR_sqrt t in let l := pos * (b - a) + a in l * l.

Definition ssq (l : R) : R := l * Rabs l.
Lemma ssq_sqrt s : ssq (pyR_sqrt s) = s.
Proof.
  unfold ssq, pyR_sqrt. destruct (Rlt_dec s (IZR 0)) as [H|H].
  - rewrite Rabs_Ropp, (Rabs_pos_eq _ (sqrt_pos _)).
    replace (- sqrt (- s) * sqrt (- s)) with (- (sqrt (- s) * sqrt (- s))) by ring.
    rewrite sqrt_sqrt by lra. ring.
  - rewrite (Rabs_pos_eq _ (sqrt_pos _)). apply sqrt_sqrt. lra.
Qed.
Lemma ssq_mono a b : a <= b -> ssq a <= ssq b.
Proof.
  intros H. unfold ssq. destruct (Rle_dec 0 a), (Rle_dec 0 b).
  - rewrite !Rabs_pos_eq by assumption. nra.
  - lra.
  - rewrite (Rabs_pos_eq b) by assumption. rewrite (Rabs_left a) by lra. nra.
  - rewrite !Rabs_left by lra. nra.
Qed.

Lemma ssq_between a b pos : 0 <= pos <= 1 -> betweenR (ssq a) (ssq b) (ssq (pos * (b - a) + a)).
Proof.
  intros [H0 H1]. unfold betweenR. destruct (Rle_dec a b); [left|right]; split; apply ssq_mono; nra.
Qed.

Lemma sqr_segment s t :
  sqrR s t 0 = s /\ sqrR s t 1 = t /\ (forall pos, 0 <= pos <= 1 -> betweenR s t (sqrR s t pos)).
Proof.
  unfold sqrR. cbv zeta. fold (ssq (0 * (pyR_sqrt t - pyR_sqrt s) + pyR_sqrt s)).
  fold (ssq (1 * (pyR_sqrt t - pyR_sqrt s) + pyR_sqrt s)).
  replace (0 * (pyR_sqrt t - pyR_sqrt s) + pyR_sqrt s) with (pyR_sqrt s) by ring.
  replace (1 * (pyR_sqrt t - pyR_sqrt s) + pyR_sqrt s) with (pyR_sqrt t) by ring.
  split; [apply ssq_sqrt|]. split; [apply ssq_sqrt|].
  intros pos Hp. fold (ssq (pos * (pyR_sqrt t - pyR_sqrt s) + pyR_sqrt s)).
  pose proof (ssq_between (pyR_sqrt s) (pyR_sqrt t) pos Hp) as Hb.
  rewrite !ssq_sqrt in Hb. exact Hb.
Qed.

Lemma sqr_plain_nonneg s t pos : 0 <= s -> 0 <= t -> 0 <= pos <= 1 -> sqrR_plain s t pos = sqrR s t pos.
Proof.
  intros Hs Ht [H0 H1]. unfold sqrR_plain, sqrR, pyR_sqrt. cbv zeta.
  destruct (Rlt_dec s (IZR 0)); [lra|]. destruct (Rlt_dec t (IZR 0)); [lra|].
  pose proof (sqrt_pos s). pose proof (sqrt_pos t).
  rewrite Rabs_pos_eq by nra. reflexivity.
Qed.
(* and it cannot hold for a negative start level: the plain square is never negative *)
Lemma sqr_plain_negative_start s t : s < 0 -> sqrR_plain s t 0 <> s.
Proof.
  intros Hs. unfold sqrR_plain. cbv zeta.
  replace (0 * (pyR_sqrt t - pyR_sqrt s) + pyR_sqrt s) with (pyR_sqrt s) by ring.
  intros E. assert (0 <= pyR_sqrt s * pyR_sqrt s) by nra. lra.
Qed.

(* ---------------------------------------------------------------- cubed, the source's exponent
   value at the start: s * |s| ^ (3c - 1); it is the level itself iff 3c = 1 or |s| = 1. *)
Lemma cub_start_closed_form c s t : s <> 0 ->
  cubR c s t 0 = s * Rpower (Rabs s) (3 * c - 1).
Proof.
  intros Hs. unfold cubR. cbv zeta. rewrite !pow_is_sign_symmetric.
  replace (0 * (spow t c - spow s c) + spow s c) with (spow s c) by ring.
  assert (Hcube : forall u, 0 < u -> Rpower u c * Rpower u c * Rpower u c = u * Rpower u (3 * c - 1)).
  { intros u Hu. transitivity (Rpower u (c + c + c)); [rewrite !Rpower_plus; reflexivity|].
    transitivity (Rpower u (1 + (3 * c - 1))); [f_equal; ring|].
    rewrite Rpower_plus, Rpower_1 by exact Hu. reflexivity. }
  unfold spow. destruct (Rle_dec 0 s).
  - rewrite Rabs_pos_eq by assumption. apply Hcube. lra.
  - rewrite Rabs_left by lra.
    replace (- Rpower (- s) c * - Rpower (- s) c * - Rpower (- s) c)
      with (- (Rpower (- s) c * Rpower (- s) c * Rpower (- s) c)) by ring.
    rewrite Hcube by lra. ring.
Qed.

Lemma exp_minus_1_bound x : Rabs x < 1 -> Rabs (exp x - 1) <= Rabs x / (1 - Rabs x).
Proof.
  intros Hx. pose proof (exp_ge_1_plus x) as H1. pose proof (exp_ge_1_plus (- x)) as H2.
  pose proof (exp_pos x) as Hp. rewrite exp_Ropp in H2.
  destruct (Rle_dec 0 x) as [Hx0|Hx0].
  - rewrite (Rabs_pos_eq x) in * by assumption. rewrite Rabs_pos_eq by lra.
    assert (Hi : exp x <= / (1 - x)).
    { rewrite <- (Rinv_inv (exp x)). apply Rinv_le_contravar; lra. }
    replace (x / (1 - x)) with (/ (1 - x) - 1) by (field; lra). lra.
  - assert (exp x <= 1) by (rewrite <- exp_0; apply exp_mono_le; lra).
    rewrite (Rabs_left x) in * by lra. rewrite Rabs_left1 by lra.
    assert (0 < / (1 - - x)) by (apply Rinv_0_lt_compat; lra).
    assert (- x <= - x / (1 - - x)).
    { unfold Rdiv. replace (- x) with (- x * 1) at 1 by ring. apply Rmult_le_compat_l; [lra|].
      rewrite <- Rinv_1 at 1. apply Rinv_le_contravar; lra. }
    lra.
Qed.

(* how far the start of a cubed segment is from its level, for any exponent *)
Lemma cub_start_error c s t : s <> 0 ->
  let x := (3 * c - 1) * ln (Rabs s) in
  Rabs x < 1 -> Rabs (cubR c s t 0 - s) <= Rabs s * (Rabs x / (1 - Rabs x)).
Proof.
  intros Hs x Hx. rewrite cub_start_closed_form by exact Hs.
  replace (s * Rpower (Rabs s) (3 * c - 1) - s) with (s * (exp x - 1)) by (unfold Rpower, x; ring).
  rewrite Rabs_mult. apply Rmult_le_compat_l; [apply Rabs_pos|]. apply exp_minus_1_bound. exact Hx.
Qed.

Lemma cub_exponent_close : Rabs (3 * env_cub_exponentR - 1) <= 2 / 10000000.
Proof. unfold env_cub_exponentR. apply Rabs_le. split; lra. Qed.

(* the source's exponent 0.3333333: relative error at most 2.5e-7 * |ln |s||  (for |ln |s|| <= 1000) *)
Lemma cub_start_source_exponent s t : s <> 0 -> Rabs (ln (Rabs s)) <= 1000 ->
  Rabs (cubR env_cub_exponentR s t 0 - s) <= Rabs s * (Rabs (ln (Rabs s)) / 4000000).
Proof.
  intros Hs HL. pose proof cub_exponent_close as Hd.
  set (d := 3 * env_cub_exponentR - 1) in *. set (L := ln (Rabs s)) in *.
  assert (Hx : Rabs (d * L) <= 2 / 10000000 * Rabs L).
  { rewrite Rabs_mult. apply Rmult_le_compat_r; [apply Rabs_pos|exact Hd]. }
  pose proof (Rabs_pos L) as HL0.
  assert (Hx1 : Rabs (d * L) < 1) by lra.
  eapply Rle_trans; [apply (cub_start_error env_cub_exponentR s t Hs); exact Hx1|].
  apply Rmult_le_compat_l; [apply Rabs_pos|]. fold d L.
  set (x := Rabs (d * L)) in *. pose proof (Rabs_pos (d * L)) as Hx0. fold x in Hx0.
  assert (Hi : / (1 - x) <= 10000 / 9998).
  { rewrite <- (Rinv_inv (10000 / 9998)). apply Rinv_le_contravar; [lra|].
    replace (/ (10000 / 9998)) with (9998 / 10000) by field. lra. }
  unfold Rdiv at 1. assert (0 < / (1 - x)) by (apply Rinv_0_lt_compat; lra). nra.
Qed.
