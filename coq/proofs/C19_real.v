(* C19 -- the 'cubed' shape over the reals, tied to the REGENERATED bi.pow (gen/Gen_builtinsR.v).
   Env._env_at:  cbrt_sl = bi.pow(start_level, c); cbrt_tl = bi.pow(target_level, c);
                 cbrt_level = pos * (cbrt_tl - cbrt_sl) + cbrt_sl;  return cbrt_level ** 3
   The segment starts at its start level only if bi.pow is odd in its base, as its own comment
   documents ("a >= 0 ? pow(a, b) : -pow(-a, b)").  pyR_pow reads math.pow as Rpower, which is a
   junk value for base 0, so the statements are about non-zero levels. *)
From Coq Require Import Reals Rpower Lra.
Require Import SC3.lib.PyReal SC3.gen.Gen_builtinsR.
Open Scope R_scope.

(* specification side: the documented sign-symmetric power *)
Definition spow (a b : R) : R := if Rle_dec 0 a then Rpower a b else - Rpower (- a) b.

Lemma pow_is_sign_symmetric a b : pyR_pow a b = spow a b.
Proof. unfold pyR_pow, spow. destruct (Rle_dec (IZR 0) a); reflexivity. Qed.

Definition cubR (c s t pos : R) : R :=
  let a := pyR_pow s c in let b := pyR_pow t c in
  let l := pos * (b - a) + a in l * l * l.

Lemma Rpower_pos x y : 0 < Rpower x y.
Proof. unfold Rpower. apply exp_pos. Qed.

Lemma spow_sign_neg a b : a < 0 -> spow a b < 0.
Proof. intros H. unfold spow. destruct (Rle_dec 0 a); [lra|]. pose proof (Rpower_pos (- a) b). lra. Qed.
Lemma spow_sign_pos a b : 0 < a -> 0 < spow a b.
Proof. intros H. unfold spow. destruct (Rle_dec 0 a); [apply Rpower_pos|lra]. Qed.

(* a cubed segment starts on the side of zero of its start level *)
Lemma cub_start_sign c s t : (s < 0 -> cubR c s t 0 < 0) /\ (0 < s -> 0 < cubR c s t 0).
Proof.
  unfold cubR. cbv zeta. rewrite !pow_is_sign_symmetric. split; intros H.
  - pose proof (spow_sign_neg s c H) as Ha. set (a := spow s c) in *. clearbody a.
    replace (0 * (spow t c - a) + a) with a by ring. assert (0 < a * a) by nra. nra.
  - pose proof (spow_sign_pos s c H) as Ha. set (a := spow s c) in *. clearbody a.
    replace (0 * (spow t c - a) + a) with a by ring. assert (0 < a * a) by nra. nra.
Qed.

Lemma Rpower_third_cubed u : 0 < u -> Rpower u (1 / 3) * Rpower u (1 / 3) * Rpower u (1 / 3) = u.
Proof.
  intros H. rewrite <- !Rpower_plus. replace (1 / 3 + 1 / 3 + 1 / 3) with 1 by field.
  apply Rpower_1. exact H.
Qed.

(* with the ideal exponent the segment starts exactly at its start level, whatever its sign *)
Lemma cub_start_ideal s t : s <> 0 -> cubR (1 / 3) s t 0 = s.
Proof.
  intros Hs. unfold cubR. cbv zeta. rewrite !pow_is_sign_symmetric.
  replace (0 * (spow t (1 / 3) - spow s (1 / 3)) + spow s (1 / 3)) with (spow s (1 / 3)) by ring.
  unfold spow. destruct (Rle_dec 0 s).
  - apply Rpower_third_cubed. lra.
  - replace (- Rpower (- s) (1 / 3) * - Rpower (- s) (1 / 3) * - Rpower (- s) (1 / 3))
      with (- (Rpower (- s) (1 / 3) * Rpower (- s) (1 / 3) * Rpower (- s) (1 / 3))) by ring.
    rewrite Rpower_third_cubed by lra. ring.
Qed.

Lemma cube_mono a b : a <= b -> a * a * a <= b * b * b.
Proof.
  intros H. assert (0 <= b * b + b * a + a * a) by nra.
  replace (b * b * b) with (a * a * a + (b - a) * (b * b + b * a + a * a)) by ring. nra.
Qed.

(* inside the segment the value stays between its values at the two ends *)
Lemma cub_between c s t pos : 0 <= pos <= 1 ->
  (cubR c s t 0 <= cubR c s t pos <= cubR c s t 1) \/ (cubR c s t 1 <= cubR c s t pos <= cubR c s t 0).
Proof.
  intros [H0 H1]. unfold cubR. cbv zeta. set (a := pyR_pow s c). set (b := pyR_pow t c). clearbody a b.
  replace (0 * (b - a) + a) with a by ring. replace (1 * (b - a) + a) with b by ring.
  destruct (Rle_dec a b); [left|right]; split; apply cube_mono; nra.
Qed.
