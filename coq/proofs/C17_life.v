(* C17 -- creation and freeing of client objects: the creation command carries the object's own
   id; freeing emits the matching free command for every owned id exactly once and returns the
   ids to the allocator.  Statements are about what the object hands to server.addr
   (obj_step); C17_bind.v says how that reaches the wire inside / outside bind(). *)
From Coq Require Import ZArith QArith List String Bool Lia.
Import ListNotations.
Require Import SC3.model.ProtoGrammar SC3.model.Proto SC3.gen.Gen_proto.
Open Scope string_scope.
Open Scope Z_scope.
Open Scope list_scope.

(* ---- the regenerated add-action table against the command reference ---- *)

Lemma add_action_numbers :
  action_number (ActS "addToHead") = Some 0 /\ action_number (ActS "addToTail") = Some 1 /\
  action_number (ActS "addBefore") = Some 2 /\ action_number (ActS "addAfter") = Some 3 /\
  action_number (ActS "addReplace") = Some 4 /\
  action_number (ActS "head") = Some 0 /\ action_number (ActS "tail") = Some 1 /\
  action_number (ActS "before") = Some 2 /\ action_number (ActS "after") = Some 3 /\
  action_number (ActS "replace") = Some 4 /\
  action_number (ActS "h") = Some 0 /\ action_number (ActS "t") = Some 1 /\
  action_number (ActS "b") = Some 2 /\ action_number (ActS "a") = Some 3 /\
  action_number (ActS "r") = Some 4 /\
  action_number (ActI 0) = Some 0 /\ action_number (ActI 1) = Some 1 /\ action_number (ActI 2) = Some 2 /\
  action_number (ActI 3) = Some 3 /\ action_number (ActI 4) = Some 4.
Proof. repeat split; reflexivity. Qed.

Lemma lookup_range : forall (l : list (string * Z)) k a,
  Forall (fun p => 0 <= snd p <= 4) l -> lookup k l = Some a -> 0 <= a <= 4.
Proof.
  induction l as [|[k' v] t IH]; intros k a HF H; simpl in H; [discriminate|].
  inversion HF; subst. destruct (String.eqb k k'); [inversion H; subst; assumption | eauto].
Qed.
Lemma lookupZ_range : forall (l : list (Z * Z)) k a,
  Forall (fun p => 0 <= snd p <= 4) l -> lookupZ k l = Some a -> 0 <= a <= 4.
Proof.
  induction l as [|[k' v] t IH]; intros k a HF H; simpl in H; [discriminate|].
  inversion HF; subst. destruct (k' =? k); [inversion H; subst; assumption | eauto].
Qed.

Lemma action_number_range : forall act a, action_number act = Some a -> 0 <= a <= 4.
Proof.
  intros [s|z] a H; unfold action_number in H.
  - eapply lookup_range; [|exact H]. unfold add_actions_s. repeat constructor; simpl; lia.
  - eapply lookupZ_range; [|exact H]. unfold add_actions_i. repeat constructor; simpl; lia.
Qed.

(* ---- creation ---- *)

Definition new_index (s : st) : nat := List.length (nodes s).

Lemma get_node_add : forall s n, get_node (add_node s (Some n)) (List.length (nodes s)) = Some n.
Proof.
  intros s n. unfold get_node, add_node. simpl.
  rewrite nth_error_app2 by lia. rewrite Nat.sub_diag. reflexivity.
Qed.
Lemma get_buf_add : forall s b, get_buf (add_buf s (Some b)) (List.length (bufs s)) = Some b.
Proof.
  intros s b. unfold get_buf, add_buf. simpl.
  rewrite nth_error_app2 by lia. rewrite Nat.sub_diag. reflexivity.
Qed.

Lemma create_group : forall V s par nid tg act a,
  target_ok s tg = true -> action_number act = Some a ->
  obj_step V s (OGroup par nid tg act) =
  (add_node s (Some (mkNode (PInt nid) NGroup)),
   [SMsg [PStr (if par then "/p_new" else "/g_new"); PInt nid; PInt a; target_id s tg]], None).
Proof.
  intros V s par nid tg act a Ht Ha. unfold obj_step; cbn [maps_ok op_args forallb]; unfold obj_step_core. rewrite Ht, Ha. simpl. destruct par; reflexivity.
Qed.

Lemma create_synth : forall V s nid def args tg act a,
  pv_maps_ok s args = true -> target_ok s tg = true -> action_number act = Some a ->
  obj_step V s (OSynth SInit nid def args tg act) =
  (add_node s (Some (mkNode (PInt nid) NSynth)),
   [SMsg (PStr "/s_new" :: PStr def :: PInt nid :: PInt a :: target_id s tg :: oal (v_dict_brackets V) s (args_or_empty args))], None).
Proof.
  intros V s nid def args tg act a Hm Ht Ha. unfold obj_step, maps_ok. cbn [op_args forallb]. rewrite Hm. cbn [andb].
  unfold obj_step_core. rewrite Ht, Ha. reflexivity.
Qed.

Lemma create_synth_paused : forall V s nid def args tg act a,
  pv_maps_ok s args = true -> target_ok s tg = true -> action_number act = Some a ->
  obj_step V s (OSynth SPaused nid def args tg act) =
  (add_node s (Some (mkNode (PInt nid) NSynth)),
   [SBundle PNone [PStr "/s_new" :: PStr def :: PInt nid :: PInt a :: target_id s tg :: oal (v_dict_brackets V) s (args_or_empty args);
                   [PStr "/n_run"; PInt nid; PInt 0]]], None).
Proof.
  intros V s nid def args tg act a Hm Ht Ha. unfold obj_step, maps_ok. cbn [op_args forallb]. rewrite Hm. cbn [andb].
  unfold obj_step_core. rewrite Ht, Ha. reflexivity.
Qed.

Lemma create_synth_replace : forall V s nid def args i t same act,
  pv_maps_ok s args = true -> get_node s i = Some t ->
  obj_step V s (OSynth (SReplace same) nid def args (TgNode i) act) =
  (add_node s (Some (mkNode (if same then n_id t else PInt nid) NSynth)),
   [SMsg (PStr "/s_new" :: PStr def :: (if same then n_id t else PInt nid) :: PInt 4 :: n_id t
          :: oal (v_dict_brackets V) s (args_or_empty args))], None).
Proof.
  intros V s nid def args i t same act Hm Hg. unfold obj_step, maps_ok. cbn [op_args forallb]. rewrite Hm. cbn [andb].
  unfold obj_step_core. rewrite Hg. reflexivity.
Qed.

(* the buffer number of a new Buffer: the caller's, else the allocator's *)
Definition new_bufnum (bufnum addr : option Z) : option Z :=
  match bufnum with Some b => Some b | None => addr end.

Lemma alloc_bufnum_num : forall s bufnum addr n,
  match alloc_bufnum s bufnum addr n with
  | Some (z, s1) => new_bufnum bufnum addr = Some z /\ nodes s1 = nodes s /\ bufs s1 = bufs s
  | None => new_bufnum bufnum addr = None
  end.
Proof. intros s [b|] [a|] n; simpl; auto. Qed.

Lemma create_buffer : forall V s addr frames chans bufnum c num,
  new_bufnum bufnum addr = Some num -> is_none frames = false ->
  exists s1,
    obj_step V s (OBufNew addr frames chans bufnum c true) =
    (add_buf s1 (Some (mkBuf (PInt num) frames chans)),
     [SMsg [PStr "/b_alloc"; PInt num; frames; chans; compl_val c (PInt num)]], None)
    /\ bufs s1 = bufs s.
Proof.
  intros V s addr frames chans bufnum c num Hn Hf. unfold obj_step; cbn [maps_ok op_args forallb]; unfold obj_step_core.
  pose proof (alloc_bufnum_num s bufnum addr 1) as H.
  destruct (alloc_bufnum s bufnum addr 1) as [[z s1]|].
  - destruct H as [H1 [_ H3]]. rewrite Hn in H1. inversion H1; subst z. rewrite Hf.
    exists s1. split; [reflexivity | exact H3].
  - rewrite Hn in H. discriminate.
Qed.

Lemma create_consecutive : forall V s addr n frames chans bufnum c base,
  new_bufnum bufnum addr = Some base ->
  exists s2,
    obj_step V s (OBufConsecutive addr n frames chans bufnum c) =
    (s2, map (fun i => SMsg [PStr "/b_alloc"; PInt i; frames; chans; compl_val c (PInt i)]) (zrange base n), None).
Proof.
  intros V s addr n frames chans bufnum c base Hn. unfold obj_step; cbn [maps_ok op_args forallb]; unfold obj_step_core.
  pose proof (alloc_bufnum_num s bufnum addr (Z.of_nat n)) as H.
  destruct (alloc_bufnum s bufnum addr (Z.of_nat n)) as [[z s1]|].
  - destruct H as [H1 _]. rewrite Hn in H1. inversion H1; subst z. eexists. reflexivity.
  - rewrite Hn in H. discriminate.
Qed.

Lemma create_buffer_read : forall V s addr path start frames bufnum num,
  new_bufnum bufnum addr = Some num ->
  exists s2,
    obj_step V s (OBufNewRead addr path start frames None bufnum) =
    (s2, [SMsg [PStr "/b_allocRead"; PInt num; PStr path; PInt start; PInt frames;
                PList [PStr "/b_query"; PInt num]]], None).
Proof.
  intros V s addr path start frames bufnum num Hn. unfold obj_step; cbn [maps_ok op_args forallb]; unfold obj_step_core.
  pose proof (alloc_bufnum_num s bufnum addr 1) as H.
  destruct (alloc_bufnum s bufnum addr 1) as [[z s1]|].
  - destruct H as [H1 _]. rewrite Hn in H1. inversion H1; subst z. eexists. reflexivity.
  - rewrite Hn in H. discriminate.
Qed.

Lemma create_buffer_cue : forall V s addr path start size chans bufnum c num,
  new_bufnum bufnum addr = Some num ->
  exists s2,
    obj_step V s (OBufNewCue addr path start size chans bufnum c) =
    (s2, [SMsg [PStr "/b_alloc"; PInt num; PInt size; chans;
                PList [PStr "/b_read"; PInt num; PStr path; PInt start; PInt size; PInt 0; PBool true;
                       compl_val c (PInt num)]]], None).
Proof.
  intros V s addr path start size chans bufnum c num Hn. unfold obj_step; cbn [maps_ok op_args forallb]; unfold obj_step_core.
  pose proof (alloc_bufnum_num s bufnum addr 1) as H.
  destruct (alloc_bufnum s bufnum addr 1) as [[z s1]|].
  - destruct H as [H1 _]. rewrite Hn in H1. inversion H1; subst z. eexists. reflexivity.
  - rewrite Hn in H. discriminate.
Qed.

(* ---- freeing ---- *)

Lemma free_node : forall V s n x,
  get_node s n = Some x ->
  obj_step V s (ONodeFree n true) = (s, [SMsg [PStr "/n_free"; n_id x]], None).
Proof. intros V s n x H. unfold obj_step; cbn [maps_ok op_args forallb]; unfold obj_step_core. rewrite H. reflexivity. Qed.

Lemma free_buffer_live : forall V s b x a c,
  get_buf s b = Some x -> b_num x = PInt a ->
  obj_step V s (OBufFree b c) =
  (set_buf (set_bblocks s (blk_remove a (bblocks s))) b (mkBuf PNone PNone PNone),
   [SMsg [PStr "/b_free"; PInt a; compl_val c (PInt a)]], None).
Proof. intros V s b x a c H Hn. unfold obj_step; cbn [maps_ok op_args forallb]; unfold obj_step_core. rewrite H, Hn. reflexivity. Qed.

Lemma free_buffer_clears : forall s b,
  (b < List.length (bufs s))%nat ->
  get_buf (set_buf s b (mkBuf PNone PNone PNone)) b = Some (mkBuf PNone PNone PNone).
Proof.
  intros s b H. unfold get_buf, set_buf. simpl.
  revert b H. induction (bufs s) as [|y l IH]; intros b H; simpl in H; [lia|].
  destruct b; simpl; [reflexivity|]. apply IH. lia.
Qed.

(* with the `return` after the warning (proposed patch C17_buffer_double_free.diff) *)
Lemma free_buffer_again_repaired : forall s b x c,
  get_buf s b = Some x -> b_num x = PNone ->
  obj_step repaired s (OBufFree b c) = (s, [], None).
Proof. intros s b x c H Hn. unfold obj_step; cbn [maps_ok op_args forallb]; unfold obj_step_core. rewrite H, Hn. reflexivity. Qed.

(* the code as found: the second free() still sends, with None in the id position *)
Lemma free_buffer_again_as_found : forall s b x c,
  get_buf s b = Some x -> b_num x = PNone ->
  snd (fst (obj_step as_found s (OBufFree b c))) = [SMsg [PStr "/b_free"; PNone; compl_val c PNone]].
Proof. intros s b x c H Hn. unfold obj_step; cbn [maps_ok op_args forallb]; unfold obj_step_core. rewrite H, Hn. reflexivity. Qed.


(* ids inside the used blocks of the buffer allocator *)
Definition owned_ids (blks : blocks) : list Z :=
  flat_map (fun b => zrange (fst b) (Z.to_nat (snd b))) blks.

Lemma free_all_repaired : forall s,
  obj_step repaired s OBufFreeAll =
  (set_bblocks s [], [SBundle PNone (map (fun i => [PStr "/b_free"; PInt i]) (owned_ids (bblocks s)))], None).
Proof.
  intros s. unfold obj_step; cbn [maps_ok op_args forallb]; unfold obj_step_core, ok, owned_ids. simpl. f_equal. f_equal. f_equal. f_equal.
  induction (bblocks s) as [|b l IH]; simpl; [reflexivity|].
  rewrite map_app, IH. reflexivity.
Qed.

Lemma in_zrange : forall n a i, In i (zrange a n) <-> a <= i < a + Z.of_nat n.
Proof.
  induction n as [|n IH]; intros a i; simpl.
  - lia.
  - rewrite IH. lia.
Qed.

Lemma in_owned_ids : forall blks i,
  In i (owned_ids blks) <-> exists b, In b blks /\ fst b <= i < fst b + Z.of_nat (Z.to_nat (snd b)).
Proof.
  intros blks i. unfold owned_ids. rewrite in_flat_map. split.
  - intros [b [Hb Hi]]. exists b. split; [assumption|]. apply in_zrange. exact Hi.
  - intros [b [Hb Hi]]. exists b. split; [assumption|]. apply in_zrange. exact Hi.
Qed.

(* blocks handed out by a correct allocator (C16): in address order, not overlapping *)
Fixpoint chain (lo : Z) (blks : blocks) : Prop :=
  match blks with
  | [] => True
  | b :: t => lo <= fst b /\ 0 <= snd b /\ chain (fst b + snd b) t
  end.

Lemma nodup_zrange : forall n a, NoDup (zrange a n).
Proof.
  induction n as [|n IH]; intros a; simpl; constructor.
  - rewrite in_zrange. lia.
  - apply IH.
Qed.

Lemma nodup_app : forall (l1 l2 : list Z),
  NoDup l1 -> NoDup l2 -> (forall x, In x l1 -> In x l2 -> False) -> NoDup (l1 ++ l2).
Proof.
  induction l1 as [|a l IH]; intros l2 H1 H2 H; simpl; [assumption|].
  inversion H1; subst. constructor.
  - rewrite in_app_iff. intros [X|X]; [contradiction|]. eapply H; [left; reflexivity | exact X].
  - apply IH; auto. intros x Hx Hy. eapply H; [right; exact Hx | exact Hy].
Qed.

Lemma owned_ids_chain : forall blks lo,
  chain lo blks -> Forall (fun i => lo <= i) (owned_ids blks) /\ NoDup (owned_ids blks).
Proof.
  induction blks as [|b t IH]; intros lo H; simpl.
  - split; constructor.
  - destruct H as [H1 [H2 H3]]. destruct (IH _ H3) as [IHa IHb]. unfold owned_ids in *. simpl. split.
    + apply Forall_app. split.
      * apply Forall_forall. intros i Hi. apply in_zrange in Hi. lia.
      * eapply Forall_impl; [|exact IHa]. simpl. intros i Hi. lia.
    + apply nodup_app; [apply nodup_zrange | exact IHb |].
      intros i Hi Hj. apply in_zrange in Hi. rewrite Z2Nat.id in Hi by lia.
      rewrite Forall_forall in IHa. specialize (IHa i Hj). simpl in IHa. lia.
Qed.

(* ---- multi-packet operations: the packets tile the list ---- *)

Definition packet_values (m : pmsg) : list pval := skipn 4 m.
Definition packet_count (m : pmsg) : option pval := nth_error m 3.
Definition packet_start (m : pmsg) : option pval := nth_error m 2.

Lemma stream_tiles : forall num fuel l pos, (List.length l <= fuel)%nat ->
  flat_map packet_values (stream_msgs fuel num pos l) = l.
Proof.
  intros num fuel. induction fuel as [|f IH]; intros l pos H.
  - destruct l; [reflexivity | simpl in H; lia].
  - destruct l as [|x t]; [reflexivity|]. cbn [stream_msgs flat_map]. unfold packet_values at 1. cbn [skipn].
    rewrite IH.
    + apply firstn_skipn.
    + rewrite skipn_length. unfold setn_chunk. simpl in *. lia.
Qed.

(* every packet announces exactly the number of values it carries, at most 1626, at least one, and the packets start
   at pos, pos + 1626, pos + 2 * 1626 ... *)
Lemma stream_packets : forall num fuel l pos m k,
  nth_error (stream_msgs fuel num pos l) k = Some m ->
  packet_count m = Some (plen (packet_values m)) /\
  (1 <= List.length (packet_values m) <= setn_chunk)%nat /\
  packet_start m = Some (PInt (pos + Z.of_nat k * Z.of_nat setn_chunk)).
Proof.
  intros num fuel. induction fuel as [|f IH]; intros l pos m k H.
  - destruct k; discriminate H.
  - destruct l as [|x t]; [destruct k; discriminate H|]. cbn [stream_msgs] in H. destruct k as [|k].
    + cbn [nth_error] in H. set (c := firstn setn_chunk (x :: t)) in *. inversion H; subst m.
      assert (PV : packet_values (PStr "/b_setn" :: num :: PInt pos :: plen c :: c) = c) by reflexivity.
      rewrite PV. split; [reflexivity|]. split; [|unfold packet_start; cbn [nth_error]; f_equal; f_equal; lia].
      subst c. rewrite firstn_length. cbn [List.length]. unfold setn_chunk. lia.
    + cbn [nth_error] in H. destruct (IH _ _ _ _ H) as [A [B C]]. split; [exact A|]. split; [exact B|].
      rewrite C. f_equal. f_equal. lia.
Qed.

(* play(func / buffer, target, outbus, fade, add_action, args): one '/d_recv' whose completion message is the creation
   command of the new Synth object, with the object's own id *)
Lemma create_play : forall V s nid def nb ob args tg act a r,
  pv_maps_ok s ob = true -> pv_maps_ok s args = true -> target_ok s tg = true ->
  play_elems s args = Some r -> action_number act = Some a ->
  obj_step V s (OPlay nid def nb ob args tg act) =
  (add_node s (Some (mkNode (PInt nid) NSynth)),
   [SMsg [PStr "/d_recv"; PBytes nb;
          PList (PStr "/s_new" :: PStr def :: PInt nid :: PInt a :: target_id s tg ::
                 oal (v_dict_brackets V) s (PList (PStr "_iout" :: ob :: PStr "out" :: ob :: r)))]], None).
Proof.
  intros V s nid def nb ob args tg act a r Ho Hm Ht Hr Ha. unfold obj_step, maps_ok. cbn [op_args forallb]. rewrite Ho, Hm. cbn [andb].
  unfold obj_step_core. rewrite Ht, Hr, Ha. reflexivity.
Qed.

(* controls given as a dict are spliced as key, value, key, value ... (each converted), never as the keys alone *)
Lemma play_dict_pairs : forall s ps,
  play_elems s (PDict ps) = Some (flat_map (fun kv => [aci s (fst kv); aci s (snd kv)]) ps).
Proof.
  intros s ps. unfold play_elems. cbn [aci]. f_equal.
  induction ps as [|[k x] t IH]; [reflexivity|]. cbn [flat_map fst snd app]. rewrite <- IH. reflexivity.
Qed.
Lemma play_dict_length : forall s ps r, play_elems s (PDict ps) = Some r -> List.length r = (2 * List.length ps)%nat.
Proof.
  intros s ps r H. rewrite play_dict_pairs in H. inversion H; subst. clear H.
  induction ps as [|kv t IH]; [reflexivity|]. cbn [flat_map app List.length]. rewrite IH. lia.
Qed.
Lemma play_list_items : forall s l, play_elems s (PList l) = Some (map (aci s) l) /\ play_elems s (PTuple l) = Some (map (aci s) l).
Proof.
  intros s l. unfold play_elems. cbn [aci]. split; f_equal; induction l as [|x t IH]; try reflexivity; cbn [map]; rewrite <- IH; reflexivity.
Qed.
