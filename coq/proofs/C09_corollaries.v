(* C09 -- consequences of the refinement, stated on the executable model. *)
From Coq Require Import QArith ZArith List Bool Arith Permutation Sorting Lia Lqa.
Import ListNotations.
Require Import SC3.model.TaskQ SC3.proofs.C09_order SC3.proofs.C09_refine.
Local Open Scope nat_scope.

(* ---- what the invariant says about the abstract contents ------------------------ *)
Record spec_ok (l : list item) (n : nat) : Prop := mkSpecOk {
  so_sorted : sorted ikey l;
  so_tasks : NoDup (map itask l);
  so_stamps : Forall (fun x => snd (ikey x) < n) l
}.

Lemma nodup_map_of_inj : forall (A B : Type) (f : A -> B) l,
  NoDup l -> (forall x y, In x l -> In y l -> f x = f y -> x = y) -> NoDup (map f l).
Proof.
  intros A B f l N. induction N as [| a r Na Nr IH]; intro Inj; simpl.
  - constructor.
  - constructor.
    + intro H. apply in_map_iff in H. destruct H as [x [Hx1 Hx2]].
      assert (E : x = a) by (apply Inj; [right; exact Hx2 | left; reflexivity | exact Hx1]).
      subst x. contradiction.
    + apply IH. intros x y Hx Hy. apply Inj; right; assumption.
Qed.

Lemma abs_ok : forall s, inv s -> spec_ok (contents s) (counter s).
Proof.
  intros s I. constructor.
  - apply contents_sorted.
  - apply nodup_map_of_inj.
    + apply (NoDup_map_inv (fun x => snd (ikey x))).
      apply (Permutation_NoDup (l := map (fun x => snd (ikey x)) (live (heap s)))).
      * apply Permutation_map. apply Permutation_sym. apply contents_perm.
      * apply live_counts_nodup. apply (inv_nodup s I).
    + intros [[p c] t] [[p' c'] t'] Hx Hy E. unfold itask in E. simpl in E. subst t'.
      apply in_contents in Hx. apply in_contents in Hy.
      assert (F1 : fget t (finder s) = Some c) by (apply (inv_finder s I); exists p; exact Hx).
      assert (F2 : fget t (finder s) = Some c') by (apply (inv_finder s I); exists p'; exact Hy).
      assert (Ec : c = c') by congruence. subst c'.
      assert (Ee : mkE p c (Some t) = mkE p' c (Some t)).
      { apply (nodup_map_inj _ _ e_count (heap s));
          [apply (inv_nodup s I) | exact Hx | exact Hy | reflexivity]. }
      inversion Ee. reflexivity.
  - apply Forall_forall. intros [[p c] t] Hx. apply in_contents in Hx.
    assert (L := inv_lt s I). rewrite Forall_forall in L. exact (L _ Hx).
Qed.

(* ---- membership in the spec operations -------------------------------------------- *)
Lemma in_insert_by : forall (A : Type) (k : A -> key) x l y,
  In y (insert_by k x l) <-> y = x \/ In y l.
Proof.
  intros A k x l y. split; intro H.
  - apply (Permutation_in _ (insert_by_perm A k x l)) in H. destruct H as [H | H]; [left; symmetry | right]; exact H.
  - apply (Permutation_in _ (Permutation_sym (insert_by_perm A k x l))).
    destruct H as [H | H]; [left; symmetry | right]; exact H.
Qed.

Lemma in_remove_task : forall t l y, In y (remove_task t l) <-> In y l /\ itask y <> t.
Proof.
  intros t l y. unfold remove_task. rewrite filter_In. rewrite negb_true_iff, Z.eqb_neq.
  split; intros [H1 H2]; (split; [exact H1 | congruence]).
Qed.

(* ---- generic induction over runs ------------------------------------------------------ *)
Lemma run_cons : forall o ops s,
  run (o :: ops) s =
  (fst (run ops (fst (step o s))), snd (step o s) :: snd (run ops (fst (step o s)))).
Proof.
  intros o ops s. simpl. destruct (step o s) as [s1 x]. simpl.
  destruct (run ops s1) as [s2 xs]. reflexivity.
Qed.

Lemma run_invariant : forall (J : list item -> Prop) (ok : op -> Prop),
  (forall o l n l' n' x, spec_ok l n -> J l -> ok o -> spec_step o (l, n) = ((l', n'), x) -> J l') ->
  forall ops s s' rs, inv s -> J (contents s) -> Forall ok ops -> run ops s = (s', rs) ->
  inv s' /\ J (contents s').
Proof.
  intros J ok Hstep. induction ops as [| o ops IH]; intros s s' rs I HJ Hok E.
  - simpl in E. inversion E; subst. split; assumption.
  - rewrite run_cons in E. destruct (step o s) as [s1 x] eqn:E1. simpl in E.
    destruct (run ops s1) as [s2 xs] eqn:E2. simpl in E. inversion E; subst. clear E.
    inversion Hok as [| o' ops' Ho Hops]; subst.
    destruct (step_refines o s s1 x I E1) as [I1 R1].
    apply (IH s1 s' xs I1); [| exact Hops | exact E2].
    apply (Hstep o (contents s) (counter s) (contents s1) (counter s1) x (abs_ok s I) HJ Ho R1).
Qed.

(* ---- pops come out in non-decreasing time ----------------------------------------------- *)
Definition add_at_least (b : Q) (o : op) : Prop :=
  match o with OAdd p _ => (b <= p)%Q | _ => True end.

Definition lower_bound (b : Q) (l : list item) : Prop := Forall (fun x => (b <= fst (fst x))%Q) l.

Lemma lower_bound_step : forall b o l n l' n' x,
  spec_ok l n -> lower_bound b l -> add_at_least b o ->
  spec_step o (l, n) = ((l', n'), x) -> lower_bound b l'.
Proof.
  intros b o l n l' n' x _ LB Ho E. unfold lower_bound in *.
  destruct o as [p t | t | | sm | | |]; simpl in E.
  - inversion E; subst. apply Forall_forall. intros y Hy. apply in_insert_by in Hy.
    destruct Hy as [Hy | Hy]; [subst y; exact Ho |].
    apply in_remove_task in Hy. rewrite Forall_forall in LB. apply LB. tauto.
  - inversion E; subst. apply Forall_forall. intros y Hy. apply in_remove_task in Hy.
    rewrite Forall_forall in LB. apply LB. tauto.
  - destruct l as [| y r]; inversion E; subst; [exact LB |]. inversion LB; assumption.
  - destruct sm; inversion E; subst; exact LB.
  - inversion E; subst. exact LB.
  - inversion E; subst. constructor.
  - inversion E; subst. exact LB.
Qed.

Lemma pop_nondecreasing_inv : forall s s1 p1 t1 ops s2 outs s3 p2 t2,
  inv s ->
  tq_pop s = (s1, RItem p1 t1) ->
  Forall (add_at_least p1) ops ->
  run ops s1 = (s2, outs) ->
  tq_pop s2 = (s3, RItem p2 t2) ->
  (p1 <= p2)%Q.
Proof.
  intros s s1 p1 t1 ops s2 outs s3 p2 t2 I E1 Hops E2 E3.
  destruct (pop_ok s s1 _ I E1) as [I1 [_ M1]].
  assert (S := contents_sorted s).
  destruct (contents s) as [| x rest] eqn:C; destruct M1 as [M1 C1]; [discriminate |].
  inversion M1; subst p1 t1.
  assert (LB1 : lower_bound (fst (fst x)) (contents s1)).
  { rewrite C1. unfold lower_bound. apply Forall_forall. intros y Hy.
    assert (L := sorted_head_le _ ikey x rest y S Hy). unfold kle in L.
    apply klt_prio_le in L. exact L. }
  destruct (run_invariant (lower_bound (fst (fst x))) (add_at_least (fst (fst x)))
              (lower_bound_step (fst (fst x))) ops s1 s2 outs I1 LB1 Hops E2) as [I2 LB2].
  destruct (pop_ok s2 s3 _ I2 E3) as [_ [_ M3]].
  destruct (contents s2) as [| y rest2]; destruct M3 as [M3 _]; [discriminate |].
  inversion M3; subst. inversion LB2; assumption.
Qed.

(* ---- FIFO among equal times ------------------------------------------------------------------ *)
(* [popped t ops outs]: some pop of the history returned task t *)
Fixpoint popped (t : task) (ops : list op) (outs : list out) : Prop :=
  match ops, outs with
  | OPop :: ops', RItem _ t' :: outs' => t' = t \/ popped t ops' outs'
  | _ :: ops', _ :: outs' => popped t ops' outs'
  | _, _ => False
  end.

Lemma popped_app : forall t ops1 outs1 ops2 outs2, length ops1 = length outs1 ->
  popped t ops1 outs1 \/ popped t ops2 outs2 -> popped t (ops1 ++ ops2) (outs1 ++ outs2).
Proof.
  intros t ops1. induction ops1 as [| o ops1 IH]; intros outs1 ops2 outs2 L H.
  - destruct outs1; [| discriminate]. simpl. destruct H as [H | H]; [destruct H | exact H].
  - destruct outs1 as [| x outs1]; [discriminate |]. simpl in L. injection L as L.
    assert (IH' := IH outs1 ops2 outs2 L).
    destruct o; simpl in *; try (apply IH'; exact H).
    destruct x; try (apply IH'; exact H).
    destruct H as [[H | H] | H]; [left; exact H | right; apply IH'; left; exact H
                                 | right; apply IH'; right; exact H].
Qed.

Lemma run_length : forall ops s s' rs, run ops s = (s', rs) -> length ops = length rs.
Proof.
  induction ops as [| o ops IH]; intros s s' rs E.
  - simpl in E. inversion E. reflexivity.
  - rewrite run_cons in E. inversion E; subst. simpl. f_equal.
    destruct (run ops (fst (step o s))) as [s2 xs] eqn:E2. simpl. exact (IH _ _ _ E2).
Qed.

(* the history does not touch task t otherwise than by popping it *)
Definition keeps (t : task) (o : op) : Prop :=
  match o with
  | OAdd _ t' => t' <> t
  | ORemove t' => t' <> t
  | OClear => False
  | _ => True
  end.

Lemma track_gen : forall (t1 : task) (J : list item -> Prop) (ok : op -> Prop),
  (forall o l n l' n' x, spec_ok l n -> J l -> ok o -> spec_step o (l, n) = ((l', n'), x) ->
     (o = OPop /\ exists p, x = RItem p t1) \/ J l') ->
  forall ops s s' outs, inv s -> J (contents s) -> Forall ok ops -> run ops s = (s', outs) ->
  popped t1 ops outs \/ (inv s' /\ J (contents s')).
Proof.
  intros t1 J ok Hstep. induction ops as [| o ops IH]; intros s s' outs I HJ Hok E.
  - simpl in E. inversion E; subst. right. split; assumption.
  - rewrite run_cons in E. destruct (step o s) as [s1 x] eqn:E1. simpl in E.
    destruct (run ops s1) as [s2 xs] eqn:E2. simpl in E. inversion E; subst. clear E.
    inversion Hok as [| o' ops' Ho Hops]; subst.
    destruct (step_refines o s s1 x I E1) as [I1 R1].
    destruct (Hstep o (contents s) (counter s) (contents s1) (counter s1) x (abs_ok s I) HJ Ho R1)
      as [[Eo [p Ex]] | HJ1].
    + subst o x. left. simpl. left. reflexivity.
    + destruct (IH s1 s' xs I1 HJ1 Hops E2) as [H | H]; [| right; exact H].
      left. destruct o; simpl; try exact H. destruct x; try exact H. right. exact H.
Qed.

(* J1: the entry of t1 is still queued *)
Lemma stays_step : forall (x1 : item) o l n l' n' x,
  spec_ok l n -> In x1 l -> keeps (itask x1) o -> spec_step o (l, n) = ((l', n'), x) ->
  (o = OPop /\ exists p, x = RItem p (itask x1)) \/ In x1 l'.
Proof.
  intros x1 o l n l' n' x _ Hin Ho E.
  destruct o as [p t | t | | sm | | |]; simpl in E; simpl in Ho.
  - inversion E; subst. right. apply in_insert_by. right. apply in_remove_task.
    split; [exact Hin | congruence].
  - inversion E; subst. right. apply in_remove_task. split; [exact Hin | congruence].
  - destruct l as [| y r]; [contradiction |]. inversion E; subst.
    destruct Hin as [Hin | Hin].
    + subst y. left. split; [reflexivity |]. exists (fst (fst x1)). reflexivity.
    + right. exact Hin.
  - destruct sm; inversion E; subst; right; exact Hin.
  - inversion E; subst. right. exact Hin.
  - contradiction.
  - inversion E; subst. right. exact Hin.
Qed.

(* J2: additionally, the only queued entry of t2 (if any) is x2 *)
Definition only_entry (x2 : item) (l : list item) : Prop :=
  forall y, In y l -> itask y = itask x2 -> y = x2.

Definition keeps2 (t1 t2 : task) (o : op) : Prop :=
  keeps t1 o /\ match o with OAdd _ t' => t' <> t2 | _ => True end.

Lemma stays2_step : forall (x1 x2 : item) o l n l' n' x,
  spec_ok l n -> (In x1 l /\ only_entry x2 l) -> keeps2 (itask x1) (itask x2) o ->
  spec_step o (l, n) = ((l', n'), x) ->
  (o = OPop /\ exists p, x = RItem p (itask x1)) \/ (In x1 l' /\ only_entry x2 l').
Proof.
  intros x1 x2 o l n l' n' x OK [Hin Honly] [Ho Ho2] E.
  destruct (stays_step x1 o l n l' n' x OK Hin Ho E) as [H | H]; [left; exact H |].
  right. split; [exact H |]. unfold only_entry in *.
  destruct o as [p t | t | | sm | | |]; simpl in E.
  - inversion E; subst. intros y Hy Et. apply in_insert_by in Hy. destruct Hy as [Hy | Hy].
    + subst y. unfold itask in Et at 1. simpl in Et. congruence.
    + apply in_remove_task in Hy. apply Honly; tauto.
  - inversion E; subst. intros y Hy Et. apply in_remove_task in Hy. apply Honly; tauto.
  - destruct l as [| z r]; inversion E; subst; [exact Honly |].
    intros y Hy Et. apply Honly; [right; exact Hy | exact Et].
  - destruct sm; inversion E; subst; exact Honly.
  - inversion E; subst. exact Honly.
  - simpl in Ho. contradiction.
  - inversion E; subst. exact Honly.
Qed.

Lemma pop_fifo_on_ties_inv : forall s p t1 ops1 s2 outs1 q t2 ops2 s4 outs2 s5 q',
  inv s -> t1 <> t2 -> (p == q)%Q ->
  run ops1 (tq_add p t1 s) = (s2, outs1) -> Forall (keeps t1) ops1 ->
  run ops2 (tq_add q t2 s2) = (s4, outs2) -> Forall (keeps2 t1 t2) ops2 ->
  tq_pop s4 = (s5, RItem q' t2) ->
  popped t1 (ops1 ++ OAdd q t2 :: ops2) (outs1 ++ RNone :: outs2).
Proof.
  intros s p t1 ops1 s2 outs1 q t2 ops2 s4 outs2 s5 q' I Nt Epq E1 K1 E2 K2 E5.
  destruct (add_ok s p t1 I) as [Ia [Ca Na]].
  set (x1 := (p, counter s, t1) : item).
  assert (Hx1 : In x1 (contents (tq_add p t1 s))).
  { rewrite Ca. apply in_insert_by. left. reflexivity. }
  apply popped_app; [exact (run_length _ _ _ _ E1) |].
  destruct (track_gen t1 (fun l => In x1 l) (keeps t1)
              (fun o l n l' n' x OK HJ Ho E => stays_step x1 o l n l' n' x OK HJ Ho E)
              ops1 _ s2 outs1 Ia Hx1 K1 E1) as [H | [I2 H2]]; [left; exact H |].
  right. simpl.
  (* second phase: t2 is added with an equal time *)
  destruct (add_ok s2 q t2 I2) as [Ib [Cb Nb]].
  set (x2 := (q, counter s2, t2) : item).
  assert (Hc1 : counter s < counter s2).
  { assert (OK2 := abs_ok s2 I2). assert (L := so_stamps _ _ OK2). rewrite Forall_forall in L.
    exact (L x1 H2). }
  assert (Hb : In x1 (contents (tq_add q t2 s2)) /\ only_entry x2 (contents (tq_add q t2 s2))).
  { rewrite Cb. split.
    - apply in_insert_by. right. apply in_remove_task. split; [exact H2 | exact Nt].
    - intros y Hy Et. apply in_insert_by in Hy. destruct Hy as [Hy | Hy]; [exact Hy |].
      apply in_remove_task in Hy. exfalso. apply (proj2 Hy). exact Et. }
  destruct (track_gen t1 (fun l => In x1 l /\ only_entry x2 l) (keeps2 t1 t2)
              (fun o l n l' n' x OK HJ Ho E => stays2_step x1 x2 o l n l' n' x OK HJ Ho E)
              ops2 _ s4 outs2 Ib Hb K2 E2) as [H | [I4 [H4 O4]]]; [exact H |].
  exfalso.
  destruct (pop_ok s4 s5 _ I4 E5) as [_ [_ M]].
  assert (S4 := contents_sorted s4).
  destruct (contents s4) as [| y rest] eqn:C4; destruct M as [M _]; [discriminate |].
  inversion M; subst.
  assert (Ey : y = x2) by (apply O4; [left; reflexivity | reflexivity]).
  rewrite Ey in *. clear Ey. destruct H4 as [H4 | H4].
  - unfold x1, x2 in H4. apply Nt. injection H4 as _ _ Ht. symmetry. exact Ht.
  - assert (L := sorted_head_le _ ikey x2 rest x1 S4 H4). apply L.
    unfold ikey, x1, x2. simpl. right. simpl. split; [exact Epq | exact Hc1].
Qed.

(* ---- each item at most once -------------------------------------------------------------------- *)
Lemma map_snd_ipair : forall l, map snd (map ipair l) = map itask l.
Proof. intro l. rewrite map_map. apply map_ext. intros [[p c] t]. reflexivity. Qed.

Lemma item_at_most_once_inv : forall s, inv s ->
  NoDup (map snd (tq_iter s)) /\
  forall s' p t, tq_pop s = (s', RItem p t) -> ~ In t (map snd (tq_iter s')).
Proof.
  intros s I. assert (OK := abs_ok s I). split.
  - rewrite iter_ok, map_snd_ipair. apply (so_tasks _ _ OK).
  - intros s' p t E. destruct (pop_ok s s' _ I E) as [_ [_ M]].
    assert (N := so_tasks _ _ OK).
    destruct (contents s) as [| x rest]; destruct M as [M C']; [discriminate |].
    rewrite iter_ok, map_snd_ipair, C'. inversion M; subst.
    simpl in N. inversion N; assumption.
Qed.

(* ---- re-adding ------------------------------------------------------------------------------------- *)
Definition not_task (t : task) (x : Q * task) : bool := negb (Z.eqb t (snd x)).
Definition at_most (p : Q) (x : Q * task) : bool := Qle_bool (fst x) p.
Definition later_than (p : Q) (x : Q * task) : bool := negb (Qle_bool (fst x) p).

Lemma map_filter_ipair : forall (f : Q * task -> bool) l,
  map ipair (filter (fun x => f (ipair x)) l) = filter f (map ipair l).
Proof.
  intros f l. induction l as [| x r IH]; simpl.
  - reflexivity.
  - destruct (f (ipair x)); simpl; rewrite IH; reflexivity.
Qed.

Lemma filter_none : forall (A : Type) (f : A -> bool) l,
  (forall x, In x l -> f x = false) -> filter f l = [].
Proof.
  intros A f l. induction l as [| a r IH]; intro H; simpl.
  - reflexivity.
  - rewrite (H a (or_introl eq_refl)). apply IH. intros x Hx. apply H. right. exact Hx.
Qed.

Lemma insert_latest_split : forall p n t l,
  sorted ikey l -> Forall (fun x => snd (ikey x) < n) l ->
  insert_by ikey (p, n, t) l =
  filter (fun x => at_most p (ipair x)) l ++ (p, n, t) :: filter (fun x => later_than p (ipair x)) l.
Proof.
  intros p n t l. induction l as [| y r IH]; intros S F.
  - reflexivity.
  - inversion S as [| y' r' Sr Fr]; subst. inversion F as [| y'' r'' Fy Frest]; subst.
    assert (K : key_ltb (ikey y) (ikey (p, n, t)) = Qle_bool (fst (fst y)) p).
    { unfold key_ltb, ikey. simpl. destruct (Qeq_bool (fst (fst y)) p) eqn:Eq.
      - apply Qeq_bool_iff in Eq. unfold ikey in Fy. simpl in Fy.
        assert (L : (snd (fst y) <? n) = true) by (apply Nat.ltb_lt; exact Fy). rewrite L.
        symmetry. apply Qle_bool_iff. lra.
      - reflexivity. }
    assert (A1 : at_most p (ipair y) = Qle_bool (fst (fst y)) p) by reflexivity.
    assert (A2 : later_than p (ipair y) = negb (Qle_bool (fst (fst y)) p)) by reflexivity.
    simpl insert_by. simpl filter. rewrite K, A1, A2.
    destruct (Qle_bool (fst (fst y)) p) eqn:Le; simpl.
    + f_equal. apply IH; assumption.
    + assert (Gt : ~ (fst (fst y) <= p)%Q) by (intro H; apply Qle_bool_iff in H; congruence).
      rewrite (filter_none _ _ r).
      * simpl. f_equal. f_equal. symmetry. apply filter_id.
        intros z Hz. rewrite Forall_forall in Fr. specialize (Fr z Hz). unfold kle in Fr.
        apply klt_prio_le in Fr. unfold ikey in Fr. simpl in Fr.
        apply negb_true_iff. destruct (Qle_bool (fst (ipair z)) p) eqn:Lz; [| reflexivity].
        apply Qle_bool_iff in Lz. unfold ipair in Lz. simpl in Lz. exfalso. apply Gt. lra.
      * intros z Hz. rewrite Forall_forall in Fr. specialize (Fr z Hz). unfold kle in Fr.
        apply klt_prio_le in Fr. unfold ikey in Fr. simpl in Fr. unfold at_most.
        destruct (Qle_bool (fst (ipair z)) p) eqn:Lz; [| reflexivity].
        apply Qle_bool_iff in Lz. unfold ipair in Lz. simpl in Lz. exfalso. apply Gt. lra.
Qed.

Lemma remove_task_ipair : forall t l,
  map ipair (remove_task t l) = filter (not_task t) (map ipair l).
Proof. intros t l. unfold remove_task. apply (map_filter_ipair (not_task t)). Qed.

Lemma readd_inv : forall s p t, inv s ->
  let rest := filter (not_task t) (tq_iter s) in
  tq_iter (tq_add p t s) = filter (at_most p) rest ++ (p, t) :: filter (later_than p) rest.
Proof.
  intros s p t I rest. destruct (add_ok s p t I) as [_ [C _]].
  assert (OK := abs_ok s I).
  rewrite iter_ok, C. rewrite insert_latest_split.
  - rewrite map_app. simpl. unfold rest. rewrite iter_ok.
    rewrite <- remove_task_ipair. rewrite !map_filter_ipair. reflexivity.
  - apply sorted_filter. apply (so_sorted _ _ OK).
  - apply Forall_forall. intros x Hx. apply in_remove_task in Hx.
    assert (L := so_stamps _ _ OK). rewrite Forall_forall in L. apply L. tauto.
Qed.

(* ---- removing ----------------------------------------------------------------------------------------- *)
Lemma remove_frames_inv : forall s t, inv s ->
  tq_iter (tq_remove t s) = filter (not_task t) (tq_iter s).
Proof.
  intros s t I. destruct (remove_ok s t I) as [_ [C _]].
  rewrite !iter_ok, C. apply remove_task_ipair.
Qed.

(* ---- emptiness ------------------------------------------------------------------------------------------ *)
Lemma spec_peek_large : forall l n,
  snd (spec_step (OPeek false) (l, n)) =
  match last_opt l with None => RKeyError | Some x => RItem (fst (fst x)) (snd x) end.
Proof. reflexivity. Qed.

Lemma empty_inv : forall s, inv s ->
  (tq_empty s = true <-> tq_iter s = []) /\
  (tq_empty s = true <-> forall t, fget t (finder s) = None) /\
  (tq_empty s = true <-> snd (tq_pop s) = RKeyError) /\
  (forall b, tq_empty s = true <-> tq_peek b s = RKeyError).
Proof.
  intros s I. rewrite (empty_ok s I). rewrite iter_ok.
  assert (Hpop : forall s' r, tq_pop s = (s', r) -> _ ) by (intros s' r E; exact (pop_ok s s' r I E)).
  destruct (tq_pop s) as [s' r] eqn:E. specialize (Hpop s' r eq_refl). destruct Hpop as [_ [_ M]].
  assert (Hpk : forall b, tq_peek b s = snd (spec_step (OPeek b) (abs s))) by (intro b; apply peek_ok; exact I).
  unfold abs in Hpk.
  assert (Hf : forall t c, fget t (finder s) = Some c <-> exists p, In (p, c, t) (contents s)).
  { intros t c. rewrite (inv_finder s I). split; intros [p Hp]; exists p; apply in_contents; exact Hp. }
  destruct (contents s) as [| [[p c] t] rest] eqn:C; simpl.
  - destruct M as [M _]. subst r. split; [split; reflexivity |]. split; [| split].
    + split; [| reflexivity]. intros _ t. destruct (fget t (finder s)) as [c |] eqn:F; [| reflexivity].
      apply Hf in F. destruct F as [p []].
    + split; reflexivity.
    + intro b. rewrite Hpk. destruct b; split; reflexivity.
  - destruct M as [M _]. subst r. split; [split; discriminate |]. split; [| split].
    + split; [discriminate |]. intro H. specialize (H t).
      assert (F : fget t (finder s) = Some c) by (apply Hf; exists p; left; reflexivity). congruence.
    + split; discriminate.
    + intro b. rewrite Hpk. split; [discriminate |]. destruct b.
      * simpl. intro H. discriminate H.
      * rewrite spec_peek_large.
        destruct (last_opt _) as [y |] eqn:L; [intro H; discriminate H |].
        apply last_opt_none in L. discriminate L.
Qed.

(* ---- peek ------------------------------------------------------------------------------------------------ *)
Lemma peek_small_inv : forall s, inv s -> tq_peek true s = snd (tq_pop s).
Proof.
  intros s I. rewrite (peek_ok s true I). destruct (tq_pop s) as [s' r] eqn:E.
  destruct (pop_ok s s' r I E) as [_ [_ M]]. unfold abs. simpl.
  destruct (contents s); destruct M as [M _]; rewrite M; reflexivity.
Qed.

Lemma last_opt_map : forall (A B : Type) (f : A -> B) l,
  last_opt (map f l) = match last_opt l with Some x => Some (f x) | None => None end.
Proof.
  intros A B f l. induction l as [| a r IH].
  - reflexivity.
  - destruct r as [| b r'].
    + reflexivity.
    + change (last_opt (map f (a :: b :: r'))) with (last_opt (map f (b :: r'))).
      change (last_opt (a :: b :: r')) with (last_opt (b :: r')). exact IH.
Qed.

Lemma peek_large_inv : forall s, inv s ->
  tq_peek false s = match last_opt (tq_iter s) with
                    | None => RKeyError
                    | Some x => RItem (fst x) (snd x)
                    end
  /\ forall p t, tq_peek false s = RItem p t ->
       In (p, t) (tq_iter s) /\ forall q u, In (q, u) (tq_iter s) -> (q <= p)%Q.
Proof.
  intros s I. rewrite (peek_ok s false I). unfold abs. simpl. rewrite iter_ok, last_opt_map.
  destruct (last_opt (contents s)) as [[[p c] t] |] eqn:L.
  - split; [reflexivity |]. intros p' t' E. inversion E; subst p' t'. simpl. split.
    + apply in_map_iff. exists (p, c, t). split; [reflexivity | apply last_opt_in; exact L].
    + intros q u Hq. apply in_map_iff in Hq. destruct Hq as [[[q' c'] u'] [Eq Hin]].
      unfold ipair in Eq. simpl in Eq. inversion Eq; subst q' u'.
      destruct (sorted_last_ge _ ikey _ _ _ (contents_sorted s) L Hin) as [H | H].
      * inversion H; subst. apply Qle_refl.
      * unfold kle in H. apply klt_prio_le in H. exact H.
  - split; [reflexivity |]. intros p t E. discriminate.
Qed.

(* ---- iteration --------------------------------------------------------------------------------------------- *)
Lemma iter_inv : forall s, inv s ->
  exists l, tq_iter s = map ipair l /\ sorted ikey l /\ Permutation l (live (heap s))
            /\ StronglySorted (fun a b : Q * task => (fst a <= fst b)%Q) (tq_iter s)
            /\ forall t, In t (map snd (tq_iter s)) <-> fget t (finder s) <> None.
Proof.
  intros s I. exists (contents s). split; [apply iter_ok |].
  split; [apply contents_sorted |]. split; [apply contents_perm |]. split.
  - rewrite iter_ok. assert (S := contents_sorted s). induction S as [| x r Sr IH Fr]; simpl.
    + constructor.
    + constructor; [exact IH |]. apply Forall_forall. intros y Hy.
      apply in_map_iff in Hy. destruct Hy as [z [Ez Hz]]. subst y.
      rewrite Forall_forall in Fr. specialize (Fr z Hz). unfold kle in Fr.
      apply klt_prio_le in Fr. exact Fr.
  - intro t. rewrite iter_ok, map_snd_ipair. rewrite in_map_iff. split.
    + intros [[[p c] t'] [Et Hin]]. unfold itask in Et. simpl in Et. subst t'.
      apply in_contents in Hin.
      assert (F : fget t (finder s) = Some c) by (apply (inv_finder s I); exists p; exact Hin).
      congruence.
    + intro H. destruct (fget t (finder s)) as [c |] eqn:F; [| congruence].
      apply (inv_finder s I) in F. destruct F as [p Hp]. exists (p, c, t).
      split; [reflexivity | apply in_contents; exact Hp].
Qed.

(* ---- draining: successive pops enumerate exactly the iteration order ------------------------------------------ *)
Fixpoint drain (n : nat) (s : tq) : tq * list out :=
  match n with
  | 0 => (s, [])
  | S k => let '(s1, x) := tq_pop s in let '(s2, xs) := drain k s1 in (s2, x :: xs)
  end.

Lemma drain_inv : forall n s, inv s -> n <= length (tq_iter s) ->
  snd (drain n s) = map (fun x : Q * task => RItem (fst x) (snd x)) (firstn n (tq_iter s)).
Proof.
  induction n as [| n IH]; intros s I Hn.
  - reflexivity.
  - simpl. destruct (tq_pop s) as [s1 x] eqn:E. destruct (pop_ok s s1 x I E) as [I1 [_ M]].
    rewrite iter_ok in *. destruct (contents s) as [| y rest] eqn:C; simpl in Hn; [lia |].
    destruct M as [M C1]. subst x. specialize (IH s1 I1). rewrite iter_ok, C1 in IH.
    destruct (drain n s1) as [s2 xs]. simpl in *. f_equal. apply IH. lia.
Qed.

(* ---- outputs do not depend on how the heap list is arranged ------------------------------------------------------ *)
Lemma run_perm_independent : forall s1 s2 ops, inv s1 -> tq_equiv s1 s2 ->
  snd (run ops s1) = snd (run ops s2).
Proof.
  intros s1 s2 ops I Q. assert (I2 := inv_equiv s1 s2 I Q).
  destruct (run ops s1) as [a ra] eqn:E1. destruct (run ops s2) as [b rb] eqn:E2.
  destruct (run_refines ops s1 a ra I E1) as [_ R1].
  destruct (run_refines ops s2 b rb I2 E2) as [_ R2].
  rewrite (abs_equiv s1 s2 I Q) in R1. rewrite R1 in R2. inversion R2. reflexivity.
Qed.

(* ---- the same statements for every state reachable by a history ----------------------------------------------------- *)
Lemma R_inv : forall ops, inv (fst (run ops tq_init)).
Proof. intro ops. apply inv_reachable. exists ops. reflexivity. Qed.

Lemma R_run_refines : forall ops s rs, run ops tq_init = (s, rs) ->
  spec_run ops spec_init = (abs s, rs).
Proof. intros ops s rs E. exact (proj2 (run_refines ops tq_init s rs inv_init E)). Qed.

Lemma R_rrun_refines : forall ops s rs, rrun tq_init ops s rs ->
  inv s /\ spec_run ops spec_init = (abs s, rs).
Proof. intros ops s rs H. exact (rrun_refines tq_init ops s rs H inv_init). Qed.

Lemma R_pop_fuel : forall s, reachable s -> snd (tq_pop s) <> ROutOfFuel.
Proof. intros s R. apply pop_fuel_sufficient. apply inv_reachable. exact R. Qed.

Lemma R_pop_nondecreasing : forall s s1 p1 t1 ops s2 outs s3 p2 t2,
  reachable s ->
  tq_pop s = (s1, RItem p1 t1) ->
  Forall (add_at_least p1) ops ->
  run ops s1 = (s2, outs) ->
  tq_pop s2 = (s3, RItem p2 t2) ->
  (p1 <= p2)%Q.
Proof. intros until t2. intro R. apply pop_nondecreasing_inv. apply inv_reachable. exact R. Qed.

Lemma R_pop_fifo : forall s p t1 ops1 s2 outs1 q t2 ops2 s4 outs2 s5 q',
  reachable s -> t1 <> t2 -> (p == q)%Q ->
  run ops1 (tq_add p t1 s) = (s2, outs1) -> Forall (keeps t1) ops1 ->
  run ops2 (tq_add q t2 s2) = (s4, outs2) -> Forall (keeps2 t1 t2) ops2 ->
  tq_pop s4 = (s5, RItem q' t2) ->
  popped t1 (ops1 ++ OAdd q t2 :: ops2) (outs1 ++ RNone :: outs2).
Proof. intros until q'. intro R. apply pop_fifo_on_ties_inv. apply inv_reachable. exact R. Qed.

Lemma R_item_once : forall s, reachable s ->
  NoDup (map snd (tq_iter s)) /\
  forall s' p t, tq_pop s = (s', RItem p t) -> ~ In t (map snd (tq_iter s')).
Proof. intros s R. apply item_at_most_once_inv. apply inv_reachable. exact R. Qed.

Lemma R_readd : forall s p t, reachable s ->
  let rest := filter (not_task t) (tq_iter s) in
  tq_iter (tq_add p t s) = filter (at_most p) rest ++ (p, t) :: filter (later_than p) rest.
Proof. intros s p t R. apply readd_inv. apply inv_reachable. exact R. Qed.

Lemma R_remove : forall s t, reachable s ->
  tq_iter (tq_remove t s) = filter (not_task t) (tq_iter s).
Proof. intros s t R. apply remove_frames_inv. apply inv_reachable. exact R. Qed.

Lemma R_empty : forall s, reachable s ->
  (tq_empty s = true <-> tq_iter s = []) /\
  (tq_empty s = true <-> forall t, fget t (finder s) = None) /\
  (tq_empty s = true <-> snd (tq_pop s) = RKeyError) /\
  (forall b, tq_empty s = true <-> tq_peek b s = RKeyError).
Proof. intros s R. apply empty_inv. apply inv_reachable. exact R. Qed.

Lemma R_peek_small : forall s, reachable s -> tq_peek true s = snd (tq_pop s).
Proof. intros s R. apply peek_small_inv. apply inv_reachable. exact R. Qed.

Lemma R_peek_large : forall s, reachable s ->
  tq_peek false s = match last_opt (tq_iter s) with
                    | None => RKeyError
                    | Some x => RItem (fst x) (snd x)
                    end
  /\ forall p t, tq_peek false s = RItem p t ->
       In (p, t) (tq_iter s) /\ forall q u, In (q, u) (tq_iter s) -> (q <= p)%Q.
Proof. intros s R. apply peek_large_inv. apply inv_reachable. exact R. Qed.

Lemma R_iter : forall s, reachable s ->
  exists l, tq_iter s = map ipair l /\ sorted ikey l /\ Permutation l (live (heap s))
            /\ StronglySorted (fun a b : Q * task => (fst a <= fst b)%Q) (tq_iter s)
            /\ forall t, In t (map snd (tq_iter s)) <-> fget t (finder s) <> None.
Proof. intros s R. apply iter_inv. apply inv_reachable. exact R. Qed.

Lemma R_drain : forall n s, reachable s -> n <= length (tq_iter s) ->
  snd (drain n s) = map (fun x : Q * task => RItem (fst x) (snd x)) (firstn n (tq_iter s)).
Proof. intros n s R. apply drain_inv. apply inv_reachable. exact R. Qed.
