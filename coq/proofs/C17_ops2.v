(* C17 -- GENERATED FROM PROOF SCRIPTS (see notes/C17.md): for every op of the model, the messages it hands to
   server.addr are Good (conform + ids in the ledger) and the object invariant is kept. Part 2. *)
From Coq Require Import ZArith QArith List String Bool Lia.
Import ListNotations.
Require Import SC3.model.ProtoGrammar SC3.model.Proto SC3.gen.Gen_proto.
Require Import SC3.proofs.C17_gram SC3.proofs.C17_args SC3.proofs.C17_bind SC3.proofs.C17_life SC3.proofs.C17_conform SC3.proofs.C17_optac.
Open Scope string_scope. Open Scope Z_scope. Open Scope list_scope.

Lemma og_OPlay : forall n L s a0 a1 a2 a3 a4 a5 a6 s1 sends e,
  InvO L s -> wf_op n s (OPlay a0 a1 a2 a3 a4 a5 a6) = true -> obj_step repaired s (OPlay a0 a1 a2 a3 a4 a5 a6) = (s1, sends, e) ->
  InvO (op_ids s (OPlay a0 a1 a2 a3 a4 a5 a6) ++ L) s1 /\ Forall (Good (op_ids s (OPlay a0 a1 a2 a3 a4 a5 a6) ++ L)) (flat_map send_msgs sends).
Proof.
  intros n L s a0 a1 a2 a3 a4 a5 a6 s1 sends e I Hw H.
  cbn [wf_op] in Hw; try discriminate Hw; split_ands.
  unfold obj_step, obj_step_core, ok, fail in H.
  brk_hyp H; inversion H; subst; clear H.
  all: cbn [flat_map send_msgs app].
  all: cbn [op_ids].
  all: pose proof (io_dg _ _ I) as [DG DGS].
  all: change (v_dict_brackets repaired) with false in *.
  all: (split; [ try solve [inv_tac I] | try solve [constructor] ]).
  all: try solve [ use_target L I; use_nodes L I; unfold pargroup_creation_cmd, group_creation_cmd, py_int in *;
                   brk_eqs; bools; goods ].
  all: try solve [ bools; brk_eqs; toks; match goal with G : get_buf _ _ = Some _ |- _ => use_buf L I G end;
                   repeat match goal with G : get_buf _ _ = Some _ |- _ => use_buf L I G end;
                   ions; brk_eqs; goods ].
  all: try solve [ bools; brk_eqs; toks; match goal with G : get_bus _ _ = Some _ |- _ => use_bus L I G end; ions; brk_eqs; goods ].
  all: use_target L I; use_nodes L I.
  all: try solve [apply invO_add_node; [inv_tac I | known_tac]].
  all: repeat (constructor; [first [ eapply good_play; eauto using io_objs; try solve [known_tac]; try (right; right; right; right; reflexivity) | good_fixed ]|]); try constructor.

Qed.

Lemma og_OBufNew : forall n L s a0 a1 a2 a3 a4 a5 s1 sends e,
  InvO L s -> wf_op n s (OBufNew a0 a1 a2 a3 a4 a5) = true -> obj_step repaired s (OBufNew a0 a1 a2 a3 a4 a5) = (s1, sends, e) ->
  InvO (op_ids s (OBufNew a0 a1 a2 a3 a4 a5) ++ L) s1 /\ Forall (Good (op_ids s (OBufNew a0 a1 a2 a3 a4 a5) ++ L)) (flat_map send_msgs sends).
Proof.
  intros n L s a0 a1 a2 a3 a4 a5 s1 sends e I Hw H.
  cbn [wf_op] in Hw; try discriminate Hw; split_ands.
  unfold obj_step, obj_step_core, ok, fail in H.
  brk_hyp H; inversion H; subst; clear H.
  all: cbn [flat_map send_msgs app].
  all: cbn [op_ids].
  all: pose proof (io_dg _ _ I) as [DG DGS].
  all: change (v_dict_brackets repaired) with false in *.
  all: (split; [ try solve [inv_tac I] | try solve [constructor] ]).
  all: try solve [ use_target L I; use_nodes L I; unfold pargroup_creation_cmd, group_creation_cmd, py_int in *;
                   brk_eqs; bools; goods ].
  all: try solve [ bools; brk_eqs; toks; match goal with G : get_buf _ _ = Some _ |- _ => use_buf L I G end;
                   repeat match goal with G : get_buf _ _ = Some _ |- _ => use_buf L I G end;
                   ions; brk_eqs; goods ].
  all: try solve [ bools; brk_eqs; toks; match goal with G : get_bus _ _ = Some _ |- _ => use_bus L I G end; ions; brk_eqs; goods ].
  all: match goal with A : alloc_bufnum _ _ _ _ = Some _ |- _ => new_buf I A 1%nat end.
  all: try solve [apply invO_add_buf_none; assumption].
  all: try solve [apply invO_add_buf; [assumption | apply KN; left; reflexivity | assumption | assumption]].
  all: ions; (constructor; [good_compl Hw | constructor]).

Qed.

Lemma og_OBufConsecutive : forall n L s a0 a1 a2 a3 a4 a5 s1 sends e,
  InvO L s -> wf_op n s (OBufConsecutive a0 a1 a2 a3 a4 a5) = true -> obj_step repaired s (OBufConsecutive a0 a1 a2 a3 a4 a5) = (s1, sends, e) ->
  InvO (op_ids s (OBufConsecutive a0 a1 a2 a3 a4 a5) ++ L) s1 /\ Forall (Good (op_ids s (OBufConsecutive a0 a1 a2 a3 a4 a5) ++ L)) (flat_map send_msgs sends).
Proof.
  intros n L s a0 a1 a2 a3 a4 a5 s1 sends e I Hw H.
  cbn [wf_op] in Hw; try discriminate Hw; split_ands.
  unfold obj_step, obj_step_core, ok, fail in H.
  brk_hyp H; inversion H; subst; clear H.
  all: cbn [flat_map send_msgs app].
  all: cbn [op_ids].
  all: pose proof (io_dg _ _ I) as [DG DGS].
  all: change (v_dict_brackets repaired) with false in *.
  all: (split; [ try solve [inv_tac I] | try solve [constructor] ]).
  all: try solve [ use_target L I; use_nodes L I; unfold pargroup_creation_cmd, group_creation_cmd, py_int in *;
                   brk_eqs; bools; goods ].
  all: try solve [ bools; brk_eqs; toks; match goal with G : get_buf _ _ = Some _ |- _ => use_buf L I G end;
                   repeat match goal with G : get_buf _ _ = Some _ |- _ => use_buf L I G end;
                   ions; brk_eqs; goods ].
  all: try solve [ bools; brk_eqs; toks; match goal with G : get_bus _ _ = Some _ |- _ => use_bus L I G end; ions; brk_eqs; goods ].
  all: match goal with A : alloc_bufnum _ _ _ _ = Some _ |- _ => new_buf I A a1 end.
  all: try solve [apply invO_fold_add_buf; assumption].
  all: rewrite (flat_map_smsg (fun i => [PStr "/b_alloc"; PInt i; a2; a3; compl_val a5 (PInt i)])).
  all: apply Forall_forall; intros m Hm; apply in_map_iff in Hm; destruct Hm as [j [Em Hj]]; subst m.
  all: rewrite forallb_forall in Hw; pose proof (Hw j Hj) as Hcj.
  all: ions; good_compl Hcj.
  all: intros k i Hk; apply known_l; apply in_or_app; right; apply in_or_app; right; apply in_flat_map; exists j; split; assumption.

Qed.

Lemma og_OBufNewRead : forall n L s a0 a1 a2 a3 a4 a5 s1 sends e,
  InvO L s -> wf_op n s (OBufNewRead a0 a1 a2 a3 a4 a5) = true -> obj_step repaired s (OBufNewRead a0 a1 a2 a3 a4 a5) = (s1, sends, e) ->
  InvO (op_ids s (OBufNewRead a0 a1 a2 a3 a4 a5) ++ L) s1 /\ Forall (Good (op_ids s (OBufNewRead a0 a1 a2 a3 a4 a5) ++ L)) (flat_map send_msgs sends).
Proof.
  intros n L s a0 a1 a2 a3 a4 a5 s1 sends e I Hw H.
  cbn [wf_op] in Hw; try discriminate Hw; split_ands.
  unfold obj_step, obj_step_core, ok, fail in H.
  brk_hyp H; inversion H; subst; clear H.
  all: cbn [flat_map send_msgs app].
  all: cbn [op_ids].
  all: pose proof (io_dg _ _ I) as [DG DGS].
  all: change (v_dict_brackets repaired) with false in *.
  all: (split; [ try solve [inv_tac I] | try solve [constructor] ]).
  all: try solve [ use_target L I; use_nodes L I; unfold pargroup_creation_cmd, group_creation_cmd, py_int in *;
                   brk_eqs; bools; goods ].
  all: try solve [ bools; brk_eqs; toks; match goal with G : get_buf _ _ = Some _ |- _ => use_buf L I G end;
                   repeat match goal with G : get_buf _ _ = Some _ |- _ => use_buf L I G end;
                   ions; brk_eqs; goods ].
  all: try solve [ bools; brk_eqs; toks; match goal with G : get_bus _ _ = Some _ |- _ => use_bus L I G end; ions; brk_eqs; goods ].
  all: match goal with A : alloc_bufnum _ _ _ _ = Some _ |- _ => new_buf I A 1%nat end.
  all: try solve [apply invO_add_buf; [assumption | apply KN; left; reflexivity | reflexivity | reflexivity]].
  all: constructor; [|constructor]. all: query_compl. all: good_compl (@eq_refl bool true).

Qed.

Lemma og_OBufNewCue : forall n L s a0 a1 a2 a3 a4 a5 a6 s1 sends e,
  InvO L s -> wf_op n s (OBufNewCue a0 a1 a2 a3 a4 a5 a6) = true -> obj_step repaired s (OBufNewCue a0 a1 a2 a3 a4 a5 a6) = (s1, sends, e) ->
  InvO (op_ids s (OBufNewCue a0 a1 a2 a3 a4 a5 a6) ++ L) s1 /\ Forall (Good (op_ids s (OBufNewCue a0 a1 a2 a3 a4 a5 a6) ++ L)) (flat_map send_msgs sends).
Proof.
  intros n L s a0 a1 a2 a3 a4 a5 a6 s1 sends e I Hw H.
  cbn [wf_op] in Hw; try discriminate Hw; split_ands.
  unfold obj_step, obj_step_core, ok, fail in H.
  brk_hyp H; inversion H; subst; clear H.
  all: cbn [flat_map send_msgs app].
  all: cbn [op_ids].
  all: pose proof (io_dg _ _ I) as [DG DGS].
  all: change (v_dict_brackets repaired) with false in *.
  all: (split; [ try solve [inv_tac I] | try solve [constructor] ]).
  all: try solve [ use_target L I; use_nodes L I; unfold pargroup_creation_cmd, group_creation_cmd, py_int in *;
                   brk_eqs; bools; goods ].
  all: try solve [ bools; brk_eqs; toks; match goal with G : get_buf _ _ = Some _ |- _ => use_buf L I G end;
                   repeat match goal with G : get_buf _ _ = Some _ |- _ => use_buf L I G end;
                   ions; brk_eqs; goods ].
  all: try solve [ bools; brk_eqs; toks; match goal with G : get_bus _ _ = Some _ |- _ => use_bus L I G end; ions; brk_eqs; goods ].
  all: match goal with A : alloc_bufnum _ _ _ _ = Some _ |- _ => new_buf I A 1%nat end.
  all: try solve [apply invO_add_buf; [assumption | apply KN; left; reflexivity | reflexivity | assumption]].
  all: ions; (constructor; [|constructor]).
  all: match goal with
       | |- Good ?LL [PStr "/b_alloc"; ?x1; ?x2; ?x3; PList (PStr ?ia :: ?il)] =>
         assert (GI : Good LL (PStr ia :: il)) by good_compl Hw;
         destruct (good_nested _ _ _ GI) as [x [Wx [Ox [Cx Kx]]]];
         eapply (good_compl_gen LL "/b_alloc" [x1; x2; x3] _ x); try reflexivity; try exact Wx; try exact Ox; try exact Cx;
         try exact Kx; try (let y := fresh "y" in intros y; reflexivity); try solve [ids_goal]
       end.

Qed.

Lemma og_OBufAlloc : forall n L s a0 a1 s1 sends e,
  InvO L s -> wf_op n s (OBufAlloc a0 a1) = true -> obj_step repaired s (OBufAlloc a0 a1) = (s1, sends, e) ->
  InvO (op_ids s (OBufAlloc a0 a1) ++ L) s1 /\ Forall (Good (op_ids s (OBufAlloc a0 a1) ++ L)) (flat_map send_msgs sends).
Proof.
  intros n L s a0 a1 s1 sends e I Hw H.
  cbn [wf_op] in Hw; try discriminate Hw; split_ands.
  unfold obj_step, obj_step_core, ok, fail in H.
  brk_hyp H; inversion H; subst; clear H.
  all: cbn [flat_map send_msgs app].
  all: cbn [op_ids].
  all: pose proof (io_dg _ _ I) as [DG DGS].
  all: change (v_dict_brackets repaired) with false in *.
  all: (split; [ try solve [inv_tac I] | try solve [constructor] ]).
  all: try solve [ use_target L I; use_nodes L I; unfold pargroup_creation_cmd, group_creation_cmd, py_int in *;
                   brk_eqs; bools; goods ].
  all: try solve [ bools; brk_eqs; toks; match goal with G : get_buf _ _ = Some _ |- _ => use_buf L I G end;
                   repeat match goal with G : get_buf _ _ = Some _ |- _ => use_buf L I G end;
                   ions; brk_eqs; goods ].
  all: try solve [ bools; brk_eqs; toks; match goal with G : get_bus _ _ = Some _ |- _ => use_bus L I G end; ions; brk_eqs; goods ].
  all: try solve [ apply invO_clear_buf; inv_blk I ].
  all: try solve [ bools; try match goal with G : get_buf _ _ = Some _ |- _ => use_buf L I G end; ions; brk_eqs;
                   (constructor; [good_compl Hw | constructor]) ].

Qed.

Lemma og_OBufAllocRead : forall n L s a0 a1 a2 a3 a4 a5 s1 sends e,
  InvO L s -> wf_op n s (OBufAllocRead a0 a1 a2 a3 a4 a5) = true -> obj_step repaired s (OBufAllocRead a0 a1 a2 a3 a4 a5) = (s1, sends, e) ->
  InvO (op_ids s (OBufAllocRead a0 a1 a2 a3 a4 a5) ++ L) s1 /\ Forall (Good (op_ids s (OBufAllocRead a0 a1 a2 a3 a4 a5) ++ L)) (flat_map send_msgs sends).
Proof.
  intros n L s a0 a1 a2 a3 a4 a5 s1 sends e I Hw H.
  cbn [wf_op] in Hw; try discriminate Hw; split_ands.
  unfold obj_step, obj_step_core, ok, fail in H.
  brk_hyp H; inversion H; subst; clear H.
  all: cbn [flat_map send_msgs app].
  all: cbn [op_ids].
  all: pose proof (io_dg _ _ I) as [DG DGS].
  all: change (v_dict_brackets repaired) with false in *.
  all: (split; [ try solve [inv_tac I] | try solve [constructor] ]).
  all: try solve [ use_target L I; use_nodes L I; unfold pargroup_creation_cmd, group_creation_cmd, py_int in *;
                   brk_eqs; bools; goods ].
  all: try solve [ bools; brk_eqs; toks; match goal with G : get_buf _ _ = Some _ |- _ => use_buf L I G end;
                   repeat match goal with G : get_buf _ _ = Some _ |- _ => use_buf L I G end;
                   ions; brk_eqs; goods ].
  all: try solve [ bools; brk_eqs; toks; match goal with G : get_bus _ _ = Some _ |- _ => use_bus L I G end; ions; brk_eqs; goods ].
  all: bools; match goal with G : get_buf _ _ = Some _ |- _ => use_buf L I G end; ions; brk_eqs.
  all: constructor; [|constructor]. all: good_compl Hw.

Qed.

Lemma og_OBufRead : forall n L s a0 a1 a2 a3 a4 a5 a6 s1 sends e,
  InvO L s -> wf_op n s (OBufRead a0 a1 a2 a3 a4 a5 a6) = true -> obj_step repaired s (OBufRead a0 a1 a2 a3 a4 a5 a6) = (s1, sends, e) ->
  InvO (op_ids s (OBufRead a0 a1 a2 a3 a4 a5 a6) ++ L) s1 /\ Forall (Good (op_ids s (OBufRead a0 a1 a2 a3 a4 a5 a6) ++ L)) (flat_map send_msgs sends).
Proof.
  intros n L s a0 a1 a2 a3 a4 a5 a6 s1 sends e I Hw H.
  cbn [wf_op] in Hw; try discriminate Hw; split_ands.
  unfold obj_step, obj_step_core, ok, fail in H.
  brk_hyp H; inversion H; subst; clear H.
  all: cbn [flat_map send_msgs app].
  all: cbn [op_ids].
  all: pose proof (io_dg _ _ I) as [DG DGS].
  all: change (v_dict_brackets repaired) with false in *.
  all: (split; [ try solve [inv_tac I] | try solve [constructor] ]).
  all: try solve [ use_target L I; use_nodes L I; unfold pargroup_creation_cmd, group_creation_cmd, py_int in *;
                   brk_eqs; bools; goods ].
  all: try solve [ bools; brk_eqs; toks; match goal with G : get_buf _ _ = Some _ |- _ => use_buf L I G end;
                   repeat match goal with G : get_buf _ _ = Some _ |- _ => use_buf L I G end;
                   ions; brk_eqs; goods ].
  all: try solve [ bools; brk_eqs; toks; match goal with G : get_bus _ _ = Some _ |- _ => use_bus L I G end; ions; brk_eqs; goods ].
  all: bools; match goal with G : get_buf _ _ = Some _ |- _ => use_buf L I G end; ions; brk_eqs.
  all: constructor; [|constructor]. all: query_compl. all: good_compl (@eq_refl bool true).

Qed.

Lemma og_OBufCue : forall n L s a0 a1 a2 a3 s1 sends e,
  InvO L s -> wf_op n s (OBufCue a0 a1 a2 a3) = true -> obj_step repaired s (OBufCue a0 a1 a2 a3) = (s1, sends, e) ->
  InvO (op_ids s (OBufCue a0 a1 a2 a3) ++ L) s1 /\ Forall (Good (op_ids s (OBufCue a0 a1 a2 a3) ++ L)) (flat_map send_msgs sends).
Proof.
  intros n L s a0 a1 a2 a3 s1 sends e I Hw H.
  cbn [wf_op] in Hw; try discriminate Hw; split_ands.
  unfold obj_step, obj_step_core, ok, fail in H.
  brk_hyp H; inversion H; subst; clear H.
  all: cbn [flat_map send_msgs app].
  all: cbn [op_ids].
  all: pose proof (io_dg _ _ I) as [DG DGS].
  all: change (v_dict_brackets repaired) with false in *.
  all: (split; [ try solve [inv_tac I] | try solve [constructor] ]).
  all: try solve [ use_target L I; use_nodes L I; unfold pargroup_creation_cmd, group_creation_cmd, py_int in *;
                   brk_eqs; bools; goods ].
  all: try solve [ bools; brk_eqs; toks; match goal with G : get_buf _ _ = Some _ |- _ => use_buf L I G end;
                   repeat match goal with G : get_buf _ _ = Some _ |- _ => use_buf L I G end;
                   ions; brk_eqs; goods ].
  all: try solve [ bools; brk_eqs; toks; match goal with G : get_bus _ _ = Some _ |- _ => use_bus L I G end; ions; brk_eqs; goods ].
  all: try solve [ apply invO_clear_buf; inv_blk I ].
  all: try solve [ bools; try match goal with G : get_buf _ _ = Some _ |- _ => use_buf L I G end; ions; brk_eqs;
                   (constructor; [good_compl Hw | constructor]) ].

Qed.

Lemma og_OBufWrite : forall n L s a0 a1 a2 a3 a4 a5 a6 a7 s1 sends e,
  InvO L s -> wf_op n s (OBufWrite a0 a1 a2 a3 a4 a5 a6 a7) = true -> obj_step repaired s (OBufWrite a0 a1 a2 a3 a4 a5 a6 a7) = (s1, sends, e) ->
  InvO (op_ids s (OBufWrite a0 a1 a2 a3 a4 a5 a6 a7) ++ L) s1 /\ Forall (Good (op_ids s (OBufWrite a0 a1 a2 a3 a4 a5 a6 a7) ++ L)) (flat_map send_msgs sends).
Proof.
  intros n L s a0 a1 a2 a3 a4 a5 a6 a7 s1 sends e I Hw H.
  cbn [wf_op] in Hw; try discriminate Hw; split_ands.
  unfold obj_step, obj_step_core, ok, fail in H.
  brk_hyp H; inversion H; subst; clear H.
  all: cbn [flat_map send_msgs app].
  all: cbn [op_ids].
  all: pose proof (io_dg _ _ I) as [DG DGS].
  all: change (v_dict_brackets repaired) with false in *.
  all: (split; [ try solve [inv_tac I] | try solve [constructor] ]).
  all: try solve [ use_target L I; use_nodes L I; unfold pargroup_creation_cmd, group_creation_cmd, py_int in *;
                   brk_eqs; bools; goods ].
  all: try solve [ bools; brk_eqs; toks; match goal with G : get_buf _ _ = Some _ |- _ => use_buf L I G end;
                   repeat match goal with G : get_buf _ _ = Some _ |- _ => use_buf L I G end;
                   ions; brk_eqs; goods ].
  all: try solve [ bools; brk_eqs; toks; match goal with G : get_bus _ _ = Some _ |- _ => use_bus L I G end; ions; brk_eqs; goods ].
  all: try solve [ apply invO_clear_buf; inv_blk I ].
  all: try solve [ bools; try match goal with G : get_buf _ _ = Some _ |- _ => use_buf L I G end; ions; brk_eqs;
                   (constructor; [good_compl Hw | constructor]) ].

Qed.

Lemma og_OBufSimple : forall n L s a0 a1 a2 s1 sends e,
  InvO L s -> wf_op n s (OBufSimple a0 a1 a2) = true -> obj_step repaired s (OBufSimple a0 a1 a2) = (s1, sends, e) ->
  InvO (op_ids s (OBufSimple a0 a1 a2) ++ L) s1 /\ Forall (Good (op_ids s (OBufSimple a0 a1 a2) ++ L)) (flat_map send_msgs sends).
Proof.
  intros n L s a0 a1 a2 s1 sends e I Hw H.
  cbn [wf_op] in Hw; try discriminate Hw; split_ands.
  unfold obj_step, obj_step_core, ok, fail in H.
  brk_hyp H; inversion H; subst; clear H.
  all: cbn [flat_map send_msgs app].
  all: cbn [op_ids].
  all: pose proof (io_dg _ _ I) as [DG DGS].
  all: change (v_dict_brackets repaired) with false in *.
  all: (split; [ try solve [inv_tac I] | try solve [constructor] ]).
  all: try solve [ use_target L I; use_nodes L I; unfold pargroup_creation_cmd, group_creation_cmd, py_int in *;
                   brk_eqs; bools; goods ].
  all: try solve [ bools; brk_eqs; toks; match goal with G : get_buf _ _ = Some _ |- _ => use_buf L I G end;
                   repeat match goal with G : get_buf _ _ = Some _ |- _ => use_buf L I G end;
                   ions; brk_eqs; goods ].
  all: try solve [ bools; brk_eqs; toks; match goal with G : get_bus _ _ = Some _ |- _ => use_bus L I G end; ions; brk_eqs; goods ].
  all: unfold is_simple_cmd in P; apply orb_true_iff in P; destruct P as [P|P]; apply String.eqb_eq in P; subst.
  all: try solve [ bools; try match goal with G : get_buf _ _ = Some _ |- _ => use_buf L I G end; ions; brk_eqs;
                   (constructor; [good_compl Hw | constructor]) ].

Qed.

Lemma og_OBufFree : forall n L s a0 a1 s1 sends e,
  InvO L s -> wf_op n s (OBufFree a0 a1) = true -> obj_step repaired s (OBufFree a0 a1) = (s1, sends, e) ->
  InvO (op_ids s (OBufFree a0 a1) ++ L) s1 /\ Forall (Good (op_ids s (OBufFree a0 a1) ++ L)) (flat_map send_msgs sends).
Proof.
  intros n L s a0 a1 s1 sends e I Hw H.
  cbn [wf_op] in Hw; try discriminate Hw; split_ands.
  unfold obj_step, obj_step_core, ok, fail in H.
  brk_hyp H; inversion H; subst; clear H.
  all: cbn [flat_map send_msgs app].
  all: cbn [op_ids].
  all: pose proof (io_dg _ _ I) as [DG DGS].
  all: change (v_dict_brackets repaired) with false in *.
  all: (split; [ try solve [inv_tac I] | try solve [constructor] ]).
  all: try solve [ use_target L I; use_nodes L I; unfold pargroup_creation_cmd, group_creation_cmd, py_int in *;
                   brk_eqs; bools; goods ].
  all: try solve [ bools; brk_eqs; toks; match goal with G : get_buf _ _ = Some _ |- _ => use_buf L I G end;
                   repeat match goal with G : get_buf _ _ = Some _ |- _ => use_buf L I G end;
                   ions; brk_eqs; goods ].
  all: try solve [ bools; brk_eqs; toks; match goal with G : get_bus _ _ = Some _ |- _ => use_bus L I G end; ions; brk_eqs; goods ].
  all: try solve [ apply invO_clear_buf; inv_blk I ].
  all: try solve [ bools; try match goal with G : get_buf _ _ = Some _ |- _ => use_buf L I G end; ions; brk_eqs;
                   (constructor; [good_compl Hw | constructor]) ].
  all: apply invO_clear_buf; inv_blk I.

Qed.

Lemma og_OBufFreeAll : forall n L s  s1 sends e,
  InvO L s -> wf_op n s (OBufFreeAll ) = true -> obj_step repaired s (OBufFreeAll ) = (s1, sends, e) ->
  InvO (op_ids s (OBufFreeAll ) ++ L) s1 /\ Forall (Good (op_ids s (OBufFreeAll ) ++ L)) (flat_map send_msgs sends).
Proof.
  intros n L s  s1 sends e I Hw H.
  cbn [wf_op] in Hw; try discriminate Hw; split_ands.
  unfold obj_step, obj_step_core, ok, fail in H.
  brk_hyp H; inversion H; subst; clear H.
  all: cbn [flat_map send_msgs app].
  all: cbn [op_ids].
  all: pose proof (io_dg _ _ I) as [DG DGS].
  all: change (v_dict_brackets repaired) with false in *.
  all: (split; [ try solve [inv_tac I] | try solve [constructor] ]).
  all: try solve [ use_target L I; use_nodes L I; unfold pargroup_creation_cmd, group_creation_cmd, py_int in *;
                   brk_eqs; bools; goods ].
  all: try solve [ bools; brk_eqs; toks; match goal with G : get_buf _ _ = Some _ |- _ => use_buf L I G end;
                   repeat match goal with G : get_buf _ _ = Some _ |- _ => use_buf L I G end;
                   ions; brk_eqs; goods ].
  all: try solve [ bools; brk_eqs; toks; match goal with G : get_bus _ _ = Some _ |- _ => use_bus L I G end; ions; brk_eqs; goods ].
  all: try discriminate.
  all: try solve [inv_blk I].
  all: rewrite app_nil_r; apply Forall_forall; intros m Hm; apply in_flat_map in Hm; destruct Hm as [blk [Hb Hm]];
       apply in_map_iff in Hm; destruct Hm as [i [Em Hi]]; subst m;
       pose proof (io_blk _ _ I blk i Hb Hi); good_fixed.

Qed.

Lemma og_OBufFill : forall n L s a0 a1 a2 a3 s1 sends e,
  InvO L s -> wf_op n s (OBufFill a0 a1 a2 a3) = true -> obj_step repaired s (OBufFill a0 a1 a2 a3) = (s1, sends, e) ->
  InvO (op_ids s (OBufFill a0 a1 a2 a3) ++ L) s1 /\ Forall (Good (op_ids s (OBufFill a0 a1 a2 a3) ++ L)) (flat_map send_msgs sends).
Proof.
  intros n L s a0 a1 a2 a3 s1 sends e I Hw H.
  cbn [wf_op] in Hw; try discriminate Hw; split_ands.
  unfold obj_step, obj_step_core, ok, fail in H.
  brk_hyp H; inversion H; subst; clear H.
  all: cbn [flat_map send_msgs app].
  all: cbn [op_ids].
  all: pose proof (io_dg _ _ I) as [DG DGS].
  all: change (v_dict_brackets repaired) with false in *.
  all: (split; [ try solve [inv_tac I] | try solve [constructor] ]).
  all: try solve [ use_target L I; use_nodes L I; unfold pargroup_creation_cmd, group_creation_cmd, py_int in *;
                   brk_eqs; bools; goods ].
  all: try solve [ bools; brk_eqs; toks; match goal with G : get_buf _ _ = Some _ |- _ => use_buf L I G end;
                   repeat match goal with G : get_buf _ _ = Some _ |- _ => use_buf L I G end;
                   ions; brk_eqs; goods ].
  all: try solve [ bools; brk_eqs; toks; match goal with G : get_bus _ _ = Some _ |- _ => use_bus L I G end; ions; brk_eqs; goods ].
  all: match goal with G : get_buf _ _ = Some _ |- _ => use_buf L I G end; ions.
  all: constructor; [|constructor].
  all: destruct (chunks_groups [TInt; TInt; TNum] ltac:(discriminate) _ _ Hw) as [W [G T]].
  all: eapply (good_groups _ "/b_fill" [PInt z] (a1 :: p :: a3) _ [TInt; TInt; TNum] true _ _ []);
       try reflexivity; try exact W; try exact G; try apply toks_not_msg; try (let Y := fresh "Y" in intros Y; reflexivity);
       try solve [ids_goal]; try solve [intros k i []].
  all: right; discriminate.

Qed.

Lemma og_OBufSet : forall n L s a0 a1 s1 sends e,
  InvO L s -> wf_op n s (OBufSet a0 a1) = true -> obj_step repaired s (OBufSet a0 a1) = (s1, sends, e) ->
  InvO (op_ids s (OBufSet a0 a1) ++ L) s1 /\ Forall (Good (op_ids s (OBufSet a0 a1) ++ L)) (flat_map send_msgs sends).
Proof.
  intros n L s a0 a1 s1 sends e I Hw H.
  cbn [wf_op] in Hw; try discriminate Hw; split_ands.
  unfold obj_step, obj_step_core, ok, fail in H.
  brk_hyp H; inversion H; subst; clear H.
  all: cbn [flat_map send_msgs app].
  all: cbn [op_ids].
  all: pose proof (io_dg _ _ I) as [DG DGS].
  all: change (v_dict_brackets repaired) with false in *.
  all: (split; [ try solve [inv_tac I] | try solve [constructor] ]).
  all: try solve [ use_target L I; use_nodes L I; unfold pargroup_creation_cmd, group_creation_cmd, py_int in *;
                   brk_eqs; bools; goods ].
  all: try solve [ bools; brk_eqs; toks; match goal with G : get_buf _ _ = Some _ |- _ => use_buf L I G end;
                   repeat match goal with G : get_buf _ _ = Some _ |- _ => use_buf L I G end;
                   ions; brk_eqs; goods ].
  all: try solve [ bools; brk_eqs; toks; match goal with G : get_bus _ _ = Some _ |- _ => use_bus L I G end; ions; brk_eqs; goods ].
  all: match goal with G : get_buf _ _ = Some _ |- _ => use_buf L I G end; ions.
  all: constructor; [|constructor].
  all: destruct (chunks_groups [TInt; TNum] ltac:(discriminate) _ _ P) as [W [G T]].
  all: eapply (good_groups _ "/b_set" [PInt z] (p :: p0 :: l0) _ [TInt; TNum] true _ _ []);
       try reflexivity; try exact W; try exact G; try apply toks_not_msg; try (let Y := fresh "Y" in intros Y; reflexivity);
       try solve [ids_goal]; try solve [intros k i []].
  all: right; discriminate.

Qed.

Lemma og_OBufSetn : forall n L s a0 a1 s1 sends e,
  InvO L s -> wf_op n s (OBufSetn a0 a1) = true -> obj_step repaired s (OBufSetn a0 a1) = (s1, sends, e) ->
  InvO (op_ids s (OBufSetn a0 a1) ++ L) s1 /\ Forall (Good (op_ids s (OBufSetn a0 a1) ++ L)) (flat_map send_msgs sends).
Proof.
  intros n L s a0 a1 s1 sends e I Hw H.
  cbn [wf_op] in Hw; try discriminate Hw; split_ands.
  unfold obj_step, obj_step_core, ok, fail in H.
  brk_hyp H; inversion H; subst; clear H.
  all: cbn [flat_map send_msgs app].
  all: cbn [op_ids].
  all: pose proof (io_dg _ _ I) as [DG DGS].
  all: change (v_dict_brackets repaired) with false in *.
  all: (split; [ try solve [inv_tac I] | try solve [constructor] ]).
  all: try solve [ use_target L I; use_nodes L I; unfold pargroup_creation_cmd, group_creation_cmd, py_int in *;
                   brk_eqs; bools; goods ].
  all: try solve [ bools; brk_eqs; toks; match goal with G : get_buf _ _ = Some _ |- _ => use_buf L I G end;
                   repeat match goal with G : get_buf _ _ = Some _ |- _ => use_buf L I G end;
                   ions; brk_eqs; goods ].
  all: try solve [ bools; brk_eqs; toks; match goal with G : get_bus _ _ = Some _ |- _ => use_bus L I G end; ions; brk_eqs; goods ].
  all: match goal with G : get_buf _ _ = Some _ |- _ => use_buf L I G end; ions.
  all: constructor; [|constructor].
  all: destruct (setn_groups TInt w_int (fun c r Hc => conj (eat_int_tok c r Hc) (int_is_tok c Hc)) _ a1 (le_n _) P)
         as [ws [W [G [N Ne]]]].
  all: eapply (good_cgroups _ "/b_setn" [PInt z] (setn_items a1) _ TInt TNum _ ws []);
       try reflexivity; try exact W; try exact G; try exact N; try (let Y := fresh "Y" in intros Y; reflexivity);
       try solve [ids_goal]; try solve [intros k i []].
  all: apply Ne; destruct a1; [discriminate Hw | discriminate].

Qed.

Lemma og_OBufQuery : forall n L s a0 a1 s1 sends e,
  InvO L s -> wf_op n s (OBufQuery a0 a1) = true -> obj_step repaired s (OBufQuery a0 a1) = (s1, sends, e) ->
  InvO (op_ids s (OBufQuery a0 a1) ++ L) s1 /\ Forall (Good (op_ids s (OBufQuery a0 a1) ++ L)) (flat_map send_msgs sends).
Proof.
  intros n L s a0 a1 s1 sends e I Hw H.
  cbn [wf_op] in Hw; try discriminate Hw; split_ands.
  unfold obj_step, obj_step_core, ok, fail in H.
  brk_hyp H; inversion H; subst; clear H.
  all: cbn [flat_map send_msgs app].
  all: cbn [op_ids].
  all: pose proof (io_dg _ _ I) as [DG DGS].
  all: change (v_dict_brackets repaired) with false in *.
  all: (split; [ try solve [inv_tac I] | try solve [constructor] ]).
  all: try solve [ use_target L I; use_nodes L I; unfold pargroup_creation_cmd, group_creation_cmd, py_int in *;
                   brk_eqs; bools; goods ].
  all: try solve [ bools; brk_eqs; toks; match goal with G : get_buf _ _ = Some _ |- _ => use_buf L I G end;
                   repeat match goal with G : get_buf _ _ = Some _ |- _ => use_buf L I G end;
                   ions; brk_eqs; goods ].
  all: try solve [ bools; brk_eqs; toks; match goal with G : get_bus _ _ = Some _ |- _ => use_bus L I G end; ions; brk_eqs; goods ].

Qed.

Lemma og_OBufGet : forall n L s a0 a1 s1 sends e,
  InvO L s -> wf_op n s (OBufGet a0 a1) = true -> obj_step repaired s (OBufGet a0 a1) = (s1, sends, e) ->
  InvO (op_ids s (OBufGet a0 a1) ++ L) s1 /\ Forall (Good (op_ids s (OBufGet a0 a1) ++ L)) (flat_map send_msgs sends).
Proof.
  intros n L s a0 a1 s1 sends e I Hw H.
  cbn [wf_op] in Hw; try discriminate Hw; split_ands.
  unfold obj_step, obj_step_core, ok, fail in H.
  brk_hyp H; inversion H; subst; clear H.
  all: cbn [flat_map send_msgs app].
  all: cbn [op_ids].
  all: pose proof (io_dg _ _ I) as [DG DGS].
  all: change (v_dict_brackets repaired) with false in *.
  all: (split; [ try solve [inv_tac I] | try solve [constructor] ]).
  all: try solve [ use_target L I; use_nodes L I; unfold pargroup_creation_cmd, group_creation_cmd, py_int in *;
                   brk_eqs; bools; goods ].
  all: try solve [ bools; brk_eqs; toks; match goal with G : get_buf _ _ = Some _ |- _ => use_buf L I G end;
                   repeat match goal with G : get_buf _ _ = Some _ |- _ => use_buf L I G end;
                   ions; brk_eqs; goods ].
  all: try solve [ bools; brk_eqs; toks; match goal with G : get_bus _ _ = Some _ |- _ => use_bus L I G end; ions; brk_eqs; goods ].

Qed.

Lemma og_OBufGetn : forall n L s a0 a1 a2 s1 sends e,
  InvO L s -> wf_op n s (OBufGetn a0 a1 a2) = true -> obj_step repaired s (OBufGetn a0 a1 a2) = (s1, sends, e) ->
  InvO (op_ids s (OBufGetn a0 a1 a2) ++ L) s1 /\ Forall (Good (op_ids s (OBufGetn a0 a1 a2) ++ L)) (flat_map send_msgs sends).
Proof.
  intros n L s a0 a1 a2 s1 sends e I Hw H.
  cbn [wf_op] in Hw; try discriminate Hw; split_ands.
  unfold obj_step, obj_step_core, ok, fail in H.
  brk_hyp H; inversion H; subst; clear H.
  all: cbn [flat_map send_msgs app].
  all: cbn [op_ids].
  all: pose proof (io_dg _ _ I) as [DG DGS].
  all: change (v_dict_brackets repaired) with false in *.
  all: (split; [ try solve [inv_tac I] | try solve [constructor] ]).
  all: try solve [ use_target L I; use_nodes L I; unfold pargroup_creation_cmd, group_creation_cmd, py_int in *;
                   brk_eqs; bools; goods ].
  all: try solve [ bools; brk_eqs; toks; match goal with G : get_buf _ _ = Some _ |- _ => use_buf L I G end;
                   repeat match goal with G : get_buf _ _ = Some _ |- _ => use_buf L I G end;
                   ions; brk_eqs; goods ].
  all: try solve [ bools; brk_eqs; toks; match goal with G : get_bus _ _ = Some _ |- _ => use_bus L I G end; ions; brk_eqs; goods ].

Qed.

Lemma og_OBufGen : forall n L s a0 a1 a2 a3 a4 a5 s1 sends e,
  InvO L s -> wf_op n s (OBufGen a0 a1 a2 a3 a4 a5) = true -> obj_step repaired s (OBufGen a0 a1 a2 a3 a4 a5) = (s1, sends, e) ->
  InvO (op_ids s (OBufGen a0 a1 a2 a3 a4 a5) ++ L) s1 /\ Forall (Good (op_ids s (OBufGen a0 a1 a2 a3 a4 a5) ++ L)) (flat_map send_msgs sends).
Proof.
  intros n L s a0 a1 a2 a3 a4 a5 s1 sends e I Hw H.
  cbn [wf_op] in Hw; try discriminate Hw; split_ands.
  unfold obj_step, obj_step_core, ok, fail in H.
  brk_hyp H; inversion H; subst; clear H.
  all: cbn [flat_map send_msgs app].
  all: cbn [op_ids].
  all: pose proof (io_dg _ _ I) as [DG DGS].
  all: change (v_dict_brackets repaired) with false in *.
  all: (split; [ try solve [inv_tac I] | try solve [constructor] ]).
  all: try solve [ use_target L I; use_nodes L I; unfold pargroup_creation_cmd, group_creation_cmd, py_int in *;
                   brk_eqs; bools; goods ].
  all: try solve [ bools; brk_eqs; toks; match goal with G : get_buf _ _ = Some _ |- _ => use_buf L I G end;
                   repeat match goal with G : get_buf _ _ = Some _ |- _ => use_buf L I G end;
                   ions; brk_eqs; goods ].
  all: try solve [ bools; brk_eqs; toks; match goal with G : get_bus _ _ = Some _ |- _ => use_bus L I G end; ions; brk_eqs; goods ].
  all: match goal with G : get_buf _ _ = Some _ |- _ => use_buf L I G end; ions.
  all: constructor; [|constructor].
  all: destruct (chunks_groups [TNumStr] ltac:(discriminate) _ _ Hw) as [W [G T]].
  all: eapply (good_groups _ "/b_gen" [PInt z; PStr a1] (PInt (oflags a3 a4 a5) :: a2) _ [TNumStr] false _
                           ([AInt (oflags a3 a4 a5)] ++ map wtok a2) ([] ++ []));
       try reflexivity; try (let Y := fresh "Y" in intros Y; reflexivity); try solve [ids_goal]; try solve [intros k i []]; try wtok_tac.
  all: try (cbn [wire_args wire_arg]; rewrite W; reflexivity).
  all: try (constructor; [discriminate | intros r; reflexivity | exact G]).
  all: try (left; reflexivity).
  all: try (cbn [app forallb not_msg]; apply toks_not_msg).

Qed.

Lemma og_OBufNormalize : forall n L s a0 a1 a2 s1 sends e,
  InvO L s -> wf_op n s (OBufNormalize a0 a1 a2) = true -> obj_step repaired s (OBufNormalize a0 a1 a2) = (s1, sends, e) ->
  InvO (op_ids s (OBufNormalize a0 a1 a2) ++ L) s1 /\ Forall (Good (op_ids s (OBufNormalize a0 a1 a2) ++ L)) (flat_map send_msgs sends).
Proof.
  intros n L s a0 a1 a2 s1 sends e I Hw H.
  cbn [wf_op] in Hw; try discriminate Hw; split_ands.
  unfold obj_step, obj_step_core, ok, fail in H.
  brk_hyp H; inversion H; subst; clear H.
  all: cbn [flat_map send_msgs app].
  all: cbn [op_ids].
  all: pose proof (io_dg _ _ I) as [DG DGS].
  all: change (v_dict_brackets repaired) with false in *.
  all: (split; [ try solve [inv_tac I] | try solve [constructor] ]).
  all: try solve [ use_target L I; use_nodes L I; unfold pargroup_creation_cmd, group_creation_cmd, py_int in *;
                   brk_eqs; bools; goods ].
  all: try solve [ bools; brk_eqs; toks; match goal with G : get_buf _ _ = Some _ |- _ => use_buf L I G end;
                   repeat match goal with G : get_buf _ _ = Some _ |- _ => use_buf L I G end;
                   ions; brk_eqs; goods ].
  all: try solve [ bools; brk_eqs; toks; match goal with G : get_bus _ _ = Some _ |- _ => use_bus L I G end; ions; brk_eqs; goods ].

Qed.
