(* C04 -- the statements used by props/C04.v, derived from C04_layout.v *)
From Coq Require Import String List QArith Bool Arith PeanoNat Lia.
Import ListNotations.
Require Import SC3.model.Controls SC3.proofs.C04_layout.
Open Scope nat_scope.

(* ------------------------------------------------------------------ _args_to_controls *)
Definition entry_of (specs : list (string * Q)) (rs : list rspec) (prov i : nat) (p : param) : cname :=
  {| cn_name := p_name p; cn_index := prov;
     cn_rate := fst (classify (p_annot p) (rate_at rs i));
     cn_default := fst (arg_value specs p); cn_scalar := snd (arg_value specs p);
     cn_lag := snd (classify (p_annot p) (rate_at rs i)); cn_argnum := i |}.

Lemma mk_cnames_nth specs rs prov : forall ps i0 i p, nth_error ps i = Some p ->
  nth_error (mk_cnames specs rs prov i0 ps) i = Some (entry_of specs rs prov (i0 + i) p).
Proof.
  induction ps as [|q ps IH]; intros i0 i p H; [destruct i; discriminate|].
  cbn [mk_cnames]. destruct (arg_value specs q) as [vals sc] eqn:AV.
  destruct (classify (p_annot q) (rate_at rs i0)) as [r lg] eqn:CL.
  destruct i as [|i].
  - injection H as <-. cbn [nth_error]. unfold entry_of. rewrite Nat.add_0_r, AV, CL. reflexivity.
  - cbn [nth_error] in *. rewrite (IH (S i0) i p H). f_equal. f_equal. lia.
Qed.
Lemma mk_cnames_length specs rs prov : forall ps i0, length (mk_cnames specs rs prov i0 ps) = length ps.
Proof.
  induction ps as [|q ps IH]; intros i0; [reflexivity|]. cbn [mk_cnames].
  destruct (arg_value specs q), (classify (p_annot q) (rate_at rs i0)). simpl. rewrite IH. reflexivity.
Qed.

Lemma args_to_controls_ok specs st f cns :
  args_to_controls specs st f = Ok cns ->
  cns = mk_cnames specs (f_rates f) (length (st_controls st)) 0 (skipn (f_prepend f) (f_params f)).
Proof.
  unfold args_to_controls. destruct (f_params f) as [|p ps] eqn:P.
  - intro H. injection H as <-. rewrite skipn_nil. reflexivity.
  - destruct (negb (forallb p_pok (p :: ps))); [discriminate|].
    destruct (negb (forallb rank_ok _)); [discriminate|].
    destruct (negb (forallb _ _)); [discriminate|].
    intro H. injection H as <-. reflexivity.
Qed.

(* ------------------------------------------------------------------ one function *)
Definition slot_of (base : nat) (cns : list cname) (i : nat) (c : cname) : nat :=
  base + before (cn_rate c) cns + length (gslots (cn_rate c) (firstn i cns)).

Lemma build_one_spec specs st f st' :
  build_one fixed specs (Ok st) f = Ok st' -> st_cindex st = length (st_controls st) ->
  exists cns pl,
    cns = mk_cnames specs (f_rates f) (length (st_controls st)) 0 (skipn (f_prepend f) (f_params f)) /\
    f_prepend f <= length (f_params f) /\
    st_all st' = st_all st ++ map fst pl /\ st_recv st' = st_recv st ++ [map recv_of pl] /\
    st_callable st' = st_callable st /\
    st_controls st' = st_controls st ++ gslots Rir cns ++ gslots Rtr cns ++ gslots Rar cns ++ gslots Rkr cns /\
    st_cindex st' = length (st_controls st') /\
    (exists ext, st_units st' = st_units st ++ ext) /\
    length pl = length cns /\
    forall i c0, nth_error cns i = Some c0 ->
      exists p, nth_error pl i = Some (set_index c0 (slot_of (length (st_controls st)) cns i c0), p) /\
        exists cls glags, cls_ok (cn_rate c0) (klags (of_rate Rkr cns)) cls glags /\
          chan_ok cls glags (st_units st') (slot_of (length (st_controls st)) cns i c0)
                  (length (gslots (cn_rate c0) (firstn i cns))) (dlen c0) p.
Proof.
  unfold build_one. intros H Hi.
  destruct (args_to_controls specs st f) as [cns|e] eqn:A; [|discriminate].
  destruct (build_controls fixed st cns) as [[st1 pl]|e] eqn:B; [|discriminate].
  destruct (length (f_params f) <? f_prepend f) eqn:PP; [discriminate|].
  apply Nat.ltb_ge in PP. injection H as <-.
  apply args_to_controls_ok in A.
  destruct (build_controls_spec _ _ _ _ B Hi) as (C & I & Al & Ca & Re & U & L & N).
  exists cns, pl. cbn [st_all st_recv st_callable st_controls st_cindex st_units fix_call fixed].
  rewrite Al, Re. repeat split; try assumption.
Qed.

(* array segment *)
Lemma seg_at {A} (l a x b : list A) n : l = a ++ x ++ b -> n = length a -> firstn (length x) (skipn n l) = x.
Proof. intros -> ->. apply seg_app. Qed.

Lemma gslots_split r (cns : list cname) i c : nth_error cns i = Some c -> cn_rate c = r ->
  gslots r cns = gslots r (firstn i cns) ++ cn_default c ++ gslots r (skipn (S i) cns).
Proof.
  intros H E. rewrite (split_nth _ _ _ H) at 1. rewrite gslots_app, (gslots_cons_same r c) by assumption. reflexivity.
Qed.

Lemma defaults_segment (base : list Q) cns i c :
  nth_error cns i = Some c ->
  firstn (dlen c) (skipn (slot_of (length base) cns i c)
    (base ++ gslots Rir cns ++ gslots Rtr cns ++ gslots Rar cns ++ gslots Rkr cns)) = cn_default c.
Proof.
  intro H. unfold dlen, slot_of.
  destruct (cn_rate c) eqn:RT; rewrite (gslots_split _ cns i c H RT); cbn [before].
  - eapply (seg_at _ (base ++ gslots Rir (firstn i cns))); [rewrite <- !app_assoc; reflexivity|].
    rewrite app_length. lia.
  - eapply (seg_at _ (base ++ gslots Rir cns ++ gslots Rtr (firstn i cns))); [rewrite <- !app_assoc; reflexivity|].
    rewrite !app_length. lia.
  - eapply (seg_at _ (base ++ gslots Rir cns ++ gslots Rtr cns ++ gslots Rar (firstn i cns))); [rewrite <- !app_assoc; reflexivity|].
    rewrite !app_length. lia.
  - eapply (seg_at _ (base ++ gslots Rir cns ++ gslots Rtr cns ++ gslots Rar cns ++ gslots Rkr (firstn i cns))); [rewrite <- !app_assoc; reflexivity|].
    rewrite !app_length. lia.
Qed.

(* ------------------------------------------------------------------ wrapped functions: the fold *)
Lemma build_one_err specs fs e : fold_left (build_one fixed specs) fs (Err e) = Err e.
Proof. induction fs; simpl; [reflexivity|assumption]. Qed.

Lemma build_fold_inv specs : forall fs st st',
  fold_left (build_one fixed specs) fs (Ok st) = Ok st' -> st_cindex st = length (st_controls st) ->
  st_cindex st' = length (st_controls st') /\ st_callable st' = st_callable st /\
  (exists more, st_all st' = st_all st ++ more) /\ (exists more, st_controls st' = st_controls st ++ more) /\
  (exists more, st_units st' = st_units st ++ more).
Proof.
  induction fs as [|f fs IH]; intros st st' H Hi.
  - simpl in H. injection H as <-. repeat split; try assumption; exists []; rewrite app_nil_r; reflexivity.
  - cbn [fold_left] in H. destruct (build_one fixed specs (Ok st) f) as [st1|e] eqn:B.
    + destruct (build_one_spec _ _ _ _ B Hi) as (cns & pl & _ & _ & A1 & _ & C1 & K1 & I1 & (x & U1) & _).
      destruct (IH _ _ H I1) as (I2 & C2 & (m1 & A2) & (m2 & K2) & (m3 & U2)).
      repeat split; [assumption|congruence| | | ].
      * eexists. rewrite A2, A1, <- app_assoc. reflexivity.
      * eexists. rewrite K2, K1, <- app_assoc. reflexivity.
      * eexists. rewrite U2, U1, <- app_assoc. reflexivity.
    + rewrite build_one_err in H. discriminate.
Qed.

(* ------------------------------------------------------------------ __call__ *)
Lemma combine_nth_error {A B} : forall (l1 : list A) (l2 : list B) r i a b,
  nth_error l1 i = Some a -> nth_error l2 i = Some b -> nth_error (combine l1 l2 ++ r) i = Some (a, b).
Proof.
  induction l1 as [|x l1 IH]; intros l2 r i a b H1 H2; [destruct i; discriminate|].
  destruct l2 as [|y l2]; [destruct i; discriminate|].
  destruct i as [|i]; simpl in *; [congruence|apply IH; assumption].
Qed.

(* ------------------------------------------------------------------ variants *)
Lemma set_range_length arr i vals : i + length vals <= length arr -> length (set_range arr i vals) = length arr.
Proof. intro H. unfold set_range. rewrite !app_length, firstn_length, skipn_length. lia. Qed.
Lemma set_range_inside arr i vals : i + length vals <= length arr ->
  firstn (length vals) (skipn i (set_range arr i vals)) = vals.
Proof.
  intro H. unfold set_range. eapply seg_at; [reflexivity|]. rewrite firstn_length. lia.
Qed.
Lemma set_range_outside arr i vals k d : i + length vals <= length arr -> (k < i \/ i + length vals <= k) ->
  nth k (set_range arr i vals) d = nth k arr d.
Proof.
  intros H [Hk|Hk]; unfold set_range.
  - rewrite app_nth1 by (rewrite firstn_length; lia).
    rewrite <- (firstn_skipn i arr) at 2. rewrite app_nth1 by (rewrite firstn_length; lia). reflexivity.
  - rewrite app_assoc. rewrite app_nth2 by (rewrite app_length, firstn_length; lia).
    rewrite app_length, firstn_length, Nat.min_l by lia.
    rewrite <- (firstn_skipn (i + length vals) arr) at 2.
    rewrite app_nth2 by (rewrite firstn_length; lia).
    rewrite firstn_length, Nat.min_l by lia. reflexivity.
Qed.

Lemma variants_loop_count dn st : forall vs ws, variants_loop dn st vs = (ws, true) -> length ws = length vs.
Proof.
  induction vs as [|v vs IH]; intros ws H; simpl in H.
  - injection H as <-. reflexivity.
  - destruct (variant_one dn st v); [|discriminate].
    destruct (variants_loop dn st vs) as [ws' ok] eqn:L. injection H as <- ->.
    simpl. rewrite (IH ws' eq_refl). reflexivity.
Qed.

Lemma variants_loop_prefix dn st : forall vs ws ok, variants_loop dn st vs = (ws, ok) ->
  Forall2 (fun v w => variant_one dn st v = Some w) (firstn (length ws) vs) ws /\
  (ok = true -> length ws = length vs) /\
  (ok = false -> exists v, nth_error vs (length ws) = Some v /\ variant_one dn st v = None).
Proof.
  induction vs as [|v vs IH]; intros ws ok H; simpl in H.
  - injection H as <- <-. repeat split; [constructor|discriminate].
  - destruct (variant_one dn st v) eqn:V.
    + destruct (variants_loop dn st vs) as [ws' ok'] eqn:L. injection H as <- <-.
      destruct (IH ws' ok' eq_refl) as (F & T & N). cbn [length firstn]. repeat split.
      * constructor; assumption.
      * intro E. rewrite (T E). reflexivity.
      * intro E. destruct (N E) as (v' & Hn & Hv). exists v'. split; assumption.
    + injection H as <- <-. repeat split; [constructor|discriminate|].
      intros _. exists v. split; [reflexivity|assumption].
Qed.

Lemma variants_count_fixed dn st vs :
  let r := variants_layout fixed dn st vs in
  v_count r = length (v_written r) /\ v_raised r = false /\
  exists ok, variants_loop dn st vs = (v_written r, ok).
Proof.
  unfold variants_layout. destruct (variants_loop dn st vs) as [ws ok] eqn:L.
  destruct ok; cbn [fix_variants fixed v_count v_written v_raised].
  - pose proof (variants_loop_count _ _ _ _ L). repeat split; try congruence. exists true. reflexivity.
  - repeat split. exists false. reflexivity.
Qed.

Lemma variants_loop_each dn st : forall vs ws, variants_loop dn st vs = (ws, true) ->
  Forall2 (fun v w => variant_one dn st v = Some w) vs ws.
Proof.
  induction vs as [|v vs IH]; intros ws H; simpl in H.
  - injection H as <-. constructor.
  - destruct (variant_one dn st v) eqn:V; [|discriminate].
    destruct (variants_loop dn st vs) as [ws' ok] eqn:L. injection H as <- ->.
    constructor; [assumption|apply IH; reflexivity].
Qed.

Lemma nth_error_ext' {A} : forall l1 l2 : list A, (forall i, nth_error l1 i = nth_error l2 i) -> l1 = l2.
Proof.
  induction l1 as [|a l1 IH]; intros [|b l2] H; try reflexivity.
  - specialize (H 0). discriminate. - specialize (H 0). discriminate.
  - pose proof (H 0) as H0. injection H0 as ->. f_equal. apply IH. intro i. exact (H (S i)).
Qed.

(* ------------------------------------------------------------------ metadata specs as objects *)
Lemma lookup_specs_of l n :
  lookup_spec (specs_of l) n =
  match find (fun kv => String.eqb (fst kv) n) l with
  | Some kv => Some (cspec_default (snd kv)) | None => None end.
Proof.
  unfold lookup_spec, specs_of. induction l as [|[k s] l IH]; [reflexivity|].
  cbn [map find fst snd]. destruct (String.eqb k n); [reflexivity|exact IH].
Qed.

Lemma spec_object_default l rs prov i p kv :
  (p_default p = DNone \/ p_default p = DInvalid) ->
  find (fun kv => String.eqb (fst kv) (p_name p)) l = Some kv ->
  cn_default (entry_of (specs_of l) rs prov i p) =
    [match cs_default (snd kv) with Some d => d | None => cs_min (snd kv) end] /\
  cn_scalar (entry_of (specs_of l) rs prov i p) = true.
Proof.
  intros Hd Hf. unfold entry_of, arg_value. cbn [cn_default cn_scalar].
  rewrite lookup_specs_of, Hf. destruct Hd as [-> | ->]; split; reflexivity.
Qed.
