(* C04 -- the lag inputs of LagControl units: alignment of the flattened lag list with the
   value slots (utils.wrap_extend as modelled in model/Controls.v) *)
From Coq Require Import String List QArith Bool Arith PeanoNat Lia.
Import ListNotations.
Require Import SC3.model.Controls SC3.proofs.C04_layout SC3.proofs.C04_main.
Open Scope nat_scope.

(* ------------------------------------------------------------------ wrap_extend *)
Lemma concat_repeat_length {A} (l : list A) k : length (concat (repeat l k)) = k * length l.
Proof. induction k as [|k IH]; simpl; [reflexivity|]. rewrite app_length, IH. reflexivity. Qed.

Lemma concat_repeat_nth {A} (l : list A) d : forall k i, l <> [] -> i < k * length l ->
  nth i (concat (repeat l k)) d = nth (i mod length l) l d.
Proof.
  induction k as [|k IH]; intros i Hne Hi; [simpl in Hi; lia|].
  assert (Hlen : length l <> 0) by (destruct l; simpl; [congruence|lia]).
  cbn [repeat concat]. destruct (Nat.lt_ge_cases i (length l)) as [Hlt|Hge].
  - rewrite app_nth1 by exact Hlt. rewrite Nat.mod_small by exact Hlt. reflexivity.
  - rewrite app_nth2 by exact Hge. rewrite IH; [|exact Hne|simpl in Hi; lia].
    f_equal. replace i with ((i - length l) + 1 * length l) at 2 by lia.
    rewrite Nat.mod_add by exact Hlen. reflexivity.
Qed.

Lemma wrap_extend_length' {A} (l : list A) n : l <> [] -> length (wrap_extend l n) = n.
Proof.
  intro Hne. unfold wrap_extend. destruct l as [|x l']; [congruence|].
  remember (x :: l') as l eqn:El.
  assert (Hlen : length l <> 0) by (subst; simpl; lia).
  rewrite app_length, concat_repeat_length, firstn_length.
  pose proof (Nat.div_mod n (length l) Hlen) as Hdm.
  pose proof (Nat.mod_upper_bound n (length l) Hlen) as Hub.
  rewrite Nat.min_l by lia. lia.
Qed.

Lemma nth_firstn_lt' {A} : forall (l : list A) k i d, i < k -> nth i (firstn k l) d = nth i l d.
Proof.
  induction l as [|x l IH]; intros k i d Hi.
  - rewrite firstn_nil. reflexivity.
  - destruct k; [lia|]. simpl. destruct i; [reflexivity|]. apply IH; lia.
Qed.

Lemma wrap_extend_nth' {A} (l : list A) n i d : l <> [] -> i < n ->
  nth i (wrap_extend l n) d = nth (i mod length l) l d.
Proof.
  intros Hne Hi. unfold wrap_extend. destruct l as [|x l']; [congruence|].
  remember (x :: l') as l eqn:El.
  assert (Hlen : length l <> 0) by (subst; simpl; lia).
  pose proof (Nat.div_mod n (length l) Hlen) as Hdm.
  pose proof (Nat.mod_upper_bound n (length l) Hlen) as Hub.
  destruct (Nat.lt_ge_cases i ((n / length l) * length l)) as [Hlt|Hge].
  - rewrite app_nth1 by (rewrite concat_repeat_length; exact Hlt).
    apply concat_repeat_nth; [subst; discriminate|assumption].
  - rewrite app_nth2 by (rewrite concat_repeat_length; exact Hge).
    rewrite concat_repeat_length.
    assert (Hsmall : i - n / length l * length l < n mod length l) by lia.
    rewrite nth_firstn_lt' by exact Hsmall.
    f_equal.
    replace i with ((i - n / length l * length l) + (n / length l) * length l) at 2 by lia.
    rewrite Nat.mod_add by exact Hlen. rewrite Nat.mod_small by lia. reflexivity.
Qed.

(* ------------------------------------------------------------------ every entry has a usable lag *)
Definition lag_wf (c : cname) : Prop := lag_as_list (cn_lag c) <> [].

Lemma lag_or_zero_wf r : lag_as_list (lag_or_zero r) <> [].
Proof. destruct r as [| |q|[|x l]]; simpl; try discriminate. destruct (qnz q); discriminate. Qed.

Lemma classify_lag_wf a r : lag_as_list (snd (classify a r)) <> [].
Proof.
  unfold classify.
  destruct r as [|[]|q|l]; try (simpl; discriminate);
    destruct a as [[[]|]|]; try (simpl; discriminate); apply lag_or_zero_wf.
Qed.

Lemma entry_of_lag_wf specs rs prov i p : lag_wf (entry_of specs rs prov i p).
Proof. unfold lag_wf, entry_of. cbn [cn_lag]. apply classify_lag_wf. Qed.

Lemma mk_cnames_lag_wf specs rs prov : forall ps i0, Forall lag_wf (mk_cnames specs rs prov i0 ps).
Proof.
  induction ps as [|p ps IH]; intros i0; [constructor|]. cbn [mk_cnames].
  destruct (arg_value specs p) as [vals sc] eqn:AV.
  destruct (classify (p_annot p) (rate_at rs i0)) as [r lg] eqn:CL.
  constructor; [|apply IH].
  unfold lag_wf. cbn [cn_lag]. pose proof (classify_lag_wf (p_annot p) (rate_at rs i0)) as H.
  rewrite CL in H. exact H.
Qed.

(* ------------------------------------------------------------------ klags is aligned with the values *)
Lemma Forall_of_rate {P : cname -> Prop} r l : Forall P l -> Forall P (of_rate r l).
Proof.
  intro H. unfold of_rate. apply Forall_forall. intros x Hx. apply filter_In in Hx.
  rewrite Forall_forall in H. apply H. tauto.
Qed.

Lemma klags_length g : Forall lag_wf g -> length (klags g) = length (group_vals g).
Proof.
  induction 1 as [|c g Hc _ IH]; [reflexivity|].
  unfold klags, group_vals in *. cbn [flat_map]. rewrite !app_length, IH.
  rewrite wrap_extend_length' by exact Hc. reflexivity.
Qed.

Lemma klags_app g1 g2 : klags (g1 ++ g2) = klags g1 ++ klags g2.
Proof. unfold klags. apply flat_map_app'. Qed.

(* the lag written next to slot (slots of the earlier kr parameters + j) is the parameter's own
   lag list read cyclically *)
Lemma klags_at cns i c j :
  Forall lag_wf cns -> nth_error cns i = Some c -> cn_rate c = Rkr -> j < dlen c ->
  nth_error (klags (of_rate Rkr cns)) (length (gslots Rkr (firstn i cns)) + j)
  = Some (nth (j mod length (lag_as_list (cn_lag c))) (lag_as_list (cn_lag c)) 0%Q).
Proof.
  intros Hwf Hn RT Hj.
  assert (Hc : lag_wf c).
  { rewrite Forall_forall in Hwf. apply Hwf. eapply nth_error_In. eassumption. }
  rewrite (split_nth _ _ _ Hn) at 1.
  rewrite of_rate_app, klags_app.
  assert (Hpre : length (klags (of_rate Rkr (firstn i cns))) = length (gslots Rkr (firstn i cns))).
  { unfold gslots. apply klags_length, Forall_of_rate.
    rewrite <- (firstn_skipn i cns) in Hwf. apply Forall_app in Hwf. tauto. }
  rewrite nth_error_app2 by lia. rewrite Hpre.
  replace (length (gslots Rkr (firstn i cns)) + j - length (gslots Rkr (firstn i cns))) with j by lia.
  unfold of_rate at 1. cbn [filter]. rewrite RT. cbn [rate_eqb].
  unfold klags. cbn [flat_map].
  rewrite nth_error_app1 by (rewrite wrap_extend_length' by exact Hc; exact Hj).
  rewrite (nth_error_nth' _ 0%Q) by (rewrite wrap_extend_length' by exact Hc; exact Hj).
  rewrite wrap_extend_nth' by assumption. reflexivity.
Qed.

(* if no lag of the group is non-zero, the parameter's own lags are zero *)
Lemma klags_all_zero cns i c j :
  Forall lag_wf cns -> nth_error cns i = Some c -> cn_rate c = Rkr -> j < dlen c ->
  existsb qnz (klags (of_rate Rkr cns)) = false ->
  qnz (nth (j mod length (lag_as_list (cn_lag c))) (lag_as_list (cn_lag c)) 0%Q) = false.
Proof.
  intros Hwf Hn RT Hj Hz.
  pose proof (klags_at cns i c j Hwf Hn RT Hj) as H.
  apply nth_error_In in H.
  destruct (qnz _) eqn:E; [|reflexivity].
  assert (existsb qnz (klags (of_rate Rkr cns)) = true) by (apply existsb_exists; eexists; split; eassumption).
  congruence.
Qed.

(* ------------------------------------------------------------------ statements used by props/C04.v *)
(* the control parameters of f, as entries with a provisional index *)
Definition entries (specs : list (string * Q)) (st : bstate) (f : fsig) : list cname :=
  mk_cnames specs (f_rates f) (length (st_controls st)) 0 (skipn (f_prepend f) (f_params f)).


(* the flattened form (was props/C04.v ctl_lags_partial) *)
Lemma ctl_lags_flat : forall specs st f st' i c,
  build_one fixed specs (Ok st) f = Ok st' -> st_cindex st = length (st_controls st) ->
  nth_error (entries specs st f) i = Some c -> cn_rate c = Rkr ->
  let kl := klags (of_rate Rkr (entries specs st f)) in
  exists rs r, st_recv st' = st_recv st ++ [rs] /\ nth_error rs i = Some r /\
    forall j, j < length (cn_default c) ->
      exists un, nth_error (st_units st') (fst (nth j (r_chans r) (0, 0))) = Some un /\
        ((existsb qnz kl = true /\ u_cls un = ULag /\
          nth_error (u_lags un) (snd (nth j (r_chans r) (0, 0))) =
          nth_error kl (length (gslots Rkr (firstn i (entries specs st f))) + j))
         \/ (existsb qnz kl = false /\ u_cls un = UControl)).
Proof.
  intros specs st f st' i c H Hi Hn RT kl.
  destruct (build_one_spec _ _ _ _ H Hi) as (cns' & pl & -> & _ & _ & R & _ & _ & _ & _ & L & N).
  destruct (N i c Hn) as (p & Hp & cls & gl & K & [Hlen Hch]).
  exists (map recv_of pl), (recv_of (set_index c (slot_of (length (st_controls st)) (entries specs st f) i c), p)).
  split; [exact R|]. split; [rewrite nth_error_map; unfold entries, placed in *; rewrite Hp; reflexivity|].
  cbn [recv_of r_chans snd].
  intros j Hj. destruct (Hch j Hj) as (un & H1 & _ & _ & H4 & H5).
  exists un. split; [assumption|]. rewrite RT in K, H5. cbn [cls_ok] in K.
  destruct K as [(Hnz & -> & ->)|(Hnz & ->)]; [left|right]; repeat split; try assumption.
  apply H5. reflexivity.
Qed.


(* the group is lagged iff some kr parameter has a non-zero lag on one of its slots *)
Lemma In_klags g x : In x (klags g) ->
  exists c, In c g /\ In x (wrap_extend (lag_as_list (cn_lag c)) (dlen c)).
Proof. unfold klags. intro H. apply in_flat_map in H. exact H. Qed.

Lemma lagged_iff cns : Forall lag_wf cns ->
  (existsb qnz (klags (of_rate Rkr cns)) = true <->
   exists i c j, nth_error cns i = Some c /\ cn_rate c = Rkr /\ j < length (cn_default c) /\
     qnz (nth (j mod length (lag_as_list (cn_lag c))) (lag_as_list (cn_lag c)) 0%Q) = true).
Proof.
  intro Hwf. split.
  - intro H. apply existsb_exists in H. destruct H as (x & Hin & Hx).
    apply In_klags in Hin. destruct Hin as (c & Hc & Hxin).
    unfold of_rate in Hc. apply filter_In in Hc. destruct Hc as (Hc & Hr). apply rate_eqb_eq in Hr.
    assert (Hl : lag_wf c) by (rewrite Forall_forall in Hwf; apply Hwf; assumption).
    apply In_nth_error in Hc. destruct Hc as (i & Hi).
    apply (In_nth _ _ 0%Q) in Hxin. destruct Hxin as (j & Hj & Hnth).
    rewrite wrap_extend_length' in Hj by exact Hl.
    rewrite wrap_extend_nth' in Hnth by assumption.
    exists i, c, j. repeat split; try assumption. rewrite Hnth. exact Hx.
  - intros (i & c & j & Hn & Hr & Hj & Hq).
    apply existsb_exists. eexists. split; [|exact Hq].
    eapply nth_error_In. apply (klags_at cns i c j); assumption.
Qed.

Lemma ctl_lags_full : forall specs st f st' i c,
  build_one fixed specs (Ok st) f = Ok st' -> st_cindex st = length (st_controls st) ->
  nth_error (entries specs st f) i = Some c -> cn_rate c = Rkr ->
  let cns := entries specs st f in
  let l := lag_as_list (cn_lag c) in
  let lagged := existsb qnz (klags (of_rate Rkr cns)) in
  l <> [] /\
  (lagged = true <->
     exists i' c' j', nth_error cns i' = Some c' /\ cn_rate c' = Rkr /\ j' < length (cn_default c') /\
       qnz (nth (j' mod length (lag_as_list (cn_lag c'))) (lag_as_list (cn_lag c')) 0%Q) = true) /\
  exists rs r, st_recv st' = st_recv st ++ [rs] /\ nth_error rs i = Some r /\
    forall j, j < length (cn_default c) ->
      exists un, nth_error (st_units st') (fst (nth j (r_chans r) (0, 0))) = Some un /\
        if lagged
        then u_cls un = ULag /\
             nth_error (u_lags un) (snd (nth j (r_chans r) (0, 0))) = Some (nth (j mod length l) l 0%Q)
        else u_cls un = UControl /\ qnz (nth (j mod length l) l 0%Q) = false.
Proof.
  intros specs st f st' i c H Hi Hn RT cns l lagged.
  assert (Hwf : Forall lag_wf cns) by apply mk_cnames_lag_wf.
  split.
  { rewrite Forall_forall in Hwf. apply (Hwf c). eapply nth_error_In. eassumption. }
  split; [apply lagged_iff; exact Hwf|].
  destruct (ctl_lags_flat specs st f st' i c H Hi Hn RT) as (rs & r & R & Nr & K).
  exists rs, r. split; [assumption|]. split; [assumption|].
  intros j Hj. destruct (K j Hj) as (un & Hu & [(Hnz & Hc & Hl)|(Hz & Hc)]); exists un; (split; [assumption|]).
  - unfold lagged, cns. rewrite Hnz. split; [assumption|]. rewrite Hl. apply klags_at; assumption.
  - unfold lagged, cns. rewrite Hz. split; [assumption|]. eapply klags_all_zero; eassumption.
Qed.
