(* C17 -- every message emitted by any sequence of well-formed ops conforms and mentions only
   ledger ids: the per-op lemmas (C17_ops*.v) lifted through the routing of server.addr
   (bind collectors) to steps and runs. *)
From Coq Require Import ZArith QArith List String Bool Lia.
Import ListNotations.
Require Import SC3.model.ProtoGrammar SC3.model.Proto SC3.gen.Gen_proto.
Require Import SC3.proofs.C17_gram SC3.proofs.C17_args SC3.proofs.C17_bind SC3.proofs.C17_life SC3.proofs.C17_conform.
Require Import SC3.proofs.C17_optac SC3.proofs.C17_ops1 SC3.proofs.C17_ops2 SC3.proofs.C17_ops3.
Open Scope string_scope. Open Scope Z_scope. Open Scope list_scope.

Lemma obj_good : forall n L s o s1 sends e,
  InvO L s -> wf_op n s o = true -> obj_step repaired s o = (s1, sends, e) ->
  InvO (op_ids s o ++ L) s1 /\ Forall (Good (op_ids s o ++ L)) (flat_map send_msgs sends).
Proof.
  intros n L s o s1 sends e I Hw H.
  destruct o; [> eapply og_OSynth; eassumption | eapply og_OGroup; eassumption | eapply og_OBasicNew; eassumption | eapply og_ONodeSet; eassumption | eapply og_ONodeSetn; eassumption | eapply og_ONodeMap; eassumption | eapply og_ONodeMapn; eassumption | eapply og_ONodeFill; eassumption | eapply og_ONodeRelease; eassumption | eapply og_ONodeRun; eassumption | eapply og_ONodeFree; eassumption | eapply og_ONodeTrace; eassumption | eapply og_ONodeQuery; eassumption | eapply og_ONodeMoveBefore; eassumption | eapply og_ONodeMoveAfter; eassumption | eapply og_ONodeMoveToHead; eassumption | eapply og_ONodeMoveToTail; eassumption | eapply og_OGroupFreeAll; eassumption | eapply og_OGroupDeepFree; eassumption | eapply og_OGroupDumpTree; eassumption | eapply og_OReorder; eassumption | eapply og_OFreeDefaultGroup; eassumption | eapply og_OSendDefaultGroups; eassumption | eapply og_ODumpOsc; eassumption | eapply og_ODefSend; eassumption | eapply og_ODefLoad; eassumption | eapply og_OPlay; eassumption | eapply og_OBufNew; eassumption | eapply og_OBufConsecutive; eassumption | eapply og_OBufNewRead; eassumption | eapply og_OBufNewCue; eassumption | eapply og_OBufAlloc; eassumption | eapply og_OBufAllocRead; eassumption | eapply og_OBufRead; eassumption | eapply og_OBufCue; eassumption | eapply og_OBufWrite; eassumption | eapply og_OBufSimple; eassumption | eapply og_OBufFree; eassumption | eapply og_OBufFreeAll; eassumption | eapply og_OBufFill; eassumption | eapply og_OBufSet; eassumption | eapply og_OBufSetn; eassumption | eapply og_OBufQuery; eassumption | eapply og_OBufGet; eassumption | eapply og_OBufGetn; eassumption | eapply og_OBufGen; eassumption | eapply og_OBufNormalize; eassumption | eapply og_OBufCopyData; eassumption | eapply og_OBufSendList; eassumption | eapply og_OBufNewSendList; eassumption | eapply og_OBufGetToList; eassumption | eapply og_OBusNew; eassumption | eapply og_OBusFree; eassumption | eapply og_OBusSub; eassumption | eapply og_OBusSet; eassumption | eapply og_OBusSetn; eassumption | eapply og_OBusSetPairs; eassumption | eapply og_OBusFill; eassumption | eapply og_OBusClear; eassumption | eapply og_OBusGet; eassumption | eapply og_OBusGetn; eassumption | eapply og_ORaw; eassumption | eapply og_OBindEnter; eassumption | eapply og_OBindExit; eassumption | eapply og_OBindRaise; eassumption | eapply og_OSync; eassumption ].
Qed.

(* what reaches the OSC interface *)
Definition EvGood (L : ledger) (ev : wev) : Prop := Forall (GoodW L) (wev_msgs ev).

Lemma good_wire_msgs : forall L ms, Forall (Good L) ms ->
  exists ws, wire_msgs ms = Some ws /\ Forall (GoodW L) ws.
Proof.
  intros L ms H. induction H as [|m t [w [W G]] Ht [ws [E F]]].
  - exists []. split; [reflexivity | constructor].
  - exists (w :: ws). cbn [wire_msgs]. rewrite W, E. split; [reflexivity | constructor; assumption].
Qed.

Lemma route_good : forall L sends stk,
  Forall (Forall (Good L)) stk -> Forall (Good L) (flat_map send_msgs sends) ->
  Forall (Forall (Good L)) (fst (fst (route stk sends))) /\ Forall (EvGood L) (snd (fst (route stk sends))).
Proof.
  intros L sends. induction sends as [|x t IH]; intros stk Hs Hg.
  - simpl. split; [exact Hs | constructor].
  - cbn [flat_map] in Hg. apply Forall_app in Hg. destruct Hg as [Hx Ht].
    destruct stk as [|top rest].
    + destruct x as [m|tm ms]; cbn [route].
      * cbn [send_msgs] in Hx. inversion Hx as [|m' l' [w [W G]] Hn]; subst. rewrite W.
        specialize (IH [] Hs Ht). destruct (route [] t) as [[stk' evs] e]. cbn [fst snd] in *.
        destruct IH as [I1 I2]. split; [exact I1|]. constructor; [|exact I2]. constructor; [exact G | constructor].
      * cbn [send_msgs] in Hx. destruct (good_wire_msgs L ms Hx) as [ws [E F]]. rewrite E.
        specialize (IH [] Hs Ht). destruct (route [] t) as [[stk' evs] e]. cbn [fst snd] in *.
        destruct IH as [I1 I2]. split; [exact I1|]. constructor; [exact F | exact I2].
    + cbn [route]. apply IH; [|exact Ht]. inversion Hs; subst. constructor; [|assumption].
      apply Forall_app. split; assumption.
Qed.

Lemma Forall2_mono : forall L L' (stk : list (list pmsg)), incl L L' ->
  Forall (Forall (Good L)) stk -> Forall (Forall (Good L')) stk.
Proof.
  intros L L' stk H Hs. eapply Forall_impl; [|exact Hs]. intros l Hl.
  eapply Forall_impl; [|exact Hl]. intros m Hm. eapply good_mono; eauto.
Qed.

Lemma Forall_drop_n : forall {A} (P : A -> Prop) k l, Forall P l -> Forall P (drop_n k l).
Proof.
  intros A P k. induction k as [|k IH]; intros l H; simpl; [exact H|].
  destruct l; [constructor|]. inversion H; subst. apply IH. assumption.
Qed.

Lemma invO_set_stack : forall L s k, InvO L s -> InvO L (set_stack s k).
Proof. intros L s k [A B C D E F]. constructor; auto. Qed.

Lemma op_ids_bind : forall s o, nonbind o = false -> op_ids s o = [].
Proof. intros s o H. destruct o; try discriminate H; reflexivity. Qed.

Lemma flush_good : forall L top, Forall (Good L) top -> Forall (Good L) (flat_map send_msgs (flush top)).
Proof. intros L top H. unfold flush. destruct top; [constructor|]. cbn [flat_map send_msgs]. rewrite app_nil_r. exact H. Qed.

Lemma sync_event_good : forall L id, EvGood L (WBundle PNone [("/sync", [AInt id])]).
Proof.
  intros L id. unfold EvGood. cbn [wev_msgs]. constructor; [|constructor]. split; [reflexivity|].
  intros k i H. vm_compute in H. contradiction H.
Qed.

(* server.sync(): every piece that goes out is good, what stays collected stays good *)
Lemma sync_fuel_good : forall L f stk id,
  Forall (Forall (Good L)) stk ->
  Forall (Forall (Good L)) (fst (fst (sync_fuel f stk id))) /\ Forall (EvGood L) (snd (fst (sync_fuel f stk id))).
Proof.
  intros L f. induction f as [|f IH]; intros stk id H; destruct stk as [|top rest]; cbn [sync_fuel fst snd].
  - split; [constructor | constructor; [apply sync_event_good | constructor]].
  - split; [exact H | constructor].
  - split; [constructor | constructor; [apply sync_event_good | constructor]].
  - inversion H as [|? ? K1 K2]; subst.
    destruct (route_good L (flush top) rest K2 (flush_good L top K1)) as [R1 R2].
    destruct (route rest (flush top)) as [[rest1 ev1] e1]. cbn [fst snd] in R1, R2.
    destruct e1.
    + cbn [fst snd]. split; [constructor; assumption | exact R2].
    + destruct (IH rest1 id R1) as [S1 S2].
      destruct (sync_fuel f rest1 id) as [[rest2 ev2] e2]. cbn [fst snd] in *.
      split; [|apply Forall_app; split; assumption].
      constructor; [destruct e2; [exact K1 | constructor] | exact S1].
Qed.

(* one step: the invariant is kept for the grown ledger, what reaches the wire is good *)
Lemma step_good : forall n L s o,
  Inv L s -> wf_op n s o = true ->
  Inv (op_ids s o ++ L) (fst (fst (step repaired s o))) /\
  Forall (EvGood (op_ids s o ++ L)) (snd (fst (step repaired s o))).
Proof.
  intros n L s o [I Hk] Hw.
  destruct (nonbind o) eqn:Hn.
  - destruct (obj_step repaired s o) as [[s1 sends] e] eqn:E.
    destruct (obj_good n L s o s1 sends e I Hw E) as [I1 Hg].
    pose proof (obj_step_stack _ _ _ _ _ _ E) as Hst.
    assert (Hstep : step repaired s o =
                    (let '(stk, evs, e2) := route (stack s1) sends in
                     (set_stack s1 stk, evs, match e with Some _ => e | None => e2 end))).
    { destruct o; try discriminate Hn; unfold step; rewrite E; reflexivity. }
    rewrite Hstep, Hst.
    assert (Hk' : Forall (Forall (Good (op_ids s o ++ L))) (stack s))
      by (eapply Forall2_mono; [|exact Hk]; apply incl_appr, incl_refl).
    destruct (route_good _ sends (stack s) Hk' Hg) as [R1 R2].
    destruct (route (stack s) sends) as [[stk evs] e2]. cbn [fst snd] in *.
    split; [|exact R2]. split; [apply invO_set_stack; exact I1 | exact R1].
  - rewrite (op_ids_bind s o Hn). cbn [app].
    destruct o; try discriminate Hn; unfold step.
    + cbn [fst snd]. split; [|constructor]. split; [apply invO_set_stack; exact I|]. cbn [stack set_stack]. constructor; [constructor | exact Hk].
    + destruct (stack s) as [|top rest] eqn:S.
      * cbn [fst snd]. split; [|constructor]. split; [exact I | rewrite S; constructor].
      * inversion Hk as [|? ? K1 K2]; subst.
        assert (Hg : Forall (Good L) (flat_map send_msgs (flush top))).
        { unfold flush. destruct top; [constructor|]. cbn [flat_map send_msgs]. rewrite app_nil_r. exact K1. }
        destruct (route_good L (flush top) rest K2 Hg) as [R1 R2].
        destruct (route rest (flush top)) as [[stk evs] e2]. cbn [fst snd] in *.
        split; [|exact R2]. split; [apply invO_set_stack; exact I | exact R1].
    + cbn [fst snd]. split; [|constructor]. split; [apply invO_set_stack; exact I|]. cbn [stack set_stack].
      apply Forall_drop_n. exact Hk.
    + destruct (sync_fuel_good L (List.length (stack s)) (stack s) id Hk) as [S1 S2]. unfold sync_stack.
      destruct (sync_fuel (List.length (stack s)) (stack s) id) as [[stk evs] e]. cbn [fst snd] in *.
      split; [|exact S2]. split; [apply invO_set_stack; exact I | exact S1].
Qed.

(* well-formedness of a whole history: each op in the state in which it runs *)
Fixpoint wf_ops (n : nat) (s : st) (ops : list op) : bool :=
  match ops with
  | [] => true
  | o :: t => wf_op n s o && wf_ops n (state_after repaired s o) t
  end.

(* every event of the run is good with respect to the ledger at the time it is emitted *)
Fixpoint RunGood (L : ledger) (s : st) (ops : list op) : Prop :=
  match ops with
  | [] => True
  | o :: t => Forall (EvGood (op_ids s o ++ L)) (snd (fst (step repaired s o))) /\
              RunGood (op_ids s o ++ L) (state_after repaired s o) t
  end.

Lemma run_good : forall n ops L s, Inv L s -> wf_ops n s ops = true -> RunGood L s ops.
Proof.
  intros n ops. induction ops as [|o t IH]; intros L s I Hw; [exact Logic.I|].
  cbn [wf_ops] in Hw. apply andb_true_iff in Hw. destruct Hw as [Ho Ht].
  destruct (step_good n L s o I Ho) as [I1 E1]. cbn [RunGood]. split; [exact E1|].
  apply IH; [exact I1 | exact Ht].
Qed.

(* the ledger after login: the default groups of all logins *)
Definition ledger0 (dg : Z) (dgs : list Z) : ledger := (KNode, dg) :: map (fun g => (KNode, g)) dgs.

Lemma inv_init : forall dg dgs, Inv (ledger0 dg dgs) (st_init dg dgs).
Proof.
  intros dg dgs. split; [|constructor]. constructor; try reflexivity.
  - intros n x z G. destruct n; discriminate G.
  - intros b x a G. destruct b; discriminate G.
  - intros u x a G. destruct u; discriminate G.
  - intros blk i [].
  - split.
    + right. right. left. reflexivity.
    + intros g Hg. right. right. right. apply in_map_iff. exists g. auto.
Qed.

Lemma inv_st0 : Inv (ledger0 1 [1]) st0.
Proof. exact (inv_init 1 [1]). Qed.

(* -- conformance of everything a run emits -- *)
Lemma evgood_conform : forall L ev, EvGood L ev -> forallb conforms (wev_msgs ev) = true.
Proof.
  intros L ev H. apply forallb_forall. intros w Hw. unfold EvGood in H. rewrite Forall_forall in H.
  exact (proj1 (H w Hw)).
Qed.

Lemma run_conform_all : forall n ops L s, Inv L s -> wf_ops n s ops = true ->
  Forall (fun st => all_conform (fst st) = true) (fst (run repaired s ops)).
Proof.
  intros n ops. induction ops as [|o t IH]; intros L s I Hw; [constructor|].
  cbn [wf_ops] in Hw. apply andb_true_iff in Hw. destruct Hw as [Ho Ht].
  destruct (step_good n L s o I Ho) as [I1 E1].
  specialize (IH _ _ I1 Ht). unfold state_after in IH.
  rewrite run_cons. destruct (step repaired s o) as [[s1 evs] e]. cbn [fst snd] in *.
  destruct (run repaired s1 t) as [r s2]. cbn [fst] in *. constructor; [|exact IH].
  cbn [fst]. unfold all_conform. apply forallb_forall. intros ev Hev.
  rewrite Forall_forall in E1. eapply evgood_conform. apply E1. exact Hev.
Qed.

(* -- ids: every id of every emitted message is in the ledger of its time -- *)
Fixpoint ids_in_ledger (L : ledger) (s : st) (ops : list op) : Prop :=
  match ops with
  | [] => True
  | o :: t =>
    (forall ev w k i, In ev (snd (fst (step repaired s o))) -> In w (wev_msgs ev) -> In (k, i) (msg_ids w) ->
                      known (op_ids s o ++ L) k i) /\
    ids_in_ledger (op_ids s o ++ L) (state_after repaired s o) t
  end.

Lemma run_ids_all : forall n ops L s, Inv L s -> wf_ops n s ops = true -> ids_in_ledger L s ops.
Proof.
  intros n ops L s I Hw. pose proof (run_good n ops L s I Hw) as R. clear I Hw. revert L s R.
  induction ops as [|o t IH]; intros L s R; [exact Logic.I|].
  cbn [RunGood] in R. destruct R as [E R]. cbn [ids_in_ledger]. split; [|apply IH; exact R].
  intros ev w k i Hev Hw Hi. rewrite Forall_forall in E. pose proof (E ev Hev) as G. unfold EvGood in G.
  rewrite Forall_forall in G. exact (proj2 (G w Hw) k i Hi).
Qed.

(* -- the code as found does not have the property: witnesses -- *)
Lemma cue_as_found_does_not_conform : exists ops,
  wf_ops 2 st0 ops = true /\
  ~ Forall (fun st => all_conform (fst st) = true) (fst (run as_found st0 ops)).
Proof.
  exists [OBufNew (Some 0) (PInt 32768) (PInt 2) None CNone true; OBufCue 0 "/tmp/a.wav" 100 CNone].
  split; [vm_compute; reflexivity|]. intros H. inversion H as [|x l H1 H2]; subst. inversion H2 as [|y l' H3 H4]; subst.
  vm_compute in H3. discriminate.
Qed.

Lemma dict_as_found_does_not_conform : exists ops,
  wf_ops 2 st0 ops = true /\
  ~ Forall (fun st => all_conform (fst st) = true) (fst (run as_found st0 ops)).
Proof.
  exists [OSynth SInit 1000 "default" PNone TgNone (ActS "addToHead");
          ONodeSet 0 [PDict [(PStr "freq", PInt 440); (PStr "amp", PList [PFlt (1 # 4); PFlt (1 # 2)])]]].
  split; [vm_compute; reflexivity|]. intros H. inversion H as [|x l H1 H2]; subst. inversion H2 as [|y l' H3 H4]; subst.
  vm_compute in H3. discriminate.
Qed.
