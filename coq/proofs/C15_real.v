(* Inverse laws of the regenerated transcendental kernels over R (gen/Gen_builtinsR.v). *)
From Coq Require Import Reals Rpower Lra.
Require Import SC3.lib.PyReal SC3.gen.Gen_builtinsR.
Open Scope R_scope.

Lemma ln2_pos : 0 < ln 2.
Proof. rewrite <- ln_1. apply ln_increasing; lra. Qed.
Lemma ln10_pos : 0 < ln 10.
Proof. rewrite <- ln_1. apply ln_increasing; lra. Qed.

Lemma pow_pos_base a b : 0 < a -> pyR_pow a b = Rpower a b.
Proof. intros H. unfold pyR_pow. destruct (Rle_dec (IZR 0) a); [reflexivity|lra]. Qed.
Lemma log2_nz x : 0 < x -> pyR_log2 x = ln x / ln 2.
Proof. intros H. unfold pyR_log2. destruct (Req_EM_T x (IZR 0)); [lra|reflexivity]. Qed.
Lemma log10_nz x : 0 < x -> pyR_log10 x = ln x / ln 10.
Proof. intros H. unfold pyR_log10. destruct (Req_EM_T x (IZR 0)); [lra|reflexivity]. Qed.

Lemma Rpower_pos a b : 0 < Rpower a b.
Proof. unfold Rpower. apply exp_pos. Qed.
Lemma log2_Rpower2 y : ln (Rpower 2 y) / ln 2 = y.
Proof. unfold Rpower. rewrite ln_exp. pose proof ln2_pos. field. lra. Qed.
Lemma Rpower2_log2 x : 0 < x -> Rpower 2 (ln x / ln 2) = x.
Proof.
  intros H. unfold Rpower. pose proof ln2_pos.
  replace (ln x / ln 2 * ln 2) with (ln x) by (field; lra). apply exp_ln. exact H.
Qed.
Lemma log10_Rpower10 y : ln (Rpower 10 y) / ln 10 = y.
Proof. unfold Rpower. rewrite ln_exp. pose proof ln10_pos. field. lra. Qed.
Lemma Rpower10_log10 x : 0 < x -> Rpower 10 (ln x / ln 10) = x.
Proof.
  intros H. unfold Rpower. pose proof ln10_pos.
  replace (ln x / ln 10 * ln 10) with (ln x) by (field; lra). apply exp_ln. exact H.
Qed.

Lemma cpsmidi_midicps n : pyR_cpsmidi (pyR_midicps n) = n.
Proof.
  unfold pyR_cpsmidi, pyR_midicps, py_ONE440TH, py_ONETWELFTH.
  rewrite pow_pos_base by lra.
  set (p := Rpower 2 _). assert (0 < p) by apply Rpower_pos.
  rewrite log2_nz by lra.
  replace (440 * p * (1 / 440)) with p by field.
  unfold p. rewrite log2_Rpower2. field.
Qed.
Lemma midicps_cpsmidi f : 0 < f -> pyR_midicps (pyR_cpsmidi f) = f.
Proof.
  intros Hf. unfold pyR_cpsmidi, pyR_midicps, py_ONE440TH, py_ONETWELFTH.
  rewrite pow_pos_base by lra. rewrite log2_nz by lra.
  replace ((ln (f * (1 / 440)) / ln 2 * 12 + 69 - 69) * (1 / 12)) with (ln (f * (1 / 440)) / ln 2).
  2: { field. pose proof ln2_pos; lra. }
  rewrite Rpower2_log2 by lra. field.
Qed.
Lemma ratiomidi_midiratio m : pyR_ratiomidi (pyR_midiratio m) = m.
Proof.
  unfold pyR_ratiomidi, pyR_midiratio, py_ONETWELFTH. rewrite pow_pos_base by lra.
  rewrite log2_nz by apply Rpower_pos. rewrite log2_Rpower2. field.
Qed.
Lemma midiratio_ratiomidi r : 0 < r -> pyR_midiratio (pyR_ratiomidi r) = r.
Proof.
  intros H. unfold pyR_ratiomidi, pyR_midiratio, py_ONETWELFTH. rewrite pow_pos_base by lra.
  rewrite log2_nz by lra.
  replace (12 * (ln r / ln 2) * (1 / 12)) with (ln r / ln 2) by (field; pose proof ln2_pos; lra).
  apply Rpower2_log2; exact H.
Qed.
Lemma ampdb_dbamp d : pyR_ampdb (pyR_dbamp d) = d.
Proof.
  unfold pyR_ampdb, pyR_dbamp. rewrite pow_pos_base by lra.
  rewrite log10_nz by apply Rpower_pos. rewrite log10_Rpower10. field.
Qed.
Lemma dbamp_ampdb a : 0 < a -> pyR_dbamp (pyR_ampdb a) = a.
Proof.
  intros H. unfold pyR_ampdb, pyR_dbamp. rewrite pow_pos_base by lra. rewrite log10_nz by lra.
  replace (ln a / ln 10 * 20 * (1 / 20)) with (ln a / ln 10) by (field; pose proof ln10_pos; lra).
  apply Rpower10_log10; exact H.
Qed.
Lemma cpsoct_octcps n : pyR_cpsoct (pyR_octcps n) = n.
Proof.
  unfold pyR_cpsoct, pyR_octcps, py_ONE440TH. rewrite pow_pos_base by lra.
  set (p := Rpower 2 _). assert (0 < p) by apply Rpower_pos.
  rewrite log2_nz by lra.
  replace (440 * p * (1 / 440)) with p by field.
  unfold p. rewrite log2_Rpower2. field.
Qed.
Lemma octcps_cpsoct f : 0 < f -> pyR_octcps (pyR_cpsoct f) = f.
Proof.
  intros Hf. unfold pyR_cpsoct, pyR_octcps, py_ONE440TH.
  rewrite pow_pos_base by lra. rewrite log2_nz by lra.
  replace (ln (f * (1 / 440)) / ln 2 + 19 / 4 - 19 / 4) with (ln (f * (1 / 440)) / ln 2).
  2: { field. pose proof ln2_pos; lra. }
  rewrite Rpower2_log2 by lra. field.
Qed.
