(* C01_compile.v -- SynthDef._build as a whole (compile): it fails only when the graph function itself
   raises or when _check_inputs rejects the (optimised) graph; the optimiser and the sort never raise. *)
From Coq Require Import ZArith QArith List String Bool Arith Lia Setoid Permutation.
Import ListNotations.
Require Import SC3.model.Graph SC3.gen.Gen_opcodes SC3.proofs.C01_inv SC3.proofs.C01_inv3 SC3.proofs.C01_init
               SC3.proofs.C01_built SC3.proofs.C01_opt SC3.proofs.C01_cov SC3.proofs.C01_topo SC3.proofs.C01_topo2.
Open Scope string_scope.
Open Scope nat_scope.
Open Scope list_scope.

Record Compiled (p : prog) (s1 s2f s3 : st) (s2 : st) (out : list nat) (g : graph) : Prop := mkCompiled {
  CP_build : build_graph T p = Ok s1;
  CP_built : Built s1;
  CP_inv2 : Inv s2 [];
  CP_reidx : Reindexed s2 s2f;
  CP_opt : exists rho, Opt s2f rho;
  CP_sorted : children s3 = map Some out /\ Permutation out (live s2f) /\
              (forall c g0, In c (live s2f) -> In g0 (SrcOf s2f c) -> Before out g0 c);
  CP_units3 : forall u, get_unit s3 u = match get_unit s2f u with
                | Some U => Some (match pos u out with
                                  | Some i => set_sidx (set_dref U (match pos u (live s2f) with
                                                                    | Some j => Some (List.length (sets s2f) + j)
                                                                    | None => dref U end)) (Z.of_nat i)
                                  | None => U end)
                | None => None end;
  CP_graph : g = emit s3 (collect_constants s2f);
  CP_trace : exists s0 ante, InitSpec s1 s0 ante /\ asteps (with_rewriting s0 true, []) (s2, []);
  CP_cov : Covered s2f;
  CP_optimize : exists ok, optimize T false true true s1 = Ok (s2f, ok);
  CP_topo : topological_sort s2f = Ok s3;
  CP_init : exists s0 ante, init_topo s1 = Ok (s0, ante) /\ InitSpec s1 s0 ante /\
                            asteps (with_rewriting s0 true, []) (s2, [])
}.

Theorem compile_total : forall p s1, build_graph T p = Ok s1 ->
  (forall s2f ok, optimize T false true true s1 = Ok (s2f, ok) -> check_inputs s2f = true) ->
  exists g ok s2f s3 s2 out, compile_flag T false true true p = Ok (g, ok) /\ Compiled p s1 s2f s3 s2 out g.
Proof.
  intros p s1 Hb Hchk. pose proof (build_graph_built p s1 Hb) as B.
  destruct (optimize_ok T_plus T_minus s1 B) as (s2f & ok & s0 & ante & s2 & rho & E & E0 & HI1 & T2 & HI2 & HW & R & O).
  destruct (built_init_inv s1 B) as (s0' & ante' & E0' & _ & _ & IS).
  rewrite E0 in E0'. injection E0' as <- <-.
  pose proof (asteps_cov _ _ T2 (Built_cov_inv s1 s0 ante B IS)) as HC. cbn [fst] in HC.
  destruct (topological_sort_ok s2f rho O) as (s3 & out & E3 & C3 & P3 & B3 & _ & G3).
  exists (emit s3 (collect_constants s2f)), ok, s2f, s3, s2, out. split.
  - unfold compile_flag. rewrite Hb. cbn [bind]. rewrite E. cbn [bind]. rewrite (Hchk s2f ok E). cbn [negb].
    rewrite E3. cbn [bind]. reflexivity.
  - constructor; auto.
    + exists rho; auto.
    + exists s0, ante. auto.
    + eapply Reindexed_Covered; eauto.
    + exists ok; auto.
    + exists s0, ante. auto.
Qed.
