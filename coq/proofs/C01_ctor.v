(* C01: the constructor shortcuts of BinaryOpUGen / MulAdd / Sum3 / Sum4 are ring identities:
   whatever the constructor returns (an existing value, a constant, a new unit, a chain of new
   units) denotes the operation applied to the denotations of its arguments, for every
   interpretation, and the denotation of everything created before is unchanged. *)
From Coq Require Import ZArith QArith Qcanon List String Bool Arith Lia.
Import ListNotations.
Require Import SC3.model.Graph SC3.model.GraphSem SC3.gen.Gen_opcodes.
Open Scope string_scope.
Open Scope list_scope.

Definition T := mkT unops_list binops_list.
Arguments Qred : simpl never.
Arguments Q2Qc : simpl never.

(* ---------------------------------------------------------------- Q2Qc is a ring morphism *)
Lemma Q2Qc_red : forall q, Q2Qc (Qred q) = Q2Qc q.
Proof. intro q. apply Q2Qc_eq_iff. apply Qred_correct. Qed.
Lemma Q2Qc_opp : forall q, Q2Qc (- q) = (- Q2Qc q)%Qc.
Proof. intro q. unfold Qcopp. apply Q2Qc_eq_iff. simpl. rewrite Qred_correct. reflexivity. Qed.
Lemma Q2Qc_plus : forall x y, Q2Qc (x + y) = (Q2Qc x + Q2Qc y)%Qc.
Proof. intros. unfold Qcplus. apply Q2Qc_eq_iff. simpl. rewrite !Qred_correct. reflexivity. Qed.
Lemma Q2Qc_minus : forall x y, Q2Qc (x - y) = (Q2Qc x - Q2Qc y)%Qc.
Proof. intros. unfold Qcminus, Qminus. rewrite Q2Qc_plus, Q2Qc_opp. reflexivity. Qed.
Lemma Q2Qc_mult : forall x y, Q2Qc (x * y) = (Q2Qc x * Q2Qc y)%Qc.
Proof. intros. unfold Qcmult. apply Q2Qc_eq_iff. simpl. rewrite !Qred_correct. reflexivity. Qed.
Lemma Q2Qc_m1 : Q2Qc (inject_Z (-1)) = Qcopp (Q2Qc 1).
Proof. unfold Qcopp. apply Q2Qc_eq_iff. reflexivity. Qed.

Lemma kis_sound : forall v z, kis v z = true -> exists q, v = K q /\ Q2Qc q = Q2Qc (inject_Z z).
Proof.
  intros [q | u ch] z H; simpl in H; [|discriminate].
  exists q; split; auto. apply Q2Qc_eq_iff. apply Qeq_bool_iff. exact H.
Qed.

(* ---------------------------------------------------------------- stores *)
Definition D (I : interp) (s : st) : list row := den_store I s.
Definition wf_val (s : st) (v : inp) : Prop :=
  match v with K _ => True | O u _ => u < List.length (units s) end.
Definition ext (s s' : st) : Prop := exists extra, units s' = units s ++ extra.

Lemma ext_refl : forall s, ext s s.
Proof. intro s; exists []; rewrite app_nil_r; reflexivity. Qed.
Lemma ext_trans : forall a b c, ext a b -> ext b c -> ext a c.
Proof. intros a b c [x Hx] [y Hy]. exists (x ++ y). rewrite Hy, Hx, app_assoc. reflexivity. Qed.

Lemma den_list_app : forall I us vs tab, den_list I tab (us ++ vs) = den_list I (den_list I tab us) vs.
Proof. intros. unfold den_list. apply fold_left_app. Qed.
Lemma den_list_prefix : forall I us tab, exists more, den_list I tab us = tab ++ more /\ List.length more = List.length us.
Proof.
  intros I us; induction us as [|U t IH]; intros tab; simpl.
  - exists []; rewrite app_nil_r; auto.
  - destruct (IH (tab ++ [unit_val I tab U])) as [m [Hm Hl]].
    exists (unit_val I tab U :: m). split.
    + unfold den_list in *. simpl. rewrite Hm. rewrite <- app_assoc. reflexivity.
    + simpl; congruence.
Qed.
Lemma D_length : forall I s, List.length (D I s) = List.length (units s).
Proof.
  intros I s. unfold D, den_store. destruct (den_list_prefix I (units s) []) as [m [Hm Hl]].
  rewrite Hm. simpl. exact Hl.
Qed.
Lemma D_ext : forall I s s', ext s s' -> exists more, D I s' = D I s ++ more.
Proof.
  intros I s s' [x Hx]. unfold D, den_store. rewrite Hx, den_list_app.
  destruct (den_list_prefix I x (den_list I [] (units s))) as [m [Hm _]]. exists m; exact Hm.
Qed.
Lemma val_den_app : forall tab more v, (match v with K _ => True | O u _ => u < List.length tab end) ->
  val_den (tab ++ more) v = val_den tab v.
Proof. intros tab more [q | u ch] H; simpl; auto. rewrite app_nth1; auto. Qed.
Lemma val_den_ext : forall I s s' v, ext s s' -> wf_val s v -> val_den (D I s') v = val_den (D I s) v.
Proof.
  intros I s s' v He Hw. destruct (D_ext I s s' He) as [m Hm]. rewrite Hm.
  apply val_den_app. destruct v; simpl in *; auto. rewrite D_length; exact Hw.
Qed.
Lemma wf_val_ext : forall s s' v, ext s s' -> wf_val s v -> wf_val s' v.
Proof. intros s s' [q | u ch] [x Hx] H; simpl in *; auto. rewrite Hx, app_length. lia. Qed.

(* one object creation *)
Lemma create_spec : forall s mk wfirst s1 u, create s mk wfirst = (s1, u) ->
  u = List.length (units s) /\ exists w i, units s1 = units s ++ [mk u w i].
Proof.
  intros s mk wfirst s1 u H. unfold create in H. destruct (rewriting s); inversion H; subst; simpl; split; eauto.
Qed.

Lemma new_unit_den : forall I s s1 u U, u = List.length (units s) -> units s1 = units s ++ [U] ->
  ext s s1 /\ wf_val s1 (O u 0) /\ nth u (D I s1) [] = unit_val I (D I s) U.
Proof.
  intros I s s1 u U Hu Hs. split; [exists [U]; exact Hs|]. split.
  - simpl. rewrite Hs, app_length. simpl. lia.
  - unfold D, den_store. rewrite Hs, den_list_app. simpl.
    rewrite app_nth2; rewrite (D_length I s : List.length (den_list I [] (units s)) = _); [|lia].
    subst u. rewrite Nat.sub_diag. reflexivity.
Qed.

(* ---------------------------------------------------------------- canonical names of the ring operators
   in the regenerated tables (by computation: breaks if the rows no longer carry these names) *)
Lemma canon_neg : exists i, sc_spindex_opname T "neg" = Some (i, "neg").
Proof. eexists; vm_compute; reflexivity. Qed.
Lemma canon_add : exists i, sc_spindex_opname T "+" = Some (i, "+").
Proof. eexists; vm_compute; reflexivity. Qed.
Lemma canon_sub : exists i, sc_spindex_opname T "-" = Some (i, "-").
Proof. eexists; vm_compute; reflexivity. Qed.
Lemma canon_mul : exists i, sc_spindex_opname T "*" = Some (i, "*").
Proof. eexists; vm_compute; reflexivity. Qed.
Lemma py_neg : sc_opname T "neg" = Some "neg". Proof. vm_compute; reflexivity. Qed.
Lemma py_add : sc_opname T "add" = Some "+". Proof. vm_compute; reflexivity. Qed.
Lemma py_sub : sc_opname T "sub" = Some "-". Proof. vm_compute; reflexivity. Qed.
Lemma py_mul : sc_opname T "mul" = Some "*". Proof. vm_compute; reflexivity. Qed.

(* ---------------------------------------------------------------- UnaryOpUGen / negation *)
Definition spec (I : interp) (s s' : st) (v : inp) (sem : Qc) : Prop :=
  ext s s' /\ wf_val s' v /\ val_den (D I s') v = sem.

Lemma ctor_un_sound : forall I s name idx a s' v, wf_val s a ->
  sc_spindex_opname T name = Some (idx, name) ->
  ctor_un T s (Some name) a = Ok (s', v) ->
  spec I s s' v (un_sem I name (val_den (D I s) a)).
Proof.
  intros I s name idx a s' v Hw Hc H. unfold ctor_un in H.
  destruct (negb _); [discriminate|]. rewrite Hc in H.
  destruct (create s _ false) as [s1 u] eqn:Ec. inversion H; subst s1 v; clear H.
  destruct (create_spec _ _ _ _ _ Ec) as [Hu [w [i Hs]]].
  destruct (new_unit_den I s s' u _ Hu Hs) as (He & Hwf & Hn).
  split; [exact He|]. split; [exact Hwf|].
  simpl. rewrite Hn. reflexivity.
Qed.

Lemma vneg_sound : forall I s b s' v, wf_val s b -> vneg T s b = Ok (s', v) ->
  spec I s s' v (- val_den (D I s) b)%Qc.
Proof.
  intros I s b s' v Hw H. destruct b as [q | u ch]; unfold vneg in H.
  - injection H as Hs Hv; subst s' v. split; [apply ext_refl|]. split; [simpl; constructor|].
    unfold val_den. change (Q2Qc (Qred (- q)) = (- Q2Qc q)%Qc). rewrite Q2Qc_red, Q2Qc_opp. reflexivity.
  - rewrite py_neg in H. destruct canon_neg as [i Hi].
    pose proof (ctor_un_sound I s "neg" i (O u ch) s' v Hw Hi H) as Hs.
    unfold un_sem in Hs. simpl in Hs. exact Hs.
Qed.

(* ---------------------------------------------------------------- helpers *)
Lemma spec_same : forall I s v sem, wf_val s v -> val_den (D I s) v = sem -> spec I s s v sem.
Proof. intros I s v sem Hw H. split; [apply ext_refl|]. split; auto. Qed.
Lemma spec_conv : forall I s s' v x y, spec I s s' v x -> x = y -> spec I s s' v y.
Proof. intros; subst; auto. Qed.
Lemma val_den_K : forall tab q, val_den tab (K q) = Q2Qc q.
Proof. reflexivity. Qed.
Ltac kcase H := let q := fresh "q" in let E := fresh "E" in let Hq := fresh "Hq" in
  destruct (kis_sound _ _ H) as [q [E Hq]]; subst; rewrite ?val_den_K; rewrite ?Hq.
Ltac qc_consts := change (Q2Qc (inject_Z 0)) with 0%Qc in *; change (Q2Qc (inject_Z 1)) with 1%Qc in *;
  try rewrite Q2Qc_m1 in *; change (Q2Qc 1) with 1%Qc in *.

Lemma new_bin_unit_sound : forall I s name idx a b s' v, wf_val s a -> wf_val s b ->
  sc_spindex_opname T name = Some (idx, name) -> new_bin_unit T s name a b = Ok (s', v) ->
  spec I s s' v (bin_sem I name (val_den (D I s) a) (val_den (D I s) b)).
Proof.
  intros I s name idx a b s' v Ha Hb Hc H. unfold new_bin_unit in H. rewrite Hc in H.
  destruct (create s _ false) as [s1 u] eqn:Ec. injection H as Hs Hv; subst s1 v.
  destruct (create_spec _ _ _ _ _ Ec) as [Hu [w [i Hs]]].
  destruct (new_unit_den I s s' u _ Hu Hs) as (He & Hwf & Hn).
  split; [exact He|]. split; [exact Hwf|]. simpl. rewrite Hn. reflexivity.
Qed.

(* BinaryOpUGen._new1: every constant shortcut is a ring identity *)
Lemma ctor_bin_sound : forall I s name idx a b s' v, wf_val s a -> wf_val s b ->
  sc_spindex_opname T name = Some (idx, name) ->
  ctor_bin T s name a b = Ok (s', v) ->
  spec I s s' v (bin_sem I name (val_den (D I s) a) (val_den (D I s) b)).
Proof.
  intros I s name idx a b s' v Ha Hb Hc H. unfold ctor_bin in H.
  destruct (negb (is_const a) && negb (is_const b)); [exact (new_bin_unit_sound I s _ idx a b s' v Ha Hb Hc H)|].
  destruct (String.eqb name "*") eqn:E1.
  { apply String.eqb_eq in E1; subst name. unfold bin_sem; simpl.
    destruct (kis a 0) eqn:K1. { injection H as ? ?; subst. kcase K1. apply spec_same; simpl; auto. qc_consts. ring. }
    destruct (kis b 0) eqn:K2. { injection H as ? ?; subst. kcase K2. apply spec_same; simpl; auto. qc_consts. ring. }
    destruct (kis a 1) eqn:K3. { injection H as ? ?; subst. kcase K3. apply spec_same; auto. qc_consts. ring. }
    destruct (kis a (-1)) eqn:K4. { kcase K4. eapply spec_conv; [exact (vneg_sound I s b s' v Hb H)|]. qc_consts. ring. }
    destruct (kis b 1) eqn:K5. { injection H as ? ?; subst. kcase K5. apply spec_same; auto. qc_consts. ring. }
    destruct (kis b (-1)) eqn:K6. { kcase K6. eapply spec_conv; [exact (vneg_sound I s a s' v Ha H)|]. qc_consts. ring. }
    eapply spec_conv; [exact (new_bin_unit_sound I s _ idx a b s' v Ha Hb Hc H)|]. reflexivity. }
  destruct (String.eqb name "+") eqn:E2.
  { apply String.eqb_eq in E2; subst name. unfold bin_sem; simpl.
    destruct (kis a 0) eqn:K1. { injection H as ? ?; subst. kcase K1. apply spec_same; auto. qc_consts. ring. }
    destruct (kis b 0) eqn:K2. { injection H as ? ?; subst. kcase K2. apply spec_same; auto. qc_consts. ring. }
    eapply spec_conv; [exact (new_bin_unit_sound I s _ idx a b s' v Ha Hb Hc H)|]. reflexivity. }
  destruct (String.eqb name "-") eqn:E3.
  { apply String.eqb_eq in E3; subst name. unfold bin_sem; simpl.
    destruct (kis a 0) eqn:K1. { kcase K1. eapply spec_conv; [exact (vneg_sound I s b s' v Hb H)|]. qc_consts. ring. }
    destruct (kis b 0) eqn:K2. { injection H as ? ?; subst. kcase K2. apply spec_same; auto. qc_consts. ring. }
    eapply spec_conv; [exact (new_bin_unit_sound I s _ idx a b s' v Ha Hb Hc H)|]. reflexivity. }
  destruct (String.eqb name "/") eqn:E4.
  { apply String.eqb_eq in E4; subst name. unfold bin_sem; simpl.
    destruct (kis b 1) eqn:K1. { injection H as ? ?; subst. kcase K1. apply spec_same; auto. qc_consts. field; discriminate. }
    destruct (kis b (-1)) eqn:K2. { kcase K2. eapply spec_conv; [exact (vneg_sound I s a s' v Ha H)|]. qc_consts. field; discriminate. }
    eapply spec_conv; [exact (new_bin_unit_sound I s _ idx a b s' v Ha Hb Hc H)|]. reflexivity. }
  exact (new_bin_unit_sound I s _ idx a b s' v Ha Hb Hc H).
Qed.

(* ---------------------------------------------------------------- Python operators on values *)
Definition ring_py (py sc : string) : Prop :=
  (py = "add" /\ sc = "+") \/ (py = "sub" /\ sc = "-") \/ (py = "mul" /\ sc = "*").

Lemma py_binop_sound : forall I s py sc a b s' v, wf_val s a -> wf_val s b -> ring_py py sc ->
  py_binop T s py a b = Ok (s', v) ->
  spec I s s' v (bin_sem I sc (val_den (D I s) a) (val_den (D I s) b)).
Proof.
  intros I s py sc a b s' v Ha Hb Hr H.
  assert (Hsc : sc_opname T py = Some sc /\ exists idx, sc_spindex_opname T sc = Some (idx, sc)).
  { destruct Hr as [[? ?] | [[? ?] | [? ?]]]; subst; split; try (vm_compute; reflexivity); eexists; vm_compute; reflexivity. }
  destruct Hsc as [Hsc [idx Hidx]].
  assert (Hgen : (if ugen_ok s a && ugen_ok s b then
                    match sc_opname T py with Some n => ctor_bin T s n a b | None => Err EException end
                  else Err EType) = Ok (s', v) ->
                 spec I s s' v (bin_sem I sc (val_den (D I s) a) (val_den (D I s) b))).
  { intro H0. destruct (ugen_ok s a && ugen_ok s b); [|discriminate]. rewrite Hsc in H0.
    exact (ctor_bin_sound I s sc idx a b s' v Ha Hb Hidx H0). }
  destruct a as [x | ua ca], b as [y | ub cb]; try (apply Hgen; exact H).
  unfold py_binop in H. rewrite !val_den_K.
  destruct Hr as [[? ?] | [[? ?] | [? ?]]]; subst; simpl in H; injection H as ? ?; subst;
    apply spec_same; try (simpl; constructor); rewrite val_den_K, Q2Qc_red; unfold bin_sem; simpl.
  - apply Q2Qc_plus.
  - apply Q2Qc_minus.
  - apply Q2Qc_mult.
Qed.

Lemma py_unop_neg_sound : forall I s a s' v, wf_val s a -> py_unop T s "neg" a = Ok (s', v) ->
  spec I s s' v (- val_den (D I s) a)%Qc.
Proof.
  intros I s a s' v Ha H. apply (vneg_sound I s a s' v Ha).
  destruct a; unfold py_unop in H; unfold vneg; simpl in H; exact H.
Qed.

(* chaining two constructions *)
Lemma spec_chain : forall I s s1 s' p v f, ext s s1 -> wf_val s1 p ->
  spec I s1 s' v f -> ext s s' /\ wf_val s' v /\ val_den (D I s') v = f.
Proof. intros I s s1 s' p v f He Hp [He2 [Hw Hv]]. split; [eapply ext_trans; eauto|]. auto. Qed.

(* ---------------------------------------------------------------- MulAdd._new1 *)
Lemma new_plain_unit_den : forall I s s' u k c r l n w i d tg pu mu iu wfu ck,
  u = List.length (units s) ->
  units s' = units s ++ [mkU u c r l n 0%Z "" k pu mu iu wfu ck w i d tg] ->
  spec I s s' (O u 0) (nthq (unit_sem I k c "" tg n 0%Z (map (val_den (D I s)) l)) 0).
Proof.
  intros. destruct (new_unit_den I s s' u _ H H0) as (He & Hwf & Hn).
  split; [exact He|]. split; [exact Hwf|]. simpl. rewrite Hn. reflexivity.
Qed.

Lemma ctor_muladd_sound : forall I s i m a s' v, wf_val s i -> wf_val s m -> wf_val s a ->
  ctor_muladd T s i m a = Ok (s', v) ->
  spec I s s' v (val_den (D I s) i * val_den (D I s) m + val_den (D I s) a)%Qc.
Proof.
  intros I s i m a s' v Hi Hm Ha H. unfold ctor_muladd in H.
  destruct (kis m 0) eqn:K0. { injection H as ? ?; subst. kcase K0. apply spec_same; auto. qc_consts. ring. }
  destruct (kis m 1 && kis a 0) eqn:K1.
  { apply andb_true_iff in K1; destruct K1 as [Ka Kb]. injection H as ? ?; subst. kcase Ka. kcase Kb.
    apply spec_same; auto. qc_consts. ring. }
  destruct (kis m (-1) && kis a 0) eqn:K2.
  { apply andb_true_iff in K2; destruct K2 as [Ka Kb]. kcase Ka. kcase Kb.
    eapply spec_conv; [exact (py_unop_neg_sound I s i s' v Hi H)|]. qc_consts. ring. }
  destruct (kis a 0) eqn:K3.
  { kcase K3. eapply spec_conv; [exact (py_binop_sound I s "mul" "*" i m s' v Hi Hm (or_intror (or_intror (conj eq_refl eq_refl))) H)|].
    unfold bin_sem; simpl. qc_consts. ring. }
  destruct (kis m (-1)) eqn:K4.
  { kcase K4. eapply spec_conv; [exact (py_binop_sound I s "sub" "-" a i s' v Ha Hi (or_intror (or_introl (conj eq_refl eq_refl))) H)|].
    unfold bin_sem; simpl. qc_consts. ring. }
  destruct (kis m 1) eqn:K5.
  { kcase K5. eapply spec_conv; [exact (py_binop_sound I s "add" "+" i a s' v Hi Ha (or_introl (conj eq_refl eq_refl)) H)|].
    unfold bin_sem; simpl. qc_consts. ring. }
  destruct (can_be_muladd s i m a).
  { destruct (create s _ false) as [s1 u] eqn:Ec. injection H as ? ?; subst s1 v.
    destruct (create_spec _ _ _ _ _ Ec) as [Hu [w [k Hs]]].
    eapply spec_conv; [eapply new_plain_unit_den; eauto|]. simpl. reflexivity. }
  destruct (can_be_muladd s m i a).
  { destruct (create s _ false) as [s1 u] eqn:Ec. injection H as ? ?; subst s1 v.
    destruct (create_spec _ _ _ _ _ Ec) as [Hu [w [k Hs]]].
    eapply spec_conv; [eapply new_plain_unit_den; eauto|]. simpl. unfold nthq; simpl. ring. }
  (* (input * mul) + add *)
  destruct (py_binop T s "mul" i m) as [[s1 p] | e] eqn:E1; simpl in H; [|discriminate].
  pose proof (py_binop_sound I s "mul" "*" i m s1 p Hi Hm (or_intror (or_intror (conj eq_refl eq_refl))) E1) as [He1 [Hp Hv1]].
  pose proof (py_binop_sound I s1 "add" "+" p a s' v Hp (wf_val_ext _ _ _ He1 Ha) (or_introl (conj eq_refl eq_refl)) H) as [He2 [Hw Hv2]].
  split; [eapply ext_trans; eauto|]. split; [exact Hw|].
  rewrite Hv2. unfold bin_sem in *; simpl in *. rewrite Hv1. rewrite (val_den_ext I s s1 a He1 Ha). reflexivity.
Qed.

(* ---------------------------------------------------------------- Sum3._new1 / Sum4._new1 *)
Require Import SC3.proofs.C20_arrange.
From Coq Require Import Permutation.

Lemma fold_left_plus : forall l a, fold_left Qcplus l a = (a + fold_right Qcplus 0%Qc l)%Qc.
Proof. induction l as [|x t IH]; intro a; simpl; [ring | rewrite IH; ring]. Qed.
Lemma qsum_fr : forall l, qsum l = fold_right Qcplus 0%Qc l.
Proof. intro l. unfold qsum. rewrite fold_left_plus. change (Q2Qc 0) with 0%Qc. ring. Qed.
Lemma fr_perm : forall l l', Permutation l l' -> fold_right Qcplus 0%Qc l = fold_right Qcplus 0%Qc l'.
Proof. induction 1; simpl; try congruence; ring. Qed.
Lemma qsum_perm : forall l l', Permutation l l' -> qsum l = qsum l'.
Proof. intros. rewrite !qsum_fr. apply fr_perm; assumption. Qed.

Lemma sum_unit_den : forall I s s' u k c r l w i,
  (k = KSum3 \/ k = KSum4) -> u = List.length (units s) ->
  units s' = units s ++ [mkU u c r (sort_by (fun v => rate_strkey (vrate s v)) l) 1 0%Z "" k false false true false ChkValid w i None 0] ->
  spec I s s' (O u 0) (qsum (map (val_den (D I s)) l)).
Proof.
  intros I s s' u k c r l w i Hk Hu Hs.
  eapply spec_conv; [eapply new_plain_unit_den; eauto|].
  destruct Hk; subst k; simpl; unfold nthq; simpl; apply qsum_perm; apply Permutation_map; apply sort_by_perm.
Qed.

Lemma sum3_new1_sound : forall I s a b c s' v, wf_val s a -> wf_val s b -> wf_val s c ->
  sum3_new1 T s a b c = Ok (s', v) ->
  spec I s s' v (val_den (D I s) a + val_den (D I s) b + val_den (D I s) c)%Qc.
Proof.
  intros I s a b c s' v Ha Hb Hc H. unfold sum3_new1 in H.
  pose (ADD := or_introl (conj eq_refl eq_refl) : ring_py "add" "+").
  destruct (kis c 0) eqn:K1.
  { kcase K1. eapply spec_conv; [exact (py_binop_sound I s "add" "+" a b s' v Ha Hb ADD H)|]. unfold bin_sem; simpl. qc_consts. ring. }
  destruct (kis b 0) eqn:K2.
  { kcase K2. eapply spec_conv; [exact (py_binop_sound I s "add" "+" a c s' v Ha Hc ADD H)|]. unfold bin_sem; simpl. qc_consts. ring. }
  destruct (kis a 0) eqn:K3.
  { kcase K3. eapply spec_conv; [exact (py_binop_sound I s "add" "+" b c s' v Hb Hc ADD H)|]. unfold bin_sem; simpl. qc_consts. ring. }
  destruct (create s _ false) as [s1 u] eqn:Ec. injection H as ? ?; subst s1 v.
  destruct (create_spec _ _ _ _ _ Ec) as [Hu [w [k Hs]]].
  eapply spec_conv; [eapply (sum_unit_den I s s' u KSum3); eauto|].
  rewrite qsum_fr. simpl. ring.
Qed.

Lemma sum4_new1_sound : forall I s a b c d s' v, wf_val s a -> wf_val s b -> wf_val s c -> wf_val s d ->
  sum4_new1 T s a b c d = Ok (s', v) ->
  spec I s s' v (val_den (D I s) a + val_den (D I s) b + val_den (D I s) c + val_den (D I s) d)%Qc.
Proof.
  intros I s a b c d s' v Ha Hb Hc Hd H. unfold sum4_new1 in H.
  destruct (kis a 0) eqn:K1.
  { kcase K1. eapply spec_conv; [exact (sum3_new1_sound I s b c d s' v Hb Hc Hd H)|]. qc_consts. ring. }
  destruct (kis b 0) eqn:K2.
  { kcase K2. eapply spec_conv; [exact (sum3_new1_sound I s a c d s' v Ha Hc Hd H)|]. qc_consts. ring. }
  destruct (kis c 0) eqn:K3.
  { kcase K3. eapply spec_conv; [exact (sum3_new1_sound I s a b d s' v Ha Hb Hd H)|]. qc_consts. ring. }
  destruct (kis d 0) eqn:K4.
  { kcase K4. eapply spec_conv; [exact (sum3_new1_sound I s a b c s' v Ha Hb Hc H)|]. qc_consts. ring. }
  destruct (create s _ false) as [s1 u] eqn:Ec. injection H as ? ?; subst s1 v.
  destruct (create_spec _ _ _ _ _ Ec) as [Hu [w [k Hs]]].
  eapply spec_conv; [eapply (sum_unit_den I s s' u KSum4); eauto|].
  rewrite qsum_fr. simpl. ring.
Qed.

(* ---------------------------------------------------------------- the algebra of the optimiser's rewrites *)
(* each rewrite replaces the left-hand side by a unit denoting the right-hand side *)
Lemma rewrite_algebra : forall p q b x y : Qc,
  ((p + q) + b = qsum [p; q; b]                      (* Sum3 *)
   /\ (p + q) + (p + q) = qsum [p; p; q; q]          (* Sum3, `a is b` -> Sum4 *)
   /\ b + (p + q) = qsum [p; q; b]
   /\ qsum [p; q; x] + b = qsum [p; q; x; b]         (* Sum4 *)
   /\ b + qsum [p; q; x] = qsum [p; q; x; b]
   /\ (x * y) + b = x * y + b /\ (x * y) + b = y * x + b /\ b + (x * y) = x * y + b /\ b + (x * y) = y * x + b   (* MulAdd *)
   /\ x + (- y) = x - y /\ (- x) + y = y - x         (* addneg *)
   /\ x - (- y) = x + y)%Qc.                         (* sub *)
Proof. intros. rewrite !qsum_fr. simpl. repeat split; ring. Qed.
