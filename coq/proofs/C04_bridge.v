(* C04 -- (a) a whole-definition invariant: every entry of the name table points at its
   defaults in the control array; (b) the tie to C02's format model (model/Scgf.v, imported,
   not modified): the name table and control words handed to the writer come back from the
   bytes as exactly (name, first slot) and the defaults. *)
From Coq Require Import String List QArith ZArith Bool Arith PeanoNat Lia.
Import ListNotations.
Require Import SC3.model.Controls SC3.proofs.C04_layout SC3.proofs.C04_main.
Require SC3.model.Scgf SC3.proofs.C02_scgf.
Open Scope nat_scope.

(* ------------------------------------------------------------------ table invariant *)
Definition entry_ok (controls : list Q) (c : cname) : Prop :=
  firstn (dlen c) (skipn (cn_index c) controls) = cn_default c.
Definition table_ok (st : bstate) : Prop := Forall (entry_ok (st_controls st)) (st_all st).

Lemma seg_stable {A} (l m x : list A) n i :
  firstn n (skipn i l) = x -> length x = n -> firstn n (skipn i (l ++ m)) = x.
Proof.
  intros H Hx. destruct n as [|n]; [simpl in *; exact H|].
  assert (Hl : S n <= length (skipn i l)).
  { rewrite <- Hx, <- H, firstn_length. lia. }
  rewrite skipn_app, firstn_app.
  replace (S n - length (skipn i l)) with 0 by lia.
  rewrite firstn_O, app_nil_r. exact H.
Qed.

Lemma entry_ok_ext controls more c : entry_ok controls c -> entry_ok (controls ++ more) c.
Proof. unfold entry_ok. intro H. apply seg_stable; [exact H|reflexivity]. Qed.

Lemma build_one_table specs st f st' :
  build_one fixed specs (Ok st) f = Ok st' -> st_cindex st = length (st_controls st) ->
  table_ok st -> table_ok st'.
Proof.
  intros H Hi T.
  destruct (build_one_spec _ _ _ _ H Hi) as (cns & pl & E & _ & A & _ & _ & C & _ & _ & L & N).
  unfold table_ok. rewrite A. apply Forall_app. split.
  - rewrite C. eapply Forall_impl; [|exact T]. intros c Hc. apply entry_ok_ext. exact Hc.
  - apply Forall_forall. intros c Hin.
    apply In_nth_error in Hin. destruct Hin as (i & Hi').
    rewrite nth_error_map in Hi'.
    destruct (nth_error pl i) as [[c' p]|] eqn:Hp; [|discriminate]. injection Hi' as <-.
    assert (Hlt : i < length cns) by (rewrite <- L; apply nth_error_Some; congruence).
    destruct (nth_error cns i) as [c0|] eqn:Hc0; [|apply nth_error_None in Hc0; lia].
    destruct (N i c0 Hc0) as (p' & Hp' & _). rewrite Hp in Hp'. injection Hp' as -> ->.
    unfold entry_ok. cbn [fst cn_index set_index cn_default]. rewrite set_index_dlen, C.
    apply (defaults_segment (st_controls st)). exact Hc0.
Qed.

Lemma build_fold_table specs : forall fs st st',
  fold_left (build_one fixed specs) fs (Ok st) = Ok st' -> st_cindex st = length (st_controls st) ->
  table_ok st -> table_ok st'.
Proof.
  induction fs as [|f fs IH]; intros st st' H Hi T.
  - simpl in H. injection H as <-. exact T.
  - cbn [fold_left] in H. destruct (build_one fixed specs (Ok st) f) as [st1|e] eqn:B.
    + destruct (build_one_spec _ _ _ _ B Hi) as (_ & _ & _ & _ & _ & _ & _ & _ & I1 & _).
      eapply IH; [exact H|exact I1|]. eapply build_one_table; eassumption.
    + rewrite build_one_err in H. discriminate.
Qed.

(* whole definition (outermost function and everything it wraps) *)
Theorem table_points_at_defaults specs t st :
  build_def fixed specs t = Ok st ->
  st_cindex st = length (st_controls st) /\
  forall c, In c (st_all st) ->
    firstn (length (cn_default c)) (skipn (cn_index c) (st_controls st)) = cn_default c /\
    (cn_default c <> [] -> cn_index c + length (cn_default c) <= length (st_controls st)).
Proof.
  unfold build_def, build_list. intro H. split.
  - destruct (build_fold_inv _ _ _ _ H eq_refl) as (I & _). exact I.
  - assert (T : table_ok st) by (eapply build_fold_table; [exact H|reflexivity|constructor]).
    intros c Hc. unfold table_ok in T. rewrite Forall_forall in T. pose proof (T c Hc) as E.
    unfold entry_ok, dlen in E. split; [exact E|].
    intro Hne. assert (L : length (firstn (length (cn_default c)) (skipn (cn_index c) (st_controls st))) = length (cn_default c))
      by (rewrite E; reflexivity).
    rewrite firstn_length, skipn_length in L.
    assert (0 < length (cn_default c)) by (destruct (cn_default c); [congruence|simpl; lia]). lia.
Qed.

(* ------------------------------------------------------------------ what the writer receives *)
(* [w] = the float32 word of a value (struct.pack('>f')), universally quantified *)
Definition handed_ctl (w : Q -> Z) (st : bstate) : list Z := map w (st_controls st).
Definition handed_names (st : bstate) : list (Scgf.bytes * Z) :=
  map (fun c => (Scgf.bs_of_string (cn_name c), Z.of_nat (cn_index c))) (st_all st).

Lemma firstn_skipn_map {A B} (g : A -> B) n i (l : list A) :
  firstn n (skipn i (map g l)) = map g (firstn n (skipn i l)).
Proof. rewrite skipn_map, firstn_map. reflexivity. Qed.

(* End to end: any structure [d] whose control words and name table are the ones the layout
   produced, once written (Scgf.write_def accepts it), is read back by the format parser with
   the same two fields; so in the BYTES the k-th name-table entry is (name of the k-th control
   parameter, first slot of its defaults) and the initial control values at
   [index, index+len) are the words of its defaults. *)
Theorem bytes_carry_layout (w : Q -> Z) specs t st d bs :
  build_def fixed specs t = Ok st ->
  Scgf.d_ctl d = handed_ctl w st -> Scgf.d_names d = handed_names st ->
  Scgf.write_def d = Some bs ->
  exists d', Scgf.parse_def bs = Scgf.Ok d' /\
    length (Scgf.d_ctl d') = length (st_controls st) /\
    length (Scgf.d_names d') = length (st_all st) /\
    forall k c, nth_error (st_all st) k = Some c ->
      nth_error (Scgf.d_names d') k = Some (Scgf.bs_of_string (cn_name c), Z.of_nat (cn_index c)) /\
      firstn (length (cn_default c)) (skipn (cn_index c) (Scgf.d_ctl d')) = map w (cn_default c) /\
      (cn_default c <> [] -> (0 <= Z.of_nat (cn_index c) < Scgf.zlen (Scgf.d_ctl d'))%Z).
Proof.
  intros B Hc Hn Hw.
  exists d. split; [apply C02_scgf.scgf_roundtrip_l; exact Hw|].
  rewrite Hc, Hn. unfold handed_ctl, handed_names. rewrite !map_length.
  split; [reflexivity|]. split; [reflexivity|].
  intros k c Hk. split.
  - rewrite nth_error_map, Hk. reflexivity.
  - destruct (table_points_at_defaults _ _ _ B) as (_ & T).
    destruct (T c (nth_error_In _ _ Hk)) as (T1 & T2). split.
    + rewrite firstn_skipn_map. f_equal. exact T1.
    + intro Hne. specialize (T2 Hne). unfold Scgf.zlen. rewrite map_length.
      assert (0 < length (cn_default c)) by (destruct (cn_default c); [congruence|simpl; lia]). lia.
Qed.
