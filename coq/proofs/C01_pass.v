(* C01_pass.v -- ugen._optimize_graph() = opt_unit for the fixed code (set.discard, live guard in dead
   code elimination, a-is-b guard in _optimize_sub): it never raises, it is a trace of invariant-preserving
   atomic steps, and it only touches slots up to the unit's own. *)
From Coq Require Import ZArith QArith List String Bool Arith Lia Setoid Permutation.
Import ListNotations.
Require Import SC3.model.Graph SC3.proofs.C01_inv SC3.proofs.C01_inv2 SC3.proofs.C01_inv3.
Open Scope string_scope.
Open Scope nat_scope.
Open Scope list_scope.

Section OptUnit.
Variable T : optabs.
Hypothesis Hplus : exists i, sc_spindex_opname T "+" = Some (i, "+").
Hypothesis Hminus : exists i, sc_spindex_opname T "-" = Some (i, "-").

(* what the recursive call must deliver for units at slots below k *)
Definition RecSpec (rec : st -> nat -> res st) (k : nat) : Prop :=
  forall s D v V, Inv s D -> liv s v -> ~ In v D -> get_unit s v = Some V -> Z.to_nat (sidx V) < k ->
  exists s', rec s v = Ok s' /\ asteps (s, D) (s', D) /\ above (Z.to_nat (sidx V)) s s'.

(* every set that still contains the unit being eliminated belongs to an input still to be visited *)
Definition Pending (u : nat) (D : list nat) (l : list inp) (s0 : st) : Prop :=
  forall x X, liv s0 x -> ~ In x D -> get_unit s0 x = Some X -> tracked X = true -> In u (dsetf s0 X) ->
  exists v ch V, In (O v ch) l /\ get_unit s0 v = Some V /\ dref V = dref X.
Definition RankOK (s0 : st) (l : list inp) (kz : Z) : Prop :=
  forall v ch, In (O v ch) l -> exists V, get_unit s0 v = Some V /\ dref V <> None /\ (sidx V < kz)%Z.

Lemma RankOK_tl : forall s0 i t kz, RankOK s0 (i :: t) kz -> RankOK s0 t kz.
Proof. intros s0 i t kz H v ch Hin. apply (H v ch). right; auto. Qed.
Lemma RankOK_Fr : forall s0 D s1 D' l kz, Fr (s0, D) (s1, D') -> RankOK s0 l kz -> RankOK s1 l kz.
Proof.
  intros s0 D s1 D' l kz F H v ch Hin. destruct (H v ch Hin) as (V & G & Dn & Lt).
  destruct (F_get _ _ F v V G) as (V' & G' & SM). exists V'. split; auto.
  destruct SM as (_ & A & B & _). simpl in *. split; congruence.
Qed.

Lemma Pending_Fr : forall u D t s1 s2, u < List.length (units s1) -> Inv s1 D ->
  Fr (s1, D) (s2, D) -> Pending u D t s1 -> Pending u D t s2.
Proof.
  intros u D t s1 s2 Hu HI F P x X' L N G Tr Hin.
  destruct (F_live _ _ F x X' L N G Tr) as (y & Y & Ly & Ny & Gy & Ty & Dy). simpl in *.
  destruct (liv_get s1 D y HI Ly) as (Y0 & r & GY0 & DrY). rewrite Gy in GY0. injection GY0 as <-.
  assert (Hin1 : In u (dsetf s1 Y)).
  { unfold dsetf in *. rewrite <- Dy, DrY in Hin. rewrite DrY.
    destruct (F_mono _ _ F r u Hin) as [H|H]; simpl in H; auto. lia. }
  destruct (P y Y Ly Ny Gy Ty Hin1) as (v & ch & V & A & B & C).
  destruct (F_get _ _ F v V B) as (V' & G' & SM). simpl in G'.
  exists v, ch, V'. split; auto. split; auto. destruct SM as (_ & E & _). congruence.
Qed.

Lemma Pending_K : forall u D q t s0, Pending u D (K q :: t) s0 -> Pending u D t s0.
Proof.
  intros u D q t s0 P x X L N G Tr Hin. destruct (P x X L N G Tr Hin) as (v & ch & V & [A|A] & B); [discriminate|]. exists v, ch, V. auto.
Qed.
Lemma Pending_skip : forall u D v c t s0 V, Pending u D (O v c :: t) s0 -> get_unit s0 v = Some V ->
  (forall x X, liv s0 x -> ~ In x D -> get_unit s0 x = Some X -> tracked X = true -> In u (dsetf s0 X) -> dref V <> dref X) ->
  Pending u D t s0.
Proof.
  intros u D v c t s0 V P GV Hne x X L N G Tr Hin.
  destruct (P x X L N G Tr Hin) as (v' & ch & V' & [A|A] & B & C).
  - injection A as <- <-. rewrite GV in B. injection B as <-. exfalso. exact (Hne x X L N G Tr Hin C).
  - exists v', ch, V'. auto.
Qed.
Lemma Pending_discard : forall u D v c t s0 V r, Pending u D (O v c :: t) s0 -> get_unit s0 v = Some V ->
  dref V = Some r -> r < List.length (sets s0) ->
  Pending u D t (put_set s0 r (set_discard u (get_set s0 r))).
Proof.
  intros u D v c t s0 V r P GV Dr Hr x X L N G Tr Hin.
  rewrite dsetf_put_set in Hin; auto.
  destruct (dref X) as [r'|] eqn:DX; [|contradiction].
  destruct (Nat.eqb r' r) eqn:E.
  - apply In_set_discard in Hin. tauto.
  - assert (Hin0 : In u (dsetf s0 X)) by (unfold dsetf; rewrite DX; auto).
    destruct (P x X L N G Tr Hin0) as (v' & ch & V' & [A|A] & B & C).
    + injection A as <- <-. rewrite GV in B. injection B as <-. rewrite Dr, DX in C. injection C as ->.
      rewrite Nat.eqb_refl in E. discriminate.
    + exists v', ch, V'. split; [exact A|]. split; [exact B | congruence].
Qed.

Lemma notin_remove_eq : forall (u : nat) D, ~ In u D -> remove Nat.eq_dec u D = D.
Proof. intros u D H. apply notin_remove. auto. Qed.

Lemma is_child_true : forall s D V v r, Inv s D -> get_unit s v = Some V -> dref V = Some r ->
  (exists b, is_child s V = Some b /\ (b = true -> liv s v)).
Proof.
  intros s D V v r HI G Dr. destruct (I_ref s D HI v V r G Dr) as [_ Hrange].
  unfold is_child. rewrite child_at_in; auto.
  destruct (nth_error (children s) (Z.to_nat (sidx V))) as [c|] eqn:E.
  - eexists. split; [reflexivity|]. intro Hb. destruct c as [w|]; [|discriminate].
    apply Nat.eqb_eq in Hb. rewrite (I_uid s D HI v V G) in Hb. subst w. exists (Z.to_nat (sidx V)). exact E.
  - apply nth_error_None in E. lia.
Qed.

Lemma dce_loop_ok : forall rec k u D0, RecSpec rec k ->
  forall l s0, Inv s0 (u :: D0) -> u < List.length (units s0) -> Pending u (u :: D0) l s0 -> RankOK s0 l (Z.of_nat k) ->
  exists s1, dce_loop false true rec u s0 l = Ok s1 /\ asteps (s0, u :: D0) (s1, u :: D0) /\
             above k s0 s1 /\ Pending u (u :: D0) [] s1.
Proof.
  intros rec k u D0 HR. induction l as [|i t IH]; intros s0 HI Hu P RK.
  - exists s0. simpl. split; auto. split; [constructor|]. split; [apply above_refl|auto].
  - pose proof (RankOK_tl _ _ _ _ RK) as RKt.
    destruct i as [q|v c].
    + simpl. apply IH; auto. eapply Pending_K; eauto.
    + destruct (RK v c (or_introl eq_refl)) as (V & GV & DnV & LtV).
      cbn [dce_loop]. rewrite GV.
      destruct (dref V) as [r|] eqn:Dr; [|congruence].
      destruct (I_ref s0 (u :: D0) HI v V r GV Dr) as [Hr Hrange].
      destruct (isugen V && negb (multi V)) eqn:Edv.
      2:{ apply IH; auto. eapply Pending_skip; eauto.
          intros x X L N G Tr Hin E. destruct (liv_get s0 _ x HI L) as (X0 & rx & GX & DX).
          rewrite G in GX. injection GX as <-.
          destruct (I_refshape s0 _ HI v x V X rx GV G) as [A _]; [congruence|auto|].
          unfold dcevis in A. rewrite Edv in A. apply tracked_flags in Tr. destruct Tr as (_ & _ & _ & B).
          unfold dcevis in B. congruence. }
      destruct (Nat.eqb (List.length (get_set s0 r)) 0) eqn:El.
      { apply IH; auto. eapply Pending_skip; eauto.
        intros x X L N G Tr Hin E. unfold dsetf in Hin. rewrite <- E, Dr in Hin.
        apply Nat.eqb_eq in El. destruct (get_set s0 r); [contradiction|discriminate]. }
      cbn [andb].
      set (s1 := put_set s0 r (set_discard u (get_set s0 r))).
      assert (A1 : astep (s0, u :: D0) (s1, u :: D0)) by (apply AS_discard; auto; left; auto).
      pose proof (astep_inv _ _ A1) as HI1. simpl in HI1.
      assert (Hu1 : u < List.length (units s1)) by exact Hu.
      assert (P1 : Pending u (u :: D0) t s1) by (eapply Pending_discard; eauto).
      assert (RK1 : RankOK s1 t (Z.of_nat k)) by exact RKt.
      assert (GV1 : get_unit s1 v = Some V) by exact GV.
      destruct (is_child_true s1 _ V v r HI1 GV1 Dr) as (b & Hb & Hlive). rewrite Hb.
      destruct b.
      * (* the input is still part of the graph: optimise it *)
        assert (Lv : liv s1 v) by auto.
        assert (Nv : ~ In v (u :: D0)).
        { intro Hin. destruct (I_dying s0 _ HI v Hin) as (_ & (V0 & GV0 & DV0 & _) & _).
          rewrite GV in GV0. injection GV0 as <-. unfold dsetf in DV0. rewrite Dr in DV0.
          rewrite DV0 in El. discriminate. }
        assert (Hslot : Z.to_nat (sidx V) < k) by lia.
        destruct (HR s1 (u :: D0) v V HI1 Lv Nv GV1 Hslot) as (s2 & E2 & T2 & Ab2). rewrite E2. cbn [bind].
        pose proof (asteps_inv _ _ T2 HI1) as HI2. simpl in HI2.
        pose proof (asteps_Fr _ _ T2) as F2.
        assert (Hu2 : u < List.length (units s2)) by (pose proof (F_len _ _ F2); simpl in *; lia).
        destruct (IH s2 HI2 Hu2) as (s3 & E3 & T3 & Ab3 & P3).
        { exact (Pending_Fr u (u :: D0) t s1 s2 Hu1 HI1 F2 P1). }
        { exact (RankOK_Fr s1 (u :: D0) s2 (u :: D0) t _ F2 RK1). }
        exists s3. split; auto. split.
        { eapply asteps_trans; [apply asteps_one; exact A1|]. eapply asteps_trans; eauto. }
        split; [|exact P3].
        apply (above_trans k s0 s1); [intros j Hj; reflexivity|].
        apply (above_trans k s1 s2); auto. eapply above_le; [|exact Ab2]. lia.
      * destruct (IH s1 HI1 Hu1 P1 RK1) as (s3 & E3 & T3 & Ab3 & P3).
        exists s3. split; auto. split.
        { eapply asteps_trans; [apply asteps_one; exact A1|]. exact T3. }
        split; [|exact P3]. apply (above_trans k s0 s1); [intros j Hj; reflexivity|auto].
Qed.

Lemma remove_cons_same : forall (u : nat) D, ~ In u D -> remove Nat.eq_dec u (u :: D) = D.
Proof. intros u D H. simpl. destruct (Nat.eq_dec u u); [|congruence]. apply notin_remove_eq; auto. Qed.

(* what a rewrite step leaves behind, as far as the pass needs it *)
Lemma RwStep_facts : forall s D self Self s', Inv s D -> get_unit s self = Some Self -> liv s self -> ~ In self D ->
  ukind Self = KBin -> RwStep s D self Self s' ->
  above (Z.to_nat (sidx Self)) s s' /\ liv s' (List.length (units s)) /\
  exists R3, get_unit s' (List.length (units s)) = Some R3 /\ sidx R3 = sidx Self /\ dref R3 = dref Self /\
             (forall m, In m (dsetf s Self) -> In m (dsetf s' R3)) /\
             (opname Self = "-" -> ukind R3 = KBin /\ opname R3 = "+").
Proof.
  intros s D self Self s' HI HS Ls Ns KS [a UA R HA La Na TA Hra Hone HuR TR OkR In1 In2 In3 RV RC].
  pose proof (I_ok s D HI self Self HS) as OkS.
  assert (TS : tracked Self = true) by (apply tracked_of_kind; auto).
  destruct (liv_slot s D self Self HI Ls HS) as [Hss Hpos].
  destruct (liv_slot s D a UA HI La HA) as [Hsa Hposa].
  assert (Hlt : (sidx UA < sidx Self)%Z) by (eapply (rw_rank_sa s D self a Self UA); eauto).
  split; [|split].
  - intros i Hi. rewrite (V_children _ _ _ _ _ _ _ _ RV).
    rewrite !nth_error_upd_other; auto; lia.
  - eapply (rw_liv' s D self a Self UA R s'); eauto.
  - exists (set_place R (wfa Self) (sidx Self) (dref Self)). split; [exact (V_new _ _ _ _ _ _ _ _ RV)|].
    split; [reflexivity|]. split; [reflexivity|]. split.
    + intros m Hm. destruct (liv_get s D self HI Ls) as (S0 & rs & GS & DS). rewrite HS in GS. injection GS as <-.
      unfold dsetf in *. simpl. rewrite DS in *.
      apply (rw_set_untouched s self a Self UA R s' RV); auto.
      eapply (rw_self_untouched s D self a Self UA R); eauto.
    + intro OP. destruct RC; try congruence. simpl. auto.
Qed.

Definition OPT := opt_unit T false true true.

Theorem opt_unit_ok : forall fuel s D u U, Inv s D -> liv s u -> ~ In u D -> get_unit s u = Some U ->
  2 * Z.to_nat (sidx U) + 2 <= fuel ->
  exists s', OPT fuel s u = Ok s' /\ asteps (s, D) (s', D) /\ above (Z.to_nat (sidx U)) s s'.
Proof.
  induction fuel as [|f IH]; intros s D u U HI Lu Nu GU Hf; [lia|].
  set (k := Z.to_nat (sidx U)) in *.
  unfold OPT. cbn [opt_unit]. fold OPT. unfold opt_body. rewrite GU.
  destruct (pure U) eqn:PU; cbn [negb].
  2:{ exists s. split; auto. split; [constructor | apply above_refl]. }
  destruct (liv_get s D u HI Lu) as (U0 & r & GU0 & DU). rewrite GU in GU0. injection GU0 as <-.
  destruct (I_ref s D HI u U r GU DU) as [Hr Hrange].
  unfold desc_of. rewrite DU.
  destruct (Nat.eqb (List.length (get_set s r)) 0) eqn:Edead.
  - (* dead code elimination *)
    assert (Hd : dsetf s U = []).
    { unfold dsetf. rewrite DU. apply Nat.eqb_eq in Edead. destruct (get_set s r); auto; discriminate. }
    assert (A0 : astep (s, D) (s, u :: D)) by (eapply AS_mark; eauto).
    pose proof (astep_inv _ _ A0) as HI0. simpl in HI0.
    assert (P0 : Pending u (u :: D) (ins U) s).
    { intros x X L N G Tr Hin.
      destruct (I_upper s D HI x X u L) as [_ (U1 & ch & G1 & I1)]; auto.
      { intro; apply N; right; auto. }
      rewrite GU in G1. injection G1 as <-. exists x, ch, X. auto. }
    assert (RK0 : RankOK s (ins U) (Z.of_nat k)).
    { intros v ch Hin. destruct (I_rank s D HI u U v ch GU) as (V & GV & DV & Lt); auto; [congruence|].
      exists V. split; auto. split; auto. unfold k. lia. }
    assert (HR : RecSpec (OPT f) k).
    { intros s1 D1 v V H1 L1 N1 G1 Hk. apply IH; auto. lia. }
    destruct (dce_loop_ok (OPT f) k u D HR (ins U) s HI0 (get_lt _ _ _ GU) P0 RK0) as (s1 & E1 & T1 & Ab1 & P1).
    rewrite E1. cbn [bind].
    pose proof (asteps_inv _ _ T1 HI0) as HI1. simpl in HI1.
    pose proof (asteps_Fr _ _ T1) as F1.
    destruct (F_get _ _ F1 u U GU) as (U1 & GU1 & SM). simpl in GU1.
    assert (Hclean : clean s1 (u :: D) u).
    { intros x X L N G Tr Hin. destruct (P1 x X L N G Tr Hin) as (v & ch & V & [] & _). }
    assert (A2 : astep (s1, u :: D) (remove_ugen s1 u, remove Nat.eq_dec u (u :: D))).
    { apply AS_remove; auto. left; auto. }
    rewrite remove_cons_same in A2 by auto.
    exists (remove_ugen s1 u). split; auto. split.
    + eapply asteps_trans; [apply asteps_one; exact A0|].
      eapply asteps_trans; [exact T1|]. apply asteps_one; exact A2.
    + apply (above_trans k s s1); auto.
      assert (Lu1 : liv s1 u) by (destruct (I_dying s1 _ HI1 u (or_introl eq_refl)) as [A _]; auto).
      destruct (remove_ugen_eq s1 _ u U1 HI1 Lu1 GU1) as [Heq _]. rewrite Heq.
      destruct SM as (_ & _ & Es & _). rewrite Es. fold k.
      intros i Hi. simpl. apply nth_error_upd_other. lia.
  - (* not dead *)
    destruct (ukind U) eqn:KU; try (exists s; split; auto; split; [constructor | apply above_refl]).
    destruct (String.eqb (opname U) "+") eqn:Eplus.
    + apply String.eqb_eq in Eplus.
      destruct (opt_add_step T Hminus s D u U HI GU Lu Nu KU Eplus) as (s' & E & [->|[RS HI']]).
      * exists s. split; auto. split; [constructor | apply above_refl].
      * exists s'. split; auto. split; [apply asteps_one; eapply AS_rewrite; eauto|].
        destruct (RwStep_facts s D u U s' HI GU Lu Nu KU RS) as [Ab _]. exact Ab.
    + destruct (String.eqb (opname U) "-") eqn:Eminus; [|exists s; split; auto; split; [constructor | apply above_refl]].
      apply String.eqb_eq in Eminus. unfold opt_sub.
      destruct (sub_rewrite_step T Hplus s D u U HI GU Lu Nu KU Eminus) as [E|(s4 & rr & E & -> & RS & HI4)];
        rewrite E; cbn [bind].
      * exists s. split; auto. split; [constructor | apply above_refl].
      * destruct (RwStep_facts s D u U s4 HI GU Lu Nu KU RS) as (Ab & Ln & R3 & G3 & S3 & D3 & Hmem & Hk).
        destruct (Hk Eminus) as [K3 O3].
        set (n := List.length (units s)) in *.
        assert (Nn : ~ In n D).
        { intro Hin. destruct (I_dying s D HI n Hin) as ([i Hi] & _).
          destruct (I_slot s D HI i n Hi) as (X & rx & GX & _). pose proof (get_lt _ _ _ GX). unfold n in *. lia. }
        destruct f as [|f']; [lia|].
        unfold OPT. cbn [opt_unit]. fold OPT. unfold opt_body. rewrite G3.
        pose proof (I_ok s4 D HI4 n R3 G3) as Ok3.
        destruct (kbin_shape R3 Ok3 K3) as (_ & _ & _ & _ & P3 & _). rewrite P3. cbn [negb].
        unfold desc_of. rewrite D3, DU.
        assert (Hnd : Nat.eqb (List.length (get_set s4 r)) 0 = false).
        { destruct (get_set s r) as [|m l] eqn:Es; [discriminate|].
          assert (In m (dsetf s4 R3)) by (apply Hmem; unfold dsetf; rewrite DU, Es; left; auto).
          unfold dsetf in H. rewrite D3, DU in H. destruct (get_set s4 r); [contradiction|reflexivity]. }
        rewrite Hnd, K3, O3. rewrite String.eqb_refl.
        destruct (opt_add_step T Hminus s4 D n R3 HI4 G3 Ln Nn K3 O3) as (s5 & E5 & [->|[RS5 HI5]]).
        -- exists s4. split; auto. split; [apply asteps_one; eapply AS_rewrite; eauto | exact Ab].
        -- exists s5. split; auto. split.
           ++ eapply AS_cons; [eapply AS_rewrite; eauto|]. apply asteps_one. eapply AS_rewrite; eauto.
           ++ apply (above_trans k s s4); auto.
              destruct (RwStep_facts s4 D n R3 s5 HI4 G3 Ln Nn K3 RS5) as [Ab5 _]. rewrite S3 in Ab5. exact Ab5.
Qed.
End OptUnit.

(* ================================================================== the loop over the children *)
Section Pass.
Variable T : optabs.
Hypothesis Hplus : exists i, sc_spindex_opname T "+" = Some (i, "+").
Hypothesis Hminus : exists i, sc_spindex_opname T "-" = Some (i, "-").

Definition olist (o : option nat) : list nat := match o with Some u => [u] | None => [] end.
Definition live_from (s : st) (k : nat) : list nat := flat_map olist (skipn k (children s)).
Lemma live_from_0 : forall s, live_from s 0 = live s.
Proof. reflexivity. Qed.

Lemma live_from_cons : forall s k u t, live_from s k = u :: t ->
  exists j, k <= j /\ slot s j u /\ t = live_from s (S j).
Proof.
  intros s k. unfold live_from, slot. generalize (children s) as l. intro l. revert k.
  induction l as [|o l' IH]; intros k u t H.
  - destruct k; simpl in H; discriminate.
  - destruct k as [|k'].
    + simpl in H. destruct o as [w|]; simpl in H.
      * injection H as -> <-. exists 0. split; auto.
      * destruct (IH 0 u t H) as (j & Hj & Hs & Ht). exists (S j). split; [lia|]. split; auto.
    + simpl in H. destruct (IH k' u t H) as (j & Hj & Hs & Ht). exists (S j). split; [lia|]. split; auto.
Qed.
Lemma nth_error_skipn' : forall {A} (l : list A) n i, nth_error (skipn n l) i = nth_error l (n + i).
Proof.
  intros A l n. revert l. induction n as [|n IH]; intros l i; simpl; auto.
  destruct l as [|x t]; simpl; auto. destruct i; auto.
Qed.
Lemma list_ext : forall {A} (l l' : list A), (forall i, nth_error l i = nth_error l' i) -> l = l'.
Proof.
  intros A l. induction l as [|x t IH]; intros [|y t'] H; auto.
  - specialize (H 0). discriminate.
  - specialize (H 0). discriminate.
  - pose proof (H 0) as H0. simpl in H0. injection H0 as ->. f_equal. apply IH. intro i. apply (H (S i)).
Qed.
Lemma live_from_above : forall s s' j, above j s s' -> List.length (children s') = List.length (children s) ->
  live_from s' (S j) = live_from s (S j).
Proof.
  intros s s' j A L. unfold live_from. f_equal.
  apply list_ext. intro i. rewrite !nth_error_skipn'. apply A. lia.
Qed.

Lemma opt_loop_ok : forall fuel l s k ok, Inv s [] -> l = live_from s k ->
  2 * List.length (children s) <= fuel ->
  exists s' ok', opt_loop T false true true fuel s l ok = Ok (s', ok') /\ asteps (s, []) (s', []).
Proof.
  intros fuel l. induction l as [|u t IH]; intros s k ok HI Hl Hf.
  - exists s, ok. split; auto. constructor.
  - symmetry in Hl. destruct (live_from_cons s k u t Hl) as (j & Hj & Hs & Ht).
    destruct (I_slot s [] HI j u Hs) as (U & r & GU & SU & DU).
    assert (Hjlt : j < List.length (children s)) by (eapply slot_lt; eauto).
    assert (Hk : Z.to_nat (sidx U) = j) by (rewrite SU; apply Nat2Z.id).
    destruct (opt_unit_ok T Hplus Hminus fuel s [] u U HI (ex_intro _ j Hs) (fun f => f) GU) as (s1 & E1 & T1 & Ab1).
    { rewrite Hk. lia. }
    cbn [opt_loop]. unfold OPT in E1. rewrite E1. cbn [bind].
    pose proof (asteps_inv _ _ T1 HI) as HI1. simpl in HI1.
    pose proof (asteps_Fr _ _ T1) as F1. pose proof (F_clen _ _ F1) as Hcl. simpl in Hcl.
    rewrite Hk in Ab1.
    destruct (IH s1 (S j) (ok && desc_inv_ok s1) HI1) as (s2 & ok2 & E2 & T2).
    { rewrite Ht. symmetry. apply live_from_above; auto. }
    { rewrite Hcl. auto. }
    exists s2, ok2. split; auto. eapply asteps_trans; eauto.
Qed.
End Pass.
