(* C03 -- the statements of props/C03.v in the exact form used there. *)
From Coq Require Import ZArith List Bool Arith Lia.
Import ListNotations.
Require Import SC3.model.Mce SC3.proofs.C03_mce SC3.proofs.C03_lists.

Lemma mce_units_guard : forall cls k args st r st',
  forallb noempty args = true ->
  multi_new (new1_plain cls k) args st = Ok r st' ->
  exists new, st' = st ++ new /\ length new = count_calls args /\ Forall (scalar_vector cls) new.
Proof.
  intros cls k args st r st' Hn H.
  destruct (multi_new_units _ _ _ _ _ _ H) as (new & -> & L & _).
  unfold multi_new in H.
  destruct (multi_new_f_units_guard _ _ _ _ _ _ _ Hn H) as (new2 & E & P).
  apply app_inv_head in E. subst. eauto.
Qed.
Lemma mce_total : forall cls k args st,
  forallb noempty args = true -> exists r st', multi_new (new1_plain cls k) args st = Ok r st'.
Proof. intros. unfold multi_new. apply multi_new_f_total; auto. Qed.

Lemma flop_law_lemma : forall lst, lst <> [] ->
  length (flop lst) = list_max (map (fun x => length (as_list x)) lst) /\
  forall i, i < length (flop lst) ->
    nth_error (flop lst) i = Some (map (fun x => wrap_at (as_list x) i) lst).
Proof. intros lst H. split; [now apply flop_length|]. intros; now apply flop_row. Qed.

Lemma cl_madd_is_multi_new : forall B self mul add st,
  cl_madd B self mul add st = multi_new (muladd_new1 B) [Lst self; mul; add] st.
Proof. reflexivity. Qed.
