(* C11 -- proofs about coq/model/Cond.v: Condition / FlowVar as a machine over waiting
   routines; every statement is for ALL cells and ALL operation sequences. *)
From Coq Require Import ZArith List Bool Arith Lia.
Require Import SC3.model.Cond.
Import ListNotations.

Lemma count_app_one : forall (l : list nat) (who r : nat),
  count_occ Nat.eq_dec (l ++ [who]) r = (count_occ Nat.eq_dec l r + if Nat.eqb who r then 1 else 0)%nat.
Proof.
  intros l who r. rewrite count_occ_app. simpl.
  destruct (Nat.eq_dec who r) as [E | E].
  - subst. rewrite Nat.eqb_refl. reflexivity.
  - apply Nat.eqb_neq in E. rewrite E. reflexivity.
Qed.

(* what one step does to the number of pending entries of routine r *)
Lemma cstep_conservation : forall (o : cop) (c : cell) (r : nat),
  (count_occ Nat.eq_dec (snd (cstep o c)) r + count_occ Nat.eq_dec (waiting (fst (cstep o c))) r
   = count_occ Nat.eq_dec (waiting c) r + hung_waits r [o] c)%nat.
Proof.
  intros o c r. unfold hung_waits.
  destruct o as [who | | | b | v]; simpl.
  - unfold cell_wait. destruct (cell_test c) eqn:T; simpl.
    + rewrite andb_false_r. lia.
    + rewrite andb_true_r, count_app_one. destruct (Nat.eqb who r); lia.
  - unfold cell_signal. destruct (cell_test c); simpl; lia.
  - lia.
  - unfold cell_settest. destruct (ckind_of c); simpl; lia.
  - unfold cell_flowset. destruct (ckind_of c) as [t | [u |] | eb]; simpl; try lia.
Qed.

Lemma hung_waits_cons : forall r o ops c,
  hung_waits r (o :: ops) c = (hung_waits r [o] c + hung_waits r ops (fst (cstep o c)))%nat.
Proof. intros. simpl. lia. Qed.

(* every wait that hung is matched by exactly one wake-up or is still waiting:
   nothing is woken twice, nothing is lost *)
Lemma crun_conservation : forall (ops : list cop) (c : cell) (r : nat),
  (count_occ Nat.eq_dec (snd (crun ops c)) r + count_occ Nat.eq_dec (waiting (fst (crun ops c))) r
   = count_occ Nat.eq_dec (waiting c) r + hung_waits r ops c)%nat.
Proof.
  induction ops as [| o ops IH]; intros c r.
  - simpl. lia.
  - rewrite hung_waits_cons.
    pose proof (cstep_conservation o c r) as H1.
    specialize (IH (fst (cstep o c)) r).
    simpl crun. destruct (cstep o c) as [c1 w1] eqn:E1. simpl in *.
    destruct (crun ops c1) as [c2 w2] eqn:E2. simpl in *.
    rewrite count_occ_app. lia.
Qed.

(* a signal whose test holds hands over exactly the waiting list, in order, and empties it;
   signalling again wakes nobody *)
Lemma signal_exactly_once : forall c : cell, cell_test c = true ->
  snd (cstep CoSignal c) = waiting c /\
  waiting (fst (cstep CoSignal c)) = [] /\
  snd (cstep CoSignal (fst (cstep CoSignal c))) = [].
Proof.
  intros c T. simpl. unfold cell_signal. rewrite T. simpl.
  repeat split. unfold cell_test in *. simpl. destruct (ckind_of c) as [b | [v |] | eb]; try rewrite T; reflexivity.
Qed.

(* a step wakes r only if r was waiting, and only (a) by unhang, or (b) by a signal or a
   flow-variable assignment after which the test holds *)
Lemma wake_only_when_holds : forall (o : cop) (c : cell) (r : nat),
  In r (snd (cstep o c)) ->
  In r (waiting c) /\
  (o = CoUnhang \/
   (cell_test (fst (cstep o c)) = true /\ (o = CoSignal \/ exists v, o = CoFlowSet v))).
Proof.
  intros o c r. destruct o as [who | | | b | v]; simpl.
  - intros [].
  - unfold cell_signal. destruct (cell_test c) eqn:T; simpl; [| intros []].
    intro H. split; [exact H |]. right. split; [| left; reflexivity].
    unfold cell_test in *. simpl. exact T.
  - intro H. split; [exact H | left; reflexivity].
  - intros [].
  - unfold cell_flowset. destruct (ckind_of c) as [t | [u |] | eb] eqn:K; simpl; try (intros []).
    intro H. split; [exact H |]. right. split; [reflexivity | right; eexists; reflexivity].
Qed.

(* while the test is false nothing but unhang wakes anybody, however often signal is called *)
Definition quiet (o : cop) : bool :=
  match o with CoWait _ | CoSignal => true | _ => false end.

Lemma quiet_keeps_test : forall o c, quiet o = true -> cell_test c = false ->
  cell_test (fst (cstep o c)) = false /\ snd (cstep o c) = [].
Proof.
  intros o c Q T. destruct o; simpl in *; try discriminate.
  - unfold cell_wait. rewrite T. simpl. split; [| reflexivity].
    unfold cell_test in *. simpl. exact T.
  - unfold cell_signal. rewrite T. simpl. auto.
Qed.

Lemma never_before : forall (ops : list cop) (c : cell),
  cell_test c = false -> forallb quiet ops = true -> snd (crun ops c) = [].
Proof.
  induction ops as [| o ops IH]; intros c T Q; simpl in *.
  - reflexivity.
  - apply andb_prop in Q. destruct Q as [Qo Qr].
    destruct (quiet_keeps_test o c Qo T) as [T1 W1].
    destruct (cstep o c) as [c1 w1]. simpl in *. subst w1.
    specialize (IH c1 T1 Qr). destruct (crun ops c1) as [c2 w2]. simpl in *. exact IH.
Qed.

(* FlowVar: once bound the value never changes and every further assignment is refused *)
Lemma flow_bound_step : forall (o : cop) (c : cell) (v : val),
  ckind_of c = CFlow (Some v) -> ckind_of (fst (cstep o c)) = CFlow (Some v).
Proof.
  intros o c v K. destruct o as [who | | | b | v']; simpl.
  - unfold cell_wait. destruct (cell_test c); simpl; exact K.
  - unfold cell_signal. destruct (cell_test c); simpl; exact K.
  - exact K.
  - unfold cell_settest. rewrite K. exact K.
  - unfold cell_flowset. rewrite K. simpl. exact K.
Qed.

Lemma flow_bound_run : forall (ops : list cop) (c : cell) (v : val),
  ckind_of c = CFlow (Some v) -> ckind_of (fst (crun ops c)) = CFlow (Some v).
Proof.
  induction ops as [| o ops IH]; intros c v K; simpl.
  - exact K.
  - pose proof (flow_bound_step o c v K) as K1.
    destruct (cstep o c) as [c1 w1]. simpl in K1. specialize (IH c1 v K1).
    destruct (crun ops c1) as [c2 w2]. simpl in *. exact IH.
Qed.

Lemma flow_single_assignment : forall (c : cell) (v v' : val),
  (ckind_of c = CFlow (Some v) -> cell_flowset v' c = None) /\
  (ckind_of c = CFlow None ->
     exists c' ws, cell_flowset v' c = Some (c', ws) /\ ckind_of c' = CFlow (Some v') /\
                   ws = waiting c /\ waiting c' = []).
Proof.
  intros c v v'. split; intro K; unfold cell_flowset; rewrite K.
  - reflexivity.
  - eexists. eexists. split; [reflexivity |]. simpl. auto.
Qed.

(* ---- the scheduler queue holds at most one pending wake-up per routine ------------------- *)
Definition pend (q : list (Z * nat)) (r : nat) : nat := count_occ Nat.eq_dec (map snd q) r.

Lemma pend_qinsert : forall t r q r',
  pend (qinsert t r q) r' = (pend q r' + if Nat.eqb r r' then 1 else 0)%nat.
Proof.
  intros t r q r'. unfold pend. induction q as [| [t' x] rest IH]; simpl.
  - destruct (Nat.eq_dec r r') as [E | E]; [subst; rewrite Nat.eqb_refl | apply Nat.eqb_neq in E; rewrite E]; reflexivity.
  - destruct (t' <=? t)%Z; simpl.
    + rewrite IH. destruct (Nat.eq_dec x r'); lia.
    + destruct (Nat.eq_dec r r') as [E | E]; [subst; rewrite Nat.eqb_refl | apply Nat.eqb_neq in E; rewrite E];
        destruct (Nat.eq_dec x r'); lia.
Qed.

Lemma pend_qremove : forall r q r',
  pend (qremove r q) r' = if Nat.eqb r r' then 0%nat else pend q r'.
Proof.
  intros r q r'. unfold pend, qremove. induction q as [| [t' x] rest IH]; simpl.
  - destruct (Nat.eqb r r'); reflexivity.
  - destruct (Nat.eqb x r) eqn:X; simpl.
    + apply Nat.eqb_eq in X. subst x. rewrite IH.
      destruct (Nat.eq_dec r r') as [E | E]; [subst; rewrite Nat.eqb_refl; reflexivity |].
      pose proof E as E'. apply Nat.eqb_neq in E'. rewrite E'. reflexivity.
    + apply Nat.eqb_neq in X. rewrite IH.
      destruct (Nat.eq_dec x r') as [E | E].
      * subst x. assert (F : Nat.eqb r r' = false) by (apply Nat.eqb_neq; congruence). rewrite F. reflexivity.
      * reflexivity.
Qed.

(* sched of r: afterwards r has exactly one pending wake-up, whatever it had before; the others keep theirs *)
Lemma pend_enqueue : forall t r q r',
  pend (enqueue t r q) r' = if Nat.eqb r r' then 1%nat else pend q r'.
Proof.
  intros t r q r'. unfold enqueue. rewrite pend_qinsert, pend_qremove.
  destruct (Nat.eqb r r'); lia.
Qed.

Definition one_pending (q : list (Z * nat)) : Prop := forall r, (pend q r <= 1)%nat.

Lemma one_pending_enqueue : forall t r q, one_pending q -> one_pending (enqueue t r q).
Proof. intros t r q H r'. rewrite pend_enqueue. destruct (Nat.eqb r r'); [lia | apply H]. Qed.

Lemma one_pending_enqueue_all : forall t rs q, one_pending q -> one_pending (enqueue_all t rs q).
Proof. intros t rs. induction rs as [| r rest IH]; intros q H; simpl; [exact H | apply IH, one_pending_enqueue, H]. Qed.

Lemma one_pending_pop : forall p q, one_pending (p :: q) -> one_pending q.
Proof.
  intros [t x] q H r. specialize (H r). unfold pend in *. simpl in H.
  destruct (Nat.eq_dec x r); lia.
Qed.

Lemma enqueue_all_keeps : forall t rs q r, ~ In r rs -> pend (enqueue_all t rs q) r = pend q r.
Proof.
  intros t rs. induction rs as [| x rest IH]; intros q r N; simpl; [reflexivity |].
  rewrite IH by (intro; apply N; right; assumption).
  rewrite pend_enqueue. destruct (Nat.eqb x r) eqn:X; [| reflexivity].
  apply Nat.eqb_eq in X. exfalso. apply N. left. exact X.
Qed.

(* every routine handed over by a signal ends up with exactly one pending wake-up *)
Lemma enqueue_all_woken : forall t rs q r, In r rs -> pend (enqueue_all t rs q) r = 1%nat.
Proof.
  intros t rs. induction rs as [| x rest IH]; intros q r I; simpl in *; [contradiction |].
  destruct (in_dec Nat.eq_dec r rest) as [J | J]; [apply IH; exact J |].
  destruct I as [E | E]; [subst x | contradiction].
  rewrite enqueue_all_keeps by exact J. rewrite pend_enqueue, Nat.eqb_refl. reflexivity.
Qed.
