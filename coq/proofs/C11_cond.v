(* C11 -- proofs about coq/model/Cond.v: Condition / FlowVar as a machine over waiting
   routines; every statement is for ALL cells and ALL operation sequences. *)
From Coq Require Import ZArith List Bool Arith Lia.
Require Import SC3.model.Cond.
Import ListNotations.

Lemma count_app_one : forall (l : list nat) (who r : nat),
  count_occ Nat.eq_dec (l ++ [who]) r = (count_occ Nat.eq_dec l r + if Nat.eqb who r then 1 else 0)%nat.
Proof.
  intros l who r. rewrite count_occ_app. simpl.
  destruct (Nat.eq_dec who r) as [E | E].
  - subst. rewrite Nat.eqb_refl. reflexivity.
  - apply Nat.eqb_neq in E. rewrite E. reflexivity.
Qed.

(* what one step does to the number of pending entries of routine r *)
Lemma cstep_conservation : forall (o : cop) (c : cell) (r : nat),
  (count_occ Nat.eq_dec (snd (cstep o c)) r + count_occ Nat.eq_dec (waiting (fst (cstep o c))) r
   = count_occ Nat.eq_dec (waiting c) r + hung_waits r [o] c)%nat.
Proof.
  intros o c r. unfold hung_waits.
  destruct o as [who | | | b | v]; simpl.
  - unfold cell_wait. destruct (cell_test c) eqn:T; simpl.
    + rewrite andb_false_r. lia.
    + rewrite andb_true_r, count_app_one. destruct (Nat.eqb who r); lia.
  - unfold cell_signal. destruct (cell_test c); simpl; lia.
  - lia.
  - unfold cell_settest. destruct (ckind_of c); simpl; lia.
  - unfold cell_flowset. destruct (ckind_of c) as [t | [u |]]; simpl; try lia.
Qed.

Lemma hung_waits_cons : forall r o ops c,
  hung_waits r (o :: ops) c = (hung_waits r [o] c + hung_waits r ops (fst (cstep o c)))%nat.
Proof. intros. simpl. lia. Qed.

(* every wait that hung is matched by exactly one wake-up or is still waiting:
   nothing is woken twice, nothing is lost *)
Lemma crun_conservation : forall (ops : list cop) (c : cell) (r : nat),
  (count_occ Nat.eq_dec (snd (crun ops c)) r + count_occ Nat.eq_dec (waiting (fst (crun ops c))) r
   = count_occ Nat.eq_dec (waiting c) r + hung_waits r ops c)%nat.
Proof.
  induction ops as [| o ops IH]; intros c r.
  - simpl. lia.
  - rewrite hung_waits_cons.
    pose proof (cstep_conservation o c r) as H1.
    specialize (IH (fst (cstep o c)) r).
    simpl crun. destruct (cstep o c) as [c1 w1] eqn:E1. simpl in *.
    destruct (crun ops c1) as [c2 w2] eqn:E2. simpl in *.
    rewrite count_occ_app. lia.
Qed.

(* a signal whose test holds hands over exactly the waiting list, in order, and empties it;
   signalling again wakes nobody *)
Lemma signal_exactly_once : forall c : cell, cell_test c = true ->
  snd (cstep CoSignal c) = waiting c /\
  waiting (fst (cstep CoSignal c)) = [] /\
  snd (cstep CoSignal (fst (cstep CoSignal c))) = [].
Proof.
  intros c T. simpl. unfold cell_signal. rewrite T. simpl.
  repeat split. unfold cell_test in *. simpl. destruct (ckind_of c) as [b | [v |]]; try rewrite T; reflexivity.
Qed.

(* a step wakes r only if r was waiting, and only (a) by unhang, or (b) by a signal or a
   flow-variable assignment after which the test holds *)
Lemma wake_only_when_holds : forall (o : cop) (c : cell) (r : nat),
  In r (snd (cstep o c)) ->
  In r (waiting c) /\
  (o = CoUnhang \/
   (cell_test (fst (cstep o c)) = true /\ (o = CoSignal \/ exists v, o = CoFlowSet v))).
Proof.
  intros o c r. destruct o as [who | | | b | v]; simpl.
  - intros [].
  - unfold cell_signal. destruct (cell_test c) eqn:T; simpl; [| intros []].
    intro H. split; [exact H |]. right. split; [| left; reflexivity].
    unfold cell_test in *. simpl. exact T.
  - intro H. split; [exact H | left; reflexivity].
  - intros [].
  - unfold cell_flowset. destruct (ckind_of c) as [t | [u |]] eqn:K; simpl; try (intros []).
    intro H. split; [exact H |]. right. split; [reflexivity | right; eexists; reflexivity].
Qed.

(* while the test is false nothing but unhang wakes anybody, however often signal is called *)
Definition quiet (o : cop) : bool :=
  match o with CoWait _ | CoSignal => true | _ => false end.

Lemma quiet_keeps_test : forall o c, quiet o = true -> cell_test c = false ->
  cell_test (fst (cstep o c)) = false /\ snd (cstep o c) = [].
Proof.
  intros o c Q T. destruct o; simpl in *; try discriminate.
  - unfold cell_wait. rewrite T. simpl. split; [| reflexivity].
    unfold cell_test in *. simpl. exact T.
  - unfold cell_signal. rewrite T. simpl. auto.
Qed.

Lemma never_before : forall (ops : list cop) (c : cell),
  cell_test c = false -> forallb quiet ops = true -> snd (crun ops c) = [].
Proof.
  induction ops as [| o ops IH]; intros c T Q; simpl in *.
  - reflexivity.
  - apply andb_prop in Q. destruct Q as [Qo Qr].
    destruct (quiet_keeps_test o c Qo T) as [T1 W1].
    destruct (cstep o c) as [c1 w1]. simpl in *. subst w1.
    specialize (IH c1 T1 Qr). destruct (crun ops c1) as [c2 w2]. simpl in *. exact IH.
Qed.

(* FlowVar: once bound the value never changes and every further assignment is refused *)
Lemma flow_bound_step : forall (o : cop) (c : cell) (v : val),
  ckind_of c = CFlow (Some v) -> ckind_of (fst (cstep o c)) = CFlow (Some v).
Proof.
  intros o c v K. destruct o as [who | | | b | v']; simpl.
  - unfold cell_wait. destruct (cell_test c); simpl; exact K.
  - unfold cell_signal. destruct (cell_test c); simpl; exact K.
  - exact K.
  - unfold cell_settest. rewrite K. exact K.
  - unfold cell_flowset. rewrite K. simpl. exact K.
Qed.

Lemma flow_bound_run : forall (ops : list cop) (c : cell) (v : val),
  ckind_of c = CFlow (Some v) -> ckind_of (fst (crun ops c)) = CFlow (Some v).
Proof.
  induction ops as [| o ops IH]; intros c v K; simpl.
  - exact K.
  - pose proof (flow_bound_step o c v K) as K1.
    destruct (cstep o c) as [c1 w1]. simpl in K1. specialize (IH c1 v K1).
    destruct (crun ops c1) as [c2 w2]. simpl in *. exact IH.
Qed.

Lemma flow_single_assignment : forall (c : cell) (v v' : val),
  (ckind_of c = CFlow (Some v) -> cell_flowset v' c = None) /\
  (ckind_of c = CFlow None ->
     exists c' ws, cell_flowset v' c = Some (c', ws) /\ ckind_of c' = CFlow (Some v') /\
                   ws = waiting c /\ waiting c' = []).
Proof.
  intros c v v'. split; intro K; unfold cell_flowset; rewrite K.
  - reflexivity.
  - eexists. eexists. split; [reflexivity |]. simpl. auto.
Qed.
