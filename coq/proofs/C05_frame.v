(* Generic facts about the shared segment executor (KNrt.run_acts) used by the C05 and C07 proofs:
   an induction principle over the primitive operations, what a segment may add to the log,
   ordered insertion. *)
From Coq Require Import ZArith QArith Qround List Bool Lia Lqa Permutation.
Require Import SC3.model.KProg SC3.model.KNrt SC3.model.KRt.
Import ListNotations.
Open Scope Q_scope.

(* ---- ordered insertion --------------------------------------------------- *)
Section Kins.
  Context {A : Type} (kt : A -> Q) (kc : A -> nat).
  Lemma kinsert_in x y l : In y (kinsert kt kc x l) <-> y = x \/ In y l.
  Proof.
    induction l as [|z l IH]; simpl.
    - intuition.
    - destruct (key_leb (kt z) (kc z) (kt x) (kc x)); simpl; rewrite ?IH; intuition.
  Qed.
  Lemma kinsert_perm x l : Permutation (x :: l) (kinsert kt kc x l).
  Proof.
    induction l as [|z l IH]; simpl; auto.
    destruct (key_leb (kt z) (kc z) (kt x) (kc x)); auto.
    eapply perm_trans; [apply perm_swap|]. constructor. exact IH.
  Qed.
  Lemma kinsert_last x l : (forall y, In y l -> key_leb (kt y) (kc y) (kt x) (kc x) = true) ->
    kinsert kt kc x l = l ++ [x].
  Proof.
    induction l as [|z l IH]; simpl; intros H; auto.
    rewrite (H z) by auto. f_equal. apply IH. intros; apply H; auto.
  Qed.
End Kins.

Lemma Qltb_lt x y : Qltb x y = true <-> x < y.
Proof.
  unfold Qltb. rewrite negb_true_iff. split; intros H.
  - apply Qnot_le_lt. intros H1. apply Qle_bool_iff in H1. congruence.
  - destruct (Qle_bool y x) eqn:E; auto. apply Qle_bool_iff in E. lra.
Qed.
Lemma Qltb_ge x y : Qltb x y = false <-> y <= x.
Proof.
  unfold Qltb. rewrite negb_false_iff. apply Qle_bool_iff.
Qed.
Lemma Qmaxq_ge_l x y : x <= Qmaxq x y.
Proof. unfold Qmaxq. destruct (Qle_bool x y) eqn:E; [apply Qle_bool_iff in E; auto|lra]. Qed.
Lemma Qmaxq_ge_r x y : y <= Qmaxq x y.
Proof.
  unfold Qmaxq. destruct (Qle_bool x y) eqn:E; [lra|].
  assert (~ x <= y) by (intros H; apply Qle_bool_iff in H; congruence). lra.
Qed.

(* ---- state projections through the setters ------------------------------ *)
Lemma push_log st t c r b : n_log (push st t c r b) = n_log st. Proof. reflexivity. Qed.
Lemma push_routs st t c r b : n_routs (push st t c r b) = n_routs st. Proof. reflexivity. Qed.
Lemma push_tcs st t c r b : n_tcs (push st t c r b) = n_tcs st. Proof. reflexivity. Qed.
Lemma push_score st t c r b : n_score (push st t c r b) = n_score st. Proof. reflexivity. Qed.
Lemma push_mtime st t c r b : n_mtime (push st t c r b) = n_mtime st. Proof. reflexivity. Qed.

Lemma retime_fold_log c l : forall s,
  n_log (fold_left (fun s e => push s (b2s (n_tcs s) c (e_beats e)) c (e_rid e) (e_beats e)) l s) = n_log s
  /\ n_routs (fold_left (fun s e => push s (b2s (n_tcs s) c (e_beats e)) c (e_rid e) (e_beats e)) l s) = n_routs s
  /\ n_tcs (fold_left (fun s e => push s (b2s (n_tcs s) c (e_beats e)) c (e_rid e) (e_beats e)) l s) = n_tcs s
  /\ n_score (fold_left (fun s e => push s (b2s (n_tcs s) c (e_beats e)) c (e_rid e) (e_beats e)) l s) = n_score s
  /\ n_scnt (fold_left (fun s e => push s (b2s (n_tcs s) c (e_beats e)) c (e_rid e) (e_beats e)) l s) = n_scnt s
  /\ n_mtime (fold_left (fun s e => push s (b2s (n_tcs s) c (e_beats e)) c (e_rid e) (e_beats e)) l s) = n_mtime s.
Proof.
  induction l as [|e l IH]; intros s; simpl; [repeat split|].
  destruct (IH (push s (b2s (n_tcs s) c (e_beats e)) c (e_rid e) (e_beats e))) as (a & b & d & f & g & h).
  repeat split; [rewrite a|rewrite b|rewrite d|rewrite f|rewrite g|rewrite h]; reflexivity.
Qed.
Lemma retime_proj st i :
  n_log (retime st i) = n_log st /\ n_routs (retime st i) = n_routs st /\ n_tcs (retime st i) = n_tcs st
  /\ n_score (retime st i) = n_score st /\ n_scnt (retime st i) = n_scnt st /\ n_mtime (retime st i) = n_mtime st.
Proof.
  unfold retime.
  destruct (retime_fold_log (CTempo i) (filter (is_clock (CTempo i)) (n_q st))
              (set_q st (filter (fun e => negb (is_clock (CTempo i) e)) (n_q st)))) as (a & b & d & f & g & h).
  repeat split; [rewrite a|rewrite b|rewrite d|rewrite f|rewrite g|rewrite h]; reflexivity.
Qed.

(* ---- induction over the primitive operations of a segment ---------------- *)
Section RunInd.
  Context (rt : option Z) (qk : quirks) (p : prog) (org : origin) (T : Q).
  Context (R : nstate -> nstate -> Prop).
  Hypothesis Rrefl : forall st, R st st.
  Hypothesis Rtrans : forall a b c, R a b -> R b c -> R a c.
  Hypothesis Rsend : forall st lat es, R st (fst (nrt_send rt st org T lat es)).
  Hypothesis Rmsg : forall st m, R st (fst (nrt_sendmsg rt st org T m)).
  Hypothesis Rplay : forall st r c, R st (fst (nrt_play rt qk p st org T r c)).
  Hypothesis Rtempo : forall st i v, R st (fst (nrt_set_tempo rt qk st org T i v)).

  Lemma run_acts_ind : forall acts st cclk st' oc,
    run_acts rt qk p st org T cclk acts = (st', oc) -> R st st'.
  Proof.
    induction acts as [|a acts IH]; intros st cclk st' oc H; simpl in H.
    - inversion H; subst; apply Rrefl.
    - destruct a.
      + destruct (inside org); [inversion H; subst; apply Rrefl | eapply IH; eauto].
      + destruct (snd (nrt_send rt st org T lat [EMsg m]) || negb (inside org)).
        * eapply Rtrans; [apply Rsend | eapply IH; eauto].
        * inversion H; subst. apply Rsend.
      + destruct (snd (nrt_sendmsg rt st org T m) || negb (inside org)).
        * eapply Rtrans; [apply Rmsg | eapply IH; eauto].
        * inversion H; subst. apply Rmsg.
      + destruct (snd (nrt_send rt st org T lat es) || negb (inside org)).
        * eapply Rtrans; [apply Rsend | eapply IH; eauto].
        * inversion H; subst. apply Rsend.
      + destruct (snd (nrt_play rt qk p st org T r c) || negb (inside org)).
        * eapply Rtrans; [apply Rplay | eapply IH; eauto].
        * inversion H; subst. apply Rplay.
      + destruct (snd (nrt_play rt qk p st org T r cclk) || negb (inside org)).
        * eapply Rtrans; [apply Rplay | eapply IH; eauto].
        * inversion H; subst. apply Rplay.
      + destruct (snd (nrt_set_tempo rt qk st org T i v) || negb (inside org)).
        * eapply Rtrans; [apply Rtempo | eapply IH; eauto].
        * inversion H; subst. apply Rtempo.
      + inversion H; subst; apply Rrefl.
  Qed.
End RunInd.

(* a yielding segment consumed exactly the yields up to that one *)
Lemma run_acts_yield rt qk p org T : forall acts st cclk st' d rest,
  run_acts rt qk p st org T cclk acts = (st', OYield d rest) ->
  inside org = true /\ yields acts = d :: yields rest.
Proof.
  induction acts as [|a acts IH]; intros st cclk st' d rest H; simpl in H; [discriminate|].
  destruct a; simpl;
    try (match type of H with
         | (if ?c then _ else _) = _ => destruct c; [eapply IH; eauto | discriminate]
         end).
  - destruct (inside org) eqn:E.
    + inversion H; subst. auto.
    + destruct (IH _ _ _ _ _ H) as [H1 _]. congruence.
  - discriminate.
Qed.

(* ---- what a segment may add to the log ----------------------------------- *)
Definition local_ev (rt : option Z) (org : origin) (T : Q) (ev : event) : Prop :=
  match ev with
  | EvResume _ _ _ _ _ => False
  | EvEnd _ _ _ => False
  | EvPlay o _ _ s => o = org /\ s = T
  | EvSend o s lat es res => o = org /\ s = T /\ res = stamp_bundle (send_mode rt org) T lat es
  | EvSendMsg o s _ => o = org /\ s = T
  | EvTempo o _ _ _ => o = org
  end.

Definition log_ext (rt : option Z) (org : origin) (T : Q) (st st' : nstate) : Prop :=
  exists new, n_log st' = new ++ n_log st /\ Forall (local_ev rt org T) new.

Lemma log_ext_refl rt org T st : log_ext rt org T st st.
Proof. exists []. split; auto. Qed.
Lemma log_ext_trans rt org T a b c : log_ext rt org T a b -> log_ext rt org T b c -> log_ext rt org T a c.
Proof.
  intros (n1 & H1 & F1) (n2 & H2 & F2). exists (n2 ++ n1). split.
  - rewrite H2, H1, app_assoc. reflexivity.
  - apply Forall_app; auto.
Qed.
Lemma log_ext_one rt org T st st' ev : n_log st' = ev :: n_log st -> local_ev rt org T ev -> log_ext rt org T st st'.
Proof. intros H L. exists [ev]. split; auto. Qed.

Lemma send_log_ext rt org T st lat es : log_ext rt org T st (fst (nrt_send rt st org T lat es)).
Proof.
  unfold nrt_send. destruct (stamp_bundle (send_mode rt org) T lat es) eqn:E.
  - destruct rt; simpl; (eapply log_ext_one; [reflexivity|]); simpl; auto.
  - simpl. eapply log_ext_one; [reflexivity|]. simpl. auto.
Qed.
Lemma sendmsg_log_ext rt org T st m : log_ext rt org T st (fst (nrt_sendmsg rt st org T m)).
Proof.
  unfold nrt_sendmsg. destruct rt.
  - simpl. eapply log_ext_one; [reflexivity|]. simpl; auto.
  - apply send_log_ext.
Qed.
Lemma play_log_ext rt qk p org T st r c : log_ext rt org T st (fst (nrt_play rt qk p st org T r c)).
Proof.
  unfold nrt_play. destruct (nth_error (p_bodies p) r); [|apply log_ext_refl].
  destruct (clock_ok (n_tcs st) c && clock_ok_mode rt c); [|apply log_ext_refl].
  simpl. unfold nrt_sched_play. eapply log_ext_one with (ev := EvPlay org (length (n_routs st)) c T).
  - destruct rt; reflexivity.
  - simpl; auto.
Qed.
Lemma tempo_log_ext rt qk org T st i v : log_ext rt org T st (fst (nrt_set_tempo rt qk st org T i v)).
Proof.
  unfold nrt_set_tempo. destruct (nth_error (n_tcs st) i).
  - destruct (tc_set_tempo t T v).
    + simpl. eapply log_ext_one with (ev := EvTempo org i v true); [|simpl; reflexivity]. simpl.
      destruct rt; [reflexivity|]. destruct (qk_tempo_frozen qk); [reflexivity|].
      f_equal. match goal with |- n_log (retime ?s ?j) = _ => destruct (retime_proj s j) as [HH _]; rewrite HH end. reflexivity.
    + simpl. eapply log_ext_one; [reflexivity|simpl; auto].
  - simpl. eapply log_ext_one; [reflexivity|simpl; auto].
Qed.

Lemma run_acts_log_ext rt qk p org T acts st cclk st' oc :
  run_acts rt qk p st org T cclk acts = (st', oc) -> log_ext rt org T st st'.
Proof.
  apply run_acts_ind.
  - apply log_ext_refl.
  - apply log_ext_trans.
  - intros; apply send_log_ext.
  - intros; apply sendmsg_log_ext.
  - intros; apply play_log_ext.
  - intros; apply tempo_log_ext.
Qed.
