(* C09 -- representation invariant of TaskQueue and refinement to the sorted-list spec. *)
From Coq Require Import QArith ZArith List Bool Arith Permutation Sorting Lia Lqa.
Import ListNotations.
Require Import SC3.model.TaskQ SC3.proofs.C09_order.
Local Open Scope nat_scope.

(* ---- the invariant --------------------------------------------------------- *)
Record inv (s : tq) : Prop := mkInv {
  (* counts identify entries *)
  inv_nodup : NoDup (map e_count (heap s));
  (* and are below the next count *)
  inv_lt : Forall (fun e => e_count e < counter s) (heap s);
  (* _entry_finder is exactly the set of live entries (task -> its entry) *)
  inv_finder : forall t c, fget t (finder s) = Some c <-> exists p, In (mkE p c (Some t)) (heap s);
  (* _removed_counter is the number of tombstones still in _queue *)
  inv_removed : removed s = Z.of_nat (tombs (heap s))
}.

Definition reachable (s : tq) : Prop := exists ops, fst (run ops tq_init) = s.

(* ---- small list facts -------------------------------------------------------- *)
Lemma entry_eta : forall e t, e_task e = Some t -> e = mkE (e_prio e) (e_count e) (Some t).
Proof. intros [p c k] t H. simpl in *. subst. reflexivity. Qed.

Lemma filter_id : forall (A : Type) (f : A -> bool) l,
  (forall x, In x l -> f x = true) -> filter f l = l.
Proof.
  intros A f l. induction l as [| a r IH]; intro H; simpl.
  - reflexivity.
  - rewrite (H a (or_introl eq_refl)). f_equal. apply IH. intros x Hx. apply H. right. exact Hx.
Qed.

Lemma filter_perm : forall (A : Type) (f : A -> bool) l l',
  Permutation l l' -> Permutation (filter f l) (filter f l').
Proof.
  intros A f l l' P. induction P as [| x l l' P IH | x y l | l l' l'' P1 IH1 P2 IH2]; simpl.
  - constructor.
  - destruct (f x); [apply perm_skip |]; exact IH.
  - destruct (f x); destruct (f y); try apply Permutation_refl. apply perm_swap.
  - eapply perm_trans; eassumption.
Qed.

Lemma last_opt_in : forall (A : Type) (l : list A) x, last_opt l = Some x -> In x l.
Proof.
  intros A l. induction l as [| c l IHl]; intros x L.
  - discriminate.
  - destruct l as [| d l'].
    + simpl in L. inversion L. left. reflexivity.
    + right. apply IHl. exact L.
Qed.

Lemma last_opt_none : forall (A : Type) (l : list A), last_opt l = None -> l = [].
Proof.
  intros A l. induction l as [| c l IHl]; intro L.
  - reflexivity.
  - destruct l as [| d l'].
    + discriminate.
    + assert (H : d :: l' = []) by (apply IHl; exact L). discriminate.
Qed.

(* ---- live / tombs ------------------------------------------------------------ *)
Lemma live_cons : forall e r, live (e :: r) = live_of e ++ live r.
Proof. reflexivity. Qed.

Lemma live_cons_some : forall e r t, e_task e = Some t ->
  live (e :: r) = (e_prio e, e_count e, t) :: live r.
Proof. intros e r t H. rewrite live_cons. unfold live_of. rewrite H. reflexivity. Qed.

Lemma live_cons_none : forall e r, e_task e = None -> live (e :: r) = live r.
Proof. intros e r H. rewrite live_cons. unfold live_of. rewrite H. reflexivity. Qed.

Lemma tombs_cons_some : forall e r t, e_task e = Some t -> tombs (e :: r) = tombs r.
Proof. intros e r t H. unfold tombs. simpl. rewrite H. reflexivity. Qed.

Lemma tombs_cons_none : forall e r, e_task e = None -> tombs (e :: r) = S (tombs r).
Proof. intros e r H. unfold tombs. simpl. rewrite H. reflexivity. Qed.

Lemma in_live : forall h p c t, In (p, c, t) (live h) <-> In (mkE p c (Some t)) h.
Proof.
  intros h p c t. unfold live. rewrite in_flat_map. split.
  - intros [e [He Hin]]. destruct e as [p' c' [t' |]]; unfold live_of in Hin; simpl in Hin.
    + destruct Hin as [Hin | []]. inversion Hin; subst. exact He.
    + contradiction.
  - intro H. exists (mkE p c (Some t)). split; [exact H | left; reflexivity].
Qed.

Lemma live_perm : forall h h', Permutation h h' -> Permutation (live h) (live h').
Proof. intros h h' P. unfold live. apply Permutation_flat_map. exact P. Qed.

Lemma tombs_perm : forall h h', Permutation h h' -> tombs h = tombs h'.
Proof.
  intros h h' P. unfold tombs. apply Permutation_length. apply filter_perm. exact P.
Qed.

Lemma length_live_tombs : forall h, length h = length (live h) + tombs h.
Proof.
  induction h as [| e r IH].
  - reflexivity.
  - destruct (e_task e) as [t |] eqn:T.
    + rewrite (live_cons_some e r t T), (tombs_cons_some e r t T). simpl. lia.
    + rewrite (live_cons_none e r T), (tombs_cons_none e r T). simpl. lia.
Qed.

Lemma live_count_in : forall h x, In x (live h) -> In (snd (ikey x)) (map e_count h).
Proof.
  intros h [[p c] t] H. apply in_live in H. simpl.
  change c with (e_count (mkE p c (Some t))). apply in_map. exact H.
Qed.

Lemma live_counts_nodup : forall h,
  NoDup (map e_count h) -> NoDup (map (fun x => snd (ikey x)) (live h)).
Proof.
  induction h as [| e r IH]; intro N.
  - constructor.
  - simpl in N. inversion N as [| c' r' Nc Nr]; subst.
    destruct (e_task e) as [t |] eqn:T.
    + rewrite (live_cons_some e r t T). simpl. constructor.
      * intro H. apply Nc. apply in_map_iff in H. destruct H as [x [Hx1 Hx2]].
        rewrite <- Hx1. apply live_count_in. exact Hx2.
      * apply IH. exact Nr.
    + rewrite (live_cons_none e r T). apply IH. exact Nr.
Qed.

Lemma live_sorted : forall h, sorted ekey h -> sorted ikey (live h).
Proof.
  induction h as [| e r IH]; intro S.
  - constructor.
  - inversion S as [| e' r' Sr Fr]; subst.
    destruct (e_task e) as [t |] eqn:T.
    + rewrite (live_cons_some e r t T). constructor.
      * apply IH. exact Sr.
      * rewrite Forall_forall in *. intros [[p c] t'] Hz. apply in_live in Hz.
        specialize (Fr _ Hz). exact Fr.
    + rewrite (live_cons_none e r T). apply IH. exact Sr.
Qed.

Lemma contents_sorted : forall s, sorted ikey (contents s).
Proof. intro s. unfold contents. apply live_sorted. apply sort_by_sorted. Qed.

Lemma contents_perm : forall s, Permutation (contents s) (live (heap s)).
Proof. intro s. unfold contents. apply live_perm. apply sort_by_perm. Qed.

Lemma in_contents : forall s p c t,
  In (p, c, t) (contents s) <-> In (mkE p c (Some t)) (heap s).
Proof.
  intros s p c t. rewrite <- in_live. split; intro H.
  - apply (Permutation_in _ (contents_perm s)). exact H.
  - apply (Permutation_in _ (Permutation_sym (contents_perm s))). exact H.
Qed.

(* Any sorted arrangement of the live entries IS the abstract contents. *)
Lemma contents_char : forall h l,
  NoDup (map e_count h) -> sorted ikey l -> Permutation l (live h) ->
  l = live (sort_by ekey h).
Proof.
  intros h l N S P. apply (sorted_unique _ ikey).
  - exact S.
  - apply live_sorted. apply sort_by_sorted.
  - eapply perm_trans; [exact P |]. apply live_perm. apply Permutation_sym. apply sort_by_perm.
  - apply (Permutation_NoDup (l := map (fun x => snd (ikey x)) (live h))).
    + apply Permutation_map. apply Permutation_sym. exact P.
    + apply live_counts_nodup. exact N.
Qed.

(* ---- the finder dict ------------------------------------------------------- *)
Lemma fget_fdel_same : forall t f, fget t (fdel t f) = None.
Proof.
  intros t f. induction f as [| [t' c] r IH]; simpl.
  - reflexivity.
  - destruct (Z.eqb t t') eqn:E; simpl.
    + exact IH.
    + rewrite E. exact IH.
Qed.

Lemma fget_fdel_other : forall t t' f, t' <> t -> fget t' (fdel t f) = fget t' f.
Proof.
  intros t t' f N. induction f as [| [u c] r IH]; simpl.
  - reflexivity.
  - destruct (Z.eqb t u) eqn:E; simpl.
    + apply Z.eqb_eq in E. subst u.
      assert (E' : Z.eqb t' t = false) by (apply Z.eqb_neq; exact N).
      rewrite E'. exact IH.
    + destruct (Z.eqb t' u); [reflexivity | exact IH].
Qed.

(* ---- tombstoning an entry ---------------------------------------------------- *)
Lemma tomb_count_counts : forall c h, map e_count (tomb_count c h) = map e_count h.
Proof.
  intros c h. induction h as [| e r IH]; simpl.
  - reflexivity.
  - rewrite IH. destruct (e_count e =? c); reflexivity.
Qed.

Lemma tomb_count_absent : forall c h, ~ In c (map e_count h) -> tomb_count c h = h.
Proof.
  intros c h. induction h as [| e r IH]; intro N; simpl.
  - reflexivity.
  - simpl in N. destruct (e_count e =? c) eqn:E.
    + apply Nat.eqb_eq in E. exfalso. apply N. left. exact E.
    + f_equal. apply IH. intro H. apply N. right. exact H.
Qed.

Lemma in_tomb_count : forall c h p' c' t',
  In (mkE p' c' (Some t')) (tomb_count c h) <-> In (mkE p' c' (Some t')) h /\ c' <> c.
Proof.
  intros c h p' c' t'. unfold tomb_count. rewrite in_map_iff. split.
  - intros [e [He Hin]]. destruct (e_count e =? c) eqn:E.
    + discriminate.
    + subst e. split; [exact Hin |]. simpl in E. apply Nat.eqb_neq. exact E.
  - intros [Hin N]. exists (mkE p' c' (Some t')). split; [| exact Hin].
    simpl. apply Nat.eqb_neq in N. rewrite N. reflexivity.
Qed.

Lemma live_tomb_count : forall c t h,
  (forall e, In e h -> (e_count e = c <-> e_task e = Some t)) ->
  live (tomb_count c h) = remove_task t (live h).
Proof.
  intros c t h. induction h as [| e r IH]; intro H.
  - reflexivity.
  - assert (Hr : forall e0, In e0 r -> (e_count e0 = c <-> e_task e0 = Some t)).
    { intros e0 H0. apply H. right. exact H0. }
    specialize (IH Hr). specialize (H e (or_introl eq_refl)).
    change (tomb_count c (e :: r))
      with ((if e_count e =? c then mkE (e_prio e) (e_count e) None else e) :: tomb_count c r).
    destruct (e_count e =? c) eqn:E.
    + apply Nat.eqb_eq in E. assert (T : e_task e = Some t) by (apply H; exact E).
      rewrite live_cons_none by reflexivity. rewrite (live_cons_some e r t T).
      unfold remove_task. simpl. unfold itask. simpl. rewrite Z.eqb_refl. simpl. exact IH.
    + apply Nat.eqb_neq in E. destruct (e_task e) as [t' |] eqn:T.
      * rewrite (live_cons_some e _ t' T), (live_cons_some e r t' T).
        unfold remove_task. simpl. unfold itask. simpl.
        assert (N : Z.eqb t t' = false).
        { apply Z.eqb_neq. intro Heq. subst t'. apply E. apply H. reflexivity. }
        rewrite N. simpl. f_equal. exact IH.
      * rewrite (live_cons_none e _ T), (live_cons_none e r T). exact IH.
Qed.

Lemma tombs_tomb_count : forall c p t h,
  NoDup (map e_count h) -> In (mkE p c (Some t)) h ->
  tombs (tomb_count c h) = S (tombs h).
Proof.
  intros c p t h. induction h as [| e r IH]; intros N Hin.
  - contradiction.
  - simpl in N. inversion N as [| c' r' Nc Nr]; subst.
    change (tomb_count c (e :: r))
      with ((if e_count e =? c then mkE (e_prio e) (e_count e) None else e) :: tomb_count c r).
    destruct Hin as [Hin | Hin].
    + subst e. simpl. rewrite Nat.eqb_refl.
      rewrite tombs_cons_none by reflexivity.
      rewrite (tombs_cons_some _ r t) by reflexivity.
      rewrite tomb_count_absent by exact Nc. reflexivity.
    + assert (E : e_count e =? c = false).
      { apply Nat.eqb_neq. intro Heq. apply Nc. rewrite Heq.
        change c with (e_count (mkE p c (Some t))). apply in_map. exact Hin. }
      rewrite E. destruct (e_task e) as [t' |] eqn:T.
      * rewrite (tombs_cons_some e _ t' T), (tombs_cons_some e r t' T). apply IH; assumption.
      * rewrite (tombs_cons_none e _ T), (tombs_cons_none e r T). f_equal. apply IH; assumption.
Qed.

(* ---- remove ------------------------------------------------------------------ *)
Lemma inv_count_task : forall s t c p, inv s -> In (mkE p c (Some t)) (heap s) ->
  forall e, In e (heap s) -> (e_count e = c <-> e_task e = Some t).
Proof.
  intros s t c p I Hin e He. split; intro H.
  - assert (Ee : e = mkE p c (Some t)).
    { apply (nodup_map_inj _ _ e_count (heap s)); [apply (inv_nodup s I) | exact He | exact Hin | exact H]. }
    subst e. reflexivity.
  - assert (F1 : fget t (finder s) = Some (e_count e)).
    { apply (inv_finder s I). exists (e_prio e). rewrite <- (entry_eta e t H). exact He. }
    assert (F2 : fget t (finder s) = Some c).
    { apply (inv_finder s I). exists p. exact Hin. }
    congruence.
Qed.

Lemma remove_ok : forall s t, inv s ->
  inv (tq_remove t s) /\ contents (tq_remove t s) = remove_task t (contents s)
  /\ counter (tq_remove t s) = counter s.
Proof.
  intros s t I. unfold tq_remove. destruct (fget t (finder s)) as [c |] eqn:F.
  - assert (Hex : exists p, In (mkE p c (Some t)) (heap s)) by (apply (inv_finder s I); exact F).
    destruct Hex as [p Hin].
    assert (H := inv_count_task s t c p I Hin).
    split; [| split; [| reflexivity]].
    + constructor; simpl.
      * rewrite tomb_count_counts. apply (inv_nodup s I).
      * apply Forall_forall. intros e He. unfold tomb_count in He. apply in_map_iff in He.
        destruct He as [e0 [He0 Hin0]]. assert (L := inv_lt s I). rewrite Forall_forall in L.
        specialize (L e0 Hin0). destruct (e_count e0 =? c); subst e; simpl; exact L.
      * intros t' c'. destruct (Z.eq_dec t' t) as [Et | Nt].
        { subst t'. rewrite fget_fdel_same. split; [discriminate |].
          intros [p' Hp]. apply in_tomb_count in Hp. destruct Hp as [Hp Nc].
          exfalso. apply Nc. apply (H _ Hp). reflexivity. }
        { rewrite (fget_fdel_other t t' _ Nt). rewrite (inv_finder s I). split.
          - intros [p' Hp]. exists p'. apply in_tomb_count. split; [exact Hp |].
            intro Ec. subst c'. apply Nt.
            assert (T : e_task (mkE p' c (Some t')) = Some t) by (apply (H _ Hp); reflexivity).
            simpl in T. congruence.
          - intros [p' Hp]. apply in_tomb_count in Hp. exists p'. tauto. }
      * rewrite (tombs_tomb_count c p t (heap s) (inv_nodup s I) Hin).
        rewrite (inv_removed s I). lia.
    + unfold contents at 1. simpl. symmetry. apply contents_char.
      * rewrite tomb_count_counts. apply (inv_nodup s I).
      * apply sorted_filter. apply contents_sorted.
      * rewrite (live_tomb_count c t (heap s) H). unfold remove_task. apply filter_perm.
        apply contents_perm.
  - split; [exact I | split; [| reflexivity]].
    unfold remove_task. symmetry. apply filter_id. intros [[p c] t'] Hx.
    apply in_contents in Hx. unfold itask. simpl. apply negb_true_iff. apply Z.eqb_neq.
    intro E. subst t'.
    assert (F' : fget t (finder s) = Some c) by (apply (inv_finder s I); exists p; exact Hx).
    congruence.
Qed.

Lemma remove_finder_none : forall s t, fget t (finder (tq_remove t s)) = None.
Proof.
  intros s t. unfold tq_remove. destruct (fget t (finder s)) eqn:F; simpl.
  - apply fget_fdel_same.
  - exact F.
Qed.

(* ---- add ----------------------------------------------------------------------- *)
Lemma add_ok : forall s p t, inv s ->
  inv (tq_add p t s)
  /\ contents (tq_add p t s) = insert_by ikey (p, counter s, t) (remove_task t (contents s))
  /\ counter (tq_add p t s) = S (counter s).
Proof.
  intros s p t I. unfold tq_add, heappush.
  assert (E1 : match fget t (finder s) with Some _ => tq_remove t s | None => s end = tq_remove t s).
  { unfold tq_remove. destruct (fget t (finder s)); reflexivity. }
  rewrite E1. clear E1.
  destruct (remove_ok s t I) as [I1 [C1 N1]].
  assert (F1 := remove_finder_none s t).
  set (s1 := tq_remove t s) in *. rewrite N1 in *.
  assert (L1 := inv_lt s1 I1). rewrite N1 in L1.
  assert (Nin : ~ In (counter s) (map e_count (heap s1))).
  { intro H. apply in_map_iff in H. destruct H as [e [He1 He2]].
    rewrite Forall_forall in L1. specialize (L1 e He2). lia. }
  split; [| split; [| reflexivity]].
  - constructor; simpl.
    + constructor; [exact Nin | apply (inv_nodup s1 I1)].
    + constructor; [simpl; lia |]. eapply Forall_impl; [| exact L1]. simpl. intros; lia.
    + intros t' c'. destruct (Z.eqb t' t) eqn:Et.
      * apply Z.eqb_eq in Et. subst t'. split.
        { intro H. inversion H; subst. exists p. left. reflexivity. }
        { intros [p' [Hp | Hp]].
          - inversion Hp; subst. reflexivity.
          - exfalso. assert (F' : fget t (finder s1) = Some c')
              by (apply (inv_finder s1 I1); exists p'; exact Hp). congruence. }
      * apply Z.eqb_neq in Et. rewrite (fget_fdel_other t t' _ Et). rewrite (inv_finder s1 I1). split.
        { intros [p' Hp]. exists p'. right. exact Hp. }
        { intros [p' [Hp | Hp]]; [inversion Hp; congruence | exists p'; exact Hp]. }
    + rewrite (tombs_cons_some _ _ t) by reflexivity. apply (inv_removed s1 I1).
  - unfold contents at 1. symmetry.
    apply (contents_char (mkE p (counter s) (Some t) :: heap s1)).
    + simpl. constructor; [exact Nin | apply (inv_nodup s1 I1)].
    + apply insert_by_sorted. apply sorted_filter. apply contents_sorted.
    + eapply perm_trans; [apply insert_by_perm |].
      rewrite (live_cons_some _ _ t) by reflexivity. simpl. apply perm_skip.
      rewrite <- C1. apply contents_perm.
Qed.

(* ---- pop ------------------------------------------------------------------------- *)
Lemma extract_min_none : forall l, extract_min l = None -> l = [].
Proof.
  intros [| x r] H; [reflexivity |]. simpl in H.
  destruct (extract_min r) as [[m r'] |]; [destruct (entry_ltb m x) |]; discriminate.
Qed.

Lemma extract_min_spec : forall l m r, extract_min l = Some (m, r) ->
  Permutation l (m :: r) /\ Forall (fun x => ~ klt (ekey x) (ekey m)) r.
Proof.
  induction l as [| a l IH]; intros m r H; simpl in H.
  - discriminate.
  - destruct (extract_min l) as [[m' r'] |] eqn:E.
    + destruct (IH m' r' eq_refl) as [P F].
      destruct (entry_ltb m' a) eqn:L; inversion H; subst; clear H.
      * unfold entry_ltb in L. apply key_ltb_spec in L. split.
        { eapply perm_trans; [apply perm_skip; exact P | apply perm_swap]. }
        { constructor; [apply klt_asym; exact L | exact F]. }
      * unfold entry_ltb in L. apply key_ltb_false in L. split; [apply Permutation_refl |].
        apply (@Permutation_Forall _ _ (m' :: r')); [apply Permutation_sym; exact P |].
        constructor; [exact L |].
        rewrite Forall_forall in *. intros z Hz.
        apply (kle_trans (ekey m) (ekey m') (ekey z)); [exact L | apply F; exact Hz].
    + apply extract_min_none in E. subst l. inversion H; subst. split; [apply Permutation_refl | constructor].
Qed.

Lemma pop_loop_ok : forall fuel s, inv s -> length (heap s) <= fuel ->
  forall s' r, pop_loop fuel s = (s', r) ->
  inv s' /\ counter s' = counter s /\
  match contents s with
  | [] => r = RKeyError /\ contents s' = []
  | x :: rest => r = RItem (fst (fst x)) (snd x) /\ contents s' = rest
  end.
Proof.
  induction fuel as [| f IH]; intros s I Hlen s' r E.
  - assert (Hnil : heap s = []) by (destruct (heap s); [reflexivity | simpl in Hlen; lia]).
    unfold pop_loop in E. rewrite Hnil in E. simpl in E. inversion E; subst.
    split; [exact I | split; [reflexivity |]].
    unfold contents. rewrite Hnil. simpl. split; reflexivity.
  - simpl in E. destruct (extract_min (heap s)) as [[m h'] |] eqn:X.
    + destruct (extract_min_spec _ _ _ X) as [P G].
      assert (Nmh : NoDup (map e_count (m :: h'))).
      { apply (Permutation_NoDup (l := map e_count (heap s)));
          [apply Permutation_map; exact P | apply (inv_nodup s I)]. }
      simpl in Nmh. inversion Nmh as [| cm rm Ncm Nh']; subst.
      assert (Lmh : Forall (fun e => e_count e < counter s) (m :: h')).
      { apply (@Permutation_Forall _ _ (heap s)); [exact P | apply (inv_lt s I)]. }
      inversion Lmh as [| em rm' Lm Lh']; subst.
      assert (InP : forall x, In x (heap s) <-> In x (m :: h')).
      { intro x. split; intro H;
          [apply (Permutation_in _ P) | apply (Permutation_in _ (Permutation_sym P))]; exact H. }
      destruct (e_task m) as [t |] eqn:T.
      * (* a live minimum: it is returned *)
        assert (Hm : In (mkE (e_prio m) (e_count m) (Some t)) (heap s)).
        { rewrite <- (entry_eta m t T). apply InP. left. reflexivity. }
        assert (Fm : fget t (finder s) = Some (e_count m))
          by (apply (inv_finder s I); exists (e_prio m); exact Hm).
        rewrite Fm in E. inversion E; subst s' r. clear E.
        assert (C : contents s = (e_prio m, e_count m, t) :: live (sort_by ekey h')).
        { symmetry. apply contents_char.
          - apply (inv_nodup s I).
          - constructor.
            + apply live_sorted. apply sort_by_sorted.
            + apply Forall_forall. intros [[p' c'] t'] Hz. apply in_live in Hz.
              assert (Hz' : In (mkE p' c' (Some t')) h')
                by (apply (Permutation_in _ (sort_by_perm _ ekey h')); exact Hz).
              rewrite Forall_forall in G. exact (G _ Hz').
          - eapply perm_trans; [| apply live_perm; apply Permutation_sym; exact P].
            rewrite (live_cons_some m h' t T). apply perm_skip.
            apply live_perm. apply sort_by_perm. }
        rewrite C. simpl. split; [| split; [reflexivity | split; reflexivity]].
        constructor; simpl.
        { exact Nh'. }
        { exact Lh'. }
        { intros t' c'. destruct (Z.eq_dec t' t) as [Et | Nt].
          - subst t'. rewrite fget_fdel_same. split; [discriminate |].
            intros [p' Hp]. exfalso.
            assert (F' : fget t (finder s) = Some c').
            { apply (inv_finder s I). exists p'. apply InP. right. exact Hp. }
            assert (Ec : c' = e_count m) by congruence. subst c'.
            apply Ncm. change (e_count m) with (e_count (mkE p' (e_count m) (Some t))).
            apply in_map. exact Hp.
          - rewrite (fget_fdel_other t t' _ Nt). rewrite (inv_finder s I). split.
            + intros [p' Hp]. exists p'. apply InP in Hp. destruct Hp as [Hp | Hp]; [| exact Hp].
              exfalso. rewrite Hp in T. simpl in T. congruence.
            + intros [p' Hp]. exists p'. apply InP. right. exact Hp. }
        { rewrite (inv_removed s I). rewrite (tombs_perm _ _ P).
          rewrite (tombs_cons_some m h' t T). reflexivity. }
      * (* a tombstone: dropped, the loop continues *)
        set (s1 := mkTQ h' (finder s) (counter s) (removed s - 1)%Z) in *.
        assert (I1 : inv s1).
        { constructor; simpl.
          - exact Nh'.
          - exact Lh'.
          - intros t' c'. rewrite (inv_finder s I). split.
            + intros [p' Hp]. exists p'. apply InP in Hp. destruct Hp as [Hp | Hp]; [| exact Hp].
              exfalso. rewrite Hp in T. simpl in T. discriminate.
            + intros [p' Hp]. exists p'. apply InP. right. exact Hp.
          - rewrite (inv_removed s I). rewrite (tombs_perm _ _ P).
            rewrite (tombs_cons_none m h' T). lia. }
        assert (C : contents s = contents s1).
        { symmetry. apply contents_char.
          - apply (inv_nodup s I).
          - apply contents_sorted.
          - eapply perm_trans; [apply contents_perm |]. simpl.
            eapply perm_trans; [| apply live_perm; apply Permutation_sym; exact P].
            rewrite (live_cons_none m h' T). apply Permutation_refl. }
        assert (Hl : length (heap s1) <= f).
        { simpl. apply Permutation_length in P. simpl in P. lia. }
        destruct (IH s1 I1 Hl s' r E) as [I' [N' M']].
        split; [exact I' | split; [exact N' |]]. rewrite C. exact M'.
    + inversion E; subst. apply extract_min_none in X.
      split; [exact I | split; [reflexivity |]].
      unfold contents. rewrite X. simpl. split; reflexivity.
Qed.

Lemma pop_ok : forall s s' r, inv s -> tq_pop s = (s', r) ->
  inv s' /\ counter s' = counter s /\
  match contents s with
  | [] => r = RKeyError /\ contents s' = []
  | x :: rest => r = RItem (fst (fst x)) (snd x) /\ contents s' = rest
  end.
Proof.
  intros s s' r I E. unfold tq_pop, pop_fuel in E.
  apply (pop_loop_ok (length (heap s)) s I (le_n _) s' r E).
Qed.

(* the stated fuel suffices: pop never runs out *)
Lemma pop_fuel_sufficient : forall s, inv s -> snd (tq_pop s) <> ROutOfFuel.
Proof.
  intros s I. destruct (tq_pop s) as [s' r] eqn:E. simpl.
  destruct (pop_ok s s' r I E) as [_ [_ M]].
  destruct (contents s); destruct M as [M _]; rewrite M; discriminate.
Qed.

(* ---- peek ------------------------------------------------------------------------ *)
Section Select.
  Variable better : entry -> entry -> bool.
  Hypothesis better_irrefl : forall x, better x x = false.
  Hypothesis better_trans : forall x y z, better x y = true -> better y z = true -> better x z = true.
  Hypothesis better_negtrans : forall x y z, better x z = true -> better x y = true \/ better y z = true.

  Lemma select_spec : forall l b,
    In (select better b l) (b :: l) /\
    forall y, In y (b :: l) -> better y (select better b l) = false.
  Proof.
    induction l as [| x r IH]; intro b; simpl.
    - split; [left; reflexivity |]. intros y [Hy | []]. subst y. apply better_irrefl.
    - destruct (IH (if better x b then x else b)) as [Hin Hmin].
      set (e := select better (if better x b then x else b) r) in *.
      destruct (better x b) eqn:Exb.
      + split.
        * destruct Hin as [Hin | Hin]; [right; left; exact Hin | right; right; exact Hin].
        * intros y [Hy | [Hy | Hy]].
          { subst y. destruct (better b e) eqn:Ebe; [| reflexivity].
            assert (Hxe : better x e = true) by (apply (better_trans x b e); assumption).
            rewrite (Hmin x (or_introl eq_refl)) in Hxe. discriminate. }
          { subst y. apply Hmin. left. reflexivity. }
          { apply Hmin. right. exact Hy. }
      + split.
        * destruct Hin as [Hin | Hin]; [left; exact Hin | right; right; exact Hin].
        * intros y [Hy | [Hy | Hy]].
          { subst y. apply Hmin. left. reflexivity. }
          { subst y. destruct (better x e) eqn:Exe; [| reflexivity].
            destruct (better_negtrans x b e Exe) as [H | H].
            - congruence.
            - rewrite (Hmin b (or_introl eq_refl)) in H. discriminate. }
          { apply Hmin. right. exact Hy. }
  Qed.
End Select.

Lemma small_better_irrefl : forall x, small_better x x = false.
Proof.
  intro x. unfold small_better. destruct (xkey x); [| reflexivity].
  apply key_ltb_false. apply klt_irrefl.
Qed.
Lemma small_better_trans : forall x y z,
  small_better x y = true -> small_better y z = true -> small_better x z = true.
Proof.
  intros x y z. unfold small_better.
  destruct (xkey x), (xkey y), (xkey z); try discriminate; try reflexivity.
  rewrite !key_ltb_spec. apply klt_trans.
Qed.
Lemma small_better_negtrans : forall x y z,
  small_better x z = true -> small_better x y = true \/ small_better y z = true.
Proof.
  intros x y z. unfold small_better.
  destruct (xkey x), (xkey y), (xkey z); try discriminate; auto.
  rewrite !key_ltb_spec. apply klt_negtrans.
Qed.
Lemma large_better_irrefl : forall x, large_better x x = false.
Proof.
  intro x. unfold large_better. destruct (xkey x); [| reflexivity].
  apply key_ltb_false. apply klt_irrefl.
Qed.
Lemma large_better_trans : forall x y z,
  large_better x y = true -> large_better y z = true -> large_better x z = true.
Proof.
  intros x y z. unfold large_better.
  destruct (xkey x), (xkey y), (xkey z); try discriminate; try reflexivity.
  rewrite !key_ltb_spec. intros H1 H2. apply (klt_trans _ _ _ H2 H1).
Qed.
Lemma large_better_negtrans : forall x y z,
  large_better x z = true -> large_better x y = true \/ large_better y z = true.
Proof.
  intros x y z. unfold large_better.
  destruct (xkey x), (xkey y), (xkey z); try discriminate; auto.
  rewrite !key_ltb_spec. intro H. destruct (klt_negtrans _ k0 _ H); auto.
Qed.

Lemma live_nil_no_live : forall s, contents s = [] ->
  forall e t, In e (heap s) -> e_task e = Some t -> False.
Proof.
  intros s C e t He T. rewrite (entry_eta e t T) in He. apply in_contents in He.
  rewrite C in He. contradiction.
Qed.

Lemma peek_ok : forall s b, inv s -> tq_peek b s = snd (spec_step (OPeek b) (abs s)).
Proof.
  intros s b I. unfold tq_peek, abs, spec_step.
  destruct (heap s) as [| e0 r0] eqn:Hh.
  - assert (C : contents s = []) by (unfold contents; rewrite Hh; reflexivity).
    rewrite C. destruct b; reflexivity.
  - destruct b; simpl.
    + (* smallest *)
      destruct (select_spec small_better small_better_irrefl small_better_trans
                  small_better_negtrans r0 e0) as [Hin Hmin].
      set (e := select small_better e0 r0) in *. rewrite <- Hh in Hin, Hmin.
      destruct (contents s) as [| [[p c] t] rest] eqn:C.
      * destruct (e_task e) as [t' |] eqn:T; [| reflexivity].
        exfalso. exact (live_nil_no_live s C e t' Hin T).
      * assert (Hy : In (mkE p c (Some t)) (heap s)) by (apply in_contents; rewrite C; left; reflexivity).
        assert (By := Hmin _ Hy). unfold small_better in By. simpl in By.
        destruct (e_task e) as [t' |] eqn:T.
        { unfold xkey in By. rewrite T in By. apply key_ltb_false in By.
          assert (He : In (e_prio e, e_count e, t') (contents s)).
          { apply in_contents. rewrite <- (entry_eta e t' T). exact Hin. }
          assert (Ec : e_count e = c).
          { rewrite C in He. destruct He as [He | He]; [inversion He; reflexivity |].
            assert (S := contents_sorted s). rewrite C in S.
            assert (L := sorted_head_le _ ikey _ _ _ S He). unfold kle, ikey in L. simpl in L.
            symmetry. apply (kle_antisym_count (p, c) (ekey e)); [exact By | exact L]. }
          assert (Ee : e = mkE p c (Some t)).
          { apply (nodup_map_inj _ _ e_count (heap s));
              [apply (inv_nodup s I) | exact Hin | exact Hy | exact Ec]. }
          rewrite Ee in T |- *. simpl in *. inversion T; subst. reflexivity. }
        { unfold xkey in By. rewrite T in By. discriminate. }
    + (* largest *)
      destruct (select_spec large_better large_better_irrefl large_better_trans
                  large_better_negtrans r0 e0) as [Hin Hmin].
      set (e := select large_better e0 r0) in *. rewrite <- Hh in Hin, Hmin.
      destruct (last_opt (contents s)) as [[[p c] t] |] eqn:L.
      * assert (Hx : In (p, c, t) (contents s)) by (apply last_opt_in; exact L).
        assert (Hy : In (mkE p c (Some t)) (heap s)) by (apply in_contents; exact Hx).
        assert (By := Hmin _ Hy). unfold large_better in By. simpl in By.
        destruct (e_task e) as [t' |] eqn:T.
        { unfold xkey in By. rewrite T in By. apply key_ltb_false in By.
          assert (He : In (e_prio e, e_count e, t') (contents s)).
          { apply in_contents. rewrite <- (entry_eta e t' T). exact Hin. }
          assert (Ec : e_count e = c).
          { destruct (sorted_last_ge _ ikey _ _ _ (contents_sorted s) L He) as [Heq | Hle].
            - inversion Heq; reflexivity.
            - unfold kle, ikey in Hle. simpl in Hle.
              apply (kle_antisym_count (ekey e) (p, c)); [exact By | exact Hle]. }
          assert (Ee : e = mkE p c (Some t)).
          { apply (nodup_map_inj _ _ e_count (heap s));
              [apply (inv_nodup s I) | exact Hin | exact Hy | exact Ec]. }
          rewrite Ee in T |- *. simpl in *. inversion T; subst. reflexivity. }
        { unfold xkey in By. rewrite T in By. discriminate. }
      * apply last_opt_none in L.
        destruct (e_task e) as [t' |] eqn:T; [| reflexivity].
        exfalso. exact (live_nil_no_live s L e t' Hin T).
Qed.

(* ---- empty, iter, clear ------------------------------------------------------------ *)
Lemma empty_ok : forall s, inv s ->
  tq_empty s = match contents s with [] => true | _ => false end.
Proof.
  intros s I. unfold tq_empty. rewrite (inv_removed s I). rewrite (length_live_tombs (heap s)).
  assert (Hl : length (contents s) = length (live (heap s)))
    by (apply Permutation_length; apply contents_perm).
  destruct (contents s) as [| x r]; simpl in Hl.
  - apply Z.eqb_eq. lia.
  - apply Z.eqb_neq. lia.
Qed.

Lemma iter_live : forall h,
  flat_map (fun e => match e_task e with Some t => [(e_prio e, t)] | None => [] end) h
  = map ipair (live h).
Proof.
  induction h as [| e r IH].
  - reflexivity.
  - destruct (e_task e) as [t |] eqn:T.
    + rewrite (live_cons_some e r t T). simpl. rewrite T. simpl. rewrite IH. reflexivity.
    + rewrite (live_cons_none e r T). simpl. rewrite T. simpl. exact IH.
Qed.

Lemma iter_ok : forall s, tq_iter s = map ipair (contents s).
Proof. intro s. unfold tq_iter, contents. apply iter_live. Qed.

Lemma inv_init : inv tq_init.
Proof.
  constructor; simpl.
  - constructor.
  - constructor.
  - intros t c. split; [discriminate | intros [p []]].
  - reflexivity.
Qed.

(* ---- refinement ---------------------------------------------------------------------- *)
Lemma step_refines : forall o s s' r, inv s -> step o s = (s', r) ->
  inv s' /\ spec_step o (abs s) = (abs s', r).
Proof.
  intros o s s' r I E. destruct o as [p t | t | | b | | |]; simpl in E.
  - inversion E; subst. destruct (add_ok s p t I) as [I' [C' N']].
    split; [exact I' |]. unfold abs. rewrite C', N'. reflexivity.
  - inversion E; subst. destruct (remove_ok s t I) as [I' [C' N']].
    split; [exact I' |]. unfold abs. rewrite C', N'. reflexivity.
  - destruct (pop_ok s s' r I E) as [I' [N' M]].
    split; [exact I' |]. unfold abs. rewrite N'.
    destruct (contents s) as [| x rest]; destruct M as [M1 M2]; rewrite M1, M2; reflexivity.
  - inversion E; subst. split; [exact I |].
    rewrite (peek_ok s' b I). unfold abs. destruct b; reflexivity.
  - inversion E; subst. split; [exact I |]. rewrite (empty_ok s' I). reflexivity.
  - inversion E; subst. split; [exact inv_init | reflexivity].
  - inversion E; subst. split; [exact I |]. rewrite iter_ok. reflexivity.
Qed.

Lemma spec_run_cons : forall o ops s,
  spec_run (o :: ops) s =
  (fst (spec_run ops (fst (spec_step o s))), snd (spec_step o s) :: snd (spec_run ops (fst (spec_step o s)))).
Proof.
  intros o ops s. simpl. destruct (spec_step o s) as [s1 x]. simpl.
  destruct (spec_run ops s1) as [s2 xs]. reflexivity.
Qed.

Lemma run_refines : forall ops s s' rs, inv s -> run ops s = (s', rs) ->
  inv s' /\ spec_run ops (abs s) = (abs s', rs).
Proof.
  induction ops as [| o ops IH]; intros s s' rs I E; simpl in E.
  - inversion E; subst. split; [exact I | reflexivity].
  - destruct (step o s) as [s1 x] eqn:E1. destruct (run ops s1) as [s2 xs] eqn:E2.
    inversion E; subst. destruct (step_refines o s s1 x I E1) as [I1 R1].
    destruct (IH s1 s' xs I1 E2) as [I2 R2].
    split; [exact I2 |]. rewrite spec_run_cons, R1. simpl. rewrite R2. reflexivity.
Qed.

Lemma inv_reachable : forall s, reachable s -> inv s.
Proof.
  intros s [ops H]. destruct (run ops tq_init) as [s' rs] eqn:E. simpl in H. subst s'.
  exact (proj1 (run_refines ops tq_init s rs inv_init E)).
Qed.

Lemma abs_init : abs tq_init = spec_init.
Proof. reflexivity. Qed.

(* ---- independence from the arrangement of the heap ------------------------------------ *)
Definition tq_equiv (s1 s2 : tq) : Prop :=
  Permutation (heap s1) (heap s2)
  /\ (forall t, fget t (finder s1) = fget t (finder s2))
  /\ counter s1 = counter s2 /\ removed s1 = removed s2.

Lemma inv_equiv : forall s1 s2, inv s1 -> tq_equiv s1 s2 -> inv s2.
Proof.
  intros s1 s2 I [P [F [N R]]]. constructor.
  - apply (Permutation_NoDup (l := map e_count (heap s1)));
      [apply Permutation_map; exact P | apply (inv_nodup s1 I)].
  - rewrite <- N. apply (@Permutation_Forall _ _ (heap s1)); [exact P | apply (inv_lt s1 I)].
  - intros t c. rewrite <- F. rewrite (inv_finder s1 I). split; intros [p Hp]; exists p.
    + apply (Permutation_in _ P). exact Hp.
    + apply (Permutation_in _ (Permutation_sym P)). exact Hp.
  - rewrite <- R. rewrite (inv_removed s1 I). rewrite (tombs_perm _ _ P). reflexivity.
Qed.

Lemma abs_equiv : forall s1 s2, inv s1 -> tq_equiv s1 s2 -> abs s1 = abs s2.
Proof.
  intros s1 s2 I E. assert (I2 := inv_equiv s1 s2 I E). destruct E as [P [F [N R]]].
  unfold abs. rewrite N. f_equal. unfold contents at 2. apply contents_char.
  - apply (inv_nodup s2 I2).
  - apply contents_sorted.
  - eapply perm_trans; [apply contents_perm | apply live_perm; exact P].
Qed.

(* a run in which the heap list is arbitrarily re-arranged before every operation *)
Inductive rrun : tq -> list op -> tq -> list out -> Prop :=
| rr_nil : forall s, rrun s [] s []
| rr_cons : forall s s0 s1 s2 o ops x xs,
    tq_equiv s s0 -> step o s0 = (s1, x) -> rrun s1 ops s2 xs ->
    rrun s (o :: ops) s2 (x :: xs).

Lemma rrun_refines : forall s ops s' rs, rrun s ops s' rs -> inv s ->
  inv s' /\ spec_run ops (abs s) = (abs s', rs).
Proof.
  intros s ops s' rs H. induction H as [s | s s0 s1 s2 o ops x xs Q E H IH]; intro I.
  - split; [exact I | reflexivity].
  - assert (I0 := inv_equiv s s0 I Q).
    destruct (step_refines o s0 s1 x I0 E) as [I1 R1].
    destruct (IH I1) as [I2 R2]. split; [exact I2 |].
    rewrite spec_run_cons, (abs_equiv s s0 I Q), R1. simpl. rewrite R2. reflexivity.
Qed.
